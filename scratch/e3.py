from qce_circuit import *
from qce_circuit.structure.circuit_operations import *
from qce_circuit.structure.intrf_circuit_operation import RelationLink, RelationType
from qce_circuit.structure.registry_duration import temporary_override_get_registry_at, GlobalRegistryKey
F=FixedDurationStrategy
def times(c): return [(type(op).__name__, op.start_time, op.end_time) for op in c.operations]

# (a) registry duration change after observation
reg = DurationRegistry()
strat = RegistryDurationStrategy(reg, 'k')
reg.set_registry_at('k', 1.0)
c = DeclarativeCircuit()
c.add(Wait(0, duration_strategy=strat))
c.add(Wait(0, duration_strategy=F(2.0)))
c.add(Wait(0, duration_strategy=F(3.0)))
print('a1', times(c), c.duration)
reg.set_registry_at('k', 5.0)
print('a2', times(c), c.duration)

# fresh equivalent
reg = DurationRegistry(); strat = RegistryDurationStrategy(reg, 'k'); reg.set_registry_at('k', 5.0)
c = DeclarativeCircuit()
c.add(Wait(0, duration_strategy=strat)); c.add(Wait(0, duration_strategy=F(2.0))); c.add(Wait(0, duration_strategy=F(3.0)))
print('a3 (no prior obs)', times(c), c.duration)

# (b) global override after observation
c = DeclarativeCircuit()
c.add(Rx180(0)); c.add(Rx180(0)); c.add(DispersiveMeasure(0, acquisition_strategy=c.get_acquisition_strategy()))
print('b1', times(c), c.duration)
with temporary_override_get_registry_at({GlobalRegistryKey.MICROWAVE: 3.0, GlobalRegistryKey.READOUT: 7.0, GlobalRegistryKey.FLUX: 1.0, GlobalRegistryKey.RESET: 1.0}):
    print('b2', times(c), c.duration)
print('b3', times(c), c.duration)
c2 = DeclarativeCircuit()
c2.add(Rx180(0)); c2.add(Rx180(0)); c2.add(DispersiveMeasure(0, acquisition_strategy=c2.get_acquisition_strategy()))
with temporary_override_get_registry_at({GlobalRegistryKey.MICROWAVE: 3.0, GlobalRegistryKey.READOUT: 7.0, GlobalRegistryKey.FLUX: 1.0, GlobalRegistryKey.RESET: 1.0}):
    print('b4 fresh', times(c2), c2.duration)
print('b5 after', times(c2), c2.duration)

# (c) add op to sub-circuit structure after observation (composite grows)
c = DeclarativeCircuit()
sub = DeclarativeCircuit()
sub.add(Wait(0, duration_strategy=F(2.0)))
s = c.add(sub)
t = c.add(Wait(0, duration_strategy=F(1.0)))
print('c1', times(c), c.duration)
s.add(Wait(0, duration_strategy=F(4.0)))
print('c2', times(c), c.duration)
