from qce_circuit import *
from qce_circuit.structure.circuit_operations import *
from qce_circuit.structure.intrf_circuit_operation import RelationLink, RelationType
F=FixedDurationStrategy
def times(c): return [(type(op).__name__, getattr(op,'qubit_index',None), op.start_time, op.end_time) for op in c.operations]

def build(observe):
    inner = DeclarativeCircuit()
    inner.add(Wait(0, duration_strategy=F(1.0)))
    inner.add(Wait(1, duration_strategy=F(2.0)))
    mid = DeclarativeCircuit(repetition_strategy=FixedRepetitionStrategy(2))
    mid.add(inner)
    mid.add(Wait(0, duration_strategy=F(3.0)))
    top = DeclarativeCircuit()
    top.add(Wait(0, duration_strategy=F(5.0)))
    top.add(mid)
    top.add(Wait(1, duration_strategy=F(7.0)))
    if observe:
        _ = times(top)
    return top

for obs in (False, True):
    top = build(obs)
    mod = top.apply_modifiers()
    print(obs, times(mod), mod.duration)
for obs in (False, True):
    top = build(obs)
    outer = DeclarativeCircuit()
    outer.add(Wait(1, duration_strategy=F(1.5)))
    outer.add(top)
    print('nest', obs, times(outer), outer.duration)
