import warnings, itertools, time
warnings.simplefilter('ignore')
from qce_circuit.connectivity.connectivity_surface_code import Surface17Layer, get_requires_parking, on_moving_side
from qce_circuit.connectivity.mapping.gate_sequence_generator import GateSequenceGenerator
from qce_circuit.connectivity import Operation
from qce_circuit.connectivity.intrf_connectivity_surface_code import FrequencyGroup
S = Surface17Layer()
E = S.edge_ids
rank = {FrequencyGroup.LOW:0, FrequencyGroup.MID:1, FrequencyGroup.HIGH:2}
def fr(q): return rank[S.get_frequency_group_identifier(q).id]
def spec(edges):
    qs = [q for e in edges for q in e.qubit_ids]
    if len(qs)!=len(set(qs)): return False
    lvl = {}
    for e in edges:
        l = min(fr(q) for q in e.qubit_ids)
        for q in e.qubit_ids: lvl[q]=(l,e)
    for q,(l,e) in lvl.items():
        for n in S.get_neighbors(q):
            if n in lvl and lvl[n][1] is not e and lvl[n][0]==l:
                return False
    return True
t=time.time()
bad=[]
n=0
for k in (1,2,3):
    for comb in itertools.combinations(range(len(E)),k):
        edges=[E[i] for i in comb]
        impl = GateSequenceGenerator.get_mutually_allowed([Operation.type_gate(e) for e in edges], S)
        n+=1
        if impl != spec(edges): bad.append((comb, impl))
print(n, 'mismatch', len(bad), bad[:10], time.time()-t)
# parking spec
badp=[]
for k in (1,2):
    for comb in itertools.combinations(range(len(E)),k):
        edges=[E[i] for i in comb]
        if not spec(edges): continue
        for q in S.qubit_ids:
            impl = get_requires_parking(q, edges, S)
            inv = [x for e in edges for x in e.qubit_ids]
            sp = False
            if q not in inv:
                for e in edges:
                    mover = max(e.qubit_ids, key=fr)
                    l = min(fr(x) for x in e.qubit_ids)
                    if fr(mover)!=l and q in S.get_neighbors(mover) and fr(q)==l: sp=True
            if impl!=sp: badp.append((comb,q,impl,sp))
print('park mismatch', len(badp), badp[:10])
