import warnings
warnings.simplefilter('ignore')
from qce_circuit import *
import qce_circuit; print(qce_circuit.__file__)
from qce_circuit.addon_openql.factory_manager import to_openql
for reps in (1,2):
    c = DeclarativeCircuit()
    c.add(Rx180(0))
    sub = DeclarativeCircuit(repetition_strategy=FixedRepetitionStrategy(reps))
    sub.add(Ry90(0))
    c.add(sub)
    c.add(Rx90(0))
    try:
        p = to_openql(c, circuit_id=f'verifprobe{reps}')
        print('reps', reps, 'ok')
    except Exception as e:
        print('reps', reps, 'EXC', str(e).split('\n')[0])
# two sub-circuits with same content
c = DeclarativeCircuit()
for _ in range(2):
    sub = DeclarativeCircuit(); sub.add(Ry90(0)); c.add(sub)
try:
    p = to_openql(c, circuit_id='verifprobe3'); print('two equal subs ok')
except Exception as e:
    print('two equal subs EXC', str(e).split('\n')[0])
