import stim, warnings
warnings.simplefilter('ignore')
from qce_circuit import *
from qce_circuit.language import InitialStateContainer, InitialStateEnum
from qce_circuit.addon_stim import to_stim, apply_noise
from qce_circuit.addon_stim.noise_settings_manager import NoiseSettings, OperationDurationParameters
i = stim.CircuitInstruction('MZ', [0], [0.01])
print('MZ name:', i.name, str(i))
c = stim.Circuit('R 0 1\nTICK\nH 0\nCZ 0 1\nTICK\nM 0 1\nTICK\nX 0\n')
n = apply_noise(c, {}, noise_settings=NoiseSettings())
print(n)
