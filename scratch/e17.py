import warnings
warnings.simplefilter('ignore')
import matplotlib; matplotlib.use('Agg')
from qce_circuit import *
from qce_circuit.structure.circuit_operations import *
from qce_circuit.structure.registry_duration import temporary_override_get_registry_at, GlobalRegistryKey as G
from qce_circuit.visualization.visualize_circuit.display_circuit import plot_circuit, construct_visual_description
from qce_circuit.structure.acquisition_indexing.kernel_repetition_code import RepetitionExperimentKernel
F=FixedDurationStrategy
def times(c): return [(type(op).__name__, getattr(op,'qubit_index',None), op.start_time, op.end_time) for op in c.operations]
# circuit with MultiRelationLink: block [Rx180(q0) ; Wait(q1,fixed 1)] x2 ; under global MW=5
regs = {G.READOUT: 2.0, G.MICROWAVE: 5.0, G.FLUX: 1.0, G.RESET: 2.0}
with temporary_override_get_registry_at(regs):
    sub = DeclarativeCircuit(repetition_strategy=FixedRepetitionStrategy(2))
    sub.add(Rx180(0)); sub.add(Wait(1, duration_strategy=F(1.0)))
    c = DeclarativeCircuit(); c.add(sub)
    m = c.apply_modifiers()
    before = times(m)
    print('before', before)
    import matplotlib.pyplot as plt
    d = None
    fig, ax = plot_circuit(m); plt.close(fig)
    after = times(m)
    print('after ', after, 'same', before==after)
# fresh: what does the drawing itself see?
print(RepetitionExperimentKernel.estimate_experiment_repetitions([3], True, True, 11*(2**53//11+3)))
