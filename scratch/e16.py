import stim, warnings
warnings.simplefilter('ignore')
from qce_circuit import *
from qce_circuit.language import InitialStateContainer, InitialStateEnum
from qce_circuit.addon_stim import to_stim
from qce_circuit.structure.intrf_circuit_operation import RelationLink, MultiRelationLink
Z,O=InitialStateEnum.ZERO, InitialStateEnum.ONE
def sig(c):
    return [(type(op).__name__, tuple(ch.id for ch in op.channel_identifiers), op.start_time, op.end_time, getattr(op,'acquisition_index',None)) for op in c.operations]
for d,cyc in [(2,0),(2,1),(3,2),(3,3),(3,5),(4,4)]:
    init = InitialStateContainer.from_ordered_list([Z,O,Z,O][:d])
    c = construct_repetition_code_circuit(qec_cycles=cyc, initial_state=init)
    m = c.apply_modifiers()
    a = sig(m); sa=str(to_stim(m)); dur_a = m.duration
    f = m.flatten()
    RelationLink.get_start_time.cache_clear(); MultiRelationLink.get_start_time.cache_clear()
    b = sig(f); sb=str(to_stim(f)); dur_b=f.duration
    same_order = [x[:2] for x in a]==[x[:2] for x in b]
    print(d,cyc,'listing same', a==b, 'order same', same_order, 'multiset same', sorted(map(str,a))==sorted(map(str,b)), 'stim same', sa==sb, dur_a, dur_b, 'subs left', len(f.composite_operations))
    if a!=b:
        for i,(x,y) in enumerate(zip(a,b)):
            if x!=y: print('   first diff', i, x, y); break
