import sys, random, json
sys.path.insert(0, '/verif/harness')
import common, coregen
seed = int(sys.argv[1]); n = int(sys.argv[2])
rng = random.Random(seed)
cases = [coregen.gen_case(rng, maxlen=int(sys.argv[3]) if len(sys.argv)>3 else 8) for _ in range(n)]
for c in cases: c['obs'] = ['plain', 'plain_dur_first', 'unrolled', 'cleared']
outs = common.run_impl('harness/impl/core_impl.py', cases, shards=12)
errs = {}
for o in outs:
    k = o.get('error') or o.get('driver_error', '')[:300] or 'ok'
    errs[k] = errs.get(k, 0) + 1
print(errs)
# stale check: reported vs cleared
stale = sum(1 for o in outs if 'plain' in o and (o['plain']['ops'] != o['cleared']['ops'] or o['plain_dur_first']['ops'] != o['cleared']['ops'] or o['unrolled']['ops'] != o['cleared_unrolled']['ops']))
print('reported != cleared:', stale)
# use cleared observations as the reference for the model comparison
terms = []
for c, o in zip(cases, outs):
    if 'plain' in o:
        o2 = dict(o); o2['plain'] = dict(o['cleared'], again=True); o2['plain_dur_first'] = None; o2['unrolled'] = dict(o['cleared_unrolled'], reps=[]); o2['unrolled_twice']=None
        terms.append(coregen.c_case(c, o2))
    else:
        terms.append(coregen.c_case(c, o))
ok, fails, log = common.coq_eval_cases('try', 'QCE.Core.Run', 'From Gen Require Import Ident Classes.\nFrom QCE Require Import Core.Model.', terms, shard_size=100, fns=('agree_core',))
print(ok, {k: len(v) for k, v in fails.items()}, log[:2000])
for i in fails.get('agree_core', [])[:3]:
    print(json.dumps(cases[i])); print(json.dumps(outs[i])[:1500])
