import stim, warnings
warnings.simplefilter('ignore')
from qce_circuit import *
from qce_circuit.language import InitialStateContainer, InitialStateEnum
from qce_circuit.addon_stim import to_stim
Z,O=InitialStateEnum.ZERO, InitialStateEnum.ONE
init = InitialStateContainer.from_ordered_list([Z,O,Z])
c = construct_repetition_code_circuit(qec_cycles=3, initial_state=init)
s0 = to_stim(c)
s1 = s0.flattened()
m = c.apply_modifiers()
s2 = to_stim(m)
a=str(s1).split('\n'); b=str(s2).split('\n'); 
print(len(a),len(b))
for i,(x,y) in enumerate(zip(a,b)):
    print(i, x.ljust(45), y, '' if x==y else '   <<<<<')
