import stim, warnings
warnings.simplefilter('ignore')
from qce_circuit import *
from qce_circuit.language import InitialStateContainer, InitialStateEnum
from qce_circuit.addon_stim import to_stim
from qce_circuit.library.repetition_code.circuit_components import RepetitionCodeDescription
Z,O=InitialStateEnum.ZERO, InitialStateEnum.ONE
init = InitialStateContainer.from_ordered_list([Z,O,Z],[O,Z])
c = construct_repetition_code_circuit(qec_cycles=2, initial_state=init)
s = to_stim(c)
print(s)
smp = s.compile_sampler().sample(3)
print(smp.astype(int))
print(s.num_detectors, s.num_measurements)
print(s.compile_detector_sampler().sample(2).astype(int))
