# Scratch prototype (Python) of the Core model planned in DESIGN.md §3, used only to check that the
# *shape* of the model (insertion-ordered parent pointers, layered listing, last-match predecessor,
# link hand-off context, index-map copy, extend/repeat/apply_modifiers) reproduces the implementation
# on random build programs before the model is written in Gallina.  Not part of the machinery.
import sys, random, warnings
warnings.simplefilter('ignore')

MAXD = 5000
ALL, RO, MW, FL = 'ALL', 'READOUT', 'MICROWAVE', 'FLUX'

def ch_match(a, b):
    return a[0] == b[0] and (a[1] == b[1] or a[1] == ALL or b[1] == ALL)

class Node:
    __slots__ = ('parent', 'link', 'op')
    def __init__(self, parent, link, op): self.parent, self.link, self.op = parent, link, op

# op: ('leaf', kind, chans(list of (q,ch)), dur, copies_link)  |  ('comp', reps, nodes)
def op_channels(op):
    if op[0] == 'leaf': return op[2]
    out = []
    for i in bfs(op[2]):
        for c in op_channels(op[2][i].op):
            if c not in out: out.append(c)          # unique_in_order on (q, ch) pairs (hash = exact pair)
    return out

def children(nodes, p): return [i for i, n in enumerate(nodes) if n.parent == p]

def bfs(nodes):
    out, cur, fuel = [], children(nodes, None), MAXD - 1
    while cur and fuel > 0:
        out += cur
        cur = [c for i in cur for c in children(nodes, i)]
        fuel -= 1
    return out

def graph_leaves(nodes):
    has_child = {n.parent for n in nodes}
    return [i for i in bfs(nodes) if i not in has_child]

def leaf_at_any(nodes, chans):
    for i in reversed(bfs(nodes)):
        if any(ch_match(c, d) for c in chans for d in op_channels(nodes[i].op)): return i
    return None

# ---- times (relative to the composite's own frame given a context for un-related depth-1 nodes)
def dur_of(op):
    if op[0] == 'leaf': return op[3]
    nodes = op[2]
    if not nodes: return 0.0
    st, en = times(nodes, None)
    d1 = [i for i, n in enumerate(nodes) if n.parent is None]
    lv = graph_leaves(nodes)
    rel0 = min(st[i] for i in d1)
    return max([0.0] + [en[i] - rel0 for i in lv])

def start_from(link_t, rs, re, dur):
    return {'F': re, 'S': rs, 'E': re - dur}[link_t]

def multi_ref(ps, en):
    best = ps[0]
    for p in ps:
        if en[p] > en[best]: best = p
    return best

def times(nodes, ctx):
    """ctx: None (frame origin 0) or (type, ref_start, ref_end) inherited by un-related nodes."""
    st, en = {}, {}
    for i, n in enumerate(nodes):
        d = dur_of(n.op)
        if n.link is None:
            s = 0.0 if ctx is None else start_from(ctx[0], ctx[1], ctx[2], d)
        elif n.link[0] == 'rel':
            _, t, p = n.link
            s = start_from(t, st[p], en[p], d)
        else:
            p = multi_ref(n.link[1], en)
            s = start_from('F', st[p], en[p], d)
        st[i], en[i] = s, s + d
    return st, en

def listing(nodes, ctx=None):
    st, en = times(nodes, ctx)
    out = []
    for i in bfs(nodes):
        n = nodes[i]
        if n.op[0] == 'leaf':
            out.append((n.op[1], tuple(n.op[2]), st[i], en[i]))
        else:
            if n.link is None: sub_ctx = ctx
            elif n.link[0] == 'rel': sub_ctx = (n.link[1], st[n.link[2]], en[n.link[2]])
            else:
                p = multi_ref(n.link[1], en); sub_ctx = ('F', st[p], en[p])
            out += listing(n.op[2], sub_ctx)
    return out

# ---- building
def add_node(nodes, op, link):
    """link: None | ('rel', t, p) | ('multi', ps) ; p indices into nodes (present) ; mirrors add_to_graph."""
    leaf = leaf_at_any(nodes, op_channels(op))
    if link is None:
        if leaf is None: nodes.append(Node(None, None, op))
        else: nodes.append(Node(leaf, ('rel', 'F', leaf), op))
    elif link[0] == 'rel':
        nodes.append(Node(link[2], link, op))
    else:
        _, en = times(nodes, None)
        nodes.append(Node(multi_ref(link[1], en), link, op))
    return len(nodes) - 1

def copy_op(op):
    if op[0] == 'leaf': return op
    return ('comp', op[1], copy_nodes(op[2]))

def copy_nodes(nodes):
    new, idx = [], {}
    for i in bfs(nodes):
        n = nodes[i]
        link = None
        keeps = not (n.op[0] == 'leaf' and not n.op[4])
        if keeps and n.link is not None:
            if n.link[0] == 'rel': link = ('rel', n.link[1], idx[n.link[2]])
            else:
                ps = [idx[p] for p in n.link[1] if p in idx]
                link = ('multi', ps) if ps else None
        idx[i] = add_node(new, copy_op(n.op), link)
    return new

def extend(nodes, other):
    lv = graph_leaves(nodes)
    rel = ('multi', lv) if lv else None
    idx = {}
    for i in bfs(other):
        n = other[i]
        if n.link is None: link = rel
        elif n.link[0] == 'rel': link = ('rel', n.link[1], idx[n.link[2]])
        else: link = ('multi', [idx[p] for p in n.link[1]])
        idx[i] = add_node(nodes, n.op, link)

def apply_modifiers(op):
    _, reps, nodes = op
    original = copy_nodes(nodes)
    for _ in range(reps - 1):
        extend(nodes, copy_nodes(original))
    for i in bfs(nodes):
        if nodes[i].op[0] == 'comp':
            nodes[i].op = apply_modifiers(nodes[i].op)
    return ('comp', 1, nodes)

KIND = {'wait': lambda q, q2, d: ('leaf', 'Wait', [(q, ALL)], d, True),
        'bar':  lambda q, q2, d: ('leaf', 'Barrier', [(q, ALL), (q2, ALL)], 0.5, COPY_BARRIER_LINK),
        'rx':   lambda q, q2, d: ('leaf', 'Rx180', [(q, MW)], 1.0, True),
        'cz':   lambda q, q2, d: ('leaf', 'CPhase', [(q, FL), (q, MW), (q2, FL), (q2, MW)], 1.0, True)}
COPY_BARRIER_LINK = False      # as coded today (F3)

def run_prog(prog):
    nodes, entries = [], []
    for cmd in prog:
        if cmd[0] == 'sub':
            sub = run_prog(cmd[2])
            entries.append(add_node(nodes, ('comp', cmd[1], copy_nodes(sub)), None))
        else:
            kind, q, q2, d, rel = cmd
            link = None
            if rel is not None and kind != 'bar':
                link = ('rel', {1: 'F', 2: 'S', 3: 'E'}[rel[0].value], entries[rel[1]])
            entries.append(add_node(nodes, KIND[kind](q, q2, d), link))
    return nodes

if __name__ == '__main__':
    src = open('/verif/scratch/e26.py').read().split("seed=int(sys.argv[1])")[0]
    exec(src)
    seed = int(sys.argv[1]) if len(sys.argv) > 1 else 0
    rng = random.Random(seed)
    N, bad = 300, {'plain': 0, 'nested': 0, 'unrolled': 0, 'error': 0}
    def canon(sigl): return [(k, tuple((q, c) for q, c in chans), s, e) for k, chans, s, e in sigl]
    for t in range(N):
        prog = gen_prog(rng)
        try:
            impl_plain = canon(sig(build(prog)))
            o = DeclarativeCircuit(); o.add(Wait(0, duration_strategy=F(1.0))); o.add(build(prog)); impl_nested = canon(sig(o))
            impl_unrolled = canon(sig(build(prog).apply_modifiers()))
        except RecursionError:
            bad['error'] += 1; continue
        m_plain = listing(run_prog(prog))
        m_nested = listing(run_prog([('wait', 0, 0, 1.0, None), ('sub', 1, prog)]))
        m_unrolled = listing(apply_modifiers(('comp', 1, run_prog(prog)))[2])
        for name, a, b in (('plain', impl_plain, m_plain), ('nested', impl_nested, m_nested), ('unrolled', impl_unrolled, m_unrolled)):
            if a != b:
                bad[name] += 1
                if bad[name] <= 1:
                    print('MISMATCH', name, prog)
                    for x, y in zip(a, b):
                        if x != y: print('   impl', x, '\n   model', y); break
                    print('   len', len(a), len(b))
    print('seed', seed, 'N', N, bad)
