From Coq Require Import List Arith Lia Bool Permutation.
Import ListNotations.

(* parent pointers: None = root; insertion-ordered *)
Definition tree := list (option nat).

Definition opt_eqb (a b : option nat) : bool :=
  match a, b with None, None => true | Some x, Some y => Nat.eqb x y | _, _ => false end.

Definition children (t : tree) (p : option nat) : list nat :=
  filter (fun i => opt_eqb (nth i t None) p) (seq 0 (length t)).

Fixpoint layers (fuel : nat) (t : tree) (cur : list nat) : list (list nat) :=
  match fuel with
  | 0 => []
  | S f => match cur with [] => [] | _ => cur :: layers f t (flat_map (fun i => children t (Some i)) cur) end
  end.

Definition bfs (fuel : nat) (t : tree) : list nat := concat (layers fuel t (children t None)).

Definition wf (t : tree) : Prop := forall i p, nth_error t i = Some (Some p) -> p < i.

Eval vm_compute in bfs 10 [None; Some 0; None; Some 0; Some 2; Some 1].

Lemma opt_eqb_spec a b : reflect (a = b) (opt_eqb a b).
Proof. destruct a, b; simpl; try (constructor; congruence). destruct (Nat.eqb_spec n n0); constructor; congruence. Qed.

Lemma children_snoc t q p :
  children (t ++ [q]) p = children t p ++ (if opt_eqb q p then [length t] else []).
Proof.
  unfold children. rewrite app_length. simpl. rewrite Nat.add_1_r, seq_S, filter_app. simpl.
  f_equal.
  - apply filter_ext_in. intros i Hi. apply in_seq in Hi. rewrite app_nth1 by lia. reflexivity.
  - rewrite app_nth2 by lia. rewrite Nat.sub_diag. simpl. destruct (opt_eqb q p); reflexivity.
Qed.
