import warnings, sys
warnings.simplefilter('ignore')
exec(open('/verif/scratch/e26.py').read().split("seed=int(sys.argv[1])")[0])
from qce_circuit.structure import intrf_circuit_operation as ico
prog=[('sub', 1, [('sub', 2, [('bar', 0, 1, 1.0, None)]), ('sub', 2, [('wait', 1, 0, 1.0, None), ('wait', 0, 2, 2.0, None), ('bar', 2, 1, 1.0, None), ('cz', 2, 0, 1.0, None)])])]
orig = ico.MultiRelationLink.reference_node.fget
def traced(self):
    r = orig(self)
    print('    reference_node over', [(type(n).__name__, n.start_time, n.end_time) for n in self._reference_nodes], '->', type(r).__name__ if r else None)
    return r
ico.MultiRelationLink.reference_node = property(traced)
for listed in (False, True):
    print('listed first:', listed)
    b=build(prog)
    if listed: _=sig(b)
    clear()
    m=b.apply_modifiers()
