import warnings, time
warnings.simplefilter('ignore')
from qce_circuit import *
from qce_circuit.structure.circuit_operations import *
F=FixedDurationStrategy
for n in (1200, 5005):
    t=time.time()
    c = DeclarativeCircuit()
    for i in range(n):
        c.add(Wait(0, duration_strategy=F(1.0)))
    ops = c.operations
    print(n, 'listed', len(ops), 'time', round(time.time()-t,1))
    try:
        print(' last start', ops[-1].start_time)
    except RecursionError as e:
        print(' RecursionError on start_time')
