import warnings
warnings.simplefilter('ignore')
from qce_circuit import *
import qce_circuit; print(qce_circuit.__file__)
from qce_circuit.language import InitialStateContainer, InitialStateEnum
from qce_circuit.structure.intrf_circuit_operation import RelationLink, MultiRelationLink
Z,O=InitialStateEnum.ZERO, InitialStateEnum.ONE
init = InitialStateContainer.from_ordered_list([Z,O,Z])
c = construct_repetition_code_circuit(qec_cycles=5, initial_state=init)
m = c.apply_modifiers()
ops = m.operations
bad=[]
for i,op in enumerate(ops):
    ref = op.relation_link.reference_node
    if ref is None: continue
    t = op.relation_link.relation_type.name
    exp = {'FOLLOWED_BY': ref.end_time, 'JOINED_START': ref.start_time, 'JOINED_END': ref.end_time-op.duration}[t]
    if op.start_time != exp: bad.append((i, type(op).__name__, op.start_time, 'ref', type(ref).__name__, ref.start_time, ref.end_time))
print('equation violations (cached view):', len(bad), bad[:5])
t1 = [(type(o).__name__, o.start_time) for o in ops]
RelationLink.get_start_time.cache_clear(); MultiRelationLink.get_start_time.cache_clear()
t2 = [(type(o).__name__, o.start_time) for o in m.operations]
print('times change after clearing caches:', t1!=t2, [ (i,a,b) for i,(a,b) in enumerate(zip(t1,t2)) if a!=b][:5], 'dur', m.duration)
