from qce_circuit import *
from qce_circuit.structure.circuit_operations import *
from qce_circuit.structure.intrf_circuit_operation import RelationLink, RelationType, QubitChannel
F=FixedDurationStrategy
def times(c): return [(type(op).__name__, getattr(op,'qubit_index',getattr(op,'qubit_indices',None)), op.start_time, op.end_time) for op in c.operations]

# C04: last-ending op not a leaf
c = DeclarativeCircuit()
a = c.add(Wait(0, duration_strategy=F(10.0)))
b = c.add(Wait(1, duration_strategy=F(1.0), relation=RelationLink(a, RelationType.JOINED_START)))
print('C04a', times(c), 'duration', c.duration)
# JOINED_END longer op starts before first
c = DeclarativeCircuit()
a = c.add(Wait(0, duration_strategy=F(2.0)))
b = c.add(Wait(1, duration_strategy=F(5.0), relation=RelationLink(a, RelationType.JOINED_END)))
print('C04b', times(c), 'duration', c.duration)
# consequence: follow-by block
c = DeclarativeCircuit()
sub = DeclarativeCircuit()
a = sub.add(Wait(0, duration_strategy=F(10.0)))
sub.add(Wait(0, duration_strategy=F(1.0), relation=RelationLink(a, RelationType.JOINED_START)))
s = c.add(sub)
c.add(Wait(0, duration_strategy=F(1.0)))
print('C04c', times(c), 'duration', c.duration, 'sub dur', s.duration)

# C05 copy: Barrier & VirtualTwoQubitVacant
c = DeclarativeCircuit()
a = c.add(Wait(0, duration_strategy=F(1.0)))
x = c.add(Wait(0, duration_strategy=F(1.0)))
bar = c.add(Barrier([0,1]))
d = c.add(Wait(1, duration_strategy=F(5.0), relation=RelationLink(a, RelationType.FOLLOWED_BY)))
print('orig', times(c), c.duration)
o = DeclarativeCircuit(); o.add(c)
print('copy', times(o), o.duration)
v = VirtualTwoQubitVacant(0,1, qubit_channel=QubitChannel.FLUX, duration_strategy=F(3.0))
vc = v.copy()
print('vacant', v.channel_identifiers, v.duration, '->', vc.channel_identifiers, vc.duration)
