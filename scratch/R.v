From Coq Require Import Reals Lra.
Open Scope R_scope.
Lemma px_bounds t t1 : 0 <= t -> 0 < t1 -> 0 <= (1 - exp (- t / t1)) / 4 <= 1/4.
Proof.
  intros Ht Ht1.
  assert (H0 : 0 < exp (- t / t1)) by apply exp_pos.
  assert (H1 : exp (- t / t1) <= 1).
  { rewrite <- exp_0. destruct (Req_dec t 0) as [->|Hn].
    - unfold Rdiv. rewrite Ropp_0, Rmult_0_l. lra.
    - left. apply exp_increasing. unfold Rdiv. 
      assert (0 < t / t1) by (apply Rdiv_lt_0_compat; lra). unfold Rdiv in *. lra. }
  lra.
Qed.
Print Assumptions px_bounds.
