# Scratch: shrink a program on which listing-before-unroll changes the unrolled result (caches cleared at every observation)
import warnings, random, sys, copy
warnings.simplefilter('ignore')
exec(open('/verif/scratch/e26.py').read().split("seed=int(sys.argv[1])")[0])
def differs_unroll(prog):
    try:
        a=build(prog); ua=sig(a.apply_modifiers())
        b=build(prog); _=sig(b); ub=sig(b.apply_modifiers())
        return ua!=ub
    except Exception:
        return False
def differs_flatten(prog):
    try:
        a=build(prog); m=a.apply_modifiers(); fa=sig(m.flatten())
        b=build(prog); m=b.apply_modifiers(); _=sig(m); fb=sig(m.flatten())
        return fa!=fb
    except Exception:
        return False
def variants(prog):
    # remove one command (fixing relation refs), recurse into subs, lower reps, drop relations
    for i in range(len(prog)):
        rest = prog[:i]+prog[i+1:]
        ok=True; new=[]
        for j,c in enumerate(rest):
            if c[0]!='sub' and c[4] is not None:
                r=c[4][1]
                if r==i: c=(c[0],c[1],c[2],c[3],None)
                elif r>i: c=(c[0],c[1],c[2],c[3],(c[4][0],r-1))
            new.append(c)
        yield new
    for i,c in enumerate(prog):
        if c[0]=='sub':
            if c[1]>1: yield prog[:i]+[('sub',c[1]-1,c[2])]+prog[i+1:]
            for v in variants(c[2]):
                if v: yield prog[:i]+[('sub',c[1],v)]+prog[i+1:]
        else:
            if c[4] is not None: yield prog[:i]+[(c[0],c[1],c[2],c[3],None)]+prog[i+1:]
            if c[3]!=1.0: yield prog[:i]+[(c[0],c[1],c[2],1.0,c[4])]+prog[i+1:]
def shrink(prog, pred):
    changed=True
    while changed:
        changed=False
        for v in variants(prog):
            if v and pred(v):
                prog=v; changed=True; break
    return prog
rng=random.Random(int(sys.argv[1]))
found={'unroll':None,'flatten':None}
for t in range(300):
    prog=gen_prog(rng)
    try: sig(build(prog))
    except RecursionError: continue
    if found['unroll'] is None and differs_unroll(prog): found['unroll']=shrink(prog,differs_unroll)
    if found['flatten'] is None and differs_flatten(prog): found['flatten']=shrink(prog,differs_flatten)
    if all(found.values()): break
for k,p in found.items():
    print(k, p)
    if p is None: continue
    if k=='unroll':
        a=build(p); print('  fresh :', sig(a.apply_modifiers()))
        b=build(p); _=sig(b); print('  listed:', sig(b.apply_modifiers()))
    else:
        a=build(p); m=a.apply_modifiers(); print('  fresh :', sig(m.flatten()))
        b=build(p); m=b.apply_modifiers(); _=sig(m); print('  listed:', sig(m.flatten()))
