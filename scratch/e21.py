import warnings
warnings.simplefilter('ignore')
from qce_circuit import *
from qce_circuit.structure.circuit_operations import *
F=FixedDurationStrategy
def times(c): return [(type(op).__name__, getattr(op,'qubit_index',None), op.start_time, op.end_time) for op in c.operations]
def build():
    c = DeclarativeCircuit()
    c.add(Wait(0, duration_strategy=F(5.0)))
    sub = DeclarativeCircuit()
    sub.add(Wait(0, duration_strategy=F(1.0)))
    sub.add(Wait(0, duration_strategy=F(2.0)))
    sub.add(Wait(0, duration_strategy=F(3.0)))
    c.add(sub)
    c.add(Wait(0, duration_strategy=F(4.0)))
    return c
c1 = build(); print('list only      ', times(c1), c1.duration)
c2 = build(); d = c2.duration; print('duration first ', times(c2), d)
