import warnings, itertools
warnings.simplefilter('ignore')
import numpy as np
from qce_circuit import *
from qce_circuit.language import InitialStateContainer, InitialStateEnum
from qce_circuit.library.repetition_code.circuit_constructors import construct_repetition_code_multi_round_circuit
from qce_circuit.library.repetition_code.circuit_components import RepetitionCodeDescription
from qce_circuit.structure.acquisition_indexing.kernel_repetition_code import RepetitionExperimentKernel
from qce_circuit.structure.acquisition_indexing.intrf_stabilizer_index_kernel import StateKey
from qce_circuit.structure.intrf_acquisition_operation import AcquisitionTag
Z,O=InitialStateEnum.ZERO, InitialStateEnum.ONE
import time
for rounds in ([0,3,1,2],[2],[1,0],[5,4]):
    d=3
    init = InitialStateContainer.from_ordered_list([Z]*d)
    desc = RepetitionCodeDescription.from_initial_state(init)
    t=time.time()
    c = construct_repetition_code_multi_round_circuit(qec_cycles=rounds, description=desc, initial_state=init)
    k = RepetitionExperimentKernel(rounds=rounds, heralded_initialization=True, qutrit_calibration_points=True,
        involved_data_qubit_ids=desc.data_qubit_ids, involved_ancilla_qubit_ids=desc.ancilla_qubit_ids, experiment_repetitions=1)
    for qid in desc.qubit_ids:
        qi = desc.get_index(qid)
        allidx = c.get_acquisition_indices(qi)
        her = c.get_acquisition_indices(AcquisitionTag(qi,'heralded'))
        par = c.get_acquisition_indices(AcquisitionTag(qi,'parity'))
        fin = c.get_acquisition_indices(AcquisitionTag(qi,'final'))
        kh = [list(k.get_heralded_cycle_acquisition_indices(qid, r).flatten()) for r in rounds]
        ks = [list(k.get_stabilizer_and_projected_cycle_acquisition_indices(qid, r).flatten()) for r in rounds]
        kc = [list(k.get_heralded_calibration_acquisition_indices(qid, s)) + list(k.get_projected_calibration_acquisition_indices(qid, s)) for s in StateKey]
        print(rounds, qid, 'n', len(allidx), 'cyc', k.kernel_cycle_length, 'her', list(her), 'par', list(par), 'fin', list(fin), '| kh', kh, 'ks', ks, 'kc', kc)
    print('time', time.time()-t)
