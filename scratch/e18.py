import warnings
warnings.simplefilter('ignore')
import matplotlib; matplotlib.use('Agg')
import matplotlib.pyplot as plt
from qce_circuit import *
from qce_circuit.structure.circuit_operations import *
from qce_circuit.structure.registry_duration import temporary_override_get_registry_at, GlobalRegistryKey as G
from qce_circuit.visualization.visualize_circuit.display_circuit import plot_circuit, construct_visual_description
F=FixedDurationStrategy
def times(c): return [(type(op).__name__, getattr(op,'qubit_index',None), op.start_time, op.end_time) for op in c.operations]
regs = {G.READOUT: 2.0, G.MICROWAVE: 5.0, G.FLUX: 1.0, G.RESET: 2.0}
def build():
    sub = DeclarativeCircuit(repetition_strategy=FixedRepetitionStrategy(2))
    sub.add(Rx180(0)); sub.add(Wait(1, duration_strategy=F(1.0)))
    c = DeclarativeCircuit(); c.add(sub)
    return c.apply_modifiers()
with temporary_override_get_registry_at(regs):
    m = build()
    fig, ax = plot_circuit(m); plt.close(fig)
    print('after plot (no prior obs)', times(m))
    m2 = build()
    print('never plotted            ', times(m2))
    # drawing positions when observed before
    m3 = build(); t3 = times(m3)
    with temporary_override_get_registry_at({G.READOUT: 2.0, G.MICROWAVE: 1.0, G.FLUX: 1.0, G.RESET: 2.0}):
        from qce_circuit.structure.intrf_circuit_operation import RelationLink
        RelationLink.get_start_time.cache_clear()
        d = construct_visual_description(m3)
        print('drawn positions (obs before) ', [(type(o).__name__, o.start_time) for o in d.operations], 'width', d.channel_width)
        RelationLink.get_start_time.cache_clear()
    m4 = build()
    with temporary_override_get_registry_at({G.READOUT: 2.0, G.MICROWAVE: 1.0, G.FLUX: 1.0, G.RESET: 2.0}):
        RelationLink.get_start_time.cache_clear()
        d = construct_visual_description(m4)
        print('drawn positions (fresh)      ', [(type(o).__name__, o.start_time) for o in d.operations], 'width', d.channel_width)
        RelationLink.get_start_time.cache_clear()
