import stim, warnings
warnings.simplefilter('ignore')
from qce_circuit import *
from qce_circuit.language import InitialStateContainer, InitialStateEnum
from qce_circuit.addon_stim import to_stim
Z,O=InitialStateEnum.ZERO, InitialStateEnum.ONE
for d,cyc in [(2,3),(3,3),(3,5),(2,6)]:
    init = InitialStateContainer.from_ordered_list([Z,O,Z][:d])
    c = construct_repetition_code_circuit(qec_cycles=cyc, initial_state=init)
    s1 = to_stim(c).flattened()
    m = c.apply_modifiers()
    s2 = to_stim(m).flattened()
    f = m.flatten()
    s3 = to_stim(f).flattened()
    print(d,cyc,'same after unroll:', str(s1)==str(s2), 'after flatten:', str(s1)==str(s3), len(s1), len(s2), len(s3))
    if str(s1)!=str(s2):
        a=str(s1).split('\n'); b=str(s2).split('\n')
        for i,(x,y) in enumerate(zip(a,b)):
            if x!=y: print(' first diff at', i, repr(x), repr(y)); break
