import warnings
from qce_circuit import *
from qce_circuit.structure.circuit_operations import *
from qce_circuit.structure.intrf_circuit_operation import RelationLink, RelationType
F=FixedDurationStrategy
def show(c, label=''):
    print('---', label)
    for op in c.operations:
        print(type(op).__name__, getattr(op,'qubit_index',None), op.start_time, op.duration, op.end_time, op.relation_link)
    print('duration', c.duration)

# implicit sub placement
c = DeclarativeCircuit()
a = c.add(Wait(0, duration_strategy=F(10.0)))
b = c.add(Wait(1, duration_strategy=F(4.0)))
sub = DeclarativeCircuit()
sub.add(Wait(1, duration_strategy=F(2.0)))
sub.add(Wait(2, duration_strategy=F(3.0)))
sub.add(Wait(1, duration_strategy=F(1.0)))
s = c.add(sub)
print('sub rel', s.relation_link, s.start_time, s.duration, s.end_time)
d = c.add(Wait(2, duration_strategy=F(1.0)))
print('d rel', d.relation_link, d.start_time)
show(c, 'implicit sub')
print('sub rel', s.relation_link, s.start_time, s.duration, s.end_time)
# structure-level add with JOINED_END relation
c = DeclarativeCircuit()
a = c.add(Wait(0, duration_strategy=F(10.0)))
sub = DeclarativeCircuit()
sub.add(Wait(1, duration_strategy=F(2.0)))
sub.add(Wait(1, duration_strategy=F(3.0)))
sub._structure.relation_link = RelationLink(a, RelationType.JOINED_END)
c._structure.add(sub._structure)
s = sub._structure
print('sub', s.start_time, s.duration, s.end_time)
show(c, 'struct-level JOINED_END sub')
print('sub', s.start_time, s.duration, s.end_time)
