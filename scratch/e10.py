import warnings, itertools, random
warnings.simplefilter('ignore')
from qce_circuit import *
from qce_circuit.language import InitialStateContainer, InitialStateEnum
from qce_circuit.structure.circuit_operations import Barrier
from qce_circuit.structure.registry_duration import temporary_override_get_registry_at, GlobalRegistryKey as G
from qce_circuit.structure.intrf_circuit_operation import RelationLink, MultiRelationLink
from qce_circuit.library.repetition_code.circuit_components import RepetitionCodeDescription
from qce_circuit.library.repetition_code.repetition_code_connectivity import Repetition9Code, Repetition9Round6Code, Repetition5Round4Code
from qce_circuit.connectivity.intrf_channel_identifier import QubitIDObj
Z,O=InitialStateEnum.ZERO, InitialStateEnum.ONE
def overlaps(c):
    ops = c.operations
    ivs = [(op, op.start_time, op.end_time, op.channel_identifiers) for op in ops]
    bad=[]
    for i,(a,sa,ea,ca) in enumerate(ivs):
        for (b,sb,eb,cb) in ivs[i+1:]:
            if ea-sa==0 or eb-sb==0: continue
            if any(x in cb for x in ca) and sa < eb and sb < ea:
                bad.append((type(a).__name__, sa, ea, type(b).__name__, sb, eb, [x for x in ca if x in cb]))
    return bad
random.seed(1)
for trial in range(6):
    regs = {G.READOUT: random.choice([0.5,1,2,3,5]), G.MICROWAVE: random.choice([0.5,1,2,4]), G.FLUX: random.choice([0.5,1,3]), G.RESET: random.choice([0.5,2,4])}
    for d, cyc in [(2,0),(2,1),(3,2),(3,4)]:
        init = InitialStateContainer.from_ordered_list([random.choice([Z,O]) for _ in range(d)])
        with temporary_override_get_registry_at(regs):
            RelationLink.get_start_time.cache_clear(); MultiRelationLink.get_start_time.cache_clear()
            c = construct_repetition_code_circuit(qec_cycles=cyc, initial_state=init)
            b = overlaps(c)
            m = c.apply_modifiers()
            RelationLink.get_start_time.cache_clear(); MultiRelationLink.get_start_time.cache_clear()
            b2 = overlaps(m)
        print({k.name:v for k,v in regs.items()}, d, cyc, len(b), len(b2), b[:2], b2[:2])
