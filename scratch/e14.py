import stim, warnings
warnings.simplefilter('ignore')
from qce_circuit import *
from qce_circuit.language import InitialStateContainer, InitialStateEnum
from qce_circuit.addon_stim import to_stim
Z,O=InitialStateEnum.ZERO, InitialStateEnum.ONE
init = InitialStateContainer.from_ordered_list([Z,O,Z])
c = construct_repetition_code_circuit(qec_cycles=3, initial_state=init)
m = c.apply_modifiers()
def dump(comp, ind=0):
    g = comp._circuit_graph
    for depth, layer in enumerate(g.get_branch_iterator()):
        for n in layer:
            if hasattr(n,'operation'):
                op=n.operation
                par=[p for p in n.incoming_pointers]
                print(' '*ind, depth, type(op).__name__, getattr(op,'qubit_index',getattr(op,'qubit_indices','')), 'reps', op.nr_of_repetitions, 'link', op.relation_link)
                if hasattr(op,'_circuit_graph') and ind<12: dump(op, ind+4)
dump(m.circuit_structure)
