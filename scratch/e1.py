import warnings
from qce_circuit import *
from qce_circuit.structure.circuit_operations import *
from qce_circuit.structure.intrf_circuit_operation import RelationLink, RelationType
F=FixedDurationStrategy
def show(c, label=''):
    print('---', label)
    for op in c.operations:
        print(type(op).__name__, getattr(op,'qubit_index',None), op.start_time, op.duration, op.end_time, op.relation_link)
    print('duration', c.duration)

# nested JOINED_END subcircuit
c = DeclarativeCircuit()
a = c.add(Wait(0, duration_strategy=F(10.0)))
sub = DeclarativeCircuit(relation=RelationLink(a, RelationType.JOINED_END))
sub.add(Wait(1, duration_strategy=F(2.0)))
sub.add(Wait(1, duration_strategy=F(3.0)))
s = c.add(sub)
print('sub start/dur/end before listing', s.start_time, s.duration, s.end_time)
show(c, 'JOINED_END sub')
print('sub start/dur/end after listing', s.start_time, s.duration, s.end_time)

# JOINED_START
c = DeclarativeCircuit()
a = c.add(Wait(0, duration_strategy=F(10.0)))
sub = DeclarativeCircuit(relation=RelationLink(a, RelationType.JOINED_START))
sub.add(Wait(1, duration_strategy=F(2.0)))
sub.add(Wait(1, duration_strategy=F(3.0)))
s = c.add(sub)
show(c, 'JOINED_START sub')
print('sub', s.start_time, s.duration, s.end_time)
