# Scratch: find and shrink the program on which flatten()+listing raises RecursionError on the unchanged tree
import warnings, random, sys
warnings.simplefilter('ignore')
exec(open('/verif/scratch/e27.py').read().split("rng=random.Random(int(sys.argv[1]))")[0])
def crashes(prog):
    try:
        a=build(prog); m=a.apply_modifiers(); sig(m.flatten()); return False
    except RecursionError:
        return True
    except Exception:
        return False
rng=random.Random(1)
for t in range(400):
    prog=gen_prog(rng)
    if crashes(prog):
        p=shrink(prog, crashes); print('CRASH', p); break
else:
    print('no crash')
