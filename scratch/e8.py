import warnings
warnings.simplefilter('ignore')
from qce_circuit import *
from qce_circuit.addon_openql.factory_manager import to_openql
from qce_circuit.addon_openql.platform_manager import PlatformManager
import openql as ql
calls=[]
class K:
    def __init__(s,name): s.name=name; s.ops=[]
    def gate(s,*a,**k): s.ops.append(('gate',a,k))
    def cz(s,*a): s.ops.append(('cz',a))
    def barrier(s,*a): s.ops.append(('barrier',a))
    def wait(s,**k): s.ops.append(('wait',k))
class P:
    def __init__(s,name): s.name=name; s.items=[]
    def add_program(s,p): s.items.append(('prog',p))
    def add_kernel(s,k): s.items.append(('kernel',k))
    def flat(s):
        out=[]
        for t,x in s.items:
            if t=='prog': out+=x.flat()
            else: out+=[(x.name,o) for o in x.ops]
        return out
PlatformManager.construct_program=classmethod(lambda cls,name:P(name))
PlatformManager.construct_kernel=classmethod(lambda cls,name:K(name))
c = DeclarativeCircuit()
c.add(Rx180(0))
sub = DeclarativeCircuit(repetition_strategy=FixedRepetitionStrategy(2))
sub.add(Ry90(0))
c.add(sub)
c.add(Rx90(0))
p = to_openql(c)
for x in p.flat(): print(x)
