import sys; sys.path.insert(0,"/tmp/exp/rc/src")
import warnings
warnings.simplefilter('ignore')
from qce_circuit import *
from qce_circuit.structure.circuit_operations import *
from qce_circuit.structure.intrf_circuit_operation import RelationLink, RelationType
F=FixedDurationStrategy
def times(c): return [(type(op).__name__, getattr(op,'qubit_index',None), op.start_time, op.end_time) for op in c.operations]
c = DeclarativeCircuit()
c.add(Wait(0, duration_strategy=F(4.0)))
sub = DeclarativeCircuit()
a = sub.add(Wait(0, duration_strategy=F(2.0)))
sub.add(Wait(1, duration_strategy=F(5.0), relation=RelationLink(a, RelationType.JOINED_END)))
s = c.add(sub)
c.add(Wait(0, duration_strategy=F(1.0)))
t = times(c)
print(t, 'reported duration', c.duration, 'true span', max(x[3] for x in t)-min(x[2] for x in t), 'sub', s.start_time, s.duration, s.end_time)
