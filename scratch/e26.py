# Scratch fuzz: does listing before nesting / unrolling change the result (caches cleared before every observation)?
import warnings, random, sys
warnings.simplefilter('ignore')
from qce_circuit import *
from qce_circuit.structure.circuit_operations import *
from qce_circuit.structure.intrf_circuit_operation import RelationLink, RelationType, MultiRelationLink
F=FixedDurationStrategy
def clear():
    RelationLink.get_start_time.cache_clear(); MultiRelationLink.get_start_time.cache_clear()
def sig(c):
    clear()
    ops = c.operations
    clear()
    return [(type(o).__name__, tuple((ch.id, ch.channel.name) for ch in o.channel_identifiers), o.start_time, o.end_time) for o in ops]
def gen_prog(rng, depth=0):
    n = rng.randint(1,5)
    prog=[]
    for i in range(n):
        if depth<2 and rng.random()<0.3:
            prog.append(('sub', rng.choice([1,1,2,3]), gen_prog(rng, depth+1)))
        else:
            kind = rng.choice(['wait','wait','bar','rx','cz'])
            q = rng.randint(0,2); q2=(q+1+rng.randint(0,1))%3
            dur = rng.choice([0.5,1.0,2.0,3.0])
            rel = None
            if prog and rng.random()<0.35:
                rel = (rng.choice(list(RelationType)), rng.randrange(len(prog)))
            prog.append((kind,q,q2,dur,rel))
    return prog
def build(prog, reps=1):
    c = DeclarativeCircuit(repetition_strategy=FixedRepetitionStrategy(reps))
    entries=[]
    for cmd in prog:
        if cmd[0]=='sub':
            entries.append(c.add(build(cmd[2], cmd[1])))
        else:
            kind,q,q2,dur,rel = cmd
            kw={}
            if rel is not None and kind!='bar':
                kw['relation']=RelationLink(entries[rel[1]], rel[0])
            if kind=='wait': op=Wait(q, duration_strategy=F(dur), **kw)
            elif kind=='bar': op=Barrier([q,q2])
            elif kind=='rx': op=Rx180(q, **kw)
            else: op=CPhase(q,q2, **kw)
            entries.append(c.add(op))
    return c
seed=int(sys.argv[1]) if len(sys.argv)>1 else 0
rng=random.Random(seed)
diffs={'nest':0,'unroll':0,'flatten':0}
N=400
for t in range(N):
    prog=gen_prog(rng)
    try:
        _chk=sig(build(prog))
    except RecursionError:
        print('RECURSION on plain build+list', prog); diffs.setdefault('rec',0); diffs['rec']+=1; continue
    # nest
    a=build(prog); o=DeclarativeCircuit(); o.add(Wait(0,duration_strategy=F(1.0))); o.add(a); sa=sig(o)
    b=build(prog); _=sig(b); o2=DeclarativeCircuit(); o2.add(Wait(0,duration_strategy=F(1.0))); o2.add(b); sb=sig(o2)
    if sa!=sb:
        diffs['nest']+=1
        if diffs['nest']<=2: print('NEST DIFF', prog, '\n ', sa, '\n ', sb)
    a=build(prog); ua=sig(a.apply_modifiers())
    b=build(prog); _=sig(b); ub=sig(b.apply_modifiers())
    if ua!=ub:
        diffs['unroll']+=1
        if diffs['unroll']<=2: print('UNROLL DIFF', prog, '\n ', ua, '\n ', ub)
    a=build(prog); m=a.apply_modifiers(); fa=sig(m.flatten())
    b=build(prog); m=b.apply_modifiers(); _=sig(m); fb=sig(m.flatten())
    if fa!=fb:
        diffs['flatten']+=1
        if diffs['flatten']<=2: print('FLATTEN DIFF', prog, '\n ', fa, '\n ', fb)
print('seed',seed,'N',N,diffs)
