"""F23 (C04): a sub-circuit with an explicit JOINED_END relation (structure-level API).  The block is END-aligned with its referent,
but listing hands the link down to its first operations, which are then END-aligned one by one; with an inner follower the block's
frame and its operations' frame differ and the parent's duration mixes the two.
Run: PYTHONPATH=/repo/src /venv/bin/python scratch/e26.py"""
from qce_circuit.language.declarative_circuit import DeclarativeCircuit
from qce_circuit.structure.intrf_circuit_operation import RelationLink, RelationType
from qce_circuit.structure.intrf_circuit_operation_composite import CircuitCompositeOperation
from qce_circuit.structure.registry_duration import FixedDurationStrategy
from qce_circuit.structure.circuit_operations import Wait

w = lambda q, d: Wait(q, duration_strategy=FixedDurationStrategy(d))
c = DeclarativeCircuit()
x = c.add(w(0, 0.5))
block = CircuitCompositeOperation(relation=RelationLink(x, RelationType.JOINED_END))
block.add(w(1, 1.0))
block.add(w(1, 1.0))
c.circuit_structure.add(block)
c.add(w(1, 0.5))
ops = c.operations
for o in ops:
    print(type(o).__name__, o.channel_identifiers[0].id, o.start_time, o.end_time)
span = max(o.end_time for o in ops) - min(o.start_time for o in ops)
print('circuit.duration =', c.duration, ' span of the listed operations =', span)
print('block: start', c.composite_operations[0].start_time, 'duration', c.composite_operations[0].duration)
