import sys
if len(sys.argv)>1: sys.path.insert(0,"/tmp/exp/rc/src")
import warnings; warnings.simplefilter('ignore')
exec(open('/verif/scratch/e26.py').read().split("seed=int(sys.argv[1])")[0])
import qce_circuit; print(qce_circuit.__file__)
prog=[('sub', 2, [('wait', 1, 2, 3.0, None), ('sub', 1, [('rx', 0, 2, 1.0, None)]), ('sub', 1, [('cz', 0, 2, 1.0, None)])])]
a=build(prog); m=a.apply_modifiers()
print('unrolled', sig(m))
try:
    f=m.flatten(); print('flat    ', sig(f))
    f2=f.flatten(); print('flat2   ', sig(f2))
except RecursionError: print('RecursionError')
