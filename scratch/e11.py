import warnings
warnings.simplefilter('ignore')
from qce_circuit.library.repetition_code.repetition_code_connectivity import Repetition9Code, Repetition9Round6Code, Repetition5Round4Code
from qce_circuit.connectivity.connectivity_surface_code import Surface17Layer, get_requires_parking
S = Surface17Layer()
for L in (Repetition9Code(), Repetition9Round6Code(), Repetition5Round4Code()):
    print(type(L).__name__)
    used = []
    for i in range(L.gate_sequence_count):
        layer = L.get_gate_sequence_at_index(i)
        edges = layer.edge_ids
        for e in edges:
            assert e in S.edge_ids, e
        qs = [q for e in edges for q in e.qubit_ids]
        assert len(qs)==len(set(qs)), ('dup', i)
        parked = [p.identifier for p in layer.park_operations]
        both = [q for q in parked if q in qs]
        req = [q for q in S.qubit_ids if get_requires_parking(q, edges, S)]
        missing = [q for q in req if q not in parked]
        extra = [q for q in parked if q not in req]
        print(i, 'both', both, 'missing', missing, 'extra', extra)
        used += edges
    pg_edges = [e for g in L.parity_group_x+L.parity_group_z for e in g.edge_ids]
    print(' edges once:', all(used.count(e)==1 for e in pg_edges), 'unused', [e for e in pg_edges if used.count(e)!=1], 'nonpg', [e for e in used if e not in pg_edges])
