(* Hand-written model of utilities/array_manipulation.unique_in_order (the only loop among the C19 anchors);
   everything else of C19 is generated (Gen/Ident.v).  Tied to the code by the C19 correspondence run. *)
From Coq Require Import ZArith List Bool.
Import ListNotations.

Section Uio.
Context {A : Type} (eqb : A -> A -> bool).

(* `seen` is a Python set; membership in a set with hash-consistent equality is "some member is equal" *)
Fixpoint uio_aux (seen : list A) (l : list A) : list A :=
  match l with
  | [] => []
  | x :: t => if existsb (eqb x) seen then uio_aux seen t else x :: uio_aux (x :: seen) t
  end.
Definition unique_in_order (l : list A) : list A := uio_aux [] l.

(* the specification: keep the first occurrence of every element, in order *)
Fixpoint nub (l : list A) : list A :=
  match l with
  | [] => []
  | x :: t => x :: filter (fun y => negb (eqb x y)) (nub t)
  end.
End Uio.
