From Coq Require Import ZArith List Bool String Lia Sorting.Permutation.
Import ListNotations.
From QCE Require Import Base.Prelude C19.Model.
From Gen Require Import Ident.
Open Scope Z_scope.

(* ------------------------------------------------------------------ channel identifiers *)
Lemma QubitChannel_eqb_spec a b : QubitChannel_eqb a b = true <-> a = b.
Proof. destruct a, b; simpl; split; congruence. Qed.

Definition ch_match_prop (a b : ChannelIdentifier) : Prop :=
  ChannelIdentifier__id a = ChannelIdentifier__id b /\
  (ChannelIdentifier__channel a = ChannelIdentifier__channel b
   \/ ChannelIdentifier__channel a = QubitChannel_ALL \/ ChannelIdentifier__channel b = QubitChannel_ALL).

Lemma ch_match_spec a b : ChannelIdentifier_eq a b = true <-> ch_match_prop a b.
Proof.
  unfold ChannelIdentifier_eq, ch_match_prop, ChannelIdentifier_id, ChannelIdentifier_channel.
  destruct a as [ia ca], b as [ib cb]; simpl.
  destruct (Z.eqb_spec ia ib) as [E|E]; simpl.
  - destruct ca, cb; simpl; split; intros H; try reflexivity; try discriminate;
      try (split; [exact E| tauto]); destruct H as [_ [H|[H|H]]]; discriminate.
  - destruct (QubitChannel_eqb ca cb), (QubitChannel_eqb ca QubitChannel_ALL), (QubitChannel_eqb cb QubitChannel_ALL);
      simpl; split; intros H; try discriminate; destruct H as [H _]; contradiction.
Qed.

Lemma ch_match_sym a b : ChannelIdentifier_eq a b = ChannelIdentifier_eq b a.
Proof.
  destruct (ChannelIdentifier_eq a b) eqn:E1, (ChannelIdentifier_eq b a) eqn:E2; try reflexivity.
  - apply ch_match_spec in E1. assert (H : ch_match_prop b a) by (unfold ch_match_prop in *; intuition congruence).
    apply ch_match_spec in H. congruence.
  - apply ch_match_spec in E2. assert (H : ch_match_prop a b) by (unfold ch_match_prop in *; intuition congruence).
    apply ch_match_spec in H. congruence.
Qed.

Lemma ch_match_qubit a b : ChannelIdentifier__id a <> ChannelIdentifier__id b -> ChannelIdentifier_eq a b = false.
Proof.
  intros H. destruct (ChannelIdentifier_eq a b) eqn:E; [|reflexivity].
  apply ch_match_spec in E. destruct E as [E _]. contradiction.
Qed.

Lemma ch_match_refl a : ChannelIdentifier_eq a a = true.
Proof. apply ch_match_spec. unfold ch_match_prop. tauto. Qed.

(* matching is an overlap relation, not an equivalence: not transitive through ALL *)
Lemma ch_match_not_transitive :
  exists a b c, ChannelIdentifier_eq a b = true /\ ChannelIdentifier_eq b c = true /\ ChannelIdentifier_eq a c = false.
Proof.
  exists (MkChannelIdentifier 0 QubitChannel_MICROWAVE), (MkChannelIdentifier 0 QubitChannel_ALL),
         (MkChannelIdentifier 0 QubitChannel_FLUX). repeat split.
Qed.

(* ------------------------------------------------------------------ qubit / edge identifiers *)
Lemma qubit_eq_name a b : QubitIDObj_eq a b = true <-> QubitIDObj_name a = QubitIDObj_name b.
Proof. unfold QubitIDObj_eq, QubitIDObj_name, QubitIDObj_id. apply String.eqb_eq. Qed.

Lemma qubit_eq_leibniz a b : QubitIDObj_eq a b = true <-> a = b.
Proof.
  rewrite qubit_eq_name. unfold QubitIDObj_name, QubitIDObj_id. destruct a, b; simpl.
  split; [intros ->; reflexivity | intros E; inversion E; reflexivity].
Qed.

Lemma qubit_eq_hash (shash : string -> Z) a b : QubitIDObj_eq a b = true -> QubitIDObj_hash shash a = QubitIDObj_hash shash b.
Proof. intros H. apply qubit_eq_leibniz in H. now subst. Qed.

Definition edge_swap (e : EdgeIDObj) : EdgeIDObj := MkEdgeIDObj (EdgeIDObj_qubit_id1 e) (EdgeIDObj_qubit_id0 e).

Lemma edge_contains_spec e q :
  EdgeIDObj_contains e q = true <-> q = EdgeIDObj_qubit_id0 e \/ q = EdgeIDObj_qubit_id1 e.
Proof.
  unfold EdgeIDObj_contains. simpl. rewrite orb_false_r.
  destruct (QubitIDObj_eq (EdgeIDObj_qubit_id0 e) q) eqn:E0; simpl.
  - apply qubit_eq_leibniz in E0. split; auto.
  - destruct (QubitIDObj_eq (EdgeIDObj_qubit_id1 e) q) eqn:E1; simpl.
    + apply qubit_eq_leibniz in E1. split; auto.
    + split; [discriminate|]. intros [H|H]; subst q.
      * assert (X : QubitIDObj_eq (EdgeIDObj_qubit_id0 e) (EdgeIDObj_qubit_id0 e) = true) by now apply qubit_eq_leibniz.
        congruence.
      * assert (X : QubitIDObj_eq (EdgeIDObj_qubit_id1 e) (EdgeIDObj_qubit_id1 e) = true) by now apply qubit_eq_leibniz.
        congruence.
Qed.

Lemma edge_eq_spec e f :
  EdgeIDObj_eq e f = true <->
  (EdgeIDObj_qubit_id0 e = EdgeIDObj_qubit_id0 f \/ EdgeIDObj_qubit_id0 e = EdgeIDObj_qubit_id1 f) /\
  (EdgeIDObj_qubit_id1 e = EdgeIDObj_qubit_id0 f \/ EdgeIDObj_qubit_id1 e = EdgeIDObj_qubit_id1 f).
Proof. unfold EdgeIDObj_eq. rewrite andb_true_iff, !edge_contains_spec. tauto. Qed.

(* equal regardless of the order of the two qubits *)
Lemma edge_eq_swap_self e : EdgeIDObj_eq e (edge_swap e) = true.
Proof. apply edge_eq_spec. simpl. tauto. Qed.

Lemma edge_eq_swap_r e f : EdgeIDObj_eq e (edge_swap f) = EdgeIDObj_eq e f.
Proof.
  destruct (EdgeIDObj_eq e f) eqn:E.
  - apply edge_eq_spec in E. apply edge_eq_spec. simpl. tauto.
  - destruct (EdgeIDObj_eq e (edge_swap f)) eqn:E2; [|reflexivity].
    apply edge_eq_spec in E2. simpl in E2.
    assert (X : EdgeIDObj_eq e f = true) by (apply edge_eq_spec; tauto). congruence.
Qed.

Lemma edge_eq_swap_l e f : EdgeIDObj_eq (edge_swap e) f = EdgeIDObj_eq e f.
Proof.
  destruct (EdgeIDObj_eq e f) eqn:E.
  - apply edge_eq_spec in E. apply edge_eq_spec. simpl. tauto.
  - destruct (EdgeIDObj_eq (edge_swap e) f) eqn:E2; [|reflexivity].
    apply edge_eq_spec in E2. simpl in E2.
    assert (X : EdgeIDObj_eq e f = true) by (apply edge_eq_spec; tauto). congruence.
Qed.

Lemma edge_eq_refl e : EdgeIDObj_eq e e = true.
Proof. apply edge_eq_spec. tauto. Qed.

Definition edge_proper (e : EdgeIDObj) : Prop := EdgeIDObj_qubit_id0 e <> EdgeIDObj_qubit_id1 e.

(* on proper edges (two different qubits) equality is symmetric and hash-consistent *)
Lemma edge_eq_proper e f : edge_proper e -> EdgeIDObj_eq e f = true -> f = e \/ f = edge_swap e.
Proof.
  unfold edge_proper. intros P H. apply edge_eq_spec in H. destruct e as [a b], f as [c d]; simpl in *.
  destruct H as [[H1|H1] [H2|H2]]; subst; try contradiction; auto.
Qed.

Section Hashes.
Variable shash : string -> Z.
Variable thash : Z * Z -> Z.
(* hash equal regardless of the order, for every string hash and every tuple hash *)
Lemma edge_hash_swap e : EdgeIDObj_hash shash thash (edge_swap e) = EdgeIDObj_hash shash thash e.
Proof. unfold EdgeIDObj_hash, edge_swap. simpl. now rewrite Z.min_comm, Z.max_comm. Qed.

Lemma edge_eq_hash e f : edge_proper e -> EdgeIDObj_eq e f = true ->
  EdgeIDObj_hash shash thash e = EdgeIDObj_hash shash thash f.
Proof.
  intros P H. destruct (edge_eq_proper e f P H) as [->| ->]; [reflexivity | now rewrite edge_hash_swap].
Qed.

End Hashes.

Lemma edge_eq_sym_proper e f : edge_proper e -> edge_proper f -> EdgeIDObj_eq e f = EdgeIDObj_eq f e.
Proof.
  intros Pe Pf.
  destruct (EdgeIDObj_eq e f) eqn:E1, (EdgeIDObj_eq f e) eqn:E2; try reflexivity.
  - destruct (edge_eq_proper e f Pe E1) as [->| ->]; [now rewrite edge_eq_refl in E2|].
    now rewrite edge_eq_swap_l, edge_eq_refl in E2.
  - destruct (edge_eq_proper f e Pf E2) as [->| ->]; [now rewrite edge_eq_refl in E1|].
    now rewrite edge_eq_swap_l, edge_eq_refl in E1.
Qed.

(* degenerate edges A-A are outside the statement: there == is not symmetric (informational) *)
Lemma edge_eq_degenerate_asymmetric :
  exists e f, EdgeIDObj_eq e f = true /\ EdgeIDObj_eq f e = false.
Proof.
  exists (MkEdgeIDObj (MkQubitIDObj "A") (MkQubitIDObj "A")), (MkEdgeIDObj (MkQubitIDObj "A") (MkQubitIDObj "B")).
  split; reflexivity.
Qed.

(* ------------------------------------------------------------------ unique_in_order *)
Section Uio.
Context {A : Type} (eqb : A -> A -> bool).
Hypothesis eqb_spec : forall x y, eqb x y = true <-> x = y.

Lemma eqb_refl x : eqb x x = true. Proof. now apply eqb_spec. Qed.

Lemma existsb_eqb_In x l : existsb (eqb x) l = true <-> In x l.
Proof.
  rewrite existsb_exists. split.
  - intros [y [Hy E]]. apply eqb_spec in E. now subst.
  - intros H. exists x. split; [assumption | apply eqb_refl].
Qed.

Lemma filter_filter_comm (f g : A -> bool) l : filter f (filter g l) = filter g (filter f l).
Proof. induction l as [|x t IH]; simpl; [reflexivity|]. destruct (f x) eqn:F, (g x) eqn:G; simpl; rewrite ?F, ?G, IH; reflexivity. Qed.

Lemma filter_idem (f : A -> bool) l : filter f (filter f l) = filter f l.
Proof. induction l as [|x t IH]; simpl; [reflexivity|]. destruct (f x) eqn:F; simpl; rewrite ?F, IH; reflexivity. Qed.

Lemma filter_andb (f g : A -> bool) l : filter f (filter g l) = filter (fun y => g y && f y) l.
Proof. induction l as [|x t IH]; simpl; [reflexivity|]. destruct (g x) eqn:G; simpl; [destruct (f x); now rewrite IH | exact IH]. Qed.

(* generalised: with an accumulated `seen`, the loop computes nub filtered by "not seen" *)
Lemma uio_aux_nub seen l :
  uio_aux eqb seen l = filter (fun y => negb (existsb (eqb y) seen)) (nub eqb l).
Proof.
  revert seen; induction l as [|x t IH]; intros seen; simpl; [reflexivity|].
  destruct (existsb (eqb x) seen) eqn:E; simpl.
  - rewrite IH, filter_andb. apply filter_ext. intros y.
    destruct (eqb x y) eqn:Exy; simpl; [|reflexivity].
    apply eqb_spec in Exy. subst y. now rewrite E.
  - f_equal. rewrite IH, filter_andb. apply filter_ext. intros y.
    destruct (eqb y x) eqn:Eyx; simpl.
    + apply eqb_spec in Eyx. subst y. now rewrite eqb_refl.
    + destruct (eqb x y) eqn:Exy; simpl; [|now rewrite Eyx].
      apply eqb_spec in Exy. subst y. rewrite eqb_refl in Eyx. discriminate.
Qed.

Theorem unique_in_order_is_nub l : unique_in_order eqb l = nub eqb l.
Proof.
  unfold unique_in_order. rewrite uio_aux_nub. simpl.
  induction (nub eqb l) as [|y t IH]; simpl; [reflexivity | now rewrite IH].
Qed.

Lemma nub_In x l : In x (nub eqb l) <-> In x l.
Proof.
  induction l as [|y t IH]; simpl; [tauto|].
  rewrite filter_In, IH. split.
  - intros [H|[H _]]; auto.
  - intros [H|H]; [auto|]. destruct (eqb y x) eqn:E; [left; now apply eqb_spec | right; split; [assumption| reflexivity]].
Qed.

Lemma NoDup_filter (f : A -> bool) l : NoDup l -> NoDup (filter f l).
Proof.
  induction 1 as [|x l Hx Hl IH]; simpl; [constructor|].
  destruct (f x); [constructor; [rewrite filter_In; tauto | assumption] | assumption].
Qed.

Lemma nub_NoDup l : NoDup (nub eqb l).
Proof.
  induction l as [|y t IH]; simpl; constructor.
  - rewrite filter_In. intros [_ H]. rewrite eqb_refl in H. discriminate.
  - now apply NoDup_filter.
Qed.

(* subsequence of the input *)
Inductive sublist : list A -> list A -> Prop :=
| sub_nil : sublist [] []
| sub_skip x l1 l2 : sublist l1 l2 -> sublist l1 (x :: l2)
| sub_keep x l1 l2 : sublist l1 l2 -> sublist (x :: l1) (x :: l2).

Lemma sublist_filter (f : A -> bool) l : sublist (filter f l) l.
Proof. induction l as [|x t IH]; simpl; [constructor|]. destruct (f x); now constructor. Qed.

Lemma sublist_trans l1 l2 l3 : sublist l1 l2 -> sublist l2 l3 -> sublist l1 l3.
Proof.
  intros H12 H23; revert l1 H12; induction H23 as [|x l2 l3 H IH|x l2 l3 H IH]; intros l1 H12.
  - assumption.
  - constructor. now apply IH.
  - inversion H12; subst; [constructor; now apply IH | constructor; now apply IH].
Qed.

Lemma nub_sublist l : sublist (nub eqb l) l.
Proof.
  induction l as [|y t IH]; simpl; [constructor|]. apply sub_keep.
  eapply sublist_trans; [apply sublist_filter | exact IH].
Qed.

(* the head of the input is kept in front: first occurrences, in order (recursive characterisation = nub itself) *)
Theorem unique_in_order_spec l :
  let r := unique_in_order eqb l in
  NoDup r /\ sublist r l /\ (forall x, In x r <-> In x l) /\
  r = nub eqb l.
Proof.
  simpl. rewrite unique_in_order_is_nub. repeat split; try apply nub_In.
  - apply nub_NoDup. - apply nub_sublist.
Qed.
End Uio.

(* non-vacuity: the hypotheses are met by Z.eqb, and the statement says something on a list with repeats *)
Example uio_example : unique_in_order Z.eqb [3; 1; 3; 2; 1] = [3; 1; 2].
Proof. reflexivity. Qed.
Example uio_hyp_Z : forall x y, Z.eqb x y = true <-> x = y.
Proof. intros; apply Z.eqb_eq. Qed.

(* ---- which OBJECT is kept: for ANY equivalence (equal-but-distinct objects, e.g. an edge given in both directions), not only
   for an equality test that decides Leibniz equality, the result is `nub`: every class is represented by its FIRST member ---- *)
Section UioEquiv.
Context {A : Type} (eqb : A -> A -> bool).
Hypothesis eqb_sym : forall x y, eqb x y = eqb y x.
Hypothesis eqb_trans : forall x y z, eqb x y = true -> eqb y z = true -> eqb x z = true.

Lemma filter_filter (P Q : A -> bool) l : filter P (filter Q l) = filter (fun y => Q y && P y) l.
Proof.
  induction l as [|a l IH]; cbn [filter]; [reflexivity|].
  destruct (Q a) eqn:EQ; cbn [filter andb]; [destruct (P a); rewrite IH; reflexivity | exact IH].
Qed.

Lemma filter_ext_in' (P Q : A -> bool) l : (forall y, In y l -> P y = Q y) -> filter P l = filter Q l.
Proof.
  induction l as [|a l IH]; intros H; cbn [filter]; [reflexivity|].
  rewrite (H a (or_introl eq_refl)), IH; [reflexivity | intros y Hy; apply H; right; exact Hy].
Qed.

Lemma uio_aux_nub_equiv l : forall seen,
  uio_aux eqb seen l = filter (fun y => negb (existsb (eqb y) seen)) (nub eqb l).
Proof.
  induction l as [|x t IH]; intros seen; cbn [uio_aux nub filter]; [reflexivity|].
  destruct (existsb (eqb x) seen) eqn:E; cbn [negb].
  - rewrite IH, filter_filter. apply filter_ext_in'. intros y _.
    destruct (existsb (eqb y) seen) eqn:Ey; cbn [negb]; [rewrite andb_false_r; reflexivity|].
    rewrite andb_true_r. destruct (eqb x y) eqn:Exy; cbn [negb]; [|reflexivity].
    exfalso. apply existsb_exists in E as [s [Hs Hxs]].
    assert (Hys : eqb y s = true) by (apply (eqb_trans y x s); [rewrite eqb_sym; exact Exy | exact Hxs]).
    assert (existsb (eqb y) seen = true) by (apply existsb_exists; exists s; split; assumption). congruence.
  - f_equal. rewrite IH, filter_filter. apply filter_ext_in'. intros y _. cbn [existsb].
    rewrite (eqb_sym y x). destruct (eqb x y); cbn [negb orb andb]; reflexivity.
Qed.

Lemma unique_in_order_nub_equiv l : unique_in_order eqb l = nub eqb l.
Proof.
  unfold unique_in_order. rewrite uio_aux_nub_equiv. cbn [existsb negb].
  induction (nub eqb l) as [|a r IH]; cbn [filter]; [reflexivity | rewrite IH; reflexivity].
Qed.
End UioEquiv.
