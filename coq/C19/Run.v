(* Case evaluation for the C19 correspondence run: the harness writes a `cases : list case` and evaluates
   `failing agree cases` (model vs implementation) and `failing spec_ok cases` (specification vs implementation). *)
From Coq Require Import ZArith List Bool String.
Import ListNotations.
From QCE Require Import Base.Prelude C19.Model.
From Gen Require Import Ident.
Open Scope Z_scope.

Inductive case :=
| CChan (a b : ChannelIdentifier) (r_eq r_in : bool)         (* a == b ; a in [b] *)
| CQubit (a b : string) (r_eq : bool) (ha hb : Z)            (* QubitIDObj(a) == QubitIDObj(b), hash(a), hash(b) *)
| CEdge (a b c d : string) (r_eq r_contains_a : bool) (h1 h2 : Z)  (* Edge(a,b) == Edge(c,d); Edge(c,d).contains(a); hashes *)
| CUniq (l r : list Z) (pos : list Z).                        (* unique_in_order(l) = r, where l is a list of pairwise DISTINCT objects whose
                                                                 equality classes are the numbers in l; pos = for every returned object, its
                                                                 position in the input (object identity) *)

Definition chan_all (c : ChannelIdentifier) := QubitChannel_eqb (ChannelIdentifier__channel c) QubitChannel_ALL.
Definition edge (a b : string) := MkEdgeIDObj (MkQubitIDObj a) (MkQubitIDObj b).

Definition agree (c : case) : bool :=
  match c with
  | CChan a b r_eq r_in => Bool.eqb (ChannelIdentifier_eq a b) r_eq && Bool.eqb (existsb (fun y => ChannelIdentifier_eq y a) [b]) r_in
  | CQubit a b r _ _ => Bool.eqb (QubitIDObj_eq (MkQubitIDObj a) (MkQubitIDObj b)) r
  | CEdge a b c d r rc _ _ => Bool.eqb (EdgeIDObj_eq (edge a b) (edge c d)) r
                              && Bool.eqb (EdgeIDObj_contains (edge c d) (MkQubitIDObj a)) rc
  | CUniq l r pos =>
      let tagged := combine l (map Z.of_nat (seq 0 (List.length l))) in
      let out := unique_in_order (fun a b : Z * Z => fst a =? fst b) tagged in
      list_eqb Z.eqb (map fst out) r && list_eqb Z.eqb (map snd out) pos
  end.

(* the statement of C19, evaluated on what the implementation returned *)
Definition spec_ok (c : case) : bool :=
  match c with
  | CChan a b r_eq r_in =>
      let want := (ChannelIdentifier__id a =? ChannelIdentifier__id b)
                  && (QubitChannel_eqb (ChannelIdentifier__channel a) (ChannelIdentifier__channel b) || chan_all a || chan_all b) in
      Bool.eqb r_eq want && Bool.eqb r_in want
  | CQubit a b r ha hb => Bool.eqb r (String.eqb a b) && (negb r || (ha =? hb))
  | CEdge a b c d r rc h1 h2 =>
      let same := (String.eqb a c && String.eqb b d) || (String.eqb a d && String.eqb b c) in
      (* proper edges only: the statement is about edges between two different qubits *)
      if String.eqb a b || String.eqb c d then true
      else Bool.eqb r same && (negb r || (h1 =? h2)) && Bool.eqb rc (String.eqb a c || String.eqb a d)
  | CUniq l r pos =>
      (* the FIRST occurrence of every element is kept: the returned objects are those at the positions i with l[i] not among
         l[0..i-1], in order *)
      list_eqb Z.eqb (nub Z.eqb l) r
      && list_eqb Z.eqb (filter (fun i => negb (existsb (Z.eqb (nth (Z.to_nat i) l 0)) (firstn (Z.to_nat i) l)))
                                (map Z.of_nat (seq 0 (List.length l)))) pos
  end.
