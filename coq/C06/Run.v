(* C06 — applying repetition modifiers unrolls n back-to-back copies, once. *)
From Coq Require Import ZArith List Bool.
Import ListNotations.
From QCE Require Import Base.Prelude Core.Model Core.Run.
From Gen Require Import Ident Classes.
Open Scope Z_scope.

From QCE Require Import Lib.Run.
(* a case is either a generated build program (Core) or a library-built circuit (Lib) *)
Inductive case := KCore (c : Core.Run.case) | KLib (l : lcase).
Definition agree (c : case) : bool := match c with KCore x => agree_core x | KLib l => agree_lib l end.

(* expected multiset: every leaf of the program, product-of-enclosing-counts times *)
Record lkey := { lk_cls : Z; lk_chans : list ChannelIdentifier; lk_d : Z; lk_tag : Z }.
Definition lkey_eqb (a b : lkey) : bool :=
  (lk_cls a =? lk_cls b) && chans_eqb (lk_chans a) (lk_chans b) && (lk_d a =? lk_d b) && (lk_tag a =? lk_tag b).
Definition key_of_leaf (env : denv) (l : leaf) : lkey :=
  {| lk_cls := l_cls l; lk_chans := l_chans l; lk_d := resolve env (l_dur l);
     lk_tag := match l_acq l with Some (_, t) => t | None => -1 end |}.
Definition key_of_entry (o : oentry) : lkey :=
  {| lk_cls := oe_cls o; lk_chans := oe_chans o; lk_d := oe_d o; lk_tag := oe_tag o |}.
Fixpoint repeat_list {A} (n : nat) (l : list A) : list A := match n with O => [] | S k => l ++ repeat_list k l end.
Fixpoint keys_cmd (env : denv) (c : cmd) : list lkey :=
  match c with
  | CAdd l _ => [key_of_leaf env l]
  | CDangling l _ => [key_of_leaf env l]
  | CSub r body =>
      repeat_list (Z.to_nat r) ((fix go (l : list cmd) : list lkey := match l with [] => [] | x :: t => keys_cmd env x ++ go t end) body)
  end.
Definition expected_keys (env : denv) (p : list cmd) : list lkey := flat_map (keys_cmd env) p.
Definition count_key (k : lkey) (l : list lkey) : nat := length (filter (lkey_eqb k) l).
Definition same_multiset (a b : list lkey) : bool :=
  Nat.eqb (length a) (length b) && forallb (fun k => Nat.eqb (count_key k a) (count_key k b)) a.

(* every copy starts when the latest-ending relation leaf of what precedes it has ended (reported multi-links) *)
Definition multi_ok (o : oentry) : bool :=
  match oe_multi o with
  | [] => true
  | (_, e0) :: ms => oe_s o =? fold_left Z.max (map snd ms) e0
  end.

(* n*T for a program that is one repeated flat block whose last-ending operation is a relation leaf and in which nothing
   starts before the first operations *)
Definition zmax_list (d : Z) (l : list Z) : Z := match l with [] => d | x :: t => fold_left Z.max t x end.
Definition is_rel_leaf (ops : list oentry) (i : Z) : bool := negb (existsb (fun o => oe_refpos o =? i) ops).
Definition flat_body (b : list cmd) : bool := forallb (fun c => match c with CSub _ _ => false | _ => true end) b.
Definition nT_ok (c : Core.Run.case) : bool :=
  match c_prog c, c_plain c, c_unrolled c with
  | [CSub n body], Some pl, Some un =>
      if flat_body body then
        let ops := o_ops pl in
        let T := o_duration pl in
        let last_end := zmax_list 0 (map oe_e ops) in
        let hyp := forallb (fun o => 0 <=? oe_s o) ops
                   && existsb (fun i => match nth_error ops (Z.to_nat i) with
                                        | Some o => (oe_e o =? last_end) && is_rel_leaf ops i
                                        | None => false end) (map Z.of_nat (seq 0 (length ops))) in
        negb hyp || (o_duration un =? n * T)
      else true
  | _, _, _ => true
  end.

Definition spec_core (c : Core.Run.case) : bool :=
  match c_unrolled c with
  | None => true
  | Some un =>
      same_multiset (expected_keys (c_env c) (c_prog c)) (map key_of_entry (o_ops un))
      && forallb (Z.eqb 1) (c_reps_after c)
      && forallb multi_ok (o_ops un)
      && (match c_unrolled_twice c with Some u2 => obs_eqb un u2 | None => true end)
      && nT_ok c
  end.

(* library clause: the unrolled listing of every repeated block is the n-fold concatenation of the block's listing; after
   unrolling every count is 1 (checked through the Core clauses on the extracted structure by `agree`) *)
Definition spec_ok (c : case) : bool := match c with KCore x => spec_core x | KLib l => lib_concat_ok l end.
