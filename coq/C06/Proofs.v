(* C06 — applying repetition modifiers unrolls n back-to-back copies, once: the program-level statements.
   The graph-level theory is in Core/UnrollProofs.v (multiset, counts, idempotence, sizes) and Core/UnrollTimes.v (where and
   when the copies are placed). *)
From Coq Require Import ZArith List Bool Lia Arith Permutation.
Import ListNotations.
From QCE Require Import Base.Prelude Core.Model Core.Run Core.BfsProofs Core.BfsWf Core.TimesWf C02.Run C02.Proofs
  Core.UnrollProofs Core.UnrollTimes C06.Run.
From Gen Require Import Ident Classes.
Open Scope Z_scope.

(* unrolling once: a count of 1 leaves the node list unchanged up to the (idempotent) recursion into sub-circuits *)
Lemma repeat_nodes_one env ns : repeat_nodes env ns 1 = ns.
Proof. reflexivity. Qed.

(* ------------------------------------------------------------------ the expected leaves of a program *)
(* every leaf of the program, product-of-enclosing-counts times *)
Fixpoint cmd_expanded (c : cmd) : list leaf :=
  match c with
  | CAdd l _ => [l]
  | CDangling l _ => [l]
  | CSub r body =>
      rep_app (Z.to_nat r) ((fix go (l : list cmd) : list leaf := match l with [] => [] | x :: t => cmd_expanded x ++ go t end) body)
  end.
Definition prog_expanded (p : list cmd) : list leaf := flat_map cmd_expanded p.

Lemma cmd_expanded_sub r body : cmd_expanded (CSub r body) = rep_app (Z.to_nat r) (flat_map cmd_expanded body).
Proof. reflexivity. Qed.

(* it is the multiset C06.Run.spec_ok compares the implementation's unrolled listing with *)
Lemma repeat_list_rep_app {A} n (l : list A) : repeat_list n l = rep_app n l.
Proof. induction n as [|n IH]; simpl; [reflexivity | now rewrite IH]. Qed.

Lemma keys_cmd_expanded env c : keys_cmd env c = map (key_of_leaf env) (cmd_expanded c).
Proof.
  induction c as [l r | l t | r body IH] using cmd_ind'; try reflexivity.
  rewrite cmd_expanded_sub, rep_app_map. simpl. rewrite repeat_list_rep_app. f_equal.
  induction IH as [|c body H _ IHb]; simpl; [reflexivity|]. now rewrite map_app, H, IHb.
Qed.

Lemma expected_keys_expanded env p : expected_keys env p = map (key_of_leaf env) (prog_expanded p).
Proof.
  unfold expected_keys, prog_expanded. induction p as [|c p IH]; simpl; [reflexivity|].
  now rewrite map_app, keys_cmd_expanded, IH.
Qed.

(* ------------------------------------------------------------------ hypotheses on programs *)
(* every command list, times the count of its block, has at most 4999 entries; every count is at least 1 *)
Inductive unroll_small_cmd : cmd -> Prop :=
| us_add l r : unroll_small_cmd (CAdd l r)
| us_dangling l t : unroll_small_cmd (CDangling l t)
| us_sub r body : 1 <= r -> Z.of_nat (length body) * r <= 4999 -> Forall unroll_small_cmd body -> unroll_small_cmd (CSub r body).
Definition unroll_small_prog (p : list cmd) : Prop := Z.of_nat (length p) <= 4999 /\ Forall unroll_small_cmd p.

Lemma unroll_small_cmd_rsize env c : unroll_small_cmd c -> rsize_ok (cmd_op env c).
Proof.
  induction c as [l r | l t | r body IH] using cmd_ind'; intros S; [constructor | constructor |].
  inversion S as [| | ? ? Hr SL SB]; subst. cbn [cmd_op].
  assert (X : rsize_ok (copy_op env (OComp r (run_prog env body)))).
  { apply rsize_ok_copy; [apply run_prog_wf_op|]. constructor; [exact Hr | |].
    - unfold run_prog. rewrite run_cmds_length. simpl. exact SL.
    - apply (proj1 (Forall_map n_op rsize_ok _)). unfold run_prog. rewrite run_cmds_ops. simpl. apply Forall_map.
      rewrite Forall_forall in *. intros c Hc. apply IH; auto. }
  rewrite copy_op_comp in X. rewrite copy_nodes_eq. exact X.
Qed.

Lemma unroll_small_prog_rsize env p : unroll_small_prog p -> rsize_ok (OComp 1 (run_prog env p)).
Proof.
  intros [SL SB]. constructor; [lia | |].
  - unfold run_prog. rewrite run_cmds_length. simpl. lia.
  - apply (proj1 (Forall_map n_op rsize_ok _)). unfold run_prog. rewrite run_cmds_ops. simpl. apply Forall_map.
    rewrite Forall_forall in *. intros c Hc. apply unroll_small_cmd_rsize; auto.
Qed.

Lemma rsize_ok_ok o : wf_op o -> rsize_ok o -> ok o.
Proof. intros W H. split; [exact W | apply rsize_ok_size_ok; exact H]. Qed.

Lemma unroll_small_prog_ok env p : unroll_small_prog p -> ok (OComp 1 (run_prog env p)).
Proof. intros H. apply rsize_ok_ok; [apply run_prog_wf_op | apply unroll_small_prog_rsize; exact H]. Qed.

(* ------------------------------------------------------------------ expanded leaves of the built circuit *)
Section Obs.
  Variable env : denv.
  Variable B : Type.
  Variable f : leaf -> B.
  Hypothesis Hf : forall l, f (copy_leaf l) = f l.

  Lemma cmd_op_fexpanded c : unroll_small_cmd c -> Permutation (fexpanded B f (cmd_op env c)) (map f (cmd_expanded c)).
  Proof.
    induction c as [l r | l t | r body IH] using cmd_ind'; intros S; try apply Permutation_refl.
    inversion S as [| | ? ? Hr SL SB]; subst. cbn [cmd_op]. rewrite fexpanded_comp, cmd_expanded_sub, rep_app_map.
    apply rep_app_perm. change (run_cmds env body []) with (run_prog env body).
    assert (K : ok (OComp 1 (run_prog env body))).
    { apply unroll_small_prog_ok. split; [nia | exact SB]. }
    apply ok_comp_inv in K as (W & L & F).
    rewrite (measure_copy_nodes env B (fexpanded B f) (copy_fexpanded env B f Hf) _ W L F).
    unfold run_prog. rewrite run_cmds_ops. simpl. rewrite flat_map_map, C02.Proofs.map_flat_map.
    apply Permutation_flat_map_pointwise. rewrite Forall_forall in *. intros c Hc. apply IH; auto.
  Qed.

  Lemma run_prog_fexpanded p : unroll_small_prog p ->
    Permutation (fexpanded B f (OComp 1 (run_prog env p))) (map f (prog_expanded p)).
  Proof.
    intros [SL SB]. rewrite fexpanded_comp. change (Z.to_nat 1) with 1%nat. rewrite rep_app_one.
    unfold run_prog. rewrite run_cmds_ops. simpl. unfold prog_expanded. rewrite flat_map_map, C02.Proofs.map_flat_map.
    apply Permutation_flat_map_pointwise. rewrite Forall_forall in *. intros c Hc. apply cmd_op_fexpanded; auto.
  Qed.

  (* 4./9. the unrolled circuit lists every leaf of the program product-of-enclosing-counts times, nothing else *)
  Theorem unroll_listing_fmultiset p : unroll_small_prog p ->
    Permutation (map f (map e_leaf (listing env (apply_modifiers env 1 (run_prog env p))))) (map f (prog_expanded p)).
  Proof.
    intros S. rewrite listing_leaves.
    rewrite (op_leaves_perm _ (unroll_listable env 1 _ (run_prog_wf_op env 1 p) (unroll_small_prog_rsize env p S))).
    change (Permutation (fleaves B f (OComp 1 (apply_modifiers env 1 (run_prog env p)))) (map f (prog_expanded p))).
    rewrite (unroll_fmultiset env B f Hf 1 _ (unroll_small_prog_ok env p S)
               (rsize_ok_reps_pos _ (unroll_small_prog_rsize env p S))).
    apply run_prog_fexpanded. exact S.
  Qed.
End Obs.

(* the per-class copy() of the current source keeps every field of the model's leaves (C02: current_table_faithful) *)
Lemma copy_leaf_id_table : table_faithful = true -> forall l, copy_leaf l = l.
Proof. intros T l. apply copy_leaf_faithful. apply table_faithful_leaf. exact T. Qed.

Lemma copy_leaf_id_current : forall l, copy_leaf l = l.
Proof. apply copy_leaf_id_table. exact current_table_faithful. Qed.

Theorem unroll_listing_multiset_table env p : table_faithful = true -> unroll_small_prog p ->
  Permutation (map e_leaf (listing env (apply_modifiers env 1 (run_prog env p)))) (prog_expanded p).
Proof.
  intros T S. rewrite <- (map_id (map e_leaf _)), <- (map_id (prog_expanded p)).
  apply (unroll_listing_fmultiset env leaf (fun l => l)); [|exact S]. apply copy_leaf_id_table. exact T.
Qed.

Theorem unroll_listing_multiset env p : unroll_small_prog p ->
  Permutation (map e_leaf (listing env (apply_modifiers env 1 (run_prog env p)))) (prog_expanded p).
Proof. apply unroll_listing_multiset_table. exact current_table_faithful. Qed.

(* independent of the class table: on labels *)
Theorem unroll_listing_labels env p : unroll_small_prog p ->
  Permutation (map l_lab (map e_leaf (listing env (apply_modifiers env 1 (run_prog env p))))) (map l_lab (prog_expanded p)).
Proof. apply unroll_listing_fmultiset. reflexivity. Qed.

(* in the terms of C06.Run.spec_ok *)
Theorem unroll_listing_keys env p : unroll_small_prog p ->
  Permutation (map (key_of_leaf env) (map e_leaf (listing env (apply_modifiers env 1 (run_prog env p))))) (expected_keys env p).
Proof.
  intros S. rewrite expected_keys_expanded. apply unroll_listing_fmultiset; [|exact S].
  intros l. now rewrite copy_leaf_id_current.
Qed.

(* graph level, no listing: leaves of the unrolled structure *)
Theorem unroll_leaves_multiset env p : unroll_small_prog p ->
  Permutation (leaves_of (OComp 1 (apply_modifiers env 1 (run_prog env p)))) (prog_expanded p).
Proof.
  intros S. pose proof (unroll_fmultiset env leaf (fun l => l) copy_leaf_id_current 1 _ (unroll_small_prog_ok env p S)
                          (rsize_ok_reps_pos _ (unroll_small_prog_rsize env p S))) as H.
  unfold fleaves in H. rewrite map_id in H. rewrite H.
  pose proof (run_prog_fexpanded env leaf (fun l => l) copy_leaf_id_current p S) as H2. rewrite map_id in H2. exact H2.
Qed.

(* 5. every count is 1 afterwards; 6. applying again changes nothing *)
Theorem prog_unroll_counts_one env p : counts_one (OComp 1 (apply_modifiers env 1 (run_prog env p))).
Proof. apply unroll_counts_one. Qed.

Theorem prog_unroll_idem env p :
  apply_modifiers env 1 (apply_modifiers env 1 (run_prog env p)) = apply_modifiers env 1 (run_prog env p).
Proof. apply unroll_idem. Qed.

(* ------------------------------------------------------------------ where and when the copies are placed *)
From QCE Require Import Core.CopyOrder Core.UnrollOrder Core.UnrollDuration Core.TimesProofs.

(* blocks built by a program carry only plain links (none, or a relation to one node); so do their copies *)
Lemma cmd_link_not_multi c : match cmd_link c with LMulti _ => False | _ => True end.
Proof. destruct c as [l [[ty p]|] | l ty | r body]; exact I. Qed.

Lemma run_cmds_simple env cs : forall ns, simple_links ns -> simple_links (run_cmds env cs ns).
Proof.
  induction cs as [|c t IH]; intros ns S; [exact S|]. rewrite run_cmds_cons. apply IH.
  rewrite add_node_eq. apply Forall_app. split; [exact S|]. constructor; [|constructor].
  apply new_node_simple. apply cmd_link_not_multi.
Qed.

Lemma run_prog_simple env p : simple_links (run_prog env p).
Proof. apply run_cmds_simple. constructor. Qed.

Lemma bfs_single : bfs [None] = [0%nat].
Proof. vm_compute. reflexivity. Qed.

(* a program that is one block with count r: the unrolled listing is the unrolled content of the block followed by r-1
   times the unrolled content of its copy *)
Theorem prog_block_concat env r body :
  let sub := copy_nodes env (run_prog env body) in
  let d := op_depth (OComp r sub) in
  sub <> [] -> 1 <= r -> (Z.to_nat r * length sub <= max_layers)%nat ->
  map e_leaf (listing env (apply_modifiers env 1 (run_prog env [CSub r body])))
  = unrolled_content env (pred d) sub
    ++ rep_app (Z.to_nat (r - 1)) (unrolled_content env (pred d) (copy_nodes env (copy_nodes env sub))).
Proof.
  intros sub d Hne Hr L. rewrite listing_leaves.
  assert (Ed : d = S (pred d)) by (unfold d; rewrite op_depth_comp; reflexivity).
  assert (E : apply_modifiers env 1 (run_prog env [CSub r body])
              = [Node None LNone (OComp 1 (apply_mods_fuel (S (pred d)) env r sub))]).
  { unfold apply_modifiers. change (run_prog env [CSub r body]) with [Node None LNone (OComp r sub)].
    change (op_depth (OComp 1 [Node None LNone (OComp r sub)])) with (S (Nat.max d 0)). rewrite Nat.max_0_r, Ed. reflexivity. }
  rewrite E, op_leaves_comp. change (parents [Node None LNone (OComp 1 (apply_mods_fuel (S (pred d)) env r sub))]) with [@None nat].
  rewrite bfs_single. cbn [flat_map at_node nth_error n_op]. rewrite app_nil_r.
  apply unroll_concat; try assumption.
  - apply copy_nodes_wf_op.
  - apply copy_nodes_simple, run_prog_simple.
Qed.

(* ------------------------------------------------------------------ flat blocks built by a program: n*T and the n-fold listing *)
From QCE Require Import Core.UnrollCopy Core.TimesListing.

(* whether every class' copy() passes on the relation link (finding F3 was about classes for which it did not) *)
Definition table_keeps : bool := forallb cs_copy_link class_table.

Lemma table_keeps_leaf : table_keeps = true -> forall l, l_keeps l = true.
Proof.
  intros T l. unfold l_keeps, class_of. unfold table_keeps in T. rewrite forallb_forall in T.
  destruct (nth_in_or_default (Z.to_nat (l_cls l)) class_table no_class) as [H | H]; [exact (T _ H) | rewrite H; reflexivity].
Qed.

Example current_table_keeps : table_keeps = true.
Proof. vm_compute. reflexivity. Qed.

Lemma l_keeps_current : forall l, l_keeps l = true.
Proof. apply table_keeps_leaf. exact current_table_keeps. Qed.

(* add_to_graph places an operation without predecessor only if no listed operation shares a channel with it *)
Lemma new_node_root env ns o l : n_parent (new_node env ns o l) = None -> leaf_at_any ns (op_channels o) = None.
Proof.
  unfold new_node. destruct l as [|t p|ps|t]; simpl.
  - destruct (leaf_at_any ns (op_channels o)); [discriminate | reflexivity].
  - destruct (Nat.ltb p (length ns)); [discriminate|]. destruct (leaf_at_any ns (op_channels o)); [discriminate | reflexivity].
  - destruct (latest_of ns ps); [discriminate|]. destruct (leaf_at_any ns (op_channels o)); [discriminate | reflexivity].
  - destruct (leaf_at_any ns (op_channels o)); [discriminate | reflexivity].
Qed.

Lemma add_node_roots_apart env ns o l : wf_nodes ns -> roots_apart ns -> roots_apart (add_node env ns o l).
Proof.
  intros W RA i j ni nj Hlt Ei Ej Pi Pj. rewrite add_node_eq in Ei, Ej.
  assert (Hi : (i < S (length ns))%nat).
  { assert (H : (i < length (ns ++ [new_node env ns o l]))%nat) by (apply nth_error_Some; congruence).
    rewrite app_length in H. simpl in H. lia. }
  rewrite nth_error_app1 in Ej by lia.
  destruct (Nat.lt_ge_cases i (length ns)) as [Hl | Hl].
  - rewrite nth_error_app1 in Ei by exact Hl. exact (RA i j ni nj Hlt Ei Ej Pi Pj).
  - rewrite nth_error_app2 in Ei by exact Hl. replace (i - length ns)%nat with 0%nat in Ei by lia. simpl in Ei.
    inversion Ei; subst ni. rewrite new_node_op. apply new_node_root in Pi.
    pose proof (leaf_at_any_none ns _ Pi j) as H. unfold node_chans in H.
    rewrite (nth_indep _ [] (op_channels (n_op nj))) in H by (rewrite map_length; lia).
    rewrite (map_nth (fun n => op_channels (n_op n)) ns nj j), (nth_error_nth _ _ nj Ej) in H. apply H.
    apply (bfs_In _ _ (proj1 W)). rewrite parents_length. split; [lia|].
    rewrite depth_root by (rewrite parents_nth_error, Ej; simpl; now rewrite Pj). pose proof max_layers_eq. lia.
Qed.

Lemma run_cmds_roots_apart env cs : forall ns, wf_op (OComp 1 ns) -> roots_apart ns -> roots_apart (run_cmds env cs ns).
Proof.
  induction cs as [|c t IH]; intros ns W RA; [exact RA|]. rewrite run_cmds_cons. apply IH.
  - apply add_node_wf_op; [exact W | apply cmd_op_wf | apply cmd_link_in_range].
  - apply add_node_roots_apart; [exact (proj1 (wf_op_comp_inv _ _ W)) | exact RA].
Qed.

Lemma run_prog_roots_apart env p : roots_apart (run_prog env p).
Proof.
  apply run_cmds_roots_apart; [constructor; [apply wf_nodes_nil | constructor]|].
  intros i j ni nj _ Ei. destruct i; discriminate.
Qed.

Lemma run_prog_flat env b : flat_body b = true -> flat (run_prog env b).
Proof.
  intros H. apply flat_ops. unfold run_prog. rewrite run_cmds_ops. simpl. apply Forall_map.
  unfold flat_body in H. rewrite forallb_forall in H. apply Forall_forall. intros c Hc. specialize (H c Hc).
  destruct c as [l r | l t | r body]; [exists l; reflexivity | exists l; reflexivity | discriminate].
Qed.

Lemma unroll_node_leaf env fuel nd : (exists l, n_op nd = OLeaf l) -> unroll_node env fuel nd = nd.
Proof. intros (l & E). destruct nd as [p lk [lf | r sub]]; [reflexivity | discriminate]. Qed.

Lemma apply_mods_fuel_flat env fuel r ns : flat (repeat_nodes env ns r) ->
  apply_mods_fuel (S fuel) env r ns = repeat_nodes env ns r.
Proof.
  intros F. rewrite apply_mods_fuel_S. apply map_id_on. eapply Forall_impl; [|exact F]. intros nd. apply unroll_node_leaf.
Qed.

(* a circuit that consists of one block: its extent is that of the block, clipped at its own start *)
Lemma singleton_duration env o lo hi : ext_of env o = (lo, hi) ->
  comp_duration env [Node None LNone o] = Z.max 0 hi - Z.min 0 lo.
Proof.
  intros H. unfold comp_duration, dur_of. rewrite ext_of_unfold.
  change (parents [Node None LNone o]) with [@None nat]. unfold extent_of_nodes. rewrite bfs_single.
  change (depth1 [None]) with [0%nat].
  change (node_times env None [Node None LNone o]) with [(0, 0 + dur_of env o)].
  cbn [map n_op fold_left nth fst snd zmin_list]. rewrite H. cbn [fst snd]. lia.
Qed.

(* one flat block with count n, built by a program: after apply_modifiers the circuit lasts n*T and lists the block n times *)
Theorem prog_flat_block env body n T : flat_body body = true -> blk env (run_prog env body) T ->
  1 <= n -> (Z.to_nat n * length body <= max_layers)%nat ->
  comp_duration env (apply_modifiers env 1 (run_prog env [CSub n body])) = n * T
  /\ map e_leaf (listing env (apply_modifiers env 1 (run_prog env [CSub n body])))
     = rep_app (Z.to_nat n) (map e_leaf (listing env (run_prog env body))).
Proof.
  intros FB Hb Hn L. set (ns0 := run_prog env body) in *. set (sub := copy_nodes env ns0).
  pose proof copy_leaf_id_current as Hcopy. pose proof l_keeps_current as Hkeeps.
  assert (L0 : (length ns0 <= max_layers)%nat).
  { unfold ns0, run_prog. rewrite run_cmds_length. simpl. rewrite (Z_to_nat_pred n Hn) in L. lia. }
  assert (Len : length ns0 = length body) by (unfold ns0, run_prog; rewrite run_cmds_length; reflexivity).
  pose proof (run_prog_wf env body) as W0. fold ns0 in W0.
  pose proof (run_prog_flat env body FB) as F0. fold ns0 in F0.
  pose proof (run_prog_simple env body) as S0. fold ns0 in S0.
  pose proof (run_prog_roots_apart env body) as R0. fold ns0 in R0.
  pose proof (blk_copy env ns0 Hcopy Hkeeps W0 F0 S0 R0 L0 T Hb) as Hsub. fold sub in Hsub.
  pose proof (cf_flat env ns0 Hcopy Hkeeps W0 F0 S0 L0) as Fsub. fold sub in Fsub.
  pose proof (copy_nodes_simple env ns0 S0) as Ssub. fold sub in Ssub.
  pose proof (cf_roots_apart env ns0 Hcopy Hkeeps W0 F0 S0 R0 L0) as Rsub. fold sub in Rsub.
  pose proof (copy_nodes_length env ns0 W0) as Lsub. fold sub in Lsub.
  assert (Lr : (Z.to_nat n * length sub <= max_layers)%nat) by nia.
  destruct (repeat_blk_flat env sub n T Hcopy Hkeeps Hsub Ssub Rsub Hn Lr) as [HR LR].
  set (d := op_depth (OComp n sub)).
  assert (Ed : d = S (pred d)) by (unfold d; rewrite op_depth_comp; reflexivity).
  assert (E : apply_modifiers env 1 (run_prog env [CSub n body]) = [Node None LNone (OComp 1 (repeat_nodes env sub n))]).
  { unfold apply_modifiers. change (run_prog env [CSub n body]) with [Node None LNone (OComp n sub)].
    change (op_depth (OComp 1 [Node None LNone (OComp n sub)])) with (S (Nat.max d 0)). rewrite Nat.max_0_r, Ed.
    change (apply_mods_fuel (S (S (pred d))) env 1 [Node None LNone (OComp n sub)])
      with [Node None LNone (OComp 1 (apply_mods_fuel (S (pred d)) env n sub))].
    rewrite apply_mods_fuel_flat; [reflexivity | exact (blk_flat _ _ _ HR)]. }
  rewrite E. split.
  - rewrite (singleton_duration env _ 0 (n * T) (blk_extent env _ 1 (n * T) HR LR)). pose proof (blk_T _ _ _ HR). lia.
  - rewrite listing_leaves, op_leaves_comp.
    change (parents [Node None LNone (OComp 1 (repeat_nodes env sub n))]) with [@None nat].
    rewrite bfs_single. cbn [flat_map at_node nth_error n_op]. rewrite app_nil_r, op_leaves_olist.
    rewrite (repeat_flat_olist op_leaves env sub n Hcopy Hkeeps (blk_wf _ _ _ Hsub) Fsub Ssub Rsub (blk_ne _ _ _ Hsub) Hn Lr).
    unfold sub. rewrite (copy_flat_olist env ns0 Hcopy Hkeeps W0 F0 S0 R0 L0 op_leaves). now rewrite listing_olist.
Qed.

Theorem run_prog_block_facts env p : simple_links (run_prog env p) /\ roots_apart (run_prog env p).
Proof. split; [apply run_prog_simple | apply run_prog_roots_apart]. Qed.

(* graph level, for the classes of the current source *)
Theorem repeat_nT_current env ns n T : blk env ns T -> simple_links ns -> roots_apart ns -> 1 <= n ->
  (Z.to_nat n * length ns <= max_layers)%nat -> comp_duration env (repeat_nodes env ns n) = n * T.
Proof. apply repeat_nT_flat; [exact copy_leaf_id_current | exact l_keeps_current]. Qed.

Theorem repeat_flat_listing_current env ns n : wf_nodes ns -> flat ns -> simple_links ns -> roots_apart ns -> ns <> [] -> 1 <= n ->
  (Z.to_nat n * length ns <= max_layers)%nat ->
  map e_leaf (listing env (repeat_nodes env ns n)) = rep_app (Z.to_nat n) (map e_leaf (listing env ns)).
Proof. apply repeat_flat_listing; [exact copy_leaf_id_current | exact l_keeps_current]. Qed.

(* ------------------------------------------------------------------ examples / non-vacuity *)
Definition ex_env : denv := mk_env 8 2 4 16 [].
Definition ex_leaf (lab cls q : Z) : leaf := mk_leaf lab cls [q] QubitChannel_ALL (default_dstrat cls) None.
Definition ex_cz (lab : Z) : leaf := mk_leaf lab C_CPhase [0; 1] QubitChannel_ALL (DGlobal GFlux) None.

(* nested counts 2 and 3: the inner leaf (label 3) occurs 6 times, the leaves of the outer block twice, the others once *)
Definition ex_prog : list cmd :=
  [ CAdd (ex_leaf 0 C_Rx180 0) None;
    CSub 2 [ CAdd (ex_leaf 1 C_Rx90 0) None; CAdd (ex_leaf 2 C_Ry90 1) None;
             CSub 3 [ CAdd (ex_cz 3) None ];
             CAdd (ex_leaf 4 C_Rxm90 0) None ];
    CAdd (ex_leaf 5 C_Ry180 1) None ].

Example ex_unroll_small : unroll_small_prog ex_prog.
Proof. split; [vm_compute; discriminate|]. repeat (constructor; try (vm_compute; discriminate)). Qed.

Example ex_unrolled_listing :
  map l_lab (map e_leaf (listing ex_env (apply_modifiers ex_env 1 (run_prog ex_env ex_prog))))
  = [0; 1; 2; 3; 3; 3; 4; 1; 2; 3; 3; 3; 4; 5]
  /\ map l_lab (prog_expanded ex_prog) = [0; 1; 2; 3; 3; 3; 4; 1; 2; 3; 3; 3; 4; 5]
  /\ length (filter (Z.eqb 3) (map l_lab (map e_leaf (listing ex_env (apply_modifiers ex_env 1 (run_prog ex_env ex_prog)))))) = 6%nat.
Proof. vm_compute. repeat split. Qed.

Example ex_unrolled_multiset :
  Permutation (map e_leaf (listing ex_env (apply_modifiers ex_env 1 (run_prog ex_env ex_prog)))) (prog_expanded ex_prog).
Proof. apply unroll_listing_multiset. exact ex_unroll_small. Qed.

(* the copies are back to back: (label, start, end) *)
Example ex_unrolled_times :
  map (fun e => (l_lab (e_leaf e), e_start e, e_end e)) (listing ex_env (apply_modifiers ex_env 1 (run_prog ex_env ex_prog)))
  = [(0, 0, 2); (1, 2, 4); (2, 2, 4); (3, 4, 8); (3, 8, 12); (3, 12, 16); (4, 16, 18);
     (1, 18, 20); (2, 18, 20); (3, 20, 24); (3, 24, 28); (3, 28, 32); (4, 32, 34); (5, 34, 36)].
Proof. vm_compute. reflexivity. Qed.

(* the counts before are not all 1 (so idempotence and counts_one are not vacuous) *)
Example ex_counts_before : ~ counts_one (OComp 1 (run_prog ex_env ex_prog)).
Proof.
  intros H. apply counts_one_comp_inv in H as [_ F]. vm_compute in F.
  inversion F as [|? ? _ F1]; subst. inversion F1 as [|? ? H1 _]; subst. inversion H1.
Qed.

Example ex_unroll_changes : apply_modifiers ex_env 1 (run_prog ex_env ex_prog) <> run_prog ex_env ex_prog.
Proof. vm_compute. discriminate. Qed.

(* a flat two-qubit block of duration 8 whose last operation is a relation leaf; repeated 3 times: 24 *)
Definition ex_body : list cmd :=
  [ CAdd (ex_leaf 1 C_Rx90 0) None; CAdd (ex_leaf 2 C_Ry90 1) None; CAdd (ex_cz 3) None; CAdd (ex_leaf 4 C_Rxm90 0) None ].
Definition ex_block : list node := run_prog ex_env ex_body.

Example ex_block_blk : blk ex_env ex_block 8 /\ simple_links ex_block
                       /\ blk ex_env (copy_nodes ex_env (copy_nodes ex_env ex_block)) 8.
Proof.
  split; [apply blk_check_sound; [apply run_prog_wf | vm_compute; reflexivity]|].
  split; [apply simple_check_sound; vm_compute; reflexivity|].
  apply blk_check_sound; [apply copy_nodes_wf | vm_compute; reflexivity].
Qed.

Example ex_block_nT : comp_duration ex_env (repeat_nodes ex_env ex_block 3) = 3 * 8.
Proof.
  destruct ex_block_blk as (H1 & H2 & H3). apply repeat_nT; try assumption; [lia|].
  vm_compute. apply Nat.leb_le. vm_compute. reflexivity.
Qed.

Example ex_block_nT_computed : comp_duration ex_env ex_block = 8 /\ comp_duration ex_env (repeat_nodes ex_env ex_block 3) = 24.
Proof. vm_compute. split; reflexivity. Qed.

(* the hypotheses of extend_first_ops_start / extend_times_shift / the concatenation theorems on this block *)
Example ex_extend_hyps :
  graph_leaves (parents ex_block) = [0; 3]%nat /\ bfs (parents ex_block) = [0; 1; 2; 3]%nat
  /\ map n_link (extend ex_env ex_block (copy_nodes ex_env ex_block))
     = [LNone; LNone; LRel RelationType_FOLLOWED_BY 1; LRel RelationType_FOLLOWED_BY 2;
        LMulti [0; 3]%nat; LMulti [0; 3]%nat; LRel RelationType_FOLLOWED_BY 5; LRel RelationType_FOLLOWED_BY 6]
  /\ parents (extend ex_env ex_block (copy_nodes ex_env ex_block))
     = [None; None; Some 1; Some 2; Some 3; Some 3; Some 5; Some 6]%nat
  /\ node_times ex_env None (extend ex_env ex_block (copy_nodes ex_env ex_block))
     = [(0, 2); (0, 2); (2, 6); (6, 8); (8, 10); (8, 10); (10, 14); (14, 16)].
Proof. vm_compute. repeat split. Qed.

Example ex_block_concat :
  map l_lab (map e_leaf (listing ex_env (repeat_nodes ex_env ex_block 3))) = [1; 2; 3; 4; 1; 2; 3; 4; 1; 2; 3; 4].
Proof. vm_compute. reflexivity. Qed.

(* the program [CSub 3 ex_body]: duration 3 * 8 and the 3-fold listing, by the theorem and by computation *)
Example ex_prog_flat_block :
  comp_duration ex_env (apply_modifiers ex_env 1 (run_prog ex_env [CSub 3 ex_body])) = 3 * 8
  /\ map e_leaf (listing ex_env (apply_modifiers ex_env 1 (run_prog ex_env [CSub 3 ex_body])))
     = rep_app 3 (map e_leaf (listing ex_env (run_prog ex_env ex_body))).
Proof.
  apply prog_flat_block; [reflexivity | exact (proj1 ex_block_blk) | lia |].
  vm_compute. apply Nat.leb_le. vm_compute. reflexivity.
Qed.

Example ex_roots_apart : roots_apart ex_block /\ flat ex_block /\ ex_block <> [].
Proof. split; [apply run_prog_roots_apart|]. split; [apply run_prog_flat; reflexivity | vm_compute; discriminate]. Qed.
