From Coq Require Import ZArith List Bool Lia.
Import ListNotations.
From QCE Require Import Base.Prelude Core.Model.
Open Scope Z_scope.

(* unrolling once: a count of 1 leaves the node list unchanged up to the (idempotent) recursion into sub-circuits *)
Lemma repeat_nodes_one env ns : repeat_nodes env ns 1 = ns.
Proof. reflexivity. Qed.
