(* C12 -- lemmas.  All statements are about the generated definitions of Gen/Kernels.v and the fold of C12/Model.v. *)
From Coq Require Import ZArith List Bool Lia ZifyBool.
Import ListNotations.
From QCE Require Import Base.Prelude C12.Model.
From Gen Require Import Kernels.
Open Scope Z_scope.

(* ------------------------------------------------------------------ zrange *)
Lemma zrange_nil a b : b <= a -> zrange a b = [].
Proof. intros H. unfold zrange. replace (Z.to_nat (b - a)) with O by lia. reflexivity. Qed.

Lemma zrange_cons a b : a < b -> zrange a b = a :: zrange (a + 1) b.
Proof. intros H. unfold zrange. replace (Z.to_nat (b - a)) with (S (Z.to_nat (b - (a + 1)))) by lia. reflexivity. Qed.

Lemma zrange_n_app a n m : zrange_n a (n + m) = zrange_n a n ++ zrange_n (a + Z.of_nat n) m.
Proof.
  revert a; induction n as [|n IH]; intros a.
  - cbn [zrange_n Nat.add app]. f_equal. lia.
  - cbn [zrange_n Nat.add app]. f_equal. rewrite IH. f_equal. f_equal. lia.
Qed.

Lemma zrange_app a b c : a <= b <= c -> zrange a b ++ zrange b c = zrange a c.
Proof.
  intros H. unfold zrange. replace (Z.to_nat (c - a)) with (Z.to_nat (b - a) + Z.to_nat (c - b))%nat by lia.
  rewrite zrange_n_app. f_equal. f_equal. lia.
Qed.

Lemma zrange_snoc a b : a <= b -> zrange a (b + 1) = zrange a b ++ [b].
Proof.
  intros H. rewrite <- (zrange_app a b (b + 1)) by lia. f_equal.
  rewrite zrange_cons by lia. rewrite zrange_nil by lia. reflexivity.
Qed.

Lemma zrange_n_map_add c a n : map (fun i => c + i) (zrange_n a n) = zrange_n (c + a) n.
Proof.
  revert a; induction n as [|n IH]; intros a; cbn [zrange_n map]; [reflexivity|].
  f_equal. rewrite IH. f_equal. lia.
Qed.

Lemma zrange_map_add c a b : map (fun i => c + i) (zrange a b) = zrange (c + a) (c + b).
Proof. unfold zrange. rewrite zrange_n_map_add. f_equal. f_equal. lia. Qed.

Lemma zrange_map_add_r c a b : map (fun i => i + c) (zrange a b) = zrange (a + c) (b + c).
Proof.
  rewrite <- (map_ext (fun i => c + i)) by (intros; lia). rewrite zrange_map_add. f_equal; lia.
Qed.

Lemma zrange_length a b : length (zrange a b) = Z.to_nat (b - a).
Proof. unfold zrange. apply zrange_n_length. Qed.

(* ------------------------------------------------------------------ incr_in : strictly increasing inside [lo, hi] *)
Lemma incr_in_weaken lo lo' hi hi' l : lo' <= lo -> hi <= hi' -> incr_in lo hi l -> incr_in lo' hi' l.
Proof.
  revert lo lo'; induction l as [|x t IH]; intros lo lo' Hlo Hhi H; cbn [incr_in] in *.
  - lia.
  - destruct H as [Hx Ht]. split; [lia|]. apply (IH (x + 1)); [lia | lia | exact Ht].
Qed.

Lemma incr_in_room lo hi l : incr_in lo hi l -> lo <= hi + 1.
Proof.
  revert lo; induction l as [|x t IH]; intros lo H; cbn [incr_in] in H; [exact H|].
  destruct H as [Hx Ht]. lia.
Qed.

Lemma incr_in_app lo mid hi l1 l2 : incr_in lo mid l1 -> incr_in (mid + 1) hi l2 -> incr_in lo hi (l1 ++ l2).
Proof.
  revert lo; induction l1 as [|x t IH]; intros lo H1 H2; cbn [incr_in app] in *.
  - apply (incr_in_weaken (mid + 1) lo hi hi); [lia | lia | exact H2].
  - destruct H1 as [Hx Ht]. pose proof (incr_in_room _ _ _ H2). split; [lia|]. apply IH; assumption.
Qed.

Lemma incr_in_zrange_n a n hi : a + Z.of_nat n - 1 <= hi -> incr_in a hi (zrange_n a n).
Proof.
  revert a; induction n as [|n IH]; intros a H; cbn [zrange_n incr_in].
  - lia.
  - split; [lia|]. apply IH. lia.
Qed.

Lemma incr_in_zrange a b hi : a <= b -> b - 1 <= hi -> incr_in a hi (zrange a b).
Proof. intros H1 H2. unfold zrange. apply incr_in_zrange_n. lia. Qed.

Lemma incr_in_bounds lo hi l : incr_in lo hi l -> Forall (fun x => lo <= x <= hi) l.
Proof.
  revert lo; induction l as [|x t IH]; intros lo H; cbn [incr_in] in H; constructor.
  - tauto.
  - destruct H as [Hx Ht]. apply IH in Ht. eapply Forall_impl; [|exact Ht]. cbv beta. intros y Hy. lia.
Qed.

Lemma incr_in_NoDup lo hi l : incr_in lo hi l -> NoDup l.
Proof.
  revert lo; induction l as [|x t IH]; intros lo H; cbn [incr_in] in H; constructor.
  - destruct H as [Hx Ht]. intros HIn. apply incr_in_bounds in Ht. rewrite Forall_forall in Ht. specialize (Ht _ HIn). lia.
  - destruct H as [Hx Ht]. exact (IH _ Ht).
Qed.

Lemma incr_in_shift lo hi d l : incr_in lo hi l -> incr_in (lo + d) (hi + d) (map (fun x => x + d) l).
Proof.
  revert lo; induction l as [|x t IH]; intros lo H; cbn [incr_in map] in *.
  - lia.
  - destruct H as [Hx Ht]. split; [lia|]. replace (x + d + 1) with (x + 1 + d) by lia. apply IH. exact Ht.
Qed.

Lemma incr_in_sub lo hi l x : incr_in lo hi l -> In x l -> lo <= x <= hi.
Proof. intros H HIn. apply incr_in_bounds in H. rewrite Forall_forall in H. exact (H _ HIn). Qed.

(* ------------------------------------------------------------------ sorting keeps the elements *)
Lemma zinsert_In x y l : In y (zinsert x l) <-> y = x \/ In y l.
Proof.
  induction l as [|z t IH]; cbn [zinsert In].
  - intuition.
  - destruct (x <=? z); cbn [In]; rewrite ?IH; intuition.
Qed.

Lemma zsort_In y l : In y (zsort l) <-> In y l.
Proof.
  induction l as [|x t IH]; cbn [zsort In]; [tauto|]. rewrite zinsert_In, IH. intuition.
Qed.

Lemma zinsert_lt x l : (forall y, In y l -> x < y) -> zinsert x l = x :: l.
Proof.
  destruct l as [|z t]; intros Hx; cbn [zinsert]; [reflexivity|].
  assert (x < z) by (apply Hx; left; reflexivity). destruct (Z.leb_spec x z); [reflexivity | lia].
Qed.

(* sorting a strictly increasing list is the identity *)
Lemma zsort_incr lo hi l : incr_in lo hi l -> zsort l = l.
Proof.
  revert lo; induction l as [|x t IH]; intros lo H; cbn [zsort]; [reflexivity|].
  cbn [incr_in] in H. destruct H as [Hx Ht]. rewrite (IH _ Ht).
  apply zinsert_lt. intros y Hy. pose proof (incr_in_sub _ _ _ _ Ht Hy). lia.
Qed.

(* ------------------------------------------------------------------ one repetition kernel *)
Definition dh (h : bool) : Z := if h then 1 else 0.
Definition klen (h : bool) (r : Z) : Z := dh h + Z.max 0 (r - 1) + 1.

Ltac unf_rep :=
  cbv [RepetitionIndexKernel_stop_index RepetitionIndexKernel__exclusive_start_index
       RepetitionIndexKernel_index_delta_heralded_initialization RepetitionIndexKernel_index_delta_stabilizer_measurements
       RepetitionIndexKernel_index_delta_final_measurement RepetitionIndexKernel_kernel_length
       RepetitionIndexKernel_involved_qubit_ids
       RepetitionIndexKernel_get_heralded_measurement_index RepetitionIndexKernel_get_ordered_stabilizer_measurement_indices
       RepetitionIndexKernel_get_final_measurement_index
       RepetitionIndexKernel_start_index RepetitionIndexKernel_nr_repeated_parities RepetitionIndexKernel_heralded_initialization
       RepetitionIndexKernel_involved_data_qubit_ids RepetitionIndexKernel_involved_ancilla_qubit_ids
       RepetitionIndexKernel_as_IIndexingKernel IIndexingKernel_start_index IIndexingKernel_stop_index IIndexingKernel_kernel_length
       dh klen] in *.

Lemma rep_stop r h s d a : RepetitionIndexKernel_stop_index (MkRepetitionIndexKernel r h s d a) = s + klen h r - 1.
Proof. unf_rep. destruct h; lia. Qed.

Lemma rep_length r h s d a : RepetitionIndexKernel_kernel_length (MkRepetitionIndexKernel r h s d a) = klen h r.
Proof. unf_rep. destruct h; lia. Qed.

Lemma klen_pos h r : 1 <= klen h r.
Proof. unfold klen, dh. destruct h; lia. Qed.

Lemma existsb_app_r {A} (f : A -> bool) l1 l2 : existsb f l2 = true -> existsb f (l1 ++ l2) = true.
Proof. intros H. rewrite existsb_app, H. apply orb_true_r. Qed.

(* shape of the three getters *)
Lemma rep_heralded r h s d a q :
  RepetitionIndexKernel_get_heralded_measurement_index (MkRepetitionIndexKernel r h s d a) q
  = if is_member q (d ++ a) && h then [s] else [].
Proof. unf_rep. unfold is_member. destruct (existsb _ (d ++ a)); cbn [negb andb]; [|reflexivity]. destruct h; cbn [negb]; [f_equal; lia | reflexivity]. Qed.

Lemma rep_stabilizer r h s d a q :
  RepetitionIndexKernel_get_ordered_stabilizer_measurement_indices (MkRepetitionIndexKernel r h s d a) q
  = if is_member q a then zrange (s + dh h) (s + dh h + (r - 1)) else [].
Proof.
  unf_rep. unfold is_member. destruct (existsb _ a); cbn [negb]; [|reflexivity].
  destruct (Z.eqb_spec r 1) as [->|Hr].
  - rewrite zrange_nil by lia. reflexivity.
  - rewrite (zrange_map_add (s - 1 + (if h then 1 else 0)) 1 r). f_equal; destruct h; lia.
Qed.

Lemma rep_final r h s d a q :
  RepetitionIndexKernel_get_final_measurement_index (MkRepetitionIndexKernel r h s d a) q
  = if is_member q (d ++ a) && negb (is_member q a && (r =? 0)) then [s + klen h r - 1] else [].
Proof.
  unf_rep. unfold is_member. destruct (existsb _ (d ++ a)); cbn [negb andb]; [|reflexivity].
  destruct (existsb _ a && (r =? 0)); cbn [negb]; [reflexivity|]. f_equal. destruct h; lia.
Qed.

(* every category of q inside one kernel: strictly increasing in the order heralded, stabilizer, final, inside [start, stop] *)
Lemma rep_kernel_incr r h s d a q :
  let k := MkRepetitionIndexKernel r h s d a in
  incr_in (RepetitionIndexKernel_start_index k) (RepetitionIndexKernel_stop_index k) (kernel_indices k q).
Proof.
  cbv zeta. unfold kernel_indices. rewrite rep_heralded, rep_stabilizer, rep_final, rep_stop.
  cbn [RepetitionIndexKernel_start_index].
  pose proof (klen_pos h r) as Hk.
  apply (incr_in_app s (s + dh h - 1)).
  - destruct (is_member q (d ++ a) && h) eqn:E; cbn [incr_in]; unfold dh; destruct h; try lia.
  - replace (s + dh h - 1 + 1) with (s + dh h) by lia.
    apply (incr_in_app (s + dh h) (s + klen h r - 2)).
    + destruct (is_member q a); [| cbn [incr_in]; unfold klen; lia].
      destruct (Z.le_gt_cases 1 r).
      * apply incr_in_zrange; unfold klen; lia.
      * rewrite zrange_nil by lia. cbn [incr_in]. unfold klen. lia.
    + replace (s + klen h r - 2 + 1) with (s + klen h r - 1) by lia.
      destruct (is_member q (d ++ a) && negb (is_member q a && (r =? 0))); cbn [incr_in]; lia.
Qed.

(* an ancilla of the kernel, at least one round: the three categories together are exactly [start, stop] *)
Lemma rep_kernel_ancilla_cover r h s d a q :
  is_member q a = true -> 1 <= r ->
  let k := MkRepetitionIndexKernel r h s d a in
  kernel_indices k q = zrange (RepetitionIndexKernel_start_index k) (RepetitionIndexKernel_stop_index k + 1).
Proof.
  intros Ha Hr. cbv zeta. unfold kernel_indices. rewrite rep_heralded, rep_stabilizer, rep_final, rep_stop.
  cbn [RepetitionIndexKernel_start_index].
  assert (Hm : is_member q (d ++ a) = true) by (apply existsb_app_r; exact Ha).
  rewrite Ha, Hm. replace (r =? 0) with false by lia. cbn [andb negb].
  replace (s + klen h r - 1 + 1) with (s + klen h r) by lia.
  assert (Hk : klen h r = dh h + r) by (unfold klen; lia).
  rewrite <- (zrange_app s (s + dh h) (s + klen h r)) by (rewrite Hk; unfold dh; destruct h; lia).
  f_equal.
  - unfold dh. destruct h; [rewrite zrange_cons by lia | ]; rewrite zrange_nil by lia; reflexivity.
  - replace (s + klen h r) with (s + klen h r - 1 + 1) by lia. rewrite zrange_snoc by lia. f_equal; [f_equal; lia | f_equal; lia].
Qed.

(* an ancilla of the kernel, zero rounds: exactly the last slot (the final measurement) is missing -- the documented gap *)
Lemma rep_kernel_ancilla_zero_gap h s d a q :
  is_member q a = true ->
  let k := MkRepetitionIndexKernel 0 h s d a in
  kernel_indices k q = zrange (RepetitionIndexKernel_start_index k) (RepetitionIndexKernel_stop_index k)
  /\ RepetitionIndexKernel_get_final_measurement_index k q = []
  /\ RepetitionIndexKernel_get_ordered_stabilizer_measurement_indices k q = []
  /\ ~ In (RepetitionIndexKernel_stop_index k) (kernel_indices k q).
Proof.
  intros Ha. cbv zeta. unfold kernel_indices. rewrite rep_heralded, rep_stabilizer, rep_final, rep_stop.
  cbn [RepetitionIndexKernel_start_index].
  assert (Hm : is_member q (d ++ a) = true) by (apply existsb_app_r; exact Ha).
  rewrite Ha, Hm. cbn [andb negb Z.eqb]. rewrite (zrange_nil (s + dh h)) by lia. cbn [app].
  unfold klen, dh. destruct h; cbn [app].
  - rewrite zrange_cons by lia. rewrite zrange_nil by lia. repeat split; try reflexivity. cbn [In]. lia.
  - rewrite zrange_nil by lia. repeat split; try reflexivity. cbn [In]. tauto.
Qed.

(* ------------------------------------------------------------------ the calibration kernel *)
Ltac unf_cal :=
  cbv [QutritCalibrationIndexKernel_stop_index QutritCalibrationIndexKernel__exclusive_start_index
       QutritCalibrationIndexKernel_index_delta_heralded_initialization QutritCalibrationIndexKernel_index_delta_state_0
       QutritCalibrationIndexKernel_index_delta_state_1 QutritCalibrationIndexKernel_index_delta_state_2
       QutritCalibrationIndexKernel_kernel_length
       QutritCalibrationIndexKernel_get_heralded_state_0_measurement_index QutritCalibrationIndexKernel_get_heralded_state_1_measurement_index
       QutritCalibrationIndexKernel_get_heralded_state_2_measurement_index QutritCalibrationIndexKernel_get_state_0_measurement_index
       QutritCalibrationIndexKernel_get_state_1_measurement_index QutritCalibrationIndexKernel_get_state_2_measurement_index
       QutritCalibrationIndexKernel_start_index QutritCalibrationIndexKernel_heralded_initialization
       QutritCalibrationIndexKernel_involved_qubit_ids dh] in *.

Lemma cal_stop h s ids : QutritCalibrationIndexKernel_stop_index (MkQutritCalibrationIndexKernel h s ids) = s + 3 * dh h + 2.
Proof. unf_cal. destruct h; lia. Qed.

Lemma cal_length h s ids : QutritCalibrationIndexKernel_kernel_length (MkQutritCalibrationIndexKernel h s ids) = 3 * dh h + 3.
Proof. unf_cal. destruct h; lia. Qed.

(* the six getters, one by one *)
Lemma cal_getters h s ids q :
  let k := MkQutritCalibrationIndexKernel h s ids in
  let m := is_member q ids in
  QutritCalibrationIndexKernel_get_heralded_state_0_measurement_index k q = (if m && h then [s] else [])
  /\ QutritCalibrationIndexKernel_get_state_0_measurement_index k q = (if m then [s + dh h] else [])
  /\ QutritCalibrationIndexKernel_get_heralded_state_1_measurement_index k q = (if m && h then [s + 2] else [])
  /\ QutritCalibrationIndexKernel_get_state_1_measurement_index k q = (if m then [s + 2 * dh h + 1] else [])
  /\ QutritCalibrationIndexKernel_get_heralded_state_2_measurement_index k q = (if m && h then [s + 4] else [])
  /\ QutritCalibrationIndexKernel_get_state_2_measurement_index k q = (if m then [s + 3 * dh h + 2] else []).
Proof.
  cbv zeta. unf_cal. unfold is_member. destruct (existsb _ ids); cbn [negb andb]; [|repeat split; reflexivity].
  destruct h; cbn [negb]; repeat split; f_equal; lia.
Qed.

(* a qubit of the calibration kernel: the six categories in experiment order are exactly [start, stop] *)
Lemma cal_indices h s ids q :
  let k := MkQutritCalibrationIndexKernel h s ids in
  calibration_indices k q = if is_member q ids then zrange s (QutritCalibrationIndexKernel_stop_index k + 1) else [].
Proof.
  cbv zeta. unfold calibration_indices. rewrite cal_stop.
  destruct (cal_getters h s ids q) as (-> & -> & -> & -> & -> & ->).
  destruct (is_member q ids); cbn [andb]; [|reflexivity].
  unfold dh. destruct h; cbn [app]; rewrite !zrange_cons by lia; rewrite zrange_nil by lia; repeat (f_equal; try lia).
Qed.

Lemma cal_kernel_incr h s ids q :
  let k := MkQutritCalibrationIndexKernel h s ids in
  incr_in (QutritCalibrationIndexKernel_start_index k) (QutritCalibrationIndexKernel_stop_index k) (calibration_indices k q).
Proof.
  cbv zeta. rewrite cal_indices. rewrite cal_stop. cbn [QutritCalibrationIndexKernel_start_index].
  destruct (is_member q ids).
  - apply incr_in_zrange; unfold dh; destruct h; lia.
  - cbn [incr_in]. unfold dh; destruct h; lia.
Qed.

(* ------------------------------------------------------------------ the chain of repetition kernels, in closed form *)
Section Chain.
Variable h : bool.
Variables data anc : list Z.

Fixpoint kernels_from (s : Z) (rounds : list Z) : list RepetitionIndexKernel :=
  match rounds with
  | [] => []
  | r :: t => MkRepetitionIndexKernel r h s data anc :: kernels_from (s + klen h r) t
  end.

Fixpoint total_len (rounds : list Z) : Z :=
  match rounds with [] => 0 | r :: t => klen h r + total_len t end.

Lemma total_len_nonneg rounds : 0 <= total_len rounds.
Proof. induction rounds as [|r t IH]; cbn [total_len]; [lia|]. pose proof (klen_pos h r). lia. Qed.

Lemma total_len_pos rounds : rounds <> [] -> 1 <= total_len rounds.
Proof. destruct rounds as [|r t]; [congruence|]. intros _. cbn [total_len]. pose proof (klen_pos h r). pose proof (total_len_nonneg t). lia. Qed.

Definition start_after (prev : option RepetitionIndexKernel) : Z :=
  match prev with None => 0 | Some p => RepetitionIndexKernel_stop_index p + 1 end.

(* the loop of __init__ computes the closed form *)
Lemma init_kernels_closed rounds : forall prev, init_kernels prev h data anc rounds = kernels_from (start_after prev) rounds.
Proof.
  induction rounds as [|r t IH]; intros prev; cbn [init_kernels kernels_from]; [reflexivity|].
  assert (E : match prev with
              | None => RepetitionExperimentKernel_init_first_start
              | Some p => RepetitionExperimentKernel_init_next_start p
              end = start_after prev).
  { destruct prev as [p|]; reflexivity. }
  rewrite E. cbv [RepetitionExperimentKernel_init_kernel]. f_equal.
  rewrite IH. cbn [start_after]. rewrite rep_stop. f_equal; lia.
Qed.

Lemma kernels_from_length s rounds : length (kernels_from s rounds) = length rounds.
Proof. revert s; induction rounds as [|r t IH]; intros s; cbn [kernels_from length]; [reflexivity | now rewrite IH]. Qed.

Lemma kernels_from_rounds s rounds : map RepetitionIndexKernel_nr_repeated_parities (kernels_from s rounds) = rounds.
Proof. revert s; induction rounds as [|r t IH]; intros s; cbn [kernels_from map]; [reflexivity|]. now rewrite IH. Qed.

Lemma kernels_from_In s rounds k : In k (kernels_from s rounds) ->
  exists r s', k = MkRepetitionIndexKernel r h s' data anc /\ In r rounds /\ s <= s' /\ s' + klen h r <= s + total_len rounds.
Proof.
  revert s; induction rounds as [|r t IH]; intros s; cbn [kernels_from In total_len]; [tauto|].
  intros [<- | HIn].
  - exists r, s. pose proof (total_len_nonneg t). repeat split; [left; reflexivity | lia | lia].
  - destruct (IH _ HIn) as (r' & s' & -> & Hr & H1 & H2). exists r', s'. pose proof (klen_pos h r).
    repeat split; [right; exact Hr | lia | lia].
Qed.

Lemma last_opt_kernels_from s rounds :
  last_opt (kernels_from s rounds) =
  match rounds with [] => None | _ => Some (MkRepetitionIndexKernel (last rounds 0) h (s + total_len rounds - klen h (last rounds 0)) data anc) end.
Proof.
  revert s; induction rounds as [|r t IH]; intros s; [reflexivity|].
  cbn [kernels_from last_opt]. destruct t as [|r2 t2].
  - cbn [kernels_from total_len last]. f_equal. f_equal. lia.
  - specialize (IH (s + klen h r)). cbn [kernels_from] in IH. cbn [kernels_from]. rewrite IH.
    f_equal. cbn [total_len last]. f_equal. cbn [total_len]. lia.
Qed.

(* layout: back to back from s, ending at s + total_len - 1 *)
Lemma kernels_from_contiguous s rounds tail :
  contiguous_from (s + total_len rounds) tail ->
  contiguous_from s (map RepetitionIndexKernel_as_IIndexingKernel (kernels_from s rounds) ++ tail).
Proof.
  revert s; induction rounds as [|r t IH]; intros s Ht; cbn [kernels_from map app total_len] in *.
  - replace s with (s + 0) by lia. exact Ht.
  - cbn [contiguous_from]. cbv [RepetitionIndexKernel_as_IIndexingKernel IIndexingKernel_kernel_length].
    cbn [IIndexingKernel_start_index IIndexingKernel_stop_index RepetitionIndexKernel_start_index].
    rewrite rep_stop. pose proof (klen_pos h r). repeat split; try lia.
    replace (s + klen h r - 1 + 1) with (s + klen h r) by lia. apply IH.
    replace (s + klen h r + total_len t) with (s + (klen h r + total_len t)) by lia. exact Ht.
Qed.

(* all categories of q over the chain: strictly increasing inside [s, s + total_len - 1] *)
Lemma kernels_from_incr s rounds q :
  incr_in s (s + total_len rounds - 1) (concat (map (fun k => kernel_indices k q) (kernels_from s rounds))).
Proof.
  revert s; induction rounds as [|r t IH]; intros s; cbn [kernels_from map concat total_len].
  - cbn [incr_in]. lia.
  - apply (incr_in_app s (s + klen h r - 1)).
    + pose proof (rep_kernel_incr r h s data anc q) as H. cbv zeta in H. rewrite rep_stop in H. exact H.
    + replace (s + klen h r - 1 + 1) with (s + klen h r) by lia.
      replace (s + (klen h r + total_len t) - 1) with (s + klen h r + total_len t - 1) by lia. apply IH.
Qed.

(* ancilla, every block with at least one round: the chain covers [s, s + total_len) exactly, in order *)
Lemma kernels_from_cover s rounds q :
  is_member q anc = true -> Forall (fun r => 1 <= r) rounds ->
  concat (map (fun k => kernel_indices k q) (kernels_from s rounds)) = zrange s (s + total_len rounds).
Proof.
  intros Ha. revert s; induction rounds as [|r t IH]; intros s Hr; cbn [kernels_from map concat total_len].
  - rewrite zrange_nil by lia. reflexivity.
  - inversion Hr as [|? ? Hr1 Hr2]; subst.
    pose proof (rep_kernel_ancilla_cover r h s data anc q Ha Hr1) as H. cbv zeta in H. rewrite rep_stop in H.
    cbn [RepetitionIndexKernel_start_index] in H. rewrite H, (IH _ Hr2).
    pose proof (klen_pos h r). pose proof (total_len_nonneg t).
    replace (s + klen h r - 1 + 1) with (s + klen h r) by lia.
    rewrite zrange_app by lia. f_equal. lia.
Qed.
End Chain.

(* start / stop of the kernels do not depend on the identifier lists (estimate_experiment_repetitions passes empty lists) *)
Lemma kernels_from_views h d a d' a' s rounds :
  map RepetitionIndexKernel_as_IIndexingKernel (kernels_from h d a s rounds)
  = map RepetitionIndexKernel_as_IIndexingKernel (kernels_from h d' a' s rounds).
Proof.
  revert s; induction rounds as [|r t IH]; intros s; cbn [kernels_from map]; [reflexivity|].
  rewrite IH. cbv [RepetitionIndexKernel_as_IIndexingKernel]. rewrite !rep_stop. reflexivity.
Qed.

Lemma estimate_kernels_closed h rounds : forall prev, estimate_kernels prev h rounds = kernels_from h [] [] (start_after prev) rounds.
Proof.
  induction rounds as [|r t IH]; intros prev; cbn [estimate_kernels kernels_from]; [reflexivity|].
  assert (E : match prev with
              | None => RepetitionExperimentKernel_estimate_first_start
              | Some p => RepetitionExperimentKernel_estimate_next_start p
              end = start_after prev).
  { destruct prev as [p|]; reflexivity. }
  rewrite E. cbv [RepetitionExperimentKernel_estimate_kernel]. f_equal.
  rewrite IH. cbn [start_after]. rewrite rep_stop. f_equal; lia.
Qed.

(* ------------------------------------------------------------------ the experiment kernel in closed form *)
(* the proofs below are about the code AFTER the fix of finding F15: indexing_kernels reads qutrit_calibration_points *)
Lemma honours_flag : experiment_kernel_honours_calibration_flag = true.
Proof. reflexivity. Qed.

Definition exp_closed (rounds : list Z) (h c : bool) (data anc : list Z) (reps : Z) : RepetitionExperimentKernel :=
  MkRepetitionExperimentKernel (kernels_from h data anc 0 rounds)
    (MkQutritCalibrationIndexKernel h (total_len h rounds) (data ++ anc)) reps c.

(* cycle length: the repetition kernels, plus the calibration kernel when the experiment has calibration points *)
Definition cycle_len (rounds : list Z) (h c : bool) : Z := total_len h rounds + (if c then 3 * dh h + 3 else 0).

Lemma experiment_kernel_closed rounds h c data anc reps :
  rounds <> [] -> experiment_kernel rounds h c data anc reps = Value (exp_closed rounds h c data anc reps).
Proof.
  intros Hne. unfold experiment_kernel, exp_closed. rewrite init_kernels_closed. cbn [start_after].
  rewrite last_opt_kernels_from. destruct rounds as [|r t]; [congruence|].
  f_equal. f_equal.
  cbv [RepetitionExperimentKernel_init_calibration RelativeIndexStrategy_get_index RelativeIndexStrategy_reference_index_kernel
       RepetitionIndexKernel_as_IIndexingKernel IIndexingKernel_stop_index].
  rewrite rep_stop. f_equal. lia.
Qed.

Lemma experiment_kernel_empty h c data anc reps : experiment_kernel [] h c data anc reps = Raised IndexError.
Proof. reflexivity. Qed.

Lemma experiment_kernel_inv rounds h c data anc reps e :
  experiment_kernel rounds h c data anc reps = Value e -> rounds <> [] /\ e = exp_closed rounds h c data anc reps.
Proof.
  intros H. destruct rounds as [|r t]; [discriminate|]. split; [congruence|].
  rewrite experiment_kernel_closed in H by congruence. congruence.
Qed.

(* the kernels of the cycle: the calibration kernel only when the flag is set *)
Lemma exp_indexing rounds h c data anc reps :
  RepetitionExperimentKernel_indexing_kernels (exp_closed rounds h c data anc reps)
  = map RepetitionIndexKernel_as_IIndexingKernel (kernels_from h data anc 0 rounds)
    ++ (if c then [QutritCalibrationIndexKernel_as_IIndexingKernel (MkQutritCalibrationIndexKernel h (total_len h rounds) (data ++ anc))]
        else []).
Proof.
  cbv [RepetitionExperimentKernel_indexing_kernels exp_closed RepetitionExperimentKernel__repetition_kernels
       RepetitionExperimentKernel__calibration_kernel RepetitionExperimentKernel__qutrit_calibration_points].
  destruct c; reflexivity.
Qed.

Lemma last_kernels_from_stop h d a s r t :
  IIndexingKernel_stop_index (last (map RepetitionIndexKernel_as_IIndexingKernel (kernels_from h d a s (r :: t))) IIndexingKernel_default)
  = s + total_len h (r :: t) - 1.
Proof.
  revert s r; induction t as [|r2 t2 IH]; intros s r.
  - cbn [kernels_from map last total_len]. cbv [RepetitionIndexKernel_as_IIndexingKernel IIndexingKernel_stop_index]. rewrite rep_stop. lia.
  - cbn [kernels_from map]. cbn [kernels_from map] in IH.
    change (last (?x :: ?y :: ?l) ?d) with (last (y :: l) d). rewrite IH. cbn [total_len]. lia.
Qed.

Lemma exp_start rounds h c data anc reps : RepetitionExperimentKernel_start_index (exp_closed rounds h c data anc reps) = 0.
Proof.
  cbv [RepetitionExperimentKernel_start_index]. rewrite exp_indexing. destruct rounds as [|r t], c; reflexivity.
Qed.

Lemma exp_cycle_length rounds h c data anc reps :
  rounds <> [] -> RepetitionExperimentKernel_kernel_cycle_length (exp_closed rounds h c data anc reps) = cycle_len rounds h c.
Proof.
  intros Hne. cbv [RepetitionExperimentKernel_kernel_cycle_length]. rewrite exp_indexing.
  destruct rounds as [|r t]; [congruence|]. unfold cycle_len. destruct c.
  - rewrite last_last. cbn [kernels_from map app hd].
    cbv [QutritCalibrationIndexKernel_as_IIndexingKernel RepetitionIndexKernel_as_IIndexingKernel IIndexingKernel_stop_index IIndexingKernel_start_index].
    rewrite cal_stop. cbn [RepetitionIndexKernel_start_index]. lia.
  - rewrite app_nil_r, last_kernels_from_stop. cbn [kernels_from map hd].
    cbv [RepetitionIndexKernel_as_IIndexingKernel IIndexingKernel_start_index]. cbn [RepetitionIndexKernel_start_index]. lia.
Qed.

Lemma cycle_len_nonneg rounds h c : 0 <= cycle_len rounds h c.
Proof. unfold cycle_len, dh. pose proof (total_len_nonneg h rounds). destruct c, h; lia. Qed.

Lemma cycle_len_pos rounds h c : rounds <> [] -> 1 <= cycle_len rounds h c.
Proof. intros H. unfold cycle_len, dh. pose proof (total_len_pos h rounds H). destruct c, h; lia. Qed.

Lemma exp_indexing_contiguous rounds h c data anc reps :
  contiguous_from 0 (RepetitionExperimentKernel_indexing_kernels (exp_closed rounds h c data anc reps)).
Proof.
  rewrite exp_indexing. apply kernels_from_contiguous. destruct c; cbn [contiguous_from Z.add]; [|exact I].
  cbv [QutritCalibrationIndexKernel_as_IIndexingKernel IIndexingKernel_kernel_length].
  cbn [IIndexingKernel_start_index IIndexingKernel_stop_index QutritCalibrationIndexKernel_start_index].
  rewrite cal_stop. unfold dh. destruct h; repeat split; lia.
Qed.

(* sum of the kernel lengths *)
Fixpoint sum_lengths (ks : list IIndexingKernel) : Z :=
  match ks with [] => 0 | k :: t => IIndexingKernel_kernel_length k + sum_lengths t end.

Lemma sum_lengths_app l1 l2 : sum_lengths (l1 ++ l2) = sum_lengths l1 + sum_lengths l2.
Proof. induction l1 as [|k t IH]; cbn [app sum_lengths]; lia. Qed.

Lemma sum_lengths_kernels_from h d a s rounds :
  sum_lengths (map RepetitionIndexKernel_as_IIndexingKernel (kernels_from h d a s rounds)) = total_len h rounds.
Proof.
  revert s; induction rounds as [|r t IH]; intros s; cbn [kernels_from map sum_lengths total_len]; [reflexivity|].
  rewrite IH.
  cbv [RepetitionIndexKernel_as_IIndexingKernel IIndexingKernel_kernel_length IIndexingKernel_start_index IIndexingKernel_stop_index].
  rewrite rep_stop. cbn [RepetitionIndexKernel_start_index]. lia.
Qed.

Lemma exp_cycle_is_sum rounds h c data anc reps :
  sum_lengths (RepetitionExperimentKernel_indexing_kernels (exp_closed rounds h c data anc reps)) = cycle_len rounds h c.
Proof.
  rewrite exp_indexing, sum_lengths_app, sum_lengths_kernels_from. unfold cycle_len. destruct c; cbn [sum_lengths]; [|lia].
  cbv [QutritCalibrationIndexKernel_as_IIndexingKernel IIndexingKernel_kernel_length IIndexingKernel_start_index IIndexingKernel_stop_index].
  rewrite cal_stop. cbn [QutritCalibrationIndexKernel_start_index]. lia.
Qed.

(* ------------------------------------------------------------------ C12: kernels contiguous *)
Lemma kernels_contiguous rounds h c data anc reps :
  rounds <> [] ->
  exists e, experiment_kernel rounds h c data anc reps = Value e
    /\ map RepetitionIndexKernel_nr_repeated_parities (RepetitionExperimentKernel__repetition_kernels e) = rounds
    /\ RepetitionExperimentKernel_indexing_kernels e
        = map RepetitionIndexKernel_as_IIndexingKernel (RepetitionExperimentKernel__repetition_kernels e)
          ++ (if c then [QutritCalibrationIndexKernel_as_IIndexingKernel (RepetitionExperimentKernel__calibration_kernel e)] else [])
    /\ contiguous_from 0 (RepetitionExperimentKernel_indexing_kernels e)
    /\ RepetitionExperimentKernel_start_index e = 0
    /\ RepetitionExperimentKernel_kernel_cycle_length e = sum_lengths (RepetitionExperimentKernel_indexing_kernels e)
    /\ QutritCalibrationIndexKernel_start_index (RepetitionExperimentKernel__calibration_kernel e)
        = RepetitionIndexKernel_stop_index (last (RepetitionExperimentKernel__repetition_kernels e)
                                                (MkRepetitionIndexKernel 0 false 0 [] [])) + 1
    /\ RepetitionExperimentKernel_experiment_repetitions e = reps.
Proof.
  intros Hne. exists (exp_closed rounds h c data anc reps). split; [apply experiment_kernel_closed; exact Hne|].
  split; [apply kernels_from_rounds|]. split; [apply exp_indexing|]. split; [apply exp_indexing_contiguous|]. split; [apply exp_start|].
  split; [rewrite exp_cycle_length, exp_cycle_is_sum by exact Hne; reflexivity|]. split; [|reflexivity].
  cbn [exp_closed RepetitionExperimentKernel__calibration_kernel RepetitionExperimentKernel__repetition_kernels
       QutritCalibrationIndexKernel_start_index].
  pose proof (last_opt_kernels_from h data anc 0 rounds) as HL.
  destruct rounds as [|r t]; [congruence|].
  assert (G : forall (l : list RepetitionIndexKernel) x d, last_opt l = Some x -> last l d = x).
  { induction l as [|y l' IH]; intros x d; [discriminate|]. destruct l' as [|z l'']; cbn [last_opt last].
    - congruence.
    - intros H. apply IH. exact H. }
  rewrite (G _ _ _ HL). rewrite rep_stop. lia.
Qed.

(* ------------------------------------------------------------------ C12: every category inside its kernel *)
Lemma In_kernel_indices k q x :
  In x (kernel_indices k q) <->
  In x (RepetitionIndexKernel_get_heralded_measurement_index k q)
  \/ In x (RepetitionIndexKernel_get_ordered_stabilizer_measurement_indices k q)
  \/ In x (RepetitionIndexKernel_get_final_measurement_index k q).
Proof. unfold kernel_indices. rewrite !in_app_iff. tauto. Qed.

Lemma contains_is_kernel_indices r h s d a q :
  let k := MkRepetitionIndexKernel r h s d a in RepetitionIndexKernel_contains k q = kernel_indices k q.
Proof.
  cbv zeta. cbv [RepetitionIndexKernel_contains]. rewrite <- app_assoc.
  exact (zsort_incr _ _ _ (rep_kernel_incr r h s d a q)).
Qed.

Lemma In_calibration_indices k q x :
  In x (calibration_indices k q) <->
  In x (QutritCalibrationIndexKernel_get_heralded_state_0_measurement_index k q)
  \/ In x (QutritCalibrationIndexKernel_get_heralded_state_1_measurement_index k q)
  \/ In x (QutritCalibrationIndexKernel_get_heralded_state_2_measurement_index k q)
  \/ In x (QutritCalibrationIndexKernel_get_state_0_measurement_index k q)
  \/ In x (QutritCalibrationIndexKernel_get_state_1_measurement_index k q)
  \/ In x (QutritCalibrationIndexKernel_get_state_2_measurement_index k q).
Proof. unfold calibration_indices. rewrite !in_app_iff. tauto. Qed.

Lemma cal_contains_In h s ids q x :
  let k := MkQutritCalibrationIndexKernel h s ids in
  In x (QutritCalibrationIndexKernel_contains k q) <-> In x (calibration_indices k q).
Proof.
  cbv zeta. cbv [QutritCalibrationIndexKernel_contains]. rewrite zsort_In, In_calibration_indices, !in_app_iff. tauto.
Qed.

Lemma categories_inside rounds h c data anc reps e q :
  experiment_kernel rounds h c data anc reps = Value e ->
  (forall k x, In k (RepetitionExperimentKernel__repetition_kernels e) ->
     In x (RepetitionIndexKernel_get_heralded_measurement_index k q)
     \/ In x (RepetitionIndexKernel_get_ordered_stabilizer_measurement_indices k q)
     \/ In x (RepetitionIndexKernel_get_final_measurement_index k q)
     \/ In x (RepetitionIndexKernel_contains k q) ->
     RepetitionIndexKernel_start_index k <= x <= RepetitionIndexKernel_stop_index k)
  /\ (forall x, let k := RepetitionExperimentKernel__calibration_kernel e in
     In x (calibration_indices k q) \/ In x (QutritCalibrationIndexKernel_contains k q) ->
     QutritCalibrationIndexKernel_start_index k <= x <= QutritCalibrationIndexKernel_stop_index k)
  /\ (forall x, In x (cycle_indices e q) ->
     RepetitionExperimentKernel_start_index e <= x
     < RepetitionExperimentKernel_start_index e + RepetitionExperimentKernel_kernel_cycle_length e).
Proof.
  intros He. apply experiment_kernel_inv in He. destruct He as [Hne ->].
  split; [|split].
  - intros k x Hk Hx. cbn [exp_closed RepetitionExperimentKernel__repetition_kernels] in Hk.
    apply kernels_from_In in Hk. destruct Hk as (r & s' & -> & _ & _ & _).
    rewrite contains_is_kernel_indices in Hx.
    assert (HIn : In x (kernel_indices (MkRepetitionIndexKernel r h s' data anc) q)).
    { rewrite In_kernel_indices. rewrite In_kernel_indices in Hx. tauto. }
    exact (incr_in_sub _ _ _ _ (rep_kernel_incr r h s' data anc q) HIn).
  - intros x k Hx. subst k. cbn [exp_closed RepetitionExperimentKernel__calibration_kernel] in *.
    rewrite cal_contains_In in Hx.
    assert (HIn : In x (calibration_indices (MkQutritCalibrationIndexKernel h (total_len h rounds) (data ++ anc)) q)) by tauto.
    exact (incr_in_sub _ _ _ _ (cal_kernel_incr h _ (data ++ anc) q) HIn).
  - intros x Hx. rewrite exp_start, exp_cycle_length by exact Hne.
    unfold cycle_indices in Hx.
    cbn [exp_closed RepetitionExperimentKernel__repetition_kernels RepetitionExperimentKernel__calibration_kernel
         RepetitionExperimentKernel__qutrit_calibration_points] in Hx.
    apply in_app_or in Hx. destruct Hx as [Hx|Hx].
    + pose proof (incr_in_sub _ _ _ _ (kernels_from_incr h data anc 0 rounds q) Hx). unfold cycle_len, dh. destruct c, h; lia.
    + destruct c; [|destruct Hx].
      pose proof (incr_in_sub _ _ _ _ (cal_kernel_incr h (total_len h rounds) (data ++ anc) q) Hx) as H.
      rewrite cal_stop in H. cbn [QutritCalibrationIndexKernel_start_index] in H.
      pose proof (total_len_nonneg h rounds). unfold cycle_len. lia.
Qed.

(* ------------------------------------------------------------------ C12: categories of one qubit pairwise disjoint *)
Lemma exp_cycle_incr rounds h c data anc reps q :
  incr_in 0 (cycle_len rounds h c - 1) (cycle_indices (exp_closed rounds h c data anc reps) q).
Proof.
  unfold cycle_indices.
  cbn [exp_closed RepetitionExperimentKernel__repetition_kernels RepetitionExperimentKernel__calibration_kernel
       RepetitionExperimentKernel__qutrit_calibration_points].
  pose proof (kernels_from_incr h data anc 0 rounds q) as Hk. unfold cycle_len. destruct c.
  - apply (incr_in_app 0 (0 + total_len h rounds - 1)); [exact Hk|].
    pose proof (cal_kernel_incr h (total_len h rounds) (data ++ anc) q) as H. cbv zeta in H. rewrite cal_stop in H.
    cbn [QutritCalibrationIndexKernel_start_index] in H.
    replace (0 + total_len h rounds - 1 + 1) with (total_len h rounds) by lia.
    replace (total_len h rounds + (3 * dh h + 3) - 1) with (total_len h rounds + 3 * dh h + 2) by lia. exact H.
  - rewrite app_nil_r. replace (total_len h rounds + 0 - 1) with (0 + total_len h rounds - 1) by lia. exact Hk.
Qed.

(* translates of a block that fits in [0, L-1] by multiples of L stay strictly increasing *)
Lemma sliced_incr L base a n :
  incr_in 0 (L - 1) base -> 0 <= L ->
  incr_in (a * L) ((a + Z.of_nat n) * L - 1)
    (concat (map (fun i => map (fun x => x + i * L) base) (zrange_n a n))).
Proof.
  intros Hb HL. revert a; induction n as [|n IH]; intros a; cbn [zrange_n map concat].
  - cbn [incr_in]. lia.
  - apply (incr_in_app (a * L) ((a + 1) * L - 1)).
    + pose proof (incr_in_shift 0 (L - 1) (a * L) base Hb) as H.
      replace (0 + a * L) with (a * L) in H by lia. replace (L - 1 + a * L) with ((a + 1) * L - 1) in H by lia. exact H.
    + replace ((a + 1) * L - 1 + 1) with ((a + 1) * L) by lia.
      replace (a + Z.of_nat (S n)) with (a + 1 + Z.of_nat n) by lia. apply IH.
Qed.

Lemma exp_all_incr rounds h c data anc reps q :
  rounds <> [] -> 0 <= reps ->
  incr_in 0 (reps * cycle_len rounds h c - 1) (all_indices (exp_closed rounds h c data anc reps) q).
Proof.
  intros Hne Hr. unfold all_indices. rewrite exp_cycle_length by exact Hne.
  cbv [RepetitionExperimentKernel_create_sliced_array RepetitionExperimentKernel_create_sliced_arrays
       RepetitionExperimentKernel_experiment_repetitions exp_closed RepetitionExperimentKernel__repetitions].
  fold (exp_closed rounds h c data anc reps).
  pose proof (cycle_len_nonneg rounds h c) as HL.
  pose proof (sliced_incr (cycle_len rounds h c) (cycle_indices (exp_closed rounds h c data anc reps) q) 0 (Z.to_nat (reps - 0))
                (exp_cycle_incr rounds h c data anc reps q) HL) as H.
  replace (0 * cycle_len rounds h c) with 0 in H by lia.
  replace ((0 + Z.of_nat (Z.to_nat (reps - 0))) * cycle_len rounds h c - 1) with (reps * cycle_len rounds h c - 1) in H by (f_equal; f_equal; lia).
  exact H.
Qed.

Lemma categories_disjoint rounds h c data anc reps e q :
  experiment_kernel rounds h c data anc reps = Value e ->
  NoDup (cycle_indices e q)
  /\ incr_in 0 (RepetitionExperimentKernel_kernel_cycle_length e - 1) (cycle_indices e q)
  /\ (0 <= reps -> NoDup (all_indices e q)
                   /\ incr_in 0 (reps * RepetitionExperimentKernel_kernel_cycle_length e - 1) (all_indices e q)).
Proof.
  intros He. apply experiment_kernel_inv in He. destruct He as [Hne ->]. rewrite exp_cycle_length by exact Hne.
  pose proof (exp_cycle_incr rounds h c data anc reps q) as H1.
  split; [exact (incr_in_NoDup _ _ _ H1)|]. split; [exact H1|].
  intros Hr. pose proof (exp_all_incr rounds h c data anc reps q Hne Hr) as H2.
  split; [exact (incr_in_NoDup _ _ _ H2) | exact H2].
Qed.

(* two categories that are both segments of a duplicate-free concatenation are disjoint (how to read NoDup (cycle_indices ..)) *)
Lemma NoDup_app_disjoint {A} (l1 l2 : list A) x : NoDup (l1 ++ l2) -> In x l1 -> In x l2 -> False.
Proof.
  induction l1 as [|y t IH]; cbn [app In]; [tauto|]. intros Hnd [->|H1] H2; inversion Hnd as [|? ? Hn Hd]; subst.
  - apply Hn. apply in_or_app. right. exact H2.
  - exact (IH Hd H1 H2).
Qed.

(* ------------------------------------------------------------------ C12: an ancilla's categories cover the cycle *)
Lemma sliced_zrange L a n :
  0 <= L ->
  concat (map (fun i => map (fun x => x + i * L) (zrange 0 L)) (zrange_n a n)) = zrange (a * L) ((a + Z.of_nat n) * L).
Proof.
  intros HL. revert a; induction n as [|n IH]; intros a; cbn [zrange_n map concat].
  - rewrite zrange_nil by lia. reflexivity.
  - rewrite IH, zrange_map_add_r. replace (0 + a * L) with (a * L) by lia. replace (L + a * L) with ((a + 1) * L) by lia.
    rewrite zrange_app by nia. f_equal. lia.
Qed.

Lemma ancilla_cover rounds h c data anc reps e q :
  experiment_kernel rounds h c data anc reps = Value e -> is_member q anc = true ->
  (forall k, In k (RepetitionExperimentKernel__repetition_kernels e) -> 1 <= RepetitionIndexKernel_nr_repeated_parities k ->
     kernel_indices k q = zrange (RepetitionIndexKernel_start_index k) (RepetitionIndexKernel_stop_index k + 1))
  /\ (let k := RepetitionExperimentKernel__calibration_kernel e in
      calibration_indices k q = zrange (QutritCalibrationIndexKernel_start_index k) (QutritCalibrationIndexKernel_stop_index k + 1))
  /\ (Forall (fun r => 1 <= r) rounds ->
      cycle_indices e q = zrange 0 (RepetitionExperimentKernel_kernel_cycle_length e)
      /\ (0 <= reps -> all_indices e q = zrange 0 (reps * RepetitionExperimentKernel_kernel_cycle_length e))).
Proof.
  intros He Ha. apply experiment_kernel_inv in He. destruct He as [Hne ->].
  assert (Hm : is_member q (data ++ anc) = true) by (apply existsb_app_r; exact Ha).
  assert (Hcal : calibration_indices (MkQutritCalibrationIndexKernel h (total_len h rounds) (data ++ anc)) q
                 = zrange (total_len h rounds) (total_len h rounds + 3 * dh h + 3)).
  { rewrite cal_indices, Hm, cal_stop. f_equal. lia. }
  split; [|split].
  - intros k Hk Hr. cbn [exp_closed RepetitionExperimentKernel__repetition_kernels] in Hk.
    apply kernels_from_In in Hk. destruct Hk as (r & s' & -> & _ & _ & _).
    cbn [RepetitionIndexKernel_nr_repeated_parities] in Hr. exact (rep_kernel_ancilla_cover r h s' data anc q Ha Hr).
  - cbv zeta. cbn [exp_closed RepetitionExperimentKernel__calibration_kernel QutritCalibrationIndexKernel_start_index].
    rewrite Hcal, cal_stop. f_equal. lia.
  - intros Hall. rewrite exp_cycle_length by exact Hne.
    assert (Hc : cycle_indices (exp_closed rounds h c data anc reps) q = zrange 0 (cycle_len rounds h c)).
    { unfold cycle_indices.
      cbn [exp_closed RepetitionExperimentKernel__repetition_kernels RepetitionExperimentKernel__calibration_kernel
           RepetitionExperimentKernel__qutrit_calibration_points].
      rewrite (kernels_from_cover h data anc 0 rounds q Ha Hall).
      pose proof (total_len_nonneg h rounds). unfold cycle_len. destruct c.
      - rewrite Hcal. rewrite zrange_app by (unfold dh; destruct h; lia). f_equal. lia.
      - rewrite app_nil_r. f_equal. lia. }
    split; [exact Hc|]. intros Hr. unfold all_indices. rewrite Hc, exp_cycle_length by exact Hne.
    cbv [RepetitionExperimentKernel_create_sliced_array RepetitionExperimentKernel_create_sliced_arrays
         RepetitionExperimentKernel_experiment_repetitions exp_closed RepetitionExperimentKernel__repetitions].
    pose proof (cycle_len_nonneg rounds h c). unfold zrange at 2. rewrite sliced_zrange by lia. f_equal; lia.
Qed.

(* ------------------------------------------------------------------ C12: the documented gap of a 0-round block *)
Lemma ancilla_zero_round_gap rounds h c data anc reps e q k :
  experiment_kernel rounds h c data anc reps = Value e -> is_member q anc = true ->
  In k (RepetitionExperimentKernel__repetition_kernels e) -> RepetitionIndexKernel_nr_repeated_parities k = 0 ->
  kernel_indices k q = zrange (RepetitionIndexKernel_start_index k) (RepetitionIndexKernel_stop_index k)
  /\ RepetitionIndexKernel_get_final_measurement_index k q = []
  /\ RepetitionIndexKernel_get_ordered_stabilizer_measurement_indices k q = []
  /\ ~ In (RepetitionIndexKernel_stop_index k) (kernel_indices k q)
  /\ RepetitionIndexKernel_start_index k <= RepetitionIndexKernel_stop_index k.
Proof.
  intros He Ha Hk Hr. apply experiment_kernel_inv in He. destruct He as [Hne ->].
  cbn [exp_closed RepetitionExperimentKernel__repetition_kernels] in Hk.
  apply kernels_from_In in Hk. destruct Hk as (r & s' & -> & _ & _ & _).
  cbn [RepetitionIndexKernel_nr_repeated_parities] in Hr. subst r.
  destruct (rep_kernel_ancilla_zero_gap h s' data anc q Ha) as (H1 & H2 & H3 & H4).
  repeat split; try assumption. rewrite rep_stop. cbn [RepetitionIndexKernel_start_index]. pose proof (klen_pos h 0). lia.
Qed.

(* ------------------------------------------------------------------ C12: repetitions are exact translates *)
Lemma find_unique {A} (key : A -> Z) (l : list A) (k : A) :
  NoDup (map key l) -> In k l -> find (fun k' => Z.eqb (key k') (key k)) l = Some k.
Proof.
  induction l as [|y t IH]; cbn [map In find]; [tauto|]. intros Hnd [->|HIn].
  - rewrite Z.eqb_refl. reflexivity.
  - inversion Hnd as [|? ? Hn Hd]; subst. destruct (Z.eqb_spec (key y) (key k)) as [E|E].
    + exfalso. apply Hn. rewrite E. apply in_map. exact HIn.
    + exact (IH Hd HIn).
Qed.

Lemma find_none {A} (key : A -> Z) (l : list A) (n : Z) :
  ~ In n (map key l) -> find (fun k' => Z.eqb (key k') n) l = None.
Proof.
  induction l as [|y t IH]; cbn [map In find]; [reflexivity|]. intros H.
  destruct (Z.eqb_spec (key y) n); [tauto|]. apply IH. tauto.
Qed.

Lemma repetition_translate rounds h c data anc reps e q :
  experiment_kernel rounds h c data anc reps = Value e ->
  let L := RepetitionExperimentKernel_kernel_cycle_length e in
  (NoDup rounds -> forall k, In k (RepetitionExperimentKernel__repetition_kernels e) ->
     let n := RepetitionIndexKernel_nr_repeated_parities k in
     RepetitionExperimentKernel_get_heralded_cycle_acquisition_indices e q n
       = translates (RepetitionIndexKernel_get_heralded_measurement_index k q) L reps
     /\ RepetitionExperimentKernel_get_stabilizer_and_projected_cycle_acquisition_indices e q n
       = translates (RepetitionIndexKernel_get_ordered_stabilizer_measurement_indices k q
                     ++ RepetitionIndexKernel_get_final_measurement_index k q) L reps
     /\ RepetitionExperimentKernel_get_projected_cycle_acquisition_indices e q n
       = translates (RepetitionIndexKernel_get_final_measurement_index k q) L reps)
  /\ (forall n, ~ In n rounds ->
     RepetitionExperimentKernel_get_heralded_cycle_acquisition_indices e q n = []
     /\ RepetitionExperimentKernel_get_stabilizer_and_projected_cycle_acquisition_indices e q n = []
     /\ RepetitionExperimentKernel_get_projected_cycle_acquisition_indices e q n = [])
  /\ (let ck := RepetitionExperimentKernel__calibration_kernel e in
     let sliced := fun base => if c then concat (translates base L reps) else [] in   (* no calibration points: nothing *)
     RepetitionExperimentKernel_get_heralded_calibration_acquisition_indices e q StateKey_STATE_0
       = sliced (QutritCalibrationIndexKernel_get_heralded_state_0_measurement_index ck q)
     /\ RepetitionExperimentKernel_get_heralded_calibration_acquisition_indices e q StateKey_STATE_1
       = sliced (QutritCalibrationIndexKernel_get_heralded_state_1_measurement_index ck q)
     /\ RepetitionExperimentKernel_get_heralded_calibration_acquisition_indices e q StateKey_STATE_2
       = sliced (QutritCalibrationIndexKernel_get_heralded_state_2_measurement_index ck q)
     /\ RepetitionExperimentKernel_get_projected_calibration_acquisition_indices e q StateKey_STATE_0
       = sliced (QutritCalibrationIndexKernel_get_state_0_measurement_index ck q)
     /\ RepetitionExperimentKernel_get_projected_calibration_acquisition_indices e q StateKey_STATE_1
       = sliced (QutritCalibrationIndexKernel_get_state_1_measurement_index ck q)
     /\ RepetitionExperimentKernel_get_projected_calibration_acquisition_indices e q StateKey_STATE_2
       = sliced (QutritCalibrationIndexKernel_get_state_2_measurement_index ck q))
  /\ all_indices e q = concat (translates (cycle_indices e q) L reps).
Proof.
  intros He. apply experiment_kernel_inv in He. destruct He as [Hne ->]. cbv zeta.
  split; [|split; [|split]].
  - intros Hnd k Hk.
    cbv [RepetitionExperimentKernel_get_heralded_cycle_acquisition_indices
         RepetitionExperimentKernel_get_stabilizer_and_projected_cycle_acquisition_indices
         RepetitionExperimentKernel_get_projected_cycle_acquisition_indices].
    rewrite (find_unique RepetitionIndexKernel_nr_repeated_parities _ k);
      [| cbn [exp_closed RepetitionExperimentKernel__repetition_kernels]; rewrite kernels_from_rounds; exact Hnd | exact Hk].
    repeat split; reflexivity.
  - intros n Hn.
    cbv [RepetitionExperimentKernel_get_heralded_cycle_acquisition_indices
         RepetitionExperimentKernel_get_stabilizer_and_projected_cycle_acquisition_indices
         RepetitionExperimentKernel_get_projected_cycle_acquisition_indices].
    rewrite (find_none RepetitionIndexKernel_nr_repeated_parities _ n);
      [| cbn [exp_closed RepetitionExperimentKernel__repetition_kernels]; rewrite kernels_from_rounds; exact Hn].
    repeat split; reflexivity.
  - destruct c; repeat split; reflexivity.
  - reflexivity.
Qed.

Lemma translates_length base L reps : length (translates base L reps) = Z.to_nat reps.
Proof. unfold translates. rewrite map_length, zrange_length. f_equal. lia. Qed.

Lemma translates_nth base L reps i :
  0 <= i < reps -> nth (Z.to_nat i) (translates base L reps) [] = map (fun x => x + i * L) base.
Proof.
  intros Hi. unfold translates.
  assert (G : forall n a j, (j < n)%nat ->
            nth j (map (fun i => map (fun x => x + i * L) base) (zrange_n a n)) [] = map (fun x => x + (a + Z.of_nat j) * L) base).
  { induction n as [|n IH]; intros a j Hj; [lia|]. cbn [zrange_n map]. destruct j as [|j]; cbn [nth].
    - replace (a + Z.of_nat 0) with a by lia. reflexivity.
    - rewrite IH by lia. apply map_ext. intros x. f_equal. f_equal. lia. }
  unfold zrange. rewrite G by lia. apply map_ext. intros x. f_equal. f_equal. lia.
Qed.

(* ------------------------------------------------------------------ C12: the repetition estimate inverts size = reps x cycle length *)
Lemma estimate_indexing_closed rounds h c :
  rounds <> [] ->
  estimate_indexing_kernels rounds h c =
  Value (map RepetitionIndexKernel_as_IIndexingKernel (kernels_from h [] [] 0 rounds)
         ++ (if c then [QutritCalibrationIndexKernel_as_IIndexingKernel (MkQutritCalibrationIndexKernel h (total_len h rounds) [])] else [])).
Proof.
  intros Hne. unfold estimate_indexing_kernels. rewrite estimate_kernels_closed. cbn [start_after].
  rewrite last_opt_kernels_from. destruct rounds as [|r t]; [congruence|]. destruct c.
  - f_equal. f_equal. f_equal. f_equal.
    cbv [RepetitionExperimentKernel_estimate_calibration RelativeIndexStrategy_get_index RelativeIndexStrategy_reference_index_kernel
         RepetitionIndexKernel_as_IIndexingKernel IIndexingKernel_stop_index].
    rewrite rep_stop. f_equal. lia.
  - rewrite app_nil_r. reflexivity.
Qed.

Lemma estimate_cycle_length_closed rounds h c :
  rounds <> [] -> estimate_cycle_length rounds h c = Value (cycle_len rounds h c).
Proof.
  intros Hne. unfold estimate_cycle_length. rewrite estimate_indexing_closed by exact Hne.
  destruct rounds as [|r t]; [congruence|]. f_equal. unfold cycle_len. destruct c.
  - rewrite last_last. cbn [kernels_from map app hd].
    cbv [QutritCalibrationIndexKernel_as_IIndexingKernel RepetitionIndexKernel_as_IIndexingKernel IIndexingKernel_stop_index IIndexingKernel_start_index].
    rewrite cal_stop. cbn [RepetitionIndexKernel_start_index]. lia.
  - rewrite app_nil_r. rewrite last_kernels_from_stop. cbn [kernels_from map hd].
    cbv [RepetitionIndexKernel_as_IIndexingKernel IIndexingKernel_start_index]. cbn [RepetitionIndexKernel_start_index]. lia.
Qed.

Ltac Zify.zify_post_hook ::= Z.to_euclidean_division_equations.

Lemma estimate_spec rounds h c size n :
  rounds <> [] ->
  (estimate_experiment_repetitions rounds h c size = Value n <-> size = n * cycle_len rounds h c).
Proof.
  intros Hne. pose proof (estimate_cycle_length_closed rounds h c Hne) as HL. pose proof (cycle_len_pos rounds h c Hne) as Hp.
  unfold estimate_experiment_repetitions. unfold estimate_cycle_length in HL.
  destruct (estimate_indexing_kernels rounds h c) as [iks|]; [|discriminate].
  injection HL as HL. cbv [RepetitionExperimentKernel_estimate_tail]. rewrite HL.
  set (L := cycle_len rounds h c) in *.
  (* the quotient is Z.div for `a // b` (and Z.quot for a former `int(a / b)`); both are exact on multiples *)
  match goal with |- context [Z.eqb size ?rhs] => destruct (Z.eqb_spec size rhs) as [E|E] end.
  - split; [intros H; injection H as <-; exact E|]. intros ->. f_equal. rewrite ?Z.quot_mul, ?Z.div_mul by lia. reflexivity.
  - split; [discriminate|]. intros ->. exfalso. apply E. rewrite ?Z.quot_mul, ?Z.div_mul by lia. reflexivity.
Qed.

(* the estimate inverts dataset size = repetitions x kernel_cycle_length of the experiment kernel built from the same description,
   for both values of the calibration flag *)
Lemma estimate_inverts rounds h c data anc reps :
  rounds <> [] ->
  exists e, experiment_kernel rounds h c data anc reps = Value e
    /\ 1 <= RepetitionExperimentKernel_kernel_cycle_length e
    /\ estimate_cycle_length rounds h c = Value (RepetitionExperimentKernel_kernel_cycle_length e)
    /\ estimate_experiment_repetitions rounds h c (reps * RepetitionExperimentKernel_kernel_cycle_length e) = Value reps
    /\ (forall size n, estimate_experiment_repetitions rounds h c size = Value n
                       <-> size = n * RepetitionExperimentKernel_kernel_cycle_length e)
    /\ (forall size, (forall n, size <> n * RepetitionExperimentKernel_kernel_cycle_length e) ->
                     estimate_experiment_repetitions rounds h c size = Raised AssertionError).
Proof.
  intros Hne. exists (exp_closed rounds h c data anc reps). split; [apply experiment_kernel_closed; exact Hne|].
  rewrite exp_cycle_length by exact Hne.
  split; [apply cycle_len_pos; exact Hne|]. split; [apply estimate_cycle_length_closed; exact Hne|]. split; [|split].
  - apply estimate_spec; [exact Hne | reflexivity].
  - intros size n. apply estimate_spec. exact Hne.
  - intros size Hs. destruct (estimate_experiment_repetitions rounds h c size) as [n|er] eqn:E.
    + apply estimate_spec in E; [|exact Hne]. exfalso. exact (Hs n E).
    + unfold estimate_experiment_repetitions in E. rewrite estimate_indexing_closed in E by exact Hne.
      destruct (RepetitionExperimentKernel_estimate_tail _ size); [discriminate | symmetry; exact E].
Qed.

(* ------------------------------------------------------------------ quirks recorded as (counter-)examples *)
(* HISTORY (finding F15, fixed): before the fix `indexing_kernels` was `repetition_kernels + [calibration_kernel]` whatever the flag.
   old_kernel_cycle_length is that OLD definition, written out here; with the flag off the estimate did not invert
   repetitions x old cycle length.  Nothing in the current code uses this definition. *)
Definition old_kernel_cycle_length (e : RepetitionExperimentKernel) : Z :=
  let iks := map RepetitionIndexKernel_as_IIndexingKernel (RepetitionExperimentKernel__repetition_kernels e)
             ++ [QutritCalibrationIndexKernel_as_IIndexingKernel (RepetitionExperimentKernel__calibration_kernel e)] in
  IIndexingKernel_stop_index (last iks IIndexingKernel_default) - IIndexingKernel_start_index (hd IIndexingKernel_default iks) + 1.

Lemma old_definition_estimate_vs_kernel_cycle_flag_off_refuted :
  exists rounds h reps data anc e,
    experiment_kernel rounds h false data anc reps = Value e
    /\ estimate_experiment_repetitions rounds h false (reps * old_kernel_cycle_length e) <> Value reps.
Proof.
  exists [1], false, 2, [0], [1]. eexists. split; [reflexivity|]. vm_compute. discriminate.
Qed.

(* why the getters need distinct round counts: with a repeated count only the first matching kernel is ever reported *)
Lemma duplicate_rounds_hide_kernel_refuted :
  exists rounds h data anc reps e k q,
    experiment_kernel rounds h true data anc reps = Value e
    /\ In k (RepetitionExperimentKernel__repetition_kernels e)
    /\ RepetitionExperimentKernel_get_heralded_cycle_acquisition_indices e q (RepetitionIndexKernel_nr_repeated_parities k)
       <> translates (RepetitionIndexKernel_get_heralded_measurement_index k q)
                     (RepetitionExperimentKernel_kernel_cycle_length e) reps.
Proof.
  exists [2; 2], true, [0], [1], 1. eexists. exists (MkRepetitionIndexKernel 2 true 3 [0] [1]), 1.
  split; [reflexivity|]. split; [right; left; reflexivity|]. vm_compute. discriminate.
Qed.

(* the experiment kernel's own stop_index is start + repetitions x cycle length, i.e. one past the last index (the kernels'
   stop indices are inclusive), so its inherited kernel_length over-counts by one *)
Lemma experiment_stop_index_exclusive rounds h c data anc reps e :
  experiment_kernel rounds h c data anc reps = Value e ->
  RepetitionExperimentKernel_stop_index e = reps * RepetitionExperimentKernel_kernel_cycle_length e
  /\ RepetitionExperimentKernel_kernel_length e = reps * RepetitionExperimentKernel_kernel_cycle_length e + 1.
Proof.
  intros He. apply experiment_kernel_inv in He. destruct He as [Hne ->].
  cbv [RepetitionExperimentKernel_kernel_length RepetitionExperimentKernel_stop_index RepetitionExperimentKernel_experiment_repetitions].
  rewrite exp_start, exp_cycle_length by exact Hne. cbn [exp_closed RepetitionExperimentKernel__repetitions]. lia.
Qed.

(* ------------------------------------------------------------------ non-vacuity: the suite's rounds list, heralded, two repetitions *)
Example example_experiment :
  exists e, experiment_kernel [0; 3; 6; 2] true true [0; 1; 2] [10; 11] 2 = Value e
    /\ RepetitionExperimentKernel_kernel_cycle_length e = 22
    /\ map IIndexingKernel_start_index (RepetitionExperimentKernel_indexing_kernels e) = [0; 2; 6; 13; 16]
    /\ map IIndexingKernel_stop_index (RepetitionExperimentKernel_indexing_kernels e) = [1; 5; 12; 15; 21]
    /\ cycle_indices e 10 = 0 :: zrange 2 22                 (* ancilla: index 1 (final slot of the 0-round block) is the gap *)
    /\ cycle_indices e 0 = [0; 1; 2; 5; 6; 12; 13; 15] ++ zrange 16 22     (* data qubit: heralded + final only *)
    /\ cycle_indices e 99 = []
    /\ RepetitionExperimentKernel_get_stabilizer_and_projected_cycle_acquisition_indices e 10 3 = [[3; 4; 5]; [25; 26; 27]]
    /\ RepetitionExperimentKernel_get_heralded_cycle_acquisition_indices e 10 0 = [[0]; [22]]
    /\ RepetitionExperimentKernel_get_projected_cycle_acquisition_indices e 10 0 = [[]; []]
    /\ estimate_experiment_repetitions [0; 3; 6; 2] true true 44 = Value 2
    /\ estimate_experiment_repetitions [0; 3; 6; 2] true true 45 = Raised AssertionError.
Proof. eexists. split; [reflexivity|]. vm_compute. repeat split; reflexivity. Qed.

(* no calibration points: the cycle is the repetition kernels only and the calibration getters are empty *)
Example example_experiment_flag_off :
  exists e, experiment_kernel [1; 2] true false [0] [10] 2 = Value e
    /\ RepetitionExperimentKernel_kernel_cycle_length e = 5
    /\ map IIndexingKernel_stop_index (RepetitionExperimentKernel_indexing_kernels e) = [1; 4]
    /\ all_indices e 10 = zrange 0 10
    /\ RepetitionExperimentKernel_get_heralded_calibration_acquisition_indices e 10 StateKey_STATE_0 = []
    /\ RepetitionExperimentKernel_get_projected_calibration_acquisition_indices e 10 StateKey_STATE_2 = []
    /\ estimate_experiment_repetitions [1; 2] true false 10 = Value 2.
Proof. eexists. split; [reflexivity|]. vm_compute. repeat split; reflexivity. Qed.

Example example_hypotheses : [0; 3; 6; 2] <> [] /\ NoDup [0; 3; 6; 2] /\ Forall (fun r => 0 <= r) [0; 3; 6; 2]
  /\ is_member 10 [10; 11] = true /\ Forall (fun r => 1 <= r) [3; 6; 2].
Proof.
  split; [discriminate|]. split; [repeat constructor; cbn [In]; lia|]. split; [repeat constructor; lia|].
  split; [reflexivity|]. repeat constructor; lia.
Qed.
