(* Case evaluation for the C12 correspondence run.  A case carries the input (rounds, heralded, calibration flag, repetitions, id
   lists, queried qubit) and everything the implementation's public API returned for it.
     agree   : the model (Gen/Kernels.v + C12/Model.v) returns exactly the same values;
     spec_ok : the statement of C12 evaluated on the implementation's values alone (tiling, inside, disjoint, ancilla cover with
               the 0-round gap, translation by the cycle length; estimate) -- no model function is called.
   The estimate clause is a case kind of its own (CEst): it is judged, as the property states it, against the kernel_cycle_length of
   the experiment kernel built from the same description, for both values of qutrit_calibration_points (finding F15: before its
   fix the flag-off descriptions failed exactly this clause and the `calibration kernel present iff flag` clause of CExp). *)
From Coq Require Import ZArith List Bool.
Import ListNotations.
From QCE Require Import Base.Prelude C12.Model.
From Gen Require Import Kernels.
Open Scope Z_scope.

(* one repetition kernel as seen through indexing_kernels[i] for the queried qubit *)
Record kobs := MkKobs { ko_n : Z; ko_start : Z; ko_stop : Z; ko_len : Z;
                        ko_her : list Z; ko_stab : list Z; ko_fin : list Z; ko_contains : list Z }.
(* the calibration kernel: heralded state 0,1,2 ; state 0,1,2 ; contains *)
Record cobs := MkCobs { co_start : Z; co_stop : Z; co_len : Z; co_her : list (list Z); co_st : list (list Z); co_contains : list Z }.
(* the three cycle getters for one cycle_stabilizer_count *)
Record qobs := MkQobs { qo_n : Z; qo_her : list (list Z); qo_sp : list (list Z); qo_proj : list (list Z) }.

Inductive case :=
| CExp (rounds : list Z) (h c : bool) (reps : Z) (data anc : list Z) (q : Z)
       (start stop L klen xreps : Z) (ks : list kobs) (cal : list cobs) (qs : list qobs)
       (cal_her cal_proj : list (list Z))                       (* experiment-level calibration getters, per StateKey *)
| CEst (rounds : list Z) (h c : bool) (reps : Z) (data anc : list Z)
       (L : Z)                                                  (* kernel_cycle_length of RepetitionExperimentKernel(rounds, h, c, data, anc, reps) *)
       (sizes : list Z) (ests : list (outcome Z))               (* estimate_experiment_repetitions(rounds, h, c, size) for each size *)
| CErr (rounds : list Z) (h c : bool) (reps : Z) (data anc : list Z) (size : Z) (init : outcome unit) (est : outcome Z)
(* a very large experiment (repetitions x cycle length beyond 2^31): the rows of the three cycle getters for block n are far too
   many to list, so the driver reports the cycle length, the index range and, for each getter, the rows of a few selected
   repetitions i (first, second, middle, around the 2^31 boundary, last) *)
| CBig (rounds : list Z) (h c : bool) (reps : Z) (data anc : list Z) (q n : Z)
       (start stop L : Z) (nrows : list Z) (rows : list (Z * list (list Z))).   (* nrows: number of rows of her / sp / proj;
                                                                                   rows: (i, [her_i; sp_i; proj_i]) *)

Definition lz_eqb := list_eqb Z.eqb.
Definition mat_eqb := list_eqb lz_eqb.

(* ------------------------------------------------------------------ model side *)
Definition kobs_of (q : Z) (k : RepetitionIndexKernel) : kobs :=
  MkKobs (RepetitionIndexKernel_nr_repeated_parities k) (RepetitionIndexKernel_start_index k) (RepetitionIndexKernel_stop_index k)
         (RepetitionIndexKernel_kernel_length k)
         (RepetitionIndexKernel_get_heralded_measurement_index k q) (RepetitionIndexKernel_get_ordered_stabilizer_measurement_indices k q)
         (RepetitionIndexKernel_get_final_measurement_index k q) (RepetitionIndexKernel_contains k q).
Definition cobs_of (q : Z) (k : QutritCalibrationIndexKernel) : cobs :=
  MkCobs (QutritCalibrationIndexKernel_start_index k) (QutritCalibrationIndexKernel_stop_index k) (QutritCalibrationIndexKernel_kernel_length k)
         [QutritCalibrationIndexKernel_get_heralded_state_0_measurement_index k q;
          QutritCalibrationIndexKernel_get_heralded_state_1_measurement_index k q;
          QutritCalibrationIndexKernel_get_heralded_state_2_measurement_index k q]
         [QutritCalibrationIndexKernel_get_state_0_measurement_index k q;
          QutritCalibrationIndexKernel_get_state_1_measurement_index k q;
          QutritCalibrationIndexKernel_get_state_2_measurement_index k q]
         (QutritCalibrationIndexKernel_contains k q).
Definition qobs_of (e : RepetitionExperimentKernel) (q n : Z) : qobs :=
  MkQobs n (RepetitionExperimentKernel_get_heralded_cycle_acquisition_indices e q n)
           (RepetitionExperimentKernel_get_stabilizer_and_projected_cycle_acquisition_indices e q n)
           (RepetitionExperimentKernel_get_projected_cycle_acquisition_indices e q n).

Definition kobs_eqb (a b : kobs) : bool :=
  (ko_n a =? ko_n b) && (ko_start a =? ko_start b) && (ko_stop a =? ko_stop b) && (ko_len a =? ko_len b)
  && lz_eqb (ko_her a) (ko_her b) && lz_eqb (ko_stab a) (ko_stab b) && lz_eqb (ko_fin a) (ko_fin b)
  && lz_eqb (ko_contains a) (ko_contains b).
Definition cobs_eqb (a b : cobs) : bool :=
  (co_start a =? co_start b) && (co_stop a =? co_stop b) && (co_len a =? co_len b)
  && mat_eqb (co_her a) (co_her b) && mat_eqb (co_st a) (co_st b) && lz_eqb (co_contains a) (co_contains b).
Definition qobs_eqb (a b : qobs) : bool :=
  (qo_n a =? qo_n b) && mat_eqb (qo_her a) (qo_her b) && mat_eqb (qo_sp a) (qo_sp b) && mat_eqb (qo_proj a) (qo_proj b).

Definition unit_eqb (a b : unit) : bool := true.

Definition agree (cs : case) : bool :=
  match cs with
  | CExp rounds h c reps data anc q start stop L klen xreps ks cal qs cal_her cal_proj =>
      match experiment_kernel rounds h c data anc reps with
      | Raised _ => false
      | Value e =>
          (start =? RepetitionExperimentKernel_start_index e) && (stop =? RepetitionExperimentKernel_stop_index e)
          && (L =? RepetitionExperimentKernel_kernel_cycle_length e) && (klen =? RepetitionExperimentKernel_kernel_length e)
          && (xreps =? RepetitionExperimentKernel_experiment_repetitions e)
          && list_eqb kobs_eqb (map (kobs_of q) (RepetitionExperimentKernel__repetition_kernels e)) ks
          (* the calibration kernel is observed exactly when it is one of indexing_kernels *)
          && list_eqb cobs_eqb (if (length (RepetitionExperimentKernel_indexing_kernels e)
                                     =? S (length (RepetitionExperimentKernel__repetition_kernels e)))%nat
                                then [cobs_of q (RepetitionExperimentKernel__calibration_kernel e)] else []) cal
          && list_eqb qobs_eqb (map (fun o => qobs_of e q (qo_n o)) qs) qs
          && mat_eqb (map (RepetitionExperimentKernel_get_heralded_calibration_acquisition_indices e q) StateKey_all) cal_her
          && mat_eqb (map (RepetitionExperimentKernel_get_projected_calibration_acquisition_indices e q) StateKey_all) cal_proj
      end
  | CEst rounds h c reps data anc L sizes ests =>
      match experiment_kernel rounds h c data anc reps with
      | Raised _ => false
      | Value e =>
          (L =? RepetitionExperimentKernel_kernel_cycle_length e)
          && list_eqb (outcome_eqb Z.eqb) (map (estimate_experiment_repetitions rounds h c) sizes) ests
      end
  | CErr rounds h c reps data anc size init est =>
      outcome_eqb unit_eqb (match experiment_kernel rounds h c data anc reps with Value _ => Value tt | Raised e => Raised e end) init
      && outcome_eqb Z.eqb (estimate_experiment_repetitions rounds h c size) est
  | CBig rounds h c reps data anc q n start stop L nrows rows =>
      (* the model of the SAME description with one repetition gives the rows of repetition 0 and the cycle length *)
      match experiment_kernel rounds h c data anc 1 with
      | Raised _ => false
      | Value e =>
          let o := qobs_of e q n in
          (L =? RepetitionExperimentKernel_kernel_cycle_length e) && (start =? RepetitionExperimentKernel_start_index e)
          && (stop =? start + reps * L)
          && forallb (fun r => if fst r =? 0
                               then mat_eqb (snd r) [concat (qo_her o); concat (qo_sp o); concat (qo_proj o)] else true) rows
      end
  end.

(* ------------------------------------------------------------------ specification side (implementation values only) *)
Fixpoint tile_ok (s : Z) (l : list (Z * Z * Z)) : bool :=      (* (start, stop, length) back to back from s, none empty *)
  match l with
  | [] => true
  | (a, b, len) :: t => (a =? s) && (a <=? b) && (len =? b - a + 1) && tile_ok (b + 1) t
  end.
Definition all_in (lo hi : Z) (l : list Z) : bool := forallb (fun x => (lo <=? x) && (x <=? hi)) l.
Fixpoint nodupb (l : list Z) : bool :=
  match l with [] => true | x :: t => negb (existsb (Z.eqb x) t) && nodupb t end.

Definition kernel_ok (member_anc : bool) (k : kobs) : bool :=
  let cats := ko_her k ++ ko_stab k ++ ko_fin k in
  all_in (ko_start k) (ko_stop k) (cats ++ ko_contains k)                       (* inside *)
  && nodupb cats && lz_eqb (ko_contains k) (zsort cats)                         (* pairwise disjoint; contains = sorted union *)
  && (if member_anc                                                             (* ancilla: cover, with the 0-round gap *)
      then if ko_n k =? 0
           then lz_eqb (zsort cats) (zrange (ko_start k) (ko_stop k)) && lz_eqb (ko_fin k) []
           else lz_eqb (zsort cats) (zrange (ko_start k) (ko_stop k + 1))
      else true).

Definition cal_ok (member : bool) (k : cobs) : bool :=
  let cats := concat (co_her k) ++ concat (co_st k) in
  (length (co_her k) =? 3)%nat && (length (co_st k) =? 3)%nat
  && all_in (co_start k) (co_stop k) (cats ++ co_contains k)
  && nodupb cats && lz_eqb (co_contains k) (zsort cats)
  && (if member then lz_eqb (zsort cats) (zrange (co_start k) (co_stop k + 1)) else true).

Definition translate_ok (L reps : Z) (ks : list kobs) (o : qobs) : bool :=
  match find (fun k => ko_n k =? qo_n o) ks with
  | Some k => mat_eqb (qo_her o) (translates (ko_her k) L reps)
              && mat_eqb (qo_sp o) (translates (ko_stab k ++ ko_fin k) L reps)
              && mat_eqb (qo_proj o) (translates (ko_fin k) L reps)
  | None => mat_eqb (qo_her o) [] && mat_eqb (qo_sp o) [] && mat_eqb (qo_proj o) []
  end.

Definition estimate_ok (Lc size : Z) (r : outcome Z) : bool :=
  if (1 <=? Lc) && (size mod Lc =? 0) then outcome_eqb Z.eqb r (Value (size / Lc))
  else outcome_eqb Z.eqb r (Raised AssertionError).

Definition is_value {A} (o : outcome A) : bool := match o with Value _ => true | Raised _ => false end.

(* CBig: successive repetitions are exact translates by the cycle length and stay inside the kernel, also far beyond 2^31 *)
Definition big_ok (reps start stop L : Z) (nrows : list Z) (rows : list (Z * list (list Z))) : bool :=
  (1 <=? L) && (stop =? start + reps * L)   (* the experiment kernel reports start + repetitions * cycle length *)
  && forallb (fun x => x =? reps) nrows
  && match find (fun r => fst r =? 0) rows with
     | None => false
     | Some r0 =>
         forallb (fun r => (0 <=? fst r) && (fst r <? reps)
                           && mat_eqb (snd r) (map (map (fun x => x + fst r * L)) (snd r0))
                           && forallb (all_in start (start + reps * L - 1)) (snd r)) rows
     end.

Definition spec_ok (cs : case) : bool :=
  match cs with
  | CExp rounds h c reps data anc q start stop L klen xreps ks cal qs cal_her cal_proj =>
      let man := is_member q anc in
      let mall := is_member q (data ++ anc) in
      let tiles := map (fun k => (ko_start k, ko_stop k, ko_len k)) ks ++ map (fun k => (co_start k, co_stop k, co_len k)) cal in
      (* kernels contiguous and non-overlapping, one per rounds entry, then the calibration kernel iff calibration points are on *)
      negb (match ks with [] => true | _ => false end)
      && lz_eqb (map ko_n ks) rounds
      && (length cal =? (if c then 1 else 0))%nat
      && tile_ok 0 tiles
      && (start =? 0) && (L =? last (map (fun t => snd (fst t)) tiles) (-1) - start + 1) && (xreps =? reps)
      (* categories inside / disjoint / ancilla cover *)
      && forallb (kernel_ok man) ks && forallb (cal_ok mall) cal
      (* repetitions are translates by the cycle length *)
      && forallb (translate_ok L reps ks) qs
      && mat_eqb cal_her (match cal with k :: _ => map (fun b => concat (translates b L reps)) (co_her k) | [] => [[]; []; []] end)
      && mat_eqb cal_proj (match cal with k :: _ => map (fun b => concat (translates b L reps)) (co_st k) | [] => [[]; []; []] end)
  | CEst rounds h c reps data anc L sizes ests =>
      (* the estimate inverts dataset size = repetitions x kernel cycle length: n on n x L, its own AssertionError elsewhere *)
      (1 <=? L) && (length sizes =? length ests)%nat
      && forallb (fun p => estimate_ok L (fst p) (snd p)) (combine sizes ests)
  | CErr rounds h c reps data anc size init est =>
      (* malformed stream: nothing is required of an empty rounds list; a non-empty one must yield a kernel and an estimate that
         either answers or raises its own assertion *)
      match rounds with
      | [] => true
      | _ => is_value init && (is_value est || outcome_eqb Z.eqb est (Raised AssertionError))
      end
  | CBig rounds h c reps data anc q n start stop L nrows rows => big_ok reps start stop L nrows rows
  end.
