(* C12 -- hand-written part of the index-kernel model.  Everything arithmetic is generated (Gen/Kernels.v, regenerated from
   kernel_repetition_code.py / kernel_calibration.py / intrf_index_strategy.py / intrf_index_kernel.py on every run).  Written by
   hand here, mirroring the code as it is:
     * the kernel-building loop of RepetitionExperimentKernel.__init__ (first kernel: FixedIndexStrategy(0); every later one and
       the calibration kernel: RelativeIndexStrategy(previous kernel)) -- its shape is pinned by the generator, the pieces
       (`.._init_first_start`, `.._init_next_start`, `.._init_kernel`, `.._init_calibration`) are generated;
     * the same loop inside estimate_experiment_repetitions, followed by the generated arithmetic tail;
     * the vocabulary of the theorems (no proofs in this file).
   Kept as in the code: __init__ always builds the calibration kernel object and stores `qutrit_calibration_points`; whether the
   kernel is part of the cycle is decided by the generated `indexing_kernels` (it reads the flag since the fix of finding F15;
   Gen.Kernels.experiment_kernel_honours_calibration_flag says which shape was translated); an empty rounds list raises IndexError
   in __init__ and in estimate_experiment_repetitions. *)
From Coq Require Import ZArith List Bool.
Import ListNotations.
From QCE Require Import Base.Prelude.
From Gen Require Import Kernels.
Open Scope Z_scope.

Inductive err := IndexError | AssertionError | OtherError.
Inductive outcome (A : Type) := Value (a : A) | Raised (e : err).
Arguments Value {A} a.
Arguments Raised {A} e.

Definition err_eqb (a b : err) : bool :=
  match a, b with IndexError, IndexError | AssertionError, AssertionError | OtherError, OtherError => true | _, _ => false end.
Definition outcome_eqb {A} (eqb : A -> A -> bool) (a b : outcome A) : bool :=
  match a, b with Value x, Value y => eqb x y | Raised e, Raised f => err_eqb e f | _, _ => false end.

Fixpoint last_opt {A} (l : list A) : option A :=
  match l with [] => None | [x] => Some x | _ :: t => last_opt t end.

(* ---------------------------------------------------------------- RepetitionExperimentKernel.__init__ *)
(* `prev` is self._repetition_kernels[-1] when the list is not empty *)
Fixpoint init_kernels (prev : option RepetitionIndexKernel) (h : bool) (data anc : list Z) (rounds : list Z)
  : list RepetitionIndexKernel :=
  match rounds with
  | [] => []
  | nr_round :: rest =>
      let start := match prev with
                   | None => RepetitionExperimentKernel_init_first_start
                   | Some p => RepetitionExperimentKernel_init_next_start p
                   end in
      let kernel := RepetitionExperimentKernel_init_kernel h data anc nr_round start in
      kernel :: init_kernels (Some kernel) h data anc rest
  end.

(* c = qutrit_calibration_points is stored (self._qutrit_calibration_points); the calibration kernel object is always built *)
Definition experiment_kernel (rounds : list Z) (h c : bool) (data anc : list Z) (reps : Z) : outcome RepetitionExperimentKernel :=
  let ks := init_kernels None h data anc rounds in
  match last_opt ks with
  | None => Raised IndexError                         (* self._repetition_kernels[-1] on an empty list *)
  | Some l => Value (MkRepetitionExperimentKernel ks (RepetitionExperimentKernel_init_calibration h data anc l) reps c)
  end.

(* ---------------------------------------------------------------- estimate_experiment_repetitions *)
Fixpoint estimate_kernels (prev : option RepetitionIndexKernel) (h : bool) (rounds : list Z) : list RepetitionIndexKernel :=
  match rounds with
  | [] => []
  | nr_round :: rest =>
      let start := match prev with
                   | None => RepetitionExperimentKernel_estimate_first_start
                   | Some p => RepetitionExperimentKernel_estimate_next_start p
                   end in
      let kernel := RepetitionExperimentKernel_estimate_kernel h nr_round start in
      kernel :: estimate_kernels (Some kernel) h rest
  end.

(* the list `indexing_kernels` the tail of the method works on *)
Definition estimate_indexing_kernels (rounds : list Z) (h c : bool) : outcome (list IIndexingKernel) :=
  let ks := estimate_kernels None h rounds in
  let iks := map RepetitionIndexKernel_as_IIndexingKernel ks in
  match last_opt ks with
  | None => Raised IndexError                         (* repetition_kernels[-1] resp. indexing_kernels[-1] on an empty list *)
  | Some l =>
      if c then Value (iks ++ [QutritCalibrationIndexKernel_as_IIndexingKernel (RepetitionExperimentKernel_estimate_calibration h l)])
      else Value iks
  end.

Definition estimate_experiment_repetitions (rounds : list Z) (h c : bool) (dataset_size : Z) : outcome Z :=
  match estimate_indexing_kernels rounds h c with
  | Raised e => Raised e
  | Value iks =>
      match RepetitionExperimentKernel_estimate_tail iks dataset_size with
      | Some n => Value n
      | None => Raised AssertionError                 (* the method's own assertion *)
      end
  end.

(* the cycle length estimate_experiment_repetitions divides by *)
Definition estimate_cycle_length (rounds : list Z) (h c : bool) : outcome Z :=
  match estimate_indexing_kernels rounds h c with
  | Raised e => Raised e
  | Value iks => Value (IIndexingKernel_stop_index (last iks IIndexingKernel_default)
                        - IIndexingKernel_start_index (hd IIndexingKernel_default iks) + 1)
  end.

(* ---------------------------------------------------------------- vocabulary of the theorems *)
(* all index categories of qubit q inside one repetition kernel, in the order heralded, stabilizer, final *)
Definition kernel_indices (k : RepetitionIndexKernel) (q : Z) : list Z :=
  RepetitionIndexKernel_get_heralded_measurement_index k q
  ++ RepetitionIndexKernel_get_ordered_stabilizer_measurement_indices k q
  ++ RepetitionIndexKernel_get_final_measurement_index k q.

(* all six categories of the calibration kernel, in the order of the experiment: (heralded, state) x 0,1,2 *)
Definition calibration_indices (k : QutritCalibrationIndexKernel) (q : Z) : list Z :=
  QutritCalibrationIndexKernel_get_heralded_state_0_measurement_index k q ++ QutritCalibrationIndexKernel_get_state_0_measurement_index k q
  ++ QutritCalibrationIndexKernel_get_heralded_state_1_measurement_index k q ++ QutritCalibrationIndexKernel_get_state_1_measurement_index k q
  ++ QutritCalibrationIndexKernel_get_heralded_state_2_measurement_index k q ++ QutritCalibrationIndexKernel_get_state_2_measurement_index k q.

(* every index of q in the first experiment repetition (calibration points only when the experiment has them) *)
Definition cycle_indices (e : RepetitionExperimentKernel) (q : Z) : list Z :=
  concat (map (fun k => kernel_indices k q) (RepetitionExperimentKernel__repetition_kernels e))
  ++ (if RepetitionExperimentKernel__qutrit_calibration_points e
      then calibration_indices (RepetitionExperimentKernel__calibration_kernel e) q else []).

(* every index of q over all experiment repetitions *)
Definition all_indices (e : RepetitionExperimentKernel) (q : Z) : list Z :=
  RepetitionExperimentKernel_create_sliced_array (cycle_indices e q) (RepetitionExperimentKernel_kernel_cycle_length e)
    (RepetitionExperimentKernel_experiment_repetitions e).

(* kernels laid out back to back from index s: first starts at s, each next one right after the previous stop, none empty *)
Fixpoint contiguous_from (s : Z) (ks : list IIndexingKernel) : Prop :=
  match ks with
  | [] => True
  | k :: t => IIndexingKernel_start_index k = s /\ IIndexingKernel_start_index k <= IIndexingKernel_stop_index k
              /\ 1 <= IIndexingKernel_kernel_length k /\ contiguous_from (IIndexingKernel_stop_index k + 1) t
  end.

(* l is strictly increasing and lies inside [lo, hi] *)
Fixpoint incr_in (lo hi : Z) (l : list Z) : Prop :=
  match l with
  | [] => lo <= hi + 1
  | x :: t => lo <= x <= hi /\ incr_in (x + 1) hi t
  end.

(* the list `base` repeated for repetitions 0 .. reps-1, repetition i shifted by i * L *)
Definition translates (base : list Z) (L reps : Z) : list (list Z) :=
  map (fun i => map (fun x => x + i * L) base) (zrange 0 reps).

Definition is_member (q : Z) (l : list Z) : bool := existsb (fun y => Z.eqb y q) l.
