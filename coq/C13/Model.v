(* C13 -- the per-ancilla measurement sequence of construct_repetition_code_multi_round_circuit, as a closed form written from the
   constructors (library/repetition_code/circuit_constructors.py, circuit_components.py, library/state_calibration/):

     for every entry r of qec_cycles:   construct_repetition_code_circuit(r)  (apply_modifiers, flatten)  + Barrier
        get_circuit_initialize_with_heralded : Reset all, DispersiveMeasure(tag 'heralded') on every qubit          -> heralded
        get_circuit_qec_with_detectors(r)    : r = 0 : DispersiveMeasure(tag 'final') on every ancilla              -> final
                                               r > 0 : first sub-circuit  x min(2, r-1)   (only when r > 1)  \
                                                       second sub-circuit x (r - 2 - 1)   (only when r > 3)   } one 'parity' measurement
                                                       third sub-circuit  x 1             (always)           /  of every ancilla per round
        get_circuit_final_measurement        : DispersiveMeasure(tag 'final') on the DATA qubits only         -> nothing for an ancilla
     construct_calibration_circuit(QUTRIT) : for state 0, 1, 2: DispersiveMeasure 'heralded' then 'final' on every qubit.

   Every ancilla sees the same sequence, whatever the code distance.  Each measurement is labelled with the block (its round count)
   or the calibration state it belongs to; the implementation's flat tag sequence is compared with `multi_round_tags`
   (harness/c13.py).  The kernel side is the C12 model (Gen/Kernels.v + C12/Model.v) with heralded initialisation on, calibration
   points on and one experiment repetition, as the constructor does.  No proofs in this file. *)
From Coq Require Import ZArith List Bool.
Import ListNotations.
From QCE Require Import Base.Prelude C12.Model.
From Gen Require Import Kernels.
Open Scope Z_scope.

Inductive tag := THeralded | TParity | TFinal.
Inductive label := Block (n : Z) | Cal (s : StateKey).

Definition tag_eqb (a b : tag) : bool :=
  match a, b with THeralded, THeralded | TParity, TParity | TFinal, TFinal => true | _, _ => false end.
Definition label_eqb (a b : label) : bool :=
  match a, b with Block n, Block m => n =? m | Cal s, Cal t => StateKey_eqb s t | _, _ => false end.

(* number of QEC rounds get_circuit_qec_with_detectors schedules for qec_cycles = r <> 0: the three sub-circuits *)
Definition qec_parity_rounds (r : Z) : Z :=
  (if r >? 1 then Z.min 2 (r - 1) else 0) + (if r >? 3 then r - 2 - 1 else 0) + 1.

(* measurements of one ancilla inside the block built for r rounds *)
Definition block_tags (r : Z) : list tag :=
  THeralded :: (if r =? 0 then [TFinal] else repeat TParity (Z.to_nat (qec_parity_rounds r))).

Definition calibration_labelled : list (tag * label) :=
  flat_map (fun s => [(THeralded, Cal s); (TFinal, Cal s)]) StateKey_all.

Definition multi_round_labelled (rounds : list Z) : list (tag * label) :=
  flat_map (fun r => map (fun t => (t, Block r)) (block_tags r)) rounds ++ calibration_labelled.

Definition multi_round_tags (rounds : list Z) : list tag := map fst (multi_round_labelled rounds).

(* acquisition indices (the i-th measurement of a qubit has per-qubit acquisition index i) of the entries satisfying p *)
Fixpoint positions_from {A} (p : A -> bool) (s : Z) (l : list A) : list Z :=
  match l with
  | [] => []
  | x :: t => (if p x then [s] else []) ++ positions_from p (s + 1) t
  end.
Definition positions {A} (p : A -> bool) (l : list A) : list Z := positions_from p 0 l.

Definition is_tl (t : tag) (l : label) (x : tag * label) : bool := tag_eqb (fst x) t && label_eqb (snd x) l.
Definition is_tag (t : tag) (x : tag) : bool := tag_eqb x t.

(* the experiment kernel the multi-round circuit is analysed with *)
Definition circuit_kernel (rounds data anc : list Z) : outcome RepetitionExperimentKernel :=
  experiment_kernel rounds true true data anc 1.
