(* C13 -- lemmas: the closed-form measurement sequence of the multi-round circuit agrees with the index kernels (C12 model). *)
From Coq Require Import ZArith List Bool Lia ZifyBool.
Import ListNotations.
From QCE Require Import Base.Prelude C12.Model C12.Proofs C13.Model.
From Gen Require Import Kernels.
Open Scope Z_scope.

(* ------------------------------------------------------------------ positions *)
Lemma positions_from_app {A} (p : A -> bool) l1 l2 s :
  positions_from p s (l1 ++ l2) = positions_from p s l1 ++ positions_from p (s + Z.of_nat (length l1)) l2.
Proof.
  revert s; induction l1 as [|x t IH]; intros s; cbn [app positions_from length].
  - f_equal. lia.
  - rewrite IH, <- app_assoc. f_equal. f_equal. f_equal. lia.
Qed.

Lemma positions_from_ext {A} (p p' : A -> bool) l s : (forall x, In x l -> p x = p' x) -> positions_from p s l = positions_from p' s l.
Proof.
  revert s; induction l as [|x t IH]; intros s H; cbn [positions_from]; [reflexivity|].
  rewrite (H x) by (left; reflexivity). f_equal. apply IH. intros y Hy. apply H. right. exact Hy.
Qed.

Lemma positions_from_none {A} (p : A -> bool) l s : (forall x, In x l -> p x = false) -> positions_from p s l = [].
Proof.
  revert s; induction l as [|x t IH]; intros s H; cbn [positions_from]; [reflexivity|].
  rewrite (H x) by (left; reflexivity). cbn [app]. apply IH. intros y Hy. apply H. right. exact Hy.
Qed.

Lemma positions_from_map {A B} (f : A -> B) (p : B -> bool) l s : positions_from p s (map f l) = positions_from (fun x => p (f x)) s l.
Proof. revert s; induction l as [|x t IH]; intros s; cbn [map positions_from]; [reflexivity|]. now rewrite IH. Qed.

Lemma positions_from_repeat {A} (p : A -> bool) x n s : p x = true -> positions_from p s (repeat x n) = zrange_n s n.
Proof.
  intros H. revert s; induction n as [|n IH]; intros s; cbn [repeat positions_from zrange_n]; [reflexivity|].
  rewrite H, IH. reflexivity.
Qed.

(* ------------------------------------------------------------------ one block *)
Lemma qec_parity_rounds_eq r : 1 <= r -> qec_parity_rounds r = r.
Proof. intros H. unfold qec_parity_rounds. destruct (Z.gtb_spec r 1), (Z.gtb_spec r 3); lia. Qed.

Lemma block_tags_length r : 0 <= r -> Z.of_nat (length (block_tags r)) = klen true r.
Proof.
  intros H. unfold block_tags, klen, dh. destruct (Z.eqb_spec r 0) as [->|Hr]; cbn [length].
  - reflexivity.
  - rewrite repeat_length, qec_parity_rounds_eq by lia. lia.
Qed.

Section Block.
Variables (data anc : list Z) (q : Z).
Hypothesis Hq : is_member q anc = true.

Lemma Hq_all : is_member q (data ++ anc) = true.
Proof. apply existsb_app_r. exact Hq. Qed.

Lemma block_heralded r s :
  positions_from (is_tag THeralded) s (block_tags r)
  = RepetitionIndexKernel_get_heralded_measurement_index (MkRepetitionIndexKernel r true s data anc) q.
Proof.
  rewrite rep_heralded, Hq_all. cbn [andb]. unfold block_tags. cbn [positions_from is_tag tag_eqb app]. f_equal.
  apply positions_from_none. intros x Hx. destruct (r =? 0).
  - destruct Hx as [<-|[]]. reflexivity.
  - apply repeat_spec in Hx. subst x. reflexivity.
Qed.

Lemma block_parity r s : 0 <= r ->
  positions_from (is_tag TParity) s (block_tags r)
  = RepetitionIndexKernel_get_ordered_stabilizer_measurement_indices (MkRepetitionIndexKernel r true s data anc) q
    ++ RepetitionIndexKernel_get_final_measurement_index (MkRepetitionIndexKernel r true s data anc) q.
Proof.
  intros Hr. rewrite rep_stabilizer, rep_final, Hq, Hq_all. unfold block_tags. cbn [positions_from is_tag tag_eqb app andb].
  destruct (Z.eqb_spec r 0) as [->|Hn]; cbn [negb positions_from is_tag tag_eqb app].
  - rewrite zrange_nil by (unfold dh; lia). reflexivity.
  - rewrite positions_from_repeat by reflexivity. rewrite qec_parity_rounds_eq by lia.
    unfold klen, dh. replace (s + (1 + Z.max 0 (r - 1) + 1) - 1) with (s + 1 + (r - 1)) by lia.
    rewrite <- zrange_snoc by lia. unfold zrange. f_equal; lia.
Qed.

Lemma block_final r s : 0 <= r ->
  positions_from (is_tag TFinal) s (block_tags r)
  = if r =? 0 then [RepetitionIndexKernel_stop_index (MkRepetitionIndexKernel r true s data anc)] else [].
Proof.
  intros Hr. rewrite rep_stop. unfold block_tags. cbn [positions_from is_tag tag_eqb app].
  destruct (Z.eqb_spec r 0) as [->|Hn]; cbn [positions_from is_tag tag_eqb app].
  - f_equal. unfold klen, dh. lia.
  - apply positions_from_none. intros x Hx. apply repeat_spec in Hx. subst x. reflexivity.
Qed.
End Block.

(* labelled block: only the entries of the block with the asked round count answer *)
Definition labelled_block (r : Z) : list (tag * label) := map (fun t => (t, Block r)) (block_tags r).

Lemma labelled_block_block t n r s :
  positions_from (is_tl t (Block n)) s (labelled_block r) = if r =? n then positions_from (is_tag t) s (block_tags r) else [].
Proof.
  unfold labelled_block. rewrite positions_from_map. destruct (Z.eqb_spec r n) as [->|Hn].
  - apply positions_from_ext. intros x _. unfold is_tl, is_tag. cbn [fst snd label_eqb]. rewrite Z.eqb_refl. apply andb_true_r.
  - apply positions_from_none. intros x _. unfold is_tl. cbn [fst snd label_eqb]. replace (r =? n) with false by lia. apply andb_false_r.
Qed.

Lemma labelled_block_cal t st r s : positions_from (is_tl t (Cal st)) s (labelled_block r) = [].
Proof.
  unfold labelled_block. rewrite positions_from_map. apply positions_from_none. intros x _. unfold is_tl. cbn [fst snd label_eqb]. apply andb_false_r.
Qed.

(* ------------------------------------------------------------------ the chain of blocks against the chain of kernels *)
Lemma blocks_length rounds : Forall (fun r => 0 <= r) rounds ->
  Z.of_nat (length (flat_map labelled_block rounds)) = total_len true rounds.
Proof.
  induction rounds as [|r t IH]; intros H; cbn [flat_map total_len length]; [reflexivity|].
  inversion H as [|? ? H1 H2]; subst. rewrite app_length, Nat2Z.inj_add, (IH H2). unfold labelled_block. rewrite map_length, block_tags_length by exact H1. reflexivity.
Qed.

Lemma blocks_positions (P : tag * label -> bool) data anc rounds : Forall (fun r => 0 <= r) rounds -> forall s,
  positions_from P s (flat_map labelled_block rounds)
  = concat (map (fun k => positions_from P (RepetitionIndexKernel_start_index k) (labelled_block (RepetitionIndexKernel_nr_repeated_parities k)))
                (kernels_from true data anc s rounds)).
Proof.
  induction rounds as [|r t IH]; intros H s; cbn [flat_map kernels_from map concat]; [reflexivity|].
  inversion H as [|? ? H1 H2]; subst. rewrite positions_from_app.
  cbn [RepetitionIndexKernel_start_index RepetitionIndexKernel_nr_repeated_parities]. f_equal.
  unfold labelled_block at 1. rewrite map_length, block_tags_length by exact H1. apply IH. exact H2.
Qed.

Lemma concat_map_select {A} (key : A -> Z) (f : A -> list Z) (l : list A) (k : A) :
  NoDup (map key l) -> In k l -> concat (map (fun k' => if key k' =? key k then f k' else []) l) = f k.
Proof.
  induction l as [|y t IH]; cbn [map In concat]; [tauto|]. intros Hnd [->|HIn]; inversion Hnd as [|? ? Hn Hd]; subst.
  - rewrite Z.eqb_refl. rewrite <- (app_nil_r (f k)) at 2. f_equal.
    assert (G : forall l', ~ In (key k) (map key l') -> concat (map (fun k' => if key k' =? key k then f k' else []) l') = []).
    { induction l' as [|z l'' IH']; cbn [map In concat]; [reflexivity|]. intros Hz.
      destruct (Z.eqb_spec (key z) (key k)); [tauto|]. cbn [app]. apply IH'. tauto. }
    apply G. exact Hn.
  - destruct (Z.eqb_spec (key y) (key k)) as [E|E].
    + exfalso. apply Hn. rewrite E. apply in_map. exact HIn.
    + cbn [app]. exact (IH Hd HIn).
Qed.

Lemma concat_map_nil {A} (f : A -> list Z) (l : list A) : (forall k, In k l -> f k = []) -> concat (map f l) = [].
Proof.
  induction l as [|y t IH]; cbn [map concat]; [reflexivity|]. intros H. rewrite (H y) by (left; reflexivity). cbn [app]. apply IH.
  intros k Hk. apply H. right. exact Hk.
Qed.

(* one experiment repetition: the sliced getters return the single-cycle lists *)
Lemma translates_one base L : translates base L 1 = [base].
Proof.
  unfold translates. rewrite zrange_cons by lia. rewrite zrange_nil by lia. cbn [map]. f_equal.
  rewrite <- (map_id base) at 2. apply map_ext. intros x. lia.
Qed.

(* ------------------------------------------------------------------ kernels of one chain do not share indices *)
Lemma kernels_from_disjoint h data anc rounds : forall s k1 k2 x,
  In k1 (kernels_from h data anc s rounds) -> In k2 (kernels_from h data anc s rounds) ->
  RepetitionIndexKernel_start_index k1 <= x <= RepetitionIndexKernel_stop_index k1 ->
  RepetitionIndexKernel_start_index k2 <= x <= RepetitionIndexKernel_stop_index k2 -> k1 = k2.
Proof.
  induction rounds as [|r t IH]; intros s k1 k2 x H1 H2 B1 B2; cbn [kernels_from In] in *; [tauto|].
  assert (G : forall k, In k (kernels_from h data anc (s + klen h r) t) -> s + klen h r <= RepetitionIndexKernel_start_index k).
  { intros k Hk. apply kernels_from_In in Hk. destruct Hk as (r' & s' & -> & _ & Hs & _). exact Hs. }
  destruct H1 as [<-|H1], H2 as [<-|H2].
  - reflexivity.
  - exfalso. apply G in H2. rewrite rep_stop in B1. lia.
  - exfalso. apply G in H1. rewrite rep_stop in B2. lia.
  - exact (IH _ _ _ _ H1 H2 B1 B2).
Qed.

Lemma In_chain_indices q ks x :
  In x (concat (map (fun k => kernel_indices k q) ks)) -> exists k, In k ks /\ In x (kernel_indices k q).
Proof.
  intros H. apply in_concat in H. destruct H as (l & Hl & Hx). apply in_map_iff in Hl. destruct Hl as (k & <- & Hk).
  exists k. split; assumption.
Qed.

(* ------------------------------------------------------------------ C13 *)
Lemma kernels_agree_with_circuit rounds data anc q :
  rounds <> [] -> NoDup rounds -> Forall (fun r => 0 <= r) rounds -> is_member q anc = true ->
  exists e, circuit_kernel rounds data anc = Value e
  /\ Z.of_nat (length (multi_round_tags rounds)) = RepetitionExperimentKernel_kernel_cycle_length e
  /\ (forall n, In n rounds ->
        positions (is_tl THeralded (Block n)) (multi_round_labelled rounds)
          = concat (RepetitionExperimentKernel_get_heralded_cycle_acquisition_indices e q n)
        /\ positions (is_tl TParity (Block n)) (multi_round_labelled rounds)
          = concat (RepetitionExperimentKernel_get_stabilizer_and_projected_cycle_acquisition_indices e q n)
        /\ (1 <= n -> positions (is_tl TFinal (Block n)) (multi_round_labelled rounds) = []
                      /\ concat (RepetitionExperimentKernel_get_projected_cycle_acquisition_indices e q n)
                         = [last (positions (is_tl TParity (Block n)) (multi_round_labelled rounds)) 0]))
  /\ (In 0 rounds -> exists k, In k (RepetitionExperimentKernel__repetition_kernels e)
        /\ RepetitionIndexKernel_nr_repeated_parities k = 0
        /\ positions (is_tl TFinal (Block 0)) (multi_round_labelled rounds) = [RepetitionIndexKernel_stop_index k]
        /\ RepetitionExperimentKernel_get_projected_cycle_acquisition_indices e q 0 = [[]]
        /\ RepetitionExperimentKernel_get_stabilizer_and_projected_cycle_acquisition_indices e q 0 = [[]]
        /\ ~ In (RepetitionIndexKernel_stop_index k) (cycle_indices e q))
  /\ (forall st, positions (is_tl THeralded (Cal st)) (multi_round_labelled rounds)
                   = RepetitionExperimentKernel_get_heralded_calibration_acquisition_indices e q st
              /\ positions (is_tl TFinal (Cal st)) (multi_round_labelled rounds)
                   = RepetitionExperimentKernel_get_projected_calibration_acquisition_indices e q st
              /\ positions (is_tl TParity (Cal st)) (multi_round_labelled rounds) = []).
Proof.
  intros Hne Hnd Hpos Hq.
  pose proof (experiment_kernel_closed rounds true true data anc 1 Hne) as He.
  exists (exp_closed rounds true true data anc 1). split; [exact He|].
  set (e := exp_closed rounds true true data anc 1) in *.
  set (ks := kernels_from true data anc 0 rounds).
  assert (Hm : is_member q (data ++ anc) = true) by (apply existsb_app_r; exact Hq).
  assert (Hks : RepetitionExperimentKernel__repetition_kernels e = ks) by reflexivity.
  (* positions over the labelled sequence = blocks (against the kernel chain) ++ calibration block *)
  assert (Hsplit : forall P, positions P (multi_round_labelled rounds)
            = concat (map (fun k => positions_from P (RepetitionIndexKernel_start_index k)
                                      (labelled_block (RepetitionIndexKernel_nr_repeated_parities k))) ks)
              ++ positions_from P (total_len true rounds) calibration_labelled).
  { intros P. unfold positions, multi_round_labelled.
    change (flat_map (fun r => map (fun t => (t, Block r)) (block_tags r)) rounds) with (flat_map labelled_block rounds).
    rewrite positions_from_app, (blocks_positions P data anc rounds Hpos 0), (blocks_length rounds Hpos). reflexivity. }
  (* a block label never matches inside the calibration block *)
  assert (Hcalnone : forall t n s, positions_from (is_tl t (Block n)) s calibration_labelled = []).
  { intros t n s. apply positions_from_none. intros x Hx. cbn in Hx. unfold is_tl.
    repeat (destruct Hx as [<-|Hx]; [cbn [fst snd label_eqb]; apply andb_false_r|]). destruct Hx. }
  (* the kernel with n rounds *)
  assert (Hkn : forall n, In n rounds -> exists s', In (MkRepetitionIndexKernel n true s' data anc) ks).
  { intros n Hn. rewrite <- (kernels_from_rounds true data anc 0 rounds) in Hn. apply in_map_iff in Hn.
    destruct Hn as (k & Hnk & Hk). pose proof Hk as Hk'. apply kernels_from_In in Hk'. destruct Hk' as (r & s' & -> & _).
    cbn [RepetitionIndexKernel_nr_repeated_parities] in Hnk. subst r. exists s'. exact Hk. }
  assert (Hndk : NoDup (map RepetitionIndexKernel_nr_repeated_parities ks)).
  { unfold ks. rewrite kernels_from_rounds. exact Hnd. }
  (* positions of tag t in block n = positions inside the block of the kernel with n rounds *)
  assert (Hblock : forall t n s', In (MkRepetitionIndexKernel n true s' data anc) ks ->
            positions (is_tl t (Block n)) (multi_round_labelled rounds) = positions_from (is_tag t) s' (block_tags n)).
  { intros t n s' Hk. rewrite Hsplit, Hcalnone, app_nil_r.
    rewrite (map_ext _ (fun k => if RepetitionIndexKernel_nr_repeated_parities k
                                    =? RepetitionIndexKernel_nr_repeated_parities (MkRepetitionIndexKernel n true s' data anc)
                                 then positions_from (is_tag t) (RepetitionIndexKernel_start_index k)
                                        (block_tags (RepetitionIndexKernel_nr_repeated_parities k)) else []))
      by (intros k; apply labelled_block_block).
    rewrite (concat_map_select RepetitionIndexKernel_nr_repeated_parities _ ks _ Hndk Hk). reflexivity. }
  destruct (repetition_translate rounds true true data anc 1 e q He) as (Htr & _ & Hcal & _). cbv beta iota zeta in Htr, Hcal.
  split; [|split; [|split]].
  - (* length *)
    unfold multi_round_tags. rewrite map_length. unfold multi_round_labelled.
    change (flat_map (fun r => map (fun t => (t, Block r)) (block_tags r)) rounds) with (flat_map labelled_block rounds).
    rewrite app_length, Nat2Z.inj_add, (blocks_length rounds Hpos). unfold e. rewrite exp_cycle_length by exact Hne.
    unfold cycle_len, dh. cbn [calibration_labelled StateKey_all flat_map app length]. lia.
  - (* blocks *)
    intros n Hn. destruct (Hkn n Hn) as (s' & Hk).
    assert (Hn0 : 0 <= n) by (rewrite Forall_forall in Hpos; exact (Hpos n Hn)).
    destruct (Htr Hnd _ Hk) as (Hh & Hsp & Hpr). cbn [RepetitionIndexKernel_nr_repeated_parities] in Hh, Hsp, Hpr.
    rewrite Hh, Hsp, Hpr, !translates_one. cbn [concat]. rewrite !app_nil_r. rewrite !(Hblock _ n s' Hk).
    split; [apply block_heralded; exact Hq|]. split; [apply block_parity; assumption|].
    intros Hn1. rewrite (block_final data anc q n s' Hn0). replace (n =? 0) with false by lia. split; [reflexivity|].
    rewrite (block_parity data anc q Hq n s' Hn0), rep_final, rep_stabilizer, Hq, Hm. replace (n =? 0) with false by lia.
    cbn [andb negb]. rewrite last_last. reflexivity.
  - (* the 0-round block *)
    intros H0. destruct (Hkn 0 H0) as (s' & Hk). exists (MkRepetitionIndexKernel 0 true s' data anc).
    split; [exact Hk|]. split; [reflexivity|].
    destruct (Htr Hnd _ Hk) as (_ & Hsp & Hpr). cbn [RepetitionIndexKernel_nr_repeated_parities] in Hsp, Hpr.
    rewrite (Hblock _ 0 s' Hk), (block_final data anc q 0 s') by lia. split; [reflexivity|].
    destruct (rep_kernel_ancilla_zero_gap true s' data anc q Hq) as (_ & Hf & Hs & Hnot).
    rewrite Hpr, Hsp, Hf, Hs, !translates_one. split; [reflexivity|]. split; [reflexivity|].
    (* no category of q, in any kernel, sits on that slot *)
    intros Hin. unfold cycle_indices in Hin. apply in_app_or in Hin. destruct Hin as [Hin|Hin].
    + rewrite Hks in Hin. apply In_chain_indices in Hin. destruct Hin as (k' & Hk' & Hx).
      pose proof Hk' as Hk''. apply kernels_from_In in Hk''. destruct Hk'' as (r' & s'' & -> & _).
      pose proof (incr_in_sub _ _ _ _ (rep_kernel_incr r' true s'' data anc q) Hx) as Hb.
      assert (Heq : MkRepetitionIndexKernel r' true s'' data anc = MkRepetitionIndexKernel 0 true s' data anc).
      { apply (kernels_from_disjoint true data anc rounds 0 _ _ (RepetitionIndexKernel_stop_index (MkRepetitionIndexKernel 0 true s' data anc)) Hk' Hk Hb).
        rewrite rep_stop. cbn [RepetitionIndexKernel_start_index]. pose proof (klen_pos true 0). lia. }
      rewrite Heq in Hx. exact (Hnot Hx).
    + cbn [e exp_closed RepetitionExperimentKernel__calibration_kernel RepetitionExperimentKernel__qutrit_calibration_points] in Hin.
      pose proof (incr_in_sub _ _ _ _ (cal_kernel_incr true (total_len true rounds) (data ++ anc) q) Hin) as Hb.
      cbn [QutritCalibrationIndexKernel_start_index] in Hb.
      apply kernels_from_In in Hk. destruct Hk as (r0 & s0 & Heq & _ & _ & Hle). injection Heq as <- <-.
      rewrite rep_stop in Hb. lia.
  - (* calibration block *)
    intros st.
    assert (Hblocksnone : forall t, concat (map (fun k => positions_from (is_tl t (Cal st)) (RepetitionIndexKernel_start_index k)
                                                        (labelled_block (RepetitionIndexKernel_nr_repeated_parities k))) ks) = []).
    { intros t. apply concat_map_nil. intros k _. apply labelled_block_cal. }
    rewrite !Hsplit, !Hblocksnone. cbn [app].
    destruct Hcal as (H0 & H1 & H2 & P0 & P1 & P2).
    destruct (cal_getters true (total_len true rounds) (data ++ anc) q) as (G0 & G1 & G2 & G3 & G4 & G5).
    rewrite Hm in G0, G1, G2, G3, G4, G5. cbn [andb dh] in G0, G1, G2, G3, G4, G5.
    cbn [e exp_closed RepetitionExperimentKernel__calibration_kernel] in H0, H1, H2, P0, P1, P2.
    rewrite G0 in H0. rewrite G2 in H1. rewrite G4 in H2. rewrite G1 in P0. rewrite G3 in P1. rewrite G5 in P2.
    rewrite translates_one in H0, H1, H2, P0, P1, P2. cbn [concat app] in H0, H1, H2, P0, P1, P2.
    destruct st; [rewrite H0, P0 | rewrite H1, P1 | rewrite H2, P2];
      cbn [calibration_labelled StateKey_all flat_map app positions_from is_tl fst snd tag_eqb label_eqb StateKey_eqb andb];
      repeat split; repeat (f_equal; try lia).
Qed.

(* ------------------------------------------------------------------ the same, on the bare tag sequence (what the circuit exposes) *)
Definition zero_round_slots (e : RepetitionExperimentKernel) : list Z :=
  concat (map (fun k => if RepetitionIndexKernel_nr_repeated_parities k =? 0 then [RepetitionIndexKernel_stop_index k] else [])
              (RepetitionExperimentKernel__repetition_kernels e)).

Lemma tag_positions rounds data anc q :
  rounds <> [] -> NoDup rounds -> Forall (fun r => 0 <= r) rounds -> is_member q anc = true ->
  exists e, circuit_kernel rounds data anc = Value e
  /\ positions (is_tag THeralded) (multi_round_tags rounds)
     = concat (map (fun n => concat (RepetitionExperimentKernel_get_heralded_cycle_acquisition_indices e q n)) rounds)
       ++ concat (map (RepetitionExperimentKernel_get_heralded_calibration_acquisition_indices e q) StateKey_all)
  /\ positions (is_tag TParity) (multi_round_tags rounds)
     = concat (map (fun n => concat (RepetitionExperimentKernel_get_stabilizer_and_projected_cycle_acquisition_indices e q n)) rounds)
  /\ positions (is_tag TFinal) (multi_round_tags rounds)
     = zero_round_slots e ++ concat (map (RepetitionExperimentKernel_get_projected_calibration_acquisition_indices e q) StateKey_all)
  /\ (forall x, In x (zero_round_slots e) -> ~ In x (cycle_indices e q)).
Proof.
  intros Hne Hnd Hpos Hq.
  pose proof (experiment_kernel_closed rounds true true data anc 1 Hne) as He.
  exists (exp_closed rounds true true data anc 1). split; [exact He|].
  set (e := exp_closed rounds true true data anc 1) in *.
  set (ks := kernels_from true data anc 0 rounds).
  assert (Hm : is_member q (data ++ anc) = true) by (apply existsb_app_r; exact Hq).
  destruct (repetition_translate rounds true true data anc 1 e q He) as (Htr & _ & Hcal & _). cbv beta iota zeta in Htr, Hcal.
  specialize (Htr Hnd).
  (* positions of a tag = blocks against the kernel chain ++ calibration block *)
  assert (Hsplit : forall T, positions (is_tag T) (multi_round_tags rounds)
            = concat (map (fun k => positions_from (is_tag T) (RepetitionIndexKernel_start_index k)
                                      (block_tags (RepetitionIndexKernel_nr_repeated_parities k))) ks)
              ++ positions_from (is_tag T) (total_len true rounds) (map fst calibration_labelled)).
  { intros T. unfold positions, multi_round_tags, multi_round_labelled.
    change (flat_map (fun r => map (fun t => (t, Block r)) (block_tags r)) rounds) with (flat_map labelled_block rounds).
    rewrite map_app, positions_from_app, map_length, (blocks_length rounds Hpos). f_equal.
    rewrite positions_from_map, (blocks_positions _ data anc rounds Hpos 0). f_equal. apply map_ext. intros k.
    unfold labelled_block. rewrite positions_from_map. reflexivity. }
  (* the kernels of the chain *)
  assert (Hk : forall k, In k ks -> exists r s', k = MkRepetitionIndexKernel r true s' data anc /\ 0 <= r).
  { intros k Hin. apply kernels_from_In in Hin. destruct Hin as (r & s' & -> & Hr & _). exists r, s'. split; [reflexivity|].
    rewrite Forall_forall in Hpos. exact (Hpos r Hr). }
  assert (Hrounds : forall (f : Z -> list Z), concat (map f rounds) = concat (map (fun k => f (RepetitionIndexKernel_nr_repeated_parities k)) ks)).
  { intros f. rewrite <- (kernels_from_rounds true data anc 0 rounds) at 1. rewrite map_map. reflexivity. }
  destruct Hcal as (H0 & H1 & H2 & P0 & P1 & P2).
  destruct (cal_getters true (total_len true rounds) (data ++ anc) q) as (G0 & G1 & G2 & G3 & G4 & G5).
  rewrite Hm in G0, G1, G2, G3, G4, G5. cbn [andb dh] in G0, G1, G2, G3, G4, G5.
  cbn [e exp_closed RepetitionExperimentKernel__calibration_kernel] in H0, H1, H2, P0, P1, P2.
  rewrite G0 in H0. rewrite G2 in H1. rewrite G4 in H2. rewrite G1 in P0. rewrite G3 in P1. rewrite G5 in P2.
  rewrite translates_one in H0, H1, H2, P0, P1, P2. cbn [concat app] in H0, H1, H2, P0, P1, P2.
  split; [|split; [|split]].
  - rewrite Hsplit, Hrounds. f_equal.
    + f_equal. apply map_ext_in. intros k Hin. destruct (Hk k Hin) as (r & s' & -> & Hr).
      destruct (Htr _ Hin) as (Hh & _). cbn [RepetitionIndexKernel_nr_repeated_parities RepetitionIndexKernel_start_index] in *.
      rewrite Hh, translates_one. cbn [concat]. rewrite app_nil_r. apply block_heralded. exact Hq.
    + cbn [StateKey_all map concat]. rewrite H0, H1, H2.
      cbn [calibration_labelled StateKey_all flat_map app map fst positions_from is_tag tag_eqb]. repeat (f_equal; try lia).
  - rewrite Hsplit, Hrounds.
    cbn [calibration_labelled StateKey_all flat_map app map fst positions_from is_tag tag_eqb]. rewrite app_nil_r.
    f_equal. apply map_ext_in. intros k Hin. destruct (Hk k Hin) as (r & s' & -> & Hr).
    destruct (Htr _ Hin) as (_ & Hsp & _). cbn [RepetitionIndexKernel_nr_repeated_parities RepetitionIndexKernel_start_index] in *.
    rewrite Hsp, translates_one. cbn [concat]. rewrite app_nil_r. apply block_parity; assumption.
  - rewrite Hsplit. f_equal.
    + unfold zero_round_slots. change (RepetitionExperimentKernel__repetition_kernels e) with ks.
      f_equal. apply map_ext_in. intros k Hin. destruct (Hk k Hin) as (r & s' & -> & Hr).
      cbn [RepetitionIndexKernel_nr_repeated_parities RepetitionIndexKernel_start_index]. apply (block_final data anc q). exact Hr.
    + cbn [StateKey_all map concat]. rewrite P0, P1, P2.
      cbn [calibration_labelled StateKey_all flat_map app map fst positions_from is_tag tag_eqb]. repeat (f_equal; try lia).
  - intros x Hx. unfold zero_round_slots in Hx. change (RepetitionExperimentKernel__repetition_kernels e) with ks in Hx.
    apply in_concat in Hx. destruct Hx as (l & Hl & Hx). apply in_map_iff in Hl. destruct Hl as (k & <- & Hin).
    destruct (Hk k Hin) as (r & s' & -> & Hr). cbn [RepetitionIndexKernel_nr_repeated_parities] in Hx.
    destruct (Z.eqb_spec r 0) as [->|]; [|destruct Hx]. destruct Hx as [<-|[]].
    destruct (rep_kernel_ancilla_zero_gap true s' data anc q Hq) as (_ & _ & _ & Hnot).
    intros Hcy. unfold cycle_indices in Hcy. apply in_app_or in Hcy. destruct Hcy as [Hcy|Hcy].
    + change (RepetitionExperimentKernel__repetition_kernels e) with ks in Hcy.
      apply In_chain_indices in Hcy. destruct Hcy as (k' & Hk' & Hx).
      destruct (Hk k' Hk') as (r' & s'' & -> & _).
      pose proof (incr_in_sub _ _ _ _ (rep_kernel_incr r' true s'' data anc q) Hx) as Hb.
      assert (Heq : MkRepetitionIndexKernel r' true s'' data anc = MkRepetitionIndexKernel 0 true s' data anc).
      { apply (kernels_from_disjoint true data anc rounds 0 _ _ (RepetitionIndexKernel_stop_index (MkRepetitionIndexKernel 0 true s' data anc)) Hk' Hin Hb).
        rewrite rep_stop. cbn [RepetitionIndexKernel_start_index]. pose proof (klen_pos true 0). lia. }
      rewrite Heq in Hx. exact (Hnot Hx).
    + cbn [e exp_closed RepetitionExperimentKernel__calibration_kernel RepetitionExperimentKernel__qutrit_calibration_points] in Hcy.
      pose proof (incr_in_sub _ _ _ _ (cal_kernel_incr true (total_len true rounds) (data ++ anc) q) Hcy) as Hb.
      cbn [QutritCalibrationIndexKernel_start_index] in Hb.
      apply kernels_from_In in Hin. destruct Hin as (r0 & s0 & Heq & _ & _ & Hle). injection Heq as <- <-.
      rewrite rep_stop in Hb. lia.
Qed.

(* ------------------------------------------------------------------ non-vacuity *)
Example example_multi_round :
  multi_round_tags [2; 0; 3]
  = [THeralded; TParity; TParity; THeralded; TFinal; THeralded; TParity; TParity; TParity;
     THeralded; TFinal; THeralded; TFinal; THeralded; TFinal]
  /\ exists e, circuit_kernel [2; 0; 3] [0; 2; 4] [1; 3] = Value e
     /\ RepetitionExperimentKernel_kernel_cycle_length e = 15
     /\ positions (is_tag TParity) (multi_round_tags [2; 0; 3]) = [1; 2; 6; 7; 8]
     /\ RepetitionExperimentKernel_get_stabilizer_and_projected_cycle_acquisition_indices e 1 3 = [[6; 7; 8]]
     /\ zero_round_slots e = [4]
     /\ positions (is_tag TFinal) (multi_round_tags [2; 0; 3]) = [4; 10; 12; 14].
Proof. split; [reflexivity|]. eexists. split; [reflexivity|]. vm_compute. repeat split; reflexivity. Qed.

Example example_hypotheses13 : [2; 0; 3] <> [] /\ NoDup [2; 0; 3] /\ Forall (fun r => 0 <= r) [2; 0; 3] /\ is_member 1 [1; 3] = true.
Proof.
  split; [discriminate|]. split; [repeat constructor; cbn [In]; lia|]. split; [repeat constructor; lia|]. reflexivity.
Qed.
