(* Case evaluation for the C13 correspondence run.  A case = one constructed multi-round circuit: for every ancilla the sequence of
   (acquisition tag, acquisition index) of its measurements in circuit order, the answers of get_acquisition_indices(AcquisitionTag),
   and the outputs of the RepetitionExperimentKernel getters (experiment_repetitions = 1).
     agree   : the tag sequence is multi_round_tags (C13/Model.v) and the kernel outputs are those of the C12 model;
     spec_ok : the circuit's indices against the kernel's indices directly (no model function). *)
From Coq Require Import ZArith List Bool.
Import ListNotations.
From QCE Require Import Base.Prelude C12.Model C13.Model.
From Gen Require Import Kernels.
Open Scope Z_scope.

Record aobs := MkAobs {
  a_q : Z;                                (* circuit index of the ancilla *)
  a_seq : list (tag * Z);                 (* its measurements in circuit order: tag, acquisition_index *)
  a_bytag : list (list Z);                (* get_acquisition_indices(AcquisitionTag(q, t)) for t = heralded, parity, final *)
  a_her : list (list Z);                  (* per n in rounds: get_heralded_cycle_acquisition_indices(q, n), its single row *)
  a_sp : list (list Z);                   (* get_stabilizer_and_projected_cycle_acquisition_indices *)
  a_proj : list (list Z);                 (* get_projected_cycle_acquisition_indices *)
  a_cal_her : list (list Z);              (* per StateKey *)
  a_cal_proj : list (list Z) }.

Inductive case :=
| CCirc (rounds data anc : list Z) (L : Z) (obs : list aobs)
| CFail (rounds data anc : list Z) (e : err).

Definition lz_eqb := list_eqb Z.eqb.
Definition mat_eqb := list_eqb lz_eqb.

Definition tag_indices (t : tag) (seq : list (tag * Z)) : list Z := map snd (filter (fun p => tag_eqb (fst p) t) seq).

(* ------------------------------------------------------------------ model side *)
Definition aobs_agree (rounds : list Z) (e : RepetitionExperimentKernel) (o : aobs) : bool :=
  let q := a_q o in
  list_eqb tag_eqb (map fst (a_seq o)) (multi_round_tags rounds)
  && mat_eqb (a_her o) (map (fun n => concat (RepetitionExperimentKernel_get_heralded_cycle_acquisition_indices e q n)) rounds)
  && mat_eqb (a_sp o) (map (fun n => concat (RepetitionExperimentKernel_get_stabilizer_and_projected_cycle_acquisition_indices e q n)) rounds)
  && mat_eqb (a_proj o) (map (fun n => concat (RepetitionExperimentKernel_get_projected_cycle_acquisition_indices e q n)) rounds)
  && mat_eqb (a_cal_her o) (map (RepetitionExperimentKernel_get_heralded_calibration_acquisition_indices e q) StateKey_all)
  && mat_eqb (a_cal_proj o) (map (RepetitionExperimentKernel_get_projected_calibration_acquisition_indices e q) StateKey_all).

Definition agree (c : case) : bool :=
  match c with
  | CCirc rounds data anc L obs =>
      match circuit_kernel rounds data anc with
      | Raised _ => false
      | Value e => (L =? RepetitionExperimentKernel_kernel_cycle_length e) && forallb (aobs_agree rounds e) obs
                   && lz_eqb (map a_q obs) anc
      end
  | CFail rounds data anc er =>
      match circuit_kernel rounds data anc with Raised e' => err_eqb er e' | Value _ => false end
  end.

(* ------------------------------------------------------------------ specification side (implementation values only) *)
Fixpoint map2 {A B C} (f : A -> B -> C) (l1 : list A) (l2 : list B) : list C :=
  match l1, l2 with x :: t1, y :: t2 => f x y :: map2 f t1 t2 | _, _ => [] end.

Definition aobs_ok (rounds : list Z) (L : Z) (o : aobs) : bool :=
  let seq := a_seq o in
  let n := Z.of_nat (length seq) in
  let nr := length rounds in
  (* the kernel reports nothing for the single 'final' measurement of a 0-round block: it sits right after that block's heralded one *)
  let gap := concat (map2 (fun r her => if r =? 0 then map Z.succ her else []) rounds (a_her o)) in
  let reported := concat (a_her o) ++ concat (a_sp o) ++ concat (a_proj o) ++ concat (a_cal_her o) ++ concat (a_cal_proj o) in
  lz_eqb (map snd seq) (zrange 0 n)                               (* acquisition indices count the ancilla's measurements in order *)
  && (n =? L)                                                     (* acquisitions per ancilla = kernel cycle length *)
  && mat_eqb (a_bytag o) [tag_indices THeralded seq; tag_indices TParity seq; tag_indices TFinal seq]
  && (length (a_her o) =? nr)%nat && (length (a_sp o) =? nr)%nat && (length (a_proj o) =? nr)%nat
  && (length (a_cal_her o) =? 3)%nat && (length (a_cal_proj o) =? 3)%nat
  && lz_eqb (tag_indices THeralded seq) (concat (a_her o) ++ concat (a_cal_her o))     (* heralded = kernel heralded (+ calibration) *)
  && lz_eqb (tag_indices TParity seq) (concat (a_sp o))                                (* parity = stabilizer and projected *)
  && lz_eqb (tag_indices TFinal seq) (gap ++ concat (a_cal_proj o))                    (* final = calibration, + the 0-round exception *)
  && forallb (fun g => negb (existsb (Z.eqb g) reported)) gap
  && mat_eqb (a_proj o) (map2 (fun r sp => if r =? 0 then [] else [last sp (-1)]) rounds (a_sp o)).  (* projected = last parity round *)

Definition spec_ok (c : case) : bool :=
  match c with
  | CCirc rounds data anc L obs => negb (match obs with [] => true | _ => false end) && forallb (aobs_ok rounds L) obs
  | CFail rounds data anc er => match rounds with [] => true | _ => false end    (* malformed stream only; a proper input must build *)
  end.
