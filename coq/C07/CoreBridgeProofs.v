(* C07 x Core — proofs.
   1. F20: the clause "per qubit the indices increase with start time for implicitly sequenced circuits free of channel
      overlaps" is refuted on the Core model (a concrete implicit program, evaluated).
   2. What IS guaranteed: a measurement that is a relation-ancestor of another one (same graph: the circuit or any listed
      sub-circuit) is listed first, hence has the smaller index; if the links on the path are FOLLOWED_BY / multi-links (the
      only ones an implicit program creates) and listed durations are non-negative, it also ends before the other starts.
   Built on C01 (node_times_equations = C01_equations), C02 (bfs_depth_sorted = C02_bfs_depth_sorted, listing_op_blocks =
   C02_truncation.1), C04 (ext_of_sign) and the C07 scan theorem (acq_scan_spec = C07_acq_scan_spec). *)
From Coq Require Import ZArith List Bool Lia ZifyBool Arith.
Import ListNotations.
From QCE Require Import Base.Prelude Core.Model Core.Run Core.BfsProofs Core.BfsWf Core.TimesProofs Core.TimesListing Core.TimesWf.
From QCE Require C01.Proofs C02.Proofs C04.Proofs.
From QCE Require Import C07.Model C07.Proofs C07.CoreBridge.
From Gen Require Import Ident Classes.
Open Scope Z_scope.

(* ================================================================== 1. the refutation (F20) *)
Lemma f20_rows : core_acq f20_env f20_prog =
  [ {| a_qubit := 0; a_uid := 2; a_index := 0; a_start := 804 |}; {| a_qubit := 0; a_uid := 8; a_index := 1; a_start := 36 |} ].
Proof. vm_compute. reflexivity. Qed.

(* the listing (label, start, end): relation depth first -- the first measurement (label 2) is listed before the second branch *)
Example f20_listing : map (fun e => (l_lab (e_leaf e), e_start e, e_end e)) (core_entries f20_env f20_prog) =
  [(0, 0, 800); (3, 0, 8); (1, 800, 804); (4, 8, 16); (2, 804, 820); (5, 16, 24); (6, 24, 32); (7, 32, 36); (8, 36, 52)].
Proof. vm_compute. reflexivity. Qed.

Example f20_durations_nonneg : forall d, In d (prog_durs f20_env f20_prog) -> 0 <= d.
Proof.
  assert (H : nonneg_durs f20_env f20_prog = true) by (vm_compute; reflexivity).
  unfold nonneg_durs in H. rewrite forallb_forall in H. intros d Hd. specialize (H d Hd). lia.
Qed.

Theorem core_time_order_refuted :
  exists env prog,
    implicit_prog prog = true /\ nonneg_durs env prog = true /\
    overlap_freeb (core_entries env prog) = true /\
    NoDup (uids (core_items env prog)) /\
    exists r1 r2, In r1 (core_acq env prog) /\ In r2 (core_acq env prog) /\
      a_qubit r1 = a_qubit r2 /\ 0 <= a_index r1 < a_index r2 /\ a_start r1 > a_start r2.
Proof.
  exists f20_env, f20_prog.
  split; [vm_compute; reflexivity|]. split; [vm_compute; reflexivity|]. split; [vm_compute; reflexivity|]. split.
  - assert (E : uids (core_items f20_env f20_prog) = [2; 8]) by (vm_compute; reflexivity). rewrite E.
    constructor; [simpl; intuition lia|]. constructor; [simpl; tauto | constructor].
  - rewrite f20_rows. eexists _, _. split; [left; reflexivity|]. split; [right; left; reflexivity|]. cbn. lia.
Qed.

(* what the two booleans of the statement mean *)
Lemma implicit_prog_spec p : implicit_prog p = true <-> forall c, In c p -> exists l, c = CAdd l None.
Proof.
  unfold implicit_prog. rewrite forallb_forall. split; intros H c Hc; specialize (H c Hc).
  - destruct c as [l [r|] | l t | r body]; try discriminate. eauto.
  - destruct H as (l & ->). reflexivity.
Qed.

Lemma overlap_freeb_spec es : overlap_freeb es = true ->
  forall x y, before es x y -> share_channel (e_leaf x) (e_leaf y) = true -> e_end x <= e_start y \/ e_end y <= e_start x.
Proof.
  induction es as [|a t IH]; intros H x y B S.
  - destruct B as (l1 & l2 & l3 & E). destruct l1; discriminate.
  - cbn [overlap_freeb] in H. apply andb_true_iff in H as [H1 H2]. apply before_cons_inv in B as [[-> Hy] | B].
    + rewrite forallb_forall in H1. specialize (H1 y Hy). unfold clashb, disjointb in H1. rewrite S in H1. lia.
    + exact (IH H2 x y B S).
Qed.

(* ================================================================== 2. the scan: listed first = smaller index *)
Lemma qindex_before l q t1 u1 t2 u2 : NoDup (uids l) -> before l (Meas q t1 u1) (Meas q t2 u2) ->
  0 <= qindex l u1 < qindex l u2.
Proof.
  intros Hnd (a & b & c & E). subst l. unfold qindex.
  rewrite (acq_scan_spec _ _ _ _ _ Hnd). cbn [fst].
  assert (E2 : a ++ Meas q t1 u1 :: b ++ Meas q t2 u2 :: c = (a ++ Meas q t1 u1 :: b) ++ Meas q t2 u2 :: c)
    by (rewrite <- app_assoc; reflexivity).
  rewrite E2 in Hnd |- *. rewrite (acq_scan_spec _ _ _ _ _ Hnd). cbn [fst].
  unfold count_q. rewrite count_sel_app, count_sel_meas, Z.eqb_refl.
  pose proof (count_sel_nonneg (fun q' _ => q' =? q) a). pose proof (count_sel_nonneg (fun q' _ => q' =? q) b). lia.
Qed.

Lemma item_of_meas l q tg : l_acq l = Some (q, tg) -> item_of_leaf l = Meas q tg (l_lab l).
Proof. intros E. unfold item_of_leaf. rewrite E. reflexivity. Qed.

Lemma items_of_entries_map es : items_of_entries es = map (fun e => item_of_leaf (e_leaf e)) es.
Proof. unfold items_of_entries, items_of_listing. apply map_map. Qed.

Lemma before_items es x y : before es x y -> before (items_of_entries es) (item_of_leaf (e_leaf x)) (item_of_leaf (e_leaf y)).
Proof. intros B. rewrite items_of_entries_map. exact (before_map (fun e => item_of_leaf (e_leaf e)) es x y B). Qed.

Lemma acq_rows_in es e q tg : In e es -> l_acq (e_leaf e) = Some (q, tg) ->
  In {| a_qubit := q; a_uid := l_lab (e_leaf e); a_index := qindex (items_of_entries es) (l_lab (e_leaf e)); a_start := e_start e |}
     (acq_rows es).
Proof.
  intros Hin E. unfold acq_rows. apply in_flat_map. exists e. split; [exact Hin|]. rewrite E. left. reflexivity.
Qed.

(* ================================================================== 3. relation ancestors in one graph *)
(* b is reached from a by following child links (Core.Model.children: the nodes whose parent pointer is a) *)
Inductive anc (ps : list (option nat)) : nat -> nat -> Prop :=
| anc_child a b : In b (children ps (Some a)) -> anc ps a b
| anc_step a m b : anc ps a m -> In b (children ps (Some m)) -> anc ps a b.

(* ... through links that place the child at (or after) the end of its parent: FOLLOWED_BY and multi-links *)
Definition follow_link (l : link) : bool :=
  match l with LRel RelationType_FOLLOWED_BY _ => true | LMulti (_ :: _) => true | _ => false end.
Definition follow_child (ns : list node) (a b : nat) : Prop :=
  In b (children (parents ns) (Some a)) /\ exists n, nth_error ns b = Some n /\ follow_link (n_link n) = true.
Inductive follows (ns : list node) : nat -> nat -> Prop :=
| follows_child a b : follow_child ns a b -> follows ns a b
| follows_step a m b : follows ns a m -> follow_child ns m b -> follows ns a b.

Lemma follows_anc ns a b : follows ns a b -> anc (parents ns) a b.
Proof. induction 1 as [a b [H _] | a m b _ IH [H _]]; [apply anc_child; exact H | eapply anc_step; eassumption]. Qed.

Lemma anc_lt ps a b : wf_parents ps -> anc ps a b -> (a < b)%nat.
Proof.
  intros W H. induction H as [a b H | a m b _ IH H]; apply children_spec in H; apply W in H; lia.
Qed.

Lemma anc_depth ps a b : wf_parents ps -> anc ps a b -> (depth ps a < depth ps b)%nat.
Proof.
  intros W H. induction H as [a b H | a m b _ IH H]; apply children_spec in H; rewrite (depth_child _ _ _ W H); lia.
Qed.

Lemma anc_listed ps a b : wf_parents ps -> anc ps a b -> In b (bfs ps) -> In a (bfs ps).
Proof.
  intros W H Hb. pose proof (anc_lt _ _ _ W H). pose proof (anc_depth _ _ _ W H).
  apply (bfs_In _ _ W) in Hb. apply (bfs_In _ _ W). lia.
Qed.

(* the layered listing puts every ancestor first (C02_bfs_depth_sorted) *)
Lemma anc_before_bfs ps a b : wf_parents ps -> anc ps a b -> In b (bfs ps) -> before (bfs ps) a b.
Proof.
  intros W H Hb. pose proof (anc_listed _ _ _ W H Hb) as Ha. pose proof (anc_depth _ _ _ W H) as D.
  destruct (before_total _ a b Ha Hb) as [B | B]; [intros ->; lia | exact B |].
  unfold bfs in B. apply (bfs_depth_sorted _ _ _ _ W) in B. lia.
Qed.

(* ------------------------------------------------------------------ times along the path (C01_equations) *)
Lemma dur_of_nonneg env o : (forall l, o = OLeaf l -> 0 <= resolve env (l_dur l)) -> 0 <= dur_of env o.
Proof.
  intros H. pose proof (C04.Proofs.ext_of_sign env o H) as S. unfold dur_of. destruct (ext_of env o) as [lo hi]. simpl in S. lia.
Qed.

Lemma follow_child_parent ns a b : follow_child ns a b -> exists n, nth_error ns b = Some n /\ n_parent n = Some a /\ follow_link (n_link n) = true.
Proof.
  intros [H (n & En & F)]. exists n. split; [exact En|]. split; [|exact F].
  apply children_spec in H. rewrite parents_nth_error, En in H. simpl in H. congruence.
Qed.

Lemma follow_child_time env c ns a b : wf_nodes ns -> follow_child ns a b ->
  snd (nth a (node_times env c ns) (0, 0)) <= fst (nth b (node_times env c ns) (0, 0)).
Proof.
  intros W H. destruct (follow_child_parent _ _ _ H) as (n & En & Hp & F).
  pose proof (C01.Proofs.node_times_equations env c ns (wf_node_links_hs env ns (wf_nodes_node_links ns W)) b n En) as [_ Q].
  pose proof (proj2 W b n En) as L. unfold link_ok in L.
  destruct (n_link n) as [|t p|qs|t] eqn:K; simpl in F; try discriminate.
  - destruct t; try discriminate. destruct L as [L _]. assert (p = a) by congruence. subst p. simpl in Q. lia.
  - destruct qs as [|q0 qs]; [discriminate|]. destruct L as [(p & L & Hin) _]. assert (p = a) by congruence. subst p.
    simpl in Q. destruct Q as (m & Hm & ->). exact (proj2 (multi_first_latest_max _ _ _ Hm) a Hin).
Qed.

Definition listed_nonneg (env : denv) (ns : list node) : Prop :=
  forall m n l, In m (bfs (parents ns)) -> nth_error ns m = Some n -> n_op n = OLeaf l -> 0 <= resolve env (l_dur l).

Lemma row_span env c ns m n : wf_nodes ns -> nth_error ns m = Some n ->
  snd (nth m (node_times env c ns) (0, 0)) = fst (nth m (node_times env c ns) (0, 0)) + dur_of env (n_op n).
Proof.
  intros W En.
  exact (proj1 (C01.Proofs.node_times_equations env c ns (wf_node_links_hs env ns (wf_nodes_node_links ns W)) m n En)).
Qed.

Lemma follows_time env c ns a b : wf_nodes ns -> listed_nonneg env ns -> follows ns a b -> In b (bfs (parents ns)) ->
  snd (nth a (node_times env c ns) (0, 0)) <= fst (nth b (node_times env c ns) (0, 0)).
Proof.
  intros W N H. induction H as [a b H | a m b Ham IH H]; intros Hb; [exact (follow_child_time env c ns a b W H)|].
  pose proof (follow_child_time env c ns m b W H) as T2.
  assert (Hm : In m (bfs (parents ns))).
  { destruct H as [H _]. apply children_spec in H. unfold bfs in *. exact (bfs_fuel_parent_listed _ _ _ _ (proj1 W) H Hb). }
  specialize (IH Hm).
  assert (Em : exists nm, nth_error ns m = Some nm).
  { destruct Ham as [? ? F | ? ? ? _ F]; destruct F as [_ (nm & E & _)]; eauto. }
  destruct Em as (nm & Em). pose proof (row_span env c ns m nm W Em) as Sp.
  assert (0 <= dur_of env (n_op nm)) by (apply dur_of_nonneg; intros l K; exact (N m nm l Hm Em K)).
  lia.
Qed.

(* ------------------------------------------------------------------ entries of leaf nodes in the listing of their graph *)
Definition entry_at (l : leaf) (se : Z * Z) : entry := {| e_leaf := l; e_start := fst se; e_end := snd se |}.

Lemma node_entries_leaf_eq env c ns i n l : nth_error ns i = Some n -> n_op n = OLeaf l ->
  C02.Proofs.node_entries env c ns i = [entry_at l (nth i (node_times env c ns) (0, 0))].
Proof. intros E K. rewrite C02.Proofs.node_entries_at. unfold C02.Proofs.at_node. rewrite E, K. reflexivity. Qed.

Lemma leaf_entry_listed env r ns c se i n l : nth_error ns i = Some n -> n_op n = OLeaf l -> In i (bfs (parents ns)) ->
  In (entry_at l (nth i (node_times env c ns) (0, 0))) (listing_op env (OComp r ns) c se).
Proof.
  intros E K Hi. rewrite C02.Proofs.listing_op_blocks. apply in_flat_map. exists i. split; [exact Hi|].
  rewrite (node_entries_leaf_eq env c ns i n l E K). left. reflexivity.
Qed.

Lemma before_leaf_entries env r ns c se a b na nb la lb :
  nth_error ns a = Some na -> n_op na = OLeaf la -> nth_error ns b = Some nb -> n_op nb = OLeaf lb ->
  before (bfs (parents ns)) a b ->
  before (listing_op env (OComp r ns) c se)
         (entry_at la (nth a (node_times env c ns) (0, 0))) (entry_at lb (nth b (node_times env c ns) (0, 0))).
Proof.
  intros Ea Ka Eb Kb B. rewrite C02.Proofs.listing_op_blocks.
  destruct (before_flat_map (C02.Proofs.node_entries env c ns) _ _ _ B) as (m1 & m2 & m3 & E).
  rewrite (node_entries_leaf_eq env c ns a na la Ea Ka), (node_entries_leaf_eq env c ns b nb lb Eb Kb) in E.
  exists m1, m2, m3. exact E.
Qed.

(* ------------------------------------------------------------------ the graphs met while listing: the circuit and, recursively,
   every sub-circuit held by a LISTED node, each in the context handed down to it (a sub-relation of C01's table_of) *)
Inductive listed_table (env : denv) : ctx -> list node -> ctx -> list node -> Prop :=
| lt_here c ns : listed_table env c ns c ns
| lt_sub c ns i p l r sub c' ns' :
    nth_error ns i = Some (Node p l (OComp r sub)) -> In i (bfs (parents ns)) ->
    listed_table env (sub_ctx c (node_times env c ns) l) sub c' ns' ->
    listed_table env c ns c' ns'.

Lemma listed_table_table_of env c ns c' ns' : listed_table env c ns c' ns' -> C01.Proofs.table_of env c ns c' ns'.
Proof. induction 1; [constructor | econstructor; eassumption]. Qed.

Lemma listed_table_wf env c ns c' ns' : listed_table env c ns c' ns' -> forall r, wf_op (OComp r ns) -> wf_nodes ns'.
Proof.
  induction 1 as [c ns | c ns i p l r0 sub c' ns' E Hi T IH]; intros r W; apply wf_op_comp_inv in W as [W WD]; [exact W|].
  rewrite Forall_forall in WD. apply nth_error_In in E. exact (IH r0 (WD _ E)).
Qed.

(* the listing of such a graph is a contiguous part of the listing of the circuit *)
Lemma listed_table_sublisting env c ns c' ns' : listed_table env c ns c' ns' -> forall r se r' se',
  exists l1 l3, listing_op env (OComp r ns) c se = l1 ++ listing_op env (OComp r' ns') c' se' ++ l3.
Proof.
  induction 1 as [c ns | c ns i p l r0 sub c' ns' E Hi T IH]; intros r se r' se'.
  - exists [], []. rewrite app_nil_r. reflexivity.
  - rewrite C02.Proofs.listing_op_blocks. apply in_split in Hi as (b1 & b2 & Eb). rewrite Eb, flat_map_app. cbn [flat_map].
    assert (En : C02.Proofs.node_entries env c ns i
                 = listing_op env (OComp r0 sub) (sub_ctx c (node_times env c ns) l) (nth i (node_times env c ns) (0, 0))).
    { rewrite C02.Proofs.node_entries_at. unfold C02.Proofs.at_node. rewrite E. reflexivity. }
    rewrite En. destruct (IH r0 (nth i (node_times env c ns) (0, 0)) r' se') as (l1 & l3 & ->).
    exists (flat_map (C02.Proofs.node_entries env c ns) b1 ++ l1), (l3 ++ flat_map (C02.Proofs.node_entries env c ns) b2).
    rewrite <- !app_assoc. reflexivity.
Qed.

Lemma before_sublisting {A} (l l1 m l3 : list A) x y : l = l1 ++ m ++ l3 -> before m x y -> before l x y.
Proof. intros -> B. apply before_app_l. apply before_app_r. exact B. Qed.

(* ================================================================== 4. the theorem, for any well-formed circuit *)
(* ns: the circuit (wf_op holds for everything the model builds: C02_built_graphs_wellformed); (c', ns'): the circuit itself or a
   listed sub-circuit at any nesting depth; a, b: leaf nodes of ns', b listed (relation depth below the documented limit) *)

(* any relation types on the path: a is listed first and has the smaller index *)
Theorem ancestor_listed_first env ns : wf_op (OComp 1 ns) ->
  let L := listing env ns in
  let items := items_of_entries L in
  forall c' ns', listed_table env None ns c' ns' ->
  forall a b na nb la lb,
    nth_error ns' a = Some na -> n_op na = OLeaf la -> nth_error ns' b = Some nb -> n_op nb = OLeaf lb ->
    In b (bfs (parents ns')) -> anc (parents ns') a b ->
    let ea := entry_at la (nth a (node_times env c' ns') (0, 0)) in
    let eb := entry_at lb (nth b (node_times env c' ns') (0, 0)) in
    before L ea eb /\
    forall q ta tb, l_acq la = Some (q, ta) -> l_acq lb = Some (q, tb) -> NoDup (uids items) ->
      0 <= qindex items (l_lab la) < qindex items (l_lab lb) /\
      In {| a_qubit := q; a_uid := l_lab la; a_index := qindex items (l_lab la); a_start := e_start ea |} (acq_rows L) /\
      In {| a_qubit := q; a_uid := l_lab lb; a_index := qindex items (l_lab lb); a_start := e_start eb |} (acq_rows L).
Proof.
  intros W L items c' ns' T a b na nb la lb Ea Ka Eb Kb Hb H ea eb.
  pose proof (listed_table_wf env None ns c' ns' T 1 W) as W'.
  pose proof (anc_before_bfs _ _ _ (proj1 W') H Hb) as B0.
  pose proof (before_leaf_entries env 1 ns' c' (0, 0) a b na nb la lb Ea Ka Eb Kb B0) as B1.
  destruct (listed_table_sublisting env None ns c' ns' T 1 (0, 0) 1 (0, 0)) as (l1 & l3 & EL).
  assert (B : before L ea eb) by exact (before_sublisting _ _ _ _ _ _ EL B1).
  split; [exact B|]. intros q ta tb Aa Ab Hnd.
  pose proof (before_items L ea eb B) as Bi. cbn [ea eb entry_at e_leaf] in Bi.
  rewrite (item_of_meas la q ta Aa), (item_of_meas lb q tb Ab) in Bi.
  split; [exact (qindex_before items q ta (l_lab la) tb (l_lab lb) Hnd Bi)|].
  destruct (before_In _ _ _ B) as [Ia Ib].
  split; [exact (acq_rows_in L ea q ta Ia Aa) | exact (acq_rows_in L eb q tb Ib Ab)].
Qed.

(* FOLLOWED_BY / multi-links on the path, non-negative durations of what is listed: a ends before b starts *)
Theorem ancestor_time_order env ns : wf_op (OComp 1 ns) ->
  (forall e, In e (listing env ns) -> 0 <= resolve env (l_dur (e_leaf e))) ->
  forall c' ns', listed_table env None ns c' ns' ->
  forall a b na, nth_error ns' a = Some na -> In b (bfs (parents ns')) -> follows ns' a b ->
    let tm := node_times env c' ns' in
    snd (nth a tm (0, 0)) <= fst (nth b tm (0, 0)) /\ fst (nth a tm (0, 0)) <= fst (nth b tm (0, 0)).
Proof.
  intros W N c' ns' T a b na Ea Hb H tm. subst tm.
  pose proof (listed_table_wf env None ns c' ns' T 1 W) as W'.
  destruct (listed_table_sublisting env None ns c' ns' T 1 (0, 0) 1 (0, 0)) as (l1 & l3 & EL).
  assert (N' : listed_nonneg env ns').
  { intros m n l Hm Em Km. apply (N (entry_at l (nth m (node_times env c' ns') (0, 0)))).
    unfold listing. rewrite EL. apply in_or_app. right. apply in_or_app. left.
    exact (leaf_entry_listed env 1 ns' c' (0, 0) m n l Em Km Hm). }
  pose proof (follows_time env c' ns' a b W' N' H Hb) as T1.
  assert (Ha : In a (bfs (parents ns'))) by exact (anc_listed _ _ _ (proj1 W') (follows_anc _ _ _ H) Hb).
  pose proof (row_span env c' ns' a na W' Ea) as Sp.
  assert (0 <= dur_of env (n_op na)) by (apply dur_of_nonneg; intros l K; exact (N' a na l Ha Ea K)).
  lia.
Qed.

Theorem core_ancestor_order env ns : wf_op (OComp 1 ns) ->
  let L := listing env ns in
  let items := items_of_entries L in
  (forall e, In e L -> 0 <= resolve env (l_dur (e_leaf e))) ->
  forall c' ns', listed_table env None ns c' ns' ->
  forall a b na nb la lb,
    nth_error ns' a = Some na -> n_op na = OLeaf la -> nth_error ns' b = Some nb -> n_op nb = OLeaf lb ->
    In b (bfs (parents ns')) -> follows ns' a b ->
    let ea := entry_at la (nth a (node_times env c' ns') (0, 0)) in
    let eb := entry_at lb (nth b (node_times env c' ns') (0, 0)) in
    e_end ea <= e_start eb /\ e_start ea <= e_start eb /\ before L ea eb /\
    forall q ta tb, l_acq la = Some (q, ta) -> l_acq lb = Some (q, tb) -> NoDup (uids items) ->
      0 <= qindex items (l_lab la) < qindex items (l_lab lb) /\
      In {| a_qubit := q; a_uid := l_lab la; a_index := qindex items (l_lab la); a_start := e_start ea |} (acq_rows L) /\
      In {| a_qubit := q; a_uid := l_lab lb; a_index := qindex items (l_lab lb); a_start := e_start eb |} (acq_rows L).
Proof.
  intros W L items N c' ns' T a b na nb la lb Ea Ka Eb Kb Hb F ea eb.
  destruct (ancestor_time_order env ns W N c' ns' T a b na Ea Hb F) as [T1 T2].
  destruct (ancestor_listed_first env ns W c' ns' T a b na nb la lb Ea Ka Eb Kb Hb (follows_anc _ _ _ F)) as [B I].
  split; [exact T1|]. split; [exact T2|]. split; [exact B | exact I].
Qed.

(* ================================================================== 5. build programs *)
Lemma built_wf env p : wf_op (OComp 1 (built env p)).
Proof. unfold built. apply BfsWf.apply_modifiers_wf_op. apply run_prog_wf_op. Qed.

(* ------------------------------------------------------------------ the duration hypothesis from conditions on the program *)
(* C04's conditions: non-negative durations of the added operations and of the class defaults under the settings (copy() of a
   class that does not pass its duration on falls back to the default), no empty sub-circuit *)
Lemma shape_entries_nonneg env o : C04.Proofs.shape_ok env o ->
  forall c se e, In e (listing_op env o c se) -> 0 <= resolve env (l_dur (e_leaf e)).
Proof.
  induction o as [l | r ns IH] using op_nodes_ind; intros S c se e H.
  - apply C01.Proofs.listing_leaf in H. subst e. simpl. inversion S; assumption.
  - apply C01.Proofs.listing_in_inv in H as (i & n & _ & En & H). inversion S as [|? ? _ _ SD]; subst.
    rewrite Forall_forall in IH, SD. apply nth_error_In in En. exact (IH n En (SD n En) _ _ _ H).
Qed.

Theorem program_listed_nonneg env p : C04.Proofs.env_ok env -> p <> [] -> Forall (C04.Proofs.cmd_ok env) p ->
  forall e, In e (core_entries env p) -> 0 <= resolve env (l_dur (e_leaf e)).
Proof.
  intros E N K e H. apply (shape_entries_nonneg env (OComp 1 (built env p))) with (c := None) (se := (0, 0)); [|exact H].
  unfold built, apply_modifiers.
  apply C04.Proofs.apply_mods_fuel_shape; [exact E | apply run_prog_wf_op | apply C04.Proofs.run_prog_shape; assumption].
Qed.

(* flat programs (no sub-circuits): the durations of the added operations suffice, and unrolling changes nothing *)
Definition flat_cmd (c : cmd) : bool := match c with CSub _ _ => false | _ => true end.
Definition flat_prog (p : list cmd) : bool := forallb flat_cmd p.

Lemma run_prog_ops env p : map n_op (run_prog env p) = map (cmd_op env) p.
Proof. unfold run_prog. rewrite run_cmds_ops. reflexivity. Qed.

Lemma flat_nodes_leaf env p : flat_prog p = true -> forall n, In n (run_prog env p) ->
  exists l, n_op n = OLeaf l /\ In (resolve env (l_dur l)) (prog_durs env p).
Proof.
  intros F n Hn. apply (in_map n_op) in Hn. rewrite run_prog_ops in Hn. apply in_map_iff in Hn as (c & Ec & Hc).
  unfold flat_prog in F. rewrite forallb_forall in F. specialize (F c Hc).
  destruct c as [l r | l t | r body]; try discriminate; exists l; (split; [symmetry; exact Ec|]);
    unfold prog_durs; apply in_flat_map; eexists; (split; [exact Hc | left; reflexivity]).
Qed.

Lemma built_flat env p : flat_prog p = true -> built env p = run_prog env p.
Proof.
  intros F. unfold built, apply_modifiers. destruct (op_depth (OComp 1 (run_prog env p))) as [|f] eqn:D; [simpl in D; discriminate|].
  cbn [apply_mods_fuel]. unfold repeat_nodes. change (Z.to_nat (1 - 1)) with 0%nat. cbn [iter_n].
  rewrite <- (map_id (run_prog env p)) at 2. apply map_ext_in. intros n Hn.
  destruct (flat_nodes_leaf env p F n Hn) as (l & K & _). destruct n as [p0 l0 o]. simpl in K. subst o. reflexivity.
Qed.

Theorem flat_listed_nonneg env p : flat_prog p = true -> nonneg_durs env p = true ->
  forall e, In e (core_entries env p) -> 0 <= resolve env (l_dur (e_leaf e)).
Proof.
  intros F N e H. unfold core_entries in H. rewrite (built_flat env p F) in H. unfold listing in H.
  apply C01.Proofs.listing_in_inv in H as (i & n & _ & En & H). apply nth_error_In in En.
  destruct (flat_nodes_leaf env p F n En) as (l & K & Hd). rewrite K in H. apply C01.Proofs.listing_leaf in H. subst e. simpl.
  unfold nonneg_durs in N. rewrite forallb_forall in N. specialize (N _ Hd). lia.
Qed.

(* node i of the graph of a flat program is the operation of command i *)
Lemma flat_node_of_cmd env p i c l : nth_error p i = Some c -> cmd_op env c = OLeaf l ->
  exists n, nth_error (run_prog env p) i = Some n /\ n_op n = OLeaf l.
Proof.
  intros E K. pose proof (f_equal (fun x => nth_error x i) (run_prog_ops env p)) as H. cbn beta in H.
  rewrite !nth_error_map, E in H. destruct (nth_error (run_prog env p) i) as [n|]; [|discriminate].
  exists n. split; [reflexivity|]. simpl in H. congruence.
Qed.

(* ------------------------------------------------------------------ implicit programs: every relation ancestor qualifies *)
Definition impl_link (l : link) : Prop := l = LNone \/ exists i, l = LRel RelationType_FOLLOWED_BY i.

Lemma implicit_flat p : implicit_prog p = true -> flat_prog p = true.
Proof.
  unfold implicit_prog, flat_prog. rewrite !forallb_forall. intros H c Hc. specialize (H c Hc). destruct c as [l [r|] | |]; try discriminate; reflexivity.
Qed.

Lemma implicit_links env cs : forallb implicit_cmd cs = true -> forall ns,
  (forall n, In n ns -> impl_link (n_link n)) -> forall n, In n (run_cmds env cs ns) -> impl_link (n_link n).
Proof.
  induction cs as [|c t IH]; intros F ns H n Hn; [exact (H n Hn)|].
  cbn [forallb] in F. apply andb_true_iff in F as [Fc Ft]. rewrite run_cmds_cons in Hn. refine (IH Ft _ _ n Hn).
  destruct c as [l [r|] | |]; try discriminate. cbn [cmd_op cmd_link].
  rewrite (C01.Proofs.add_node_implicit env ns (OLeaf l) LNone I). intros m Hm. apply in_app_or in Hm as [Hm | [<- | []]]; [exact (H m Hm)|].
  unfold C01.Proofs.implicit_node. destruct (leaf_at_any ns (op_channels (OLeaf l))) as [i|]; [right; exists i|left]; reflexivity.
Qed.

Lemma implicit_anc_follows env p a b : implicit_prog p = true ->
  anc (parents (run_prog env p)) a b -> follows (run_prog env p) a b.
Proof.
  intros F H. pose proof (run_prog_wf env p) as W.
  assert (Step : forall m b, In b (children (parents (run_prog env p)) (Some m)) -> follow_child (run_prog env p) m b).
  { intros m b' Hc. split; [exact Hc|]. apply children_spec in Hc. rewrite parents_nth_error in Hc.
    destruct (nth_error (run_prog env p) b') as [n|] eqn:En; [|discriminate]. simpl in Hc. exists n. split; [reflexivity|].
    assert (L : impl_link (n_link n)).
    { apply (implicit_links env p F [] (fun n H => match H with end)). eapply nth_error_In. exact En. }
    pose proof (proj2 W b' n En) as Lk. unfold link_ok in Lk. destruct L as [L | (i & L)]; rewrite L in *; [congruence | reflexivity]. }
  induction H as [a b H | a m b _ IH H]; [apply follows_child | eapply follows_step; [exact IH|]]; apply Step; exact H.
Qed.

(* at most 4999 commands: everything is listed *)
Lemma small_prog_listed env p b : Z.of_nat (length p) <= 4999 -> (b < length p)%nat -> In b (bfs (parents (run_prog env p))).
Proof.
  intros S Hb. assert (Len : length (parents (run_prog env p)) = length p).
  { rewrite parents_length. unfold run_prog. rewrite run_cmds_length. reflexivity. }
  pose proof (bfs_perm_length (parents (run_prog env p)) (proj1 (run_prog_wf env p))) as P. rewrite Len in P. specialize (P S).
  apply (Permutation.Permutation_in _ (Permutation.Permutation_sym P)). apply in_seq. lia.
Qed.

Theorem implicit_ancestor_order env p : implicit_prog p = true -> nonneg_durs env p = true ->
  let ns := run_prog env p in
  built env p = ns /\
  forall a b la lb, nth_error p a = Some (CAdd la None) -> nth_error p b = Some (CAdd lb None) ->
    In b (bfs (parents ns)) -> anc (parents ns) a b ->
    let ea := entry_at la (nth a (node_times env None ns) (0, 0)) in
    let eb := entry_at lb (nth b (node_times env None ns) (0, 0)) in
    e_end ea <= e_start eb /\ e_start ea <= e_start eb /\ before (core_entries env p) ea eb /\
    forall q ta tb, l_acq la = Some (q, ta) -> l_acq lb = Some (q, tb) -> NoDup (uids (core_items env p)) ->
      0 <= qindex (core_items env p) (l_lab la) < qindex (core_items env p) (l_lab lb) /\
      In {| a_qubit := q; a_uid := l_lab la; a_index := qindex (core_items env p) (l_lab la); a_start := e_start ea |} (core_acq env p) /\
      In {| a_qubit := q; a_uid := l_lab lb; a_index := qindex (core_items env p) (l_lab lb); a_start := e_start eb |} (core_acq env p).
Proof.
  intros F N ns. pose proof (implicit_flat p F) as Fl. pose proof (built_flat env p Fl) as Eb. split; [exact Eb|].
  intros a b la lb Ca Cb Hb H ea eb.
  destruct (flat_node_of_cmd env p a _ la Ca eq_refl) as (na & Ea & Ka).
  destruct (flat_node_of_cmd env p b _ lb Cb eq_refl) as (nb & Eb' & Kb).
  pose proof (core_ancestor_order env (built env p) (built_wf env p) (flat_listed_nonneg env p Fl N) None (built env p)
                (lt_here env None (built env p))) as R.
  unfold core_acq, core_items, core_entries. rewrite Eb in *.
  exact (R a b na nb la lb Ea Ka Eb' Kb Hb (implicit_anc_follows env p a b F H)).
Qed.

(* ================================================================== 6. the hypotheses are satisfiable: a nested example *)
(* Wait q1; a sub-circuit [M q0; Wait q0; M q0 FOLLOWED_BY the wait; M q1 JOINED_START the wait]; M q0.  The sub-circuit is
   placed after the wait on q1 (it holds a q1 channel); inside it measurement 1 is a FOLLOWED_BY-ancestor of measurement 3 *)
Definition ex_prog : list cmd :=
  [ CAdd (f20_wait 0 1 24) None;
    CSub 1 [ CAdd (f20_meas 1 0 0) None; CAdd (f20_wait 2 0 8) None;
             CAdd (f20_meas 3 0 1) (Some (RelationType_FOLLOWED_BY, 1%nat)); CAdd (f20_meas 5 1 0) (Some (RelationType_JOINED_START, 1%nat)) ];
    CAdd (f20_meas 4 0 0) None ].
Definition ex_built : list node := Eval vm_compute in built f20_env ex_prog.
Definition ex_sub : list node := match nth 1 ex_built (Node None LNone (OComp 1 [])) with Node _ _ (OComp _ s) => s | _ => [] end.
Definition ex_ctx : ctx := Some (RelationType_FOLLOWED_BY, 0, 24).

Example ex_hypotheses :
  listed_table f20_env None (built f20_env ex_prog) ex_ctx ex_sub /\
  follows ex_sub 0 2 /\ In 2%nat (bfs (parents ex_sub)) /\
  (exists na nb, nth_error ex_sub 0 = Some na /\ n_op na = OLeaf (f20_meas 1 0 0) /\
                 nth_error ex_sub 2 = Some nb /\ n_op nb = OLeaf (f20_meas 3 0 1)) /\
  (forall e, In e (core_entries f20_env ex_prog) -> 0 <= resolve f20_env (l_dur (e_leaf e))) /\
  NoDup (uids (core_items f20_env ex_prog)).
Proof.
  assert (EB : built f20_env ex_prog = ex_built) by (vm_compute; reflexivity).
  split; [|split; [|split; [|split; [|split]]]].
  - rewrite EB. eapply lt_sub with (i := 1%nat); [reflexivity | vm_compute; tauto |].
    assert (EC : sub_ctx None (node_times f20_env None ex_built) (LRel RelationType_FOLLOWED_BY 0) = ex_ctx) by (vm_compute; reflexivity).
    rewrite EC. apply lt_here.
  - eapply follows_step; [apply follows_child|]; (split; [vm_compute; tauto | eexists; split; [reflexivity | reflexivity]]).
  - vm_compute. tauto.
  - eexists _, _. repeat split.
  - assert (H : forallb (fun e => 0 <=? resolve f20_env (l_dur (e_leaf e))) (core_entries f20_env ex_prog) = true) by (vm_compute; reflexivity).
    rewrite forallb_forall in H. intros e He. specialize (H e He). lia.
  - assert (E : uids (core_items f20_env ex_prog) = [1; 3; 5; 4]) by (vm_compute; reflexivity). rewrite E.
    repeat constructor; simpl; intuition lia.
Qed.

(* ... and what the theorem then says, evaluated: indices 0 < 1, start 24 (end 40) <= start 48 *)
Example ex_rows : core_acq f20_env ex_prog =
  [ {| a_qubit := 0; a_uid := 1; a_index := 0; a_start := 24 |}; {| a_qubit := 0; a_uid := 3; a_index := 1; a_start := 48 |};
    {| a_qubit := 1; a_uid := 5; a_index := 0; a_start := 40 |}; {| a_qubit := 0; a_uid := 4; a_index := 2; a_start := 64 |} ].
Proof. vm_compute. reflexivity. Qed.

(* F20 again: its two measurements are NOT related by ancestry (the second hangs below the q2 branch), which is why no order is
   guaranteed for them; within each branch the theorem applies *)
Example f20_not_ancestor : implicit_prog f20_prog = true /\
  map n_parent (run_prog f20_env f20_prog) = [None; Some 0; Some 1; None; Some 3; Some 4; Some 5; Some 6; Some 7]%nat.
Proof. split; vm_compute; reflexivity. Qed.

(* ================================================================== 7. a sufficient condition for ALL pairs: one chain *)
(* an implicit program in which every operation (from the second on) shares a channel with the operation added just before it:
   the relation graph is a single chain (each operation FOLLOWED_BY its predecessor), so any two operations are related by
   ancestry and the order of indices, of insertion and of start times coincide *)
Fixpoint chained (prev : option leaf) (p : list cmd) : bool :=
  match p with
  | [] => true
  | CAdd l None :: t =>
      match prev with None => true | Some l0 => any_match (l_chans l) (l_chans l0) end && chained (Some l) t
  | _ => false
  end.

Lemma chained_implicit prev p : chained prev p = true -> implicit_prog p = true.
Proof.
  revert prev. induction p as [|c t IH]; intros prev H; [reflexivity|].
  destruct c as [l [r|] | |]; try discriminate. cbn [chained] in H. apply andb_true_iff in H as [_ H].
  unfold implicit_prog. cbn [forallb implicit_cmd]. exact (IH _ H).
Qed.

Lemma chain_parents_S n : C02.Proofs.chain_parents (S n) = C02.Proofs.chain_parents n ++ [match n with O => None | S k => Some k end].
Proof. unfold C02.Proofs.chain_parents. rewrite seq_S, map_app. reflexivity. Qed.

Definition chain_state (ns : list node) (prev : option leaf) : Prop :=
  parents ns = C02.Proofs.chain_parents (length ns) /\
  match prev with None => ns = [] | Some l0 => exists ns0 n, ns = ns0 ++ [n] /\ n_op n = OLeaf l0 end.

Lemma chain_add env ns prev l : chain_state ns prev -> Z.of_nat (length ns) < 4999 ->
  match prev with None => True | Some l0 => any_match (l_chans l) (l_chans l0) = true end ->
  chain_state (add_node env ns (OLeaf l) LNone) (Some l).
Proof.
  intros [P S] Len M. rewrite (C01.Proofs.add_node_implicit env ns (OLeaf l) LNone I). unfold C01.Proofs.implicit_node.
  assert (Wp : wf_parents (parents ns)) by (rewrite P; apply C02.Proofs.chain_wf).
  split; [|exists ns; eexists; split; [reflexivity|]; destruct (leaf_at_any ns (op_channels (OLeaf l))); reflexivity].
  rewrite app_length, Nat.add_1_r, chain_parents_S, parents_app, P. f_equal.
  destruct prev as [l0|].
  - destruct S as (ns0 & n & -> & K). rewrite app_length, Nat.add_1_r in *. cbn [length].
    set (k := length ns0) in *.
    assert (Hk : In k (bfs (parents (ns0 ++ [n])))).
    { rewrite P. apply C02.Proofs.chain_listed. lia. }
    assert (Ck : node_chans (ns0 ++ [n]) k = l_chans l0).
    { unfold node_chans. rewrite map_app, app_nth2 by (rewrite map_length; unfold k; lia).
      rewrite map_length. unfold k. rewrite Nat.sub_diag. simpl. rewrite K. reflexivity. }
    destruct (leaf_at_any (ns0 ++ [n]) (op_channels (OLeaf l))) as [i|] eqn:E.
    + pose proof (leaf_at_any_lt _ _ _ E) as Hi. rewrite app_length, Nat.add_1_r in Hi. fold k in Hi.
      pose proof (leaf_at_any_max_depth _ _ _ Wp E k Hk) as D. rewrite Ck in D. specialize (D M).
      rewrite P in D. rewrite !C02.Proofs.chain_depth in D by lia. assert (i = k) by lia. subst i. reflexivity.
    + pose proof (leaf_at_any_none _ _ E k Hk) as D. rewrite Ck in D. simpl in D. congruence.
  - subst ns. destruct (leaf_at_any [] (op_channels (OLeaf l))) as [i|] eqn:E; [|reflexivity].
    apply leaf_at_any_lt in E. simpl in E. lia.
Qed.

Lemma chain_run env cs : forall ns prev, chain_state ns prev -> chained prev cs = true ->
  Z.of_nat (length ns + length cs) <= 4999 ->
  parents (run_cmds env cs ns) = C02.Proofs.chain_parents (length ns + length cs).
Proof.
  induction cs as [|c t IH]; intros ns prev S H Len.
  - cbn [run_cmds length]. rewrite Nat.add_0_r. exact (proj1 S).
  - destruct c as [l [r|] | |]; try discriminate. cbn [chained] in H. apply andb_true_iff in H as [M H].
    cbn [length] in Len. rewrite run_cmds_cons. cbn [cmd_op cmd_link].
    rewrite (IH _ (Some l) (chain_add env ns prev l S ltac:(lia) ltac:(destruct prev; [exact M | exact I])) H).
    + rewrite add_node_length. cbn [length]. f_equal. lia.
    + rewrite add_node_length. lia.
Qed.

Theorem chained_graph_is_chain env p : chained None p = true -> Z.of_nat (length p) <= 4999 ->
  parents (run_prog env p) = C02.Proofs.chain_parents (length p).
Proof.
  intros H Len. unfold run_prog. apply (chain_run env p [] None); [split; reflexivity | exact H | exact Len].
Qed.

Lemma chain_anc n a b : (a < b)%nat -> (b < n)%nat -> anc (C02.Proofs.chain_parents n) a b.
Proof.
  intros Hab Hb. induction b as [|b IH]; [lia|].
  assert (Hc : In (S b) (children (C02.Proofs.chain_parents n) (Some b))).
  { apply children_spec. rewrite C02.Proofs.chain_nth by exact Hb. reflexivity. }
  destruct (Nat.eq_dec a b) as [-> | Hne]; [apply anc_child; exact Hc|].
  eapply anc_step; [apply IH; lia | exact Hc].
Qed.

Theorem single_chain_order env p : chained None p = true -> Z.of_nat (length p) <= 4999 -> nonneg_durs env p = true ->
  NoDup (uids (core_items env p)) ->
  let tm := node_times env None (run_prog env p) in
  forall a b la lb q ta tb, (a < b)%nat ->
    nth_error p a = Some (CAdd la None) -> nth_error p b = Some (CAdd lb None) ->
    l_acq la = Some (q, ta) -> l_acq lb = Some (q, tb) ->
    let sa := fst (nth a tm (0, 0)) in
    let sb := fst (nth b tm (0, 0)) in
    snd (nth a tm (0, 0)) <= sb /\ sa <= sb /\
    0 <= qindex (core_items env p) (l_lab la) < qindex (core_items env p) (l_lab lb) /\
    In {| a_qubit := q; a_uid := l_lab la; a_index := qindex (core_items env p) (l_lab la); a_start := sa |} (core_acq env p) /\
    In {| a_qubit := q; a_uid := l_lab lb; a_index := qindex (core_items env p) (l_lab lb); a_start := sb |} (core_acq env p).
Proof.
  intros H Len N Hnd tm a b la lb q ta tb Hab Ca Cb Aa Ab sa sb.
  assert (Hb : (b < length p)%nat) by (apply nth_error_Some; congruence).
  pose proof (chained_graph_is_chain env p H Len) as P.
  destruct (implicit_ancestor_order env p (chained_implicit _ _ H) N) as [_ R].
  specialize (R a b la lb Ca Cb (small_prog_listed env p b Len Hb)). rewrite P in R.
  destruct (R (chain_anc _ a b Hab Hb)) as (T1 & T2 & _ & I). destruct (I q ta tb Aa Ab Hnd) as (I1 & I2 & I3).
  split; [exact T1|]. split; [exact T2|]. split; [exact I1|]. split; [exact I2 | exact I3].
Qed.

(* non-vacuity: M q0; Wait q0; M q0; Barrier q0,q1; Wait q1; Barrier q0,q1; M q0 *)
Definition chain_prog : list cmd :=
  [ CAdd (f20_meas 0 0 0) None;
    CAdd (f20_wait 1 0 8) None;
    CAdd (f20_meas 2 0 1) None;
    CAdd (f20_barrier 3 [0; 1]) None; CAdd (f20_wait 4 1 40) None; CAdd (f20_barrier 5 [0; 1]) None;
    CAdd (f20_meas 6 0 0) None ].
Example chain_prog_ok : chained None chain_prog = true /\ nonneg_durs f20_env chain_prog = true /\
  core_acq f20_env chain_prog =
  [ {| a_qubit := 0; a_uid := 0; a_index := 0; a_start := 0 |}; {| a_qubit := 0; a_uid := 2; a_index := 1; a_start := 24 |};
    {| a_qubit := 0; a_uid := 6; a_index := 2; a_start := 88 |} ].
Proof. repeat split; vm_compute; reflexivity. Qed.
(* ... and F20 is not chained: the first Wait q2 shares no channel with M q0 *)
Example f20_not_chained : chained None f20_prog = false.
Proof. vm_compute. reflexivity. Qed.

(* ================================================================== 8. the program-level statements (Props/C07.v) *)
(* every build program (sub-circuits, repetitions, explicit relations of any type elsewhere), repetitions unrolled *)
Theorem program_ancestor_order env prog :
  (forall e, In e (core_entries env prog) -> 0 <= resolve env (l_dur (e_leaf e))) ->
  forall c' ns', listed_table env None (built env prog) c' ns' ->
  forall a b na nb la lb,
    nth_error ns' a = Some na -> n_op na = OLeaf la -> nth_error ns' b = Some nb -> n_op nb = OLeaf lb ->
    In b (bfs (parents ns')) -> follows ns' a b ->
    let ea := entry_at la (nth a (node_times env c' ns') (0, 0)) in
    let eb := entry_at lb (nth b (node_times env c' ns') (0, 0)) in
    e_end ea <= e_start eb /\ e_start ea <= e_start eb /\ before (core_entries env prog) ea eb /\
    forall q ta tb, l_acq la = Some (q, ta) -> l_acq lb = Some (q, tb) -> NoDup (uids (core_items env prog)) ->
      0 <= qindex (core_items env prog) (l_lab la) < qindex (core_items env prog) (l_lab lb) /\
      In {| a_qubit := q; a_uid := l_lab la; a_index := qindex (core_items env prog) (l_lab la); a_start := e_start ea |} (core_acq env prog) /\
      In {| a_qubit := q; a_uid := l_lab lb; a_index := qindex (core_items env prog) (l_lab lb); a_start := e_start eb |} (core_acq env prog).
Proof. exact (core_ancestor_order env (built env prog) (built_wf env prog)). Qed.

(* the same for the circuit as built, before apply_modifiers() *)
Theorem program_ancestor_order_as_built env prog :
  let ns := run_prog env prog in
  let L := listing env ns in
  let items := items_of_entries L in
  (forall e, In e L -> 0 <= resolve env (l_dur (e_leaf e))) ->
  forall c' ns', listed_table env None ns c' ns' ->
  forall a b na nb la lb,
    nth_error ns' a = Some na -> n_op na = OLeaf la -> nth_error ns' b = Some nb -> n_op nb = OLeaf lb ->
    In b (bfs (parents ns')) -> follows ns' a b ->
    let ea := entry_at la (nth a (node_times env c' ns') (0, 0)) in
    let eb := entry_at lb (nth b (node_times env c' ns') (0, 0)) in
    e_end ea <= e_start eb /\ e_start ea <= e_start eb /\ before L ea eb /\
    forall q ta tb, l_acq la = Some (q, ta) -> l_acq lb = Some (q, tb) -> NoDup (uids items) ->
      0 <= qindex items (l_lab la) < qindex items (l_lab lb) /\
      In {| a_qubit := q; a_uid := l_lab la; a_index := qindex items (l_lab la); a_start := e_start ea |} (acq_rows L) /\
      In {| a_qubit := q; a_uid := l_lab lb; a_index := qindex items (l_lab lb); a_start := e_start eb |} (acq_rows L).
Proof. exact (core_ancestor_order env (run_prog env prog) (run_prog_wf_op env 1 prog)). Qed.

(* any relation types on the path (JOINED_START / JOINED_END included): listed first, smaller index -- no statement on times *)
Theorem program_ancestor_listed_first env prog :
  forall c' ns', listed_table env None (built env prog) c' ns' ->
  forall a b na nb la lb,
    nth_error ns' a = Some na -> n_op na = OLeaf la -> nth_error ns' b = Some nb -> n_op nb = OLeaf lb ->
    In b (bfs (parents ns')) -> anc (parents ns') a b ->
    let ea := entry_at la (nth a (node_times env c' ns') (0, 0)) in
    let eb := entry_at lb (nth b (node_times env c' ns') (0, 0)) in
    before (core_entries env prog) ea eb /\
    forall q ta tb, l_acq la = Some (q, ta) -> l_acq lb = Some (q, tb) -> NoDup (uids (core_items env prog)) ->
      0 <= qindex (core_items env prog) (l_lab la) < qindex (core_items env prog) (l_lab lb) /\
      In {| a_qubit := q; a_uid := l_lab la; a_index := qindex (core_items env prog) (l_lab la); a_start := e_start ea |} (core_acq env prog) /\
      In {| a_qubit := q; a_uid := l_lab lb; a_index := qindex (core_items env prog) (l_lab lb); a_start := e_start eb |} (core_acq env prog).
Proof. exact (ancestor_listed_first env (built env prog) (built_wf env prog)). Qed.

(* the time order needs the link types: a JOINED_START child starts with its parent, i.e. before the parent ends *)
Example joined_start_child_not_after :
  exists env prog a b, anc (parents (run_prog env prog)) a b /\ nonneg_durs env prog = true /\
    fst (nth b (node_times env None (run_prog env prog)) (0, 0)) < snd (nth a (node_times env None (run_prog env prog)) (0, 0)).
Proof.
  exists f20_env, [CAdd (f20_meas 0 0 0) None; CAdd (f20_meas 1 1 0) (Some (RelationType_JOINED_START, 0%nat))], 0%nat, 1%nat.
  split; [apply anc_child; vm_compute; tauto|]. split; vm_compute; reflexivity.
Qed.
