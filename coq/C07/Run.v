(* Case evaluation for the C07 correspondence run.  The harness writes `cases : list case` and evaluates
   `failing agree cases` (model scan on the implementation's listing = every index the implementation reports) and
   `failing spec_ok cases` (the statement of C07 evaluated on the implementation's output alone; no model function is used). *)
From Coq Require Import ZArith List Bool.
Import ListNotations.
From QCE Require Import Base.Prelude C07.Model Core.Model Core.Run.
From Gen Require Import Ident Classes.
Open Scope Z_scope.

(* one listed measurement as the implementation reports it: identifier, acquisition_index, circuit_level_acquisition_index,
   start time (ticks of 1/8), which registry listing it scans (0 = the circuit's own listing, k+1 = o_regs[k]) and what that
   registry's reference circuit is (0 this circuit, 1 a sub-circuit of this circuit, 2 something else) *)
Record meas := MkMeas { m_q : Z; m_tag : Z; m_uid : Z; m_qi : Z; m_ci : Z; m_start : Z; m_reg : nat; m_att : Z }.
Record obs := MkObs {
  o_listing : list item;                 (* circuit.operations *)
  o_sched : list (list ChannelIdentifier * Z * Z);   (* channel identifiers, start, end (ticks) of every listed operation *)
  o_subs : list (list ChannelIdentifier * Z * Z * list nat);   (* every sub-circuit, recursively: channel identifiers, start,
                                                        start + duration, positions of the listed operations it contains *)
  o_regs : list (list item);             (* listings of the other reference circuits met *)
  o_meas : list meas;                    (* in listing order *)
  o_byq : list (Z * list Z);             (* get_acquisition_indices(q) *)
  o_bytag : list (Z * Z * list Z);       (* get_acquisition_indices(AcquisitionTag(q, t)) *)
  o_stim : option (list Z * Z);          (* qubits of the M targets of to_stim(circuit).flattened(), num_measurements *)
  o_uids_ok : bool }.                    (* distinct Python objects <-> distinct unique_identifier *)
(* the build program in the vocabulary of the Core model (Core/Model.v: the accepted placement / listing / timing semantics):
   duration settings, outer repetition count, commands; and the implementation's measurements as (qubit, tag, start) in listing
   order, for the tie between the two *)
Record coretie := MkTie { t_env : denv; t_reps : Z; t_prog : list cmd; t_impl : list (Z * Z * Z) }.
Inductive case :=
| CProg (wellformed implicit : bool) (before : option obs) (after : obs) (core : option coretie)
| CError.                                (* the implementation raised *)

(* the measurements of the circuit the Core model builds from the program, unrolled: (qubit, tag, start) in listing order *)
Definition core_meas (t : coretie) : list (Z * Z * Z) :=
  let ns := apply_modifiers (t_env t) (t_reps t) (run_prog (t_env t) (t_prog t)) in
  flat_map (fun e => match l_acq (e_leaf e) with Some (q, tg) => [(q, tg, e_start e)] | None => [] end) (listing (t_env t) ns).
Definition triple_eqb (a b : Z * Z * Z) : bool :=
  let '(a1, a2, a3) := a in let '(b1, b2, b3) := b in (a1 =? b1) && (a2 =? b2) && (a3 =? b3).
Definition core_agrees (c : option coretie) : bool :=
  match c with None => true | Some t => list_eqb triple_eqb (core_meas t) (t_impl t) end.

Definition zl_eqb := list_eqb Z.eqb.
Definition mkey (m : meas) : key := (m_q m, m_tag m, m_uid m).
Definition listing_keys (l : list item) : list key :=
  flat_map (fun it => match it with Meas q t u => [(q, t, u)] | Other => [] end) l.

(* ------------------------------------------------------------------ model vs implementation *)
Definition reg_of (o : obs) (r : nat) : list item := nth r (o_listing o :: o_regs o) [].
Definition regof_uid (o : obs) (u : Z) : list item :=
  match find (fun m => m_uid m =? u) (o_meas o) with Some m => reg_of o (m_reg m) | None => [] end.

Definition agree_obs (o : obs) : bool :=
  list_eqb key_eqb (listing_keys (o_listing o)) (map mkey (o_meas o))
  && forallb (fun m => let r := acq_scan (reg_of o (m_reg m)) (mkey m) in (fst r =? m_qi m) && (snd r =? m_ci m)) (o_meas o)
  && forallb (fun e => zl_eqb (indices_by_qubit_reg (regof_uid o) (o_listing o) (fst e)) (snd e)) (o_byq o)
  && forallb (fun e => let '(q, t, l) := e in zl_eqb (indices_by_tag_reg (regof_uid o) (o_listing o) q t) l) (o_bytag o)
  && match o_stim o with
     | None => true
     | Some (rec, n) => zl_eqb (stim_record (o_listing o)) rec && (n =? count_meas (o_listing o))
                        && list_eqb Z.eqb (map snd (record_positions (o_listing o))) (zrange 0 n)
     end.

Definition agree (c : case) : bool :=
  match c with
  | CProg _ _ b a core => match b with Some o => agree_obs o | None => true end && agree_obs a && core_agrees core
  | CError => false
  end.

(* ------------------------------------------------------------------ the statement of C07 on the implementation's output *)
Fixpoint nodupb (l : list Z) : bool :=
  match l with [] => true | x :: t => negb (existsb (Z.eqb x) t) && nodupb t end.
Fixpoint pairwise_disjoint (ls : list (list Z)) : bool :=
  match ls with
  | [] => true
  | l :: t => forallb (fun l' => forallb (fun x => negb (existsb (Z.eqb x) l')) l) t && pairwise_disjoint t
  end.
Definition on_qubit (q : Z) (ms : list meas) : list meas := filter (fun m => m_q m =? q) ms.
Definition on_tag (q t : Z) (ms : list meas) : list meas := filter (fun m => (m_q m =? q) && (m_tag m =? t)) ms.

Definition spec_enumerates (ms : list meas) : bool :=
  zl_eqb (map m_ci ms) (zrange 0 (Z.of_nat (length ms)))                         (* circuit level: 0..N-1 in listing order *)
  && forallb (fun m => let same := on_qubit (m_q m) ms in
                       zl_eqb (map m_qi same) (zrange 0 (Z.of_nat (length same)))) ms.   (* per qubit: 0..n_q-1 in listing order *)

Definition spec_filters (o : obs) : bool :=
  let ms := o_meas o in
  forallb (fun m => existsb (fun e => fst e =? m_q m) (o_byq o)) ms                       (* every measured qubit was asked for *)
  && forallb (fun e => zl_eqb (snd e) (map m_qi (on_qubit (fst e) ms))) (o_byq o)         (* by qubit: exactly the matching ones *)
  && forallb (fun m => existsb (fun e => (fst (fst e) =? m_q m) && (snd (fst e) =? m_tag m)) (o_bytag o)) ms
  && forallb (fun e => let '(q, t, l) := e in zl_eqb l (map m_qi (on_tag q t ms))) (o_bytag o).

Definition spec_partition (o : obs) : bool :=
  let ms := o_meas o in
  nodupb (map (fun e => fst (fst e) * 1000 + snd (fst e)) (o_bytag o))                     (* each (qubit, tag) asked once *)
  && forallb (fun m =>
       let q := m_q m in
       let nq := Z.of_nat (length (on_qubit q ms)) in
       let lists := map snd (filter (fun e => fst (fst e) =? q) (o_bytag o)) in
       pairwise_disjoint lists && forallb nodupb lists
       && forallb (fun l => forallb (fun i => (0 <=? i) && (i <? nq)) l) lists
       && forallb (fun i => existsb (fun l => existsb (Z.eqb i) l) lists) (zrange 0 nq)) ms.

Definition spec_record (o : obs) : bool :=
  match o_stim o with
  | None => false
  | Some (rec, n) =>
      let ms := o_meas o in
      (n =? Z.of_nat (length ms)) && zl_eqb rec (map m_q ms)                               (* record order = listing order *)
      && forallb (fun m => match nth_error rec (Z.to_nat (m_ci m)) with
                           | Some q => (0 <=? m_ci m) && (q =? m_q m) | None => false end) ms
  end.

(* per qubit the index increases with start time -- for circuits free of channel overlaps.  Two things that share a channel
   (ChannelIdentifier.__eq__, generated in Gen/Ident.v) must not be active at the same time, where a sub-circuit counts as an
   operation occupying its channels for its whole extent (start .. start + duration):
   - two listed operations;
   - a listed operation and a sub-circuit that does not contain it;
   - two sub-circuits, unless one contains the other. *)
Definition share_channel (a b : list ChannelIdentifier) : bool :=
  existsb (fun x => existsb (fun y => ChannelIdentifier_eq x y) b) a.
Definition disjoint_in_time (s e s' e' : Z) : bool := (e <=? s') || (e' <=? s).
Fixpoint ops_overlap_free (ops : list (list ChannelIdentifier * Z * Z)) : bool :=
  match ops with
  | [] => true
  | (ch, s, e) :: t =>
      forallb (fun o => let '(ch', s', e') := o in negb (share_channel ch ch') || disjoint_in_time s e s' e') t && ops_overlap_free t
  end.
Definition memb (i : nat) (l : list nat) : bool := existsb (Nat.eqb i) l.
Definition subset (a b : list nat) : bool := forallb (fun i => memb i b) a.
Fixpoint op_sub_overlap_free (i : nat) (ops : list (list ChannelIdentifier * Z * Z))
                             (subs : list (list ChannelIdentifier * Z * Z * list nat)) : bool :=
  match ops with
  | [] => true
  | (ch, s, e) :: t =>
      forallb (fun sb => let '(ch', s', e', mem) := sb in
                         memb i mem || negb (share_channel ch ch') || disjoint_in_time s e s' e') subs
      && op_sub_overlap_free (S i) t subs
  end.
Fixpoint subs_overlap_free (subs : list (list ChannelIdentifier * Z * Z * list nat)) : bool :=
  match subs with
  | [] => true
  | (ch, s, e, mem) :: t =>
      forallb (fun sb => let '(ch', s', e', mem') := sb in
                         subset mem mem' || subset mem' mem || negb (share_channel ch ch') || disjoint_in_time s e s' e') t
      && subs_overlap_free t
  end.
Definition overlap_free (o : obs) : bool :=
  ops_overlap_free (o_sched o) && op_sub_overlap_free 0 (o_sched o) (o_subs o) && subs_overlap_free (o_subs o).
Definition spec_time (ms : list meas) : bool :=
  forallb (fun a => forallb (fun b => negb ((m_q a =? m_q b) && (m_start a <? m_start b)) || (m_qi a <? m_qi b)) ms) ms.

Definition spec_wellformed (implicit : bool) (o : obs) : bool :=
  let ms := o_meas o in
  o_uids_ok o && nodupb (map m_uid ms)
  && list_eqb key_eqb (listing_keys (o_listing o)) (map mkey ms)                  (* every listed measurement is reported, in order *)
  && forallb (fun m => (0 <=? m_qi m) && (0 <=? m_ci m)) ms                        (* every measurement has both indices *)
  && spec_enumerates ms && spec_filters o && spec_partition o && spec_record o
  && (negb (implicit && overlap_free o) || spec_time ms).

(* malformed stream: a measurement whose registry points at an unrelated circuit reports the default (-1, -1) silently;
   the measurements attached to this circuit keep counting every listed measurement *)
Fixpoint spec_malformed_from (pre ms : list meas) : bool :=
  match ms with
  | [] => true
  | m :: t =>
      (if m_att m =? 0 then (m_ci m =? Z.of_nat (length pre)) && (m_qi m =? Z.of_nat (length (on_qubit (m_q m) pre)))
       else if m_att m =? 2 then (m_qi m =? -1) && (m_ci m =? -1) else true)
      && spec_malformed_from (pre ++ [m]) t
  end.

Definition spec_ok (c : case) : bool :=
  match c with
  | CProg true implicit _ a _ => spec_wellformed implicit a
  | CProg false _ _ a _ => spec_malformed_from [] (o_meas a)
  | CError => false
  end.
