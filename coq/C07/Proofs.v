(* C07 — lemmas about the acquisition-index scan (C07/Model.v), for all listings.
   Standing hypothesis of the property theorems: the unique identifiers of the listed measurements are pairwise distinct
   (`NoDup (uids l)`); it holds because every AcquisitionIdentifier draws a fresh `unique_identifier` from a class-level counter
   (the correspondence run checks it on every case).  Where only "first identifier-equal entry wins" is needed the weaker
   hypothesis `~ In u (uids l1)` is used. *)
From Coq Require Import ZArith List Bool Lia ZifyBool Sorted.
Import ListNotations.
From QCE Require Import Base.Prelude C07.Model.
Open Scope Z_scope.

(* ------------------------------------------------------------------ vocabulary of the statements *)
Definition qubit_is (q : Z) : Z -> Z -> bool := fun q' _ => q' =? q.
Definition tag_is (q tg : Z) : Z -> Z -> bool := fun q' tg' => equal_tag q' tg' q tg.
Definition qindex (l : list item) (u : Z) : Z := fst (acq_info l u).     (* per-qubit index  *)
Definition cindex (l : list item) (u : Z) : Z := snd (acq_info l u).     (* circuit-level index *)
(* (qubit, uid) of the listed measurements, in order *)
Definition qus (l : list item) : list (Z * Z) :=
  flat_map (fun it => match it with Meas q _ u => [(q, u)] | Other => [] end) l.
(* same-qubit measurements are listed in non-decreasing start-time order *)
Definition time_sorted (time : Z -> Z) (l : list item) : Prop :=
  StronglySorted (fun a b => fst a = fst b -> time (snd a) <= time (snd b)) (qus l).

(* ------------------------------------------------------------------ bookkeeping *)
Lemma uids_app a b : uids (a ++ b) = uids a ++ uids b.
Proof. unfold uids. apply flat_map_app. Qed.
Lemma sel_app p a b : sel p (a ++ b) = sel p a ++ sel p b.
Proof. unfold sel. apply flat_map_app. Qed.
Lemma qus_app a b : qus (a ++ b) = qus a ++ qus b.
Proof. unfold qus. apply flat_map_app. Qed.
Lemma stim_record_app a b : stim_record (a ++ b) = stim_record a ++ stim_record b.
Proof. unfold stim_record. apply flat_map_app. Qed.
Lemma uids_sel l : uids l = sel (fun _ _ => true) l.
Proof. reflexivity. Qed.

Lemma count_sel_app p a b : count_sel p (a ++ b) = count_sel p a + count_sel p b.
Proof. unfold count_sel. rewrite sel_app, app_length. lia. Qed.
Lemma count_sel_other p t : count_sel p (Other :: t) = count_sel p t.
Proof. reflexivity. Qed.
Lemma count_sel_meas p q tg u t : count_sel p (Meas q tg u :: t) = (if p q tg then 1 else 0) + count_sel p t.
Proof.
  unfold count_sel. change (sel p (Meas q tg u :: t)) with ((if p q tg then [u] else []) ++ sel p t).
  destruct (p q tg); rewrite app_length; cbn [length]; lia.
Qed.
Lemma count_sel_nonneg p l : 0 <= count_sel p l.
Proof. unfold count_sel. lia. Qed.
Lemma count_sel_one p x : count_sel p [x] = match x with Meas q tg _ => if p q tg then 1 else 0 | Other => 0 end.
Proof. destruct x as [q tg u|]; [rewrite count_sel_meas | rewrite count_sel_other]; unfold count_sel; cbn; lia. Qed.

Lemma in_sel p l u : In u (sel p l) <-> exists q tg, In (Meas q tg u) l /\ p q tg = true.
Proof.
  unfold sel. rewrite in_flat_map. split.
  - intros [[q tg u'|] [Hin Hu]]; [|destruct Hu].
    destruct (p q tg) eqn:Hp; [|destruct Hu]. destruct Hu as [->|[]]. eauto.
  - intros (q & tg & Hin & Hp). exists (Meas q tg u). split; [assumption|]. rewrite Hp. left; reflexivity.
Qed.
Lemma in_uids l u : In u (uids l) <-> exists q tg, In (Meas q tg u) l.
Proof. rewrite uids_sel, in_sel. split; intros (q & tg & H); exists q, tg; tauto. Qed.
Lemma sel_incl_uids p l u : In u (sel p l) -> In u (uids l).
Proof. rewrite in_sel, in_uids. intros (q & tg & H & _); eauto. Qed.

Lemma nodup_sel p l : NoDup (uids l) -> NoDup (sel p l).
Proof.
  induction l as [|[q tg u|] t IH]; intros H.
  - constructor.
  - change (uids (Meas q tg u :: t)) with (u :: uids t) in H. inversion H as [|? ? Hni Hnd]; subst.
    change (sel p (Meas q tg u :: t)) with ((if p q tg then [u] else []) ++ sel p t).
    destruct (p q tg); cbn [app]; [constructor|]; auto.
    intros Hin. apply Hni. eapply sel_incl_uids; eassumption.
  - apply IH. exact H.
Qed.

Lemma nodup_split_l l1 q tg u l2 : NoDup (uids (l1 ++ Meas q tg u :: l2)) -> ~ In u (uids l1).
Proof.
  rewrite uids_app. change (uids (Meas q tg u :: l2)) with (u :: uids l2).
  intros H Hin. apply NoDup_remove_2 in H. apply H. apply in_or_app. left; assumption.
Qed.

(* ------------------------------------------------------------------ the scan *)
Lemma scan_from_hit l1 q tg u l2 qc cc :
  ~ In u (uids l1) ->
  scan_from (l1 ++ Meas q tg u :: l2) (q, tg, u) qc cc = (qc + count_q q l1, cc + count_meas l1).
Proof.
  unfold count_q, count_meas.
  revert qc cc; induction l1 as [|[q' tg' u'|] t IH]; intros qc cc Hni.
  - cbn [app scan_from key_eqb fst snd]. rewrite !Z.eqb_refl. cbn. f_equal; lia.
  - change (uids (Meas q' tg' u' :: t)) with (u' :: uids t) in Hni.
    assert (Hne : u' <> u) by (intros ->; apply Hni; left; reflexivity).
    assert (Hnt : ~ In u (uids t)) by (intros Hin; apply Hni; right; assumption).
    cbn [app scan_from key_eqb fst snd].
    replace (u' =? u) with false by lia. rewrite andb_false_r.
    rewrite IH by assumption. rewrite !count_sel_meas. destruct (q' =? q); f_equal; lia.
  - cbn [app scan_from]. rewrite IH by exact Hni. rewrite !count_sel_other. reflexivity.
Qed.

Lemma scan_from_miss l k qc cc : ~ In (snd k) (uids l) -> scan_from l k qc cc = (-1, -1).
Proof.
  destruct k as [[kq kt] ku]. cbn [snd].
  revert qc cc; induction l as [|[q tg u|] t IH]; intros qc cc Hni.
  - reflexivity.
  - change (uids (Meas q tg u :: t)) with (u :: uids t) in Hni.
    cbn [scan_from key_eqb fst snd].
    replace (u =? ku) with false by (destruct (Z.eqb_spec u ku) as [->|]; [exfalso; apply Hni; left|]; reflexivity).
    rewrite andb_false_r. apply IH. intros Hin; apply Hni; right; assumption.
  - cbn [scan_from]. apply IH. exact Hni.
Qed.

Lemma key_of_hit l1 q tg u l2 : ~ In u (uids l1) -> key_of (l1 ++ Meas q tg u :: l2) u = Some (q, tg, u).
Proof.
  induction l1 as [|[q' tg' u'|] t IH]; intros Hni.
  - cbn [app key_of]. rewrite Z.eqb_refl. reflexivity.
  - change (uids (Meas q' tg' u' :: t)) with (u' :: uids t) in Hni.
    cbn [app key_of]. replace (u' =? u) with false
      by (destruct (Z.eqb_spec u' u) as [->|]; [exfalso; apply Hni; left|]; reflexivity).
    apply IH. intros Hin; apply Hni; right; assumption.
  - cbn [app key_of]. apply IH. exact Hni.
Qed.
Lemma key_of_miss l u : ~ In u (uids l) -> key_of l u = None.
Proof.
  induction l as [|[q tg u'|] t IH]; intros Hni; [reflexivity| |apply IH; exact Hni].
  change (uids (Meas q tg u' :: t)) with (u' :: uids t) in Hni. cbn [key_of].
  replace (u' =? u) with false by (destruct (Z.eqb_spec u' u) as [->|]; [exfalso; apply Hni; left|]; reflexivity).
  apply IH. intros Hin; apply Hni; right; assumption.
Qed.
Lemma key_of_in l q tg u : NoDup (uids l) -> In (Meas q tg u) l -> key_of l u = Some (q, tg, u).
Proof.
  intros Hnd Hin. apply in_split in Hin. destruct Hin as (l1 & l2 & ->).
  apply key_of_hit. eapply nodup_split_l; eassumption.
Qed.
Lemma same_uid_same_key l q1 t1 q2 t2 u :
  NoDup (uids l) -> In (Meas q1 t1 u) l -> In (Meas q2 t2 u) l -> q1 = q2 /\ t1 = t2.
Proof.
  intros Hnd H1 H2. pose proof (key_of_in _ _ _ _ Hnd H1) as E1. pose proof (key_of_in _ _ _ _ Hnd H2) as E2.
  rewrite E1 in E2. inversion E2. auto.
Qed.

(* first identifier-equal entry wins: both counters are what precedes it *)
Lemma acq_info_first l1 q tg u l2 :
  ~ In u (uids l1) -> acq_info (l1 ++ Meas q tg u :: l2) u = (count_q q l1, count_meas l1).
Proof.
  intros Hni. unfold acq_info, acq_scan. rewrite key_of_hit by assumption. rewrite scan_from_hit by assumption. f_equal; lia.
Qed.
Lemma acq_scan_spec l1 q tg u l2 :
  NoDup (uids (l1 ++ Meas q tg u :: l2)) -> acq_info (l1 ++ Meas q tg u :: l2) u = (count_q q l1, count_meas l1).
Proof. intros H. apply acq_info_first. eapply nodup_split_l; eassumption. Qed.

(* what a listed operation itself reports (its own identifier is the key) is acq_info of its uid *)
Lemma op_index_info l q tg u : NoDup (uids l) -> In (Meas q tg u) l ->
  op_index l (Meas q tg u) = qindex l u /\ op_cindex l (Meas q tg u) = cindex l u.
Proof. intros Hnd Hin. unfold op_index, op_cindex, qindex, cindex, acq_info. rewrite (key_of_in _ _ _ _ Hnd Hin). auto. Qed.

Lemma acq_missing l u : ~ In u (uids l) -> acq_info l u = (-1, -1).
Proof. intros H. unfold acq_info. rewrite key_of_miss by assumption. reflexivity. Qed.
Lemma acq_scan_missing l q tg u : (forall q' tg', ~ In (Meas q' tg' u) l) -> acq_scan l (q, tg, u) = (-1, -1).
Proof.
  intros H. unfold acq_scan. apply scan_from_miss. cbn [snd]. rewrite in_uids. intros (q' & tg' & Hin). exact (H _ _ Hin).
Qed.

(* ------------------------------------------------------------------ enumeration *)
Lemma cons_app_assoc {A} (pre : list A) x t : pre ++ x :: t = (pre ++ [x]) ++ t.
Proof. rewrite <- app_assoc. reflexivity. Qed.

Lemma enum_circuit_gen rest : forall pre, NoDup (uids (pre ++ rest)) ->
  map (cindex (pre ++ rest)) (uids rest) = zrange_n (count_meas pre) (length (uids rest)).
Proof.
  induction rest as [|[q tg u|] t IH]; intros pre Hnd.
  - reflexivity.
  - change (uids (Meas q tg u :: t)) with (u :: uids t). cbn [map length zrange_n]. f_equal.
    + unfold cindex. rewrite acq_scan_spec by assumption. reflexivity.
    + rewrite cons_app_assoc in *. rewrite IH by assumption. f_equal.
      unfold count_meas. rewrite count_sel_app, count_sel_one. reflexivity.
  - change (uids (Other :: t)) with (uids t). rewrite cons_app_assoc in *. rewrite IH by assumption. f_equal.
    unfold count_meas. rewrite count_sel_app, count_sel_one. lia.
Qed.

Lemma enum_qubit_gen q rest : forall pre, NoDup (uids (pre ++ rest)) ->
  map (qindex (pre ++ rest)) (sel (qubit_is q) rest) = zrange_n (count_q q pre) (length (sel (qubit_is q) rest)).
Proof.
  induction rest as [|[q' tg u|] t IH]; intros pre Hnd.
  - reflexivity.
  - change (sel (qubit_is q) (Meas q' tg u :: t)) with ((if q' =? q then [u] else []) ++ sel (qubit_is q) t).
    pose proof (acq_scan_spec _ _ _ _ _ Hnd) as Hs.
    rewrite cons_app_assoc in *. specialize (IH _ Hnd). unfold count_q in *. rewrite count_sel_app, count_sel_one in IH.
    destruct (Z.eqb_spec q' q) as [->|Hne]; cbn [app map length zrange_n].
    + f_equal; [unfold qindex; rewrite Hs; reflexivity|]. rewrite IH. reflexivity.
    + rewrite IH. f_equal. lia.
  - change (sel (qubit_is q) (Other :: t)) with (sel (qubit_is q) t). rewrite cons_app_assoc in *. rewrite IH by assumption. f_equal.
    unfold count_q. rewrite count_sel_app, count_sel_one. lia.
Qed.

Lemma zrange_0_of_nat n : zrange 0 (Z.of_nat n) = zrange_n 0 n.
Proof. unfold zrange. rewrite Z.sub_0_r, Nat2Z.id. reflexivity. Qed.

Theorem acq_enumerates l : NoDup (uids l) ->
  map (cindex l) (uids l) = zrange 0 (count_meas l)
  /\ forall q, map (qindex l) (sel (qubit_is q) l) = zrange 0 (count_q q l).
Proof.
  intros Hnd. split; [|intros q].
  - pose proof (enum_circuit_gen l [] Hnd) as H. cbn [app] in H. rewrite H.
    unfold count_meas at 2. unfold count_sel. rewrite zrange_0_of_nat. reflexivity.
  - pose proof (enum_qubit_gen q l [] Hnd) as H. cbn [app] in H. rewrite H.
    unfold count_q at 2. unfold count_sel. rewrite zrange_0_of_nat. reflexivity.
Qed.

(* ------------------------------------------------------------------ the two getters *)
Lemma indices_sel_own_gen p l : NoDup (uids l) -> forall rest, incl rest l ->
  indices_sel_reg p (fun _ => l) rest = map (qindex l) (sel p rest).
Proof.
  intros Hnd. induction rest as [|[q tg u|] t IH]; intros Hincl.
  - reflexivity.
  - assert (Hin : In (Meas q tg u) l) by (apply Hincl; left; reflexivity).
    assert (Ht : incl t l) by (intros x Hx; apply Hincl; right; assumption).
    change (indices_sel_reg p (fun _ => l) (Meas q tg u :: t))
      with ((if p q tg then [op_index l (Meas q tg u)] else []) ++ indices_sel_reg p (fun _ => l) t).
    change (sel p (Meas q tg u :: t)) with ((if p q tg then [u] else []) ++ sel p t).
    rewrite map_app, IH by assumption. destruct (p q tg); [|reflexivity].
    cbn [map app]. rewrite (proj1 (op_index_info _ _ _ _ Hnd Hin)). reflexivity.
  - apply IH. intros x Hx; apply Hincl; right; assumption.
Qed.

Lemma indices_by_qubit_map l q : NoDup (uids l) -> indices_by_qubit l q = map (qindex l) (sel (qubit_is q) l).
Proof. intros H. apply (indices_sel_own_gen (qubit_is q) l H l). apply incl_refl. Qed.
Lemma indices_by_tag_map l q tg : NoDup (uids l) -> indices_by_tag l q tg = map (qindex l) (sel (tag_is q tg) l).
Proof. intros H. apply (indices_sel_own_gen (tag_is q tg) l H l). apply incl_refl. Qed.

Lemma tag_is_true q tg q' tg' : tag_is q tg q' tg' = true <-> q' = q /\ tg' = tg.
Proof. unfold tag_is, equal_tag. lia. Qed.
Lemma qubit_is_true q q' tg' : qubit_is q q' tg' = true <-> q' = q.
Proof. unfold qubit_is. lia. Qed.

Lemma in_by_tag l q tg i : NoDup (uids l) ->
  In i (indices_by_tag l q tg) <-> exists u, In (Meas q tg u) l /\ qindex l u = i.
Proof.
  intros Hnd. rewrite indices_by_tag_map by assumption. rewrite in_map_iff. split.
  - intros (u & Hi & Hin). apply in_sel in Hin. destruct Hin as (q' & tg' & Hin & Hp).
    apply tag_is_true in Hp. destruct Hp as [-> ->]. eauto.
  - intros (u & Hin & Hi). exists u. split; [assumption|]. apply in_sel. exists q, tg. split; [assumption|].
    apply tag_is_true. auto.
Qed.

(* by (qubit, tag): increasing, i.e. returned in listing order of a strictly increasing index *)
Lemma by_tag_sorted_gen q tg rest : forall pre, NoDup (uids (pre ++ rest)) ->
  let xs := map (qindex (pre ++ rest)) (sel (tag_is q tg) rest) in
  StronglySorted Z.lt xs /\ Forall (fun i => count_q q pre <= i) xs.
Proof.
  induction rest as [|[q' tg' u|] t IH]; intros pre Hnd; cbn zeta.
  - split; constructor.
  - change (sel (tag_is q tg) (Meas q' tg' u :: t)) with ((if tag_is q tg q' tg' then [u] else []) ++ sel (tag_is q tg) t).
    pose proof (acq_scan_spec _ _ _ _ _ Hnd) as Hs.
    rewrite cons_app_assoc in *. specialize (IH _ Hnd). cbn zeta in IH. destruct IH as [IH1 IH2].
    unfold count_q in IH2. rewrite count_sel_app, count_sel_one in IH2. fold (count_q q pre) in IH2.
    destruct (tag_is q tg q' tg') eqn:Hp; cbn [app map].
    + apply tag_is_true in Hp. destruct Hp as [-> ->]. unfold qubit_is in IH2. rewrite Z.eqb_refl in IH2.
      unfold qindex at 1 3. rewrite Hs. cbn [fst]. split.
      * constructor; [assumption|]. eapply Forall_impl; [|exact IH2]. cbn; intros; lia.
      * constructor; [lia|]. eapply Forall_impl; [|exact IH2]. cbn; intros; lia.
    + split; [assumption|]. eapply Forall_impl; [|exact IH2]. cbn. intros a Ha. unfold qubit_is in Ha. destruct (q' =? q); lia.
  - change (sel (tag_is q tg) (Other :: t)) with (sel (tag_is q tg) t).
    rewrite cons_app_assoc in *. specialize (IH _ Hnd). cbn zeta in IH. destruct IH as [IH1 IH2]. split; [assumption|].
    unfold count_q in IH2. rewrite count_sel_app, count_sel_one in IH2. fold (count_q q pre) in IH2.
    eapply Forall_impl; [|exact IH2]. cbn; intros; lia.
Qed.

Theorem acq_filter l : NoDup (uids l) -> forall q,
  indices_by_qubit l q = map (qindex l) (sel (qubit_is q) l)
  /\ indices_by_qubit l q = zrange 0 (count_q q l)
  /\ forall tg,
       indices_by_tag l q tg = map (qindex l) (sel (tag_is q tg) l)
       /\ StronglySorted Z.lt (indices_by_tag l q tg)
       /\ forall i, In i (indices_by_tag l q tg) <-> exists u, In (Meas q tg u) l /\ qindex l u = i.
Proof.
  intros Hnd q. split; [apply indices_by_qubit_map; assumption|]. split.
  - rewrite indices_by_qubit_map by assumption. apply acq_enumerates. assumption.
  - intros tg. split; [apply indices_by_tag_map; assumption|]. split.
    + rewrite indices_by_tag_map by assumption. exact (proj1 (by_tag_sorted_gen q tg l [] Hnd)).
    + intros i. apply in_by_tag. assumption.
Qed.

(* ------------------------------------------------------------------ tags partition a qubit's indices *)
Lemma zrange_n_nodup n : forall a, NoDup (zrange_n a n).
Proof.
  induction n as [|n IH]; intros a; cbn [zrange_n]; constructor; [|apply IH].
  rewrite zrange_n_In. lia.
Qed.
Lemma nodup_map_inj {A B} (f : A -> B) xs : NoDup (map f xs) -> forall x y, In x xs -> In y xs -> f x = f y -> x = y.
Proof.
  induction xs as [|a t IH]; intros Hnd x y Hx Hy E; [destruct Hx|].
  cbn [map] in Hnd. inversion Hnd as [|? ? Hni Hnd']; subst.
  destruct Hx as [->|Hx], Hy as [->|Hy]; auto.
  - exfalso. apply Hni. rewrite E. apply in_map. assumption.
  - exfalso. apply Hni. rewrite <- E. apply in_map. assumption.
Qed.
Lemma map_inj_nodup {A B} (f : A -> B) xs :
  (forall x y, In x xs -> In y xs -> f x = f y -> x = y) -> NoDup xs -> NoDup (map f xs).
Proof.
  induction xs as [|a t IH]; intros Hinj Hnd; cbn [map]; [constructor|].
  inversion Hnd as [|? ? Hni Hnd']; subst. constructor.
  - rewrite in_map_iff. intros (x & E & Hx). assert (x = a) by (apply Hinj; [right; assumption|left; reflexivity|assumption]).
    subst. contradiction.
  - apply IH; [|assumption]. intros x y Hx Hy. apply Hinj; right; assumption.
Qed.

Lemma qindex_inj_on_qubit l q : NoDup (uids l) ->
  forall u1 u2, In u1 (sel (qubit_is q) l) -> In u2 (sel (qubit_is q) l) -> qindex l u1 = qindex l u2 -> u1 = u2.
Proof.
  intros Hnd. apply nodup_map_inj. rewrite (proj2 (acq_enumerates l Hnd) q). unfold zrange. apply zrange_n_nodup.
Qed.
Lemma sel_tag_incl_qubit l q tg u : In u (sel (tag_is q tg) l) -> In u (sel (qubit_is q) l).
Proof.
  rewrite !in_sel. intros (q' & tg' & Hin & Hp). apply tag_is_true in Hp. destruct Hp as [-> ->].
  exists q, tg. split; [assumption|]. apply qubit_is_true. reflexivity.
Qed.

Theorem acq_tags_partition l : NoDup (uids l) -> forall q,
  (forall tg, NoDup (indices_by_tag l q tg))
  /\ (forall tg1 tg2 i, tg1 <> tg2 -> In i (indices_by_tag l q tg1) -> ~ In i (indices_by_tag l q tg2))
  /\ (forall i, 0 <= i < count_q q l <-> exists tg, In i (indices_by_tag l q tg)).
Proof.
  intros Hnd q. split; [|split].
  - intros tg. rewrite indices_by_tag_map by assumption. apply map_inj_nodup; [|apply nodup_sel; assumption].
    intros x y Hx Hy. apply (qindex_inj_on_qubit l q Hnd); eapply sel_tag_incl_qubit; eassumption.
  - intros tg1 tg2 i Hne H1 H2.
    apply (in_by_tag l q tg1 i Hnd) in H1. apply (in_by_tag l q tg2 i Hnd) in H2.
    destruct H1 as (u1 & Hin1 & E1). destruct H2 as (u2 & Hin2 & E2).
    assert (u1 = u2).
    { apply (qindex_inj_on_qubit l q Hnd); [| |congruence];
        apply in_sel; eexists q, _; (split; [eassumption|apply qubit_is_true; reflexivity]). }
    subst u2. destruct (same_uid_same_key _ _ _ _ _ _ Hnd Hin1 Hin2) as [_ E]. contradiction.
  - intros i. pose proof (proj2 (acq_enumerates l Hnd) q) as Hen. split.
    + intros Hi. assert (Hin : In i (zrange 0 (count_q q l))) by (apply zrange_In; assumption).
      rewrite <- Hen in Hin. apply in_map_iff in Hin. destruct Hin as (u & E & Hu).
      apply in_sel in Hu. destruct Hu as (q' & tg & Hin & Hp). apply qubit_is_true in Hp. subst q'.
      exists tg. apply in_by_tag; eauto.
    + intros (tg & Hin). apply (in_by_tag l q tg i Hnd) in Hin. destruct Hin as (u & Hin & E).
      apply zrange_In. rewrite <- Hen. apply in_map_iff. exists u. split; [assumption|].
      apply in_sel. exists q, tg. split; [assumption|apply qubit_is_true; reflexivity].
Qed.

(* ------------------------------------------------------------------ record position *)
Lemma record_gen rest : forall pre, NoDup (uids (pre ++ rest)) ->
  record_from rest (count_meas pre) = map (fun u => (u, cindex (pre ++ rest) u)) (uids rest).
Proof.
  induction rest as [|[q tg u|] t IH]; intros pre Hnd.
  - reflexivity.
  - change (uids (Meas q tg u :: t)) with (u :: uids t). cbn [record_from map]. f_equal.
    + unfold cindex. rewrite acq_scan_spec by assumption. reflexivity.
    + rewrite cons_app_assoc in *. rewrite <- IH by assumption. f_equal.
      unfold count_meas. rewrite count_sel_app, count_sel_one. reflexivity.
  - change (uids (Other :: t)) with (uids t). cbn [record_from]. rewrite cons_app_assoc in *. rewrite <- IH by assumption. f_equal.
    unfold count_meas. rewrite count_sel_app, count_sel_one. lia.
Qed.
Lemma stim_record_length l : length (stim_record l) = length (uids l).
Proof.
  induction l as [|[q tg u|] t IH]; [reflexivity| |exact IH].
  change (stim_record (Meas q tg u :: t)) with (q :: stim_record t). change (uids (Meas q tg u :: t)) with (u :: uids t).
  cbn [length]. rewrite IH. reflexivity.
Qed.

Theorem acq_record_position l : NoDup (uids l) ->
  record_positions l = map (fun u => (u, cindex l u)) (uids l)
  /\ Z.of_nat (length (stim_record l)) = count_meas l
  /\ forall q tg u, In (Meas q tg u) l ->
       0 <= cindex l u /\ nth_error (stim_record l) (Z.to_nat (cindex l u)) = Some q.
Proof.
  intros Hnd. split; [|split].
  - exact (record_gen l [] Hnd).
  - rewrite stim_record_length. reflexivity.
  - intros q tg u Hin. apply in_split in Hin. destruct Hin as (l1 & l2 & ->).
    unfold cindex. rewrite acq_scan_spec by assumption. cbn [snd]. split; [apply count_sel_nonneg|].
    rewrite stim_record_app. change (stim_record (Meas q tg u :: l2)) with (q :: stim_record l2).
    unfold count_meas, count_sel. rewrite Nat2Z.id. rewrite <- uids_sel, <- stim_record_length.
    rewrite nth_error_app2 by lia. rewrite Nat.sub_diag. reflexivity.
Qed.

(* ------------------------------------------------------------------ index and start time *)
Lemma ssorted_mid {A} (R : A -> A -> Prop) a x b y c : StronglySorted R (a ++ x :: b ++ y :: c) -> R x y.
Proof.
  induction a as [|h a IH]; cbn [app]; intros H.
  - apply StronglySorted_inv in H. destruct H as [_ H]. rewrite Forall_forall in H. apply H.
    apply in_or_app. right. left. reflexivity.
  - apply StronglySorted_inv in H. apply IH. tauto.
Qed.

Theorem acq_monotone_time_partial (time : Z -> Z) l : NoDup (uids l) -> time_sorted time l ->
  forall q t1 u1 t2 u2, In (Meas q t1 u1) l -> In (Meas q t2 u2) l ->
    (time u1 < time u2 -> qindex l u1 < qindex l u2) /\ (qindex l u1 < qindex l u2 -> time u1 <= time u2).
Proof.
  intros Hnd Hts q t1 u1 t2 u2 H1 H2.
  assert (Key : forall ta ua tb ub a b c, l = a ++ Meas q ta ua :: b ++ Meas q tb ub :: c ->
                  time ua <= time ub /\ qindex l ua < qindex l ub).
  { intros ta ua tb ub a b c E. split.
    - unfold time_sorted in Hts. rewrite E in Hts. rewrite !qus_app in Hts.
      change (qus (Meas q ta ua :: b ++ Meas q tb ub :: c)) with ((q, ua) :: qus (b ++ Meas q tb ub :: c)) in Hts.
      rewrite qus_app in Hts. change (qus (Meas q tb ub :: c)) with ((q, ub) :: qus c) in Hts.
      apply ssorted_mid in Hts. apply Hts. reflexivity.
    - unfold qindex. pose proof Hnd as Hnd1. rewrite E in Hnd1. rewrite E at 1. rewrite (acq_scan_spec _ _ _ _ _ Hnd1).
      assert (E2 : l = (a ++ Meas q ta ua :: b) ++ Meas q tb ub :: c) by (rewrite E, <- app_assoc; reflexivity).
      pose proof Hnd as Hnd2. rewrite E2 in Hnd2. rewrite E2. rewrite (acq_scan_spec _ _ _ _ _ Hnd2). cbn [fst].
      unfold count_q. rewrite count_sel_app, count_sel_meas. rewrite Z.eqb_refl.
      pose proof (count_sel_nonneg (fun q' _ => q' =? q) b). lia. }
  apply in_split in H1. destruct H1 as (a & b & E).
  assert (H2' := H2). rewrite E in H2'. apply in_app_or in H2'. destruct H2' as [Ha|[Heq|Hb]].
  - apply in_split in Ha. destruct Ha as (a1 & a2 & ->).
    destruct (Key t2 u2 t1 u1 a1 a2 b) as [Kt Ki]; [rewrite E, <- app_assoc; reflexivity|]. split; lia.
  - inversion Heq; subst. split; lia.
  - apply in_split in Hb. destruct Hb as (b1 & b2 & ->).
    destruct (Key t1 u1 t2 u2 a b1 b2 E) as [Kt Ki]. split; intros; assumption.
Qed.

(* ------------------------------------------------------------------ non-vacuity: interleaved qubits, repeated tags *)
Definition ex_l : list item :=
  [Meas 0 3 10; Other; Meas 1 0 11; Meas 0 3 12; Meas 1 1 13; Other; Other; Meas 0 4 14; Meas 1 0 15; Meas 2 0 16].

Example ex_nodup : NoDup (uids ex_l).
Proof. repeat constructor; cbn; intuition lia. Qed.
Example ex_scan : acq_info ex_l 14 = (2, 4) /\ acq_info ex_l 15 = (2, 5) /\ acq_info ex_l 99 = (-1, -1).
Proof. vm_compute. repeat split. Qed.
Example ex_enumerates : map (cindex ex_l) (uids ex_l) = [0; 1; 2; 3; 4; 5; 6] /\ indices_by_qubit ex_l 1 = [0; 1; 2].
Proof. vm_compute. repeat split. Qed.
Example ex_filter : indices_by_tag ex_l 0 3 = [0; 1] /\ indices_by_tag ex_l 0 4 = [2] /\ indices_by_tag ex_l 1 0 = [0; 2]
                    /\ indices_by_tag ex_l 1 1 = [1] /\ indices_by_tag ex_l 1 3 = [].
Proof. vm_compute. repeat split. Qed.
Example ex_record : record_positions ex_l = [(10, 0); (11, 1); (12, 2); (13, 3); (14, 4); (15, 5); (16, 6)]
                    /\ stim_record ex_l = [0; 1; 0; 1; 0; 1; 2].
Proof. vm_compute. repeat split. Qed.
(* start times 0,0,16,16,32,32,0: sorted per qubit although not globally *)
Definition ex_time (u : Z) : Z := if u =? 16 then 0 else 16 * ((u - 10) / 2).
Example ex_time_sorted : time_sorted ex_time ex_l.
Proof. unfold time_sorted. cbn. repeat constructor; cbn; intros; try lia; vm_compute; discriminate. Qed.
(* the hypothesis of acq_monotone_time_partial cannot be dropped: the indices follow the listing, not the clock.
   (Listing and start times of this shape are produced by the implementation, see known findings F13/F14.) *)
Example ex_time_unsorted_refuted :
  exists l time q t1 u1 t2 u2, NoDup (uids l) /\ In (Meas q t1 u1) l /\ In (Meas q t2 u2) l
    /\ time u1 < time u2 /\ ~ (qindex l u1 < qindex l u2).
Proof.
  exists [Meas 0 0 0; Meas 0 1 1], (fun u => if u =? 0 then 44 else 12), 0, 1, 1, 0, 0.
  split; [repeat constructor; cbn; intuition lia|]. split; [right; left; reflexivity|]. split; [left; reflexivity|].
  split; [reflexivity|]. vm_compute. discriminate.
Qed.
