(* C07 — hand-written executable model of the acquisition-index machinery, at the level of what the registry really scans:
   the *listing* `reference_circuit.decomposed_operations()`.

   registry_acquisition.py   AcquisitionRegistry.get_registry_at      -> scan_from / acq_scan   (two counters)
   intrf_acquisition_operation.py  AcquisitionIdentifier.__eq__        -> key_eqb   (qubit, tag AND unique_identifier)
                                   AcquisitionTag.equal_tag            -> equal_tag (qubit AND tag)
   circuit_operations.py     DispersiveMeasure.acquisition_index / circuit_level_acquisition_index -> op_index / op_cindex
   declarative_circuit.py    get_acquisition_indices (both dispatch variants) -> indices_by_qubit / indices_by_tag

   An item of the listing is a measurement `Meas qubit tag uid` (an IAcquisitionOperation with its AcquisitionIdentifier;
   tags are numbered by the harness, uid stands for `unique_identifier`) or anything else (`Other`).
   No proofs here.  Tied to the code by the C07 correspondence run. *)
From Coq Require Import ZArith List Bool.
Import ListNotations.
Open Scope Z_scope.

Inductive item := Meas (q tag uid : Z) | Other.

Definition key := (Z * Z * Z)%type.                       (* qubit_index, tag, unique_identifier *)

(* dataclass __eq__ of AcquisitionIdentifier: all three compared fields *)
Definition key_eqb (a b : key) : bool :=
  let '(q1, t1, u1) := a in let '(q2, t2, u2) := b in (q1 =? q2) && (t1 =? t2) && (u1 =? u2).
(* AcquisitionTag.equal_tag: qubit_index and tag, ignoring the unique identifier *)
Definition equal_tag (q1 t1 q2 t2 : Z) : bool := (q1 =? q2) && (t1 =? t2).

(* get_registry_at: for operation in listing: if acquisition: (qubit_id_match, key_match); key_match -> return both counters;
   qubit_id_match -> qubit counter + 1; circuit counter + 1.  Not found -> the default AcquisitionIndexInfo(-1, -1). *)
Fixpoint scan_from (l : list item) (k : key) (qc cc : Z) : Z * Z :=
  match l with
  | [] => (-1, -1)
  | Other :: t => scan_from t k qc cc
  | Meas q tg u :: t =>
      let qubit_id_match := q =? fst (fst k) in
      let key_match := key_eqb (q, tg, u) k in
      if key_match then (qc, cc)
      else scan_from t k (if qubit_id_match then qc + 1 else qc) (cc + 1)
  end.
Definition acq_scan (l : list item) (k : key) : Z * Z := scan_from l k 0 0.

(* the identifier carried by the (first) listed measurement with a given uid *)
Fixpoint key_of (l : list item) (u : Z) : option key :=
  match l with
  | [] => None
  | Other :: t => key_of t u
  | Meas q tg u' :: t => if u' =? u then Some (q, tg, u') else key_of t u
  end.

(* (qubit-level index, circuit-level index) of the measurement with uid u, as its registry (scanning l) reports it *)
Definition acq_info (l : list item) (u : Z) : Z * Z :=
  match key_of l u with Some k => acq_scan l k | None => (-1, -1) end.

(* DispersiveMeasure.acquisition_index / circuit_level_acquisition_index of a listed operation whose acquisition strategy
   points at a registry scanning `reg` *)
Definition op_index (reg : list item) (it : item) : Z :=
  match it with Meas q tg u => fst (acq_scan reg (q, tg, u)) | Other => -1 end.
Definition op_cindex (reg : list item) (it : item) : Z :=
  match it with Meas q tg u => snd (acq_scan reg (q, tg, u)) | Other => -1 end.

(* get_acquisition_indices(qubit_index) / (tag): loop over self.operations, keep acquisition operations whose identifier
   matches, append operation.acquisition_index.  `regof uid` is the listing scanned by that operation's own registry. *)
Definition indices_sel_reg (p : Z -> Z -> bool) (regof : Z -> list item) (l : list item) : list Z :=
  flat_map (fun it => match it with
                      | Meas q tg u => if p q tg then [op_index (regof u) it] else []
                      | Other => []
                      end) l.
Definition indices_by_qubit_reg (regof : Z -> list item) (l : list item) (q : Z) : list Z :=
  indices_sel_reg (fun q' _ => q' =? q) regof l.
Definition indices_by_tag_reg (regof : Z -> list item) (l : list item) (q tg : Z) : list Z :=
  indices_sel_reg (fun q' tg' => equal_tag q' tg' q tg) regof l.

(* the well-formed situation: every listed measurement is attached to the registry of the circuit being listed *)
Definition indices_by_qubit (l : list item) (q : Z) : list Z := indices_by_qubit_reg (fun _ => l) l q.
Definition indices_by_tag (l : list item) (q tg : Z) : list Z := indices_by_tag_reg (fun _ => l) l q tg.

(* Exported measurement record.  After apply_modifiers() every repetition count is 1, the exporter walks the same tree as
   decomposed_operations() and emits one `M q` per DispersiveMeasure, so the listing IS the record order: the record is the
   sequence of measurements of the listing, and a measurement's record position is its rank among them. *)
Fixpoint record_from (l : list item) (n : Z) : list (Z * Z) :=       (* (uid, record position) *)
  match l with
  | [] => []
  | Other :: t => record_from t n
  | Meas _ _ u :: t => (u, n) :: record_from t (n + 1)
  end.
Definition record_positions (l : list item) : list (Z * Z) := record_from l 0.
Definition stim_record (l : list item) : list Z :=                   (* qubit targets of the exported M instructions *)
  flat_map (fun it => match it with Meas q _ _ => [q] | Other => [] end) l.

(* vocabulary of the statements *)
Definition uids (l : list item) : list Z := flat_map (fun it => match it with Meas _ _ u => [u] | Other => [] end) l.
Definition sel (p : Z -> Z -> bool) (l : list item) : list Z :=      (* uids of the measurements matching p, in order *)
  flat_map (fun it => match it with Meas q tg u => if p q tg then [u] else [] | Other => [] end) l.
Definition count_sel (p : Z -> Z -> bool) (l : list item) : Z := Z.of_nat (length (sel p l)).
Definition count_meas (l : list item) : Z := count_sel (fun _ _ => true) l.
Definition count_q (q : Z) (l : list item) : Z := count_sel (fun q' _ => q' =? q) l.
