(* C07 x Core — the last clause of C07 ("per qubit the acquisition indices increase with measurement start time for ...
   implicitly sequenced circuits free of channel overlaps") stated on the Core model of build programs.

   The acquisition index of a measurement is its rank in the circuit's listing (C07/Model.v: `acq_info`, a scan of the listing);
   the listing and the start times are what the Core model computes for a build program (Core/Model.v: `run_prog`,
   `apply_modifiers`, `listing`, `node_times`).  This file only contains the (computable) definitions that put the two together
   and the refutation of the clause for general implicit programs (known finding F20); the positive theorems are in
   C07/CoreBridgeProofs.v. *)
From Coq Require Import ZArith List Bool Lia.
Import ListNotations.
From QCE Require Import Base.Prelude Core.Model Core.Run C07.Model.
From Gen Require Import Ident Classes.
Open Scope Z_scope.

(* ------------------------------------------------------------------ from a Core listing to the list the registry scans *)
(* a listed leaf is a measurement iff it carries an acquisition (qubit, tag); its label plays the unique identifier *)
Definition item_of_leaf (l : leaf) : item :=
  match l_acq l with Some (q, tg) => Meas q tg (l_lab l) | None => Other end.
Definition items_of_listing (ls : list leaf) : list item := map item_of_leaf ls.

(* the circuit a program builds, repetitions unrolled (what the indices are read from) *)
Definition built (env : denv) (prog : list cmd) : list node := apply_modifiers env 1 (run_prog env prog).
(* its listing with the Core start / end times, and the same as the C07 model's items *)
Definition core_entries (env : denv) (prog : list cmd) : list entry := listing env (built env prog).
Definition items_of_entries (es : list entry) : list item := items_of_listing (map e_leaf es).
Definition core_items (env : denv) (prog : list cmd) : list item := items_of_entries (core_entries env prog).

(* one row per listed measurement: qubit, identifier (label), per-qubit acquisition index as the C07 scan of the whole listing
   reports it, start time as the Core schedule gives it *)
Record acq_row := { a_qubit : Z; a_uid : Z; a_index : Z; a_start : Z }.
Definition acq_rows (es : list entry) : list acq_row :=
  let items := items_of_entries es in
  flat_map (fun e => match l_acq (e_leaf e) with
                     | Some (q, _) => [ {| a_qubit := q; a_uid := l_lab (e_leaf e);
                                           a_index := fst (acq_info items (l_lab (e_leaf e))); a_start := e_start e |} ]
                     | None => []
                     end) es.
Definition core_acq (env : denv) (prog : list cmd) : list acq_row := acq_rows (core_entries env prog).

(* ------------------------------------------------------------------ the premises of the clause, as booleans *)
(* implicitly sequenced: every command adds one operation without a relation; no sub-circuits *)
Definition implicit_cmd (c : cmd) : bool := match c with CAdd _ None => true | _ => false end.
Definition implicit_prog (p : list cmd) : bool := forallb implicit_cmd p.

(* free of channel overlaps: two listed operations that share a channel (ChannelIdentifier.__eq__, generated from the source)
   occupy disjoint time intervals *)
Definition share_channel (a b : leaf) : bool :=
  existsb (fun x => existsb (fun y => ChannelIdentifier_eq x y || ChannelIdentifier_eq y x) (l_chans b)) (l_chans a).
Definition disjointb (s e s' e' : Z) : bool := (e <=? s') || (e' <=? s).
Definition clashb (x y : entry) : bool :=
  share_channel (e_leaf x) (e_leaf y) && negb (disjointb (e_start x) (e_end x) (e_start y) (e_end y)).
Fixpoint overlap_freeb (es : list entry) : bool :=
  match es with
  | [] => true
  | x :: t => forallb (fun y => negb (clashb x y)) t && overlap_freeb t
  end.

(* durations of the operations a program adds *)
Fixpoint cmd_durs (env : denv) (c : cmd) : list Z :=
  match c with
  | CAdd l _ | CDangling l _ => [resolve env (l_dur l)]
  | CSub _ body => (fix go (l : list cmd) : list Z := match l with [] => [] | c' :: t => cmd_durs env c' ++ go t end) body
  end.
Definition prog_durs (env : denv) (p : list cmd) : list Z := flat_map (cmd_durs env) p.
Definition nonneg_durs (env : denv) (p : list cmd) : bool := forallb (fun d => 0 <=? d) (prog_durs env p).

(* two rows of the same qubit whose indices are ordered against their start times *)
Definition out_of_order (r1 r2 : acq_row) : bool :=
  (a_qubit r1 =? a_qubit r2) && (0 <=? a_index r1) && (a_index r1 <? a_index r2) && (a_start r2 <? a_start r1).

(* ------------------------------------------------------------------ F20: the clause fails for implicit programs *)
(* Wait q1 100; Barrier q0,q1; M q0; 4 x Wait q2 1; Barrier q0,q2; M q0 -- all added without a relation.  Real classes of the
   generated table: Wait takes its duration argument, Barrier its class default (0.5 = 4 ticks), DispersiveMeasure the global
   readout time (here 2.0 = 16 ticks).  Ticks of 1/8. *)
Definition f20_env : denv := mk_env 16 8 8 8 [].
Definition f20_wait (lab q d : Z) : leaf := mk_leaf lab C_Wait [q] QubitChannel_ALL (DFixed d) None.
Definition f20_barrier (lab : Z) (qs : list Z) : leaf := mk_leaf lab C_Barrier qs QubitChannel_ALL (default_dstrat C_Barrier) None.
Definition f20_meas (lab q tg : Z) : leaf :=
  mk_leaf lab C_DispersiveMeasure [q] QubitChannel_ALL (default_dstrat C_DispersiveMeasure) (Some (q, tg)).
Definition f20_prog : list cmd :=
  [ CAdd (f20_wait 0 1 800) None;
    CAdd (f20_barrier 1 [0; 1]) None;
    CAdd (f20_meas 2 0 0) None;
    CAdd (f20_wait 3 2 8) None; CAdd (f20_wait 4 2 8) None; CAdd (f20_wait 5 2 8) None; CAdd (f20_wait 6 2 8) None;
    CAdd (f20_barrier 7 [0; 2]) None;
    CAdd (f20_meas 8 0 1) None ].
