From Coq Require Import ZArith List Bool Lia.
Import ListNotations.
From QCE Require Import Base.Prelude Core.Model.
Open Scope Z_scope.

Lemma empty_duration env : comp_duration env [] = 0.
Proof. reflexivity. Qed.
