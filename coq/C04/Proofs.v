(* C04 lemmas: the model's duration of a (sub-)circuit is the span (latest end - earliest start) of everything it contains. *)
From Coq Require Import ZArith List Bool Lia ZifyBool Arith Permutation.
Import ListNotations.
From QCE Require Import Base.Prelude Core.Model Core.Run Core.BfsProofs Core.BfsWf Core.TimesProofs Core.TimesListing Core.TimesWf C04.Run.
From Gen Require Import Ident Classes.
Open Scope Z_scope.

Lemma empty_duration env : comp_duration env [] = 0.
Proof. reflexivity. Qed.

(* ------------------------------------------------------------------ minimum / maximum of a list *)
Lemma fold_min_spec l : forall x, let m := fold_left Z.min l x in m <= x /\ (forall y, In y l -> m <= y) /\ (m = x \/ In m l).
Proof.
  induction l as [|y l IH]; intros x; simpl.
  - split; [lia|]. split; [intros y []|]. left; reflexivity.
  - destruct (IH (Z.min x y)) as (H1 & H2 & H3). split; [lia|]. split.
    + intros z [<- | Hz]; [lia | apply H2; exact Hz].
    + destruct H3 as [H3 | H3]; [|right; right; exact H3]. destruct (Z.min_spec x y) as [[_ E] | [_ E]]; [left; lia | right; left; lia].
Qed.

Lemma fold_max_spec l : forall x, let m := fold_left Z.max l x in x <= m /\ (forall y, In y l -> y <= m) /\ (m = x \/ In m l).
Proof.
  induction l as [|y l IH]; intros x; simpl.
  - split; [lia|]. split; [intros y []|]. left; reflexivity.
  - destruct (IH (Z.max x y)) as (H1 & H2 & H3). split; [lia|]. split.
    + intros z [<- | Hz]; [lia | apply H2; exact Hz].
    + destruct H3 as [H3 | H3]; [|right; right; exact H3]. destruct (Z.max_spec x y) as [[_ E] | [_ E]]; [right; left; lia | left; lia].
Qed.

Lemma fold_min_unique l x m : m <= x -> (forall y, In y l -> m <= y) -> (m = x \/ In m l) -> fold_left Z.min l x = m.
Proof.
  intros H1 H2 H3. destruct (fold_min_spec l x) as (G1 & G2 & G3). simpl in *.
  destruct H3 as [-> | H3]; destruct G3 as [G3 | G3]; try lia.
  - specialize (H2 _ G3). lia.
  - specialize (G2 _ H3). lia.
  - specialize (G2 _ H3). specialize (H2 _ G3). lia.
Qed.

Lemma fold_max_unique l x m : x <= m -> (forall y, In y l -> y <= m) -> (m = x \/ In m l) -> fold_left Z.max l x = m.
Proof.
  intros H1 H2 H3. destruct (fold_max_spec l x) as (G1 & G2 & G3). simpl in *.
  destruct H3 as [-> | H3]; destruct G3 as [G3 | G3]; try lia.
  - specialize (H2 _ G3). lia.
  - specialize (G2 _ H3). lia.
  - specialize (G2 _ H3). specialize (H2 _ G3). lia.
Qed.

Lemma zmin_list_spec d l : l <> [] -> In (zmin_list d l) l /\ forall y, In y l -> zmin_list d l <= y.
Proof.
  destruct l as [|x l]; [congruence|]. intros _. simpl. destruct (fold_min_spec l x) as (G1 & G2 & G3). simpl in *. split.
  - destruct G3 as [-> | G3]; auto.
  - intros y [<- | Hy]; [exact G1 | apply G2; exact Hy].
Qed.

Lemma zmax_list_spec d l : l <> [] -> In (zmax_list d l) l /\ forall y, In y l -> y <= zmax_list d l.
Proof.
  destruct l as [|x l]; [congruence|]. intros _. simpl. destruct (fold_max_spec l x) as (G1 & G2 & G3). simpl in *. split.
  - destruct G3 as [-> | G3]; auto.
  - intros y [<- | Hy]; [exact G1 | apply G2; exact Hy].
Qed.

Lemma zmin_list_unique d l m : In m l -> (forall y, In y l -> m <= y) -> zmin_list d l = m.
Proof.
  intros H1 H2. assert (N : l <> []) by (destruct l; [destruct H1 | congruence]).
  destruct (zmin_list_spec d l N) as [G1 G2]. specialize (H2 _ G1). specialize (G2 _ H1). lia.
Qed.

Lemma zmax_list_unique d l m : In m l -> (forall y, In y l -> y <= m) -> zmax_list d l = m.
Proof.
  intros H1 H2. assert (N : l <> []) by (destruct l; [destruct H1 | congruence]).
  destruct (zmax_list_spec d l N) as [G1 G2]. specialize (H2 _ G1). specialize (G2 _ H1). lia.
Qed.

Lemma zmin_l_eq d l : zmin_l d l = zmin_list d l.
Proof. reflexivity. Qed.

Lemma map_neq_nil {A B} (f : A -> B) l : l <> [] -> map f l <> [].
Proof. destruct l; simpl; congruence. Qed.

(* minimum / maximum under a common shift *)
Lemma zmin_list_shift d T l : l <> [] -> zmin_list d (map (fun x => x + T) l) = zmin_list d l + T.
Proof.
  intros N. destruct (zmin_list_spec d l N) as [G1 G2]. apply zmin_list_unique.
  - apply in_map_iff. exists (zmin_list d l). auto.
  - intros y Hy. apply in_map_iff in Hy as (x & <- & Hx). specialize (G2 _ Hx). lia.
Qed.

Lemma zmax_list_shift d T l : l <> [] -> zmax_list d (map (fun x => x + T) l) = zmax_list d l + T.
Proof.
  intros N. destruct (zmax_list_spec d l N) as [G1 G2]. apply zmax_list_unique.
  - apply in_map_iff. exists (zmax_list d l). auto.
  - intros y Hy. apply in_map_iff in Hy as (x & <- & Hx). specialize (G2 _ Hx). lia.
Qed.

(* minimum / maximum over a concatenation of non-empty parts = over the parts' minima / maxima *)
Lemma zmin_flat_map {A} (L : nat -> list A) (f : A -> Z) (m : nat -> Z) (is : list nat) : is <> [] ->
  (forall i, In i is -> L i <> [] /\ zmin_list 0 (map f (L i)) = m i) ->
  zmin_list 0 (map f (flat_map L is)) = zmin_list 0 (map m is).
Proof.
  intros N H. destruct (zmin_list_spec 0 (map m is) (map_neq_nil m is N)) as [G1 G2].
  apply in_map_iff in G1 as (k & Ek & Hk). apply zmin_list_unique.
  - destruct (H k Hk) as [Nk Mk]. destruct (zmin_list_spec 0 (map f (L k)) (map_neq_nil f _ Nk)) as [K1 _].
    rewrite Mk, Ek in K1. apply in_map_iff in K1 as (a & Ea & Ha). apply in_map_iff. exists a. split; [exact Ea|].
    apply in_flat_map. exists k. auto.
  - intros y Hy. apply in_map_iff in Hy as (a & <- & Ha). apply in_flat_map in Ha as (i & Hi & Ha).
    destruct (H i Hi) as [Ni Mi]. destruct (zmin_list_spec 0 (map f (L i)) (map_neq_nil f _ Ni)) as [_ K2].
    specialize (K2 (f a) (in_map f _ _ Ha)). specialize (G2 (m i) (in_map m _ _ Hi)). lia.
Qed.

Lemma zmax_flat_map {A} (L : nat -> list A) (f : A -> Z) (m : nat -> Z) (is : list nat) : is <> [] ->
  (forall i, In i is -> L i <> [] /\ zmax_list 0 (map f (L i)) = m i) ->
  zmax_list 0 (map f (flat_map L is)) = zmax_list 0 (map m is).
Proof.
  intros N H. destruct (zmax_list_spec 0 (map m is) (map_neq_nil m is N)) as [G1 G2].
  apply in_map_iff in G1 as (k & Ek & Hk). apply zmax_list_unique.
  - destruct (H k Hk) as [Nk Mk]. destruct (zmax_list_spec 0 (map f (L k)) (map_neq_nil f _ Nk)) as [K1 _].
    rewrite Mk, Ek in K1. apply in_map_iff in K1 as (a & Ea & Ha). apply in_map_iff. exists a. split; [exact Ea|].
    apply in_flat_map. exists k. auto.
  - intros y Hy. apply in_map_iff in Hy as (a & <- & Ha). apply in_flat_map in Ha as (i & Hi & Ha).
    destruct (H i Hi) as [Ni Mi]. destruct (zmax_list_spec 0 (map f (L i)) (map_neq_nil f _ Ni)) as [_ K2].
    specialize (K2 (f a) (in_map f _ _ Ha)). specialize (G2 (m i) (in_map m _ _ Hi)). lia.
Qed.

Lemma flat_map_neq_nil {A B} (L : A -> list B) (is : list A) i : In i is -> L i <> [] -> flat_map L is <> [].
Proof.
  intros Hi N E. destruct (L i) as [|b t] eqn:Eb; [congruence|].
  assert (In b (flat_map L is)) as Hb by (apply in_flat_map; exists i; rewrite Eb; simpl; auto).
  rewrite E in Hb. destruct Hb.
Qed.

Lemma zmin_list_perm d l l' : Permutation l l' -> zmin_list d l = zmin_list d l'.
Proof.
  intros P. destruct l as [|x l].
  - apply Permutation_nil in P. now subst.
  - assert (N : x :: l <> []) by congruence. destruct (zmin_list_spec d _ N) as [G1 G2]. symmetry. apply zmin_list_unique.
    + eapply Permutation_in; [exact P | exact G1].
    + intros y Hy. apply G2. eapply Permutation_in; [apply Permutation_sym; exact P | exact Hy].
Qed.

Lemma zmax_list_perm d l l' : Permutation l l' -> zmax_list d l = zmax_list d l'.
Proof.
  intros P. destruct l as [|x l].
  - apply Permutation_nil in P. now subst.
  - assert (N : x :: l <> []) by congruence. destruct (zmax_list_spec d _ N) as [G1 G2]. symmetry. apply zmax_list_unique.
    + eapply Permutation_in; [exact P | exact G1].
    + intros y Hy. apply G2. eapply Permutation_in; [apply Permutation_sym; exact P | exact Hy].
Qed.

Lemma map_nth_seq {A} (l : list A) d : map (fun i => nth i l d) (seq 0 (length l)) = l.
Proof.
  apply (nth_ext _ _ d d); [now rewrite map_length, seq_length|]. intros i Hi. rewrite map_length, seq_length in Hi.
  rewrite (nth_indep _ d (nth (length l) l d)) by (now rewrite map_length, seq_length).
  rewrite (map_nth (fun i => nth i l d) (seq 0 (length l)) (length l) i). now rewrite seq_nth.
Qed.

(* ------------------------------------------------------------------ the extent fold *)
Definition ext_lo (tm exts : list (Z * Z)) (i : nat) : Z := fst (nth i tm (0, 0)) + fst (nth i exts (0, 0)).
Definition ext_hi (tm exts : list (Z * Z)) (i : nat) : Z := fst (nth i tm (0, 0)) + snd (nth i exts (0, 0)).

Lemma extent_fold tm exts rel0 is : forall acc,
  fold_left (fun (acc : Z * Z) (i : nat) =>
               let s := fst (nth i tm (0, 0)) - rel0 in
               let '(lo, hi) := nth i exts (0, 0) in
               (Z.min (fst acc) (s + lo), Z.max (snd acc) (s + hi))) is acc
  = (fold_left Z.min (map (fun i => ext_lo tm exts i - rel0) is) (fst acc),
     fold_left Z.max (map (fun i => ext_hi tm exts i - rel0) is) (snd acc)).
Proof.
  induction is as [|i is IH]; intros [a b]; simpl; [reflexivity|]. rewrite IH. unfold ext_lo, ext_hi.
  destruct (nth i exts (0, 0)) as [lo hi]. simpl. f_equal; f_equal; lia.
Qed.

Definition rel0_of (ps : list (option nat)) (tm : list (Z * Z)) : Z :=
  zmin_list 0 (map (fun i => fst (nth i tm (0, 0))) (depth1 ps)).

Lemma extent_of_nodes_eq ps tm exts : ps <> [] ->
  extent_of_nodes ps tm exts =
    (fold_left Z.min (map (fun i => ext_lo tm exts i - rel0_of ps tm) (bfs ps)) 0,
     fold_left Z.max (map (fun i => ext_hi tm exts i - rel0_of ps tm) (bfs ps)) 0).
Proof. intros N. unfold extent_of_nodes. destruct ps as [|q ps]; [congruence|]. apply extent_fold. Qed.

(* the extent always contains the reference instant *)
Lemma extent_of_nodes_sign ps tm exts : fst (extent_of_nodes ps tm exts) <= 0 <= snd (extent_of_nodes ps tm exts).
Proof.
  destruct ps as [|q ps]; [simpl; lia|]. rewrite extent_of_nodes_eq by congruence. simpl fst. simpl snd.
  destruct (fold_min_spec (map (fun i => ext_lo tm exts i - rel0_of (q :: ps) tm) (bfs (q :: ps))) 0) as [H _].
  destruct (fold_max_spec (map (fun i => ext_hi tm exts i - rel0_of (q :: ps) tm) (bfs (q :: ps))) 0) as [G _].
  simpl in *. lia.
Qed.

Lemma ext_of_sign env o : (forall l, o = OLeaf l -> 0 <= resolve env (l_dur l)) -> fst (ext_of env o) <= 0 <= snd (ext_of env o).
Proof.
  destruct o as [l | r ns]; intros H.
  - simpl. specialize (H l eq_refl). lia.
  - rewrite ext_of_unfold. apply extent_of_nodes_sign.
Qed.

(* if some listed node's own extent contains the reference instant (a first operation does), the extent is the hull of the
   listed nodes' extents, expressed relative to the reference instant *)
Lemma extent_span ps tm exts j : ps <> [] -> In j (bfs ps) ->
  ext_lo tm exts j <= rel0_of ps tm <= ext_hi tm exts j ->
  extent_of_nodes ps tm exts =
    (zmin_list 0 (map (ext_lo tm exts) (bfs ps)) - rel0_of ps tm, zmax_list 0 (map (ext_hi tm exts) (bfs ps)) - rel0_of ps tm).
Proof.
  intros N Hj [Hlo Hhi]. rewrite extent_of_nodes_eq by exact N.
  assert (NB : bfs ps <> []) by (intros E; rewrite E in Hj; destruct Hj).
  destruct (zmin_list_spec 0 (map (ext_lo tm exts) (bfs ps)) (map_neq_nil _ _ NB)) as [A1 A2].
  destruct (zmax_list_spec 0 (map (ext_hi tm exts) (bfs ps)) (map_neq_nil _ _ NB)) as [B1 B2].
  f_equal.
  - apply fold_min_unique.
    + specialize (A2 _ (in_map (ext_lo tm exts) _ _ Hj)). lia.
    + intros y Hy. apply in_map_iff in Hy as (i & <- & Hi). specialize (A2 _ (in_map (ext_lo tm exts) _ _ Hi)). lia.
    + right. apply in_map_iff in A1 as (k & Ek & Hk). apply in_map_iff. exists k. split; [lia | exact Hk].
  - apply fold_max_unique.
    + specialize (B2 _ (in_map (ext_hi tm exts) _ _ Hj)). lia.
    + intros y Hy. apply in_map_iff in Hy as (i & <- & Hi). specialize (B2 _ (in_map (ext_hi tm exts) _ _ Hi)). lia.
    + right. apply in_map_iff in B1 as (k & Ek & Hk). apply in_map_iff. exists k. split; [lia | exact Hk].
Qed.

(* the first layer is listed *)
Lemma depth1_in_bfs ps j : In j (depth1 ps) -> In j (bfs ps).
Proof.
  intros Hj. unfold bfs, bfs_fuel, depth1 in *. pose proof max_layers_eq as M.
  destruct max_layers as [|f]; [simpl in M; lia|]. cbn [layers].
  destruct (children ps None) as [|x t] eqn:E; [destruct Hj|]. cbn [concat]. apply in_or_app. left. exact Hj.
Qed.

Lemma bfs_nonempty_depth1 ps : bfs ps <> [] -> depth1 ps <> [].
Proof.
  intros N E. apply N. unfold bfs, bfs_fuel, depth1 in *. rewrite E. destruct max_layers; reflexivity.
Qed.

(* the reference instant is the start of some first-layer node *)
Lemma rel0_of_spec ps tm : depth1 ps <> [] ->
  exists j, In j (depth1 ps) /\ rel0_of ps tm = fst (nth j tm (0, 0)).
Proof.
  intros N. destruct (zmin_list_spec 0 (map (fun i => fst (nth i tm (0, 0))) (depth1 ps)) (map_neq_nil _ _ N)) as [H _].
  apply in_map_iff in H as (j & Ej & Hj). exists j. split; [exact Hj | symmetry; exact Ej].
Qed.

(* ------------------------------------------------------------------ C04, flat graphs *)
Lemma leaf_exts env ns : (forall n, In n ns -> is_comp (n_op n) = false) ->
  forall i, (i < length ns)%nat ->
    nth i (map (fun n => ext_of env (n_op n)) ns) (0, 0) = (0, snd (nth i (node_times env None ns) (0, 0)) - fst (nth i (node_times env None ns) (0, 0))) /\
    0 = fst (nth i (map (fun n => ext_of env (n_op n)) ns) (0, 0)).
Proof.
  intros L i Hi. destruct (nth_error ns i) as [n|] eqn:En; [|apply nth_error_None in En; lia].
  rewrite (nth_indep _ (0, 0) (ext_of env (n_op n))) by (now rewrite map_length).
  rewrite (map_nth (fun n => ext_of env (n_op n)) ns n i), (nth_error_nth _ _ n En).
  rewrite node_times_eq, (times_end None _ i _ _ (node_hs_nth env ns i n En)).
  specialize (L n (nth_error_In _ _ En)). destruct (n_op n) as [l | r sub]; [|discriminate]. unfold dur_of. simpl.
  split; [f_equal; lia | reflexivity].
Qed.

Theorem flat_span env ns : ns <> [] -> (forall n, In n ns -> is_comp (n_op n) = false) ->
  (forall n l, In n ns -> n_op n = OLeaf l -> 0 <= resolve env (l_dur l)) ->
  Permutation (bfs (parents ns)) (seq 0 (length ns)) ->
  comp_duration env ns = zmax_list 0 (map snd (node_times env None ns)) - zmin_list 0 (map fst (node_times env None ns)).
Proof.
  intros N L D P. unfold comp_duration, dur_of. rewrite ext_of_unfold.
  set (tm := node_times env None ns). set (exts := map (fun n => ext_of env (n_op n)) ns). set (ps := parents ns). fold ps in P.
  assert (Nps : ps <> []) by (unfold ps, parents; apply map_neq_nil; exact N).
  assert (Nb : bfs ps <> []).
  { intros E. rewrite E in P. apply Permutation_nil in P. destruct ns; [congruence | discriminate]. }
  destruct (rel0_of_spec ps tm (bfs_nonempty_depth1 ps Nb)) as (j & Hj & Ej).
  pose proof (depth1_in_bfs ps j Hj) as Hjb.
  assert (Hjl : (j < length ns)%nat) by (apply bfs_lt_length in Hjb; unfold ps in Hjb; now rewrite parents_length in Hjb).
  assert (Elo : forall i, (i < length ns)%nat -> ext_lo tm exts i = fst (nth i tm (0, 0))).
  { intros i Hi. unfold ext_lo, exts. destruct (leaf_exts env ns L i Hi) as [_ <-]. lia. }
  assert (Ehi : forall i, (i < length ns)%nat -> ext_hi tm exts i = snd (nth i tm (0, 0))).
  { intros i Hi. unfold ext_hi, exts. destruct (leaf_exts env ns L i Hi) as [-> _]. simpl. fold tm. lia. }
  assert (Dj : fst (nth j tm (0, 0)) <= snd (nth j tm (0, 0))).
  { destruct (nth_error ns j) as [n|] eqn:En; [|apply nth_error_None in En; lia].
    unfold tm. rewrite node_times_eq, (times_end None _ j _ _ (node_hs_nth env ns j n En)).
    pose proof (nth_error_In _ _ En) as Hin. specialize (L n Hin). destruct (n_op n) as [l | r sub] eqn:Eo; [|discriminate].
    specialize (D n l Hin Eo). unfold dur_of. simpl. lia. }
  rewrite (extent_span ps tm exts j Nps Hjb) by (rewrite Elo, Ehi by exact Hjl; lia).
  assert (Len : length tm = length ns) by apply node_times_length.
  assert (E1 : zmin_list 0 (map (ext_lo tm exts) (bfs ps)) = zmin_list 0 (map fst tm)).
  { rewrite (zmin_list_perm 0 _ _ (Permutation_map (ext_lo tm exts) P)).
    rewrite <- (map_nth_seq tm (0, 0)) at 2. rewrite map_map, Len. f_equal. apply map_ext_in.
    intros i Hi. apply in_seq in Hi. apply Elo. lia. }
  assert (E2 : zmax_list 0 (map (ext_hi tm exts) (bfs ps)) = zmax_list 0 (map snd tm)).
  { rewrite (zmax_list_perm 0 _ _ (Permutation_map (ext_hi tm exts) P)).
    rewrite <- (map_nth_seq tm (0, 0)) at 2. rewrite map_map, Len. f_equal. apply map_ext_in.
    intros i Hi. apply in_seq in Hi. apply Ehi. lia. }
  rewrite E1, E2. lia.
Qed.

(* ------------------------------------------------------------------ C04 through nesting *)
(* what the span theorem needs of a (nested) operation: non-negative leaf durations; every (sub-)graph non-empty, a forest with
   backward links whose roots are the un-related nodes (Core/BfsWf.wf_nodes gives these three); blocks carry no JOINED_END link *)
Inductive span_wf (env : denv) : op -> Prop :=
| span_wf_leaf l : 0 <= resolve env (l_dur l) -> span_wf env (OLeaf l)
| span_wf_comp r ns :
    ns <> [] -> wf_parents (parents ns) -> wf_node_links ns ->
    (forall n, In n ns -> n_parent n = None -> n_link n = LNone) ->
    (forall n, In n ns -> is_comp (n_op n) = true -> block_link_ok (n_link n)) ->
    Forall (fun n => span_wf env (n_op n)) ns -> span_wf env (OComp r ns).

Lemma span_wf_links_op env o : span_wf env o -> wf_links_op o.
Proof.
  induction o as [l | r ns IH] using op_nodes_ind; intros W; [constructor|].
  inversion W as [|? ? _ _ WL _ _ WD]; subst. constructor; [exact WL|].
  rewrite Forall_forall in *. intros n Hn. apply IH; [exact Hn | apply WD; exact Hn].
Qed.

Lemma span_wf_sign env o : span_wf env o -> fst (ext_of env o) <= 0 <= snd (ext_of env o).
Proof. intros W. apply ext_of_sign. intros l ->. now inversion W. Qed.

Lemma nth_exts env ns i n : nth_error ns i = Some n -> nth i (map (fun n => ext_of env (n_op n)) ns) (0, 0) = ext_of env (n_op n).
Proof.
  intros En. assert (Hi : (i < length ns)%nat) by (apply nth_error_Some; congruence).
  rewrite (nth_indep _ (0, 0) (ext_of env (n_op n))) by (now rewrite map_length).
  rewrite (map_nth (fun n => ext_of env (n_op n)) ns n i). now rewrite (nth_error_nth _ _ n En).
Qed.

Lemma listing_node_nth env ns i n (c' : ctx) (tm : list (Z * Z)) (se : Z * Z) : nth_error ns i = Some n ->
  nth i (map (fun n => listing_op env (n_op n)) ns) (fun _ _ => []) (sub_ctx c' tm (nth i (map n_link ns) LNone)) se
  = listing_op env (n_op n) (sub_ctx c' tm (n_link n)) se.
Proof.
  intros En. assert (Hl : (i < length ns)%nat) by (apply nth_error_Some; congruence).
  rewrite (nth_indep _ (fun _ _ => []) (listing_op env (n_op n))) by (rewrite map_length; exact Hl).
  rewrite (map_nth (fun n => listing_op env (n_op n)) ns n i).
  rewrite (nth_indep (map n_link ns) LNone (n_link n)) by (rewrite map_length; exact Hl).
  rewrite (map_nth n_link ns n i). now rewrite (nth_error_nth _ _ n En).
Qed.

Lemma map_start_eshift T L : map e_start (map (eshift T) L) = map (fun x => x + T) (map e_start L).
Proof. rewrite !map_map. reflexivity. Qed.
Lemma map_end_eshift T L : map e_end (map (eshift T) L) = map (fun x => x + T) (map e_end L).
Proof. rewrite !map_map. reflexivity. Qed.

(* a root node of a well-formed graph starts at the origin of the stand-alone frame *)
Lemma root_start env ns j n : wf_node_links ns -> nth_error ns j = Some n -> n_link n = LNone ->
  fst (nth j (node_times env None ns) (0, 0)) = 0.
Proof. intros W En El. rewrite (node_times_start env None ns j n W En), El. reflexivity. Qed.

Lemma first_node_root ns : ns <> [] -> wf_parents (parents ns) -> In 0%nat (depth1 (parents ns)).
Proof.
  intros N W. unfold depth1. apply children_spec. destruct ns as [|n0 ns]; [congruence|]. simpl.
  destruct (n_parent n0) as [p|] eqn:E; [|reflexivity]. specialize (W 0%nat p). simpl in W. rewrite E in W.
  specialize (W eq_refl). lia.
Qed.

Lemma depth1_node ns j : In j (depth1 (parents ns)) -> exists n, nth_error ns j = Some n /\ n_parent n = None.
Proof.
  unfold depth1. intros H. apply children_spec in H. rewrite parents_nth_error in H.
  destruct (nth_error ns j) as [n|]; simpl in H; [|discriminate]. exists n. split; [reflexivity | now inversion H].
Qed.

(* the stand-alone listing of an operation spans exactly its inner extent *)
Definition span_claim (env : denv) (o : op) : Prop :=
  let L := listing_op env o None (0, dur_of env o) in
  L <> [] /\ zmin_list 0 (map e_start L) = fst (ext_of env o) /\ zmax_list 0 (map e_end L) = snd (ext_of env o).

Theorem standalone_span env o : span_wf env o -> span_claim env o.
Proof.
  induction o as [l | r ns IH] using op_nodes_ind; intros W.
  - unfold span_claim, dur_of. simpl. split; [congruence|]. split; [reflexivity | lia].
  - inversion W as [|? ? N WP WL WR WB WD]; subst. unfold span_claim.
    set (tm := node_times env None ns). set (exts := map (fun n => ext_of env (n_op n)) ns). set (ps := parents ns).
    rewrite Forall_forall in IH, WD.
    assert (Nps : ps <> []) by (unfold ps, parents; apply map_neq_nil; exact N).
    pose proof (first_node_root ns N WP) as H0. fold ps in H0.
    assert (N1 : depth1 ps <> []) by (intros E; rewrite E in H0; destruct H0).
    (* the reference instant is the origin, and a root contains it *)
    destruct (rel0_of_spec ps tm N1) as (j & Hj & Ej). pose proof (depth1_in_bfs ps j Hj) as Hjb.
    destruct (depth1_node ns j Hj) as (nj & Enj & Pnj). pose proof (nth_error_In _ _ Enj) as Inj.
    assert (R0 : rel0_of ps tm = 0) by (rewrite Ej; apply (root_start env ns j nj WL Enj (WR nj Inj Pnj))).
    assert (Cj : ext_lo tm exts j <= rel0_of ps tm <= ext_hi tm exts j).
    { unfold ext_lo, ext_hi, exts. rewrite (nth_exts env ns j nj Enj). rewrite <- Ej.
      pose proof (span_wf_sign env (n_op nj) (WD nj Inj)). lia. }
    rewrite ext_of_unfold. fold tm exts ps. rewrite (extent_span ps tm exts j Nps Hjb Cj), R0. simpl fst. simpl snd.
    rewrite listing_op_unfold. fold tm ps.
    (* every listed node spans its own extent, shifted to its start *)
    assert (K : forall i, In i (bfs ps) ->
              let Li := nth i (map (fun n => listing_op env (n_op n)) ns) (fun _ _ => [])
                          (sub_ctx None tm (nth i (map n_link ns) LNone)) (nth i tm (0, 0)) in
              Li <> [] /\ zmin_list 0 (map e_start Li) = ext_lo tm exts i /\ zmax_list 0 (map e_end Li) = ext_hi tm exts i).
    { intros i Hi. apply bfs_lt_length in Hi. unfold ps in Hi. rewrite parents_length in Hi.
      destruct (nth_error ns i) as [n|] eqn:En; [|apply nth_error_None in En; lia].
      pose proof (nth_error_In _ _ En) as Hin. cbv zeta. rewrite (listing_node_nth env ns i n None tm _ En).
      unfold ext_lo, ext_hi, exts. rewrite (nth_exts env ns i n En).
      destruct (n_op n) as [l | r' sub] eqn:Eo.
      - simpl. split; [congruence|]. split; [lia|]. unfold tm.
        rewrite node_times_eq, (times_end None _ i _ _ (node_hs_nth env ns i n En)), Eo. unfold dur_of. simpl. lia.
      - assert (Wsub : span_wf env (OComp r' sub)) by (rewrite <- Eo; apply WD; exact Hin).
        assert (Bn : block_link_ok (n_link n)) by (apply WB; [exact Hin | now rewrite Eo]).
        pose proof (listing_block_shift env None ns i n r' sub (0, dur_of env (OComp r' sub)) WL I En Eo
                      (span_wf_links_op env _ Wsub) Bn) as Sh. cbv zeta in Sh. fold tm in Sh. rewrite Sh.
        assert (Cl : span_claim env (OComp r' sub)) by (rewrite <- Eo; apply IH; [exact Hin | rewrite Eo; exact Wsub]).
        destruct Cl as (C1 & C2 & C3).
        split; [intros E; apply map_eq_nil in E; exact (C1 E)|].
        rewrite map_start_eshift, map_end_eshift.
        rewrite zmin_list_shift by (apply map_neq_nil; exact C1). rewrite zmax_list_shift by (apply map_neq_nil; exact C1).
        rewrite C2, C3. lia. }
    assert (Nb : bfs ps <> []) by (intros E; rewrite E in Hjb; destruct Hjb).
    split; [|split].
    + apply (flat_map_neq_nil _ _ j Hjb). exact (proj1 (K j Hjb)).
    + rewrite (zmin_flat_map _ e_start (ext_lo tm exts) (bfs ps) Nb); [lia|].
      intros i Hi. destruct (K i Hi) as (K1 & K2 & _). split; assumption.
    + rewrite (zmax_flat_map _ e_end (ext_hi tm exts) (bfs ps) Nb); [lia|].
      intros i Hi. destruct (K i Hi) as (K1 & _ & K3). split; assumption.
Qed.

(* the duration of a (sub-)circuit = latest end - earliest start over everything it lists, in every plain context *)
Theorem nested_span env r ns c se : span_wf env (OComp r ns) -> ctx_plain c ->
  let L := listing_op env (OComp r ns) c se in
  L <> [] /\ dur_of env (OComp r ns) = zmax_list 0 (map e_end L) - zmin_list 0 (map e_start L).
Proof.
  intros W P L. destruct (standalone_span env _ W) as (C1 & C2 & C3).
  unfold L. rewrite (listing_shift_comp env r ns c se (0, dur_of env (OComp r ns)) (span_wf_links_op env _ W) P).
  split; [intros E; apply map_eq_nil in E; exact (C1 E)|].
  rewrite map_start_eshift, map_end_eshift.
  rewrite zmin_list_shift by (apply map_neq_nil; exact C1). rewrite zmax_list_shift by (apply map_neq_nil; exact C1).
  rewrite C2, C3. unfold dur_of. destruct (ext_of env (OComp r ns)). simpl. lia.
Qed.

(* ------------------------------------------------------------------ C04: followers of a block *)
Theorem followers env c ns p q pn qn : wf_node_links ns -> ctx_plain c ->
  nth_error ns p = Some pn -> nth_error ns q = Some qn -> n_link qn = LRel RelationType_FOLLOWED_BY p ->
  span_wf env (n_op pn) -> block_link_ok (n_link pn) -> fst (ext_of env (n_op pn)) = 0 ->
  let tm := node_times env c ns in
  fst (nth q tm (0, 0)) = fst (nth p tm (0, 0)) + dur_of env (n_op pn) /\
  forall e, In e (listing_op env (n_op pn) (sub_ctx c tm (n_link pn)) (nth p tm (0, 0))) -> e_end e <= fst (nth q tm (0, 0)).
Proof.
  intros WL P Ep Eq Lq Wp Bp Z0 tm.
  assert (Sq : fst (nth q tm (0, 0)) = snd (nth p tm (0, 0))).
  { unfold tm. rewrite (node_times_start env c ns q qn WL Eq), Lq. simpl.
    destruct (nth p (node_times env c ns) (0, 0)); reflexivity. }
  assert (Ee : snd (nth p tm (0, 0)) = fst (nth p tm (0, 0)) + dur_of env (n_op pn)).
  { unfold tm. rewrite node_times_eq. apply (times_end c _ p _ _ (node_hs_nth env ns p pn Ep)). }
  split; [lia|]. intros e He. rewrite Sq.
  destruct (n_op pn) as [l | r sub] eqn:Eo.
  - simpl in He. destruct He as [<- | []]. simpl. lia.
  - pose proof (listing_block_shift env c ns p pn r sub (0, dur_of env (OComp r sub)) WL P Ep Eo
                  (span_wf_links_op env _ Wp) Bp) as Sh. cbv zeta in Sh. fold tm in Sh. rewrite Sh in He.
    apply in_map_iff in He as (e0 & <- & He0). destruct (standalone_span env _ Wp) as (C1 & C2 & C3).
    destruct (zmax_list_spec 0 (map e_end (listing_op env (OComp r sub) None (0, dur_of env (OComp r sub))))
                (map_neq_nil _ _ C1)) as [_ Mx].
    specialize (Mx _ (in_map e_end _ _ He0)). rewrite C3 in Mx. rewrite Ee. unfold dur_of.
    destruct (ext_of env (OComp r sub)) as [lo hi]. simpl in *. lia.
Qed.

(* ------------------------------------------------------------------ from BfsWf.wf_op to span_wf *)
(* what is left to ask of a graph the model built (wf_op holds by construction): non-negative leaf durations, no empty
   (sub-)graph, no JOINED_END link on a block *)
Inductive shape_ok (env : denv) : op -> Prop :=
| shape_leaf l : 0 <= resolve env (l_dur l) -> shape_ok env (OLeaf l)
| shape_comp r ns : ns <> [] -> (forall n, In n ns -> is_comp (n_op n) = true -> block_link_ok (n_link n)) ->
    Forall (fun n => shape_ok env (n_op n)) ns -> shape_ok env (OComp r ns).

Theorem wf_op_span_wf env o : wf_op o -> shape_ok env o -> span_wf env o.
Proof.
  induction o as [l | r ns IH] using op_nodes_ind; intros W S.
  - inversion S; subst. constructor. assumption.
  - apply wf_op_comp_inv in W as [W WD]. inversion S as [|? ? N B SD]; subst.
    constructor; try assumption.
    + exact (proj1 W).
    + apply wf_nodes_node_links. exact W.
    + intros n Hn Hp. apply In_nth_error in Hn as (i & Ei). exact (wf_nodes_root_unrelated ns i n W Ei Hp).
    + rewrite Forall_forall in *. intros n Hn. apply IH; [exact Hn | apply WD; exact Hn | apply SD; exact Hn].
Qed.

(* shape_ok is decidable: a checker for concrete programs *)
Definition block_link_okb (l : link) : bool :=
  match l with LRel RelationType_JOINED_END _ => false | _ => true end.
Fixpoint shape_okb (env : denv) (o : op) : bool :=
  match o with
  | OLeaf l => 0 <=? resolve env (l_dur l)
  | OComp _ ns =>
      negb (Nat.eqb (length ns) 0) &&
      (fix go (l : list node) : bool :=
         match l with
         | [] => true
         | Node _ lk o' :: t => (if is_comp o' then block_link_okb lk else true) && shape_okb env o' && go t
         end) ns
  end.

Lemma shape_okb_sound env o : shape_okb env o = true -> shape_ok env o.
Proof.
  induction o as [l | r ns IH] using op_nodes_ind; intros H.
  - constructor. simpl in H. lia.
  - simpl in H. apply andb_true_iff in H as [H1 H2].
    assert (K : Forall (fun n => (is_comp (n_op n) = true -> block_link_ok (n_link n)) /\ shape_ok env (n_op n)) ns).
    { clear H1. induction ns as [|[p lk o'] t IHt]; [constructor|].
      apply andb_true_iff in H2 as [H2 H3]. apply andb_true_iff in H2 as [H2 H4].
      inversion IH as [|? ? IHn IHr]; subst. constructor; [|apply IHt; assumption]. simpl in *. split; [|apply IHn; exact H4].
      intros C. rewrite C in H2. destruct lk as [|[] ?| |]; simpl in *; auto; discriminate. }
    rewrite Forall_forall in K. constructor.
    + destruct ns; [discriminate | congruence].
    + intros n Hn. exact (proj1 (K n Hn)).
    + apply Forall_forall. intros n Hn. exact (proj2 (K n Hn)).
Qed.

Corollary program_span env p c se : shape_okb env (OComp 1 (run_prog env p)) = true -> ctx_plain c ->
  let L := listing_op env (OComp 1 (run_prog env p)) c se in
  L <> [] /\ comp_duration env (run_prog env p) = zmax_list 0 (map e_end L) - zmin_list 0 (map e_start L).
Proof.
  intros H P. apply nested_span; [|exact P]. apply wf_op_span_wf; [apply run_prog_wf_op | apply shape_okb_sound; exact H].
Qed.

(* ------------------------------------------------------------------ examples *)
Definition ex_wait (lab q d : Z) : leaf := mk_leaf lab C_Wait [q] QubitChannel_ALL (DFixed d) None.
Definition ex_env : denv := mk_env 0 0 0 0 [].
Definition ex_show (ns : list node) : list (Z * Z * Z) :=
  map (fun e => (l_lab (e_leaf e), e_start e, e_end e)) (listing ex_env ns).

(* the two historical F2 witnesses: the model (following the fixed code) reports the full span *)
Definition f2_inner : list cmd :=       (* Wait 10 on q0; Wait 1 on q1 JOINED_START it: was reported as 1 *)
  [ CAdd (ex_wait 0 0 10) None; CAdd (ex_wait 1 1 1) (Some (RelationType_JOINED_START, 0%nat)) ].
Definition f2_early : list cmd :=       (* JOINED_END with the longer duration: starts before the first-added operation *)
  [ CAdd (ex_wait 0 0 2) None; CAdd (ex_wait 1 1 5) (Some (RelationType_JOINED_END, 0%nat)) ].

Example f2_inner_now : comp_duration ex_env (run_prog ex_env f2_inner) = 10 /\
                       ex_show (run_prog ex_env f2_inner) = [(0, 0, 10); (1, 0, 1)].
Proof. vm_compute. split; reflexivity. Qed.
Example f2_early_now : comp_duration ex_env (run_prog ex_env f2_early) = 5 /\
                       ex_show (run_prog ex_env f2_early) = [(0, 0, 2); (1, -3, 2)].
Proof. vm_compute. split; reflexivity. Qed.
(* as a block with a follower: the follower (Wait 2 on q1) starts at 10, after everything inside; whole span 12 *)
Example f2_inner_follower :
  let ns := run_prog ex_env [ CSub 1 f2_inner; CAdd (ex_wait 2 1 2) None ] in
  ex_show ns = [(0, 0, 10); (1, 0, 1); (2, 10, 12)] /\ comp_duration ex_env ns = 12.
Proof. vm_compute. split; reflexivity. Qed.
(* the block whose content starts 3 before its first operation has duration 5: its follower starts at 0 + 5 (the premise of the
   followers theorem, inner extent starting at 0, fails here and the follower indeed starts after the content's end 2) *)
Example f2_early_follower :
  let ns := run_prog ex_env [ CSub 1 f2_early; CAdd (ex_wait 2 1 2) None ] in
  ex_show ns = [(0, 0, 2); (1, -3, 2); (2, 5, 7)] /\ comp_duration ex_env ns = 10.
Proof. vm_compute. split; reflexivity. Qed.

(* the hypotheses of nested_span / followers are satisfiable on a non-trivial input (a block, three relation types) *)
Definition ex_prog : list cmd :=
  [ CAdd (ex_wait 0 0 10) None;
    CAdd (ex_wait 1 1 3) (Some (RelationType_JOINED_START, 0%nat));
    CAdd (ex_wait 2 2 4) (Some (RelationType_JOINED_END, 0%nat));
    CSub 3 [ CAdd (ex_wait 4 0 1) None; CAdd (ex_wait 5 1 5) (Some (RelationType_JOINED_START, 0%nat)) ];
    CAdd (ex_wait 6 0 1) None ].
Example ex_span_wf : span_wf ex_env (OComp 1 (run_prog ex_env ex_prog)).
Proof. apply wf_op_span_wf; [apply run_prog_wf_op | apply shape_okb_sound; vm_compute; reflexivity]. Qed.
Example ex_span : comp_duration ex_env (run_prog ex_env ex_prog) = 10 /\
  ex_show (run_prog ex_env ex_prog) = [(0, 0, 10); (1, 0, 3); (2, 6, 10); (4, 3, 4); (5, 3, 8); (6, 8, 9)].
Proof. vm_compute. split; reflexivity. Qed.

(* why span_wf asks for non-empty sub-graphs: an EMPTY block contributes its (content-free) instant to the extent.  Placed by an
   explicit FOLLOWED_BY behind a block whose content ends before start + duration, it lies outside everything listed: duration 7
   for a listed span of 5.  (Not reachable through run_prog, which places blocks implicitly: an empty block shares no channel
   and lands at the circuit start.) *)
Example empty_block_outside :
  let blk := OComp 1 [Node None LNone (OLeaf (ex_wait 0 0 3));
                      Node (Some 0%nat) (LRel RelationType_JOINED_END 0) (OLeaf (ex_wait 1 1 5))] in
  let outer := [Node None LNone blk; Node (Some 0%nat) (LRel RelationType_FOLLOWED_BY 0) (OComp 1 [])] in
  ext_of ex_env blk = (-2, 3) /\ comp_duration ex_env outer = 7 /\ ex_show outer = [(0, 0, 3); (1, -2, 3)].
Proof. vm_compute. repeat split; reflexivity. Qed.

(* ------------------------------------------------------------------ every build program has the shape *)
(* conditions on the PROGRAM (not on the built graph): non-negative operation durations, no empty sub-circuit; on the settings:
   non-negative defaults (copy() of a class that does not pass its duration on falls back to the class default) *)
Definition env_ok (env : denv) : Prop := forall cls, 0 <= resolve env (default_dstrat cls).

Inductive cmd_ok (env : denv) : cmd -> Prop :=
| ok_add l r : 0 <= resolve env (l_dur l) -> cmd_ok env (CAdd l r)
| ok_dangling l t : 0 <= resolve env (l_dur l) -> cmd_ok env (CDangling l t)
| ok_sub r body : body <> [] -> Forall (cmd_ok env) body -> cmd_ok env (CSub r body).

Lemma class_defaults_nonneg :
  forallb (fun cs => match cs_dur cs with DefFixed t => 0 <=? t | DefGlobal _ => true end) (no_class :: class_table) = true.
Proof. vm_compute. reflexivity. Qed.

Lemma env_ok_of_globals env : (forall k, 0 <= genv env k) -> env_ok env.
Proof.
  intros G cls. unfold default_dstrat, class_of.
  assert (H : In (nth (Z.to_nat cls) class_table no_class) (no_class :: class_table)).
  { destruct (nth_in_or_default (Z.to_nat cls) class_table no_class) as [H | ->]; [right; exact H | left; reflexivity]. }
  pose proof class_defaults_nonneg as F. rewrite forallb_forall in F. specialize (F _ H).
  destruct (cs_dur (nth (Z.to_nat cls) class_table no_class)) as [t | k]; simpl; [lia | apply G].
Qed.

Definition shape_nodes (env : denv) (ns : list node) : Prop :=
  (forall n, In n ns -> is_comp (n_op n) = true -> block_link_ok (n_link n)) /\ Forall (fun n => shape_ok env (n_op n)) ns.

Lemma shape_ok_comp_iff env r ns : shape_ok env (OComp r ns) <-> ns <> [] /\ shape_nodes env ns.
Proof.
  split.
  - intros H. inversion H; subst. split; [assumption | split; assumption].
  - intros [N [B F]]. constructor; assumption.
Qed.

Lemma shape_nodes_nil env : shape_nodes env [].
Proof. split; [intros n [] | constructor]. Qed.

Lemma new_node_block_ok env ns o l : block_link_ok l -> block_link_ok (n_link (new_node env ns o l)).
Proof.
  intros B. unfold new_node. destruct l as [| t p | ps | t]; simpl;
    repeat match goal with |- context [match ?x with _ => _ end] => destruct x end; simpl; auto.
Qed.

Lemma add_node_shape env ns o l : shape_nodes env ns -> shape_ok env o -> (is_comp o = true -> block_link_ok l) ->
  shape_nodes env (add_node env ns o l).
Proof.
  intros [B F] So Bl. rewrite add_node_eq. split.
  - intros n Hn C. apply in_app_or in Hn as [Hn | [<- | []]]; [apply B; assumption|].
    rewrite new_node_op in C. apply new_node_block_ok. apply Bl. exact C.
  - apply Forall_app. split; [exact F|]. constructor; [|constructor]. now rewrite new_node_op.
Qed.

Lemma map_link_block_ok m l : block_link_ok l -> block_link_ok (map_link m l).
Proof. destruct l as [| t p | ps | t]; simpl; auto. destruct (lookup m p); simpl; auto. Qed.

Lemma rebuild_fold_shape env ns cops : shape_nodes env ns -> Forall (shape_ok env) cops ->
  (forall i n o', nth_error ns i = Some n -> nth_error cops i = Some o' -> is_comp o' = is_comp (n_op n)) ->
  forall is new m, shape_nodes env new -> shape_nodes env (fst (fold_left (rebuild_step env ns cops) is (new, m))).
Proof.
  intros [B _] HC HK is. induction is as [|i is IH]; intros new m S; simpl; [exact S|].
  destruct (nth_error ns i) as [n|] eqn:En; [|apply IH; assumption].
  destruct (nth_error cops i) as [o'|] eqn:Eo; [|apply IH; assumption].
  apply IH. apply add_node_shape; [exact S | | ].
  - rewrite Forall_forall in HC. apply HC. eapply nth_error_In. exact Eo.
  - intros C. rewrite (HK i n o' En Eo) in C. destruct (n_op n) as [lf | r sub] eqn:On; [discriminate|]. simpl.
    apply map_link_block_ok. apply B; [eapply nth_error_In; exact En | now rewrite On].
Qed.

Lemma rebuild_step_length env ns cops st i n o' : nth_error ns i = Some n -> nth_error cops i = Some o' ->
  length (fst (rebuild_step env ns cops st i)) = S (length (fst st)).
Proof. intros En Eo. destruct st as [new m]. unfold rebuild_step. rewrite En, Eo. simpl. apply add_node_length. Qed.

Lemma rebuild_step_mono env ns cops st i : (length (fst st) <= length (fst (rebuild_step env ns cops st i)))%nat.
Proof.
  destruct st as [new m]. unfold rebuild_step. destruct (nth_error ns i) as [n|]; [|simpl; lia].
  destruct (nth_error cops i) as [o'|]; [|simpl; lia]. simpl. rewrite add_node_length. lia.
Qed.

Lemma rebuild_fold_mono env ns cops is : forall st,
  (length (fst st) <= length (fst (fold_left (rebuild_step env ns cops) is st)))%nat.
Proof.
  induction is as [|i is IH]; intros st; cbn [fold_left]; [lia|].
  etransitivity; [apply (rebuild_step_mono env ns cops st i) | apply IH].
Qed.

Lemma rebuild_nonempty env ns cops : ns <> [] -> wf_parents (parents ns) -> length cops = length ns -> rebuild env ns cops <> [].
Proof.
  intros N W L. rewrite rebuild_eq.
  pose proof (depth1_in_bfs _ _ (first_node_root ns N W)) as H0. apply in_split in H0 as (l1 & l2 & E). rewrite E.
  rewrite fold_left_app. cbn [fold_left].
  set (st1 := fold_left (rebuild_step env ns cops) l1 ([], [])).
  assert (exists n o', nth_error ns 0 = Some n /\ nth_error cops 0 = Some o') as (n & o' & En & Eo).
  { destruct ns as [|n0 ns']; [congruence|]. destruct cops as [|o0 cops']; [discriminate|]. exists n0, o0. auto. }
  pose proof (rebuild_step_length env ns cops st1 0%nat n o' En Eo) as S1.
  pose proof (rebuild_fold_mono env ns cops l2 (rebuild_step env ns cops st1 0%nat)) as M.
  intros Z0. rewrite Z0 in M. simpl in M. lia.
Qed.

Lemma shape_leaf_copy env l : env_ok env -> 0 <= resolve env (l_dur l) -> 0 <= resolve env (l_dur (copy_leaf l)).
Proof. intros E H. unfold copy_leaf. simpl. destruct (cs_copy_dur (class_of (l_cls l))); [exact H | apply E]. Qed.

Lemma is_comp_copy env o : is_comp (copy_op env o) = is_comp o.
Proof. destruct o; [reflexivity | rewrite copy_op_comp; reflexivity]. Qed.

Theorem copy_op_shape env o : env_ok env -> wf_op o -> shape_ok env o -> shape_ok env (copy_op env o).
Proof.
  intros E. induction o as [l | r ns IH] using op_nodes_ind; intros W S.
  - simpl. constructor. inversion S; subst. apply shape_leaf_copy; assumption.
  - apply wf_op_comp_inv in W as [W WD]. apply shape_ok_comp_iff in S as [N [B F]].
    rewrite copy_op_comp. apply shape_ok_comp_iff. split.
    + apply rebuild_nonempty; [exact N | exact (proj1 W) | now rewrite map_length].
    + rewrite rebuild_eq. apply rebuild_fold_shape; [split; assumption | | | apply shape_nodes_nil].
      * apply Forall_map. rewrite Forall_forall in *. intros n Hn. apply IH; [exact Hn | apply WD; exact Hn | apply F; exact Hn].
      * intros i n o' En Eo. rewrite nth_error_map, En in Eo. simpl in Eo. inversion Eo; subst. apply is_comp_copy.
Qed.

Lemma shape_ok_reps env r r' ns : shape_ok env (OComp r ns) -> shape_ok env (OComp r' ns).
Proof. rewrite !shape_ok_comp_iff. auto. Qed.

Lemma run_cmds_shape env cs : Forall (fun c => shape_ok env (cmd_op env c)) cs ->
  forall ns, shape_nodes env ns -> shape_nodes env (run_cmds env cs ns).
Proof.
  induction cs as [|c t IH]; intros F ns S; [exact S|]. inversion F as [|? ? Fc Ft]; subst.
  rewrite run_cmds_cons. apply IH; [exact Ft|]. apply add_node_shape; [exact S | exact Fc|].
  intros C. destruct c as [l [[ty p]|] | l ty | r body]; simpl in *; try discriminate. exact I.
Qed.

Theorem cmd_op_shape env c : env_ok env -> cmd_ok env c -> shape_ok env (cmd_op env c).
Proof.
  intros E. induction c as [l r | l t | r body IH] using cmd_ind'; intros K.
  - inversion K; subst. simpl. constructor. assumption.
  - inversion K; subst. simpl. constructor. assumption.
  - inversion K as [| |? ? N KB]; subst. simpl.
    assert (S : shape_ok env (OComp 1 (run_cmds env body []))).
    { apply shape_ok_comp_iff. split.
      - intros Z0. apply (f_equal (@length _)) in Z0. rewrite run_cmds_length in Z0. destruct body; [congruence | discriminate].
      - apply run_cmds_shape; [|apply shape_nodes_nil]. rewrite Forall_forall in *. intros c Hc. apply IH; [exact Hc | apply KB; exact Hc]. }
    pose proof (copy_op_shape env _ E (run_prog_wf_op env 1 body) S) as C. rewrite copy_op_comp in C.
    rewrite copy_nodes_eq. exact (shape_ok_reps env 1 r _ C).
Qed.

Theorem run_prog_shape env p : env_ok env -> p <> [] -> Forall (cmd_ok env) p -> shape_ok env (OComp 1 (run_prog env p)).
Proof.
  intros E N K. apply shape_ok_comp_iff. split.
  - intros Z0. apply (f_equal (@length _)) in Z0. unfold run_prog in Z0. rewrite run_cmds_length in Z0.
    destruct p; [congruence | discriminate].
  - apply run_cmds_shape; [|apply shape_nodes_nil]. rewrite Forall_forall in *. intros c Hc. apply cmd_op_shape; [exact E | apply K; exact Hc].
Qed.

(* C04 for every build program without empty sub-circuits, non-negative durations *)
Theorem program_span_all env p c se : env_ok env -> p <> [] -> Forall (cmd_ok env) p -> ctx_plain c ->
  let L := listing_op env (OComp 1 (run_prog env p)) c se in
  L <> [] /\ comp_duration env (run_prog env p) = zmax_list 0 (map e_end L) - zmin_list 0 (map e_start L).
Proof.
  intros E N K P. apply nested_span; [|exact P]. apply wf_op_span_wf; [apply run_prog_wf_op | apply run_prog_shape; assumption].
Qed.

Example ex_prog_ok : env_ok ex_env /\ Forall (cmd_ok ex_env) ex_prog.
Proof.
  split; [apply env_ok_of_globals; intros []; vm_compute; discriminate|].
  repeat constructor; try (vm_compute; discriminate); congruence.
Qed.

(* ------------------------------------------------------------------ ... and keeps it when repetitions are unrolled *)
Lemma extend_fold_shape env other rel : shape_nodes env other -> block_link_ok rel ->
  forall is cur m, shape_nodes env cur -> shape_nodes env (fst (fold_left (extend_step env other rel) is (cur, m))).
Proof.
  intros [B F] R is. induction is as [|i is IH]; intros cur m S; simpl; [exact S|].
  destruct (nth_error other i) as [n|] eqn:En; [|apply IH; assumption].
  pose proof (nth_error_In _ _ En) as Hin. apply IH. apply add_node_shape; [exact S | | ].
  - rewrite Forall_forall in F. apply F. exact Hin.
  - intros C. destruct (has_relation (n_link n)); [apply map_link_block_ok; apply B; assumption | exact R].
Qed.

Lemma extend_step_mono env other rel st i : (length (fst st) <= length (fst (extend_step env other rel st i)))%nat.
Proof.
  destruct st as [cur m]. unfold extend_step. destruct (nth_error other i) as [n|]; [|simpl; lia].
  simpl. rewrite add_node_length. lia.
Qed.

Lemma extend_fold_mono env other rel is : forall st,
  (length (fst st) <= length (fst (fold_left (extend_step env other rel) is st)))%nat.
Proof.
  induction is as [|i is IH]; intros st; cbn [fold_left]; [lia|].
  etransitivity; [apply (extend_step_mono env other rel st i) | apply IH].
Qed.

Lemma extend_shape env r ns other : shape_ok env (OComp r ns) -> shape_nodes env other -> shape_ok env (OComp r (extend env ns other)).
Proof.
  intros S SO. apply shape_ok_comp_iff in S as [N S]. apply shape_ok_comp_iff. rewrite extend_eq. split.
  - intros Z0. pose proof (extend_fold_mono env other (match ns with [] => LNone | _ => LMulti (graph_leaves (parents ns)) end)
                             (bfs (parents other)) (ns, [])) as M.
    rewrite Z0 in M. simpl in M. destruct ns; [congruence | simpl in M; lia].
  - apply extend_fold_shape; [exact SO | destruct ns; exact I | exact S].
Qed.

Lemma copy_nodes_shape env ns : env_ok env -> wf_op (OComp 1 ns) -> shape_ok env (OComp 1 ns) -> shape_ok env (OComp 1 (copy_nodes env ns)).
Proof.
  intros E W S. pose proof (copy_op_shape env _ E W S) as C. rewrite copy_op_comp in C. now rewrite copy_nodes_eq.
Qed.

Lemma repeat_nodes_shape env r ns times : env_ok env -> wf_op (OComp r ns) -> shape_ok env (OComp r ns) ->
  shape_ok env (OComp r (repeat_nodes env ns times)).
Proof.
  intros E W S. unfold repeat_nodes. apply (iter_n_inv (fun x => shape_ok env (OComp r x))); [|exact S].
  intros x Sx. apply extend_shape; [exact Sx|].
  pose proof (copy_nodes_shape env ns E (wf_op_reps r 1 ns W) (shape_ok_reps env r 1 ns S)) as S1.
  pose proof (copy_nodes_shape env _ E (copy_nodes_wf_op env 1 ns) S1) as S2.
  apply shape_ok_comp_iff in S2. exact (proj2 S2).
Qed.

Theorem apply_mods_fuel_shape env fuel : env_ok env -> forall reps r' ns, wf_op (OComp reps ns) -> shape_ok env (OComp reps ns) ->
  shape_ok env (OComp r' (apply_mods_fuel fuel env reps ns)).
Proof.
  intros E. induction fuel as [|f IH]; intros reps r' ns W S; simpl; [apply (shape_ok_reps env reps); exact S|].
  pose proof (repeat_nodes_wf_op env reps ns reps W) as WR. apply wf_op_comp_inv in WR as [_ WD].
  pose proof (repeat_nodes_shape env reps ns reps E W S) as SR. apply shape_ok_comp_iff in SR as [N [B F]].
  apply shape_ok_comp_iff. split; [apply map_neq_nil; exact N|]. rewrite Forall_forall in *. split.
  - intros m Hm C. apply in_map_iff in Hm as (n & <- & Hn). specialize (B n Hn).
    destruct n as [p l [lf | r sub]]; simpl in *; [discriminate | apply B; reflexivity].
  - apply Forall_forall. intros m Hm. apply in_map_iff in Hm as (n & <- & Hn). specialize (WD n Hn). specialize (F n Hn).
    destruct n as [p l [lf | r sub]]; simpl in *; [exact F | apply IH; assumption].
Qed.

Theorem unrolled_span_all env p c se : env_ok env -> p <> [] -> Forall (cmd_ok env) p -> ctx_plain c ->
  let ns := apply_modifiers env 1 (run_prog env p) in
  let L := listing_op env (OComp 1 ns) c se in
  L <> [] /\ comp_duration env ns = zmax_list 0 (map e_end L) - zmin_list 0 (map e_start L).
Proof.
  intros E N K P. apply nested_span; [|exact P]. apply wf_op_span_wf.
  - apply apply_modifiers_wf_op. apply run_prog_wf_op.
  - apply apply_mods_fuel_shape; [exact E | apply run_prog_wf_op | apply run_prog_shape; assumption].
Qed.
