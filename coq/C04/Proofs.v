(* C04 lemmas: the model's duration of a (sub-)circuit is the span (latest end - earliest start) of everything it contains. *)
From Coq Require Import ZArith List Bool Lia ZifyBool Arith Permutation.
Import ListNotations.
From QCE Require Import Base.Prelude Core.Model Core.Run Core.BfsProofs Core.BfsWf Core.TimesProofs Core.TimesListing Core.TimesWf C04.Run.
From Gen Require Import Ident Classes.
Open Scope Z_scope.

Lemma empty_duration env : comp_duration env [] = 0.
Proof. reflexivity. Qed.

(* ------------------------------------------------------------------ minimum / maximum of a list *)
Lemma fold_min_spec l : forall x, let m := fold_left Z.min l x in m <= x /\ (forall y, In y l -> m <= y) /\ (m = x \/ In m l).
Proof.
  induction l as [|y l IH]; intros x; simpl.
  - split; [lia|]. split; [intros y []|]. left; reflexivity.
  - destruct (IH (Z.min x y)) as (H1 & H2 & H3). split; [lia|]. split.
    + intros z [<- | Hz]; [lia | apply H2; exact Hz].
    + destruct H3 as [H3 | H3]; [|right; right; exact H3]. destruct (Z.min_spec x y) as [[_ E] | [_ E]]; [left; lia | right; left; lia].
Qed.

Lemma fold_max_spec l : forall x, let m := fold_left Z.max l x in x <= m /\ (forall y, In y l -> y <= m) /\ (m = x \/ In m l).
Proof.
  induction l as [|y l IH]; intros x; simpl.
  - split; [lia|]. split; [intros y []|]. left; reflexivity.
  - destruct (IH (Z.max x y)) as (H1 & H2 & H3). split; [lia|]. split.
    + intros z [<- | Hz]; [lia | apply H2; exact Hz].
    + destruct H3 as [H3 | H3]; [|right; right; exact H3]. destruct (Z.max_spec x y) as [[_ E] | [_ E]]; [right; left; lia | left; lia].
Qed.

Lemma fold_min_unique l x m : m <= x -> (forall y, In y l -> m <= y) -> (m = x \/ In m l) -> fold_left Z.min l x = m.
Proof.
  intros H1 H2 H3. destruct (fold_min_spec l x) as (G1 & G2 & G3). simpl in *.
  destruct H3 as [-> | H3]; destruct G3 as [G3 | G3]; try lia.
  - specialize (H2 _ G3). lia.
  - specialize (G2 _ H3). lia.
  - specialize (G2 _ H3). specialize (H2 _ G3). lia.
Qed.

Lemma fold_max_unique l x m : x <= m -> (forall y, In y l -> y <= m) -> (m = x \/ In m l) -> fold_left Z.max l x = m.
Proof.
  intros H1 H2 H3. destruct (fold_max_spec l x) as (G1 & G2 & G3). simpl in *.
  destruct H3 as [-> | H3]; destruct G3 as [G3 | G3]; try lia.
  - specialize (H2 _ G3). lia.
  - specialize (G2 _ H3). lia.
  - specialize (G2 _ H3). specialize (H2 _ G3). lia.
Qed.

Lemma zmin_list_spec d l : l <> [] -> In (zmin_list d l) l /\ forall y, In y l -> zmin_list d l <= y.
Proof.
  destruct l as [|x l]; [congruence|]. intros _. simpl. destruct (fold_min_spec l x) as (G1 & G2 & G3). simpl in *. split.
  - destruct G3 as [-> | G3]; auto.
  - intros y [<- | Hy]; [exact G1 | apply G2; exact Hy].
Qed.

Lemma zmax_list_spec d l : l <> [] -> In (zmax_list d l) l /\ forall y, In y l -> y <= zmax_list d l.
Proof.
  destruct l as [|x l]; [congruence|]. intros _. simpl. destruct (fold_max_spec l x) as (G1 & G2 & G3). simpl in *. split.
  - destruct G3 as [-> | G3]; auto.
  - intros y [<- | Hy]; [exact G1 | apply G2; exact Hy].
Qed.

Lemma zmin_list_unique d l m : In m l -> (forall y, In y l -> m <= y) -> zmin_list d l = m.
Proof.
  intros H1 H2. assert (N : l <> []) by (destruct l; [destruct H1 | congruence]).
  destruct (zmin_list_spec d l N) as [G1 G2]. specialize (H2 _ G1). specialize (G2 _ H1). lia.
Qed.

Lemma zmax_list_unique d l m : In m l -> (forall y, In y l -> y <= m) -> zmax_list d l = m.
Proof.
  intros H1 H2. assert (N : l <> []) by (destruct l; [destruct H1 | congruence]).
  destruct (zmax_list_spec d l N) as [G1 G2]. specialize (H2 _ G1). specialize (G2 _ H1). lia.
Qed.

Lemma zmin_l_eq d l : zmin_l d l = zmin_list d l.
Proof. reflexivity. Qed.

Lemma map_neq_nil {A B} (f : A -> B) l : l <> [] -> map f l <> [].
Proof. destruct l; simpl; congruence. Qed.

(* minimum / maximum under a common shift *)
Lemma zmin_list_shift d T l : l <> [] -> zmin_list d (map (fun x => x + T) l) = zmin_list d l + T.
Proof.
  intros N. destruct (zmin_list_spec d l N) as [G1 G2]. apply zmin_list_unique.
  - apply in_map_iff. exists (zmin_list d l). auto.
  - intros y Hy. apply in_map_iff in Hy as (x & <- & Hx). specialize (G2 _ Hx). lia.
Qed.

Lemma zmax_list_shift d T l : l <> [] -> zmax_list d (map (fun x => x + T) l) = zmax_list d l + T.
Proof.
  intros N. destruct (zmax_list_spec d l N) as [G1 G2]. apply zmax_list_unique.
  - apply in_map_iff. exists (zmax_list d l). auto.
  - intros y Hy. apply in_map_iff in Hy as (x & <- & Hx). specialize (G2 _ Hx). lia.
Qed.

(* minimum / maximum over a concatenation of non-empty parts = over the parts' minima / maxima *)
Lemma zmin_flat_map {A} (L : nat -> list A) (f : A -> Z) (m : nat -> Z) (is : list nat) : is <> [] ->
  (forall i, In i is -> L i <> [] /\ zmin_list 0 (map f (L i)) = m i) ->
  zmin_list 0 (map f (flat_map L is)) = zmin_list 0 (map m is).
Proof.
  intros N H. destruct (zmin_list_spec 0 (map m is) (map_neq_nil m is N)) as [G1 G2].
  apply in_map_iff in G1 as (k & Ek & Hk). apply zmin_list_unique.
  - destruct (H k Hk) as [Nk Mk]. destruct (zmin_list_spec 0 (map f (L k)) (map_neq_nil f _ Nk)) as [K1 _].
    rewrite Mk, Ek in K1. apply in_map_iff in K1 as (a & Ea & Ha). apply in_map_iff. exists a. split; [exact Ea|].
    apply in_flat_map. exists k. auto.
  - intros y Hy. apply in_map_iff in Hy as (a & <- & Ha). apply in_flat_map in Ha as (i & Hi & Ha).
    destruct (H i Hi) as [Ni Mi]. destruct (zmin_list_spec 0 (map f (L i)) (map_neq_nil f _ Ni)) as [_ K2].
    specialize (K2 (f a) (in_map f _ _ Ha)). specialize (G2 (m i) (in_map m _ _ Hi)). lia.
Qed.

Lemma zmax_flat_map {A} (L : nat -> list A) (f : A -> Z) (m : nat -> Z) (is : list nat) : is <> [] ->
  (forall i, In i is -> L i <> [] /\ zmax_list 0 (map f (L i)) = m i) ->
  zmax_list 0 (map f (flat_map L is)) = zmax_list 0 (map m is).
Proof.
  intros N H. destruct (zmax_list_spec 0 (map m is) (map_neq_nil m is N)) as [G1 G2].
  apply in_map_iff in G1 as (k & Ek & Hk). apply zmax_list_unique.
  - destruct (H k Hk) as [Nk Mk]. destruct (zmax_list_spec 0 (map f (L k)) (map_neq_nil f _ Nk)) as [K1 _].
    rewrite Mk, Ek in K1. apply in_map_iff in K1 as (a & Ea & Ha). apply in_map_iff. exists a. split; [exact Ea|].
    apply in_flat_map. exists k. auto.
  - intros y Hy. apply in_map_iff in Hy as (a & <- & Ha). apply in_flat_map in Ha as (i & Hi & Ha).
    destruct (H i Hi) as [Ni Mi]. destruct (zmax_list_spec 0 (map f (L i)) (map_neq_nil f _ Ni)) as [_ K2].
    specialize (K2 (f a) (in_map f _ _ Ha)). specialize (G2 (m i) (in_map m _ _ Hi)). lia.
Qed.

Lemma flat_map_neq_nil {A B} (L : A -> list B) (is : list A) i : In i is -> L i <> [] -> flat_map L is <> [].
Proof.
  intros Hi N E. destruct (L i) as [|b t] eqn:Eb; [congruence|].
  assert (In b (flat_map L is)) as Hb by (apply in_flat_map; exists i; rewrite Eb; simpl; auto).
  rewrite E in Hb. destruct Hb.
Qed.

Lemma zmin_list_perm d l l' : Permutation l l' -> zmin_list d l = zmin_list d l'.
Proof.
  intros P. destruct l as [|x l].
  - apply Permutation_nil in P. now subst.
  - assert (N : x :: l <> []) by congruence. destruct (zmin_list_spec d _ N) as [G1 G2]. symmetry. apply zmin_list_unique.
    + eapply Permutation_in; [exact P | exact G1].
    + intros y Hy. apply G2. eapply Permutation_in; [apply Permutation_sym; exact P | exact Hy].
Qed.

Lemma zmax_list_perm d l l' : Permutation l l' -> zmax_list d l = zmax_list d l'.
Proof.
  intros P. destruct l as [|x l].
  - apply Permutation_nil in P. now subst.
  - assert (N : x :: l <> []) by congruence. destruct (zmax_list_spec d _ N) as [G1 G2]. symmetry. apply zmax_list_unique.
    + eapply Permutation_in; [exact P | exact G1].
    + intros y Hy. apply G2. eapply Permutation_in; [apply Permutation_sym; exact P | exact Hy].
Qed.

Lemma map_nth_seq {A} (l : list A) d : map (fun i => nth i l d) (seq 0 (length l)) = l.
Proof.
  apply (nth_ext _ _ d d); [now rewrite map_length, seq_length|]. intros i Hi. rewrite map_length, seq_length in Hi.
  rewrite (nth_indep _ d (nth (length l) l d)) by (now rewrite map_length, seq_length).
  rewrite (map_nth (fun i => nth i l d) (seq 0 (length l)) (length l) i). now rewrite seq_nth.
Qed.

(* ------------------------------------------------------------------ the extent fold *)
Definition ext_lo (tm exts : list (Z * Z)) (i : nat) : Z := fst (nth i tm (0, 0)) + fst (nth i exts (0, 0)).
Definition ext_hi (tm exts : list (Z * Z)) (i : nat) : Z := fst (nth i tm (0, 0)) + snd (nth i exts (0, 0)).

Lemma extent_fold tm exts rel0 is : forall acc,
  fold_left (fun (acc : Z * Z) (i : nat) =>
               let s := fst (nth i tm (0, 0)) - rel0 in
               let '(lo, hi) := nth i exts (0, 0) in
               (Z.min (fst acc) (s + lo), Z.max (snd acc) (s + hi))) is acc
  = (fold_left Z.min (map (fun i => ext_lo tm exts i - rel0) is) (fst acc),
     fold_left Z.max (map (fun i => ext_hi tm exts i - rel0) is) (snd acc)).
Proof.
  induction is as [|i is IH]; intros [a b]; simpl; [reflexivity|]. rewrite IH. unfold ext_lo, ext_hi.
  destruct (nth i exts (0, 0)) as [lo hi]. simpl. f_equal; f_equal; lia.
Qed.

Definition rel0_of (ps : list (option nat)) (tm : list (Z * Z)) : Z :=
  zmin_list 0 (map (fun i => fst (nth i tm (0, 0))) (depth1 ps)).

Lemma extent_of_nodes_eq ps tm exts : ps <> [] ->
  extent_of_nodes ps tm exts =
    (fold_left Z.min (map (fun i => ext_lo tm exts i - rel0_of ps tm) (bfs ps)) 0,
     fold_left Z.max (map (fun i => ext_hi tm exts i - rel0_of ps tm) (bfs ps)) 0).
Proof. intros N. unfold extent_of_nodes. destruct ps as [|q ps]; [congruence|]. apply extent_fold. Qed.

(* the extent always contains the reference instant *)
Lemma extent_of_nodes_sign ps tm exts : fst (extent_of_nodes ps tm exts) <= 0 <= snd (extent_of_nodes ps tm exts).
Proof.
  destruct ps as [|q ps]; [simpl; lia|]. rewrite extent_of_nodes_eq by congruence. simpl fst. simpl snd.
  destruct (fold_min_spec (map (fun i => ext_lo tm exts i - rel0_of (q :: ps) tm) (bfs (q :: ps))) 0) as [H _].
  destruct (fold_max_spec (map (fun i => ext_hi tm exts i - rel0_of (q :: ps) tm) (bfs (q :: ps))) 0) as [G _].
  simpl in *. lia.
Qed.

Lemma ext_of_sign env o : (forall l, o = OLeaf l -> 0 <= resolve env (l_dur l)) -> fst (ext_of env o) <= 0 <= snd (ext_of env o).
Proof.
  destruct o as [l | r ns]; intros H.
  - simpl. specialize (H l eq_refl). lia.
  - rewrite ext_of_unfold. apply extent_of_nodes_sign.
Qed.

(* if some listed node's own extent contains the reference instant (a first operation does), the extent is the hull of the
   listed nodes' extents, expressed relative to the reference instant *)
Lemma extent_span ps tm exts j : ps <> [] -> In j (bfs ps) ->
  ext_lo tm exts j <= rel0_of ps tm <= ext_hi tm exts j ->
  extent_of_nodes ps tm exts =
    (zmin_list 0 (map (ext_lo tm exts) (bfs ps)) - rel0_of ps tm, zmax_list 0 (map (ext_hi tm exts) (bfs ps)) - rel0_of ps tm).
Proof.
  intros N Hj [Hlo Hhi]. rewrite extent_of_nodes_eq by exact N.
  assert (NB : bfs ps <> []) by (intros E; rewrite E in Hj; destruct Hj).
  destruct (zmin_list_spec 0 (map (ext_lo tm exts) (bfs ps)) (map_neq_nil _ _ NB)) as [A1 A2].
  destruct (zmax_list_spec 0 (map (ext_hi tm exts) (bfs ps)) (map_neq_nil _ _ NB)) as [B1 B2].
  f_equal.
  - apply fold_min_unique.
    + specialize (A2 _ (in_map (ext_lo tm exts) _ _ Hj)). lia.
    + intros y Hy. apply in_map_iff in Hy as (i & <- & Hi). specialize (A2 _ (in_map (ext_lo tm exts) _ _ Hi)). lia.
    + right. apply in_map_iff in A1 as (k & Ek & Hk). apply in_map_iff. exists k. split; [lia | exact Hk].
  - apply fold_max_unique.
    + specialize (B2 _ (in_map (ext_hi tm exts) _ _ Hj)). lia.
    + intros y Hy. apply in_map_iff in Hy as (i & <- & Hi). specialize (B2 _ (in_map (ext_hi tm exts) _ _ Hi)). lia.
    + right. apply in_map_iff in B1 as (k & Ek & Hk). apply in_map_iff. exists k. split; [lia | exact Hk].
Qed.

(* the first layer is listed *)
Lemma depth1_in_bfs ps j : In j (depth1 ps) -> In j (bfs ps).
Proof.
  intros Hj. unfold bfs, bfs_fuel, depth1 in *. pose proof max_layers_eq as M.
  destruct max_layers as [|f]; [simpl in M; lia|]. cbn [layers].
  destruct (children ps None) as [|x t] eqn:E; [destruct Hj|]. cbn [concat]. apply in_or_app. left. exact Hj.
Qed.

Lemma bfs_nonempty_depth1 ps : bfs ps <> [] -> depth1 ps <> [].
Proof.
  intros N E. apply N. unfold bfs, bfs_fuel, depth1 in *. rewrite E. destruct max_layers; reflexivity.
Qed.

(* the reference instant is the start of some first-layer node *)
Lemma rel0_of_spec ps tm : depth1 ps <> [] ->
  exists j, In j (depth1 ps) /\ rel0_of ps tm = fst (nth j tm (0, 0)).
Proof.
  intros N. destruct (zmin_list_spec 0 (map (fun i => fst (nth i tm (0, 0))) (depth1 ps)) (map_neq_nil _ _ N)) as [H _].
  apply in_map_iff in H as (j & Ej & Hj). exists j. split; [exact Hj | symmetry; exact Ej].
Qed.

(* ------------------------------------------------------------------ C04, flat graphs *)
Lemma leaf_exts env ns : (forall n, In n ns -> is_comp (n_op n) = false) ->
  forall i, (i < length ns)%nat ->
    nth i (map (fun n => ext_of env (n_op n)) ns) (0, 0) = (0, snd (nth i (node_times env None ns) (0, 0)) - fst (nth i (node_times env None ns) (0, 0))) /\
    0 = fst (nth i (map (fun n => ext_of env (n_op n)) ns) (0, 0)).
Proof.
  intros L i Hi. destruct (nth_error ns i) as [n|] eqn:En; [|apply nth_error_None in En; lia].
  rewrite (nth_indep _ (0, 0) (ext_of env (n_op n))) by (now rewrite map_length).
  rewrite (map_nth (fun n => ext_of env (n_op n)) ns n i), (nth_error_nth _ _ n En).
  rewrite node_times_eq, (times_end None _ i _ _ (node_hs_nth env ns i n En)).
  specialize (L n (nth_error_In _ _ En)). destruct (n_op n) as [l | r sub]; [|discriminate]. unfold dur_of. simpl.
  split; [f_equal; lia | reflexivity].
Qed.

Theorem flat_span env ns : ns <> [] -> (forall n, In n ns -> is_comp (n_op n) = false) ->
  (forall n l, In n ns -> n_op n = OLeaf l -> 0 <= resolve env (l_dur l)) ->
  Permutation (bfs (parents ns)) (seq 0 (length ns)) ->
  comp_duration env ns = zmax_list 0 (map snd (node_times env None ns)) - zmin_list 0 (map fst (node_times env None ns)).
Proof.
  intros N L D P. unfold comp_duration, dur_of. rewrite ext_of_unfold.
  set (tm := node_times env None ns). set (exts := map (fun n => ext_of env (n_op n)) ns). set (ps := parents ns). fold ps in P.
  assert (Nps : ps <> []) by (unfold ps, parents; apply map_neq_nil; exact N).
  assert (Nb : bfs ps <> []).
  { intros E. rewrite E in P. apply Permutation_nil in P. destruct ns; [congruence | discriminate]. }
  destruct (rel0_of_spec ps tm (bfs_nonempty_depth1 ps Nb)) as (j & Hj & Ej).
  pose proof (depth1_in_bfs ps j Hj) as Hjb.
  assert (Hjl : (j < length ns)%nat) by (apply bfs_lt_length in Hjb; unfold ps in Hjb; now rewrite parents_length in Hjb).
  assert (Elo : forall i, (i < length ns)%nat -> ext_lo tm exts i = fst (nth i tm (0, 0))).
  { intros i Hi. unfold ext_lo, exts. destruct (leaf_exts env ns L i Hi) as [_ <-]. lia. }
  assert (Ehi : forall i, (i < length ns)%nat -> ext_hi tm exts i = snd (nth i tm (0, 0))).
  { intros i Hi. unfold ext_hi, exts. destruct (leaf_exts env ns L i Hi) as [-> _]. simpl. fold tm. lia. }
  assert (Dj : fst (nth j tm (0, 0)) <= snd (nth j tm (0, 0))).
  { destruct (nth_error ns j) as [n|] eqn:En; [|apply nth_error_None in En; lia].
    unfold tm. rewrite node_times_eq, (times_end None _ j _ _ (node_hs_nth env ns j n En)).
    pose proof (nth_error_In _ _ En) as Hin. specialize (L n Hin). destruct (n_op n) as [l | r sub] eqn:Eo; [|discriminate].
    specialize (D n l Hin Eo). unfold dur_of. simpl. lia. }
  rewrite (extent_span ps tm exts j Nps Hjb) by (rewrite Elo, Ehi by exact Hjl; lia).
  assert (Len : length tm = length ns) by apply node_times_length.
  assert (E1 : zmin_list 0 (map (ext_lo tm exts) (bfs ps)) = zmin_list 0 (map fst tm)).
  { rewrite (zmin_list_perm 0 _ _ (Permutation_map (ext_lo tm exts) P)).
    rewrite <- (map_nth_seq tm (0, 0)) at 2. rewrite map_map, Len. f_equal. apply map_ext_in.
    intros i Hi. apply in_seq in Hi. apply Elo. lia. }
  assert (E2 : zmax_list 0 (map (ext_hi tm exts) (bfs ps)) = zmax_list 0 (map snd tm)).
  { rewrite (zmax_list_perm 0 _ _ (Permutation_map (ext_hi tm exts) P)).
    rewrite <- (map_nth_seq tm (0, 0)) at 2. rewrite map_map, Len. f_equal. apply map_ext_in.
    intros i Hi. apply in_seq in Hi. apply Ehi. lia. }
  rewrite E1, E2. lia.
Qed.

(* ------------------------------------------------------------------ C04 through nesting *)
(* what the span theorem needs of a (nested) operation: non-negative leaf durations; every (sub-)graph non-empty, a forest with
   backward links whose roots are the un-related nodes (Core/BfsWf.wf_nodes gives these three); blocks carry no JOINED_END link *)
Inductive span_wf (env : denv) : op -> Prop :=
| span_wf_leaf l : 0 <= resolve env (l_dur l) -> span_wf env (OLeaf l)
| span_wf_comp r ns :
    ns <> [] -> wf_parents (parents ns) -> wf_node_links ns ->
    (forall n, In n ns -> n_parent n = None -> n_link n = LNone) ->
    (forall n, In n ns -> is_comp (n_op n) = true -> block_link_ok (n_link n)) ->
    Forall (fun n => span_wf env (n_op n)) ns -> span_wf env (OComp r ns).

Lemma span_wf_links_op env o : span_wf env o -> wf_links_op o.
Proof.
  induction o as [l | r ns IH] using op_nodes_ind; intros W; [constructor|].
  inversion W as [|? ? _ _ WL _ _ WD]; subst. constructor; [exact WL|].
  rewrite Forall_forall in *. intros n Hn. apply IH; [exact Hn | apply WD; exact Hn].
Qed.

Lemma span_wf_sign env o : span_wf env o -> fst (ext_of env o) <= 0 <= snd (ext_of env o).
Proof. intros W. apply ext_of_sign. intros l ->. now inversion W. Qed.

Lemma nth_exts env ns i n : nth_error ns i = Some n -> nth i (map (fun n => ext_of env (n_op n)) ns) (0, 0) = ext_of env (n_op n).
Proof.
  intros En. assert (Hi : (i < length ns)%nat) by (apply nth_error_Some; congruence).
  rewrite (nth_indep _ (0, 0) (ext_of env (n_op n))) by (now rewrite map_length).
  rewrite (map_nth (fun n => ext_of env (n_op n)) ns n i). now rewrite (nth_error_nth _ _ n En).
Qed.

Lemma listing_node_nth env ns i n (c' : ctx) (tm : list (Z * Z)) (se : Z * Z) : nth_error ns i = Some n ->
  nth i (map (fun n => listing_op env (n_op n)) ns) (fun _ _ => []) (sub_ctx c' tm (nth i (map n_link ns) LNone)) se
  = listing_op env (n_op n) (sub_ctx c' tm (n_link n)) se.
Proof.
  intros En. assert (Hl : (i < length ns)%nat) by (apply nth_error_Some; congruence).
  rewrite (nth_indep _ (fun _ _ => []) (listing_op env (n_op n))) by (rewrite map_length; exact Hl).
  rewrite (map_nth (fun n => listing_op env (n_op n)) ns n i).
  rewrite (nth_indep (map n_link ns) LNone (n_link n)) by (rewrite map_length; exact Hl).
  rewrite (map_nth n_link ns n i). now rewrite (nth_error_nth _ _ n En).
Qed.

Lemma map_start_eshift T L : map e_start (map (eshift T) L) = map (fun x => x + T) (map e_start L).
Proof. rewrite !map_map. reflexivity. Qed.
Lemma map_end_eshift T L : map e_end (map (eshift T) L) = map (fun x => x + T) (map e_end L).
Proof. rewrite !map_map. reflexivity. Qed.

(* a root node of a well-formed graph starts at the origin of the stand-alone frame *)
Lemma root_start env ns j n : wf_node_links ns -> nth_error ns j = Some n -> n_link n = LNone ->
  fst (nth j (node_times env None ns) (0, 0)) = 0.
Proof. intros W En El. rewrite (node_times_start env None ns j n W En), El. reflexivity. Qed.

Lemma first_node_root ns : ns <> [] -> wf_parents (parents ns) -> In 0%nat (depth1 (parents ns)).
Proof.
  intros N W. unfold depth1. apply children_spec. destruct ns as [|n0 ns]; [congruence|]. simpl.
  destruct (n_parent n0) as [p|] eqn:E; [|reflexivity]. specialize (W 0%nat p). simpl in W. rewrite E in W.
  specialize (W eq_refl). lia.
Qed.

Lemma depth1_node ns j : In j (depth1 (parents ns)) -> exists n, nth_error ns j = Some n /\ n_parent n = None.
Proof.
  unfold depth1. intros H. apply children_spec in H. rewrite parents_nth_error in H.
  destruct (nth_error ns j) as [n|]; simpl in H; [|discriminate]. exists n. split; [reflexivity | now inversion H].
Qed.

(* the stand-alone listing of an operation spans exactly its inner extent *)
Definition span_claim (env : denv) (o : op) : Prop :=
  let L := listing_op env o None (0, dur_of env o) in
  L <> [] /\ zmin_list 0 (map e_start L) = fst (ext_of env o) /\ zmax_list 0 (map e_end L) = snd (ext_of env o).

Theorem standalone_span env o : span_wf env o -> span_claim env o.
Proof.
  induction o as [l | r ns IH] using op_nodes_ind; intros W.
  - unfold span_claim, dur_of. simpl. split; [congruence|]. split; [reflexivity | lia].
  - inversion W as [|? ? N WP WL WR WB WD]; subst. unfold span_claim.
    set (tm := node_times env None ns). set (exts := map (fun n => ext_of env (n_op n)) ns). set (ps := parents ns).
    rewrite Forall_forall in IH, WD.
    assert (Nps : ps <> []) by (unfold ps, parents; apply map_neq_nil; exact N).
    pose proof (first_node_root ns N WP) as H0. fold ps in H0.
    assert (N1 : depth1 ps <> []) by (intros E; rewrite E in H0; destruct H0).
    (* the reference instant is the origin, and a root contains it *)
    destruct (rel0_of_spec ps tm N1) as (j & Hj & Ej). pose proof (depth1_in_bfs ps j Hj) as Hjb.
    destruct (depth1_node ns j Hj) as (nj & Enj & Pnj). pose proof (nth_error_In _ _ Enj) as Inj.
    assert (R0 : rel0_of ps tm = 0) by (rewrite Ej; apply (root_start env ns j nj WL Enj (WR nj Inj Pnj))).
    assert (Cj : ext_lo tm exts j <= rel0_of ps tm <= ext_hi tm exts j).
    { unfold ext_lo, ext_hi, exts. rewrite (nth_exts env ns j nj Enj). rewrite <- Ej.
      pose proof (span_wf_sign env (n_op nj) (WD nj Inj)). lia. }
    rewrite ext_of_unfold. fold tm exts ps. rewrite (extent_span ps tm exts j Nps Hjb Cj), R0. simpl fst. simpl snd.
    rewrite listing_op_unfold. fold tm ps.
    (* every listed node spans its own extent, shifted to its start *)
    assert (K : forall i, In i (bfs ps) ->
              let Li := nth i (map (fun n => listing_op env (n_op n)) ns) (fun _ _ => [])
                          (sub_ctx None tm (nth i (map n_link ns) LNone)) (nth i tm (0, 0)) in
              Li <> [] /\ zmin_list 0 (map e_start Li) = ext_lo tm exts i /\ zmax_list 0 (map e_end Li) = ext_hi tm exts i).
    { intros i Hi. apply bfs_lt_length in Hi. unfold ps in Hi. rewrite parents_length in Hi.
      destruct (nth_error ns i) as [n|] eqn:En; [|apply nth_error_None in En; lia].
      pose proof (nth_error_In _ _ En) as Hin. cbv zeta. rewrite (listing_node_nth env ns i n None tm _ En).
      unfold ext_lo, ext_hi, exts. rewrite (nth_exts env ns i n En).
      destruct (n_op n) as [l | r' sub] eqn:Eo.
      - simpl. split; [congruence|]. split; [lia|]. unfold tm.
        rewrite node_times_eq, (times_end None _ i _ _ (node_hs_nth env ns i n En)), Eo. unfold dur_of. simpl. lia.
      - assert (Wsub : span_wf env (OComp r' sub)) by (rewrite <- Eo; apply WD; exact Hin).
        assert (Bn : block_link_ok (n_link n)) by (apply WB; [exact Hin | now rewrite Eo]).
        pose proof (listing_block_shift env None ns i n r' sub (0, dur_of env (OComp r' sub)) WL I En Eo
                      (span_wf_links_op env _ Wsub) Bn) as Sh. cbv zeta in Sh. fold tm in Sh. rewrite Sh.
        assert (Cl : span_claim env (OComp r' sub)) by (rewrite <- Eo; apply IH; [exact Hin | rewrite Eo; exact Wsub]).
        destruct Cl as (C1 & C2 & C3).
        split; [intros E; apply map_eq_nil in E; exact (C1 E)|].
        rewrite map_start_eshift, map_end_eshift.
        rewrite zmin_list_shift by (apply map_neq_nil; exact C1). rewrite zmax_list_shift by (apply map_neq_nil; exact C1).
        rewrite C2, C3. lia. }
    assert (Nb : bfs ps <> []) by (intros E; rewrite E in Hjb; destruct Hjb).
    split; [|split].
    + apply (flat_map_neq_nil _ _ j Hjb). exact (proj1 (K j Hjb)).
    + rewrite (zmin_flat_map _ e_start (ext_lo tm exts) (bfs ps) Nb); [lia|].
      intros i Hi. destruct (K i Hi) as (K1 & K2 & _). split; assumption.
    + rewrite (zmax_flat_map _ e_end (ext_hi tm exts) (bfs ps) Nb); [lia|].
      intros i Hi. destruct (K i Hi) as (K1 & _ & K3). split; assumption.
Qed.

(* the duration of a (sub-)circuit = latest end - earliest start over everything it lists, in every plain context *)
Theorem nested_span env r ns c se : span_wf env (OComp r ns) -> ctx_plain c ->
  let L := listing_op env (OComp r ns) c se in
  L <> [] /\ dur_of env (OComp r ns) = zmax_list 0 (map e_end L) - zmin_list 0 (map e_start L).
Proof.
  intros W P L. destruct (standalone_span env _ W) as (C1 & C2 & C3).
  unfold L. rewrite (listing_shift_comp env r ns c se (0, dur_of env (OComp r ns)) (span_wf_links_op env _ W) P).
  split; [intros E; apply map_eq_nil in E; exact (C1 E)|].
  rewrite map_start_eshift, map_end_eshift.
  rewrite zmin_list_shift by (apply map_neq_nil; exact C1). rewrite zmax_list_shift by (apply map_neq_nil; exact C1).
  rewrite C2, C3. unfold dur_of. destruct (ext_of env (OComp r ns)). simpl. lia.
Qed.

(* ------------------------------------------------------------------ C04: followers of a block *)
Theorem followers env c ns p q pn qn : wf_node_links ns -> ctx_plain c ->
  nth_error ns p = Some pn -> nth_error ns q = Some qn -> n_link qn = LRel RelationType_FOLLOWED_BY p ->
  span_wf env (n_op pn) -> block_link_ok (n_link pn) -> fst (ext_of env (n_op pn)) = 0 ->
  let tm := node_times env c ns in
  fst (nth q tm (0, 0)) = fst (nth p tm (0, 0)) + dur_of env (n_op pn) /\
  forall e, In e (listing_op env (n_op pn) (sub_ctx c tm (n_link pn)) (nth p tm (0, 0))) -> e_end e <= fst (nth q tm (0, 0)).
Proof.
  intros WL P Ep Eq Lq Wp Bp Z0 tm.
  assert (Sq : fst (nth q tm (0, 0)) = snd (nth p tm (0, 0))).
  { unfold tm. rewrite (node_times_start env c ns q qn WL Eq), Lq. simpl.
    destruct (nth p (node_times env c ns) (0, 0)); reflexivity. }
  assert (Ee : snd (nth p tm (0, 0)) = fst (nth p tm (0, 0)) + dur_of env (n_op pn)).
  { unfold tm. rewrite node_times_eq. apply (times_end c _ p _ _ (node_hs_nth env ns p pn Ep)). }
  split; [lia|]. intros e He. rewrite Sq.
  destruct (n_op pn) as [l | r sub] eqn:Eo.
  - simpl in He. destruct He as [<- | []]. simpl. lia.
  - pose proof (listing_block_shift env c ns p pn r sub (0, dur_of env (OComp r sub)) WL P Ep Eo
                  (span_wf_links_op env _ Wp) Bp) as Sh. cbv zeta in Sh. fold tm in Sh. rewrite Sh in He.
    apply in_map_iff in He as (e0 & <- & He0). destruct (standalone_span env _ Wp) as (C1 & C2 & C3).
    destruct (zmax_list_spec 0 (map e_end (listing_op env (OComp r sub) None (0, dur_of env (OComp r sub))))
                (map_neq_nil _ _ C1)) as [_ Mx].
    specialize (Mx _ (in_map e_end _ _ He0)). rewrite C3 in Mx. rewrite Ee. unfold dur_of.
    destruct (ext_of env (OComp r sub)) as [lo hi]. simpl in *. lia.
Qed.
