(* C04 — a (sub-)circuit's duration spans everything it contains: specification on the implementation's reports. *)
From Coq Require Import ZArith List Bool.
Import ListNotations.
From QCE Require Import Base.Prelude Core.Model Core.Run.
From Gen Require Import Ident Classes.
Open Scope Z_scope.

(* KCore: a build program with its observations, tied to the model.  KBlock: a circuit built through the structure-level API with a
   sub-circuit that carries an EXPLICIT relation (not expressible as a build program of the model): judged by the specification
   on the reported numbers alone -- listing first, and durations first. *)
Inductive case := KCore (c : Core.Run.case) | KBlock (o1 o2 : option obs).
Definition agree (c : case) : bool := match c with KCore x => agree_core x | KBlock _ _ => true end.

Definition zmax_list (d : Z) (l : list Z) : Z := match l with [] => d | x :: t => fold_left Z.max t x end.
Definition zmin_l (d : Z) (l : list Z) : Z := match l with [] => d | x :: t => fold_left Z.min t x end.

(* reported duration of the whole circuit = latest end - earliest start over all listed operations; 0 when empty *)
Definition span_ok (ob : obs) : bool :=
  match o_ops ob with
  | [] => o_duration ob =? 0
  | ops => o_duration ob =? zmax_list 0 (map oe_e ops) - zmin_l 0 (map oe_s ops)
  end.
(* every sub-circuit: duration = extent of what it contains; and when nothing inside starts before its first operations the
   block is reported to start with them, so that start + duration = latest end inside (what FOLLOWED_BY the block waits for) *)
Definition comp_ok (x : ocomp) : bool :=
  if oc_n x =? 0 then oc_d x =? 0
  else (oc_d x =? oc_hi x - oc_lo x) && (negb (oc_lo x =? oc_first x) || (oc_s x + oc_d x =? oc_hi x)).
Definition obs_ok (ob : option obs) : bool :=
  match ob with None => true | Some o => span_ok o && forallb comp_ok (o_comps o) end.

Definition observed (ob : option obs) : bool := match ob with Some _ => true | None => false end.
Definition spec_ok (cs : case) : bool :=
  match cs with
  | KCore c => obs_ok (c_plain c) && obs_ok (c_plain_dur_first c) && obs_ok (c_unrolled c) && obs_ok (c_unrolled_dur_first c)
  | KBlock o1 o2 => observed o1 && observed o2 && obs_ok o1 && obs_ok o2
  end.
