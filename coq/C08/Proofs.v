(* C08 — lemmas.  The model (Model.v) is related to the statement's image (Spec.v). *)
From Coq Require Import ZArith List Bool String Lia Permutation.
Import ListNotations.
From QCE Require Import Base.Prelude C19.Model C08.Tree C08.Model C08.Spec.
From Gen Require Import Tables.
Open Scope string_scope.
Open Scope list_scope.
Open Scope Z_scope.

(* ------------------------------------------------------------------ lists *)
Lemma rep_list_plus {A} (a b : nat) (l : list A) : rep_list (a + b) l = rep_list a l ++ rep_list b l.
Proof. induction a as [|a IH]; simpl; [reflexivity | now rewrite IH, app_assoc]. Qed.

Lemma rep_list_mul {A} (a b : nat) (l : list A) : rep_list (a * b) l = rep_list b (rep_list a l).
Proof.
  rewrite Nat.mul_comm. induction b as [|b IH]; simpl; [reflexivity|].
  now rewrite rep_list_plus, IH.
Qed.

Lemma flat_map_rep_list {A B} (f : A -> list B) n l : flat_map f (rep_list n l) = rep_list n (flat_map f l).
Proof. induction n as [|n IH]; simpl; [reflexivity | now rewrite flat_map_app, IH]. Qed.

Lemma rep_list_nil {A} n : rep_list n (@nil A) = [].
Proof. induction n; simpl; auto. Qed.

Lemma Permutation_rep_list {A} n (l1 l2 : list A) : Permutation l1 l2 -> Permutation (rep_list n l1) (rep_list n l2).
Proof. intros H; induction n; simpl; [constructor | now apply Permutation_app]. Qed.

Lemma leqb_eq {A} (eqb : A -> A -> bool) :
  (forall x y, eqb x y = true -> x = y) -> forall l1 l2, leqb eqb l1 l2 = true -> l1 = l2.
Proof.
  intros H l1; induction l1 as [|x t IH]; intros [|y t2]; simpl; try congruence.
  rewrite andb_true_iff. intros [E1 E2]. f_equal; auto.
Qed.

Lemma leqb_refl {A} (eqb : A -> A -> bool) : (forall x, eqb x x = true) -> forall l, leqb eqb l l = true.
Proof. intros H l; induction l; simpl; [reflexivity | now rewrite H, IHl]. Qed.

Lemma chunk2_app {A} : forall (a b : list A), Nat.even (List.length a) = true -> chunk2 (a ++ b) = chunk2 a ++ chunk2 b.
Proof.
  fix IH 1. intros [|x [|y t]] b H.
  - reflexivity.
  - discriminate.
  - change (chunk2 ((x :: y :: t) ++ b)) with ([x; y] :: chunk2 (t ++ b)).
    change (chunk2 (x :: y :: t)) with ([x; y] :: chunk2 t).
    simpl. f_equal. apply IH. exact H.
Qed.

Lemma chunk2_concat {A} : forall (l : list A), List.concat (chunk2 l) = l.
Proof. fix IH 1. intros [|x [|y t]]; try reflexivity. change (chunk2 (x :: y :: t)) with ([x; y] :: chunk2 t). simpl. now rewrite IH. Qed.

Lemma chunk_concat {A} two (l : list A) : List.concat (chunk two l) = l.
Proof. destruct two; simpl; [apply chunk2_concat|]. induction l; simpl; congruence. Qed.

Lemma chunk_app {A} two (a b : list A) : (two = true -> Nat.even (List.length a) = true) -> chunk two (a ++ b) = chunk two a ++ chunk two b.
Proof. destruct two; simpl; intros H; [apply chunk2_app; auto | apply map_app]. Qed.

(* ------------------------------------------------------------------ induction over the listing tree *)
Section ItemInd.
Variable P : item -> Prop.
Hypothesis HL : forall l, P (Leaf l).
Hypothesis HB : forall n b, Forall P b -> P (Block n b).
Fixpoint item_ind' (i : item) : P i :=
  match i with
  | Leaf l => HL l
  | Block n b => HB n b ((fix go (l : list item) : Forall P l :=
                           match l with [] => Forall_nil _ | x :: r => Forall_cons _ (item_ind' x) (go r) end) b)
  end.
End ItemInd.

Section InstrInd.
Variable P : sinstr -> Prop.
Hypothesis HI : forall g a ts, P (SI g a ts).
Hypothesis HR : forall n b, Forall P b -> P (SRep n b).
Fixpoint sinstr_ind' (i : sinstr) : P i :=
  match i with
  | SI g a ts => HI g a ts
  | SRep n b => HR n b ((fix go (l : list sinstr) : Forall P l :=
                          match l with [] => Forall_nil _ | x :: r => Forall_cons _ (sinstr_ind' x) (go r) end) b)
  end.
End InstrInd.

(* ------------------------------------------------------------------ well-formed Stim circuits *)
(* what Stim's own validation guarantees of every instruction it holds: two-qubit gates have an even number of targets,
   repetition counts are not negative *)
Fixpoint wfb (i : sinstr) : bool :=
  match i with
  | SI g _ ts => implb (two_qubit_gate g) (Nat.even (List.length ts))
  | SRep n b => (0 <=? n) && forallb wfb b
  end.
Definition wfc (c : circuit) : Prop := forallb wfb c = true.

Lemma wfc_app a b : wfc (a ++ b) <-> wfc a /\ wfc b.
Proof. unfold wfc. rewrite forallb_app, andb_true_iff. tauto. Qed.
Lemma wfc_cons x c : wfc (x :: c) <-> wfb x = true /\ wfc c.
Proof. unfold wfc. simpl. rewrite andb_true_iff. tauto. Qed.
Lemma wfc_nil : wfc [].
Proof. reflexivity. Qed.

(* ------------------------------------------------------------------ the atomic instruction list of a circuit *)
Lemma flat_app a b : flat (a ++ b) = flat a ++ flat b.
Proof. unfold flat, unroll. now rewrite !flat_map_app. Qed.
Lemma flat_cons x c : flat (x :: c) = flat [x] ++ flat c.
Proof. change (x :: c) with ([x] ++ c). apply flat_app. Qed.
Lemma flat_nil : flat [] = [].
Proof. reflexivity. Qed.
Lemma flat_SI g a ts : flat [SI g a ts] = split_i (SI g a ts).
Proof. unfold flat, unroll. simpl. now rewrite app_nil_r. Qed.
Lemma flat_SRep n b : flat [SRep n b] = rep_list (Z.to_nat n) (flat b).
Proof. unfold flat, unroll. simpl. rewrite app_nil_r. apply flat_map_rep_list. Qed.

Lemma can_fuse_inv x i : can_fuse x i = true ->
  exists g a t1 t2, x = SI g a t1 /\ i = SI g a t2 /\ not_fusable g = false.
Proof.
  destruct x as [g1 a1 t1|], i as [g2 a2 t2|]; simpl; try discriminate.
  rewrite !andb_true_iff, negb_true_iff. intros [[E1 E2] E3].
  apply String.eqb_eq in E1. apply (leqb_eq Z.eqb) in E2; [|intros; now apply Z.eqb_eq].
  subst. now exists g2, a2, t1, t2.
Qed.

Lemma even_app_len {A} (a b : list A) : Nat.even (List.length a) = true -> Nat.even (List.length b) = true ->
  Nat.even (List.length (a ++ b)) = true.
Proof. rewrite app_length, Nat.even_add. intros -> ->. reflexivity. Qed.

Lemma cappend_flat c i : wfc c -> wfb i = true -> flat (cappend c i) = flat c ++ flat [i] /\ wfc (cappend c i).
Proof.
  intros Hc Hi. induction c as [|x r IH].
  - simpl. split; [reflexivity | apply wfc_cons; split; [exact Hi | apply wfc_nil]].
  - apply wfc_cons in Hc. destruct Hc as [Hx Hr]. destruct r as [|y r].
    + cbn [cappend]. destruct (can_fuse x i) eqn:F.
      * apply can_fuse_inv in F. destruct F as (g & a & t1 & t2 & -> & -> & NF).
        cbn [fuse]. rewrite !flat_SI. cbn [split_i]. rewrite NF.
        cbn [wfb] in Hx, Hi. split.
        -- rewrite chunk_app, map_app; [reflexivity|]. intros T. rewrite T in Hx. exact Hx.
        -- apply wfc_cons. split; [|apply wfc_nil]. cbn [wfb].
           destruct (two_qubit_gate g); [|reflexivity]. simpl in *. now apply even_app_len.
      * split; [apply (flat_cons x [i])|]. apply wfc_cons; split; [exact Hx|]. apply wfc_cons; split; [exact Hi | apply wfc_nil].
    + change (cappend (x :: y :: r) i) with (x :: cappend (y :: r) i).
      destruct (IH Hr) as [E W]. split.
      * rewrite flat_cons, E, (flat_cons x (y :: r)). now rewrite app_assoc.
      * apply wfc_cons. split; assumption.
Qed.

Lemma cadd_flat c o : wfc c -> wfc o -> flat (cadd c o) = flat c ++ flat o /\ wfc (cadd c o).
Proof.
  intros Hc Ho. destruct o as [|i r]; simpl.
  - rewrite app_nil_r. split; [reflexivity | exact Hc].
  - apply wfc_cons in Ho. destruct Ho as [Hi Hr].
    destruct (cappend_flat c i Hc Hi) as [E W]. split.
    + rewrite flat_app, E, (flat_cons i r). now rewrite app_assoc.
    + apply wfc_app. split; assumption.
Qed.

Lemma cmul_flat c n m : wfc c -> cmul c n = Some m -> flat m = rep_list (Z.to_nat n) (flat c) /\ wfc m.
Proof.
  intros Hc. unfold cmul.
  destruct ((n <? 0) || (two64 <=? n)) eqn:B; [discriminate|].
  apply orb_false_iff in B. destruct B as [B1 B2]. apply Z.ltb_ge in B1.
  destruct (Z.eqb_spec n 0) as [->|N0].
  { intros [= <-]. split; [reflexivity | apply wfc_nil]. }
  destruct (Z.eqb_spec n 1) as [->|N1].
  { intros [= <-]. simpl. rewrite app_nil_r. split; [reflexivity | exact Hc]. }
  assert (Wrap : flat [SRep n c] = rep_list (Z.to_nat n) (flat c) /\ wfc [SRep n c]).
  { split; [apply flat_SRep|]. apply wfc_cons. split; [|apply wfc_nil]. cbn [wfb].
    apply andb_true_iff. split; [apply Z.leb_le; lia | exact Hc]. }
  destruct c as [|x [|y r]]; try (intros [= <-]; exact Wrap); try (destruct x; intros [= <-]; exact Wrap).
  destruct x as [g a ts|k b]; try (intros [= <-]; exact Wrap).
  destruct (k * n <? two64); [|discriminate]. intros [= <-].
  apply wfc_cons in Hc. destruct Hc as [Hx _]. cbn [wfb] in Hx. apply andb_true_iff in Hx. destruct Hx as [K Hb].
  apply Z.leb_le in K. split.
  - rewrite !flat_SRep. rewrite Z2Nat.inj_mul by lia. apply rep_list_mul.
  - apply wfc_cons. split; [|apply wfc_nil]. cbn [wfb]. apply andb_true_iff. split; [apply Z.leb_le; nia | exact Hb].
Qed.

(* ------------------------------------------------------------------ one operation: model = documented instruction *)
Definition instr_list (l : leaf) : list sinstr := match instr_of l with IEmit s => [s] | _ => [] end.
(* an instruction that stands for itself: valid, not a block, nothing to split *)
Definition atomic (s : sinstr) : Prop := wfb s = true /\ flat [s] = [s].

Ltac zcbn := cbn -[Z.add Z.sub Z.opp Z.leb Z.ltb Z.eqb Z.mul valid_qubit valid_rec].
Ltac zcbn_in H := cbn -[Z.add Z.sub Z.opp Z.leb Z.ltb Z.eqb Z.mul valid_qubit valid_rec] in H.
Ltac eq_recs :=
  lazymatch goal with
  | |- ?x = ?y => first [ reflexivity | lazymatch type of x with Z => lia | _ => progress f_equal; eq_recs end ]
  end.
Ltac finish :=
  rewrite ?andb_false_r; zcbn;
  repeat match goal with
  | |- context [if ?b then _ else _] => let E := fresh "E" in destruct b eqn:E; zcbn
  end;
  try exact I;
  try (split; [ try unfold rec_of; eq_recs | split; reflexivity ]).

(* for every operation the exporter accepts, the emitted instruction is the documented one (Spec.spec_instr):
   the generated table against the hand-written documentation, the generated detector/observable/shift methods against
   the record-position reading, `unique_in_order` of the channel ids against "exactly its qubits" *)
Lemma leaf_doc l :
  match instr_of l with
  | IEmit s => spec_instr l = [s] /\ atomic s
  | ISkip => spec_instr l = []
  | IErr => True
  end.
Proof.
  destruct l as [k qs a]. unfold instr_of. cbn [l_kind l_qs l_args].
  destruct (shape_ok k qs) eqn:S; cbn [negb]; [|exact I].
  destruct k; zcbn_in S.
  all: try (destruct qs as [|q [|q2 [|q3 qs]]]; try discriminate S).
  all: zcbn; try unfold named_instr; zcbn.
  all: try reflexivity.
  all: try solve [finish].
  all: try (rewrite ?Z.eqb_refl; zcbn; destruct (Z.eqb_spec q2 q) as [->|Nq]; zcbn; rewrite ?Z.eqb_refl; zcbn; solve [finish]).
  all: destruct a as [|[a1|] [|[a2|] [|[a3|] [|[a4|] [|[a5|] [|a6 a]]]]]]; zcbn; try exact I; try reflexivity.
  all: try unfold of_gen; zcbn.
  all: solve [finish].
Qed.

Lemma instr_list_doc l : instr_of l <> IErr -> instr_list l = spec_instr l.
Proof.
  intros H. unfold instr_list. pose proof (leaf_doc l) as D. destruct (instr_of l); try congruence.
  symmetry; apply D.
Qed.

Lemma instr_emit_atomic l s : instr_of l = IEmit s -> atomic s.
Proof. intros H. pose proof (leaf_doc l) as D. rewrite H in D. apply D. Qed.

(* ------------------------------------------------------------------ the walk *)
Lemma Forall_rep_list {A} (P : A -> Prop) n l : Forall P l -> Forall P (rep_list n l).
Proof. intros H; induction n; simpl; [constructor | apply Forall_app; split; assumption]. Qed.

Section Walk.
(* any per-leaf translation that agrees with instr_of wherever instr_of does not fail *)
Variable f : leaf -> list sinstr.
Hypothesis f_ok : forall l, match instr_of l with IEmit s => f l = [s] | ISkip => f l = [] | IErr => True end.

Definition walk_ok (i : item) : Prop :=
  forall acc c, wfc acc -> construct_item i acc = Some c ->
    wfc c /\ flat c = flat acc ++ flat_map f (expand_item i) /\ Forall (fun l => instr_of l <> IErr) (expand_item i).

Lemma ofold_walk body : Forall walk_ok body ->
  forall acc c, wfc acc -> ofold construct_item body acc = Some c ->
    wfc c /\ flat c = flat acc ++ flat_map f (expand body) /\ Forall (fun l => instr_of l <> IErr) (expand body).
Proof.
  induction 1 as [|x r Hx Hr IH]; intros acc c Wa; simpl.
  - intros [= <-]. rewrite app_nil_r. split; [exact Wa | split; [reflexivity | constructor]].
  - destruct (construct_item x acc) as [c1|] eqn:E1; [|discriminate]. intros E2.
    destruct (Hx acc c1 Wa E1) as (W1 & F1 & O1).
    destruct (IH c1 c W1 E2) as (W2 & F2 & O2).
    split; [exact W2|]. split.
    + unfold expand in *. simpl. rewrite F2, F1, flat_map_app. now rewrite app_assoc.
    + unfold expand in *. simpl. apply Forall_app. split; assumption.
Qed.

Lemma walk_item i : walk_ok i.
Proof.
  induction i as [l | n body IH] using item_ind'; intros acc c Wa; simpl.
  - pose proof (f_ok l) as Fl. pose proof (leaf_doc l) as D.
    destruct (instr_of l) as [|s|] eqn:E; try discriminate; intros [= <-].
    + rewrite Fl. simpl. rewrite app_nil_r. split; [exact Wa | split; [reflexivity | constructor; [congruence | constructor]]].
    + destruct D as [_ [Ws As]]. destruct (cappend_flat acc s Wa Ws) as [Fc Wc].
      rewrite Fl. simpl. rewrite Fc, As. split; [exact Wc | split; [reflexivity | constructor; [congruence | constructor]]].
  - destruct (ofold construct_item body []) as [inner|] eqn:E1; [|discriminate].
    destruct (cmul inner n) as [m|] eqn:E2; [|discriminate]. intros [= <-].
    destruct (ofold_walk body IH [] inner wfc_nil E1) as (Wi & Fi & Oi). simpl in Fi.
    destruct (cmul_flat inner n m Wi E2) as [Fm Wm].
    destruct (cadd_flat acc m Wa Wm) as [Fc Wc].
    split; [exact Wc|]. split.
    + rewrite Fc, Fm, Fi. unfold expand. now rewrite flat_map_rep_list.
    + apply Forall_rep_list. exact Oi.
Qed.

Lemma walk_tree t c : to_stim t = Some c ->
  wfc c /\ flat c = flat_map f (expand t) /\ Forall (fun l => instr_of l <> IErr) (expand t).
Proof.
  intros H. apply (ofold_walk t) with (acc := []) in H; [exact H | | apply wfc_nil].
  apply Forall_forall. intros i _. apply walk_item.
Qed.
End Walk.

Lemma instr_list_ok l : match instr_of l with IEmit s => instr_list l = [s] | ISkip => instr_list l = [] | IErr => True end.
Proof. unfold instr_list. destruct (instr_of l); auto. Qed.
Lemma spec_instr_ok l : match instr_of l with IEmit s => spec_instr l = [s] | ISkip => spec_instr l = [] | IErr => True end.
Proof. pose proof (leaf_doc l) as D. destruct (instr_of l); auto. apply D. Qed.

(* C08, first clause: the normal form of the export is the in-order image of the expanded listing *)
Theorem stim_in_order t c : to_stim t = Some c -> normalise c = fold_coords [] (flat_map instr_list (expand t)).
Proof. intros H. unfold normalise. now rewrite (proj1 (proj2 (walk_tree instr_list instr_list_ok t c H))). Qed.

Theorem stim_in_order_documented t c : to_stim t = Some c -> flat c = spec_image t /\ normalise c = spec_normal t.
Proof.
  intros H. pose proof (proj1 (proj2 (walk_tree spec_instr spec_instr_ok t c H))) as E.
  unfold normalise, spec_normal, spec_image. now rewrite E.
Qed.

(* the exporter refuses exactly by raising: when it returns, every expanded leaf was translatable *)
Lemma stim_leaves_ok t c : to_stim t = Some c -> Forall (fun l => instr_of l <> IErr) (expand t).
Proof. intros H. apply (walk_tree instr_list instr_list_ok t c H). Qed.

Theorem stim_same_listing_identical t1 t2 c1 c2 :
  expand t1 = expand t2 -> to_stim t1 = Some c1 -> to_stim t2 = Some c2 -> normalise c1 = normalise c2.
Proof. intros E H1 H2. rewrite (stim_in_order t1 c1 H1), (stim_in_order t2 c2 H2). now rewrite E. Qed.

(* ------------------------------------------------------------------ measurement counts *)
Lemma nmeas_app a b : nmeas (a ++ b) = nmeas a + nmeas b.
Proof. unfold nmeas. induction a; simpl; lia. Qed.

Lemma nmeas_rep_list n l : nmeas (rep_list n l) = Z.of_nat n * nmeas l.
Proof. induction n as [|n IH]; [reflexivity|]. cbn [rep_list]. rewrite nmeas_app, IH. lia. Qed.

Lemma nmeas_map_SI g a L : nmeas (map (SI g a) L) = if measures g then Z.of_nat (List.length (List.concat L)) else 0.
Proof.
  induction L as [|x L IH]; simpl.
  - now destruct (measures g).
  - change (fold_right (fun x s => nmeas_i x + s) 0 (map (SI g a) L)) with (nmeas (map (SI g a) L)).
    rewrite IH. destruct (measures g); [|reflexivity]. rewrite app_length. lia.
Qed.

Lemma nmeas_flat_i i : wfb i = true -> nmeas (flat [i]) = nmeas_i i.
Proof.
  induction i as [g a ts | n b IH] using sinstr_ind'; intros W.
  - rewrite flat_SI. cbn [split_i]. destruct (not_fusable g).
    + simpl. lia.
    + rewrite nmeas_map_SI, chunk_concat. reflexivity.
  - rewrite flat_SRep, nmeas_rep_list. cbn [wfb] in W. apply andb_true_iff in W. destruct W as [N Wb].
    apply Z.leb_le in N. rewrite Z2Nat.id by exact N. cbn [nmeas_i]. f_equal.
    change (fold_right (fun x s => nmeas_i x + s) 0 b) with (nmeas b).
    clear N. induction b as [|x b IHb]; [reflexivity|].
    simpl in Wb. apply andb_true_iff in Wb. destruct Wb as [Wx Wb]. inversion IH as [|? ? Hx Hb]; subst.
    rewrite flat_cons, nmeas_app, (Hx Wx), (IHb Hb Wb). reflexivity.
Qed.

Lemma nmeas_flat c : wfc c -> nmeas (flat c) = nmeas c.
Proof.
  induction c as [|x c IH]; intros W; [reflexivity|]. apply wfc_cons in W. destruct W as [Wx Wc].
  rewrite flat_cons, nmeas_app, (nmeas_flat_i x Wx), (IH Wc). reflexivity.
Qed.

Lemma leaf_meas l : instr_of l <> IErr -> nmeas (instr_list l) = if is_measure l then 1 else 0.
Proof.
  destruct l as [k qs a]. unfold instr_list, instr_of, is_measure. cbn [l_kind l_qs l_args].
  destruct (shape_ok k qs) eqn:S; cbn [negb]; [|congruence].
  destruct k; zcbn_in S.
  all: try (destruct qs as [|q [|q2 [|q3 qs]]]; try discriminate S).
  all: zcbn; try unfold named_instr; zcbn.
  all: try reflexivity.
  all: try solve [rewrite ?andb_false_r; repeat match goal with |- context [if ?b then _ else _] => destruct b end; (reflexivity || congruence)].
  all: destruct a as [|[a1|] [|[a2|] [|[a3|] [|[a4|] [|[a5|] [|a6 a]]]]]]; zcbn; try congruence; try reflexivity.
  all: try unfold of_gen; zcbn.
  all: solve [rewrite ?andb_false_r; repeat match goal with |- context [if ?b then _ else _] => destruct b end; (reflexivity || congruence)].
Qed.

Lemma nmeas_image ls : Forall (fun l => instr_of l <> IErr) ls ->
  nmeas (flat_map instr_list ls) = Z.of_nat (List.length (filter is_measure ls)).
Proof.
  induction 1 as [|l ls Hl _ IH]; [reflexivity|]. simpl. rewrite nmeas_app, IH, (leaf_meas l Hl).
  destruct (is_measure l); simpl List.length; lia.
Qed.

(* C08: the export holds exactly one measurement per DispersiveMeasure of the expanded listing *)
Theorem stim_measurement_count t c : to_stim t = Some c -> nmeas c = spec_nmeas t.
Proof.
  intros H. destruct (walk_tree instr_list instr_list_ok t c H) as (W & F & O).
  rewrite <- (nmeas_flat c W), F. apply nmeas_image. exact O.
Qed.

Lemma nmeas_perm a b : Permutation a b -> nmeas a = nmeas b.
Proof. unfold nmeas. induction 1; simpl; lia. Qed.

(* C08, second clause reduced to its listing-level premise: if the unrolled listing is a rearrangement of the expanded
   listing, the two exports hold the same instructions (as multisets of atomic instructions) and as many measurements *)
Theorem stim_perm_multiset t1 t2 c1 c2 :
  Permutation (expand t1) (expand t2) -> to_stim t1 = Some c1 -> to_stim t2 = Some c2 ->
  Permutation (flat c1) (flat c2) /\ nmeas c1 = nmeas c2.
Proof.
  intros P H1 H2.
  destruct (walk_tree instr_list instr_list_ok t1 c1 H1) as (W1 & F1 & _).
  destruct (walk_tree instr_list instr_list_ok t2 c2 H2) as (W2 & F2 & _).
  assert (PF : Permutation (flat c1) (flat c2)) by (rewrite F1, F2; now apply Permutation_flat_map).
  split; [exact PF|]. rewrite <- (nmeas_flat c1 W1), <- (nmeas_flat c2 W2). now apply nmeas_perm.
Qed.

(* the boolean multiset test used by the correspondence run accepts every rearrangement *)
Lemma count_i_perm x a b : Permutation a b -> count_i x a = count_i x b.
Proof. unfold count_i. induction 1; simpl; repeat (destruct (sinstr_eqb x _)); simpl; congruence. Qed.

Lemma perm_multiset_eqb a b : Permutation a b -> multiset_eqb a b = true.
Proof.
  intros P. unfold multiset_eqb. rewrite (Permutation_length P), Nat.eqb_refl. simpl.
  apply forallb_forall. intros x _. rewrite (count_i_perm x a b P). apply Nat.eqb_refl.
Qed.

(* ------------------------------------------------------------------ tables and detector targets *)
Theorem stim_table_documented k g : doc_gate k = Some g <-> stim_gate k = Some (SF_Name g).
Proof. destruct k; simpl; split; intros H; try discriminate H; try (inversion H; reflexivity). Qed.

Theorem stim_table_rest k : doc_gate k = None ->
  stim_gate k = match k with
                | K_Barrier => Some (SF_Const "TICK")
                | K_DetectorOperation | K_LogicalObservableOperation | K_CoordinateShiftOperation => Some SF_Own
                | _ => None
                end.
Proof. destruct k; simpl; intros H; try discriminate H; reflexivity. Qed.

Definition gi_name (g : gen_instr) := match g with GI n _ _ => n end.
Definition gi_targets (g : gen_instr) := match g with GI _ t _ => t end.
Definition gi_args (g : gen_instr) := match g with GI _ _ a => a end.

(* the five target shapes (and the fall-through): read at a moment when n = last_acquisition_index + 1 measurements have
   been made, rec[v] is acquisition n + v; the targets are exactly the record positions the detector names *)
Theorem detector_targets_spec q la m s r so :
  let gi := DetectorOperation_to_stim_instruction (Some q) (Some la) m s r so in
  gi_name gi = "DETECTOR" /\
  exists vs, gt_vals (gi_targets gi) = Some vs /\ map (fun v => (la + 1) + v) vs = det_positions (la + 1) m s r so
             /\ (gi_args gi = match m with Some _ => [Some q; Some 0] | None => [] end).
Proof.
  destruct m as [m|], s as [s|], r as [r|], so as [so|]; cbn; (split; [reflexivity|]);
    eexists; (split; [reflexivity|]); split; try reflexivity; cbn; repeat (f_equal; try lia).
Qed.

(* without last_acquisition_index a detector that names a measurement has no record offset (Python: TypeError) *)
Theorem detector_needs_last q m s r so :
  gt_vals (gi_targets (DetectorOperation_to_stim_instruction (Some q) None (Some m) s r so)) = None.
Proof. destruct s, r, so; reflexivity. Qed.

Theorem observable_target_spec q la m :
  LogicalObservableOperation_to_stim_instruction (Some q) (Some la) (Some m)
  = GI "OBSERVABLE_INCLUDE" [GT_rec (Some (m - (la + 1)))] [Some 0].
Proof. reflexivity. Qed.

(* an observable that names no measurement (either field None) is still declared: OBSERVABLE_INCLUDE(0) without target
   (since /repo 744f678; before, the index argument was missing and Stim refused the instruction: finding F16) *)
Theorem observable_untargeted_spec q la m : (la = None \/ m = None) ->
  LogicalObservableOperation_to_stim_instruction (Some q) la m = GI "OBSERVABLE_INCLUDE" [] [Some 0].
Proof. intros [-> | ->]; [|destruct la]; reflexivity. Qed.

Example observable_untargeted_exports :
  to_stim [Leaf (MkLeaf K_DispersiveMeasure [0] []); Leaf (MkLeaf K_LogicalObservableOperation [0] [None; None])]
  = Some [SI "M" [] [TQ 0]; SI "OBSERVABLE_INCLUDE" [0] []].
Proof. vm_compute. reflexivity. Qed.

(* ------------------------------------------------------------------ non-vacuity *)
Definition ex_tree : list item :=
  [Leaf (MkLeaf K_Rx180 [0] []); Leaf (MkLeaf K_Rx180 [1] []);
   Block 2 [Leaf (MkLeaf K_DispersiveMeasure [0] []); Leaf (MkLeaf K_Wait [1] [Some 6]);
            Leaf (MkLeaf K_DetectorOperation [0] [Some 0; Some 0; None; None; None]);
            Block 3 [Leaf (MkLeaf K_CoordinateShiftOperation [0] [Some 1; Some 0]); Leaf (MkLeaf K_Ry90 [1] [])]];
   Leaf (MkLeaf K_CPhase [0; 1] []); Leaf (MkLeaf K_Barrier [0; 1] [])].

Example ex_tree_exports :
  to_stim ex_tree = Some [SI "X" [] [TQ 0; TQ 1];
                          SRep 2 [SI "M" [] [TQ 0]; SI "DETECTOR" [0; 0] [TRec (-1)];
                                  SRep 3 [SI "SHIFT_COORDS" [0; 1] []; SI "SQRT_Y" [] [TQ 1]]];
                          SI "CZ" [] [TQ 0; TQ 1]; SI "TICK" [] []]
  /\ wf_tree ex_tree = true.
Proof. split; vm_compute; reflexivity. Qed.

Example ex_tree_normal :
  spec_normal ex_tree = [SI "X" [] [TQ 0]; SI "X" [] [TQ 1];
                         SI "M" [] [TQ 0]; SI "DETECTOR" [0; 0] [TRec (-1)]; SI "SQRT_Y" [] [TQ 1]; SI "SQRT_Y" [] [TQ 1]; SI "SQRT_Y" [] [TQ 1];
                         SI "M" [] [TQ 0]; SI "DETECTOR" [0; 3] [TRec (-1)]; SI "SQRT_Y" [] [TQ 1]; SI "SQRT_Y" [] [TQ 1]; SI "SQRT_Y" [] [TQ 1];
                         SI "CZ" [] [TQ 0; TQ 1]; SI "TICK" [] []].
Proof. vm_compute. reflexivity. Qed.

(* a permuted listing (the unrolled form of the block) exports the same multiset *)
Example ex_perm :
  let t1 := [Block 2 [Leaf (MkLeaf K_Rx180 [0] []); Leaf (MkLeaf K_DispersiveMeasure [1] [])]] in
  let t2 := [Leaf (MkLeaf K_Rx180 [0] []); Leaf (MkLeaf K_Rx180 [0] []); Leaf (MkLeaf K_DispersiveMeasure [1] []); Leaf (MkLeaf K_DispersiveMeasure [1] [])] in
  Permutation (expand t1) (expand t2) /\ to_stim t1 <> None /\ to_stim t2 <> None.
Proof.
  cbn. split; [|split; discriminate].
  apply perm_skip. apply perm_swap.
Qed.
