(* C08 — lemmas.  The model (Model.v) is related to the statement's image (Spec.v). *)
From Coq Require Import ZArith List Bool String Lia Permutation.
Import ListNotations.
From QCE Require Import Base.Prelude C19.Model C08.Tree C08.Model C08.Spec.
From Gen Require Import Tables.
Open Scope string_scope.
Open Scope list_scope.
Open Scope Z_scope.

(* ------------------------------------------------------------------ lists *)
Lemma rep_list_plus {A} (a b : nat) (l : list A) : rep_list (a + b) l = rep_list a l ++ rep_list b l.
Proof. induction a as [|a IH]; simpl; [reflexivity | now rewrite IH, app_assoc]. Qed.

Lemma rep_list_mul {A} (a b : nat) (l : list A) : rep_list (a * b) l = rep_list b (rep_list a l).
Proof.
  rewrite Nat.mul_comm. induction b as [|b IH]; simpl; [reflexivity|].
  now rewrite rep_list_plus, IH.
Qed.

Lemma flat_map_rep_list {A B} (f : A -> list B) n l : flat_map f (rep_list n l) = rep_list n (flat_map f l).
Proof. induction n as [|n IH]; simpl; [reflexivity | now rewrite flat_map_app, IH]. Qed.

Lemma rep_list_nil {A} n : rep_list n (@nil A) = [].
Proof. induction n; simpl; auto. Qed.

Lemma Permutation_rep_list {A} n (l1 l2 : list A) : Permutation l1 l2 -> Permutation (rep_list n l1) (rep_list n l2).
Proof. intros H; induction n; simpl; [constructor | now apply Permutation_app]. Qed.

Lemma leqb_eq {A} (eqb : A -> A -> bool) :
  (forall x y, eqb x y = true -> x = y) -> forall l1 l2, leqb eqb l1 l2 = true -> l1 = l2.
Proof.
  intros H l1; induction l1 as [|x t IH]; intros [|y t2]; simpl; try congruence.
  rewrite andb_true_iff. intros [E1 E2]. f_equal; auto.
Qed.

Lemma leqb_refl {A} (eqb : A -> A -> bool) : (forall x, eqb x x = true) -> forall l, leqb eqb l l = true.
Proof. intros H l; induction l; simpl; [reflexivity | now rewrite H, IHl]. Qed.

Lemma chunk2_app {A} : forall (a b : list A), Nat.even (List.length a) = true -> chunk2 (a ++ b) = chunk2 a ++ chunk2 b.
Proof.
  fix IH 1. intros [|x [|y t]] b H.
  - reflexivity.
  - discriminate.
  - change (chunk2 ((x :: y :: t) ++ b)) with ([x; y] :: chunk2 (t ++ b)).
    change (chunk2 (x :: y :: t)) with ([x; y] :: chunk2 t).
    simpl. f_equal. apply IH. exact H.
Qed.

Lemma chunk2_concat {A} : forall (l : list A), List.concat (chunk2 l) = l.
Proof. fix IH 1. intros [|x [|y t]]; try reflexivity. change (chunk2 (x :: y :: t)) with ([x; y] :: chunk2 t). simpl. now rewrite IH. Qed.

Lemma chunk_concat {A} two (l : list A) : List.concat (chunk two l) = l.
Proof. destruct two; simpl; [apply chunk2_concat|]. induction l; simpl; congruence. Qed.

Lemma chunk_app {A} two (a b : list A) : (two = true -> Nat.even (List.length a) = true) -> chunk two (a ++ b) = chunk two a ++ chunk two b.
Proof. destruct two; simpl; intros H; [apply chunk2_app; auto | apply map_app]. Qed.

(* ------------------------------------------------------------------ induction over the listing tree *)
Section ItemInd.
Variable P : item -> Prop.
Hypothesis HL : forall l, P (Leaf l).
Hypothesis HB : forall n b, Forall P b -> P (Block n b).
Fixpoint item_ind' (i : item) : P i :=
  match i with
  | Leaf l => HL l
  | Block n b => HB n b ((fix go (l : list item) : Forall P l :=
                           match l with [] => Forall_nil _ | x :: r => Forall_cons _ (item_ind' x) (go r) end) b)
  end.
End ItemInd.

Section InstrInd.
Variable P : sinstr -> Prop.
Hypothesis HI : forall g a ts, P (SI g a ts).
Hypothesis HR : forall n b, Forall P b -> P (SRep n b).
Fixpoint sinstr_ind' (i : sinstr) : P i :=
  match i with
  | SI g a ts => HI g a ts
  | SRep n b => HR n b ((fix go (l : list sinstr) : Forall P l :=
                          match l with [] => Forall_nil _ | x :: r => Forall_cons _ (sinstr_ind' x) (go r) end) b)
  end.
End InstrInd.

(* ------------------------------------------------------------------ well-formed Stim circuits *)
(* what Stim's own validation guarantees of every instruction it holds: two-qubit gates have an even number of targets,
   repetition counts are not negative *)
Fixpoint wfb (i : sinstr) : bool :=
  match i with
  | SI g _ ts => implb (two_qubit_gate g) (Nat.even (List.length ts))
  | SRep n b => (0 <=? n) && forallb wfb b
  end.
Definition wfc (c : circuit) : Prop := forallb wfb c = true.

Lemma wfc_app a b : wfc (a ++ b) <-> wfc a /\ wfc b.
Proof. unfold wfc. rewrite forallb_app, andb_true_iff. tauto. Qed.
Lemma wfc_cons x c : wfc (x :: c) <-> wfb x = true /\ wfc c.
Proof. unfold wfc. simpl. rewrite andb_true_iff. tauto. Qed.
Lemma wfc_nil : wfc [].
Proof. reflexivity. Qed.

(* ------------------------------------------------------------------ the atomic instruction list of a circuit *)
Lemma flat_app a b : flat (a ++ b) = flat a ++ flat b.
Proof. unfold flat, unroll. now rewrite !flat_map_app. Qed.
Lemma flat_cons x c : flat (x :: c) = flat [x] ++ flat c.
Proof. change (x :: c) with ([x] ++ c). apply flat_app. Qed.
Lemma flat_nil : flat [] = [].
Proof. reflexivity. Qed.
Lemma flat_SI g a ts : flat [SI g a ts] = split_i (SI g a ts).
Proof. unfold flat, unroll. simpl. now rewrite app_nil_r. Qed.
Lemma flat_SRep n b : flat [SRep n b] = rep_list (Z.to_nat n) (flat b).
Proof. unfold flat, unroll. simpl. rewrite app_nil_r. apply flat_map_rep_list. Qed.

Lemma can_fuse_inv x i : can_fuse x i = true ->
  exists g a t1 t2, x = SI g a t1 /\ i = SI g a t2 /\ not_fusable g = false.
Proof.
  destruct x as [g1 a1 t1|], i as [g2 a2 t2|]; simpl; try discriminate.
  rewrite !andb_true_iff, negb_true_iff. intros [[E1 E2] E3].
  apply String.eqb_eq in E1. apply (leqb_eq Z.eqb) in E2; [|intros; now apply Z.eqb_eq].
  subst. now exists g2, a2, t1, t2.
Qed.

Lemma even_app_len {A} (a b : list A) : Nat.even (List.length a) = true -> Nat.even (List.length b) = true ->
  Nat.even (List.length (a ++ b)) = true.
Proof. rewrite app_length, Nat.even_add. intros -> ->. reflexivity. Qed.

Lemma cappend_flat c i : wfc c -> wfb i = true -> flat (cappend c i) = flat c ++ flat [i] /\ wfc (cappend c i).
Proof.
  intros Hc Hi. induction c as [|x r IH].
  - simpl. split; [reflexivity | apply wfc_cons; split; [exact Hi | apply wfc_nil]].
  - apply wfc_cons in Hc. destruct Hc as [Hx Hr]. destruct r as [|y r].
    + cbn [cappend]. destruct (can_fuse x i) eqn:F.
      * apply can_fuse_inv in F. destruct F as (g & a & t1 & t2 & -> & -> & NF).
        cbn [fuse]. rewrite !flat_SI. cbn [split_i]. rewrite NF.
        cbn [wfb] in Hx, Hi. split.
        -- rewrite chunk_app, map_app; [reflexivity|]. intros T. rewrite T in Hx. exact Hx.
        -- apply wfc_cons. split; [|apply wfc_nil]. cbn [wfb].
           destruct (two_qubit_gate g); [|reflexivity]. simpl in *. now apply even_app_len.
      * split; [apply (flat_cons x [i])|]. apply wfc_cons; split; [exact Hx|]. apply wfc_cons; split; [exact Hi | apply wfc_nil].
    + change (cappend (x :: y :: r) i) with (x :: cappend (y :: r) i).
      destruct (IH Hr) as [E W]. split.
      * rewrite flat_cons, E, (flat_cons x (y :: r)). now rewrite app_assoc.
      * apply wfc_cons. split; assumption.
Qed.

Lemma cadd_flat c o : wfc c -> wfc o -> flat (cadd c o) = flat c ++ flat o /\ wfc (cadd c o).
Proof.
  intros Hc Ho. destruct o as [|i r]; simpl.
  - rewrite app_nil_r. split; [reflexivity | exact Hc].
  - apply wfc_cons in Ho. destruct Ho as [Hi Hr].
    destruct (cappend_flat c i Hc Hi) as [E W]. split.
    + rewrite flat_app, E, (flat_cons i r). now rewrite app_assoc.
    + apply wfc_app. split; assumption.
Qed.

Lemma cmul_flat c n m : wfc c -> cmul c n = Some m -> flat m = rep_list (Z.to_nat n) (flat c) /\ wfc m.
Proof.
  intros Hc. unfold cmul.
  destruct ((n <? 0) || (two64 <=? n)) eqn:B; [discriminate|].
  apply orb_false_iff in B. destruct B as [B1 B2]. apply Z.ltb_ge in B1.
  destruct (Z.eqb_spec n 0) as [->|N0].
  { intros [= <-]. split; [reflexivity | apply wfc_nil]. }
  destruct (Z.eqb_spec n 1) as [->|N1].
  { intros [= <-]. simpl. rewrite app_nil_r. split; [reflexivity | exact Hc]. }
  assert (Wrap : flat [SRep n c] = rep_list (Z.to_nat n) (flat c) /\ wfc [SRep n c]).
  { split; [apply flat_SRep|]. apply wfc_cons. split; [|apply wfc_nil]. cbn [wfb].
    apply andb_true_iff. split; [apply Z.leb_le; lia | exact Hc]. }
  destruct c as [|x [|y r]]; try (intros [= <-]; exact Wrap); try (destruct x; intros [= <-]; exact Wrap).
  destruct x as [g a ts|k b]; try (intros [= <-]; exact Wrap).
  destruct (k * n <? two64); [|discriminate]. intros [= <-].
  apply wfc_cons in Hc. destruct Hc as [Hx _]. cbn [wfb] in Hx. apply andb_true_iff in Hx. destruct Hx as [K Hb].
  apply Z.leb_le in K. split.
  - rewrite !flat_SRep. rewrite Z2Nat.inj_mul by lia. apply rep_list_mul.
  - apply wfc_cons. split; [|apply wfc_nil]. cbn [wfb]. apply andb_true_iff. split; [apply Z.leb_le; nia | exact Hb].
Qed.
