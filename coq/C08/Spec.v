(* C08 — the statement's side: the documented instruction of each operation class, written by hand and independently of
   the generated tables (Gen/Tables.v) and of the exporter model (Model.v: instr_of, to_stim).  Used by Run.v (`spec_ok`,
   evaluated on implementation outputs) and by the theorems (Proofs.v shows model = this image).
   Only Stim's data types and its normal form are taken from Model.v. *)
From Coq Require Import ZArith List Bool String.
Import ListNotations.
From QCE Require Import Base.Prelude C08.Tree C08.Model.
From Gen Require Import Tables.
Open Scope string_scope.
Open Scope list_scope.
Open Scope Z_scope.

(* the documented gate of each supported class (Rx90 = sqrt(X), ... ; a barrier is a TICK) *)
Definition doc_gate (k : kind) : option string :=
  match k with
  | K_Reset => Some "R"
  | K_Hadamard => Some "H"
  | K_Identity => Some "I"
  | K_CPhase => Some "CZ"
  | K_DispersiveMeasure => Some "M"
  | K_Rx180 => Some "X"
  | K_Rx90 => Some "SQRT_X"
  | K_Rxm90 => Some "SQRT_X_DAG"
  | K_Ry180 => Some "Y"
  | K_Ry90 => Some "SQRT_Y"
  | K_Rym90 => Some "SQRT_Y_DAG"
  | _ => None
  end.

(* record positions (absolute acquisition indices) a detector names; n = last_acquisition_index + 1 is the number of
   measurements made before the detector.  main/secondary targets are acquisition indices; a reference offset alone points
   `r` acquisitions before the main target; together with a secondary target the reference (and second reference) are
   counted back from the end of the record. *)
Definition det_positions (n : Z) (m s r so : option Z) : list Z :=
  match m, s, r, so with
  | None, _, _, _ => []
  | Some m, None, None, _ => [m]
  | Some m, None, Some r, _ => [m; m - r]
  | Some m, Some s, None, _ => [m; s]
  | Some m, Some s, Some r, None => [m; s; n - r]
  | Some m, Some s, Some r, Some so => [m; s; n - r; n - r - so]
  end.
(* rec[k] names the acquisition k places from the end of the record *)
Definition rec_of (n p : Z) : starget := TRec (p - n).

Definition spec_instr (l : leaf) : list sinstr :=
  match l_kind l, l_qs l, l_args l with
  | K_Barrier, _, _ => [SI "TICK" [] []]
  | K_CoordinateShiftOperation, _, [Some ts; Some ss] => [SI "SHIFT_COORDS" [ss; ts] []]
  | K_DetectorOperation, [q], [la; m; s; r; so] =>
      match m, la with
      | None, _ => [SI "DETECTOR" [] []]
      | Some _, Some la => [SI "DETECTOR" [q; 0] (map (rec_of (la + 1)) (det_positions (la + 1) m s r so))]
      | Some _, None => []
      end
  | K_LogicalObservableOperation, [q], [la; m] =>
      match la, m with
      | Some la, Some m => [SI "OBSERVABLE_INCLUDE" [0] [rec_of (la + 1) m]]
      | _, _ => [SI "OBSERVABLE_INCLUDE" [0] []]
      end
  | k, qs, _ => match doc_gate k with
                | Some g => [SI g [] (map TQ qs)]
                | None => []                                  (* unsupported: omitted *)
                end
  end.

(* the domain of the statement: operations that exist (right number of qubits and integer arguments, distinct qubits of a
   two-qubit gate, qubit indices Stim can hold) and annotations whose record offsets point into the past *)
Definition rec_ok (n p : Z) : bool := valid_rec (p - n).
Definition wf_leaf (l : leaf) : bool :=
  shape_ok (l_kind l) (l_qs l) &&
  match l_kind l, l_qs l, l_args l with
  | K_Barrier, _, _ => true
  | K_CoordinateShiftOperation, _, a => match a with [Some _; Some _] => true | _ => false end
  | K_DetectorOperation, _, a =>
      match a with
      | [la; m; s; r; so] =>
          match m, la with
          | None, _ => true
          | Some _, Some la => forallb (rec_ok (la + 1)) (det_positions (la + 1) m s r so)
          | Some _, None => false
          end
      | _ => false
      end
  | K_LogicalObservableOperation, _, a =>
      match a with
      | [Some la; Some m] => rec_ok (la + 1) m
      | [_; _] => true          (* no measurement named: the observable is declared, OBSERVABLE_INCLUDE(0), with no target *)
      | _ => false
      end
  | k, qs, _ => match doc_gate k with
                | Some _ => forallb valid_qubit qs && match qs with [a; b] => negb (a =? b) | _ => true end
                | None => true
                end
  end.

Fixpoint wf_item (i : item) : bool :=
  match i with
  | Leaf l => wf_leaf l
  | Block n b => (0 <=? n) && (n <? two64) && forallb wf_item b
  end.
Definition wf_tree (t : list item) : bool := forallb wf_item t.

(* the exported program, as the statement describes it: the expanded listing translated instruction by instruction *)
Definition spec_image (t : list item) : list sinstr := flat_map spec_instr (expand t).
Definition spec_normal (t : list item) : list sinstr := fold_coords [] (spec_image t).

(* number of measurements of a listing *)
Definition is_measure (l : leaf) : bool := kind_eqb (l_kind l) K_DispersiveMeasure.
Definition spec_nmeas (t : list item) : Z := Z.of_nat (List.length (filter is_measure (expand t))).

(* multiset equality of instruction lists *)
Definition count_i (x : sinstr) (l : list sinstr) : nat := List.length (filter (sinstr_eqb x) l).
Definition multiset_eqb (a b : list sinstr) : bool :=
  Nat.eqb (List.length a) (List.length b) && forallb (fun x => Nat.eqb (count_i x a) (count_i x b)) a.
