(* Case evaluation for the C08 correspondence run.
   agree   : the exporter model (Model.to_stim) applied to the listing tree the driver serialised = what the implementation
             exported (raw instruction structure incl. fusion and REPEAT blocks, normal form, measurement count); and, on
             implementation data only, Model.normalise of the raw circuit = stim's own flattened() with fused targets split.
   spec_ok : the statement of C08 on the implementation's output, without the exporter model: the normal form of the
             export is the instruction-by-instruction image (Spec.spec_instr) of the expanded listing; exporting before
             and after apply_modifiers() gives equal instruction multisets and measurement counts (library-built: the
             identical normal form).
   A case is either such a listing-tree case (KTree) or a library-built circuit in the shared format of Lib/Run.v (KLib):
   there `agree` is the Core model against the reported schedule (Lib.Run.agree_lib) and `spec_ok` the library clause of C08,
   Lib.Run.lib_stim_ok: the flattened Stim program before and after unrolling is the identical text. *)
From Coq Require Import ZArith List Bool String.
Import ListNotations.
From QCE Require Import Base.Prelude C08.Tree C08.Model C08.Spec.
From QCE Require Lib.Run.
From Gen Require Import Tables.
Open Scope string_scope.
Open Scope list_scope.
Open Scope Z_scope.

Inductive expo :=
| EErr                                         (* to_stim raised *)
| EOk (raw flattened : circuit) (nm : Z).      (* the exported circuit, circuit.flattened(), circuit.num_measurements *)

Record tcase := MkCase {
  c_lib : bool;                                (* library-built circuit: identical normal form demanded *)
  c_tree : list item;  c_exp : expo;           (* as built *)
  c_unrolled : option (list item * expo)       (* a second build after apply_modifiers(); None: apply_modifiers raised *)
}.

Definition agree_one (t : list item) (e : expo) : bool :=
  match to_stim t, e with
  | None, EErr => true
  | Some c, EOk raw fl nm =>
      circuit_eqb c raw && circuit_eqb (normalise c) (normalise fl) && (nmeas c =? nm)
      && circuit_eqb (normalise raw) (normalise fl) && (nmeas raw =? nm)
  | _, _ => false
  end.
Definition agree_tree (c : tcase) : bool :=
  agree_one (c_tree c) (c_exp c) &&
  match c_unrolled c with Some (t, e) => agree_one t e | None => true end.

Definition spec_one (t : list item) (e : expo) : bool :=
  if wf_tree t then
    match e with
    | EOk raw fl nm => circuit_eqb (normalise fl) (spec_normal t) && circuit_eqb (normalise raw) (spec_normal t)
                       && (nm =? spec_nmeas t)
    | EErr => false
    end
  else true.
Definition spec_pair (lib : bool) (e1 e2 : expo) : bool :=
  match e1, e2 with
  | EOk r1 _ n1, EOk r2 _ n2 =>
      multiset_eqb (flat r1) (flat r2) && (n1 =? n2) && (if lib then circuit_eqb (normalise r1) (normalise r2) else true)
  | _, _ => true
  end.
Definition spec_tree (c : tcase) : bool :=
  spec_one (c_tree c) (c_exp c) &&
  match c_unrolled c with
  | Some (t, e) => spec_one t e && (if wf_tree (c_tree c) && wf_tree t then spec_pair (c_lib c) (c_exp c) e else true)
  | None => true
  end.

Inductive case := KTree (c : tcase) | KLib (l : QCE.Lib.Run.lcase).
Definition agree (c : case) : bool := match c with KTree x => agree_tree x | KLib l => QCE.Lib.Run.agree_lib l end.
Definition spec_ok (c : case) : bool := match c with KTree x => spec_tree x | KLib l => QCE.Lib.Run.lib_stim_ok l end.
