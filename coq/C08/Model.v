(* C08 — executable model of the Stim export (addon_stim/intrf_stim_factory.py: StimCircuitFactoryManager.construct)
   together with the part of Stim itself the export relies on (stim 1.16: Circuit.append / += / * and flattened()).
   No proofs here.  The code is mirrored as it is, quirks included:

   * the walk goes through `_circuit_graph.get_node_iterator()` (= the listing tree of Tree.v);
   * a composite is exported recursively and `result += inner * nr_of_repetitions`; only AFTER that is the composite's
     own type looked up in the table (it is not a key: `continue`);
   * `type(operation) in supported` is exact class equality, so the table is per class (Gen/Tables.v `stim_gate`);
   * named gates take `unique_in_order(channel ids)` as targets (Gen `kind_ids`, C19's `unique_in_order`);
   * Stim fuses an appended instruction into the previous one (same gate, same arguments, fusable gate), `+=` fuses at
     the seam only, `c * 0` is empty, `c * 1` is `c`, `c * n` multiplies the count when `c` is a single REPEAT block and
     wraps `c` in `REPEAT n` otherwise (also when `c` is empty);
   * every Python exception (TypeError on None arithmetic, Stim's IndexError/ValueError on bad targets) is `None`. *)
From Coq Require Import ZArith List Bool String.
Import ListNotations.
From QCE Require Import Base.Prelude C19.Model C08.Tree.
From Gen Require Import Tables.
Open Scope string_scope.
Open Scope list_scope.
Open Scope Z_scope.

(* ------------------------------------------------------------------------------------------ Stim circuits *)
Inductive starget := TQ (q : Z) | TRec (k : Z).            (* qubit target | rec[k] (k < 0) *)
Inductive sinstr :=
| SI (name : string) (args : list Z) (ts : list starget)   (* NAME(args) targets *)
| SRep (n : Z) (body : list sinstr).                       (* REPEAT n { body } *)
Definition circuit := list sinstr.

Definition starget_eqb (a b : starget) : bool :=
  match a, b with TQ x, TQ y => x =? y | TRec x, TRec y => x =? y | _, _ => false end.
Fixpoint sinstr_eqb (a b : sinstr) : bool :=
  match a, b with
  | SI g1 a1 t1, SI g2 a2 t2 => String.eqb g1 g2 && leqb Z.eqb a1 a2 && leqb starget_eqb t1 t2
  | SRep n x, SRep m y => (n =? m) && leqb sinstr_eqb x y
  | _, _ => false
  end.
Definition circuit_eqb : circuit -> circuit -> bool := leqb sinstr_eqb.

Definition str_in (g : string) (l : list string) : bool := existsb (String.eqb g) l.

(* gates of the export's vocabulary that Stim never fuses (GATE_IS_NOT_FUSABLE) *)
Definition not_fusable (g : string) : bool := str_in g ["TICK"; "DETECTOR"; "OBSERVABLE_INCLUDE"; "SHIFT_COORDS"].
(* two-qubit gates (targets come in pairs) *)
Definition two_qubit_gate (g : string) : bool :=
  str_in g ["CZ"; "CX"; "CY"; "CNOT"; "ZCX"; "ZCY"; "ZCZ"; "XCX"; "XCY"; "XCZ"; "YCX"; "YCY"; "YCZ"; "SWAP"; "ISWAP"; "ISWAP_DAG";
            "SQRT_XX"; "SQRT_YY"; "SQRT_ZZ"; "SQRT_XX_DAG"; "SQRT_YY_DAG"; "SQRT_ZZ_DAG"; "CXSWAP"; "SWAPCX"; "CZSWAP"; "MXX"; "MYY"; "MZZ"].
(* gates that append one bit per target to the measurement record *)
Definition measures (g : string) : bool := str_in g ["M"; "MZ"; "MX"; "MY"; "MR"; "MRZ"; "MRX"; "MRY"].

Definition can_fuse (a b : sinstr) : bool :=
  match a, b with
  | SI g1 a1 _, SI g2 a2 _ => String.eqb g1 g2 && leqb Z.eqb a1 a2 && negb (not_fusable g1)
  | _, _ => false
  end.
Definition fuse (a b : sinstr) : sinstr :=
  match a, b with SI g a1 t1, SI _ _ t2 => SI g a1 (t1 ++ t2) | _, _ => a end.

(* circuit.append(instruction) *)
Fixpoint cappend (c : circuit) (i : sinstr) : circuit :=
  match c with
  | [] => [i]
  | x :: r => match r with
              | [] => if can_fuse x i then [fuse x i] else [x; i]
              | _ :: _ => x :: cappend r i
              end
  end.

(* circuit += other : the first instruction of `other` may fuse into the last of `circuit`, the rest is copied *)
Definition cadd (c other : circuit) : circuit :=
  match other with [] => c | i :: r => cappend c i ++ r end.

Definition two64 : Z := 18446744073709551616.
(* circuit * n *)
Definition cmul (c : circuit) (n : Z) : option circuit :=
  if (n <? 0) || (two64 <=? n) then None                    (* pybind: TypeError *)
  else if n =? 0 then Some []
  else if n =? 1 then Some c
  else match c with
       | [SRep k b] => if k * n <? two64 then Some [SRep (k * n) b] else None   (* "Fused repetition count is too large" *)
       | _ => Some [SRep n c]
       end.

(* circuit.num_measurements *)
Fixpoint nmeas_i (i : sinstr) : Z :=
  match i with
  | SI g _ ts => if measures g then Z.of_nat (List.length ts) else 0
  | SRep n b => n * fold_right (fun x s => nmeas_i x + s) 0 b
  end.
Definition nmeas (c : circuit) : Z := fold_right (fun x s => nmeas_i x + s) 0 c.

(* ------------------------------------------------------------------------------------------ normal form *)
(* REPEAT unrolled *)
Fixpoint unroll_i (i : sinstr) : list sinstr :=
  match i with
  | SI _ _ _ => [i]
  | SRep n b => rep_list (Z.to_nat n) (flat_map unroll_i b)
  end.
Definition unroll (c : circuit) : circuit := flat_map unroll_i c.

(* fused targets split: one instruction per target (per target pair for two-qubit gates) *)
Fixpoint chunk2 {A} (l : list A) : list (list A) :=
  match l with
  | a :: r => match r with b :: t => [a; b] :: chunk2 t | [] => [[a]] end
  | [] => []
  end.
Definition chunk {A} (two : bool) (l : list A) : list (list A) :=
  if two then chunk2 l else map (fun x => [x]) l.
Definition split_i (i : sinstr) : list sinstr :=
  match i with
  | SI g a ts => if not_fusable g then [i] else map (SI g a) (chunk (two_qubit_gate g) ts)
  | SRep _ _ => [i]
  end.
(* unrolled and split, SHIFT_COORDS still in place: the list of atomic instructions the circuit stands for *)
Definition flat (c : circuit) : circuit := flat_map split_i (unroll c).

(* SHIFT_COORDS folded into the detector coordinates, as stim.Circuit.flattened() does *)
Fixpoint shift_acc (sh a : list Z) : list Z :=          (* accumulated shift: element-wise, the longer tail kept *)
  match sh, a with
  | x :: s, y :: r => (x + y) :: shift_acc s r
  | [], r => r
  | s, [] => s
  end.
Fixpoint shift_det (a sh : list Z) : list Z :=          (* a detector keeps its number of coordinates *)
  match a, sh with
  | x :: r, y :: s => (x + y) :: shift_det r s
  | r, [] => r
  | [], _ => []
  end.
Fixpoint fold_coords (sh : list Z) (l : list sinstr) : list sinstr :=
  match l with
  | [] => []
  | SI g a ts :: r =>
      if String.eqb g "SHIFT_COORDS" then fold_coords (shift_acc sh a) r
      else if String.eqb g "DETECTOR" then SI g (shift_det a sh) ts :: fold_coords sh r
      else SI g a ts :: fold_coords sh r
  | i :: r => i :: fold_coords sh r
  end.
Definition normalise (c : circuit) : circuit := fold_coords [] (flat c).

(* ------------------------------------------------------------------------------------------ one operation *)
Inductive ires := ISkip | IEmit (i : sinstr) | IErr.

(* get_qubit_index(operation) = unique_in_order([channel.id for channel in operation.channel_identifiers]) *)
Definition resolve_id (qs : list Z) (s : idsrc) : list Z :=
  match s with
  | IdQ i => match nth_error qs i with Some q => [q] | None => [] end
  | IdAll => qs
  end.
Definition channel_ids (k : kind) (qs : list Z) : list Z := flat_map (resolve_id qs) (kind_ids k).
Definition qubits_of (k : kind) (qs : list Z) : list Z := unique_in_order Z.eqb (channel_ids k qs).

(* the object exists only with the number of qubit arguments its class takes *)
Definition shape_ok (k : kind) (qs : list Z) : bool :=
  match kind_qshape k with
  | QS_single => Nat.eqb (List.length qs) 1
  | QS_pair => Nat.eqb (List.length qs) 2
  | QS_list => true
  end.

(* what stim.CircuitInstruction / stim.target_rec accept *)
Definition valid_qubit (q : Z) : bool := (0 <=? q) && (q <? 16777216).
Definition valid_rec (k : Z) : bool := (-16777215 <=? k) && (k <=? -1).
Fixpoint pairs_distinct (l : list Z) : bool :=
  match l with
  | a :: r => match r with b :: t => negb (a =? b) && pairs_distinct t | [] => false end
  | [] => true
  end.
Definition named_instr (g : string) (qs : list Z) : ires :=
  if forallb valid_qubit qs && (if two_qubit_gate g then pairs_distinct qs else true)
  then IEmit (SI g [] (map TQ qs)) else IErr.

Fixpoint opt_all {A} (l : list (option A)) : option (list A) :=
  match l with
  | [] => Some []
  | Some x :: r => match opt_all r with Some t => Some (x :: t) | None => None end
  | None :: _ => None
  end.
Definition gt_vals (l : list gtarget) : option (list Z) := opt_all (map (fun g => match g with GT_rec v => v end) l).
Definition args_ok (g : string) (a : list Z) : bool :=
  if String.eqb g "OBSERVABLE_INCLUDE" then match a with [x] => 0 <=? x | _ => false end else true.
Definition of_gen (gi : gen_instr) : ires :=
  match gi with
  | GI g ts a =>
      match gt_vals ts, opt_all a with
      | Some vs, Some av => if forallb valid_rec vs && args_ok g av then IEmit (SI g av (map TRec vs)) else IErr
      | _, _ => IErr
      end
  end.

(* operation.to_stim_instruction() of the classes that bring their own (Gen/Tables.v, translated from the source) *)
Definition own_gen (l : leaf) : option gen_instr :=
  match l_kind l, l_qs l, l_args l with
  | K_DetectorOperation, [q], [la; m; s; r; so] => Some (DetectorOperation_to_stim_instruction (Some q) la m s r so)
  | K_LogicalObservableOperation, [q], [la; m] => Some (LogicalObservableOperation_to_stim_instruction (Some q) la m)
  | K_CoordinateShiftOperation, _, [ts; ss] => Some (CoordinateShiftOperation_to_stim_instruction ts ss)
  | _, _, _ => None
  end.

Definition instr_of (l : leaf) : ires :=
  if negb (shape_ok (l_kind l) (l_qs l)) then IErr
  else match stim_gate (l_kind l) with
       | None => ISkip                                           (* not supported: `continue` *)
       | Some (SF_Name g) => named_instr g (qubits_of (l_kind l) (l_qs l))
       | Some (SF_Const g) => IEmit (SI g [] [])
       | Some SF_Own => match own_gen l with Some gi => of_gen gi | None => IErr end
       end.

(* ------------------------------------------------------------------------------------------ the walk *)
Fixpoint construct_item (i : item) (acc : circuit) : option circuit :=
  match i with
  | Leaf l => match instr_of l with
              | ISkip => Some acc
              | IEmit s => Some (cappend acc s)
              | IErr => None
              end
  | Block n body =>
      match ofold construct_item body [] with                  (* inner_circuit = self.construct(operation) *)
      | Some inner => match cmul inner n with                  (* inner_circuit * operation.nr_of_repetitions *)
                      | Some m => Some (cadd acc m)            (* result_circuit += ...; the composite's own type is not in the table *)
                      | None => None
                      end
      | None => None
      end
  end.
Definition to_stim (t : list item) : option circuit := ofold construct_item t [].
