(* The listing tree the exporters walk (shared by C08 and C15).

   `circuit_structure._circuit_graph.get_node_iterator()` yields the operations of a (sub-)circuit in listing order;
   an operation is a leaf (class, qubit indices as given to the constructor, the class's integer arguments) or a
   composite (repetition count and its own listing).  The implementation drivers serialise exactly this tree from the
   real circuit; how the listing order arises from the relation graph is the business of the Core properties. *)
From Coq Require Import ZArith List Bool String.
Import ListNotations.
From Gen Require Import Tables.
Open Scope Z_scope.

Record leaf := MkLeaf {
  l_kind : kind;                 (* the operation's class *)
  l_qs : list Z;                 (* qubit_index | control, target | qubit_indices *)
  l_args : list (option Z)       (* DetectorOperation: last_acquisition_index, main_target, secondary_target, reference_offset,
                                    secondary_offset; LogicalObservableOperation: last_acquisition_index, main_target;
                                    CoordinateShiftOperation: time_shift, space_shift; Wait: duration in quarter units; else [] *)
}.

Inductive item :=
| Leaf (l : leaf)
| Block (reps : Z) (body : list item).    (* CircuitCompositeOperation: nr_of_repetitions, own listing *)

Fixpoint rep_list {A} (n : nat) (l : list A) : list A :=
  match n with O => [] | S k => l ++ rep_list k l end.

(* the expanded listing: a block is expanded in place, `reps` times *)
Fixpoint expand_item (i : item) : list leaf :=
  match i with
  | Leaf l => [l]
  | Block n b => rep_list (Z.to_nat n) (flat_map expand_item b)
  end.
Definition expand (t : list item) : list leaf := flat_map expand_item t.

(* every leaf once, in listing order, repetitions ignored (= decomposed_operations()) *)
Fixpoint leaves_item (i : item) : list leaf :=
  match i with
  | Leaf l => [l]
  | Block _ b => flat_map leaves_item b
  end.
Definition leaves (t : list item) : list leaf := flat_map leaves_item t.

Fixpoint has_block (t : list item) : bool :=
  match t with [] => false | Leaf _ :: r => has_block r | Block _ _ :: _ => true end.

Fixpoint depth_item (i : item) : nat :=
  match i with
  | Leaf _ => 0
  | Block _ b => S (fold_right (fun x m => Nat.max (depth_item x) m) 0%nat b)
  end.

(* option-fold used by the exporter walks: stop at the first error *)
Section OFold.
Context {A S : Type} (f : A -> S -> option S).
Fixpoint ofold (l : list A) (s : S) : option S :=
  match l with
  | [] => Some s
  | x :: r => match f x s with Some s' => ofold r s' | None => None end
  end.
End OFold.

(* boolean list equality with the element test outside the fixpoint (usable inside nested fixpoints) *)
Section LEqb.
Context {A : Type} (eqb : A -> A -> bool).
Fixpoint leqb (l1 l2 : list A) : bool :=
  match l1, l2 with
  | [], [] => true
  | x :: t1, y :: t2 => eqb x y && leqb t1 t2
  | _, _ => false
  end.
End LEqb.

Definition oZ_eqb (a b : option Z) : bool :=
  match a, b with Some x, Some y => x =? y | None, None => true | _, _ => false end.
Definition leaf_eqb (a b : leaf) : bool :=
  kind_eqb (l_kind a) (l_kind b) && leqb Z.eqb (l_qs a) (l_qs b) && leqb oZ_eqb (l_args a) (l_args b).
Fixpoint item_eqb (a b : item) : bool :=
  match a, b with
  | Leaf x, Leaf y => leaf_eqb x y
  | Block n x, Block m y => (n =? m) && leqb item_eqb x y
  | _, _ => false
  end.
