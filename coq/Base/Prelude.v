(* Shared helpers used by generated (Gen/*.v) and hand-written model files. *)
From Coq Require Import ZArith List Bool Lia.
Import ListNotations.
Open Scope Z_scope.

(* Python range(a, b) over Z, by structural recursion on the length *)
Fixpoint zrange_n (a : Z) (n : nat) : list Z :=
  match n with O => [] | S k => a :: zrange_n (a + 1) k end.
Definition zrange (a b : Z) : list Z := zrange_n a (Z.to_nat (b - a)).

Lemma zrange_n_length a n : length (zrange_n a n) = n.
Proof. revert a; induction n as [|n IH]; intros a; simpl; [reflexivity | now rewrite IH]. Qed.

Lemma zrange_n_In a n x : In x (zrange_n a n) <-> a <= x < a + Z.of_nat n.
Proof.
  revert a; induction n as [|n IH]; intros a; simpl.
  - split; [tauto | lia].
  - rewrite IH. lia.
Qed.

Lemma zrange_In a b x : In x (zrange a b) <-> a <= x < b.
Proof. unfold zrange. rewrite zrange_n_In. lia. Qed.

(* insertion sort on Z (Python sorted() on ints) *)
Fixpoint zinsert (x : Z) (l : list Z) : list Z :=
  match l with [] => [x] | y :: t => if x <=? y then x :: l else y :: zinsert x t end.
Fixpoint zsort (l : list Z) : list Z :=
  match l with [] => [] | x :: t => zinsert x (zsort t) end.

(* indices (as N-free nat list) of the elements of l on which f is false: used by the correspondence runs *)
Fixpoint failing_from {A} (f : A -> bool) (i : nat) (l : list A) : list nat :=
  match l with [] => [] | x :: t => if f x then failing_from f (S i) t else i :: failing_from f (S i) t end.
Definition failing {A} (f : A -> bool) (l : list A) : list nat := failing_from f 0 l.

Fixpoint list_eqb {A} (eqb : A -> A -> bool) (l1 l2 : list A) : bool :=
  match l1, l2 with
  | [], [] => true
  | x :: t1, y :: t2 => eqb x y && list_eqb eqb t1 t2
  | _, _ => false
  end.

Lemma list_eqb_spec {A} (eqb : A -> A -> bool) :
  (forall x y, eqb x y = true <-> x = y) -> forall l1 l2, list_eqb eqb l1 l2 = true <-> l1 = l2.
Proof.
  intros H l1; induction l1 as [|x t IH]; intros [|y t2]; simpl; try (split; congruence).
  rewrite andb_true_iff, H, IH. split; [intros [-> ->]; reflexivity | intros E; inversion E; auto].
Qed.

Definition option_eqb {A} (eqb : A -> A -> bool) (a b : option A) : bool :=
  match a, b with Some x, Some y => eqb x y | None, None => true | _, _ => false end.
