(* C02 — nothing lost, nothing duplicated: specification predicate evaluated on what the implementation reported (never calls
   the model's graph functions: only the leaf records of the program, their channel templates and duration settings), and
   the tie `agree` (= Core.Run.agree_core). *)
From Coq Require Import ZArith List Bool.
Import ListNotations.
From QCE Require Import Base.Prelude Core.Model Core.Run.
From Gen Require Import Ident Classes.
Open Scope Z_scope.

Definition ccase := Core.Run.case.
Definition agree_c (c : ccase) : bool := agree_core c.

(* the leaves a program adds: sub-circuit bodies expanded in place, once (NOT multiplied by the repetition count) *)
Fixpoint cmd_leaves (c : cmd) : list leaf :=
  match c with
  | CAdd l _ => [l]
  | CDangling l _ => [l]
  | CSub _ body => flat_map cmd_leaves body
  end.
Definition prog_leaves (p : list cmd) : list leaf := flat_map cmd_leaves p.

(* what identifies a listed operation in an observation: class, channels (hence qubits), acquisition tag, duration *)
Definition key := (Z * list ChannelIdentifier * Z * Z)%type.
Definition key_eqb (a b : key) : bool :=
  let '(c1, ch1, t1, d1) := a in let '(c2, ch2, t2, d2) := b in
  (c1 =? c2) && chans_eqb ch1 ch2 && (t1 =? t2) && (d1 =? d2).
Definition leaf_key (env : denv) (l : leaf) : key :=
  (l_cls l, l_chans l, match l_acq l with Some (_, t) => t | None => -1 end, resolve env (l_dur l)).
Definition obs_key (o : oentry) : key := (oe_cls o, oe_chans o, oe_tag o, oe_d o).

Definition count_key (k : key) (l : list key) : nat := length (filter (key_eqb k) l).
(* equal as multisets: same length and every member of the first occurs equally often in both *)
Definition multiset_eqb (l1 l2 : list key) : bool :=
  Nat.eqb (length l1) (length l2) && forallb (fun k => Nat.eqb (count_key k l1) (count_key k l2)) l1.

(* (a) the listed operations are exactly the added ones, with class, channels, tag and duration unchanged *)
Definition complete_ok (c : ccase) (ob : obs) : bool :=
  multiset_eqb (map (leaf_key (c_env c)) (prog_leaves (c_prog c))) (map obs_key (o_ops ob)).

(* (b) no entry is listed before (or as) the entry its reported relation refers to *)
Fixpoint causal_from (pos : Z) (ops : list oentry) : bool :=
  match ops with
  | [] => true
  | o :: t => ((oe_refpos o <? 0) || (oe_refpos o <? pos))
              (* a reported relation must refer to something that is listed (-1: the referent is not in the listing at all;
                 -2: the referent is a sub-circuit, whose operations are listed in its place) *)
              && negb (match oe_rel o with Some _ => oe_refpos o =? -1 | None => false end)
              && causal_from (pos + 1) t
  end.
Definition causal_ok (ob : obs) : bool := causal_from 0 (o_ops ob).

(* (d) listing after asking for the duration gives the same sequence of operations *)
Definition seq_key (o : oentry) : Z * list ChannelIdentifier := (oe_cls o, oe_chans o).
Definition seq_key_eqb (a b : Z * list ChannelIdentifier) : bool := (fst a =? fst b) && chans_eqb (snd a) (snd b).
Definition same_sequence (a b : obs) : bool := list_eqb seq_key_eqb (map seq_key (o_ops a)) (map seq_key (o_ops b)).

(* (e) add() returns the listed object: the object returned by the k-th top-level command, when that command adds a plain
   operation, is listed exactly once and is that operation; a sub-circuit's handle is not itself listed *)
Fixpoint zindexed {A} (i : Z) (l : list A) : list (Z * A) :=
  match l with [] => [] | x :: t => (i, x) :: zindexed (i + 1) t end.
Definition returned_ok (c : ccase) (ob : obs) : bool :=
  forallb (fun kc : Z * cmd =>
             let '(k, cm) := kc in
             let hits := filter (fun o => oe_cmd o =? k) (o_ops ob) in
             match cm with
             | CAdd l _ | CDangling l _ =>
                 match hits with [o] => key_eqb (leaf_key (c_env c) l) (obs_key o) | _ => false end
             | CSub _ _ => match hits with [] => true | _ => false end
             end)
          (zindexed 0 (c_prog c))
  && forallb (fun o => (oe_cmd o <? Z.of_nat (length (c_prog c)))) (o_ops ob).

Definition spec_c (c : ccase) : bool :=
  match c_plain c with
  | None => false                                   (* nothing observed, nothing checked *)
  | Some ob =>
      complete_ok c ob && causal_ok ob && returned_ok c ob
      && c_stable c                                 (* (c) listing twice gave the same sequence *)
      && match c_plain_dur_first c with
         | None => true
         | Some ob2 => complete_ok c ob2 && causal_ok ob2 && same_sequence ob ob2
         end
      && match c_unrolled c with                    (* the unrolled listing, where observed, is causal too *)
         | None => true
         | Some ob3 => causal_ok ob3
         end
  end.

(* A chain of n operations on one qubit, each implicitly FOLLOWED_BY the previous one (relation depth n-1): only the NUMBER of
   listed operations is observed (their times recurse deeper than the interpreter allows).  Documented depth limit: the
   operations of depth < 4999 are listed, the rest dropped with a warning. *)
Inductive case := KCore (c : ccase) | KDeep (n : Z) (listed : Z).
Definition agree (c : case) : bool :=
  match c with
  | KCore x => agree_c x
  (* the model's listing of a chain of n nodes has min n max_layers entries: theorems C02_chain_truncated / C02_bfs_complete
     (evaluating bfs on a 5000-deep unary-indexed chain inside the VM is infeasible, the proved closed form is used) *)
  | KDeep n listed => listed =? Z.min n (Z.of_nat max_layers)
  end.
Definition spec_ok (c : case) : bool :=
  match c with
  | KCore x => spec_c x
  | KDeep n listed => listed =? Z.min n 4999
  end.
