(* C02 — nothing lost, nothing duplicated: the operations listing is complete, duplicate-free and causal.
   `listing env ns` (Core.Model) is the model of DeclarativeCircuit.operations.

   Remark on stability ("listing twice gives the same sequence"): in this functional model `listing` is a function of the
   node list, so listing twice is equal by reflexivity; that is NOT a theorem about the implementation.  What can change
   between two listings of the real object is the relation link handed to un-related operations of a nested block
   (decomposed_operations assigns `relation_link` while listing) and the cached branch iterator; whether the second listing
   reports the same sequence is observed on the implementation and judged by the flag `c_stable` in C02.Run.spec_ok. *)
From Coq Require Import ZArith List Bool Lia Arith Permutation.
Import ListNotations.
From QCE Require Import Base.Prelude Core.Model Core.Run Core.BfsProofs Core.BfsWf C02.Run.
From Gen Require Import Ident Classes.
Local Open Scope nat_scope.

(* ------------------------------------------------------------------ the leaves a program adds *)
(* cmd_leaves / prog_leaves (sub-circuit bodies expanded in place, once) are defined in C02.Run, shared with spec_ok *)
(* the same, with the per-class copy() applied once per nesting level (add(sub-circuit) stores a copy) *)
Fixpoint cmd_built_leaves (c : cmd) : list leaf :=
  match c with
  | CAdd l _ => [l]
  | CDangling l _ => [l]
  | CSub _ body => map copy_leaf (flat_map cmd_built_leaves body)
  end.
Definition built_leaves (p : list cmd) : list leaf := flat_map cmd_built_leaves p.

(* a class whose copy() passes on its channel and duration fields *)
Definition faithful_leaf (l : leaf) : bool := cs_copy_qchan (class_of (l_cls l)) && cs_copy_dur (class_of (l_cls l)).
Definition faithful_classes (p : list cmd) : Prop := Forall (fun l => faithful_leaf l = true) (prog_leaves p).

Lemma copy_leaf_label l : l_lab (copy_leaf l) = l_lab l.
Proof. reflexivity. Qed.

Lemma copy_leaf_faithful l : faithful_leaf l = true -> copy_leaf l = l.
Proof.
  unfold faithful_leaf, copy_leaf. intros H. apply andb_true_iff in H as [H1 H2]. rewrite H1, H2. destruct l; reflexivity.
Qed.

Lemma map_copy_leaf_labels ls : map l_lab (map copy_leaf ls) = map l_lab ls.
Proof. rewrite map_map. reflexivity. Qed.

Lemma map_copy_leaf_faithful ls : Forall (fun l => faithful_leaf l = true) ls -> map copy_leaf ls = ls.
Proof. induction 1 as [|l ls H _ IH]; simpl; [reflexivity|]. now rewrite IH, copy_leaf_faithful. Qed.

Lemma built_leaves_labels_cmd c : map l_lab (cmd_built_leaves c) = map l_lab (cmd_leaves c).
Proof.
  induction c as [l r | l t | r body IH] using cmd_ind'; simpl; try reflexivity.
  rewrite map_copy_leaf_labels. induction IH as [|c body H _ IHb]; simpl; [reflexivity|].
  now rewrite !map_app, H, IHb.
Qed.

Lemma built_leaves_labels p : map l_lab (built_leaves p) = map l_lab (prog_leaves p).
Proof.
  unfold built_leaves, prog_leaves. induction p as [|c p IH]; simpl; [reflexivity|].
  now rewrite !map_app, built_leaves_labels_cmd, IH.
Qed.

Lemma built_leaves_faithful_cmd c : Forall (fun l => faithful_leaf l = true) (cmd_leaves c) -> cmd_built_leaves c = cmd_leaves c.
Proof.
  induction c as [l r | l t | r body IH] using cmd_ind'; simpl; try reflexivity. intros F.
  assert (E : flat_map cmd_built_leaves body = flat_map cmd_leaves body).
  { induction IH as [|c body H _ IHb]; simpl in *; [reflexivity|]. apply Forall_app in F as [F1 F2].
    now rewrite H, IHb. }
  rewrite E. apply map_copy_leaf_faithful. exact F.
Qed.

Lemma built_leaves_faithful p : faithful_classes p -> built_leaves p = prog_leaves p.
Proof.
  unfold faithful_classes, built_leaves, prog_leaves. induction p as [|c p IH]; simpl; [reflexivity|].
  intros F. apply Forall_app in F as [F1 F2]. now rewrite built_leaves_faithful_cmd, IH.
Qed.

(* ------------------------------------------------------------------ leaves of a graph: insertion order / listing order *)
Definition at_node {B} (ns : list node) (F : node -> list B) (i : nat) : list B :=
  match nth_error ns i with Some n => F n | None => [] end.

Lemma nth_map_at_node {B} (ns : list node) (F : node -> list B) i : nth i (map F ns) [] = at_node ns F i.
Proof.
  unfold at_node. revert i. induction ns as [|a t IH]; intros [|i]; simpl; try reflexivity. apply IH.
Qed.

Lemma flat_map_at_node_seq {B} (ns : list node) (F : node -> list B) :
  flat_map (at_node ns F) (seq 0 (length ns)) = flat_map F ns.
Proof.
  induction ns as [|a t IH]; simpl; [reflexivity|]. unfold at_node at 1. simpl. f_equal.
  rewrite <- seq_shift, flat_map_concat_map, map_map, <- flat_map_concat_map. exact IH.
Qed.

Lemma map_flat_map {A B C} (f : B -> C) (g : A -> list B) l : map f (flat_map g l) = flat_map (fun x => map f (g x)) l.
Proof. induction l as [|a l IH]; simpl; [reflexivity|]. now rewrite map_app, IH. Qed.

Lemma flat_map_filter_map {A B C} (h : B -> list C) (k : A -> option B) l :
  flat_map h (filter_map k l) = flat_map (fun i => match k i with Some y => h y | None => [] end) l.
Proof. induction l as [|a l IH]; simpl; [reflexivity|]. destruct (k a); simpl; now rewrite IH. Qed.

Lemma Permutation_flat_map_pointwise {A B} (f g : A -> list B) l :
  Forall (fun a => Permutation (f a) (g a)) l -> Permutation (flat_map f l) (flat_map g l).
Proof. induction 1 as [|a l H _ IH]; simpl; [constructor|]. apply Permutation_app; assumption. Qed.

(* all leaves below an operation, in insertion order *)
Fixpoint all_leaves (o : op) : list leaf :=
  match o with
  | OLeaf l => [l]
  | OComp _ ns => (fix go (l : list node) : list leaf :=
                     match l with [] => [] | Node _ _ o' :: t => all_leaves o' ++ go t end) ns
  end.

Lemma all_leaves_comp r ns : all_leaves (OComp r ns) = flat_map (fun n => all_leaves (n_op n)) ns.
Proof. simpl. induction ns as [|[p lk o'] t IH]; simpl; [reflexivity|]. now rewrite IH. Qed.

Lemma all_leaves_ops r ns : all_leaves (OComp r ns) = flat_map all_leaves (map n_op ns).
Proof. rewrite all_leaves_comp, flat_map_concat_map, flat_map_concat_map, map_map. reflexivity. Qed.

(* the leaves in listing order *)
Fixpoint op_leaves (o : op) : list leaf :=
  match o with
  | OLeaf l => [l]
  | OComp _ ns =>
      let ls := (fix go (l : list node) : list (list leaf) :=
                   match l with [] => [] | Node _ _ o' :: t => op_leaves o' :: go t end) ns in
      flat_map (fun i => nth i ls []) (bfs (parents ns))
  end.

Lemma op_leaves_comp r ns :
  op_leaves (OComp r ns) = flat_map (at_node ns (fun n => op_leaves (n_op n))) (bfs (parents ns)).
Proof.
  simpl. apply flat_map_ext. intros i. rewrite <- nth_map_at_node. f_equal.
  induction ns as [|[p lk o'] t IH]; simpl; [reflexivity|]. now rewrite IH.
Qed.

(* the expansion of node i inside the listing of its graph *)
Definition node_entries (env : denv) (c : ctx) (ns : list node) (i : nat) : list entry :=
  nth i (map (fun n => listing_op env (n_op n)) ns) (fun _ _ => [])
      (sub_ctx c (node_times env c ns) (nth i (map n_link ns) LNone)) (nth i (node_times env c ns) (0, 0)%Z).

Lemma listing_op_blocks env r ns c se :
  listing_op env (OComp r ns) c se = flat_map (node_entries env c ns) (bfs (parents ns)).
Proof. apply listing_op_comp. Qed.

Lemma node_entries_at env c ns i :
  node_entries env c ns i =
  at_node ns (fun n => listing_op env (n_op n) (sub_ctx c (node_times env c ns) (n_link n)) (nth i (node_times env c ns) (0, 0)%Z)) i.
Proof.
  unfold node_entries, at_node. generalize (node_times env c ns). intros tm. generalize (nth i tm (0, 0)%Z). intros x.
  revert i. induction ns as [|a t IH]; intros [|i]; simpl; try reflexivity. apply IH.
Qed.

Lemma listing_op_leaves env o : forall c se, map e_leaf (listing_op env o c se) = op_leaves o.
Proof.
  induction o as [l | r ns IH] using op_ind'; intros c se; [reflexivity|].
  rewrite listing_op_blocks, op_leaves_comp, map_flat_map. apply flat_map_ext. intros i.
  rewrite node_entries_at. unfold at_node. destruct (nth_error ns i) as [n|] eqn:E; [|reflexivity].
  rewrite Forall_forall in IH. apply IH. eapply nth_error_In. exact E.
Qed.

Corollary listing_leaves env ns : map e_leaf (listing env ns) = op_leaves (OComp 1%Z ns).
Proof. apply listing_op_leaves. Qed.

(* ------------------------------------------------------------------ graphs within the depth limit *)
Definition depth_ok (ns : list node) : Prop := forall i, i < length ns -> depth (parents ns) i < max_layers.
(* deep: every nested sub-circuit as well *)
Inductive depth_ok_op : op -> Prop :=
| dok_leaf l : depth_ok_op (OLeaf l)
| dok_comp r ns : depth_ok ns -> Forall (fun n => depth_ok_op (n_op n)) ns -> depth_ok_op (OComp r ns).

Definition listable (ns : list node) : Prop := Permutation (bfs (parents ns)) (seq 0 (length ns)).
Inductive listable_op : op -> Prop :=
| lst_leaf l : listable_op (OLeaf l)
| lst_comp r ns : listable ns -> Forall (fun n => listable_op (n_op n)) ns -> listable_op (OComp r ns).

Lemma depth_ok_listable ns : wf_nodes ns -> depth_ok ns -> listable ns.
Proof.
  intros [W _] D. unfold listable. rewrite <- (parents_length ns). apply bfs_perm; [exact W|].
  intros i Hi. rewrite parents_length in Hi. exact (D i Hi).
Qed.

Lemma depth_ok_op_listable o : wf_op o -> depth_ok_op o -> listable_op o.
Proof.
  induction o as [l | r ns IH] using op_ind'; intros W D; [constructor|].
  apply wf_op_comp_inv in W as [W WF]. inversion D as [|? ? D1 DF]; subst. constructor.
  - apply depth_ok_listable; assumption.
  - rewrite Forall_forall in *. intros n Hn. apply IH; auto.
Qed.

Lemma depth_ok_op_reps r r' ns : depth_ok_op (OComp r ns) -> depth_ok_op (OComp r' ns).
Proof. intros D. inversion D; subst. constructor; assumption. Qed.

(* listing order is a permutation of insertion order *)
Lemma op_leaves_perm o : listable_op o -> Permutation (op_leaves o) (all_leaves o).
Proof.
  induction o as [l | r ns IH] using op_ind'; intros L; [apply Permutation_refl|].
  inversion L as [|? ? L1 LF]; subst. rewrite op_leaves_comp, all_leaves_comp.
  rewrite (Permutation_flat_map _ L1), flat_map_at_node_seq. apply Permutation_flat_map_pointwise.
  rewrite Forall_forall in *. intros n Hn. apply IH; auto.
Qed.

(* ------------------------------------------------------------------ copy keeps the multiset of leaves *)
Lemma rebuild_fold_ops env ns g : forall is new m,
  map n_op (fst (fold_left (rebuild_step env ns (map g ns)) is (new, m))) =
  map n_op new ++ filter_map (fun i => option_map g (nth_error ns i)) is.
Proof.
  induction is as [|i is IH]; intros new m; simpl; [now rewrite app_nil_r|].
  rewrite nth_error_map. destruct (nth_error ns i) as [n|] eqn:E; simpl.
  - rewrite IH, add_node_ops, <- app_assoc. reflexivity.
  - apply IH.
Qed.

Lemma rebuild_ops env ns g :
  map n_op (rebuild env ns (map g ns)) = filter_map (fun i => option_map g (nth_error ns i)) (bfs (parents ns)).
Proof. rewrite rebuild_eq, rebuild_fold_ops. reflexivity. Qed.

Lemma copy_op_leaves_listing env r ns :
  all_leaves (copy_op env (OComp r ns)) =
  flat_map (at_node ns (fun n => all_leaves (copy_op env (n_op n)))) (bfs (parents ns)).
Proof.
  rewrite copy_op_comp, all_leaves_ops, (rebuild_ops env ns (fun n => copy_op env (n_op n))), flat_map_filter_map.
  apply flat_map_ext. intros i. unfold at_node. destruct (nth_error ns i); reflexivity.
Qed.

Theorem copy_op_leaves_perm env o : listable_op o -> Permutation (all_leaves (copy_op env o)) (map copy_leaf (all_leaves o)).
Proof.
  induction o as [l | r ns IH] using op_ind'; intros L; [apply Permutation_refl|].
  inversion L as [|? ? L1 LF]; subst. rewrite copy_op_leaves_listing, all_leaves_comp, map_flat_map.
  rewrite (Permutation_flat_map _ L1), flat_map_at_node_seq. apply Permutation_flat_map_pointwise.
  rewrite Forall_forall in *. intros n Hn. apply IH; auto.
Qed.

Lemma copy_nodes_leaves env r r' ns : all_leaves (OComp r (copy_nodes env ns)) = all_leaves (copy_op env (OComp r' ns)).
Proof. rewrite copy_nodes_eq, copy_op_comp, !all_leaves_comp. reflexivity. Qed.

(* ------------------------------------------------------------------ programs *)
(* hypothesis of the completeness theorems: every graph that is listed while the program is built (each sub-circuit body
   when it is copied into its parent) and the final circuit, nested copies included, stays within the depth limit *)
Inductive cmd_ok (env : denv) : cmd -> Prop :=
| ok_add l r : cmd_ok env (CAdd l r)
| ok_dangling l t : cmd_ok env (CDangling l t)
| ok_sub r body : Forall (cmd_ok env) body -> depth_ok_op (OComp 1%Z (run_prog env body)) -> cmd_ok env (CSub r body).
Definition prog_ok (env : denv) (p : list cmd) : Prop :=
  Forall (cmd_ok env) p /\ depth_ok_op (OComp 1%Z (run_prog env p)).

Lemma run_prog_leaves env r p : all_leaves (OComp r (run_prog env p)) = flat_map (fun c => all_leaves (cmd_op env c)) p.
Proof.
  unfold run_prog. rewrite all_leaves_ops, run_cmds_ops. simpl.
  rewrite flat_map_concat_map, flat_map_concat_map, map_map. reflexivity.
Qed.

Lemma cmd_op_leaves_perm env c : cmd_ok env c -> Permutation (all_leaves (cmd_op env c)) (cmd_built_leaves c).
Proof.
  induction c as [l r | l t | r body IH] using cmd_ind'; intros K; try apply Permutation_refl.
  inversion K as [| | ? ? KB D]; subst. cbn [cmd_op cmd_built_leaves].
  rewrite (copy_nodes_leaves env r 1%Z).
  rewrite copy_op_leaves_perm by (apply depth_ok_op_listable; [apply run_prog_wf_op | exact D]).
  apply Permutation_map. change (run_cmds env body []) with (run_prog env body).
  rewrite run_prog_leaves. apply Permutation_flat_map_pointwise.
  rewrite Forall_forall in *. intros c Hc. apply IH; auto.
Qed.

Theorem run_prog_leaves_perm env r p : Forall (cmd_ok env) p -> Permutation (all_leaves (OComp r (run_prog env p))) (built_leaves p).
Proof.
  intros K. rewrite run_prog_leaves. apply Permutation_flat_map_pointwise.
  rewrite Forall_forall in *. intros c Hc. apply cmd_op_leaves_perm; auto.
Qed.

(* completeness: nothing lost, nothing duplicated *)
Theorem listing_built_perm env p : prog_ok env p ->
  Permutation (map e_leaf (listing env (run_prog env p))) (built_leaves p).
Proof.
  intros [K D]. rewrite listing_leaves.
  rewrite op_leaves_perm by (apply depth_ok_op_listable; [apply run_prog_wf_op | exact D]).
  apply run_prog_leaves_perm. exact K.
Qed.

Theorem listing_labels_perm env p : prog_ok env p ->
  Permutation (map l_lab (map e_leaf (listing env (run_prog env p)))) (map l_lab (prog_leaves p)).
Proof. intros H. rewrite <- built_leaves_labels. apply Permutation_map. apply listing_built_perm. exact H. Qed.

Theorem listing_leaves_perm env p : prog_ok env p -> faithful_classes p ->
  Permutation (map e_leaf (listing env (run_prog env p))) (prog_leaves p).
Proof. intros H F. rewrite <- (built_leaves_faithful p F). apply listing_built_perm. exact H. Qed.

(* ------------------------------------------------------------------ a syntactic sufficient condition *)
(* every command list (the program and every sub-circuit body) has at most 4999 commands *)
Inductive small_cmd : cmd -> Prop :=
| sm_add l r : small_cmd (CAdd l r)
| sm_dangling l t : small_cmd (CDangling l t)
| sm_sub r body : (Z.of_nat (length body) <= 4999)%Z -> Forall small_cmd body -> small_cmd (CSub r body).
Definition small_prog (p : list cmd) : Prop := (Z.of_nat (length p) <= 4999)%Z /\ Forall small_cmd p.

Inductive size_ok : op -> Prop :=
| sz_leaf l : size_ok (OLeaf l)
| sz_comp r ns : length ns <= max_layers -> Forall (fun n => size_ok (n_op n)) ns -> size_ok (OComp r ns).

Lemma size_ok_depth_ok o : wf_op o -> size_ok o -> depth_ok_op o.
Proof.
  induction o as [l | r ns IH] using op_ind'; intros W S; [constructor|].
  apply wf_op_comp_inv in W as [[W _] WF]. inversion S as [|? ? S1 SF]; subst. constructor.
  - intros i Hi. pose proof (depth_lt_length (parents ns) i W). rewrite parents_length in H. specialize (H Hi). lia.
  - rewrite Forall_forall in *. intros n Hn. apply IH; auto.
Qed.

Lemma filter_map_length {A B} (f : A -> option B) l : length (filter_map f l) <= length l.
Proof. induction l as [|a l IH]; simpl; [lia|]. destruct (f a); simpl; lia. Qed.

Lemma in_filter_map_inv {A B} (f : A -> option B) l y : In y (filter_map f l) -> exists x, In x l /\ f x = Some y.
Proof. apply in_filter_map. Qed.

Lemma size_ok_ops r ns : length ns <= max_layers -> Forall size_ok (map n_op ns) -> size_ok (OComp r ns).
Proof. intros H F. constructor; [exact H|]. exact (proj1 (Forall_map n_op size_ok ns) F). Qed.

Lemma copy_op_size_ok env o : wf_op o -> size_ok o -> size_ok (copy_op env o).
Proof.
  induction o as [l | r ns IH] using op_ind'; intros W S; [constructor|].
  apply wf_op_comp_inv in W as [[W _] WF]. inversion S as [|? ? S1 SF]; subst.
  rewrite copy_op_comp. apply size_ok_ops.
  - rewrite <- (map_length n_op), (rebuild_ops env ns (fun n => copy_op env (n_op n))).
    etransitivity; [apply filter_map_length|]. pose proof (bfs_fuel_length_le (parents ns) max_layers W) as H.
    rewrite parents_length in H. unfold bfs. lia.
  - rewrite (rebuild_ops env ns (fun n => copy_op env (n_op n))). apply Forall_forall. intros o' Ho'.
    apply in_filter_map in Ho' as (i & _ & E). destruct (nth_error ns i) as [n|] eqn:En; [|discriminate].
    simpl in E. inversion E; subst. apply nth_error_In in En. rewrite Forall_forall in *. apply IH; auto.
Qed.

Lemma max_layers_bound n : (Z.of_nat n <= 4999)%Z -> n <= max_layers.
Proof. pose proof max_layers_eq. lia. Qed.

Lemma run_prog_size_ok env r p : length p <= max_layers -> Forall (fun c => size_ok (cmd_op env c)) p -> size_ok (OComp r (run_prog env p)).
Proof.
  intros H F. apply size_ok_ops.
  - unfold run_prog. rewrite run_cmds_length. simpl. exact H.
  - unfold run_prog. rewrite run_cmds_ops. simpl. apply Forall_map. exact F.
Qed.

Lemma small_cmd_size_ok env c : small_cmd c -> size_ok (cmd_op env c).
Proof.
  induction c as [l r | l t | r body IH] using cmd_ind'; intros S; [constructor | constructor | ].
  inversion S as [| | ? ? SL SB]; subst. cbn [cmd_op].
  assert (X : size_ok (copy_op env (OComp r (run_prog env body)))).
  { apply copy_op_size_ok; [apply run_prog_wf_op|]. apply run_prog_size_ok; [apply max_layers_bound; exact SL|].
    rewrite Forall_forall in *. intros c Hc. apply IH; auto. }
  rewrite copy_op_comp in X. rewrite copy_nodes_eq. exact X.
Qed.

Lemma small_cmd_ok env c : small_cmd c -> cmd_ok env c.
Proof.
  induction c as [l r | l t | r body IH] using cmd_ind'; intros S; try constructor.
  - inversion S as [| | ? ? SL SB]; subst. rewrite Forall_forall in *. intros c Hc. apply IH; auto.
  - inversion S as [| | ? ? SL SB]; subst. apply size_ok_depth_ok; [apply run_prog_wf_op|].
    apply run_prog_size_ok; [apply max_layers_bound; exact SL|].
    rewrite Forall_forall in *. intros c Hc. apply small_cmd_size_ok; auto.
Qed.

Theorem small_prog_ok env p : small_prog p -> prog_ok env p.
Proof.
  intros [SL SB]. split.
  - rewrite Forall_forall in *. intros c Hc. apply small_cmd_ok; auto.
  - apply size_ok_depth_ok; [apply run_prog_wf_op|]. apply run_prog_size_ok; [apply max_layers_bound; exact SL|].
    rewrite Forall_forall in *. intros c Hc. apply small_cmd_size_ok; auto.
Qed.

(* ------------------------------------------------------------------ causality *)
Lemma blocks_before {A} (l l1 a l2 b l3 : list A) x y : l = l1 ++ a ++ l2 ++ b ++ l3 -> In x a -> In y b -> before l x y.
Proof.
  intros -> Hx Hy. apply before_app_l. rewrite app_assoc. apply before_app_lr; [|apply in_or_app; left; exact Hy].
  apply in_or_app. left. exact Hx.
Qed.

(* graph level: the whole expansion of the parent (the reported referent) precedes the whole expansion of the child *)
Theorem causal_blocks env r ns c se j p : wf_parents (parents ns) ->
  nth_error (parents ns) j = Some (Some p) -> In j (bfs (parents ns)) ->
  exists l1 l2 l3, listing_op env (OComp r ns) c se = l1 ++ node_entries env c ns p ++ l2 ++ node_entries env c ns j ++ l3.
Proof.
  intros W E Hj. rewrite listing_op_blocks. apply before_flat_map. exact (bfs_parent_before _ _ _ _ W E Hj).
Qed.

Theorem causal_parent env r ns c se j p : wf_parents (parents ns) ->
  nth_error (parents ns) j = Some (Some p) -> In j (bfs (parents ns)) ->
  forall ep ej, In ep (node_entries env c ns p) -> In ej (node_entries env c ns j) ->
                before (listing_op env (OComp r ns) c se) ep ej.
Proof.
  intros W E Hj ep ej Hp Hej. destruct (causal_blocks env r ns c se j p W E Hj) as (l1 & l2 & l3 & EQ).
  exact (blocks_before _ _ _ _ _ _ _ _ EQ Hp Hej).
Qed.

(* in terms of the stored relation link *)
Theorem causal_link_rel env r ns c se j n t p : wf_nodes ns ->
  nth_error ns j = Some n -> n_link n = LRel t p -> In j (bfs (parents ns)) ->
  forall ep ej, In ep (node_entries env c ns p) -> In ej (node_entries env c ns j) ->
                before (listing_op env (OComp r ns) c se) ep ej.
Proof.
  intros W E K Hj. destruct (wf_nodes_link_rel ns j n t p W E K) as [Hp _].
  exact (causal_parent env r ns c se j p (proj1 W) Hp Hj).
Qed.

Theorem causal_link_multi env r ns c se j n qs : wf_nodes ns ->
  nth_error ns j = Some n -> n_link n = LMulti qs -> In j (bfs (parents ns)) ->
  exists p, In p qs /\ nth_error (parents ns) j = Some (Some p) /\
  forall ep ej, In ep (node_entries env c ns p) -> In ej (node_entries env c ns j) ->
                before (listing_op env (OComp r ns) c se) ep ej.
Proof.
  intros W E K Hj. destruct (wf_nodes_link_multi ns j n qs W E K) as (p & Hp & Hin & _).
  exists p. split; [exact Hin|]. split; [exact Hp|]. exact (causal_parent env r ns c se j p (proj1 W) Hp Hj).
Qed.

(* for a built program, top level *)
Theorem causal_prog env p j n t q : nth_error (run_prog env p) j = Some n -> n_link n = LRel t q ->
  In j (bfs (parents (run_prog env p))) ->
  forall ep ej, In ep (node_entries env None (run_prog env p) q) -> In ej (node_entries env None (run_prog env p) j) ->
                before (listing env (run_prog env p)) ep ej.
Proof. intros E K Hj. exact (causal_link_rel env 1%Z _ None (0, 0)%Z j n t q (run_prog_wf env p) E K Hj). Qed.

(* ------------------------------------------------------------------ the documented depth limit *)
Theorem listing_truncation env r ns c se : wf_parents (parents ns) ->
  listing_op env (OComp r ns) c se = flat_map (node_entries env c ns) (bfs (parents ns)) /\
  NoDup (bfs (parents ns)) /\
  (forall i, In i (bfs (parents ns)) <-> i < length ns /\ (Z.of_nat (depth (parents ns) i) < 4999)%Z).
Proof.
  intros W. split; [apply listing_op_blocks|]. split; [apply bfs_NoDup; exact W|].
  intros i. rewrite (bfs_In _ _ W), parents_length. pose proof max_layers_eq. split; intros [H1 H2]; split; auto; lia.
Qed.

Corollary listing_truncation_leaves r ns : wf_parents (parents ns) ->
  op_leaves (OComp r ns) = flat_map (at_node ns (fun n => op_leaves (n_op n))) (bfs (parents ns)) /\
  NoDup (bfs (parents ns)) /\
  (forall i, In i (bfs (parents ns)) <-> i < length ns /\ (Z.of_nat (depth (parents ns) i) < 4999)%Z).
Proof.
  intros W. split; [apply op_leaves_comp|]. split; [apply bfs_NoDup; exact W|].
  intros i. rewrite (bfs_In _ _ W), parents_length. pose proof max_layers_eq. split; intros [H1 H2]; split; auto; lia.
Qed.

(* flat case: both nodes are plain operations, so the parent's entry precedes the child's entry *)
Lemma node_entries_leaf env c ns i n l : nth_error ns i = Some n -> n_op n = OLeaf l ->
  exists e, node_entries env c ns i = [e] /\ e_leaf e = l.
Proof.
  intros E K. rewrite node_entries_at. unfold at_node. rewrite E, K. simpl. eexists. split; reflexivity.
Qed.

Corollary causal_leaves env r ns c se j p nj np lj lp : wf_parents (parents ns) ->
  nth_error (parents ns) j = Some (Some p) -> In j (bfs (parents ns)) ->
  nth_error ns p = Some np -> n_op np = OLeaf lp -> nth_error ns j = Some nj -> n_op nj = OLeaf lj ->
  before (map e_leaf (listing_op env (OComp r ns) c se)) lp lj.
Proof.
  intros W E Hj Ep Kp Ej Kj.
  destruct (node_entries_leaf env c ns p np lp Ep Kp) as (ep & Hp & <-).
  destruct (node_entries_leaf env c ns j nj lj Ej Kj) as (ej & Hej & <-).
  apply before_map. apply (causal_parent env r ns c se j p W E Hj); [rewrite Hp | rewrite Hej]; left; reflexivity.
Qed.

(* ------------------------------------------------------------------ the depth limit on a chain *)
(* node 0 is a root, node i+1 follows node i: the relation graph of n operations added one after the other on one qubit *)
Definition chain_parents (n : nat) : list (option nat) := map (fun i => match i with O => None | S k => Some k end) (seq 0 n).

Lemma chain_nth n i : i < n -> nth_error (chain_parents n) i = Some (match i with O => None | S k => Some k end).
Proof.
  intros H. unfold chain_parents. rewrite nth_error_map.
  rewrite (nth_error_nth' (seq 0 n) 0) by (rewrite seq_length; exact H). rewrite seq_nth by exact H. reflexivity.
Qed.

Lemma chain_length n : length (chain_parents n) = n.
Proof. unfold chain_parents. now rewrite map_length, seq_length. Qed.

Lemma chain_wf n : wf_parents (chain_parents n).
Proof.
  intros i p E. assert (Hi : i < n).
  { rewrite <- (chain_length n). apply nth_error_Some. congruence. }
  rewrite chain_nth in E by exact Hi. destruct i; inversion E; subst. lia.
Qed.

Lemma chain_depth n i : i < n -> depth (chain_parents n) i = i.
Proof.
  induction i as [|i IH]; intros H.
  - apply depth_root. now rewrite chain_nth.
  - rewrite (depth_child _ (S i) i (chain_wf n)) by now rewrite chain_nth. rewrite IH by lia. reflexivity.
Qed.

Theorem chain_listed n i : In i (bfs (chain_parents n)) <-> i < n /\ (Z.of_nat i < 4999)%Z.
Proof.
  rewrite (bfs_In _ _ (chain_wf n)), chain_length. pose proof max_layers_eq. split; intros [H1 H2]; split; auto.
  - rewrite chain_depth in H2 by exact H1. lia.
  - rewrite chain_depth by exact H1. lia.
Qed.

(* a chain of more than 4999 operations lists exactly 4999 of them (measured on the implementation: 5005 -> 4999) *)
Theorem chain_truncated n : (4999 <= Z.of_nat n)%Z -> Z.of_nat (length (bfs (chain_parents n))) = 4999%Z.
Proof.
  intros H. pose proof max_layers_eq as M.
  assert (P : Permutation (bfs (chain_parents n)) (seq 0 max_layers)).
  { apply NoDup_Permutation; [apply bfs_NoDup, chain_wf | apply seq_NoDup |].
    intros i. rewrite chain_listed, in_seq. lia. }
  rewrite (Permutation_length P), seq_length. exact M.
Qed.

(* ------------------------------------------------------------------ non-vacuity *)
Local Open Scope Z_scope.
Definition ex_env : denv := mk_env 8 2 4 16 [].
Definition ex_leaf (lab cls q : Z) : leaf := mk_leaf lab cls [q] QubitChannel_ALL (default_dstrat cls) None.
(* operations on two qubits, a repeated block containing a nested block, explicit and dangling relations *)
Definition ex_prog : list cmd :=
  [ CAdd (ex_leaf 0 C_Rx180 0) None;
    CSub 2 [ CAdd (ex_leaf 1 C_Rx90 0) None; CAdd (ex_leaf 2 C_Ry90 1) None;
             CSub 1 [ CAdd (mk_leaf 3 C_CPhase [0; 1] QubitChannel_ALL (DGlobal GFlux) None) None ];
             CAdd (ex_leaf 4 C_Rxm90 0) (Some (RelationType_JOINED_START, 1%nat)) ];
    CAdd (ex_leaf 5 C_Ry180 1) (Some (RelationType_FOLLOWED_BY, 0%nat));
    CDangling (ex_leaf 6 C_Rx180 0) RelationType_FOLLOWED_BY;
    CAdd (mk_leaf 7 C_DispersiveMeasure [0] QubitChannel_ALL (DGlobal GReadout) (Some (0, 0))) None;
    CAdd (ex_leaf 8 C_Rx180 1) (Some (RelationType_FOLLOWED_BY, 0%nat)) ].

Example ex_small : small_prog ex_prog.
Proof. split; [vm_compute; discriminate|]. repeat (constructor; try (vm_compute; discriminate)). Qed.

Example ex_faithful : faithful_classes ex_prog.
Proof. unfold faithful_classes. vm_compute prog_leaves. repeat constructor. Qed.

(* the listing order is not the insertion order, and the block of node 1 (labels 1-4) stays together *)
Example ex_listing_labels :
  map l_lab (map e_leaf (listing ex_env (run_prog ex_env ex_prog))) = [0; 7; 1; 2; 3; 4; 5; 8; 6]
  /\ map l_lab (prog_leaves ex_prog) = [0; 1; 2; 3; 4; 5; 6; 7; 8].
Proof. split; vm_compute; reflexivity. Qed.

Example ex_listing_perm : Permutation (map e_leaf (listing ex_env (run_prog ex_env ex_prog))) (prog_leaves ex_prog).
Proof. apply listing_leaves_perm; [apply small_prog_ok, ex_small | apply ex_faithful]. Qed.

(* node 5 (label 8) names node 0 (label 0); node 3 (label 6, dangling relation) was placed after node 1, the block *)
Example ex_causal_hyp :
  parents (run_prog ex_env ex_prog) = [None; Some 0; Some 0; Some 1; None; Some 0]%nat
  /\ bfs (parents (run_prog ex_env ex_prog)) = [0; 4; 1; 2; 5; 3]%nat.
Proof. split; vm_compute; reflexivity. Qed.

(* ------------------------------------------------------------------ the classes of the current source *)
(* whether every class of the generated table copies its channel and duration fields (Gen/Classes.v is regenerated from the
   source on every run; finding F3 was a class -- VirtualTwoQubitVacant -- for which this was false) *)
Definition table_faithful : bool := forallb (fun cs => cs_copy_qchan cs && cs_copy_dur cs) class_table.

Lemma table_faithful_leaf : table_faithful = true -> forall l, faithful_leaf l = true.
Proof.
  intros T l. unfold faithful_leaf, class_of. unfold table_faithful in T. rewrite forallb_forall in T.
  destruct (nth_in_or_default (Z.to_nat (l_cls l)) class_table no_class) as [H | H].
  - exact (T _ H).
  - rewrite H. reflexivity.
Qed.

Theorem listing_leaves_perm_table env p : table_faithful = true -> prog_ok env p ->
  Permutation (map e_leaf (listing env (run_prog env p))) (prog_leaves p).
Proof.
  intros T H. apply listing_leaves_perm; [exact H|]. apply Forall_forall. intros l _. apply table_faithful_leaf. exact T.
Qed.

(* holds for the source as it is now; fails to check (by design) if a class' copy() stops passing on these fields *)
Example current_table_faithful : table_faithful = true.
Proof. vm_compute. reflexivity. Qed.

Corollary listing_leaves_perm_current env p : prog_ok env p ->
  Permutation (map e_leaf (listing env (run_prog env p))) (prog_leaves p).
Proof. apply listing_leaves_perm_table. exact current_table_faithful. Qed.

(* the depth limit used by the model is the constant read from the source by the translator (Gen/Flags.v) *)
From Gen Require Flags.
Lemma max_graph_depth_from_source : Flags.MAX_GRAPH_DEPTH = Core.Model.MAX_GRAPH_DEPTH.
Proof. reflexivity. Qed.

(* the number of operation layers the listing visits: the loop guard answers True `loop_safety_passes MAX_GRAPH_DEPTH` times and
   the root layer consumes one of them *)
Lemma listed_layers_from_source : Z.of_nat max_layers = (Flags.loop_safety_passes Flags.MAX_GRAPH_DEPTH - 1)%Z.
Proof. reflexivity. Qed.
