(* Case format and specification clauses for LIBRARY-BUILT circuits (repetition code, multi-round experiment, calibration).
   The driver extracts the circuit's relation graph in insertion order (lc_nodes), so the Core model runs on exactly the
   structure the constructors produced; the observations are what the implementation reported. *)
From Coq Require Import ZArith List Bool String.
Import ListNotations.
From QCE Require Import Base.Prelude Core.Model Core.Run.
From Gen Require Import Ident Classes.
Open Scope Z_scope.

Record lobs := { lo_ops : list oentry; lo_duration : Z; lo_acq : list (Z * list Z); lo_stim_flat : string }.
Record lblock := { lb_n : Z; lb_S : list (Z * list ChannelIdentifier); lb_U : list (Z * list ChannelIdentifier) }.
Record lcase := {
  lc_nodes : list node;
  lc_env : denv;
  lc_plain : option lobs;        (* as constructed *)
  lc_unrolled : option lobs;     (* apply_modifiers() *)
  lc_flat : option lobs;         (* apply_modifiers().flatten() *)
  lc_flat_error : bool;          (* flatten raised *)
  lc_flat_ncomps : Z;            (* sub-circuits remaining after flatten *)
  lc_blocks : list lblock        (* every repeated block: count, listing before, listing after unrolling *)
}.

(* ---- tie: the Core model, run on the extracted structure, reports what the implementation reported *)
Definition lobs_agree (m : obs) (o : option lobs) : bool :=
  match o with
  | None => true
  | Some x => list_eqb oentry_eqb (o_ops m) (lo_ops x) && (o_duration m =? lo_duration x)
  end.
Definition agree_lib (c : lcase) : bool :=
  let env := lc_env c in
  let ns := lc_nodes c in
  let un := apply_modifiers env 1 ns in
  lobs_agree (model_obs env ns) (lc_plain c)
  && lobs_agree (model_obs env un) (lc_unrolled c)
  && (if lc_flat_error c then true
      else match flatten env un with
           | Some f => lobs_agree (model_obs env f) (lc_flat c)
           | None => true
           end).

(* ---- specification clauses, evaluated on the implementation's reports only *)
Definition sig_eqb (a b : Z * list ChannelIdentifier) : bool := (fst a =? fst b) && chans_eqb (snd a) (snd b).
Fixpoint rep_list {A} (n : nat) (l : list A) : list A := match n with O => [] | S k => l ++ rep_list k l end.
(* C06, library clause: the unrolled listing of a repeated block is the n-fold concatenation of the block's listing *)
Definition lib_concat_ok (c : lcase) : bool :=
  forallb (fun b => list_eqb sig_eqb (lb_U b) (rep_list (Z.to_nat (lb_n b)) (lb_S b))) (lc_blocks c).

Definition acq_eqb (a b : list (Z * list Z)) : bool :=
  list_eqb (fun x y => (fst x =? fst y) && list_eqb Z.eqb (snd x) (snd y)) a b.
Definition sched_eqb (a b : oentry) : bool :=
  (oe_cls a =? oe_cls b) && chans_eqb (oe_chans a) (oe_chans b) && (oe_s a =? oe_s b) && (oe_e a =? oe_e b) && (oe_tag a =? oe_tag b).
(* C11, library clause: flattening a modifier-applied library circuit keeps listing order, schedule, indices, Stim program *)
Definition lib_flat_ok (c : lcase) : bool :=
  match lc_unrolled c, lc_flat c with
  | Some u, Some f => negb (lc_flat_error c) && (lc_flat_ncomps c =? 0)
                      && list_eqb sched_eqb (lo_ops u) (lo_ops f) && (lo_duration u =? lo_duration f)
                      && acq_eqb (lo_acq u) (lo_acq f) && String.eqb (lo_stim_flat u) (lo_stim_flat f)
  | Some _, None => negb (lc_flat_error c)
  | _, _ => true
  end.
(* C08, library clause: exporting before or after unrolling gives the identical program (Stim normal form) *)
Definition lib_stim_ok (c : lcase) : bool :=
  match lc_plain c, lc_unrolled c with
  | Some p, Some u => String.eqb (lo_stim_flat p) (lo_stim_flat u)
  | _, _ => true
  end.

(* C10: no two operations of non-zero length on a common channel overlap; nothing overlaps a barrier on its qubits *)
Definition positive (o : oentry) : bool := oe_s o <? oe_e o.
Definition chan_overlap (a b : oentry) : bool := existsb (fun x => existsb (fun y => ChannelIdentifier_eq y x) (oe_chans b)) (oe_chans a).
Definition time_overlap (a b : oentry) : bool := (oe_s a <? oe_e b) && (oe_s b <? oe_e a).
Fixpoint no_overlap (l : list oentry) : bool :=
  match l with
  | [] => true
  | a :: t => forallb (fun b => negb (positive a && positive b && chan_overlap a b && time_overlap a b)) t && no_overlap t
  end.
Definition lib_no_overlap_ok (c : lcase) : bool :=
  (match lc_plain c with Some p => no_overlap (lo_ops p) | None => true end)
  && (match lc_unrolled c with Some u => no_overlap (lo_ops u) | None => true end).
