(* C03 case format: a history, what the implementation answered to each observation, and what it answered when the same
   mutations were replayed with all earlier observations erased. *)
From Coq Require Import ZArith List Bool String.
Import ListNotations.
From QCE Require Import Base.Prelude Core.Model Core.Run C03.Model.
From Gen Require Import Ident Classes.
Open Scope Z_scope.

(* one answer, in two forms: structured (for the observations the model answers) and canonical text (for all) *)
Record answer := { a_ops : option (list oentry); a_duration : option Z; a_text : string }.
Record case := {
  h_cmds : list hcmd;
  h_glob : Z * Z * Z * Z;
  h_reg : list (Z * Z);
  h_answers : list answer;       (* in history order, every observation performed *)
  h_erased : list answer;        (* same observation, earlier observations erased (fresh build) *)
  h_error : bool                 (* the history raised *)
}.

Definition init_state (c : case) : hstate := {| hs_nodes := Some []; hs_glob := h_glob c; hs_outer := []; hs_reg := h_reg c |}.

(* pair the model's answers (only listing/duration observations) with the implementation's *)
Fixpoint model_answers (s : hstate) (h : list hcmd) : list (option (option obs)) :=
  match h with
  | [] => []
  | c :: t =>
      match c with
      | HObsListing | HObsDuration =>
          Some (match hs_nodes s with Some ns => Some (model_obs (hs_env s) ns) | None => None end) :: model_answers s t
      | HObsCopy =>
          Some (match hs_nodes s with Some ns => Some (model_obs (hs_env s) (copy_nodes (hs_env s) ns)) | None => None end) :: model_answers s t
      | HObsOther => None :: model_answers s t
      | _ => model_answers (hstep s c) t
      end
  end.
Definition answer_agrees (m : option (option obs)) (a : answer) : bool :=
  match m with
  | None | Some None => true            (* not a model observation / outside the model *)
  | Some (Some o) =>
      (match a_ops a with Some ops => list_eqb oentry_eqb (o_ops o) ops | None => true end)
      && (match a_duration a with Some d => o_duration o =? d | None => true end)
  end.
Fixpoint all2 {A B} (f : A -> B -> bool) (l1 : list A) (l2 : list B) : bool :=
  match l1, l2 with
  | [], [] => true
  | x :: t1, y :: t2 => f x y && all2 f t1 t2
  | _, _ => false
  end.
Definition agree (c : case) : bool :=
  if h_error c then true else all2 answer_agrees (model_answers (init_state c) (h_cmds c)) (h_answers c).

(* the statement of C03 on the implementation alone: every answer equals the answer given when the earlier observations are
   erased; and no history raises *)
Definition spec_ok (c : case) : bool :=
  negb (h_error c) && all2 (fun a e => String.eqb (a_text a) (a_text e)) (h_answers c) (h_erased c).
