(* C03 — histories: mutations interleaved with observations.  The functional Core model has no memo and no shared mutable
   objects, so "what is reported depends only on the current structure and settings" is its defining property; the history
   interpreter below threads the structure and the duration settings through the mutations. *)
From Coq Require Import ZArith List Bool.
Import ListNotations.
From QCE Require Import Base.Prelude Core.Model Core.Run.
From Gen Require Import Ident Classes.
Open Scope Z_scope.

Inductive hcmd :=
| HAdd (l : leaf) (r : option (RelationType * nat))    (* add an operation to the circuit *)
| HDangling (l : leaf) (t : RelationType)
| HSub (reps : Z) (body : list cmd)                      (* add a sub-circuit *)
| HGrow (entry : nat) (l : leaf)                         (* add an operation to an already nested sub-circuit *)
| HMods                                                  (* apply_modifiers() *)
| HFlatten                                               (* flatten() *)
| HSetReg (key v : Z)                                    (* DurationRegistry.set_registry_at *)
| HGlobal (ro mw fl rs : Z)                              (* enter a temporary global-duration override *)
| HUnglobal                                              (* leave the innermost override *)
| HObsListing | HObsDuration                             (* observations the model answers *)
| HObsCopy                                               (* listing of circuit_structure.copy(): answered by copy_nodes *)
| HObsOther.                                             (* acquisition indices / Stim text / copy / plot: judged by spec_ok only *)

Record hstate := { hs_nodes : option (list node);       (* None: outside the model (flatten returned None) *)
                   hs_glob : Z * Z * Z * Z;             (* settings in force *)
                   hs_outer : list (Z * Z * Z * Z);     (* settings of the enclosing overrides, innermost first *)
                   hs_reg : list (Z * Z) }.
Definition hs_env (s : hstate) : denv :=
  let '(ro, mw, fl, rs) := hs_glob s in mk_env ro mw fl rs (hs_reg s).

Fixpoint set_reg (reg : list (Z * Z)) (k v : Z) : list (Z * Z) :=
  match reg with
  | [] => [(k, v)]
  | (a, b) :: t => if a =? k then (k, v) :: t else (a, b) :: set_reg t k v
  end.

Fixpoint replace_nth {A} (n : nat) (l : list A) (x : A) : list A :=
  match l, n with
  | [], _ => []
  | _ :: t, O => x :: t
  | h :: t, S k => h :: replace_nth k t x
  end.

Definition with_nodes (s : hstate) (f : list node -> option (list node)) : hstate :=
  {| hs_nodes := match hs_nodes s with Some ns => f ns | None => None end; hs_glob := hs_glob s; hs_outer := hs_outer s;
     hs_reg := hs_reg s |}.

Definition hstep (s : hstate) (c : hcmd) : hstate :=
  let env := hs_env s in
  match c with
  | HAdd l None => with_nodes s (fun ns => Some (add_node env ns (OLeaf l) LNone))
  | HAdd l (Some (t, p)) => with_nodes s (fun ns => Some (add_node env ns (OLeaf l) (LRel t p)))
  | HDangling l t => with_nodes s (fun ns => Some (add_node env ns (OLeaf l) (LDangling t)))
  | HSub r body => with_nodes s (fun ns => Some (add_node env ns (OComp r (copy_nodes env (run_prog env body))) LNone))
  | HGrow e l => with_nodes s (fun ns => match nth_error ns e with
                                         | Some (Node p k (OComp r sub)) =>
                                             Some (replace_nth e ns (Node p k (OComp r (add_node env sub (OLeaf l) LNone))))
                                         | _ => None
                                         end)
  | HMods => with_nodes s (fun ns => Some (apply_modifiers env 1 ns))
  | HFlatten => with_nodes s (fun ns => flatten env ns)
  | HSetReg k v => {| hs_nodes := hs_nodes s; hs_glob := hs_glob s; hs_outer := hs_outer s; hs_reg := set_reg (hs_reg s) k v |}
  | HGlobal ro mw fl rs => {| hs_nodes := hs_nodes s; hs_glob := (ro, mw, fl, rs); hs_outer := hs_glob s :: hs_outer s;
                              hs_reg := hs_reg s |}
  | HUnglobal => match hs_outer s with
                 | [] => s
                 | g :: t => {| hs_nodes := hs_nodes s; hs_glob := g; hs_outer := t; hs_reg := hs_reg s |}
                 end
  | HObsListing | HObsDuration | HObsCopy | HObsOther => s
  end.

(* the answers of the model to the observations of a history, in order: Some obs, or None when outside the model *)
Fixpoint hrun (s : hstate) (h : list hcmd) : list (option obs) :=
  match h with
  | [] => []
  | c :: t =>
      match c with
      | HObsListing | HObsDuration =>
          (match hs_nodes s with Some ns => Some (model_obs (hs_env s) ns) | None => None end) :: hrun s t
      | HObsCopy =>
          (match hs_nodes s with Some ns => Some (model_obs (hs_env s) (copy_nodes (hs_env s) ns)) | None => None end) :: hrun s t
      | _ => hrun (hstep s c) t
      end
  end.

(* erasing observations *)
Definition is_obs (c : hcmd) : bool := match c with HObsListing | HObsDuration | HObsCopy | HObsOther => true | _ => false end.
Definition erase (h : list hcmd) : list hcmd := filter (fun c => negb (is_obs c)) h.
