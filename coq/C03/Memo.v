(* Generic memoisation theory behind C03: a memo table that is emptied at every mutation of an input of the memoised function
   only ever returns the current value, so answers do not depend on earlier queries. *)
From Coq Require Import List Bool.
Import ListNotations.

Section Memo.
Context {W K V : Type}.
Variable keqb : K -> K -> bool.
Hypothesis keqb_spec : forall a b, keqb a b = true <-> a = b.
Variable truth : W -> K -> V.        (* the memoised function, e.g. start time of (link, own duration) in the current circuit *)

Definition cache := list (K * V).
Fixpoint lookup (c : cache) (k : K) : option V :=
  match c with [] => None | (a, v) :: t => if keqb a k then Some v else lookup t k end.
Definition coherent (w : W) (c : cache) : Prop := forall k v, lookup c k = Some v -> v = truth w k.

(* a query: cached value if present (lru_cache hit), otherwise compute and store *)
Definition query (w : W) (c : cache) (k : K) : V * cache :=
  match lookup c k with Some v => (v, c) | None => (truth w k, (k, truth w k) :: c) end.

Lemma coherent_nil w : coherent w [].
Proof. intros k v H. discriminate. Qed.

Lemma query_coherent w c k : coherent w c -> fst (query w c k) = truth w k /\ coherent w (snd (query w c k)).
Proof.
  intros H. unfold query. destruct (lookup c k) as [v|] eqn:E; simpl.
  - split; [apply H; exact E | exact H].
  - split; [reflexivity|]. intros k' v'. simpl. destruct (keqb k k') eqn:Ek.
    + intros X. inversion X. apply keqb_spec in Ek. now subst.
    + apply H.
Qed.

(* histories: queries and mutations; a mutation either invalidates the table or leaves it alone *)
Inductive step := Query (k : K) | Mutate (f : W -> W) (invalidates : bool).

Fixpoint run (w : W) (c : cache) (h : list step) : list V :=
  match h with
  | [] => []
  | Query k :: t => let '(v, c') := query w c k in v :: run w c' t
  | Mutate f inv :: t => run (f w) (if inv then [] else c) t
  end.
(* the same history without any memo *)
Fixpoint run_plain (w : W) (h : list step) : list V :=
  match h with
  | [] => []
  | Query k :: t => truth w k :: run_plain w t
  | Mutate f _ :: t => run_plain (f w) t
  end.
Definition all_invalidate (h : list step) : bool :=
  forallb (fun s => match s with Mutate _ inv => inv | Query _ => true end) h.

Theorem memo_sound w c h : coherent w c -> all_invalidate h = true -> run w c h = run_plain w h.
Proof.
  revert w c. induction h as [|s t IH]; intros w c Hc Hall; simpl; [reflexivity|].
  destruct s as [k | f inv]; simpl in Hall.
  - destruct (query_coherent w c k Hc) as [Hv Hc']. destruct (query w c k) as [v c'] eqn:Q. simpl in Hv, Hc'.
    rewrite Hv. f_equal. apply IH; assumption.
  - apply andb_true_iff in Hall. destruct Hall as [Hi Hall]. subst inv. apply IH; [apply coherent_nil | exact Hall].
Qed.

(* erasing earlier queries: the answer to the last query of a history is the same with and without the earlier queries *)
Definition is_query (s : step) : bool := match s with Query _ => true | _ => false end.
Definition erase (h : list step) : list step := filter (fun s => negb (is_query s)) h.

Lemma run_plain_ne w t k : run_plain w (t ++ [Query k]) <> [].
Proof. revert w. induction t as [|s t IH]; intros w; simpl; [discriminate|]. destruct s; simpl; [discriminate | apply IH]. Qed.

Lemma last_indep (d1 d2 : V) l : l <> [] -> last l d1 = last l d2.
Proof. induction l as [|x l' IHl]; [congruence|]. intros _. destruct l'; [reflexivity|]. simpl. apply IHl. discriminate. Qed.

Lemma last_cons_ne (x d : V) l : l <> [] -> last (x :: l) d = last l d.
Proof. destruct l; [congruence | reflexivity]. Qed.

Lemma run_plain_erase w h k : last (run_plain w (h ++ [Query k])) (truth w k) = last (run_plain w (erase h ++ [Query k])) (truth w k).
Proof.
  revert w. induction h as [|s t IH]; intros w; [reflexivity|].
  destruct s as [k' | f inv]; unfold erase; cbn [filter is_query negb app run_plain]; fold (erase t).
  - rewrite last_cons_ne by apply run_plain_ne. apply IH.
  - rewrite (last_indep (truth w k) (truth (f w) k)) by apply run_plain_ne.
    rewrite (last_indep (truth w k) (truth (f w) k) (run_plain (f w) (erase t ++ [Query k]))) by apply run_plain_ne.
    apply IH.
Qed.

(* the C03 statement for a memoised implementation whose mutation points all invalidate *)
Theorem memo_history_independent w h k :
  all_invalidate h = true ->
  last (run w [] (h ++ [Query k])) (truth w k) = last (run w [] (erase h ++ [Query k])) (truth w k).
Proof.
  intros Hall.
  assert (A1 : all_invalidate (h ++ [Query k]) = true).
  { unfold all_invalidate in *. rewrite forallb_app. rewrite Hall. reflexivity. }
  assert (A2 : all_invalidate (erase h ++ [Query k]) = true).
  { unfold all_invalidate in *. rewrite forallb_app. simpl. rewrite andb_true_r.
    unfold erase. rewrite forallb_forall in *. intros s Hs. apply filter_In in Hs. apply Hall. tauto. }
  rewrite (memo_sound w [] _ (coherent_nil w) A1), (memo_sound w [] _ (coherent_nil w) A2). apply run_plain_erase.
Qed.
End Memo.

(* without invalidation the statement fails: a two-step witness *)
Example stale_without_invalidation :
  let truth := (fun (w : nat) (_ : unit) => w) in
  let h := [Query tt; Mutate (fun _ => 5) false] in
  last (run (fun _ _ => true) truth 1 [] (h ++ [Query tt])) 0 = 1 /\
  last (run (fun _ _ => true) truth 1 [] (erase h ++ [Query tt])) 0 = 5.
Proof. split; reflexivity. Qed.
