(* C03 lemmas about the functional history interpreter: answers are a function of the mutations only. *)
From Coq Require Import ZArith List Bool Lia.
Import ListNotations.
From QCE Require Import Base.Prelude Core.Model Core.Run C03.Memo C03.Model.
From Gen Require Import Ident Classes.
Open Scope Z_scope.

(* observations do not change the state *)
Lemma hstep_obs s c : is_obs c = true -> hstep s c = s.
Proof. destruct c; simpl; try discriminate; reflexivity. Qed.

(* the state reached after a history is the state reached after its mutations alone *)
Lemma state_erase h : forall s, fold_left hstep h s = fold_left hstep (erase h) s.
Proof.
  induction h as [|c t IH]; intros s; simpl; [reflexivity|].
  destruct (is_obs c) eqn:E; simpl.
  - rewrite (hstep_obs s c E). apply IH.
  - apply IH.
Qed.

(* what the model answers to an observation placed after a history does not depend on the observations inside the history *)
Definition answer_after (s : hstate) (h : list hcmd) : option obs :=
  let s' := fold_left hstep h s in
  match hs_nodes s' with Some ns => Some (model_obs (hs_env s') ns) | None => None end.

Theorem answers_history_independent s h : answer_after s h = answer_after s (erase h).
Proof. unfold answer_after. now rewrite state_erase. Qed.

(* hrun answers each observation with answer_after of the prefix *)
Lemma hrun_app s h1 h2 : hrun s (h1 ++ h2) = hrun s h1 ++ hrun (fold_left hstep h1 s) h2.
Proof.
  revert s. induction h1 as [|c t IH]; intros s; simpl; [reflexivity|].
  destruct c; simpl; rewrite ?IH; reflexivity.
Qed.

Theorem hrun_last_observation s h :
  hrun s (h ++ [HObsListing]) = hrun s h ++ [answer_after s h].
Proof. rewrite hrun_app. simpl. reflexivity. Qed.
