(* C03 lemmas about the functional history interpreter: answers are a function of the mutations only. *)
From Coq Require Import ZArith List Bool Lia.
Import ListNotations.
From QCE Require Import Base.Prelude Core.Model Core.Run C03.Memo C03.Model.
From Gen Require Import Ident Classes.
Open Scope Z_scope.

(* observations do not change the state *)
Lemma hstep_obs s c : is_obs c = true -> hstep s c = s.
Proof. destruct c; simpl; try discriminate; reflexivity. Qed.

(* the state reached after a history is the state reached after its mutations alone *)
Lemma state_erase h : forall s, fold_left hstep h s = fold_left hstep (erase h) s.
Proof.
  induction h as [|c t IH]; intros s; simpl; [reflexivity|].
  destruct (is_obs c) eqn:E; simpl.
  - rewrite (hstep_obs s c E). apply IH.
  - apply IH.
Qed.

(* what the model answers to an observation placed after a history does not depend on the observations inside the history *)
Definition answer_after (s : hstate) (h : list hcmd) : option obs :=
  let s' := fold_left hstep h s in
  match hs_nodes s' with Some ns => Some (model_obs (hs_env s') ns) | None => None end.

Theorem answers_history_independent s h : answer_after s h = answer_after s (erase h).
Proof. unfold answer_after. now rewrite state_erase. Qed.

(* hrun answers each observation with answer_after of the prefix *)
Lemma hrun_app s h1 h2 : hrun s (h1 ++ h2) = hrun s h1 ++ hrun (fold_left hstep h1 s) h2.
Proof.
  revert s. induction h1 as [|c t IH]; intros s; simpl; [reflexivity|].
  destruct c; simpl; rewrite ?IH; reflexivity.
Qed.

Theorem hrun_last_observation s h :
  hrun s (h ++ [HObsListing]) = hrun s h ++ [answer_after s h].
Proof. rewrite hrun_app. simpl. reflexivity. Qed.

(* ------------------------------------------------------------------ the memoised implementation *)
(* The implementation memoises start times (Gen.Flags: which methods carry lru_cache).  Every history command passes through
   mutation points of the source; Gen.Flags records, for each, whether it calls the invalidation helper, and whether that helper
   clears both memo tables.  With those flags true (checked by computation on the GENERATED table) every history is one in
   which each mutation empties the memo table, so the generic memo theorem applies: memoised answers = current values. *)
From Gen Require Flags.
From Coq Require Import String.

Definition helper_clears_all : bool :=
  (negb Flags.relation_link_memoised || Flags.invalidate_clears_relation_link)
  && (negb Flags.multi_relation_link_memoised || Flags.invalidate_clears_multi_relation_link).

Definition cmd_invalidates (c : hcmd) : bool :=
  helper_clears_all &&
  match c with
  | HAdd _ _ | HDangling _ _ | HSub _ _ | HGrow _ _ | HMods | HFlatten => Flags.mutation_point_invalidates Flags.MP_add_to_graph
  | HSetReg _ _ => Flags.mutation_point_invalidates Flags.MP_set_registry
  | HGlobal _ _ _ _ => Flags.mutation_point_invalidates Flags.MP_override_enter
  | HUnglobal => Flags.mutation_point_invalidates Flags.MP_override_leave
  | HObsListing | HObsCopy | HObsOther => Flags.mutation_point_invalidates Flags.MP_handoff     (* listing hands relation links down *)
  | HObsDuration => true
  end.

(* the memoised quantity: start time of the operation at a path, in the current circuit under the current settings *)
Fixpoint gstart (g : list (path * (Z * Z))) (p : path) : Z :=
  match g with [] => 0 | (a, se) :: t => if path_eqb a p then fst se else gstart t p end.
Definition start_truth (s : hstate) (p : path) : Z :=
  match hs_nodes s with Some ns => gstart (gtimes (hs_env s) ns) p | None => 0 end.

Lemma path_eqb_spec a b : path_eqb a b = true <-> a = b.
Proof.
  revert b. induction a as [|x a IH]; intros [|y b]; simpl; split; try congruence; try reflexivity.
  - rewrite andb_true_iff, Nat.eqb_eq, IH. intros [-> ->]. reflexivity.
  - intros E. inversion E; subst. rewrite andb_true_iff, Nat.eqb_eq, IH. auto.
Qed.

(* a history with queries for start times after every command *)
Definition to_steps (h : list (hcmd * list path)) : list (step (W := hstate) (K := path)) :=
  flat_map (fun cq => Mutate (fun s => hstep s (fst cq)) (cmd_invalidates (fst cq)) :: map (fun p => Query p) (snd cq)) h.

Lemma flags_all_invalidate : forall c, cmd_invalidates c = true.
Proof. intros c. destruct c; vm_compute; reflexivity. Qed.

Lemma to_steps_all_invalidate h : all_invalidate (to_steps h) = true.
Proof.
  unfold to_steps, all_invalidate. rewrite forallb_forall. intros s Hs. apply in_flat_map in Hs.
  destruct Hs as [[c qs] [_ Hin]]. simpl in Hin. destruct Hin as [<- | Hin]; [apply flags_all_invalidate|].
  apply in_map_iff in Hin. destruct Hin as [p [<- _]]. reflexivity.
Qed.

Theorem memoised_start_times_are_current s h :
  run path_eqb start_truth s [] (to_steps h) = run_plain start_truth s (to_steps h).
Proof. apply memo_sound; [apply path_eqb_spec | apply coherent_nil | apply to_steps_all_invalidate]. Qed.
