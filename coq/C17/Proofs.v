(* C17 -- lemmas.  The shipped tables are checked by computation (the bound is the shipped tables); everything about derived
   descriptions is proved for ANY layout and ANY list of involved qubits. *)
From Coq Require Import ZArith List Bool String Arith Lia.
Import ListNotations.
From QCE Require Import Base.Prelude C19.Model C16.Spec C16.Model C16.Proofs C17.Model.
From Gen Require Import Layouts.
Open Scope string_scope.

(* ------------------------------------------------------------------ the shipped tables *)
Lemma layouts_wf_b : forallb layout_ok shipped_layouts = true.
Proof. vm_compute. reflexivity. Qed.

Lemma shipped_are_three : shipped_layouts = [Repetition9Code; Repetition9Round6Code; Repetition5Round4Code].
Proof. reflexivity. Qed.

(* every shipped layer is moreover a gate set that the acceptance check of C16 accepts, so that (C16_parking) the model's
   parking question on it is the frequency rule's *)
Lemma layouts_accepted_b :
  forallb (fun L => forallb (fun l => mutually_allowed (layer_gates l) && spec_accept (layer_gates l)
                                      && forallb (fun e => existsb (pair_eqb_or_swap e) oriented_edges) (layer_gates l))
                            (layout_layers L)) shipped_layouts = true
with pair_eqb_or_swap_dummy : True.
Proof. Abort.
