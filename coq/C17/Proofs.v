(* C17 -- lemmas.  The shipped tables are checked by computation (the bound is the shipped tables); everything about derived
   descriptions is proved for ANY layout and ANY list of involved qubits. *)
From Coq Require Import ZArith List Bool String Arith Lia.
Import ListNotations.
From QCE Require Import Base.Prelude C19.Model C16.Spec C16.Model C16.Proofs C17.Model.
From Gen Require Import Layouts.
Open Scope string_scope.

(* ------------------------------------------------------------------ the shipped tables *)
Lemma layouts_wf_b : forallb layout_ok shipped_layouts = true.
Proof. vm_compute. reflexivity. Qed.

Lemma shipped_are_three : shipped_layouts = [Repetition9Code; Repetition9Round6Code; Repetition5Round4Code].
Proof. reflexivity. Qed.

(* every shipped layer is moreover a gate set of device edges that the acceptance check of C16 accepts, hence (C16_parking)
   the parking question on it is the frequency rule's: the required parks of the rule are present as well *)
Definition layer_rule_ok (l : GateLayer) : bool :=
  forallb (fun e => existsb (fun o => String.eqb (fst o) (fst e) && String.eqb (snd o) (snd e)) oriented_edges) (layer_gates l)
  && mutually_allowed (layer_gates l) && spec_accept (layer_gates l)
  && forallb (fun q => implb (spec_park q (layer_gates l)) (qmem q (layer_parks l))) qubit_ids.

Lemma layouts_rule_b : forallb (fun L => forallb layer_rule_ok (layout_layers L)) shipped_layouts = true.
Proof. vm_compute. reflexivity. Qed.

(* ------------------------------------------------------------------ generic list facts *)
Lemma qmem_In q l : qmem q l = true <-> In q l.
Proof.
  unfold qmem. rewrite existsb_exists. split.
  - intros [y [Hy E]]. apply String.eqb_eq in E. now subst.
  - intros H. exists q. split; [exact H | apply String.eqb_refl].
Qed.

Lemma qmem_false_In q l : qmem q l = false <-> ~ In q l.
Proof. rewrite <- qmem_In. destruct (qmem q l); split; congruence. Qed.

Lemma forallb_filter_keep {A} (f p : A -> bool) l : forallb f l = true -> forallb f (filter p l) = true.
Proof.
  rewrite !forallb_forall. intros H x Hx. apply filter_In in Hx. now apply H.
Qed.

Lemma qmem_gate_qubits q gates : qmem q (gate_qubits gates) = existsb (fun e => edge_contains e q) gates.
Proof.
  induction gates as [|e t IH]; [reflexivity|].
  unfold gate_qubits in *. cbn [flat_map]. unfold qmem in *. rewrite existsb_app, IH. reflexivity.
Qed.

Lemma qmem_gate_qubits_filter q p gates :
  qmem q (gate_qubits (filter p gates)) = true -> qmem q (gate_qubits gates) = true.
Proof.
  rewrite !qmem_gate_qubits, !existsb_exists. intros [e [He Hc]]. apply filter_In in He. exists e. tauto.
Qed.

Lemma qnodupb_filter p gates : qnodupb (gate_qubits gates) = true -> qnodupb (gate_qubits (filter p gates)) = true.
Proof.
  induction gates as [|e t IH]; [reflexivity|].
  unfold gate_qubits in *. cbn [flat_map edge_qubits app qnodupb filter]. intros H.
  rewrite !andb_true_iff, !negb_true_iff in H. destruct H as [H1 [H2 H3]].
  destruct (p e); [|now apply IH].
  cbn [flat_map edge_qubits app qnodupb]. rewrite !andb_true_iff, !negb_true_iff. repeat split; [| |now apply IH].
  - unfold qmem in *. cbn [existsb] in *. apply orb_false_iff in H1. destruct H1 as [Ha Hb]. rewrite Ha. cbn [orb].
    destruct (existsb (fun y => String.eqb y (fst e)) (flat_map edge_qubits (filter p t))) eqn:E; [|reflexivity].
    pose proof (qmem_gate_qubits_filter (fst e) p t E) as X. unfold qmem, gate_qubits in X. congruence.
  - destruct (qmem (snd e) (flat_map edge_qubits (filter p t))) eqn:E; [|reflexivity].
    pose proof (qmem_gate_qubits_filter (snd e) p t E) as X. unfold gate_qubits in X. congruence.
Qed.

(* ------------------------------------------------------------------ the guard of get_requires_parking *)
Lemma requires_parking_not_gated q es : requires_parking q es = true -> qmem q (gate_qubits es) = false.
Proof.
  unfold requires_parking. rewrite qmem_gate_qubits.
  destruct (negb (spectator q es)); [discriminate|].
  destruct (existsb (fun e => edge_contains e q) es); [discriminate | reflexivity].
Qed.

(* ------------------------------------------------------------------ re-filtering a layer with recomputed parks *)
(* both from_connectivity (keep the gates with both qubits involved) and the composite description with
   _only_required_parking_operations (drop the excluded gates) are instances *)
Definition refilter (p : edge -> bool) (l : GateLayer) : GateLayer :=
  MkGateLayer (required_parks (filter p (layer_gates l))) (filter p (layer_gates l)).

Lemma derive_layer_refilter involved l : derive_layer involved l = refilter (both_involved involved) l.
Proof. reflexivity. Qed.
Lemma composite_layer_refilter xe xq l :
  composite_layer xe xq true l = refilter (fun e => negb (excluded xe xq e)) l.
Proof. reflexivity. Qed.

Lemma required_parks_spec gates q : In q (required_parks gates) <-> In q qubit_ids /\ requires_parking q gates = true.
Proof. unfold required_parks. apply filter_In. Qed.

Lemma required_present gates parks :
  (forall q, In q (required_parks gates) -> In q parks) ->
  forallb (fun q => implb (requires_parking q gates) (qmem q parks)) qubit_ids = true.
Proof.
  intros H. apply forallb_forall. intros q Hq. destruct (requires_parking q gates) eqn:E; [|reflexivity].
  cbn [implb]. apply qmem_In, H, required_parks_spec. split; assumption.
Qed.

Lemma refilter_ok p l :
  forallb (fun e => emem e edge_ids) (layer_gates l) = true -> qnodupb (gate_qubits (layer_gates l)) = true ->
  layer_ok (refilter p l) = true.
Proof.
  intros Hdev Hnd. unfold layer_ok, refilter. cbn [layer_gates layer_parks].
  rewrite !andb_true_iff. repeat split.
  - now apply forallb_filter_keep.
  - now apply qnodupb_filter.
  - apply forallb_forall. intros q Hq. apply required_parks_spec in Hq. destruct Hq as [_ Hq].
    now rewrite (requires_parking_not_gated _ _ Hq).
  - apply required_present. tauto.
Qed.

Lemma layer_ok_clauses l :
  layer_ok l = true ->
  forallb (fun e => emem e edge_ids) (layer_gates l) = true /\ qnodupb (gate_qubits (layer_gates l)) = true
  /\ forallb (fun p => negb (qmem p (gate_qubits (layer_gates l)))) (layer_parks l) = true
  /\ forallb (fun q => implb (requires_parking q (layer_gates l)) (qmem q (layer_parks l))) qubit_ids = true.
Proof. unfold layer_ok. rewrite !andb_true_iff. tauto. Qed.

(* ------------------------------------------------------------------ from_connectivity, for ANY involved list *)
Lemma both_involved_spec involved e : both_involved involved e = true <-> In (fst e) involved /\ In (snd e) involved.
Proof.
  unfold both_involved, edge_qubits. cbn [forallb]. rewrite !andb_true_iff, !qmem_In. tauto.
Qed.

Lemma derived_layers involved L : d_layers (from_connectivity involved L) = map (derive_layer involved) (layout_layers L).
Proof. reflexivity. Qed.

Lemma derived_gates involved l :
  layer_gates (derive_layer involved l) = filter (both_involved involved) (layer_gates l)
  /\ forall e, In e (layer_gates (derive_layer involved l))
               <-> In e (layer_gates l) /\ In (fst e) involved /\ In (snd e) involved.
Proof.
  split; [reflexivity|]. intros e. cbn [derive_layer layer_gates]. rewrite filter_In, both_involved_spec. tauto.
Qed.

Lemma derived_parks involved l q :
  In q (layer_parks (derive_layer involved l))
  <-> In q qubit_ids /\ requires_parking q (layer_gates (derive_layer involved l)) = true.
Proof. apply required_parks_spec. Qed.

Lemma derived_no_park_and_gate involved l q :
  In q (layer_parks (derive_layer involved l)) -> ~ In q (gate_qubits (layer_gates (derive_layer involved l))).
Proof.
  intros H. apply derived_parks in H. destruct H as [_ H]. apply qmem_false_In. now apply requires_parking_not_gated.
Qed.

Lemma derived_distinct involved l :
  qnodupb (gate_qubits (layer_gates l)) = true -> qnodupb (gate_qubits (layer_gates (derive_layer involved l))) = true.
Proof. apply qnodupb_filter. Qed.

Lemma derived_layer_ok involved l :
  forallb (fun e => emem e edge_ids) (layer_gates l) = true -> qnodupb (gate_qubits (layer_gates l)) = true ->
  layer_ok (derive_layer involved l) = true.
Proof. rewrite derive_layer_refilter. apply refilter_ok. Qed.

Lemma derived_executable L involved :
  forallb layer_ok (layout_layers L) = true -> forallb layer_ok (d_layers (from_connectivity involved L)) = true.
Proof.
  rewrite derived_layers, forallb_map_comp, !forallb_forall. intros H l Hl.
  destruct (layer_ok_clauses l (H l Hl)) as [H1 [H2 _]]. now apply derived_layer_ok.
Qed.

Lemma shipped_layers_ok L : In L shipped_layouts -> forallb layer_ok (layout_layers L) = true.
Proof.
  intros HL. pose proof layouts_wf_b as H. rewrite forallb_forall in H. specialize (H L HL).
  unfold layout_ok in H. now rewrite andb_true_iff in H.
Qed.

Lemma shipped_derived_executable L involved :
  In L shipped_layouts -> forallb layer_ok (d_layers (from_connectivity involved L)) = true.
Proof. intros HL. apply derived_executable. now apply shipped_layers_ok. Qed.

(* the parks a description reports through get_park_sequence_indices: exactly the required ones among its own qubits *)
Lemma observed_parks involved L l q :
  In q (filter (fun p => qmem p (d_qubits (from_connectivity involved L))) (layer_parks (derive_layer involved l)))
  <-> In q (d_qubits (from_connectivity involved L)) /\ In q qubit_ids
      /\ requires_parking q (layer_gates (derive_layer involved l)) = true.
Proof. rewrite filter_In, qmem_In, derived_parks. tauto. Qed.

(* ------------------------------------------------------------------ the index map *)
Lemma dict_get_fold q m acc :
  fold_left (fun a kv => if String.eqb (fst kv) q then Some (snd kv) else a) m acc
  = match dict_get q m with Some i => Some i | None => acc end.
Proof.
  unfold dict_get. revert acc. induction m as [|kv t IH]; intros acc; [reflexivity|].
  cbn [fold_left]. rewrite IH. rewrite (IH (if String.eqb (fst kv) q then Some (snd kv) else None)).
  destruct (fold_left _ t None); [reflexivity|]. destruct (String.eqb (fst kv) q); reflexivity.
Qed.

Lemma dict_get_cons q k v m :
  dict_get q ((k, v) :: m) = match dict_get q m with Some i => Some i | None => if String.eqb k q then Some v else None end.
Proof. unfold dict_get at 1. cbn [fold_left fst snd]. apply dict_get_fold. Qed.

Lemma enumerate_get l : forall s q i,
  dict_get q (enumerate_from s l) = Some i ->
  (s <= i < s + Z.of_nat (List.length l))%Z /\ nth_error l (Z.to_nat (i - s)) = Some q.
Proof.
  induction l as [|x t IH]; intros s q i H; [discriminate|].
  cbn [enumerate_from] in H. rewrite dict_get_cons in H. cbn [List.length]. rewrite Nat2Z.inj_succ.
  destruct (dict_get q (enumerate_from (s + 1) t)) eqn:E.
  - inversion H; subst. destruct (IH _ _ _ E) as [B N]. split; [lia|].
    replace (Z.to_nat (i - s)) with (S (Z.to_nat (i - (s + 1)))) by lia. exact N.
  - destruct (String.eqb x q) eqn:Ex; [|discriminate]. inversion H; subst. apply String.eqb_eq in Ex. subst.
    split; [lia|]. now rewrite Z.sub_diag.
Qed.

Lemma enumerate_defined l : forall s q, In q l -> exists i, dict_get q (enumerate_from s l) = Some i.
Proof.
  induction l as [|x t IH]; intros s q H; [contradiction|].
  cbn [enumerate_from]. rewrite dict_get_cons.
  destruct (dict_get q (enumerate_from (s + 1) t)) eqn:E; [eauto|].
  destruct H as [->|H]; [rewrite String.eqb_refl; eauto|].
  destruct (IH (s + 1)%Z q H) as [i Hi]. congruence.
Qed.

Lemma index_injective involved q q' i :
  dict_get q (enumerate_from 0 involved) = Some i -> dict_get q' (enumerate_from 0 involved) = Some i -> q = q'.
Proof.
  intros H H'. apply enumerate_get in H. apply enumerate_get in H'. destruct H as [_ H], H' as [_ H']. congruence.
Qed.

Lemma index_bijective involved :
  NoDup involved ->
  let m := enumerate_from 0 involved in
  (forall q, In q involved -> exists i, dict_get q m = Some i)
  /\ (forall q i, dict_get q m = Some i -> (0 <= i < Z.of_nat (List.length involved))%Z /\ nth_error involved (Z.to_nat i) = Some q)
  /\ (forall q q' i, dict_get q m = Some i -> dict_get q' m = Some i -> q = q')
  /\ (forall i, (0 <= i < Z.of_nat (List.length involved))%Z -> exists q, In q involved /\ dict_get q m = Some i).
Proof.
  intros ND m. split; [|split; [|split]].
  - intros q Hq. now apply enumerate_defined.
  - intros q i H. apply enumerate_get in H. destruct H as [B H]. rewrite Z.sub_0_r in H. split; [lia | exact H].
  - intros q q' i. apply index_injective.
  - intros i Hi. destruct (nth_error involved (Z.to_nat i)) as [q|] eqn:E.
    + exists q. assert (Hq : In q involved) by (eapply nth_error_In; exact E). split; [exact Hq|].
      destruct (enumerate_defined involved 0%Z q Hq) as [j Hj]. fold m in Hj. rewrite Hj. f_equal.
      apply enumerate_get in Hj. destruct Hj as [B N]. rewrite Z.sub_0_r in N.
      assert (X : Z.to_nat j = Z.to_nat i).
      { eapply NoDup_nth_error; [exact ND | | congruence]. apply nth_error_Some. congruence. }
      lia.
    + apply nth_error_None in E. lia.
Qed.

Lemma interleave_In q : forall a b, In q (interleave a b) <-> In q a \/ In q b.
Proof.
  induction a as [|x a IH]; intros b; [cbn; tauto|].
  destruct b as [|y b]; [cbn; tauto|]. cbn [interleave In]. rewrite IH. tauto.
Qed.

Lemma d_qubits_involved involved L q : In q (d_qubits (from_connectivity involved L)) -> In q involved.
Proof.
  unfold d_qubits, from_connectivity. cbn [d_data d_ancilla]. rewrite interleave_In, !filter_In. tauto.
Qed.

(* different qubits of a derived description get different circuit indices, and every one of them has an index *)
Lemma derived_channel_injective involved L :
  let d := from_connectivity involved L in
  (forall q, In q (d_qubits d) -> exists i, dict_get q (d_index d) = Some i /\ index_of_qubit (d_index d) q = i)
  /\ (forall q q', In q (d_qubits d) -> In q' (d_qubits d) ->
        index_of_qubit (d_index d) q = index_of_qubit (d_index d) q' -> q = q').
Proof.
  intros d. assert (D : forall q, In q (d_qubits d) -> exists i, dict_get q (d_index d) = Some i /\ index_of_qubit (d_index d) q = i).
  { intros q Hq. apply d_qubits_involved in Hq. destruct (enumerate_defined involved 0%Z q Hq) as [i Hi].
    exists i. unfold index_of_qubit, d, from_connectivity. cbn [d_index]. now rewrite Hi. }
  split; [exact D|]. intros q q' Hq Hq' E.
  destruct (D q Hq) as [i [Hi Ei]], (D q' Hq') as [j [Hj Ej]]. rewrite Ei, Ej in E. subst j.
  exact (index_injective involved q q' i Hi Hj).
Qed.

(* ------------------------------------------------------------------ composite descriptions *)
Lemma composite_gates xe xq only l :
  layer_gates (composite_layer xe xq only l) = filter (fun e => negb (excluded xe xq e)) (layer_gates l)
  /\ forall e, In e (layer_gates (composite_layer xe xq only l)) <-> In e (layer_gates l) /\ excluded xe xq e = false.
Proof.
  split; [reflexivity|]. intros e. cbn [composite_layer layer_gates]. rewrite filter_In, negb_true_iff. tauto.
Qed.

Lemma composite_parks xe xq l q :
  (In q (layer_parks (composite_layer xe xq true l))
     <-> In q qubit_ids /\ requires_parking q (layer_gates (composite_layer xe xq true l)) = true)
  /\ (In q (layer_parks (composite_layer xe xq false l))
     <-> In q (layer_parks l) \/ (In q qubit_ids /\ requires_parking q (layer_gates (composite_layer xe xq false l)) = true)).
Proof.
  split.
  - apply required_parks_spec.
  - cbn [composite_layer layer_parks layer_gates]. rewrite in_app_iff, filter_In, required_parks_spec, negb_true_iff.
    rewrite qmem_false_In. split; [tauto|]. intros [H|H]; [now left|].
    destruct (in_dec string_dec q (layer_parks l)); [now left | right; tauto].
Qed.

(* executable for both parking modes: the gates are a subset of an executable layer's gates, the required parks are
   always present, inherited parks never touch a remaining gate *)
Lemma composite_layer_ok xe xq only l : layer_ok l = true -> layer_ok (composite_layer xe xq only l) = true.
Proof.
  intros H. destruct (layer_ok_clauses l H) as [H1 [H2 [H3 _]]].
  destruct only; [rewrite composite_layer_refilter; now apply refilter_ok|].
  unfold layer_ok. cbn [composite_layer layer_gates layer_parks]. rewrite !andb_true_iff. repeat split.
  - now apply forallb_filter_keep.
  - now apply qnodupb_filter.
  - rewrite forallb_app, andb_true_iff. split.
    + rewrite forallb_forall in *. intros p Hp. specialize (H3 p Hp). rewrite negb_true_iff in *.
      destruct (qmem p (gate_qubits (filter (fun e => negb (excluded xe xq e)) (layer_gates l)))) eqn:E; [|reflexivity].
      apply qmem_gate_qubits_filter in E. congruence.
    + apply forallb_forall. intros q Hq. apply filter_In in Hq. destruct Hq as [Hq _].
      apply required_parks_spec in Hq. destruct Hq as [_ Hq]. now rewrite (requires_parking_not_gated _ _ Hq).
  - apply required_present. intros q Hq. apply in_or_app.
    destruct (qmem q (layer_parks l)) eqn:E; [left; now apply qmem_In|].
    right. apply filter_In. split; [exact Hq | now rewrite E].
Qed.

Lemma composite_executable (c : composite) :
  forallb layer_ok (match c_lead_gate c with Some d => d_layers d | None => d_layers (c_base c) end) = true ->
  forallb layer_ok (c_layers c) = true.
Proof.
  unfold c_layers. rewrite forallb_map_comp, !forallb_forall. intros H l Hl. apply composite_layer_ok. now apply H.
Qed.

(* history (finding F11): keeping the underlying layer's parks unchanged left a required park out *)
Lemma composite_before_F11_refuted :
  exists xe L involved i,
    In L shipped_layouts /\
    let l := composite_layer_before_F11 xe [] false (nth i (d_layers (from_connectivity involved L)) (MkGateLayer [] [])) in
    layer_ok l = false /\ requires_parking "X3" (layer_gates l) = true /\ qmem "X3" (layer_parks l) = false.
Proof.
  exists [("X3", "D8")], Repetition9Code, qubit_ids, 1%nat. split; [now left|]. vm_compute. repeat split.
Qed.

(* ------------------------------------------------------------------ non-vacuity *)
Example derived_example :
  let d := from_connectivity ["D7"; "Z3"; "D4"; "Z1"; "D5"] Repetition9Code in
  d_qubits d = ["D7"; "Z3"; "D4"; "Z1"; "D5"]
  /\ map layer_gates (d_layers d) = [[("Z1", "D4")]; [("Z1", "D5")]; [("Z3", "D7")]; [("Z3", "D4")]]
  /\ map layer_parks (d_layers d) = [["X3"; "Z3"]; ["Z4"; "X3"; "X2"]; []; ["X3"; "Z1"]]
  /\ get_gate_sequence_indices (d_layers d) (d_index d) 0 = Some [(3, 2)%Z]
  /\ get_park_sequence_indices (d_qubits d) (d_layers d) (d_index d) 0 = Some [1%Z]
  /\ forallb layer_ok (d_layers d) = true.
Proof. vm_compute. repeat split. Qed.

Example composite_example :
  let l := composite_layer [("X3", "D8")] [] false (nth 1 (layout_layers Repetition9Code) (MkGateLayer [] [])) in
  layer_gates l = [("X1", "D2"); ("Z1", "D5"); ("Z2", "D3")]
  /\ layer_parks l = ["D7"; "Z4"; "D9"; "X2"; "D1"; "X3"] /\ layer_ok l = true.
Proof. vm_compute. repeat split. Qed.

(* ------------------------------------------------------------------ the statement about the shipped tables *)
Lemma layouts_wf :
  spec_device qubit_ids S17_edges (S17_parity_x ++ S17_parity_z)%list
              (map (fun kv => (fst kv, FrequencyGroupIdentifier__id (snd kv))) S17_frequency) = true
  /\ forallb layout_ok [Repetition9Code; Repetition9Round6Code; Repetition5Round4Code] = true.
Proof. split; [exact (proj1 device_tables_wf) | exact layouts_wf_b]. Qed.

Lemma layouts_rule :
  forallb (fun L => forallb layer_rule_ok (layout_layers L)) [Repetition9Code; Repetition9Round6Code; Repetition5Round4Code] = true.
Proof. exact layouts_rule_b. Qed.

Lemma derived_gates_full involved L l :
  d_layers (from_connectivity involved L) = map (derive_layer involved) (layout_layers L)
  /\ layer_gates (derive_layer involved l) = filter (both_involved involved) (layer_gates l)
  /\ forall e, In e (layer_gates (derive_layer involved l))
               <-> In e (layer_gates l) /\ In (fst e) involved /\ In (snd e) involved.
Proof. exact (conj (derived_layers involved L) (derived_gates involved l)). Qed.

Lemma derived_parks_full involved L l q :
  (In q (layer_parks (derive_layer involved l))
     <-> In q qubit_ids /\ requires_parking q (layer_gates (derive_layer involved l)) = true)
  /\ (In q (filter (fun p => qmem p (d_qubits (from_connectivity involved L))) (layer_parks (derive_layer involved l)))
     <-> In q (d_qubits (from_connectivity involved L)) /\ In q qubit_ids
         /\ requires_parking q (layer_gates (derive_layer involved l)) = true).
Proof. exact (conj (derived_parks involved l q) (observed_parks involved L l q)). Qed.
