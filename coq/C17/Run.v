(* Case evaluation for the C17 correspondence run.  `agree`: C17/Model.v = implementation; `spec_ok`: the property's
   executability conditions evaluated on the implementation's output against the generated device tables, written with
   C16/Spec.v (the frequency reading of "requires parking") and Gen/Layouts.v only -- never with a Model. *)
From Coq Require Import ZArith List Bool String.
Import ListNotations.
From QCE Require Import Base.Prelude C16.Spec C16.Model C17.Model.
From Gen Require Import Layouts.
Open Scope string_scope.

(* what is observed of a description object *)
Record obs := MkObs {
  o_qubits : list string;                        (* qubit_ids *)
  o_data : list string;                          (* data_qubit_ids *)
  o_ancilla : list string;                       (* ancilla_qubit_ids *)
  o_layers : list GateLayer;                     (* gate_sequences: park identifiers, gate edges *)
  o_gate_idx : list (option (list (Z * Z)));     (* get_gate_sequence_indices(i) for i = -1, 0, .., count *)
  o_park_idx : list (option (list Z));           (* get_park_sequence_indices(i) for the same i *)
  o_chan : list (Z * string)                     (* circuit_channel_map.items() *)
}.

Inductive case :=
| CDevice (qubits : list string) (edges : list edge) (freqs : list (string * FrequencyGroup)) (gx gz : list ParityGroup)
    (* the runtime Surface17Layer() *)
| CLayout (name : string) (layers : list GateLayer) (pz px : list ParityGroup) (involved data anc : list string)
    (* a runtime layout singleton: its layers, parity groups, involved_qubit_ids, data_qubit_ids, ancilla_qubit_ids *)
| CDerived (name : string) (involved : list string) (o : obs)
    (* RepetitionCodeDescription.from_connectivity(involved, <layout name>()) *)
| CComposite (name : string) (involved : list string) (lead_readout lead_gate : option (list string))
             (excl_e : list edge) (excl_q : list string) (only_required : bool) (index : list (string * Z)) (o : obs)
             (base_unchanged : bool)   (* the base description (and a second composite on it) report the same before and after
                                          the composite's gate_sequences were read, and reading twice gives the same *)
    (* CompositeRepetitionCodeDescription(base = from_connectivity(involved), leading descriptions from_connectivity(..),
       exclusions, _only_required_parking_operations, _qubit_index_map = index) *)
| CError.

Definition find_layout (name : string) : option Layout :=
  find (fun L => String.eqb (layout_name L) name) shipped_layouts.

(* ------------------------------------------------------------------ equality helpers *)
Definition pair_eqb (e f : edge) : bool := String.eqb (fst e) (fst f) && String.eqb (snd e) (snd f).
Definition layer_eqb (a b : GateLayer) : bool :=
  list_eqb String.eqb (layer_parks a) (layer_parks b) && list_eqb pair_eqb (layer_gates a) (layer_gates b).
Definition pg_eqb (g h : ParityGroup) : bool :=
  StabilizerType_eqb (pg_type g) (pg_type h) && String.eqb (pg_ancilla g) (pg_ancilla h)
  && list_eqb String.eqb (pg_data g) (pg_data h).
Definition zz_eqb (a b : Z * Z) : bool := (fst a =? fst b)%Z && (snd a =? snd b)%Z.
Definition zs_eqb (a b : Z * string) : bool := (fst a =? fst b)%Z && String.eqb (snd a) (snd b).
(* two item lists denote the same dict (later bindings of a key win; order of keys irrelevant) *)
Definition dict_lookup (k : Z) (m : list (Z * string)) : option string :=
  fold_left (fun acc kv => if (fst kv =? k)%Z then Some (snd kv) else acc) m None.
Definition dict_same (a b : list (Z * string)) : bool :=
  forallb (fun kv => option_eqb String.eqb (dict_lookup (fst kv) a) (dict_lookup (fst kv) b)) (a ++ b)%list.

Definition probe (n : nat) : list Z := map (fun i => (Z.of_nat i - 1)%Z) (seq 0 (n + 2)).

Definition obs_of (qubits data anc : list string) (layers : list GateLayer) (index : list (string * Z)) : obs :=
  MkObs qubits data anc layers
        (map (get_gate_sequence_indices layers index) (probe (List.length layers)))
        (map (get_park_sequence_indices qubits layers index) (probe (List.length layers)))
        (circuit_channel_items qubits index).

Definition obs_eqb (a b : obs) : bool :=
  list_eqb String.eqb (o_qubits a) (o_qubits b) && list_eqb String.eqb (o_data a) (o_data b)
  && list_eqb String.eqb (o_ancilla a) (o_ancilla b) && list_eqb layer_eqb (o_layers a) (o_layers b)
  && list_eqb (option_eqb (list_eqb zz_eqb)) (o_gate_idx a) (o_gate_idx b)
  && list_eqb (option_eqb (list_eqb Z.eqb)) (o_park_idx a) (o_park_idx b)
  && dict_same (o_chan a) (o_chan b).

Definition composite_of (L : Layout) (involved : list string) (lead_readout lead_gate : option (list string))
    (excl_e : list edge) (excl_q : list string) (only_required : bool) (index : list (string * Z)) : composite :=
  MkComposite (from_connectivity involved L)
              (option_map (fun i => from_connectivity i L) lead_readout)
              (option_map (fun i => from_connectivity i L) lead_gate)
              index excl_e excl_q only_required.

Definition agree (c : case) : bool :=
  match c with
  | CDevice qubits edges freqs gx gz =>
      list_eqb String.eqb qubit_ids qubits && list_eqb pair_eqb edge_ids edges
      && list_eqb (fun a b => String.eqb (fst a) (fst b) && FrequencyGroup_eqb (snd a) (snd b))
                  (map (fun kv => (fst kv, FrequencyGroupIdentifier__id (snd kv))) S17_frequency) freqs
      && list_eqb pg_eqb S17_parity_x gx && list_eqb pg_eqb S17_parity_z gz
  | CLayout name layers pz px involved data anc =>
      match find_layout name with
      | Some L => list_eqb layer_eqb (layout_layers L) layers
                  && list_eqb pg_eqb (layout_parity_z L) pz && list_eqb pg_eqb (layout_parity_x L) px
                  && list_eqb String.eqb (involved_qubit_ids L) involved
                  && list_eqb String.eqb (data_qubit_ids L) data && list_eqb String.eqb (ancilla_qubit_ids L) anc
      | None => false
      end
  | CDerived name involved o =>
      match find_layout name with
      | Some L => let d := from_connectivity involved L in
                  obs_eqb (obs_of (d_qubits d) (d_data d) (d_ancilla d) (d_layers d) (d_index d)) o
      | None => false
      end
  | CComposite name involved lr lg excl_e excl_q only index o _ =>
      match find_layout name with
      | Some L => let c := composite_of L involved lr lg excl_e excl_q only index in
                  obs_eqb (obs_of (c_qubits c) (d_data (c_base c)) (d_ancilla (c_base c)) (c_layers c) (c_index c)) o
      | None => false
      end
  | CError => false
  end.

(* ------------------------------------------------------------------ the property's clauses on reported data *)
Definition s_mem (q : string) (l : list string) : bool := existsb (String.eqb q) l.
Fixpoint znodupb (l : list Z) : bool :=
  match l with [] => true | x :: t => negb (existsb (Z.eqb x) t) && znodupb t end.

(* one layer is executable on the device *)
Definition s_layer_exec (edges : list edge) (l : GateLayer) : bool :=
  let gates := layer_gates l in
  forallb (fun e => existsb (s_edge_same e) edges) gates                                   (* real device edges *)
  && s_nodupb (flat_map s_qubits gates)                                                    (* pairwise distinct qubits *)
  && forallb (fun p => negb (s_mem p (flat_map s_qubits gates))) (layer_parks l)           (* not parked and gated *)
  && forallb (fun q => implb (spec_park q gates) (s_mem q (layer_parks l))) (flat_map snd S17_feedlines). (* required parks *)

Definition s_parity_once (layers : list GateLayer) (groups : list ParityGroup) : bool :=
  forallb (fun pe => Nat.eqb (s_count (s_edge_same pe) (flat_map layer_gates layers)) 1) (s_parity_edges groups).

Definition s_both (involved : list string) (e : edge) : bool := s_mem (fst e) involved && s_mem (snd e) involved.
Definition s_excluded (excl_e : list edge) (excl_q : list string) (e : edge) : bool :=
  existsb (s_edge_same e) excl_e || s_mem (fst e) excl_q || s_mem (snd e) excl_q.

Definition s_find_index (chan : list (Z * string)) (q : string) : option Z :=
  match find (fun kv => String.eqb (snd kv) q) chan with Some kv => Some (fst kv) | None => None end.
Fixpoint s_all_some {A} (l : list (option A)) : option (list A) :=
  match l with
  | [] => Some []
  | Some x :: t => match s_all_some t with Some r => Some (x :: r) | None => None end
  | None :: _ => None
  end.

(* identifiers <-> circuit indices: a bijection between the description's qubits and the channel keys, and the reported
   index lists are the images of the reported layers under it; out-of-range layers give None *)
Definition s_index_ok (o : obs) : bool :=
  let chan := o_chan o in
  let look := s_find_index chan in
  znodupb (map fst chan) && s_nodupb (map snd chan)
  && forallb (fun q => s_mem q (map snd chan)) (o_qubits o) && forallb (fun q => s_mem q (o_qubits o)) (map snd chan)
  && list_eqb (option_eqb (list_eqb zz_eqb)) (o_gate_idx o)
       ([None] ++ map (fun l => s_all_some (map (fun e => match look (fst e), look (snd e) with
                                                          | Some a, Some b => Some (a, b) | _, _ => None end) (layer_gates l)))
                      (o_layers o) ++ [None])%list
  && list_eqb (option_eqb (list_eqb Z.eqb)) (o_park_idx o)
       ([None] ++ map (fun l => s_all_some (map look (filter (fun p => s_mem p (o_qubits o)) (layer_parks l)))) (o_layers o)
        ++ [None])%list.

Definition s_gates_eqb (a b : list (list edge)) : bool := list_eqb (list_eqb pair_eqb) a b.

Definition spec_ok (c : case) : bool :=
  match c with
  | CDevice qubits edges freqs gx gz => spec_device qubits edges (gx ++ gz)%list freqs
  | CLayout name layers pz px involved data anc =>
      forallb (s_layer_exec S17_edges) layers && s_parity_once layers (px ++ pz)%list
  | CDerived name involved o =>
      match find_layout name with
      | Some L =>
          (* exactly the gates whose both qubits are involved, layer by layer *)
          s_gates_eqb (map layer_gates (o_layers o)) (map (fun l => filter (s_both involved) (layer_gates l)) (layout_layers L))
          && forallb (s_layer_exec S17_edges) (o_layers o)
          && s_index_ok o
      | None => false
      end
  | CComposite name involved lr lg excl_e excl_q only index o unchanged =>
      match find_layout name with
      | Some L =>
          unchanged &&
          let gate_involved := match lg with Some i => i | None => involved end in
          s_gates_eqb (map layer_gates (o_layers o))
                      (map (fun l => filter (fun e => s_both gate_involved e && negb (s_excluded excl_e excl_q e)) (layer_gates l))
                           (layout_layers L))
          && forallb (s_layer_exec S17_edges) (o_layers o)
          && s_index_ok o
      | None => false
      end
  | CError => false
  end.
