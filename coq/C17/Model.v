(* C17 -- executable model of the layout tables' well-formedness and of the derived repetition-code descriptions.

     connectivity/generic_gate_sequence.py        GenericSurfaceCode.{data_qubit_ids,ancilla_qubit_ids,involved_qubit_ids}
     connectivity/intrf_connectivity_gate_sequence.py   GateSequenceLayer.{qubit_ids,edge_ids}
     library/repetition_code/circuit_components.py  RepetitionCodeDescription.{from_connectivity,qubit_ids},
                                                    IRepetitionCodeDescription.{get_gate_sequence_indices,
                                                    get_park_sequence_indices,circuit_channel_map},
                                                    CompositeRepetitionCodeDescription.{qubit_ids,gate_sequences}

   The layouts themselves are Gen/Layouts.v; the parking question is C16/Model.v's requires_parking (the same Python
   function get_requires_parking).  No proofs in this file. *)
From Coq Require Import ZArith List Bool String.
Import ListNotations.
From QCE Require Import Base.Prelude C19.Model C16.Model.
From Gen Require Import Layouts.
Open Scope string_scope.

(* ------------------------------------------------------------------ GenericSurfaceCode *)
Definition parity_groups (L : Layout) : list ParityGroup := (layout_parity_x L ++ layout_parity_z L)%list.
Definition data_qubit_ids (L : Layout) : list string := unique_in_order String.eqb (flat_map pg_data (parity_groups L)).
Definition ancilla_qubit_ids (L : Layout) : list string := unique_in_order String.eqb (map pg_ancilla (parity_groups L)).
(* ParityGroup.__post_init__: edges ancilla -> data *)
Definition parity_edges (gs : list ParityGroup) : list edge :=
  flat_map (fun g => map (fun d => (pg_ancilla g, d)) (pg_data g)) gs.

(* GateSequenceLayer.qubit_ids / edge_ids *)
Definition layer_qubit_ids (l : GateLayer) : list string :=
  unique_in_order String.eqb (layer_parks l ++ flat_map edge_qubits (layer_gates l))%list.
Definition layer_edge_ids (l : GateLayer) : list edge := unique_in_order edge_eqb (layer_gates l).
Definition involved_qubit_ids (L : Layout) : list string :=
  unique_in_order String.eqb (flat_map layer_qubit_ids (layout_layers L)).

(* ------------------------------------------------------------------ executability of a layout (the property's clauses) *)
Fixpoint qnodupb (l : list string) : bool :=
  match l with [] => true | x :: t => negb (qmem x t) && qnodupb t end.
Definition gate_qubits (gates : list edge) : list string := flat_map edge_qubits gates.

Definition layer_ok (l : GateLayer) : bool :=
  let gates := layer_gates l in
  forallb (fun e => emem e edge_ids) gates                                       (* real device edges *)
  && qnodupb (gate_qubits gates)                                                 (* on pairwise distinct qubits *)
  && forallb (fun p => negb (qmem p (gate_qubits gates))) (layer_parks l)        (* no qubit both parked and gated *)
  && forallb (fun q => implb (requires_parking q gates) (qmem q (layer_parks l))) qubit_ids.  (* required parks present *)

Definition count_edge (e : edge) (l : list edge) : nat := List.length (filter (fun y => edge_eqb y e) l).
Definition parity_edges_once (L : Layout) : bool :=
  forallb (fun pe => Nat.eqb (count_edge pe (flat_map layer_gates (layout_layers L))) 1) (parity_edges (parity_groups L)).

Definition layout_ok (L : Layout) : bool := forallb layer_ok (layout_layers L) && parity_edges_once L.

(* ------------------------------------------------------------------ RepetitionCodeDescription.from_connectivity *)
Record description := MkDescription {
  d_data : list string; d_ancilla : list string; d_layers : list GateLayer;
  d_index : list (string * Z)   (* the dict {qubit_id: i}; later entries override earlier ones *)
}.

Definition both_involved (involved : list string) (e : edge) : bool := forallb (fun q => qmem q involved) (edge_qubits e).

Definition required_parks (gates : list edge) : list string := filter (fun q => requires_parking q gates) qubit_ids.

(* gate filter + dynamic parking of one layer (the `GateSequenceLayer.empty()` branch yields the same two empty lists) *)
Definition derive_layer (involved : list string) (l : GateLayer) : GateLayer :=
  let gates := filter (both_involved involved) (layer_gates l) in
  MkGateLayer (required_parks gates) gates.

Fixpoint enumerate_from (i : Z) (l : list string) : list (string * Z) :=
  match l with [] => [] | q :: t => (q, i) :: enumerate_from (i + 1)%Z t end.

Definition from_connectivity (involved : list string) (L : Layout) : description :=
  MkDescription (filter (fun q => qmem q (data_qubit_ids L)) involved)
                (filter (fun q => qmem q (ancilla_qubit_ids L)) involved)
                (map (derive_layer involved) (layout_layers L))
                (enumerate_from 0 involved).

(* RepetitionCodeDescription.qubit_ids: data and ancilla alternate, the longer list's tail is appended *)
Fixpoint interleave (a b : list string) : list string :=
  match a, b with
  | x :: a', y :: b' => x :: y :: interleave a' b'
  | [], _ => b
  | _, [] => a
  end.
Definition d_qubits (d : description) : list string := interleave (d_data d) (d_ancilla d).

(* dict lookup: the last binding of q (None = KeyError) *)
Definition dict_get (q : string) (m : list (string * Z)) : option Z :=
  fold_left (fun acc kv => if String.eqb (fst kv) q then Some (snd kv) else acc) m None.
Definition index_of_qubit (m : list (string * Z)) (q : string) : Z :=
  match dict_get q m with Some i => i | None => (-1)%Z end.

(* ------------------------------------------------------------------ observations shared by both description classes *)
Section Observe.
Variable qubits : list string.          (* self.qubit_ids *)
Variable layers : list GateLayer.       (* self.gate_sequences *)
Variable index : list (string * Z).     (* self._qubit_index_map *)

Definition in_range (i : Z) : bool := ((0 <=? i) && (i <? Z.of_nat (List.length layers)))%Z.
Definition layer_at (i : Z) : GateLayer := nth (Z.to_nat i) layers (MkGateLayer [] []).

Definition get_gate_sequence_indices (i : Z) : option (list (Z * Z)) :=
  if in_range i
  then Some (map (fun e => (index_of_qubit index (fst e), index_of_qubit index (snd e))) (layer_edge_ids (layer_at i)))
  else None.

Definition get_park_sequence_indices (i : Z) : option (list Z) :=
  if in_range i
  then Some (map (index_of_qubit index) (filter (fun p => qmem p qubits) (layer_parks (layer_at i))))
  else None.

(* circuit_channel_map as the list of (key, value) the dict comprehension visits (compared as a dict by Run.v) *)
Definition circuit_channel_items : list (Z * string) := map (fun q => (index_of_qubit index q, q)) qubits.
End Observe.

(* ------------------------------------------------------------------ CompositeRepetitionCodeDescription *)
Record composite := MkComposite {
  c_base : description;
  c_lead_readout : option description;
  c_lead_gate : option description;
  c_index : list (string * Z);
  c_exclude_edges : list edge;
  c_exclude_qubits : list string;
  c_only_required : bool
}.

Definition add_new (result extra : list string) : list string :=
  fold_left (fun r q => if qmem q r then r else (r ++ [q])%list) extra result.

Definition c_qubits (c : composite) : list string :=
  let r0 := d_qubits (c_base c) in
  let r1 := match c_lead_readout c with Some d => add_new r0 (d_qubits d) | None => r0 end in
  match c_lead_gate c with Some d => add_new r1 (d_qubits d) | None => r1 end.

Definition excluded (excl_e : list edge) (excl_q : list string) (e : edge) : bool :=
  emem e excl_e || existsb (fun q => qmem q excl_q) (edge_qubits e).

(* one layer of CompositeRepetitionCodeDescription.gate_sequences: the parking operations required by the remaining gates
   are always computed; they replace the underlying layer's parks (only_required) or are appended to them when missing *)
Definition composite_layer (excl_e : list edge) (excl_q : list string) (only_required : bool) (l : GateLayer) : GateLayer :=
  let gates := filter (fun e => negb (excluded excl_e excl_q e)) (layer_gates l) in
  let required := required_parks gates in
  MkGateLayer (if only_required then required
               else (layer_parks l ++ filter (fun q => negb (qmem q (layer_parks l))) required)%list) gates.

(* history: before the fix of finding F11 the underlying layer's parks were kept unchanged (see C17_..._refuted) *)
Definition composite_layer_before_F11 (excl_e : list edge) (excl_q : list string) (only_required : bool) (l : GateLayer) : GateLayer :=
  let gates := filter (fun e => negb (excluded excl_e excl_q e)) (layer_gates l) in
  MkGateLayer (if only_required then required_parks gates else layer_parks l) gates.

Definition c_layers (c : composite) : list GateLayer :=
  let base := match c_lead_gate c with Some d => d_layers d | None => d_layers (c_base c) end in
  map (composite_layer (c_exclude_edges c) (c_exclude_qubits c) (c_only_required c)) base.
