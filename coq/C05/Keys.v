(* C05 — the value-based identity of sub-circuits and copy()'s relation transfer lookup (the mechanism of findings F12 and F21).

   CircuitCompositeOperation is a dataclass with unsafe_hash: two sub-circuits are EQUAL (and hash equal) when their relation
   link and repetition strategy are; the graph compares always-equal.  A relation link carries an instance identifier drawn from
   a class-level counter, so two links are equal exactly when they are one object (or one was never re-created).  copy() records
   `relation_transfer_lookup[operation] = operation_copy` in listing order in a dict: a later EQUAL key overwrites the earlier
   one, and every relation pointing at the earlier operation is then re-attached to the copy of the later one.

   Relation-free operations are given links at two places (Gen/Flags.v (i), read from the source on every run):
   decomposed_operations (hand-off while listing) and extend (first operations of an unrolled copy).  This file models exactly
   that: which keys the operations get, and what the dict then answers.  Definitions only; proofs in KeysProofs.v. *)
From Coq Require Import ZArith List Bool PeanoNat.
Import ListNotations.

Definition key := (nat * Z)%type.            (* (relation-link instance identifier, repetition count) *)
Definition key_eqb (a b : key) : bool := Nat.eqb (fst a) (fst b) && Z.eqb (snd a) (snd b).

(* links for the relation-free sub-circuits with repetition counts `reps`, the identifier counter standing at `next`:
   fresh = true : dataclasses.replace(link) per operation -> one new identifier each;
   fresh = false: one link object assigned to all of them. *)
Fixpoint assign (fresh : bool) (next : nat) (reps : list Z) : list key :=
  match reps with
  | [] => []
  | r :: t => (next, r) :: assign fresh (if fresh then S next else next) t
  end.

(* a Python dict filled in insertion order with tbl's pairs, then asked for k: the LAST equal key wins *)
Fixpoint lookup (tbl : list (key * nat)) (k : key) : option nat :=
  match tbl with
  | [] => None
  | (k', v) :: t => match lookup t k with Some x => Some x | None => if key_eqb k' k then Some v else None end
  end.
(* copy(): the i-th listed sub-circuit is mapped to its copy, here named by its position i *)
Definition table_of (ks : list key) : list (key * nat) := combine ks (seq 0 (length ks)).

(* every sub-circuit finds its own copy *)
Definition transfer_faithful (ks : list key) : Prop :=
  forall i k, nth_error ks i = Some k -> lookup (table_of ks) k = Some i.
