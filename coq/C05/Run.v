(* C05 — copies are faithful and independent: case format, tie and specification. *)
From Coq Require Import ZArith List Bool.
From Coq Require String.
Import ListNotations.
From QCE Require Import Base.Prelude Core.Model Core.Run.
From Gen Require Import Ident Classes.
Open Scope Z_scope.

Record ccase := {
  k_prog : list cmd;
  k_env : denv;
  k_derive : Z;               (* what is copied: 0 the built circuit, 1 apply_modifiers() of it, 2 flatten() of it, 3 apply_modifiers().flatten() *)
  k_orig : option obs;        (* operations of the circuit *)
  k_copy : option obs;        (* operations of circuit_structure.copy() *)
  k_copy_listed : option obs; (* the same, of a circuit whose operations were listed before it was copied *)
  k_nested : option obs;      (* operations of an empty circuit to which the circuit was added (implicit copy) *)
  k_copy_unchanged : bool;    (* the copy reports the same before and after the original was extended and unrolled *)
  k_orig_unchanged : bool     (* the original reports the same before and after the copy was extended and unrolled *)
}.

Definition ops_eqb (a : list oentry) (o : option obs) : bool :=
  match o with None => true | Some b => list_eqb oentry_eqb a (o_ops b) end.
Definition model_ops (env : denv) (ns : list node) : list oentry := map (entry_to_o env) (listing env ns).

(* the circuit that is copied, in the model; None where the model's flatten is undefined (C11_model_scope) *)
Definition derived_nodes (c : ccase) : option (list node) :=
  let env := k_env c in
  let ns := run_prog env (k_prog c) in
  if k_derive c =? 0 then Some ns
  else if k_derive c =? 1 then Some (apply_modifiers env 1 ns)
  else if k_derive c =? 2 then flatten env ns
  else flatten env (apply_modifiers env 1 ns).

Definition agree_c (c : ccase) : bool :=
  let env := k_env c in
  match derived_nodes c with
  | None => true
  | Some ns =>
      ops_eqb (model_ops env ns) (k_orig c)
      && ops_eqb (model_ops env (copy_nodes env ns)) (k_copy c)
      && ops_eqb (model_ops env (copy_nodes env ns)) (k_copy_listed c)
      && ops_eqb (model_ops env (add_node env [] (OComp 1 (copy_nodes env ns)) LNone)) (k_nested c)
  end.

(* same operation sequence: class, channels, duration, tag, relation type, referent position, schedule relative to own start *)
Definition rel_type (o : oentry) : Z :=
  match oe_rel o with
  | None => 0
  | Some (RelationType_FOLLOWED_BY, _, _) => 1
  | Some (RelationType_JOINED_START, _, _) => 2
  | Some (RelationType_JOINED_END, _, _) => 3
  end.
Definition zmin_l (d : Z) (l : list Z) : Z := match l with [] => d | x :: t => fold_left Z.min t x end.
Definition same_entry (sa sb : Z) (a b : oentry) : bool :=
  (oe_cls a =? oe_cls b) && chans_eqb (oe_chans a) (oe_chans b) && (oe_d a =? oe_d b) && (oe_tag a =? oe_tag b)
  && (rel_type a =? rel_type b) && (oe_refpos a =? oe_refpos b) && String.eqb (oe_sig a) (oe_sig b)
  && (oe_s a - sa =? oe_s b - sb) && (oe_e a - sa =? oe_e b - sb).
Fixpoint same_seq (sa sb : Z) (a b : list oentry) : bool :=
  match a, b with
  | [], [] => true
  | x :: ta, y :: tb => same_entry sa sb x y && same_seq sa sb ta tb
  | _, _ => false
  end.
Definition faithful (a b : option obs) : bool :=
  match a, b with
  | Some x, Some y => same_seq (zmin_l 0 (map oe_s (o_ops x))) (zmin_l 0 (map oe_s (o_ops y))) (o_ops x) (o_ops y)
  | _, _ => true
  end.

Definition spec_c (c : ccase) : bool :=
  faithful (k_orig c) (k_copy c) && faithful (k_orig c) (k_copy_listed c) && faithful (k_orig c) (k_nested c)
  && k_copy_unchanged c && k_orig_unchanged c.

(* a case is a generated build program (model + specification) or a program the Core model does not express — a relation to a
   GROUP of operations with an arbitrary relation type, built with MultiRelationLink — judged by the specification alone *)
Inductive case := KCore (c : ccase) | KSpecOnly (orig copy copy_listed nested : option obs) (copy_unchanged orig_unchanged : bool).
Definition agree (c : case) : bool := match c with KCore x => agree_c x | KSpecOnly _ _ _ _ _ _ => true end.
Definition spec_ok (c : case) : bool :=
  match c with
  | KCore x => spec_c x
  | KSpecOnly o cp cl n cu ou => faithful o cp && faithful o cl && faithful o n && cu && ou
  end.
