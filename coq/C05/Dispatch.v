(* C05 -- the generic DeclarativeCircuit.add(): which path an argument takes.  The dispatch table, the unwrapping done by
   add_declarative_circuit and the two class-hierarchy facts are read from the source on every run (Gen/Flags.v (j)).
   Only add_sub_circuit copies its argument; add_operation inserts the object itself.  So a raw circuit structure, which is
   ALSO an operation, must meet the sub-circuit test before the operation test (seeds C07-5, C05-6 swapped the two). *)
From Coq Require Import List Bool String.
Import ListNotations.
From Gen Require Flags.
Open Scope string_scope.

Inductive arg_kind := ADeclarative | AStructure | ALeaf.

(* isinstance(argument, <class>) from the class hierarchy facts of the source *)
Definition is_instance (k : arg_kind) (cls : string) : bool :=
  match k with
  | ADeclarative => String.eqb cls "IDeclarativeCircuit"
                    || (Flags.declarative_circuit_is_an_operation && String.eqb cls "ICircuitOperation")
  | AStructure => String.eqb cls "ICircuitCompositeOperation"
                  || (Flags.composite_interface_is_an_operation && String.eqb cls "ICircuitOperation")
  | ALeaf => String.eqb cls "ICircuitOperation"
  end.

Fixpoint first_match (k : arg_kind) (tbl : list (string * string)) : option string :=
  match tbl with
  | [] => None                                   (* falls through to the final raise *)
  | (cls, m) :: t => if is_instance k cls then Some m else first_match k t
  end.

(* the method that finally receives the object, and whether that method copies it *)
Definition final_method (k : arg_kind) : option string :=
  match first_match k Flags.add_dispatch with
  | Some "add_declarative_circuit" =>
      if Flags.add_declarative_hands_structure_to_add_sub_circuit then Some "add_sub_circuit" else Some "add_declarative_circuit"
  | r => r
  end.
Definition copied_on_add (k : arg_kind) : bool :=
  match final_method k with Some m => String.eqb m "add_sub_circuit" | None => false end.

Lemma add_routes :
  final_method ADeclarative = Some "add_sub_circuit" /\ final_method AStructure = Some "add_sub_circuit"
  /\ final_method ALeaf = Some "add_operation".
Proof. vm_compute. repeat split. Qed.

Lemma nested_arguments_are_copied : forall k, k <> ALeaf -> copied_on_add k = true.
Proof. intros [| |] H; [vm_compute; reflexivity | vm_compute; reflexivity | contradiction]. Qed.
