From Coq Require Import ZArith List Bool PeanoNat Lia.
Import ListNotations.
From QCE Require Import C05.Keys.

Lemma key_eqb_eq a b : key_eqb a b = true <-> a = b.
Proof.
  destruct a as [a1 a2], b as [b1 b2]; unfold key_eqb; cbn [fst snd].
  rewrite andb_true_iff, Nat.eqb_eq, Z.eqb_eq. split; [intros [-> ->]; reflexivity | intros H; inversion H; auto].
Qed.
Lemma key_eqb_refl a : key_eqb a a = true. Proof. apply key_eqb_eq; reflexivity. Qed.

Lemma assign_fresh_ids reps : forall next, map fst (assign true next reps) = seq next (length reps).
Proof. induction reps as [|r t IH]; intros next; cbn [assign map fst seq length]; [reflexivity | rewrite IH; reflexivity]. Qed.
Lemma assign_length fresh reps : forall next, length (assign fresh next reps) = length reps.
Proof. induction reps as [|r t IH]; intros next; cbn [assign length]; [reflexivity | rewrite IH; reflexivity]. Qed.
Lemma assign_snd fresh reps : forall next, map snd (assign fresh next reps) = reps.
Proof. induction reps as [|r t IH]; intros next; cbn [assign map snd]; [reflexivity | rewrite IH; reflexivity]. Qed.

Lemma NoDup_map_inv' {A B} (f : A -> B) l : NoDup (map f l) -> NoDup l.
Proof.
  induction l as [|x l IH]; intros H; [constructor|]. cbn [map] in H. inversion H as [|? ? Hn Hd]; subst.
  constructor; [intros Hin; apply Hn, in_map, Hin | apply IH, Hd].
Qed.

Lemma assign_fresh_nodup next reps : NoDup (assign true next reps).
Proof. apply (NoDup_map_inv' fst). rewrite assign_fresh_ids. apply seq_NoDup. Qed.
Lemma assign_fresh_ge next reps k : In k (assign true next reps) -> (next <= fst k)%nat.
Proof.
  intros H. apply (in_map fst) in H. rewrite assign_fresh_ids in H. apply in_seq in H. lia.
Qed.

(* new links never collide with the links that already exist *)

Lemma NoDup_app' {A} (l1 l2 : list A) : NoDup l1 -> NoDup l2 -> (forall x, In x l1 -> ~ In x l2) -> NoDup (l1 ++ l2).
Proof.
  induction l1 as [|a l1 IH]; intros H1 H2 Hd; cbn [app]; [exact H2|].
  inversion H1 as [|? ? Hn Hd1]; subst. constructor.
  - rewrite in_app_iff. intros [Hi|Hi]; [exact (Hn Hi) | exact (Hd a (or_introl eq_refl) Hi)].
  - apply IH; [exact Hd1 | exact H2 | intros x Hx; apply Hd; right; exact Hx].
Qed.

Lemma fresh_keys_nodup old next reps :
  NoDup old -> (forall k, In k old -> (fst k < next)%nat) -> NoDup (old ++ assign true next reps).
Proof.
  intros Hold Hlt. apply NoDup_app'; [exact Hold | apply assign_fresh_nodup|].
  intros x Hx Hy. apply Hlt in Hx. apply assign_fresh_ge in Hy. lia.
Qed.

(* the dict: with pairwise distinct keys every key finds the value stored under it *)
Lemma lookup_none tbl k : (forall k' v, In (k', v) tbl -> k' <> k) -> lookup tbl k = None.
Proof.
  induction tbl as [|[k' v] t IH]; intros H; cbn [lookup]; [reflexivity|].
  rewrite IH by (intros k'' v' Hin; apply (H k'' v'); right; exact Hin).
  destruct (key_eqb k' k) eqn:E; [|reflexivity]. apply key_eqb_eq in E. exfalso. exact (H k' v (or_introl eq_refl) E).
Qed.

Lemma lookup_combine ks : forall vs i k, length vs = length ks -> NoDup ks -> nth_error ks i = Some k ->
  lookup (combine ks vs) k = nth_error vs i.
Proof.
  induction ks as [|k0 ks IH]; intros vs i k Hlen Hnd Hnth; [destruct i; discriminate|].
  destruct vs as [|v vs]; [discriminate|]. cbn [combine lookup]. inversion Hnd as [|? ? Hn Hd]; subst.
  destruct i as [|i]; cbn [nth_error] in *.
  - inversion Hnth; subst k0. rewrite lookup_none.
    + rewrite key_eqb_refl. reflexivity.
    + intros k' v' Hin Heq. subst k'. apply Hn. exact (in_combine_l _ _ _ _ Hin).
  - rewrite (IH vs i k); [|cbn [length] in Hlen; lia | exact Hd | exact Hnth].
    destruct (nth_error vs i) eqn:E; [reflexivity|].
    exfalso. apply nth_error_None in E.
    assert (i < length ks)%nat by (apply nth_error_Some; congruence). cbn [length] in Hlen. lia.
Qed.

Lemma nodup_transfer_faithful ks : NoDup ks -> transfer_faithful ks.
Proof.
  intros Hnd i k Hnth. unfold table_of. rewrite (lookup_combine ks (seq 0 (length ks)) i k (seq_length _ _) Hnd Hnth).
  assert (i < length ks)%nat by (apply nth_error_Some; congruence).
  rewrite nth_error_nth' with (d := 0%nat) by (rewrite seq_length; exact H). rewrite seq_nth by exact H. reflexivity.
Qed.

(* one link object for all of them: two sub-circuits with equal repetition counts collide, the first is answered with the second *)
Lemma shared_link_collides :
  exists reps, let ks := assign false 0 reps in
  exists i j k, i <> j /\ nth_error ks i = Some k /\ lookup (table_of ks) k = Some j.
Proof. exists [1%Z; 1%Z]. exists 0%nat, 1%nat, (0%nat, 1%Z). split; [discriminate | split; vm_compute; reflexivity]. Qed.

(* ... and different repetition counts do not collide even then (why the defect needs equal counts) *)
Lemma shared_link_distinct_reps_ok reps next : NoDup reps -> transfer_faithful (assign false next reps).
Proof. intros H. apply nodup_transfer_faithful. apply (NoDup_map_inv' snd). rewrite assign_snd. exact H. Qed.

Theorem fresh_links_transfer_faithful old next reps :
  NoDup old -> (forall k, In k old -> (fst k < next)%nat) -> transfer_faithful (old ++ assign true next reps).
Proof. intros H1 H2. apply nodup_transfer_faithful, fresh_keys_nodup; assumption. Qed.

Example fresh_example : transfer_faithful ([(0%nat, 1%Z); (1%nat, 2%Z)] ++ assign true 2 [1%Z; 1%Z; 3%Z]).
Proof. apply fresh_links_transfer_faithful; [repeat constructor; cbn; intuition congruence | intros k [<-|[<-|[]]]; cbn; lia]. Qed.
