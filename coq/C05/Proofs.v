From Coq Require Import ZArith List Bool Lia.
Import ListNotations.
From QCE Require Import Base.Prelude Core.Model.
From Gen Require Import Ident Classes.
Open Scope Z_scope.

(* what a faithful per-class copy() must do: transfer the relation link and every init field *)
Definition class_faithful (c : class_spec) : bool :=
  cs_copy_link c && cs_copy_qchan c && cs_copy_dur c && match cs_copy_missing c with [] => true | _ => false end.

Lemma copy_leaf_faithful l : class_faithful (class_of (l_cls l)) = true -> copy_leaf l = l.
Proof.
  unfold class_faithful, copy_leaf. intros H.
  destruct (cs_copy_link _), (cs_copy_qchan _) eqn:Q, (cs_copy_dur _) eqn:D; try discriminate.
  destruct l; reflexivity.
Qed.
