(* C05 — copies are faithful and independent.
   1. every class' copy() transfers the relation link and every init field: an obligation on the GENERATED class table
      (class_table_faithful, by computation) -> copy_leaf is the identity, every leaf keeps its link;
   2. with these two facts the structural theorems of Core/CopyIso.v apply: the copy of a (nested) circuit is the original
      renumbered in listing order, lists the same entries, has the same duration, and copying again changes nothing;
   3. examples. *)
From Coq Require Import ZArith List Bool Lia Permutation.
Import ListNotations.
From QCE Require Import Base.Prelude Core.Model Core.Run Core.BfsProofs Core.BfsWf Core.CopyOrder Core.CopyProofs Core.CopyIso.
From Gen Require Import Ident Classes.
Open Scope Z_scope.

(* what a faithful per-class copy() must do: transfer the relation link and every init field *)
Definition class_faithful (c : class_spec) : bool :=
  cs_copy_link c && cs_copy_qchan c && cs_copy_dur c && match cs_copy_missing c with [] => true | _ => false end.

Lemma copy_leaf_faithful l : class_faithful (class_of (l_cls l)) = true -> copy_leaf l = l.
Proof.
  unfold class_faithful, copy_leaf. intros H.
  destruct (cs_copy_link _), (cs_copy_qchan _) eqn:Q, (cs_copy_dur _) eqn:D; try discriminate.
  destruct l; reflexivity.
Qed.

(* ------------------------------------------------------------------ 1. the generated table *)
(* breaks when some class' copy() forgets a field or the link *)
Theorem class_table_faithful : forallb class_faithful class_table = true.
Proof. vm_compute. reflexivity. Qed.

Lemma no_class_faithful : class_faithful no_class = true.
Proof. reflexivity. Qed.

(* every index, including the out-of-range ones (which denote no_class) *)
Lemma class_of_faithful c : class_faithful (class_of c) = true.
Proof.
  unfold class_of. destruct (nth_in_or_default (Z.to_nat c) class_table no_class) as [H | ->].
  - exact (proj1 (forallb_forall _ _) class_table_faithful _ H).
  - exact no_class_faithful.
Qed.

Theorem copy_leaf_id : forall l, copy_leaf l = l.
Proof. intros l. apply copy_leaf_faithful. apply class_of_faithful. Qed.

Theorem l_keeps_true : forall l, l_keeps l = true.
Proof.
  intros l. unfold l_keeps. pose proof (class_of_faithful (l_cls l)) as H. unfold class_faithful in H.
  destruct (cs_copy_link (class_of (l_cls l))); [reflexivity | discriminate].
Qed.

(* ------------------------------------------------------------------ 2. the structural theorems, instantiated *)
Definition sigma_of (ns : list node) : nat -> nat := pos (bfs (parents ns)).

(* the copy is the original renumbered in listing order *)
Theorem copy_iso : forall env r ns, cwf (OComp r ns) ->
  let sigma := sigma_of ns in
  Permutation (bfs (parents ns)) (seq 0 (length ns)) /\
  copy_nodes env ns =
    map (fun i => let n := nth i ns dummy_node in
                  Node (option_map sigma (n_parent n)) (link_map sigma (n_link n)) (copy_op env (n_op n)))
        (bfs (parents ns)) /\
  (forall i n, nth_error ns i = Some n ->
     nth_error (copy_nodes env ns) (sigma i) =
       Some (Node (option_map sigma (n_parent n)) (link_map sigma (n_link n)) (copy_op env (n_op n)))) /\
  bfs (parents (copy_nodes env ns)) = seq 0 (length ns).
Proof. exact (CopyIso.copy_iso copy_leaf_id l_keeps_true). Qed.

Theorem copy_same_listing : forall env ns, cwf (OComp 1 ns) -> listing env (copy_nodes env ns) = listing env ns.
Proof. exact (CopyIso.copy_same_listing copy_leaf_id l_keeps_true). Qed.

(* at every nesting level, in every context *)
Theorem copy_same_listing_op : forall env o, cwf o -> forall c se, listing_op env (copy_op env o) c se = listing_op env o c se.
Proof. exact (CopyIso.copy_listing copy_leaf_id l_keeps_true). Qed.

Theorem copy_same_duration : forall env ns, cwf (OComp 1 ns) -> comp_duration env (copy_nodes env ns) = comp_duration env ns.
Proof. exact (CopyIso.copy_same_duration copy_leaf_id l_keeps_true). Qed.

Theorem copy_same_channels : forall env r ns, cwf (OComp r ns) ->
  op_channels (OComp r (copy_nodes env ns)) = op_channels (OComp r ns).
Proof. exact (CopyIso.copy_same_channels copy_leaf_id l_keeps_true). Qed.

Theorem copy_of_copy : forall env ns, cwf (OComp 1 ns) -> copy_nodes env (copy_nodes env ns) = copy_nodes env ns.
Proof. exact (CopyIso.copy_copy copy_leaf_id l_keeps_true). Qed.

Theorem copy_wf : forall env r ns, cwf (OComp r ns) -> cwf (OComp r (copy_nodes env ns)).
Proof. exact (CopyIso.copy_cwf copy_leaf_id l_keeps_true). Qed.

(* every program (within the documented depth limit) builds a graph the theorems apply to *)
Theorem run_prog_cwf : forall env r p, sized_prog p -> cwf (OComp r (run_prog env p)).
Proof. exact (CopyIso.run_prog_cwf copy_leaf_id l_keeps_true). Qed.

Theorem prog_copy_same_listing : forall env p, sized_prog p ->
  listing env (copy_nodes env (run_prog env p)) = listing env (run_prog env p).
Proof. exact (CopyIso.prog_copy_same_listing copy_leaf_id l_keeps_true). Qed.

Theorem prog_nested_same_listing : forall env p, sized_prog p ->
  listing env (run_prog env [CSub 1 p]) = listing env (run_prog env p).
Proof. exact (CopyIso.prog_nested_same_listing copy_leaf_id l_keeps_true). Qed.

Theorem prog_copy_same_duration : forall env p, sized_prog p ->
  comp_duration env (copy_nodes env (run_prog env p)) = comp_duration env (run_prog env p).
Proof. intros env p S. apply copy_same_duration. apply run_prog_cwf. exact S. Qed.

Theorem prog_copy_of_copy : forall env p, sized_prog p ->
  copy_nodes env (copy_nodes env (run_prog env p)) = copy_nodes env (run_prog env p).
Proof. intros env p S. apply copy_of_copy. apply run_prog_cwf. exact S. Qed.

(* every internal relation of the copy points to the copy of the original's referent: node i of the original is node
   sigma i of the copy; its parent pointer and every reference of its link (single or multi) are mapped by sigma *)
Theorem prog_relations_repointed : forall env p, sized_prog p ->
  let ns := run_prog env p in
  let sigma := sigma_of ns in
  forall i n, nth_error ns i = Some n ->
    nth_error (copy_nodes env ns) (sigma i) =
      Some (Node (option_map sigma (n_parent n)) (link_map sigma (n_link n)) (copy_op env (n_op n))).
Proof.
  intros env p S ns sigma. exact (proj1 (proj2 (proj2 (copy_iso env 1 ns (run_prog_cwf env 1 p S))))).
Qed.

(* the copy lists in its own insertion order *)
Theorem prog_copy_listing_order : forall env p, sized_prog p ->
  bfs (parents (copy_nodes env (run_prog env p))) = seq 0 (length (run_prog env p)).
Proof.
  intros env p S. exact (proj2 (proj2 (proj2 (copy_iso env 1 _ (run_prog_cwf env 1 p S))))).
Qed.

(* a circuit whose repetition was unrolled at the top level (repeat_nodes: copies appended behind multi-links) *)
Theorem repeat_nodes_cwf : forall env r ns k, cwf (OComp r ns) -> all_listed (repeat_nodes env ns k) ->
  cwf (OComp r (repeat_nodes env ns k)).
Proof. exact (CopyIso.repeat_nodes_cwf copy_leaf_id l_keeps_true). Qed.

Theorem prog_repeated_copy_same_listing : forall env p k, sized_prog p ->
  all_listed (repeat_nodes env (run_prog env p) k) ->
  listing env (copy_nodes env (repeat_nodes env (run_prog env p) k)) = listing env (repeat_nodes env (run_prog env p) k).
Proof. intros env p k S AL. apply copy_same_listing. apply repeat_nodes_cwf; [apply run_prog_cwf; exact S | exact AL]. Qed.

(* REMARK (independence).  In the functional model a copy shares nothing with the original: `copy_nodes env ns` is a value,
   and nothing done to `ns` afterwards (add_node, extend, repeat_nodes, apply_modifiers all RETURN new lists) can change
   what `listing env (copy_nodes env ns)` denotes -- the statement "forall f, listing env (copy_nodes env ns) does not
   depend on f ns" is true by the absence of state, not a theorem worth stating.  Independence of the IMPLEMENTATION's
   objects (no shared mutable nodes / links / caches between a circuit and its copy) is an observation of the correspondence
   run: flags k_copy_unchanged / k_orig_unchanged of coq/C05/Run.v, judged by spec_ok. *)

(* ------------------------------------------------------------------ 3. examples *)
Definition ex_env : denv := mk_env 8 2 4 16 [].
Definition ex_leaf (lab cls q : Z) : leaf := mk_leaf lab cls [q] QubitChannel_ALL (default_dstrat cls) None.

(* two qubits; a repeated block holding a nested block and a JOINED_START relation; FOLLOWED_BY and JOINED_END relations at
   the top; a dangling relation; a measurement that shares no channel with the gates before it (a second root, inserted
   late): insertion order and listing order differ *)
Definition ex_prog : list cmd :=
  [ CAdd (ex_leaf 0 C_Rx180 0) None;
    CSub 2 [ CAdd (ex_leaf 1 C_Rx90 0) None; CAdd (ex_leaf 2 C_Ry90 1) None;
             CSub 1 [ CAdd (mk_leaf 3 C_CPhase [0; 1] QubitChannel_ALL (DGlobal GFlux) None) None ];
             CAdd (ex_leaf 4 C_Rxm90 0) (Some (RelationType_JOINED_START, 1%nat)) ];
    CAdd (ex_leaf 5 C_Ry180 1) (Some (RelationType_FOLLOWED_BY, 0%nat));
    CDangling (ex_leaf 6 C_Rx180 0) RelationType_FOLLOWED_BY;
    CAdd (mk_leaf 7 C_DispersiveMeasure [0] QubitChannel_ALL (DGlobal GReadout) (Some (0, 0))) None;
    CAdd (ex_leaf 8 C_Rx180 1) (Some (RelationType_JOINED_END, 0%nat)) ].

Example ex_sized : sized_prog ex_prog.
Proof. split; [vm_compute; discriminate|]. repeat (constructor; try (vm_compute; discriminate)). Qed.

(* the hypotheses of the structural theorems hold of it *)
Example ex_cwf : cwf (OComp 1 (run_prog ex_env ex_prog)).
Proof. apply run_prog_cwf. exact ex_sized. Qed.

(* sigma is not the identity: the measurement (inserted fifth) is listed second *)
Example ex_order : bfs (parents (run_prog ex_env ex_prog)) = [0; 4; 1; 2; 5; 3]%nat
                   /\ map (sigma_of (run_prog ex_env ex_prog)) (seq 0 6) = [0; 2; 3; 5; 1; 4]%nat.
Proof. split; vm_compute; reflexivity. Qed.

(* so the copy is a different graph (parent pointers and links renumbered) ... *)
Example ex_copy_differs :
  map (fun n => (n_parent n, n_link n)) (run_prog ex_env ex_prog)
    = [ (None, LNone); (Some 0, LRel RelationType_FOLLOWED_BY 0); (Some 0, LRel RelationType_FOLLOWED_BY 0);
        (Some 1, LRel RelationType_FOLLOWED_BY 1); (None, LNone); (Some 0, LRel RelationType_JOINED_END 0) ]%nat
  /\ map (fun n => (n_parent n, n_link n)) (copy_nodes ex_env (run_prog ex_env ex_prog))
    = [ (None, LNone); (None, LNone); (Some 0, LRel RelationType_FOLLOWED_BY 0); (Some 0, LRel RelationType_FOLLOWED_BY 0);
        (Some 0, LRel RelationType_JOINED_END 0); (Some 2, LRel RelationType_FOLLOWED_BY 2) ]%nat.
Proof. split; vm_compute; reflexivity. Qed.

(* ... that lists the same entries, by the theorem; the listing is not trivial (10 entries: the block of node 1 is NOT
   unrolled by listing, 4 leaves inside, in the order 0 7 1 2 3 4 5 8 6) *)
Example ex_copy_listing :
  listing ex_env (copy_nodes ex_env (run_prog ex_env ex_prog)) = listing ex_env (run_prog ex_env ex_prog)
  /\ map (fun e => l_lab (e_leaf e)) (listing ex_env (run_prog ex_env ex_prog)) = [0; 7; 1; 2; 3; 4; 5; 8; 6].
Proof. split; [apply prog_copy_same_listing; exact ex_sized | vm_compute; reflexivity]. Qed.

Example ex_nested_listing :
  listing ex_env (run_prog ex_env [CSub 1 ex_prog]) = listing ex_env (run_prog ex_env ex_prog).
Proof. apply prog_nested_same_listing. exact ex_sized. Qed.

(* the same equalities checked by computation (the theorems are not vacuous on this input) *)
Example ex_computed :
  list_eqb (fun a b => (l_lab (e_leaf a) =? l_lab (e_leaf b)) && (e_start a =? e_start b) && (e_end a =? e_end b))
           (listing ex_env (copy_nodes ex_env (run_prog ex_env ex_prog))) (listing ex_env (run_prog ex_env ex_prog)) = true
  /\ comp_duration ex_env (copy_nodes ex_env (run_prog ex_env ex_prog)) = comp_duration ex_env (run_prog ex_env ex_prog).
Proof. split; vm_compute; reflexivity. Qed.

(* a graph with multi-links (an unrolled repetition) whose insertion order is not its listing order *)
Definition ex_flat : list cmd :=
  [ CAdd (ex_leaf 0 C_Rx180 0) None; CAdd (ex_leaf 1 C_Rx90 0) None; CAdd (ex_leaf 2 C_Ry90 1) None ].
Definition ex_unrolled : list node := repeat_nodes ex_env (run_prog ex_env ex_flat) 3.

Example ex_unrolled_cwf : cwf (OComp 1 ex_unrolled).
Proof.
  assert (G : ginv ex_unrolled) by (apply repeat_nodes_ginv, run_prog_ginv).
  constructor; [exact G | |].
  - apply small_all_listed; [exact (proj1 G)|]. replace (length ex_unrolled) with 9%nat by (vm_compute; reflexivity).
    pose proof max_layers_eq. lia.
  - vm_compute. repeat constructor.
Qed.

Example ex_unrolled_links :
  map (fun n => (n_parent n, n_link n)) ex_unrolled
    = [ (None, LNone); (Some 0, LRel RelationType_FOLLOWED_BY 0); (None, LNone);
        (Some 1, LMulti [2; 1]); (Some 1, LMulti [2; 1]); (Some 3, LRel RelationType_FOLLOWED_BY 3);
        (Some 5, LMulti [2; 4; 5]); (Some 5, LMulti [2; 4; 5]); (Some 6, LRel RelationType_FOLLOWED_BY 6) ]%nat
  /\ bfs (parents ex_unrolled) = [0; 2; 1; 3; 4; 5; 6; 7; 8]%nat
  /\ map (fun n => (n_parent n, n_link n)) (copy_nodes ex_env ex_unrolled)
    = [ (None, LNone); (None, LNone); (Some 0, LRel RelationType_FOLLOWED_BY 0);
        (Some 2, LMulti [1; 2]); (Some 2, LMulti [1; 2]); (Some 3, LRel RelationType_FOLLOWED_BY 3);
        (Some 5, LMulti [1; 4; 5]); (Some 5, LMulti [1; 4; 5]); (Some 6, LRel RelationType_FOLLOWED_BY 6) ]%nat.
Proof. repeat split; vm_compute; reflexivity. Qed.

Example ex_unrolled_copy :
  listing ex_env (copy_nodes ex_env ex_unrolled) = listing ex_env ex_unrolled
  /\ copy_nodes ex_env (copy_nodes ex_env ex_unrolled) = copy_nodes ex_env ex_unrolled
  /\ length (listing ex_env ex_unrolled) = 9%nat.
Proof.
  split; [apply copy_same_listing, ex_unrolled_cwf|]. split; [apply copy_of_copy, ex_unrolled_cwf | vm_compute; reflexivity].
Qed.

(* RelationLink.copy and MultiRelationLink.copy hand the relation type (and the group rule) on to the copied link:
   read from the source by the translator; breaks when a copy() forgets one of them *)
Lemma link_copies_faithful :
  relation_link_copy_keeps_type = true /\ multi_link_copy_keeps_type = true /\ multi_link_copy_keeps_group = true.
Proof. repeat split; reflexivity. Qed.
