(* Bridge between the Core model of circuits (Core/Model.v: relation graph, listing, unrolling) and the model of the Stim
   exporter (C08/Tree.v, C08/Model.v): the listing tree the exporter walks, computed from a Core operation.

   `StimCircuitFactoryManager.construct` iterates `_circuit_graph.get_node_iterator()`; in the Core model that iterator is
   `bfs (parents ns)` (the layered listing of one graph).  A leaf of class index c becomes a `Leaf` of the exporter's `kind`
   with the same class NAME, a composite becomes `Block reps <its own listing>`.

   The class index -> kind map is defined from the two GENERATED tables only: `Gen.Classes.class_table` (class names, the
   index space of `l_cls`) and `Gen.Tables` (`kind_all`, `kind_name`).  That it is a bijection between the class table and
   `kind_all` is checked by computation in Bridge/Proofs.v, so a class added on one side only breaks that proof.

   The integer arguments of the annotation classes (detector / observable / coordinate shift, Wait's duration) are not part
   of a Core leaf; they enter as a parameter `args_of : leaf -> list (option Z)`, an arbitrary function of the leaf.

   Definitions only; no proofs in this file.  Core.Model.leaf and C08.Tree.leaf are both called `leaf`: here `cleaf` is
   the Core leaf, `sleaf` the exporter's. *)
From Coq Require Import ZArith List Bool String.
Import ListNotations.
From QCE Require Import Base.Prelude Core.Model C08.Tree.
From Gen Require Import Classes Tables.
Open Scope Z_scope.

Notation cleaf := QCE.Core.Model.leaf (only parsing).
Notation sleaf := QCE.C08.Tree.leaf (only parsing).

(* ------------------------------------------------------------------ class index -> kind, through the class NAME *)
Definition kind_of_name (s : string) : option kind := find (fun k => String.eqb (kind_name k) s) kind_all.
(* `class_of` is the Core model's own lookup (out-of-range indices give `no_class`, whose name "" is no kind's name) *)
Definition kind_of_cls (c : Z) : option kind := kind_of_name (cs_name (class_of c)).

(* the index space of the class table *)
Definition cls_indices : list Z := map Z.of_nat (seq 0 (List.length class_table)).
(* candidate inverse: the first class index mapped to k *)
Definition okind_eqb (a b : option kind) : bool :=
  match a, b with Some x, Some y => kind_eqb x y | None, None => true | _, _ => false end.
Definition cls_of_kind (k : kind) : option Z := find (fun c => okind_eqb (kind_of_cls c) (Some k)) cls_indices.
Definition oZ_is (a : option Z) (c : Z) : bool := match a with Some x => x =? c | None => false end.

(* the checks evaluated in Bridge/Proofs.v *)
(* every class of the class table has a kind, and cls_of_kind takes that kind back to the class: total and injective *)
Definition cls_kind_total_injective : bool :=
  forallb (fun c => match kind_of_cls c with Some k => oZ_is (cls_of_kind k) c | None => false end) cls_indices.
(* every kind is the kind of a class of the class table: onto *)
Definition cls_kind_onto : bool :=
  forallb (fun k => match cls_of_kind k with Some c => okind_eqb (kind_of_cls c) (Some k) | None => false end) kind_all.
(* an index outside the table has no kind *)
Definition cls_kind_outside : bool :=
  okind_eqb (kind_of_cls (Z.of_nat (List.length class_table))) None.
(* the named indices of Gen.Classes agree with the constructors of Gen.Tables on the classes the examples use *)
Definition cls_kind_named : bool :=
  okind_eqb (kind_of_cls C_DispersiveMeasure) (Some K_DispersiveMeasure) && okind_eqb (kind_of_cls C_CPhase) (Some K_CPhase)
  && okind_eqb (kind_of_cls C_Rx180) (Some K_Rx180) && okind_eqb (kind_of_cls C_Barrier) (Some K_Barrier)
  && okind_eqb (kind_of_cls C_DetectorOperation) (Some K_DetectorOperation).

(* a leaf whose class index is outside the class table has no class in the source either; the Core model gives it the
   empty `no_class`.  Here it gets a kind the exporter does not support. *)
Definition default_kind : kind := K_SingleQubitOperation.
Definition kind_of (l : cleaf) : kind := match kind_of_cls (l_cls l) with Some k => k | None => default_kind end.
Definition cls_valid (l : cleaf) : Prop := 0 <= l_cls l < Z.of_nat (List.length class_table).

(* ------------------------------------------------------------------ the listing tree of an operation *)
Section Tree.
  Variable args_of : cleaf -> list (option Z).

  Definition leaf_item (l : cleaf) : sleaf := MkLeaf (kind_of l) (l_qubits l) (args_of l).

  (* children in listing order `bfs (parents ns)`; indices outside the graph (none for well-formed graphs) are skipped *)
  Fixpoint tree_of_op (o : op) : item :=
    match o with
    | OLeaf l => Leaf (leaf_item l)
    | OComp r ns =>
        let ts := (fix go (l : list node) : list item :=
                     match l with [] => [] | Node _ _ o' :: t => tree_of_op o' :: go t end) ns in
        Block r (flat_map (fun i => match nth_error ts i with Some t => [t] | None => [] end) (bfs (parents ns)))
    end.

  (* the tree of a circuit (a node list): what `to_stim(circuit)` walks *)
  Definition tree_of_nodes (ns : list node) : list item :=
    match tree_of_op (OComp 1 ns) with Block _ b => b | Leaf _ => [] end.
End Tree.

(* circuits without annotation classes: no integer arguments *)
Definition no_args : cleaf -> list (option Z) := fun _ => [].

(* ------------------------------------------------------------------ the expanded listing, in order, on the Core side *)
(* every leaf in listing order, each block's own listing repeated `reps` times in place, recursively: the ordered version of
   Core.UnrollProofs.expanded (which goes through the nodes in insertion order), and Core.C02's `op_leaves` with the
   repetition counts applied *)
Fixpoint expanded_listing (o : op) : list cleaf :=
  match o with
  | OLeaf l => [l]
  | OComp r ns =>
      let ls := (fix go (l : list node) : list (list cleaf) :=
                   match l with [] => [] | Node _ _ o' :: t => expanded_listing o' :: go t end) ns in
      rep_list (Z.to_nat r) (flat_map (fun i => nth i ls []) (bfs (parents ns)))
  end.
