(* Bridge: Core model of circuits  <->  model of the Stim exporter.

   1. the class index -> kind map of Bridge/TreeOfOp.v is a bijection between the generated class table (Gen.Classes) and
      the generated kinds (Gen.Tables), by computation;
   2. the expanded listing of the exporter's tree (`C08.Tree.expand (tree_of_nodes ns)`) is, IN ORDER, the image of the Core
      expanded listing (`expanded_listing`), hence a permutation of the image of `Core.UnrollProofs.expanded`;
   3. hence (C06: unroll_fmultiset) the trees before and after `apply_modifiers` have the same expanded listing up to
      permutation, and (C08: stim_perm_multiset) the two exports hold the same instructions and as many measurements;
   4. after unrolling the expanded listing of the tree IS the Core listing (no hypothesis).

   Neither development is modified.  Core.Model.leaf = `cleaf`, C08.Tree.leaf = `sleaf` (Bridge/TreeOfOp.v). *)
From Coq Require Import ZArith List Bool String Lia Arith Permutation.
Import ListNotations.
From QCE Require Import Base.Prelude Core.Model Core.Run Core.BfsProofs Core.BfsWf Core.TimesWf C02.Proofs Core.UnrollProofs
  C06.Proofs C08.Tree C08.Model C08.Proofs Bridge.TreeOfOp.
From Gen Require Import Ident Classes Tables.
Local Open Scope Z_scope.

(* ------------------------------------------------------------------ 1. class index <-> kind, over the generated tables *)
Example current_cls_kind_total_injective : cls_kind_total_injective = true.
Proof. vm_compute. reflexivity. Qed.

Example current_cls_kind_onto : cls_kind_onto = true.
Proof. vm_compute. reflexivity. Qed.

Example current_cls_kind_outside : cls_kind_outside = true.
Proof. vm_compute. reflexivity. Qed.

Example current_cls_kind_named : cls_kind_named = true.
Proof. vm_compute. reflexivity. Qed.

Definition cls_in_table (c : Z) : Prop := 0 <= c < Z.of_nat (List.length class_table).

Lemma in_cls_indices c : In c cls_indices <-> cls_in_table c.
Proof.
  unfold cls_indices, cls_in_table. rewrite in_map_iff. split.
  - intros (i & E & Hi). apply in_seq in Hi. lia.
  - intros H. exists (Z.to_nat c). split; [lia|]. apply in_seq. lia.
Qed.

Lemma kind_eqb_eq a b : kind_eqb a b = true -> a = b.
Proof. destruct a, b; intros H; try reflexivity; discriminate H. Qed.

Lemma kind_all_complete k : In k kind_all.
Proof.
  assert (H : existsb (kind_eqb k) kind_all = true) by (destruct k; reflexivity).
  apply existsb_exists in H as (k' & Hin & E). apply kind_eqb_eq in E. subst k'. exact Hin.
Qed.

Lemma okind_eqb_some o k : okind_eqb o (Some k) = true -> o = Some k.
Proof. destruct o as [k'|]; simpl; intros H; [apply kind_eqb_eq in H; now subst | discriminate]. Qed.

(* the kind of a class is the kind with the class's NAME *)
Lemma kind_of_cls_name c k : kind_of_cls c = Some k -> kind_name k = cs_name (class_of c).
Proof. unfold kind_of_cls, kind_of_name. intros H. apply find_some in H as [_ H]. apply String.eqb_eq in H. exact H. Qed.

Lemma opt_match_true {A} (o : option A) (f : A -> bool) :
  match o with Some x => f x | None => false end = true -> exists x, o = Some x /\ f x = true.
Proof. destruct o as [x|]; intros H; [exists x; split; [reflexivity | exact H] | discriminate]. Qed.

Lemma oZ_is_some a c : oZ_is a c = true -> a = Some c.
Proof. destruct a as [x|]; simpl; intros H; [apply Z.eqb_eq in H; now subst | discriminate]. Qed.

Section ClassTable.
  (* stated against the checks, so that the lemmas do not depend on the content of the tables *)
  Hypothesis T : cls_kind_total_injective = true.
  Hypothesis O : cls_kind_onto = true.

  Lemma cls_kind_step c : cls_in_table c -> exists k, kind_of_cls c = Some k /\ cls_of_kind k = Some c.
  Proof.
    intros H. unfold cls_kind_total_injective in T. rewrite forallb_forall in T.
    specialize (T c (proj2 (in_cls_indices c) H)). apply opt_match_true in T as (k & E & B).
    exists k. split; [exact E | apply oZ_is_some; exact B].
  Qed.

  Lemma kind_of_cls_back_t c k : cls_in_table c -> kind_of_cls c = Some k -> cls_of_kind k = Some c.
  Proof. intros H E. destruct (cls_kind_step c H) as (k' & E' & B). congruence. Qed.

  Lemma kind_of_cls_total_t c : cls_in_table c -> exists k, kind_of_cls c = Some k.
  Proof. intros H. destruct (cls_kind_step c H) as (k & E & _). exists k. exact E. Qed.

  Lemma kind_of_cls_injective_t c1 c2 k : cls_in_table c1 -> cls_in_table c2 ->
    kind_of_cls c1 = Some k -> kind_of_cls c2 = Some k -> c1 = c2.
  Proof.
    intros H1 H2 E1 E2. pose proof (kind_of_cls_back_t c1 k H1 E1) as B1. pose proof (kind_of_cls_back_t c2 k H2 E2) as B2.
    congruence.
  Qed.

  Lemma kind_of_cls_onto_t k : exists c, cls_in_table c /\ kind_of_cls c = Some k.
  Proof.
    unfold cls_kind_onto in O. rewrite forallb_forall in O. specialize (O k (kind_all_complete k)).
    apply opt_match_true in O as (c & E & B). exists c. split.
    - unfold cls_of_kind in E. apply find_some in E as [Hin _]. apply in_cls_indices. exact Hin.
    - apply okind_eqb_some. exact B.
  Qed.
End ClassTable.

(* for the tables generated from the current source *)
Theorem kind_of_cls_total c : cls_in_table c -> exists k, kind_of_cls c = Some k.
Proof. apply kind_of_cls_total_t. exact current_cls_kind_total_injective. Qed.

Theorem kind_of_cls_injective c1 c2 k : cls_in_table c1 -> cls_in_table c2 ->
  kind_of_cls c1 = Some k -> kind_of_cls c2 = Some k -> c1 = c2.
Proof. apply kind_of_cls_injective_t. exact current_cls_kind_total_injective. Qed.

Theorem kind_of_cls_onto k : exists c, cls_in_table c /\ kind_of_cls c = Some k.
Proof. apply kind_of_cls_onto_t. exact current_cls_kind_onto. Qed.

(* a leaf of a class of the table is exported under the kind that carries its class's name *)
Theorem kind_of_valid l : cls_valid l -> kind_of_cls (l_cls l) = Some (kind_of l) /\ kind_name (kind_of l) = cs_name (class_of (l_cls l)).
Proof.
  intros H. destruct (kind_of_cls_total (l_cls l) H) as (k & E). unfold kind_of. rewrite E. split; [reflexivity|].
  apply kind_of_cls_name. exact E.
Qed.

(* ------------------------------------------------------------------ lists *)
Lemma rep_list_rep_app {A} n (l : list A) : rep_list n l = rep_app n l.
Proof. induction n as [|n IH]; simpl; [reflexivity | now rewrite IH]. Qed.

Lemma rep_list_map {A B} (f : A -> B) n l : map f (rep_list n l) = rep_list n (map f l).
Proof. induction n as [|n IH]; simpl; [reflexivity | now rewrite map_app, IH]. Qed.

Lemma flat_map_nested {A B C} (f : B -> list C) (g : A -> list B) l :
  flat_map f (flat_map g l) = flat_map (fun x => flat_map f (g x)) l.
Proof. induction l as [|a l IH]; simpl; [reflexivity | now rewrite flat_map_app, IH]. Qed.

(* ------------------------------------------------------------------ 2. the tree and the expanded listing *)
Lemma expanded_listing_comp r ns :
  expanded_listing (OComp r ns)
  = rep_list (Z.to_nat r) (flat_map (at_node ns (fun n => expanded_listing (n_op n))) (bfs (parents ns))).
Proof.
  cbn [expanded_listing]. f_equal. apply flat_map_ext. intros i. rewrite <- nth_map_at_node. f_equal.
  induction ns as [|[p lk o'] t IH]; simpl; [reflexivity|]. now rewrite IH.
Qed.

(* the ordered expanded listing is a rearrangement of the insertion-ordered one (every graph listed completely) *)
Lemma expanded_listing_perm o : listable_op o -> Permutation (expanded_listing o) (expanded o).
Proof.
  induction o as [l | r ns IH] using op_ind'; intros L; [apply Permutation_refl|].
  inversion L as [|? ? L1 LF]; subst. rewrite expanded_listing_comp, expanded_comp, rep_list_rep_app. apply rep_app_perm.
  rewrite (Permutation_flat_map _ L1), flat_map_at_node_seq, flat_map_map. apply Permutation_flat_map_pointwise.
  rewrite Forall_forall in *. intros n Hn. apply IH; auto.
Qed.

(* with all counts 1 it is the listing (C02: op_leaves = leaves of `listing`) *)
Lemma counts_one_expanded_listing o : counts_one o -> expanded_listing o = op_leaves o.
Proof.
  induction o as [l | r ns IH] using op_ind'; intros H; [reflexivity|].
  apply counts_one_comp_inv in H as [-> F]. rewrite expanded_listing_comp, op_leaves_comp.
  change (Z.to_nat 1) with 1%nat. cbn [rep_list]. rewrite app_nil_r.
  apply flat_map_ext. intros i. unfold at_node. destruct (nth_error ns i) as [n|] eqn:E; [|reflexivity].
  apply nth_error_In in E. rewrite Forall_forall in IH, F. apply IH; [exact E|]. apply F. apply in_map. exact E.
Qed.

Section Bridge.
  Variable args_of : cleaf -> list (option Z).

  Lemma tree_of_op_comp r ns :
    tree_of_op args_of (OComp r ns)
    = Block r (flat_map (at_node ns (fun n => [tree_of_op args_of (n_op n)])) (bfs (parents ns))).
  Proof.
    cbn [tree_of_op]. f_equal. apply flat_map_ext. intros i. unfold at_node. revert i.
    induction ns as [|[p lk o'] t IH]; intros [|i]; simpl; try reflexivity. apply IH.
  Qed.

  (* the tree of a circuit: its nodes in listing order *)
  Lemma tree_of_nodes_eq ns :
    tree_of_nodes args_of ns = flat_map (at_node ns (fun n => [tree_of_op args_of (n_op n)])) (bfs (parents ns)).
  Proof. unfold tree_of_nodes. rewrite tree_of_op_comp. reflexivity. Qed.

  Lemma expand_item_comp r ns :
    expand_item (tree_of_op args_of (OComp r ns))
    = rep_list (Z.to_nat r) (flat_map (at_node ns (fun n => expand_item (tree_of_op args_of (n_op n)))) (bfs (parents ns))).
  Proof.
    rewrite tree_of_op_comp. cbn [expand_item]. f_equal. rewrite flat_map_nested. apply flat_map_ext. intros i.
    unfold at_node. destruct (nth_error ns i); simpl; [apply app_nil_r | reflexivity].
  Qed.

  Lemma expand_tree_of_nodes ns : expand (tree_of_nodes args_of ns) = expand_item (tree_of_op args_of (OComp 1 ns)).
  Proof.
    rewrite tree_of_nodes_eq, tree_of_op_comp. cbn [expand_item]. change (Z.to_nat 1) with 1%nat. cbn [rep_list].
    rewrite app_nil_r. reflexivity.
  Qed.

  (* IN ORDER, no hypothesis: the exporter's expanded listing is the image of the Core expanded listing *)
  Theorem expand_tree_in_order o : expand_item (tree_of_op args_of o) = map (leaf_item args_of) (expanded_listing o).
  Proof.
    induction o as [l | r ns IH] using op_ind'; [reflexivity|].
    rewrite expand_item_comp, expanded_listing_comp, rep_list_map, map_flat_map. f_equal. apply flat_map_ext. intros i.
    unfold at_node. destruct (nth_error ns i) as [n|] eqn:E; [|reflexivity].
    rewrite Forall_forall in IH. apply IH. eapply nth_error_In. exact E.
  Qed.

  Corollary expand_tree_nodes_in_order ns :
    expand (tree_of_nodes args_of ns) = map (leaf_item args_of) (expanded_listing (OComp 1 ns)).
  Proof. rewrite expand_tree_of_nodes. apply expand_tree_in_order. Qed.

  (* ... and so a rearrangement of the image of `expanded` (content x product of the enclosing counts) *)
  Theorem expand_tree_listing_op o : listable_op o ->
    Permutation (map (leaf_item args_of) (expanded o)) (expand_item (tree_of_op args_of o)).
  Proof. intros L. rewrite expand_tree_in_order. apply Permutation_map. symmetry. apply expanded_listing_perm. exact L. Qed.

  Theorem expand_tree_listing ns : ok (OComp 1 ns) ->
    Permutation (map (leaf_item args_of) (expanded (OComp 1 ns))) (expand (tree_of_nodes args_of ns)).
  Proof. intros K. rewrite expand_tree_of_nodes. apply expand_tree_listing_op. apply ok_listable_op. exact K. Qed.

  (* a circuit whose counts are all 1 (every unrolled circuit): the expanded listing of the tree IS the listing *)
  Theorem counts_one_tree_is_listing env ns : counts_one (OComp 1 ns) ->
    expand (tree_of_nodes args_of ns) = map (leaf_item args_of) (map e_leaf (listing env ns)).
  Proof. intros H. rewrite expand_tree_nodes_in_order, (counts_one_expanded_listing _ H), listing_leaves. reflexivity. Qed.

  (* ---------------------------------------------------------------- 3. before / after unrolling *)
  Section Copy.
    (* the arguments are a function of what copy() keeps of a leaf *)
    Hypothesis Hargs : forall l, args_of (copy_leaf l) = args_of l.

    Lemma leaf_item_copy l : leaf_item args_of (copy_leaf l) = leaf_item args_of l.
    Proof. unfold leaf_item, kind_of. rewrite Hargs. reflexivity. Qed.

    (* graph level: any well-formed circuit within the size bound, any count on the outer circuit *)
    Theorem unroll_tree_perm_graph_args env reps ns : wf_op (OComp reps ns) -> rsize_ok (OComp reps ns) ->
      Permutation (expand_item (tree_of_op args_of (OComp reps ns)))
                  (expand (tree_of_nodes args_of (apply_modifiers env reps ns))).
    Proof.
      intros W S. pose proof (rsize_ok_ok _ W S) as K. pose proof (rsize_ok_reps_pos _ S) as R.
      pose proof (unroll_listable env reps ns W S) as L'.
      rewrite expand_tree_of_nodes, !expand_tree_in_order.
      rewrite (expanded_listing_perm _ (ok_listable_op _ K)), (expanded_listing_perm _ L').
      rewrite (counts_one_expanded _ (unroll_counts_one env reps ns)).
      symmetry. exact (unroll_fmultiset env _ (leaf_item args_of) leaf_item_copy reps ns K R).
    Qed.

    Theorem unroll_tree_perm_args env p : unroll_small_prog p ->
      Permutation (expand (tree_of_nodes args_of (run_prog env p)))
                  (expand (tree_of_nodes args_of (apply_modifiers env 1 (run_prog env p)))).
    Proof.
      intros S. rewrite (expand_tree_of_nodes (run_prog env p)).
      apply unroll_tree_perm_graph_args; [apply run_prog_wf_op | apply unroll_small_prog_rsize; exact S].
    Qed.

    Theorem unroll_export_same_multiset_args env p c1 c2 : unroll_small_prog p ->
      to_stim (tree_of_nodes args_of (run_prog env p)) = Some c1 ->
      to_stim (tree_of_nodes args_of (apply_modifiers env 1 (run_prog env p))) = Some c2 ->
      Permutation (C08.Model.flat c1) (C08.Model.flat c2) /\ nmeas c1 = nmeas c2.
    Proof. intros S. apply stim_perm_multiset. apply unroll_tree_perm_args. exact S. Qed.
  End Copy.
End Bridge.

(* for the classes of the current source copy() keeps every field of a leaf (C02: current_table_faithful), so the statements
   hold for EVERY assignment of arguments to leaves *)
Theorem unroll_tree_perm_graph args_of env reps ns : wf_op (OComp reps ns) -> rsize_ok (OComp reps ns) ->
  Permutation (expand_item (tree_of_op args_of (OComp reps ns)))
              (expand (tree_of_nodes args_of (apply_modifiers env reps ns))).
Proof. apply unroll_tree_perm_graph_args. intros l. now rewrite copy_leaf_id_current. Qed.

Theorem unroll_tree_perm args_of env p : unroll_small_prog p ->
  Permutation (expand (tree_of_nodes args_of (run_prog env p)))
              (expand (tree_of_nodes args_of (apply_modifiers env 1 (run_prog env p)))).
Proof. apply unroll_tree_perm_args. intros l. now rewrite copy_leaf_id_current. Qed.

(* graph level (library-built circuits are serialised as node lists): any well-formed circuit within the size bound *)
Theorem unroll_export_same_multiset_graph args_of env ns c1 c2 : wf_op (OComp 1 ns) -> rsize_ok (OComp 1 ns) ->
  to_stim (tree_of_nodes args_of ns) = Some c1 ->
  to_stim (tree_of_nodes args_of (apply_modifiers env 1 ns)) = Some c2 ->
  Permutation (C08.Model.flat c1) (C08.Model.flat c2) /\ nmeas c1 = nmeas c2.
Proof.
  intros W S. apply stim_perm_multiset. rewrite (expand_tree_of_nodes args_of ns). apply unroll_tree_perm_graph; assumption.
Qed.

(* THE BRIDGE THEOREM.  Exporting before or after unrolling repetitions gives the same multiset of instructions (REPEAT
   unrolled, fused targets split) and the same number of measurements: every program within the size bound of C06, every
   duration environment, every assignment of annotation arguments to leaves; `to_stim … = Some c`: the export returned. *)
Theorem unroll_export_same_multiset args_of env p c1 c2 : unroll_small_prog p ->
  to_stim (tree_of_nodes args_of (run_prog env p)) = Some c1 ->
  to_stim (tree_of_nodes args_of (apply_modifiers env 1 (run_prog env p))) = Some c2 ->
  Permutation (C08.Model.flat c1) (C08.Model.flat c2) /\ nmeas c1 = nmeas c2.
Proof. intros S. apply stim_perm_multiset. apply unroll_tree_perm. exact S. Qed.

(* 4. after unrolling, the export is the image of the Core listing itself, in order (no size hypothesis) *)
Theorem unrolled_tree_is_listing args_of env p :
  expand (tree_of_nodes args_of (apply_modifiers env 1 (run_prog env p)))
  = map (leaf_item args_of) (map e_leaf (listing env (apply_modifiers env 1 (run_prog env p)))).
Proof. apply counts_one_tree_is_listing. apply unroll_counts_one. Qed.

Theorem unrolled_export_in_listing_order args_of env p c :
  to_stim (tree_of_nodes args_of (apply_modifiers env 1 (run_prog env p))) = Some c ->
  normalise c = fold_coords [] (flat_map (fun l => match instr_of (leaf_item args_of l) with IEmit s => [s] | _ => [] end)
                                         (map e_leaf (listing env (apply_modifiers env 1 (run_prog env p))))).
Proof.
  intros H. rewrite (stim_in_order _ _ H), (unrolled_tree_is_listing args_of env p), flat_map_map. reflexivity.
Qed.

(* ------------------------------------------------------------------ examples / non-vacuity *)
Definition br_env : denv := mk_env 8 2 4 16 [].
Definition br_leaf (lab cls q : Z) : cleaf := mk_leaf lab cls [q] QubitChannel_ALL (default_dstrat cls) None.
Definition br_cz (lab : Z) : cleaf := mk_leaf lab C_CPhase [0; 1] QubitChannel_ALL (DGlobal GFlux) None.
Definition br_meas (lab q : Z) : cleaf := mk_leaf lab C_DispersiveMeasure [q] QubitChannel_ALL (DGlobal GReadout) (Some (q, 0)).
Definition br_det (lab q : Z) : cleaf := mk_leaf lab C_DetectorOperation [q] QubitChannel_ALL (DFixed 0) None.
(* arguments by label: the detector (label 7) compares the last measurement with itself: last_acquisition_index = 5,
   main_target = 5, i.e. rec[-1] *)
Definition br_args (l : cleaf) : list (option Z) := if l_lab l =? 7 then [Some 5; Some 5; None; None; None] else [].

(* nested counts 2 and 3 with measurements at every level: 1 + 2 * (1 + 3 * 1) = 9 measurements, 6 detectors *)
Definition br_prog : list cmd :=
  [ CAdd (br_leaf 0 C_Rx180 0) None;
    CSub 2 [ CAdd (br_leaf 1 C_Rx90 0) None; CAdd (br_meas 2 1) None;
             CSub 3 [ CAdd (br_cz 3) None; CAdd (br_meas 4 0) None; CAdd (br_det 7 0) None ];
             CAdd (br_leaf 5 C_Rxm90 0) None ];
    CAdd (br_meas 6 1) None ].

Example br_small : unroll_small_prog br_prog.
Proof. split; [vm_compute; discriminate|]. repeat (constructor; try (vm_compute; discriminate)). Qed.

Example br_classes_valid : Forall cls_valid (prog_expanded br_prog).
Proof. repeat constructor; vm_compute; discriminate. Qed.

Definition br_tree_before : list item := tree_of_nodes br_args (run_prog br_env br_prog).
Definition br_tree_after : list item := tree_of_nodes br_args (apply_modifiers br_env 1 (run_prog br_env br_prog)).

(* the tree before unrolling carries the counts, the tree after only counts of 1 *)
Example br_tree_before_eq :
  br_tree_before
  = [ Leaf (MkLeaf K_Rx180 [0] []);
      Block 2 [ Leaf (MkLeaf K_Rx90 [0] []); Leaf (MkLeaf K_DispersiveMeasure [1] []);
                Block 3 [ Leaf (MkLeaf K_CPhase [0; 1] []); Leaf (MkLeaf K_DispersiveMeasure [0] []);
                          Leaf (MkLeaf K_DetectorOperation [0] [Some 5; Some 5; None; None; None]) ];
                Leaf (MkLeaf K_Rxm90 [0] []) ];
      Leaf (MkLeaf K_DispersiveMeasure [1] []) ].
Proof. vm_compute. reflexivity. Qed.

Example br_trees_differ :
  map depth_item br_tree_before = [0; 2; 0]%nat /\ List.length br_tree_before = 3%nat /\ List.length (leaves br_tree_before) = 8%nat
  /\ List.length br_tree_after = 3%nat /\ List.length (leaves br_tree_after) = 26%nat
  /\ List.length (expand br_tree_before) = 26%nat /\ expand br_tree_after = leaves br_tree_after.
Proof. vm_compute. repeat split. Qed.

(* both exports return; the first has the nested REPEAT blocks, the second none *)
Example br_export_before :
  to_stim br_tree_before
  = Some [ SI "X" [] [TQ 0];
           SRep 2 [ SI "SQRT_X" [] [TQ 0]; SI "M" [] [TQ 1];
                    SRep 3 [ SI "CZ" [] [TQ 0; TQ 1]; SI "M" [] [TQ 0]; SI "DETECTOR" [0; 0] [TRec (-1)] ];
                    SI "SQRT_X_DAG" [] [TQ 0] ];
           SI "M" [] [TQ 1] ].
Proof. vm_compute. reflexivity. Qed.

Example br_export_after :
  exists c2, to_stim br_tree_after = Some c2 /\ forallb (fun i => match i with SRep _ _ => false | _ => true end) c2 = true
             /\ List.length c2 = 26%nat /\ nmeas c2 = 9
             /\ List.length (filter (fun i => match i with SI g _ _ => String.eqb g "DETECTOR" | _ => false end) c2) = 6%nat.
Proof. eexists. split; [vm_compute; reflexivity|]. vm_compute. repeat split. Qed.

(* the theorem applied: its hypotheses are met, its conclusion is about two different circuits *)
Example br_same_multiset :
  exists c1 c2, to_stim br_tree_before = Some c1 /\ to_stim br_tree_after = Some c2 /\ c1 <> c2
                /\ Permutation (C08.Model.flat c1) (C08.Model.flat c2) /\ nmeas c1 = nmeas c2 /\ nmeas c1 = 9.
Proof.
  destruct (to_stim br_tree_before) as [c1|] eqn:E1; [|vm_compute in E1; discriminate].
  destruct (to_stim br_tree_after) as [c2|] eqn:E2; [|vm_compute in E2; discriminate].
  exists c1, c2. split; [reflexivity|]. split; [reflexivity|].
  pose proof (unroll_export_same_multiset br_args br_env br_prog c1 c2 br_small E1 E2) as [P N].
  split; [|split; [exact P | split; [exact N|]]].
  - vm_compute in E1, E2. inversion E1; inversion E2; subst. discriminate.
  - vm_compute in E1. inversion E1; subst. vm_compute. reflexivity.
Qed.

(* the listing-level statements on the same program *)
Example br_tree_perm : Permutation (expand br_tree_before) (expand br_tree_after).
Proof. apply unroll_tree_perm. exact br_small. Qed.

Example br_expand_in_order :
  map l_lab (expanded_listing (OComp 1 (run_prog br_env br_prog)))
  = [0; 1; 2; 3; 4; 7; 3; 4; 7; 3; 4; 7; 5; 1; 2; 3; 4; 7; 3; 4; 7; 3; 4; 7; 5; 6]
  /\ expand br_tree_before = map (leaf_item br_args) (expanded_listing (OComp 1 (run_prog br_env br_prog)))
  /\ expand br_tree_after
     = map (leaf_item br_args) (map e_leaf (listing br_env (apply_modifiers br_env 1 (run_prog br_env br_prog)))).
Proof.
  split; [vm_compute; reflexivity|]. split; [apply expand_tree_nodes_in_order | apply unrolled_tree_is_listing].
Qed.
