(* C11 — flattening keeps the operations. *)
From Coq Require Import ZArith List Bool.
Import ListNotations.
From QCE Require Import Base.Prelude Core.Model Core.Run.
From Gen Require Import Ident Classes.
Open Scope Z_scope.

(* one flatten experiment: the listing before, after flatten(), whether a second flatten() reported the same, how many
   sub-circuits remained; f_error = the implementation raised RecursionError *)
Record fexp := { f_before : list oentry; f_after : obs; f_again : bool; f_ncomps : Z; f_error : bool }.
Record ccase := {
  f_prog : list cmd;
  f_env : denv;
  f_plain : option fexp;       (* build; flatten *)
  f_unrolled : option fexp     (* build; apply_modifiers; flatten *)
}.

Definition model_flat (env : denv) (ns : list node) : option obs :=
  match flatten env ns with Some f => Some (model_obs env f) | None => None end.
Definition fexp_agree (m : option obs) (e : option fexp) : bool :=
  match e with
  | None => true
  | Some x => if f_error x then true        (* judged by spec_ok *)
              else match m with
                   | Some o => list_eqb oentry_eqb (o_ops o) (o_ops (f_after x)) && (o_duration o =? o_duration (f_after x))
                   | None => true       (* outside the model (see Core.Model.flatten); judged by spec_ok alone *)
                   end
  end.
Definition agree_c (c : ccase) : bool :=
  let env := f_env c in
  let ns := run_prog env (f_prog c) in
  fexp_agree (model_flat env ns) (f_plain c) && fexp_agree (model_flat env (apply_modifiers env 1 ns)) (f_unrolled c).

Record lkey := { lk_cls : Z; lk_chans : list ChannelIdentifier; lk_d : Z; lk_tag : Z }.
Definition lkey_eqb (a b : lkey) : bool :=
  (lk_cls a =? lk_cls b) && chans_eqb (lk_chans a) (lk_chans b) && (lk_d a =? lk_d b) && (lk_tag a =? lk_tag b).
Definition key_of_entry (o : oentry) : lkey :=
  {| lk_cls := oe_cls o; lk_chans := oe_chans o; lk_d := oe_d o; lk_tag := oe_tag o |}.
Definition count_key (k : lkey) (l : list lkey) : nat := length (filter (lkey_eqb k) l).
Definition same_multiset (a b : list lkey) : bool :=
  Nat.eqb (length a) (length b) && forallb (fun k => Nat.eqb (count_key k a) (count_key k b)) a.

(* multiset of leaf operations unchanged, no sub-circuit remains, flattening again changes nothing, and it does not raise *)
Definition fexp_ok (e : option fexp) : bool :=
  match e with
  | None => true
  | Some x => negb (f_error x)
              && same_multiset (map key_of_entry (f_before x)) (map key_of_entry (o_ops (f_after x)))
              && (f_ncomps x =? 0) && f_again x
  end.
Definition spec_c (c : ccase) : bool := fexp_ok (f_plain c) && fexp_ok (f_unrolled c).

(* a case is a generated build program or a library-built circuit; for the latter the property demands more: listing order,
   schedule, acquisition indices and exported Stim program identical before and after flattening (Lib.Run.lib_flat_ok) *)
From QCE Require Import Lib.Run.
Inductive case := KCore (c : ccase) | KLib (l : lcase).
Definition agree (c : case) : bool := match c with KCore x => agree_c x | KLib l => agree_lib l end.
Definition spec_ok (c : case) : bool := match c with KCore x => spec_c x | KLib l => lib_flat_ok l end.
