From Coq Require Import ZArith List Bool Lia.
Import ListNotations.
From QCE Require Import Base.Prelude Core.Model.
Open Scope Z_scope.

Lemma flatten_empty env : flatten env [] = Some [].
Proof. reflexivity. Qed.
