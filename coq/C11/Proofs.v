(* C11 — flattening keeps the operations: the statements for build programs (plain and unrolled), the model-scope
   characterisation with the F10 witness, and examples.  The lemmas are in Core/FlattenProofs.v and Core/FlattenIdem.v. *)
From Coq Require Import ZArith List Bool Lia Permutation.
Import ListNotations.
From QCE Require Import Base.Prelude Core.Model Core.Run Core.BfsProofs Core.BfsWf Core.TimesWf Core.FlattenProofs Core.FlattenIdem Core.FlattenScope.
From Gen Require Import Ident Classes.
Open Scope Z_scope.

Lemma flatten_empty env : flatten env [] = Some [].
Proof. reflexivity. Qed.

(* the graph a build program denotes: as built, or after apply_modifiers() *)
Definition prog_graph (env : denv) (p : list cmd) (unrolled : bool) : list node :=
  if unrolled then apply_modifiers env 1 (run_prog env p) else run_prog env p.

Lemma prog_graph_wf_op env p u : wf_op (OComp 1 (prog_graph env p u)).
Proof.
  destruct u; simpl; [apply TimesWf.apply_modifiers_wf_op|]; apply run_prog_wf_op.
Qed.

(* ------------------------------------------------------------------ the decomposed listing of a program *)
Theorem prog_glisting env p u :
  map ge_leaf (glisting (prog_graph env p u)) = map e_leaf (listing env (prog_graph env p u)) /\
  NoDup (map ge_path (glisting (prog_graph env p u))).
Proof. split; [apply glisting_leaves | apply (glisting_paths_NoDup 1); apply prog_graph_wf_op]. Qed.

(* ------------------------------------------------------------------ 2./3. what the flat graph is *)
Theorem prog_flatten_no_subcircuit env p u f : flatten env (prog_graph env p u) = Some f ->
  Forall (fun n => is_comp (n_op n) = false) f /\
  map n_op f = map OLeaf (map e_leaf (listing env (prog_graph env p u))) /\
  length f = length (listing env (prog_graph env p u)).
Proof.
  intros H. split; [exact (flatten_no_comp _ _ _ H)|]. split; [exact (flatten_ops_listing _ _ _ H)|].
  rewrite (flatten_length _ _ _ H). apply glisting_length.
Qed.

Theorem prog_flatten_wf env p u f : flatten env (prog_graph env p u) = Some f -> wf_nodes f /\ built env f /\ wf_op (OComp 1 f).
Proof. intros H. split; [exact (flatten_wf _ _ _ H)|]. split; [exact (flatten_built _ _ _ H) | exact (flatten_wf_op _ 1 _ _ H)]. Qed.

(* ------------------------------------------------------------------ 4. the multiset of leaves *)
Theorem prog_flatten_multiset env p u f : flatten env (prog_graph env p u) = Some f -> fully_listed f ->
  Permutation (map e_leaf (listing env f)) (map e_leaf (listing env (prog_graph env p u))).
Proof. apply flatten_multiset. Qed.

Theorem prog_flatten_multiset_bound env p u f : flatten env (prog_graph env p u) = Some f ->
  Z.of_nat (length (listing env (prog_graph env p u))) <= 4999 ->
  Permutation (map e_leaf (listing env f)) (map e_leaf (listing env (prog_graph env p u))).
Proof. apply flatten_multiset_bound. Qed.

(* ------------------------------------------------------------------ 5. flattening again *)
Theorem prog_flatten_again env p u f : flatten env (prog_graph env p u) = Some f -> fully_listed f ->
  exists f', flatten env f = Some f' /\ listing env f' = listing env f /\ flatten env f' = Some f'.
Proof.
  intros H F. apply (flatten_idem_fixpoint env f (map e_leaf (listing env (prog_graph env p u)))).
  - exact (flatten_ops_listing _ _ _ H).
  - exact (flatten_wf _ _ _ H).
  - exact (flatten_built _ _ _ H).
  - exact F.
Qed.

Theorem prog_flatten_again_bound env p u f : flatten env (prog_graph env p u) = Some f ->
  Z.of_nat (length (listing env (prog_graph env p u))) <= 4999 ->
  exists f', flatten env f = Some f' /\ listing env f' = listing env f /\ flatten env f' = Some f'.
Proof.
  intros H B. apply (prog_flatten_again env p u f H). apply fully_listed_length; [exact (proj1 (flatten_wf _ _ _ H))|].
  rewrite (flatten_length _ _ _ H), (glisting_length env). exact B.
Qed.

(* ------------------------------------------------------------------ 6. the scope of the model *)
Lemma prog_graph_mb env p u : mb_op (OComp 1 (prog_graph env p u)).
Proof. destruct u; simpl; [apply apply_modifiers_mb|]; apply run_prog_mb. Qed.

(* no answer exactly when, after the hand-off, some listed leaf holds a multi-link with a member t that is a leaf listed
   earlier and a member t' that is no listed leaf at all: a sub-circuit (or an operation cut off by the depth limit) *)
Theorem prog_flatten_scope env p u : let ns := prog_graph env p u in
  flatten env ns = None <->
  exists done e rest tgs t t',
    glisting ns = done ++ e :: rest /\ ge_link e = GMulti tgs /\
    In t tgs /\ In t (map ge_path done) /\ In t' tgs /\ ~ In t' (map ge_path (glisting ns)).
Proof.
  intros ns. split; [apply (flatten_none_built env 1); [apply prog_graph_wf_op | apply prog_graph_mb]|].
  intros (done & e & rest & tgs & t & t' & G & L & H1 & H2 & H3 & H4).
  apply (flatten_none_converse env ns _ _ _ _ _ _ G L H1 H2 H3). intros H. apply H4. rewrite G, map_app. apply in_or_app. left. exact H.
Qed.

(* for arbitrary nested graphs: the missing member is not listed earlier *)
Theorem flatten_scope_any env ns :
  flatten env ns = None <->
  exists done e rest tgs t t',
    glisting ns = done ++ e :: rest /\ ge_link e = GMulti tgs /\
    In t tgs /\ In t (map ge_path done) /\ In t' tgs /\ ~ In t' (map ge_path done).
Proof.
  split; [apply flatten_none_characterisation|].
  intros (done & e & rest & tgs & t & t' & G & L & H1 & H2 & H3 & H4). exact (flatten_none_converse env ns _ _ _ _ _ _ G L H1 H2 H3 H4).
Qed.

(* evaluation helpers: conversions are done on goals (vm casts), never in hypotheses *)
Definition is_some {A} (o : option A) : bool := match o with Some _ => true | None => false end.
Lemma is_some_inv {A} (o : option A) : is_some o = true -> exists x, o = Some x.
Proof. destruct o as [x|]; [exists x; reflexivity | discriminate]. Qed.

Lemma not_in_paths (t : path) (l : list path) : existsb (path_eqb t) l = false -> ~ In t l.
Proof.
  intros H Hin. assert (existsb (path_eqb t) l = true); [|congruence].
  apply existsb_exists. exists t. split; [exact Hin | apply path_eqb_refl].
Qed.

(* the known-finding witness F10: block x3 [Measure q0; Wait q0 FLUX; block[block[Barrier q0]; CoordinateShift q0]], unrolled *)
Definition f10_env : denv := mk_env 40 40 4 2 [].
Definition f10_prog : list cmd :=
  [CSub 3 [CAdd (mk_leaf 0 C_DispersiveMeasure [0] QubitChannel_ALL (DGlobal GReadout) (Some (0, 2))) None;
           CAdd (mk_leaf 1 C_Wait [0] QubitChannel_FLUX (DFixed 8) None) None;
           CSub 1 [CSub 1 [CAdd (mk_leaf 2 C_Barrier [0] QubitChannel_ALL (DFixed 4) None) None];
                   CAdd (mk_leaf 3 C_CoordinateShiftOperation [0] QubitChannel_ALL (DFixed 0) None) None]]].

(* after the hand-off the first operation of the second copy (path [0;3]) holds a multi-link over the first copy's
   measurement [0;0] (a leaf listed earlier) and the first copy's inner block [0;2] (a sub-circuit: no listed leaf) *)
Theorem f10_outside_model :
  let ns := prog_graph f10_env f10_prog true in
  wf_op (OComp 1 ns) /\ flatten f10_env ns = None /\
  exists done e rest, glisting ns = done ++ e :: rest /\ ge_path e = [0; 3]%nat /\
    ge_link e = GMulti [[0; 0]; [0; 2]]%nat /\ In [0; 0]%nat (map ge_path done) /\
    ~ In [0; 2]%nat (map ge_path (glisting ns)).
Proof.
  intros ns. split; [apply prog_graph_wf_op|]. split; [vm_compute; reflexivity|].
  exists (firstn 4 (glisting ns)), (nth 4 (glisting ns) ([], dleaf, GNone)), (skipn 5 (glisting ns)).
  split; [vm_compute; reflexivity|]. split; [vm_compute; reflexivity|]. split; [vm_compute; reflexivity|].
  split; [vm_compute; left; reflexivity|].
  apply not_in_paths. vm_compute. reflexivity.
Qed.

Corollary flatten_refuted_F10 : exists env p, let ns := prog_graph env p true in wf_op (OComp 1 ns) /\ flatten env ns = None.
Proof. exists f10_env, f10_prog. intros ns. split; [apply prog_graph_wf_op | vm_compute; reflexivity]. Qed.

(* ------------------------------------------------------------------ examples: the hypotheses are satisfiable *)
Definition ex_env : denv := mk_env 40 4 8 2 [].
Definition ex_rx (lab q : Z) := mk_leaf lab C_Rx180 [q] QubitChannel_ALL (DGlobal GMicrowave) None.
Definition ex_wait (lab q d : Z) := mk_leaf lab C_Wait [q] QubitChannel_ALL (DFixed d) None.
Definition ex_meas (lab q t : Z) := mk_leaf lab C_DispersiveMeasure [q] QubitChannel_ALL (DGlobal GReadout) (Some (q, t)).
Definition ex_cz (lab a b : Z) := mk_leaf lab C_CPhase [a; b] QubitChannel_ALL (DGlobal GFlux) None.
(* Rx q0; block[Rx q0; block x3[Rx q0; Wait q1; CPhase q0 q1; Measure q1]; Rx q1]; Measure q0 *)
Definition ex_prog : list cmd :=
  [CAdd (ex_rx 0 0) None;
   CSub 1 [CAdd (ex_rx 1 0) None;
           CSub 3 [CAdd (ex_rx 2 0) None; CAdd (ex_wait 3 1 24) None; CAdd (ex_cz 4 0 1) None; CAdd (ex_meas 5 1 1) None];
           CAdd (ex_rx 6 1) None];
   CAdd (ex_meas 7 0 2) None].

(* nested, repeated, unrolled: flatten answers, 16 flat nodes, the listing keeps its order of operations, the flat graph is
   within the depth limit, and a second flatten() reports the same listing *)
Example ex_unrolled_flatten :
  let ns := prog_graph ex_env ex_prog true in
  exists f, flatten ex_env ns = Some f /\ length f = 16%nat /\ fully_listed f /\
            map e_leaf (listing ex_env f) = map e_leaf (listing ex_env ns) /\
            exists f', flatten ex_env f = Some f' /\ listing ex_env f' = listing ex_env f.
Proof.
  intros ns. assert (S : is_some (flatten ex_env ns) = true) by (vm_compute; reflexivity).
  apply is_some_inv in S as (f & E). exists f. split; [exact E|].
  assert (L : length f = 16%nat) by (rewrite (flatten_length _ _ _ E); vm_compute; reflexivity).
  assert (F : fully_listed f).
  { apply fully_listed_length; [exact (proj1 (flatten_wf _ _ _ E))|]. rewrite L. vm_compute. discriminate. }
  split; [exact L|]. split; [exact F|]. split.
  - assert (O : option_map (fun f => map e_leaf (listing ex_env f)) (flatten ex_env ns) = Some (map e_leaf (listing ex_env ns)))
      by (vm_compute; reflexivity).
    rewrite E in O. cbn [option_map] in O. congruence.
  - destruct (prog_flatten_again ex_env ex_prog true f E F) as (f' & H1 & H2 & _). exists f'. split; assumption.
Qed.

(* the same program as built (not unrolled): the repeated block is still one sub-circuit *)
Example ex_plain_flatten :
  let ns := prog_graph ex_env ex_prog false in
  exists f, flatten ex_env ns = Some f /\ length f = 8%nat /\
            Permutation (map e_leaf (listing ex_env f)) (map e_leaf (listing ex_env ns)).
Proof.
  intros ns. assert (S : is_some (flatten ex_env ns) = true) by (vm_compute; reflexivity).
  apply is_some_inv in S as (f & E). exists f. split; [exact E|].
  assert (L : length f = 8%nat) by (rewrite (flatten_length _ _ _ E); vm_compute; reflexivity).
  split; [exact L|]. apply (prog_flatten_multiset_bound ex_env ex_prog false f E). vm_compute. discriminate.
Qed.

(* why `built` is a hypothesis of flatten_idem: a well-formed, fully listed flat graph with two un-related operations on the
   same qubit (which add_to_graph never produces: the second would have been linked behind the first) is re-linked by
   flatten, and the reported times change *)
Definition ex_unbuilt : list node := [Node None LNone (OLeaf (ex_wait 0 0 8)); Node None LNone (OLeaf (ex_wait 1 0 16))].

Example flatten_idem_needs_built :
  wf_nodes ex_unbuilt /\ fully_listed ex_unbuilt /\ map n_op ex_unbuilt = map OLeaf [ex_wait 0 0 8; ex_wait 1 0 16] /\
  map e_start (listing ex_env ex_unbuilt) = [0; 0] /\
  option_map (fun f' => map e_start (listing ex_env f')) (flatten ex_env ex_unbuilt) = Some [0; 8].
Proof.
  assert (W : wf_nodes ex_unbuilt).
  { split.
    - intros [|[|i]] p H; simpl in H; try discriminate. destruct i; discriminate.
    - intros [|[|i]] n H; simpl in H; inversion H; try reflexivity. destruct i; discriminate. }
  split; [exact W|]. split; [apply fully_listed_length; [exact (proj1 W) | vm_compute; discriminate]|].
  split; [reflexivity|]. split; vm_compute; reflexivity.
Qed.
