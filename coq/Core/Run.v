(* Shared case format of the Core correspondence runs (C01, C02, C04, C05, C06, C11): a build program, duration settings and
   what the implementation reported; plus the model's version of the same observations. *)
From Coq Require Import ZArith List Bool.
From Coq Require String.
Import ListNotations.
From QCE Require Import Base.Prelude Core.Model.
From Gen Require Import Ident Classes.
Open Scope Z_scope.

Definition mk_leaf (lab cls : Z) (qs : list Z) (qc : QubitChannel) (d : dstrat) (acq : option (Z * Z)) : leaf :=
  {| l_lab := lab; l_cls := cls; l_qubits := qs; l_qchan := qc; l_dur := d; l_acq := acq |}.
Definition ch (q : Z) (c : QubitChannel) := MkChannelIdentifier q c.

Fixpoint assoc_z (l : list (Z * Z)) (k d : Z) : Z :=
  match l with [] => d | (a, b) :: t => if a =? k then b else assoc_z t k d end.
Definition mk_env (ro mw fl rs : Z) (reg : list (Z * Z)) : denv :=
  {| genv := fun k => match k with GReadout => ro | GMicrowave => mw | GFlux => fl | GReset => rs end;
     renv := fun k => assoc_z reg k 0 |}.

(* one reported operation: class, channels, start, end, duration, reported relation (type, referent start, referent end) *)
Record oentry := { oe_cls : Z; oe_chans : list ChannelIdentifier; oe_s : Z; oe_e : Z; oe_d : Z;
                   oe_rel : option (RelationType * Z * Z); oe_tag : Z;
                   oe_cmd : Z;                  (* index of the top-level command whose add() returned this object, or -1 *)
                   oe_refpos : Z;               (* listing position of the reported referent, or -1 (none / a sub-circuit) *)
                   oe_multi : list (Z * Z);     (* (start, end) of every member of a reported multi-link *)
                   oe_sig : String.string }.    (* canonical text of the operation's own public fields (class-specific arguments) *)
(* one reported sub-circuit: start, duration, number of contained leaf operations, earliest start / latest end over them,
   start of its first (depth-1) operations *)
Record ocomp := { oc_s : Z; oc_d : Z; oc_n : Z; oc_lo : Z; oc_hi : Z; oc_first : Z }.
Record obs := { o_ops : list oentry; o_duration : Z; o_comps : list ocomp }.

Definition chans_eqb := list_eqb chid_exact_eqb.
Definition rel_eqb (a b : option (RelationType * Z * Z)) : bool :=
  match a, b with
  | None, None => true
  | Some (t1, s1, e1), Some (t2, s2, e2) => RelationType_eqb t1 t2 && (s1 =? s2) && (e1 =? e2)
  | _, _ => false
  end.
Definition oentry_eqb (a b : oentry) : bool :=
  (oe_cls a =? oe_cls b) && chans_eqb (oe_chans a) (oe_chans b) && (oe_s a =? oe_s b) && (oe_e a =? oe_e b)
  && (oe_d a =? oe_d b) && (oe_tag a =? oe_tag b).
Definition ocomp_eqb (a b : ocomp) : bool := (oc_s a =? oc_s b) && (oc_d a =? oc_d b).
Definition obs_eqb (a b : obs) : bool :=
  list_eqb oentry_eqb (o_ops a) (o_ops b) && (o_duration a =? o_duration b)
  && (match o_comps b with [] => true | _ => list_eqb ocomp_eqb (o_comps a) (o_comps b) end).

Definition entry_to_o (env : denv) (e : entry) : oentry :=
  {| oe_cls := l_cls (e_leaf e); oe_chans := l_chans (e_leaf e); oe_s := e_start e; oe_e := e_end e;
     oe_d := resolve env (l_dur (e_leaf e)); oe_rel := None;
     oe_tag := match l_acq (e_leaf e) with Some (_, t) => t | None => -1 end;
     oe_cmd := -1; oe_refpos := -1; oe_multi := []; oe_sig := String.EmptyString |}.

(* get_sub_composite_operations (pre-order over the layered listing) with reported start and duration *)
Fixpoint comps_op (env : denv) (o : op) : ctx -> list ocomp :=
  match o with
  | OLeaf _ => fun _ => []
  | OComp _ ns => fun c =>
      let fs := (fix go (l : list node) : list (ctx -> list ocomp) :=
                   match l with [] => [] | Node _ _ o' :: t => comps_op env o' :: go t end) ns in
      let tm := node_times env c ns in
      flat_map (fun i => match nth_error ns i with
                         | Some (Node _ l (OComp r sub)) =>
                             {| oc_s := fst (nth i tm (0, 0)); oc_d := dur_of env (OComp r sub); oc_n := 0; oc_lo := 0; oc_hi := 0; oc_first := 0 |}
                             :: nth i fs (fun _ => []) (sub_ctx c tm l)
                         | _ => []
                         end) (bfs (parents ns))
  end.

Definition model_obs (env : denv) (ns : list node) : obs :=
  {| o_ops := map (entry_to_o env) (listing env ns); o_duration := comp_duration env ns;
     o_comps := comps_op env (OComp 1 ns) None |}.

Record case := {
  c_prog : list cmd;
  c_env : denv;
  c_plain : option obs;            (* operations, then duration *)
  c_plain_dur_first : option obs;  (* duration first, then operations (fresh build) *)
  c_unrolled : option obs;         (* apply_modifiers(), then operations *)
  c_unrolled_twice : option obs;   (* apply_modifiers() twice *)
  c_unrolled_dur_first : option obs;  (* fresh build, apply_modifiers(), duration first, then operations *)
  c_stable : bool;                 (* listing twice gave the same sequence *)
  c_reps_after : list Z;           (* nr_of_repetitions of every sub-circuit after apply_modifiers *)
  c_top_ref : list Z               (* per top-level command: the command its entry reports as referent (-1: none / not a top-level entry) *)
}.

Definition opt_obs_agree (m : obs) (i : option obs) : bool :=
  match i with None => true | Some o => obs_eqb m o end.

Definition model_plain (c : case) : obs := model_obs (c_env c) (run_prog (c_env c) (c_prog c)).
Definition model_unrolled (c : case) : obs :=
  model_obs (c_env c) (apply_modifiers (c_env c) 1 (run_prog (c_env c) (c_prog c))).

(* the tie: implementation and model report the same operations (class, channels, start, end, duration, tag) in the same
   order, and the same circuit duration, for the plain and for the unrolled circuit *)
Definition agree_core (c : case) : bool :=
  opt_obs_agree (model_plain c) (c_plain c) && opt_obs_agree (model_plain c) (c_plain_dur_first c)
  && opt_obs_agree (model_unrolled c) (c_unrolled c) && opt_obs_agree (model_unrolled c) (c_unrolled_twice c)
  && opt_obs_agree (model_unrolled c) (c_unrolled_dur_first c).
