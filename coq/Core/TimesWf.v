(* Composition of Core/BfsWf.v (every graph the model builds is a well-formed forest) with Core/TimesProofs.v and
   Core/TimesListing.v (which take `wf_links` / `wf_node_links` / `wf_links_op` as hypotheses). *)
From Coq Require Import ZArith List Bool Lia Arith Permutation.
Import ListNotations.
From QCE Require Import Base.Prelude Core.Model Core.BfsProofs Core.BfsWf Core.TimesProofs Core.TimesListing.
From Gen Require Import Ident Classes.
Open Scope Z_scope.

Lemma wf_nodes_node_links ns : wf_nodes ns -> wf_node_links ns.
Proof.
  intros [_ L] i n E. specialize (L i n E). unfold link_ok in L. unfold link_below.
  destruct (n_link n) as [|t p|ps|t]; auto.
  - exact (proj2 L).
  - exact (proj2 L).
Qed.

Lemma wf_op_links_op o : wf_op o -> wf_links_op o.
Proof.
  induction o as [l | r ns IH] using op_nodes_ind; intros W; [constructor|].
  apply wf_op_comp_inv in W as [W WD]. constructor; [apply wf_nodes_node_links; exact W|].
  rewrite Forall_forall in *. intros n Hn. apply IH; [exact Hn | apply WD; exact Hn].
Qed.

(* in a well-formed graph the depth-1 nodes (parent pointer = root) are exactly the un-related ones *)
Lemma wf_nodes_root_unrelated ns i n : wf_nodes ns -> nth_error ns i = Some n -> n_parent n = None -> n_link n = LNone.
Proof.
  intros [_ L] E Hp. specialize (L i n E). unfold link_ok in L. destruct (n_link n) as [|t p|ps|t]; auto.
  - destruct L as [L _]. congruence.
  - destruct L as [(p & L & _) _]. congruence.
  - contradiction.
Qed.

Theorem run_prog_wf_links env r p : wf_links_op (OComp r (run_prog env p)).
Proof. apply wf_op_links_op. apply run_prog_wf_op. Qed.

Corollary run_prog_wf_node_links env p : wf_node_links (run_prog env p).
Proof. apply wf_nodes_node_links. apply run_prog_wf. Qed.

(* apply_modifiers keeps well-formedness: unrolling is repeat (BfsWf.repeat_nodes_wf_op) followed by a map that keeps parent
   pointers and links and recurses into the sub-circuits *)
Lemma wf_nodes_map_same f ns : (forall n, n_parent (f n) = n_parent n /\ n_link (f n) = n_link n) ->
  wf_nodes ns -> wf_nodes (map f ns).
Proof.
  intros Hf [W L]. split.
  - unfold parents in *. rewrite map_map. erewrite map_ext; [exact W|]. intros n. apply Hf.
  - intros i m E. rewrite nth_error_map in E. destruct (nth_error ns i) as [n|] eqn:En; simpl in E; [|discriminate].
    inversion E; subst. specialize (L i n En). unfold link_ok in *. destruct (Hf n) as [-> ->]. exact L.
Qed.

Theorem apply_mods_fuel_wf_op env fuel : forall reps r' ns, wf_op (OComp reps ns) ->
  wf_op (OComp r' (apply_mods_fuel fuel env reps ns)).
Proof.
  induction fuel as [|f IH]; intros reps r' ns W; simpl; [apply (wf_op_reps reps); exact W|].
  pose proof (repeat_nodes_wf_op env reps ns reps W) as WR. apply wf_op_comp_inv in WR as [WN WD].
  constructor.
  - apply wf_nodes_map_same; [|exact WN]. intros [p l [lf | r sub]]; simpl; auto.
  - rewrite Forall_forall in *. intros m Hm. apply in_map_iff in Hm as (n & <- & Hn). specialize (WD n Hn).
    destruct n as [p l [lf | r sub]]; simpl in *; [constructor|]. apply IH. exact WD.
Qed.

Corollary apply_modifiers_wf_op env reps r' ns : wf_op (OComp reps ns) -> wf_op (OComp r' (apply_modifiers env reps ns)).
Proof. apply apply_mods_fuel_wf_op. Qed.

Corollary unrolled_prog_wf_links env r p : wf_links_op (OComp r (apply_modifiers env 1 (run_prog env p))).
Proof. apply wf_op_links_op. apply apply_modifiers_wf_op. apply run_prog_wf_op. Qed.
