(* extend / repeat / apply_modifiers (Core.Model) at the level of the multiset of operations: what is moved, how often, the
   repetition counts afterwards, idempotence.  Label-level abstraction: `leaves_of o` = every leaf of the nested structure,
   each block's content ONCE; `expanded o` = each block's content repeated `Z.to_nat reps` times, recursively.
   Builds on Core/BfsProofs.v, Core/BfsWf.v and on the leaf lemmas of C02/Proofs.v (all_leaves, listable, size_ok,
   rebuild_ops, copy_op_leaves_perm). *)
From Coq Require Import ZArith List Bool Lia Arith Permutation.
Import ListNotations.
From QCE Require Import Base.Prelude Core.Model Core.BfsProofs Core.BfsWf Core.TimesWf C02.Proofs.
From Gen Require Import Ident Classes.
Local Open Scope nat_scope.

(* ------------------------------------------------------------------ definitions *)
Notation leaves_of := all_leaves (only parsing).

(* n copies of l, one after the other *)
Fixpoint rep_app {A} (n : nat) (l : list A) : list A := match n with O => [] | S k => l ++ rep_app k l end.

Fixpoint expanded (o : op) : list leaf :=
  match o with
  | OLeaf l => [l]
  | OComp r ns => rep_app (Z.to_nat r)
                    ((fix go (l : list node) : list leaf := match l with [] => [] | Node _ _ o' :: t => expanded o' ++ go t end) ns)
  end.

Lemma expanded_comp r ns : expanded (OComp r ns) = rep_app (Z.to_nat r) (flat_map expanded (map n_op ns)).
Proof. simpl. f_equal. induction ns as [|[p lk o'] t IH]; simpl; [reflexivity|]. now rewrite IH. Qed.

(* every repetition count of the nested structure is at least 1 *)
Inductive reps_pos : op -> Prop :=
| rp_leaf l : reps_pos (OLeaf l)
| rp_comp r ns : (1 <= r)%Z -> Forall (fun n => reps_pos (n_op n)) ns -> reps_pos (OComp r ns).

(* every repetition count of the nested structure is exactly 1 *)
Inductive counts_one : op -> Prop :=
| co_leaf l : counts_one (OLeaf l)
| co_comp ns : Forall (fun n => counts_one (n_op n)) ns -> counts_one (OComp 1%Z ns).

(* ------------------------------------------------------------------ rep_app *)
Lemma rep_app_S {A} n (l : list A) : rep_app (S n) l = l ++ rep_app n l.
Proof. reflexivity. Qed.

Lemma rep_app_snoc {A} n (l : list A) : rep_app (S n) l = rep_app n l ++ l.
Proof.
  induction n as [|n IH]; [simpl; now rewrite app_nil_r|].
  change (rep_app (S (S n)) l) with (l ++ rep_app (S n) l). rewrite IH at 1. rewrite app_assoc. reflexivity.
Qed.

Lemma rep_app_perm {A} n (l l' : list A) : Permutation l l' -> Permutation (rep_app n l) (rep_app n l').
Proof. intros H. induction n as [|n IH]; simpl; [constructor | apply Permutation_app; assumption]. Qed.

Lemma rep_app_map {A B} (f : A -> B) n l : map f (rep_app n l) = rep_app n (map f l).
Proof. induction n as [|n IH]; simpl; [reflexivity | now rewrite map_app, IH]. Qed.

Lemma rep_app_flat_map {A B} (g : A -> list B) n l : flat_map g (rep_app n l) = rep_app n (flat_map g l).
Proof. induction n as [|n IH]; simpl; [reflexivity | now rewrite flat_map_app, IH]. Qed.

Lemma rep_app_length {A} n (l : list A) : length (rep_app n l) = n * length l.
Proof. induction n as [|n IH]; simpl; [reflexivity | rewrite app_length, IH; lia]. Qed.

Lemma rep_app_In {A} n (l : list A) x : In x (rep_app n l) -> In x l.
Proof. induction n as [|n IH]; simpl; [tauto|]. intros H. apply in_app_or in H as [H | H]; auto. Qed.

Lemma rep_app_one {A} (l : list A) : rep_app 1 l = l.
Proof. simpl. apply app_nil_r. Qed.

Lemma rep_app_add {A} n m (l : list A) : rep_app (n + m) l = rep_app n l ++ rep_app m l.
Proof. induction n as [|n IH]; simpl; [reflexivity | now rewrite IH, app_assoc]. Qed.

Lemma rep_app_mul {A} n m (l : list A) : rep_app n (rep_app m l) = rep_app (n * m) l.
Proof. induction n as [|n IH]; simpl; [reflexivity | now rewrite IH, rep_app_add]. Qed.

(* ------------------------------------------------------------------ the listed operations of a graph *)
(* g applied to the nodes named by the index list `is` (indices outside the graph are skipped) *)
Definition listed {B} (g : node -> B) (ns : list node) (is : list nat) : list B :=
  filter_map (fun i => option_map g (nth_error ns i)) is.

Lemma listed_flat {B} (g : node -> B) ns is : listed g ns is = flat_map (at_node ns (fun n => [g n])) is.
Proof.
  unfold listed, at_node. induction is as [|i is IH]; simpl; [reflexivity|].
  destruct (nth_error ns i); simpl; now rewrite IH.
Qed.

Lemma listed_perm {B} (g : node -> B) ns is : Permutation is (seq 0 (length ns)) -> Permutation (listed g ns is) (map g ns).
Proof.
  intros P. rewrite listed_flat, (Permutation_flat_map _ P), flat_map_at_node_seq.
  rewrite flat_map_concat_map. clear P. induction ns as [|a t IH]; simpl; [constructor | constructor; exact IH].
Qed.

Lemma listed_In {B} (g : node -> B) ns is y : In y (listed g ns is) -> exists n, In n ns /\ y = g n.
Proof.
  unfold listed. intros H. apply in_filter_map in H as (i & _ & E).
  destruct (nth_error ns i) as [n|] eqn:En; [|discriminate]. simpl in E. inversion E; subst.
  exists n. split; [eapply nth_error_In; exact En | reflexivity].
Qed.

Lemma listed_length {B} (g : node -> B) ns is : length (listed g ns is) <= length is.
Proof. apply filter_map_length. Qed.

Lemma listed_map {B C} (h : B -> C) (g : node -> B) ns is : map h (listed g ns is) = listed (fun n => h (g n)) ns is.
Proof.
  unfold listed. induction is as [|i is IH]; simpl; [reflexivity|].
  destruct (nth_error ns i); simpl; now rewrite IH.
Qed.

(* ------------------------------------------------------------------ operations of a copy / an extension / a repetition *)
Lemma copy_nodes_ops env ns : map n_op (copy_nodes env ns) = listed (fun n => copy_op env (n_op n)) ns (bfs (parents ns)).
Proof. rewrite copy_nodes_eq. apply (rebuild_ops env ns (fun n => copy_op env (n_op n))). Qed.

Lemma copy_nodes_ops_perm env ns : listable ns ->
  Permutation (map n_op (copy_nodes env ns)) (map (copy_op env) (map n_op ns)).
Proof. intros L. rewrite copy_nodes_ops, map_map. apply listed_perm. exact L. Qed.

Lemma copy_nodes_ops_In env ns o : In o (map n_op (copy_nodes env ns)) -> exists n, In n ns /\ o = copy_op env (n_op n).
Proof. rewrite copy_nodes_ops. apply listed_In. Qed.

Lemma extend_fold_ops env other rel : forall is cur m,
  map n_op (fst (fold_left (extend_step env other rel) is (cur, m))) = map n_op cur ++ listed n_op other is.
Proof.
  unfold listed. induction is as [|i is IH]; intros cur m; simpl; [now rewrite app_nil_r|].
  destruct (nth_error other i) as [n|] eqn:E; simpl.
  - rewrite IH, add_node_ops, <- app_assoc. reflexivity.
  - apply IH.
Qed.

(* 2. the operations are moved unchanged, in the listing order of `other`, each listed node once *)
Theorem extend_ops env ns other : map n_op (extend env ns other) = map n_op ns ++ listed n_op other (bfs (parents other)).
Proof. rewrite extend_eq. apply extend_fold_ops. Qed.

Theorem extend_ops_perm env ns other : listable other ->
  Permutation (map n_op (extend env ns other)) (map n_op ns ++ map n_op other).
Proof. intros L. rewrite extend_ops. apply Permutation_app_head. apply listed_perm. exact L. Qed.

Lemma extend_ops_In env ns other o : In o (map n_op (extend env ns other)) -> In o (map n_op ns) \/ In o (map n_op other).
Proof.
  rewrite extend_ops. intros H. apply in_app_or in H as [H | H]; [left; exact H | right].
  apply listed_In in H as (n & Hn & ->). apply in_map. exact Hn.
Qed.

(* a property of operations that copy() preserves holds of every operation of an extension / a repetition (no hypothesis) *)
Lemma copy_nodes_ops_Forall env (P : op -> Prop) ns : (forall o, P o -> P (copy_op env o)) ->
  Forall P (map n_op ns) -> Forall P (map n_op (copy_nodes env ns)).
Proof.
  intros HP F. apply Forall_forall. intros o Ho. apply copy_nodes_ops_In in Ho as (n & Hn & ->).
  apply HP. rewrite Forall_forall in F. apply F. apply in_map. exact Hn.
Qed.

Lemma extend_ops_Forall env (P : op -> Prop) ns other :
  Forall P (map n_op ns) -> Forall P (map n_op other) -> Forall P (map n_op (extend env ns other)).
Proof.
  intros F1 F2. apply Forall_forall. intros o Ho. rewrite Forall_forall in F1, F2.
  apply extend_ops_In in Ho as [Ho | Ho]; auto.
Qed.

Lemma repeat_ops_Forall env (P : op -> Prop) ns n : (forall o, P o -> P (copy_op env o)) ->
  Forall P (map n_op ns) -> Forall P (map n_op (repeat_nodes env ns n)).
Proof.
  intros HP F. unfold repeat_nodes. apply (iter_n_inv (fun x => Forall P (map n_op x))); [|exact F].
  intros x Hx. apply extend_ops_Forall; [exact Hx|]. do 2 (apply copy_nodes_ops_Forall; [exact HP|]). exact F.
Qed.

(* ------------------------------------------------------------------ the size hypothesis *)
(* well-formed (every graph the model builds is) and every graph of the nested structure has at most 4999 nodes, so that
   the layered listing reaches every node whatever the shape of the relation graph *)
Definition ok (o : op) : Prop := wf_op o /\ size_ok o.

Lemma ok_leaf l : ok (OLeaf l).
Proof. split; constructor. Qed.

Lemma ok_listable_op o : ok o -> listable_op o.
Proof. intros [W S]. apply depth_ok_op_listable; [exact W | apply size_ok_depth_ok; assumption]. Qed.

Lemma ok_copy env o : ok o -> ok (copy_op env o).
Proof. intros [W S]. split; [apply copy_op_wf | apply copy_op_size_ok; assumption]. Qed.

Lemma ok_comp_inv r ns : ok (OComp r ns) -> wf_nodes ns /\ length ns <= max_layers /\ Forall ok (map n_op ns).
Proof.
  intros [W S]. apply wf_op_comp_inv in W as [W WF]. inversion S as [|? ? S1 SF]; subst.
  split; [exact W|]. split; [exact S1|]. apply Forall_map. rewrite Forall_forall in *. intros n Hn. split; auto.
Qed.

Lemma ok_comp r ns : wf_nodes ns -> length ns <= max_layers -> Forall ok (map n_op ns) -> ok (OComp r ns).
Proof.
  intros W L F. apply (proj1 (Forall_map n_op ok ns)) in F. rewrite Forall_forall in F. split; constructor; auto.
  - apply Forall_forall. intros n Hn. exact (proj1 (F n Hn)).
  - apply Forall_forall. intros n Hn. exact (proj2 (F n Hn)).
Qed.

Lemma ok_reps r r' ns : ok (OComp r ns) -> ok (OComp r' ns).
Proof. intros H. apply ok_comp_inv in H as (W & L & F). apply ok_comp; assumption. Qed.

Lemma small_listable ns : wf_nodes ns -> length ns <= max_layers -> listable ns.
Proof.
  intros W L. apply depth_ok_listable; [exact W|]. intros i Hi.
  pose proof (depth_lt_length (parents ns) i (proj1 W)) as H. rewrite parents_length in H. specialize (H Hi). lia.
Qed.

Lemma bfs_length_le ps : wf_parents ps -> length (bfs ps) <= length ps.
Proof. apply bfs_fuel_length_le. Qed.

Lemma copy_nodes_length env ns : wf_nodes ns -> length (copy_nodes env ns) <= length ns.
Proof.
  intros [W _]. rewrite <- (map_length n_op (copy_nodes env ns)), copy_nodes_ops.
  etransitivity; [apply listed_length|]. rewrite <- (parents_length ns). apply bfs_length_le. exact W.
Qed.

Lemma extend_length env ns other : wf_nodes other -> length (extend env ns other) <= length ns + length other.
Proof.
  intros [W _]. rewrite <- (map_length n_op (extend env ns other)), extend_ops, app_length, map_length.
  pose proof (listed_length n_op other (bfs (parents other))) as H.
  pose proof (bfs_length_le _ W) as H'. rewrite parents_length in H'. lia.
Qed.

(* ------------------------------------------------------------------ repeat: n-1 copies of the copy are appended *)
Definition recopy (env : denv) (o : op) : op := copy_op env (copy_op env o).

Lemma iter_n_S {A} n (f : A -> A) x : iter_n (S n) f x = iter_n n f (f x).
Proof. reflexivity. Qed.

Lemma repeat_ops_iter env other X : listable other -> Permutation (map n_op other) X ->
  forall k cur, Permutation (map n_op (iter_n k (fun c => extend env c other) cur)) (map n_op cur ++ rep_app k X).
Proof.
  intros L PX k. induction k as [|k IH]; intros cur; [simpl; now rewrite app_nil_r|].
  rewrite iter_n_S, IH, (extend_ops_perm env cur other L), PX, <- app_assoc. reflexivity.
Qed.

Theorem repeat_ops_perm env ns n : wf_nodes ns -> length ns <= max_layers ->
  Permutation (map n_op (repeat_nodes env ns n))
              (map n_op ns ++ rep_app (Z.to_nat (n - 1)) (map (recopy env) (map n_op ns))).
Proof.
  intros W L. unfold repeat_nodes. apply repeat_ops_iter.
  - apply small_listable; [apply copy_nodes_wf|].
    etransitivity; [apply copy_nodes_length, copy_nodes_wf|]. etransitivity; [apply copy_nodes_length, W | exact L].
  - rewrite copy_nodes_ops_perm.
    + rewrite copy_nodes_ops_perm by (apply small_listable; assumption). rewrite map_map. reflexivity.
    + apply small_listable; [apply copy_nodes_wf|]. etransitivity; [apply copy_nodes_length, W | exact L].
Qed.

Lemma Z_to_nat_pred n : (1 <= n)%Z -> Z.to_nat n = S (Z.to_nat (n - 1)).
Proof. intros H. rewrite <- Z2Nat.inj_succ by lia. f_equal. lia. Qed.

Lemma flat_map_map {A B C} (h : A -> B) (g : B -> list C) l : flat_map g (map h l) = flat_map (fun x => g (h x)) l.
Proof. induction l as [|a l IH]; simpl; [reflexivity | now rewrite IH]. Qed.

(* ------------------------------------------------------------------ 3. a measure that copy() preserves is multiplied *)
Section Measure.
  Variable env : denv.
  Variable B : Type.
  Variable g : op -> list B.
  Hypothesis Hg : forall o, ok o -> Permutation (g (copy_op env o)) (g o).

  Lemma measure_recopy o : ok o -> Permutation (g (recopy env o)) (g o).
  Proof. intros H. unfold recopy. rewrite (Hg _ (ok_copy env o H)). apply Hg. exact H. Qed.

  Lemma measure_copy_nodes ns : wf_nodes ns -> length ns <= max_layers -> Forall ok (map n_op ns) ->
    Permutation (flat_map g (map n_op (copy_nodes env ns))) (flat_map g (map n_op ns)).
  Proof.
    intros W L F. rewrite (copy_nodes_ops_perm env ns (small_listable ns W L)), flat_map_map.
    apply Permutation_flat_map_pointwise. eapply Forall_impl; [|exact F]. exact Hg.
  Qed.

  Lemma measure_extend ns other : listable other ->
    Permutation (flat_map g (map n_op (extend env ns other))) (flat_map g (map n_op ns) ++ flat_map g (map n_op other)).
  Proof. intros L. rewrite (extend_ops_perm env ns other L), flat_map_app. reflexivity. Qed.

  Theorem measure_repeat ns n : wf_nodes ns -> length ns <= max_layers -> Forall ok (map n_op ns) -> (1 <= n)%Z ->
    Permutation (flat_map g (map n_op (repeat_nodes env ns n))) (rep_app (Z.to_nat n) (flat_map g (map n_op ns))).
  Proof.
    intros W L F Hn. rewrite (repeat_ops_perm env ns n W L), flat_map_app, rep_app_flat_map, (Z_to_nat_pred n Hn).
    rewrite rep_app_S. apply Permutation_app_head. apply rep_app_perm. rewrite flat_map_map.
    apply Permutation_flat_map_pointwise. eapply Forall_impl; [|exact F]. exact measure_recopy.
  Qed.
End Measure.

(* ------------------------------------------------------------------ nesting depth *)
Lemma op_depth_comp r ns : op_depth (OComp r ns) = S (list_max (map op_depth (map n_op ns))).
Proof. simpl. f_equal. induction ns as [|[p lk o'] t IH]; simpl; [reflexivity|]. now rewrite IH. Qed.

Lemma op_depth_comp_le r ns d : op_depth (OComp r ns) <= S d <-> Forall (fun o => op_depth o <= d) (map n_op ns).
Proof.
  rewrite op_depth_comp, <- Nat.succ_le_mono, list_max_le, Forall_map. reflexivity.
Qed.

Lemma op_depth_copy_le env o : op_depth (copy_op env o) <= op_depth o.
Proof.
  induction o as [l | r ns IH] using op_ind'; [simpl; lia|].
  rewrite copy_op_comp, <- copy_nodes_eq. rewrite (op_depth_comp r ns). apply op_depth_comp_le.
  apply Forall_forall. intros o Ho. apply copy_nodes_ops_In in Ho as (n & Hn & ->).
  rewrite Forall_forall in IH. etransitivity; [apply IH; exact Hn|].
  assert (F : Forall (fun k => k <= list_max (map op_depth (map n_op ns))) (map op_depth (map n_op ns))) by (apply list_max_le; lia).
  rewrite Forall_forall in F. apply F. apply in_map, in_map. exact Hn.
Qed.

Lemma repeat_depth_le env r r' ns n d : op_depth (OComp r ns) <= S d -> op_depth (OComp r' (repeat_nodes env ns n)) <= S d.
Proof.
  rewrite !op_depth_comp_le. apply repeat_ops_Forall. intros o H. etransitivity; [apply op_depth_copy_le | exact H].
Qed.

(* ------------------------------------------------------------------ counts are kept by copy / extend / repeat *)
Lemma reps_pos_comp_inv r ns : reps_pos (OComp r ns) -> (1 <= r)%Z /\ Forall reps_pos (map n_op ns).
Proof. intros H. inversion H; subst. split; [assumption | apply Forall_map; assumption]. Qed.

Lemma reps_pos_comp r ns : (1 <= r)%Z -> Forall reps_pos (map n_op ns) -> reps_pos (OComp r ns).
Proof. intros H F. constructor; [exact H | apply (proj1 (Forall_map n_op reps_pos ns)); exact F]. Qed.

Lemma reps_pos_copy env o : reps_pos o -> reps_pos (copy_op env o).
Proof.
  induction o as [l | r ns IH] using op_ind'; intros H; [constructor|].
  apply reps_pos_comp_inv in H as [Hr F]. rewrite copy_op_comp, <- copy_nodes_eq. apply reps_pos_comp; [exact Hr|].
  apply Forall_forall. intros o Ho. apply copy_nodes_ops_In in Ho as (n & Hn & ->).
  rewrite Forall_forall in IH, F. apply IH; [exact Hn|]. apply F. apply in_map. exact Hn.
Qed.

Lemma counts_one_comp_inv r ns : counts_one (OComp r ns) -> r = 1%Z /\ Forall counts_one (map n_op ns).
Proof. intros H. inversion H; subst. split; [reflexivity | apply Forall_map; assumption]. Qed.

Lemma counts_one_comp ns : Forall counts_one (map n_op ns) -> counts_one (OComp 1%Z ns).
Proof. intros F. constructor. apply (proj1 (Forall_map n_op counts_one ns)); exact F. Qed.

Lemma counts_one_reps_pos o : counts_one o -> reps_pos o.
Proof.
  induction o as [l | r ns IH] using op_ind'; intros H; [constructor|].
  apply counts_one_comp_inv in H as [-> F]. apply reps_pos_comp; [lia|].
  apply Forall_map. apply (proj1 (Forall_map n_op counts_one ns)) in F. rewrite Forall_forall in *. intros n Hn. apply IH; auto.
Qed.

(* with all counts 1 nothing is repeated: expanded = leaves_of *)
Lemma counts_one_expanded o : counts_one o -> expanded o = leaves_of o.
Proof.
  induction o as [l | r ns IH] using op_ind'; intros H; [reflexivity|].
  apply counts_one_comp_inv in H as [-> F]. rewrite expanded_comp, all_leaves_ops. change (Z.to_nat 1) with 1. rewrite rep_app_one.
  apply (proj1 (Forall_map n_op counts_one ns)) in F.
  induction ns as [|n t IHt]; simpl; [reflexivity|].
  inversion IH as [|? ? H1 H2]; subst. inversion F as [|? ? F1 F2]; subst. rewrite (H1 F1), (IHt H2 F2). reflexivity.
Qed.

(* ------------------------------------------------------------------ 1. copy keeps the leaves / the expanded leaves *)
Section Leaves.
  Variable env : denv.
  (* an observation of leaves that the per-class copy() keeps: the label (always), the whole leaf (for faithful classes) *)
  Variable B : Type.
  Variable f : leaf -> B.
  Hypothesis Hf : forall l, f (copy_leaf l) = f l.

  Definition fleaves (o : op) : list B := map f (leaves_of o).
  Definition fexpanded (o : op) : list B := map f (expanded o).

  Lemma map_f_copy ls : map f (map copy_leaf ls) = map f ls.
  Proof. rewrite map_map. apply map_ext. exact Hf. Qed.

  Theorem copy_fleaves o : ok o -> Permutation (fleaves (copy_op env o)) (fleaves o).
  Proof.
    intros H. unfold fleaves. rewrite (copy_op_leaves_perm env o (ok_listable_op o H)). now rewrite map_f_copy.
  Qed.

  Lemma fleaves_comp r ns : fleaves (OComp r ns) = flat_map fleaves (map n_op ns).
  Proof. unfold fleaves. rewrite all_leaves_ops, C02.Proofs.map_flat_map. reflexivity. Qed.

  Lemma fexpanded_comp r ns : fexpanded (OComp r ns) = rep_app (Z.to_nat r) (flat_map fexpanded (map n_op ns)).
  Proof. unfold fexpanded. rewrite expanded_comp, rep_app_map, C02.Proofs.map_flat_map. reflexivity. Qed.

  Theorem copy_fexpanded o : ok o -> Permutation (fexpanded (copy_op env o)) (fexpanded o).
  Proof.
    induction o as [l | r ns IH] using op_ind'; intros H.
    - unfold fexpanded. simpl. now rewrite Hf.
    - apply ok_comp_inv in H as (W & L & F). rewrite copy_op_comp, <- copy_nodes_eq, !fexpanded_comp.
      apply rep_app_perm. rewrite (copy_nodes_ops_perm env ns (small_listable ns W L)), flat_map_map.
      apply Permutation_flat_map_pointwise. apply Forall_map. apply (proj1 (Forall_map n_op ok ns)) in F.
      rewrite Forall_forall in *. intros n Hn. apply IH; auto.
  Qed.

  (* 2. extend: the leaves of `other` are added to those of `ns`, each once *)
  Theorem extend_fleaves r ns other : listable other ->
    Permutation (fleaves (OComp r (extend env ns other))) (fleaves (OComp r ns) ++ fleaves (OComp r other)).
  Proof. intros L. rewrite !fleaves_comp. apply measure_extend. exact L. Qed.

  (* 3. repeat: n copies *)
  Theorem repeat_fleaves r ns n : ok (OComp r ns) -> (1 <= n)%Z ->
    Permutation (fleaves (OComp r (repeat_nodes env ns n))) (rep_app (Z.to_nat n) (fleaves (OComp r ns))).
  Proof.
    intros H Hn. apply ok_comp_inv in H as (W & L & F). rewrite !fleaves_comp.
    apply (measure_repeat env B fleaves copy_fleaves); assumption.
  Qed.

  Theorem repeat_fexpanded ns n : wf_nodes ns -> length ns <= max_layers -> Forall ok (map n_op ns) -> (1 <= n)%Z ->
    Permutation (flat_map fexpanded (map n_op (repeat_nodes env ns n))) (rep_app (Z.to_nat n) (flat_map fexpanded (map n_op ns))).
  Proof. apply (measure_repeat env B fexpanded copy_fexpanded). Qed.

  (* ---------------------------------------------------------------- 4. unrolling *)
  Definition unroll_op (fuel : nat) (o : op) : op :=
    match o with OComp r sub => OComp 1%Z (apply_mods_fuel fuel env r sub) | OLeaf _ => o end.
  Definition unroll_node (fuel : nat) (n : node) : node :=
    match n with Node p l (OComp r sub) => Node p l (OComp 1%Z (apply_mods_fuel fuel env r sub)) | _ => n end.

  Lemma apply_mods_fuel_S fuel reps ns :
    apply_mods_fuel (S fuel) env reps ns = map (unroll_node fuel) (repeat_nodes env ns reps).
  Proof. reflexivity. Qed.

  Lemma unroll_node_op fuel n : n_op (unroll_node fuel n) = unroll_op fuel (n_op n).
  Proof. destruct n as [p l [lf | r sub]]; reflexivity. Qed.

  Lemma apply_mods_fuel_ops fuel reps ns :
    map n_op (apply_mods_fuel (S fuel) env reps ns) = map (unroll_op fuel) (map n_op (repeat_nodes env ns reps)).
  Proof. rewrite apply_mods_fuel_S, !map_map. apply map_ext. apply unroll_node_op. Qed.

  Theorem unroll_fuel_multiset : forall fuel reps ns,
    op_depth (OComp reps ns) <= fuel -> ok (OComp reps ns) -> reps_pos (OComp reps ns) ->
    Permutation (fleaves (OComp 1%Z (apply_mods_fuel fuel env reps ns))) (fexpanded (OComp reps ns)).
  Proof.
    induction fuel as [|fuel IH]; intros reps ns D K R; [rewrite op_depth_comp in D; lia|].
    apply ok_comp_inv in K as (W & L & F). apply reps_pos_comp_inv in R as [Hr RF].
    rewrite fleaves_comp, apply_mods_fuel_ops, flat_map_map, fexpanded_comp.
    rewrite <- (repeat_fexpanded ns reps W L F Hr).
    apply Permutation_flat_map_pointwise.
    assert (F1 : Forall ok (map n_op (repeat_nodes env ns reps))) by (apply repeat_ops_Forall; [apply ok_copy | exact F]).
    assert (F2 : Forall reps_pos (map n_op (repeat_nodes env ns reps))) by (apply repeat_ops_Forall; [apply reps_pos_copy | exact RF]).
    assert (F3 : Forall (fun o => op_depth o <= fuel) (map n_op (repeat_nodes env ns reps))).
    { apply (op_depth_comp_le 1%Z). apply (repeat_depth_le env reps). exact D. }
    rewrite Forall_forall in *. intros o Ho. specialize (F1 o Ho). specialize (F2 o Ho). specialize (F3 o Ho).
    destruct o as [l | r sub]; [apply Permutation_refl|]. apply IH; assumption.
  Qed.

  Theorem unroll_fmultiset reps ns : ok (OComp reps ns) -> reps_pos (OComp reps ns) ->
    Permutation (fleaves (OComp 1%Z (apply_modifiers env reps ns))) (fexpanded (OComp reps ns)).
  Proof. intros K R. apply unroll_fuel_multiset; [apply Nat.le_refl | exact K | exact R]. Qed.
End Leaves.

(* ------------------------------------------------------------------ 5. every count is 1 afterwards (no hypothesis) *)
Theorem unroll_fuel_counts_one env : forall fuel reps ns,
  op_depth (OComp reps ns) <= fuel -> counts_one (OComp 1%Z (apply_mods_fuel fuel env reps ns)).
Proof.
  induction fuel as [|fuel IH]; intros reps ns D; [rewrite op_depth_comp in D; lia|].
  apply counts_one_comp. rewrite apply_mods_fuel_ops. apply Forall_map.
  assert (F3 : Forall (fun o => op_depth o <= fuel) (map n_op (repeat_nodes env ns reps))).
  { apply (op_depth_comp_le 1%Z). apply (repeat_depth_le env reps). exact D. }
  eapply Forall_impl; [|exact F3]. intros [l | r sub] Ho; [constructor|]. apply IH. exact Ho.
Qed.

Theorem unroll_counts_one env reps ns : counts_one (OComp 1%Z (apply_modifiers env reps ns)).
Proof. apply unroll_fuel_counts_one. apply Nat.le_refl. Qed.

(* ------------------------------------------------------------------ 6. idempotence *)
Lemma repeat_nodes_1 env ns : repeat_nodes env ns 1 = ns.
Proof. reflexivity. Qed.

Lemma map_id_on {A} (h : A -> A) l : Forall (fun x => h x = x) l -> map h l = l.
Proof. induction 1 as [|a l H _ IH]; simpl; [reflexivity | now rewrite H, IH]. Qed.

(* whatever the fuel *)
Theorem unroll_fuel_id env : forall fuel ns, counts_one (OComp 1%Z ns) -> apply_mods_fuel fuel env 1 ns = ns.
Proof.
  induction fuel as [|fuel IH]; intros ns H; [reflexivity|].
  rewrite apply_mods_fuel_S, repeat_nodes_1. apply map_id_on.
  apply counts_one_comp_inv in H as [_ F]. apply (proj1 (Forall_map n_op counts_one ns)) in F.
  eapply Forall_impl; [|exact F]. intros [p l [lf | r sub]] Hn; [reflexivity|]. simpl in Hn.
  apply counts_one_comp_inv in Hn as [-> Hs]. simpl. rewrite IH; [reflexivity | apply counts_one_comp; exact Hs].
Qed.

Theorem unroll_id env ns : counts_one (OComp 1%Z ns) -> apply_modifiers env 1 ns = ns.
Proof. apply unroll_fuel_id. Qed.

Theorem unroll_idem env reps ns : apply_modifiers env 1 (apply_modifiers env reps ns) = apply_modifiers env reps ns.
Proof. apply unroll_id. apply unroll_counts_one. Qed.

(* ------------------------------------------------------------------ size after unrolling *)
(* every block, times its count, has at most 4999 entries; counts >= 1.  Sufficient for the unrolled circuit (and every
   graph met on the way) to be listed completely. *)
Inductive rsize_ok : op -> Prop :=
| rs_leaf l : rsize_ok (OLeaf l)
| rs_comp r ns : (1 <= r)%Z -> (Z.of_nat (length ns) * r <= 4999)%Z -> Forall (fun n => rsize_ok (n_op n)) ns -> rsize_ok (OComp r ns).

Lemma rsize_ok_comp_inv r ns : rsize_ok (OComp r ns) ->
  (1 <= r)%Z /\ (Z.of_nat (length ns) * r <= 4999)%Z /\ Forall rsize_ok (map n_op ns).
Proof. intros H. inversion H; subst. repeat split; try assumption. apply Forall_map. assumption. Qed.

Lemma rsize_ok_size_ok o : rsize_ok o -> size_ok o.
Proof.
  induction o as [l | r ns IH] using op_ind'; intros H; [constructor|].
  apply rsize_ok_comp_inv in H as (Hr & Hl & F). constructor.
  - apply max_layers_bound. nia.
  - apply (proj1 (Forall_map n_op rsize_ok ns)) in F. rewrite Forall_forall in *. intros n Hn. apply IH; auto.
Qed.

Lemma rsize_ok_reps_pos o : rsize_ok o -> reps_pos o.
Proof.
  induction o as [l | r ns IH] using op_ind'; intros H; [constructor|].
  apply rsize_ok_comp_inv in H as (Hr & Hl & F). constructor; [exact Hr|].
  apply (proj1 (Forall_map n_op rsize_ok ns)) in F. rewrite Forall_forall in *. intros n Hn. apply IH; auto.
Qed.

Lemma rsize_ok_copy env o : wf_op o -> rsize_ok o -> rsize_ok (copy_op env o).
Proof.
  induction o as [l | r ns IH] using op_ind'; intros W H; [constructor|].
  apply rsize_ok_comp_inv in H as (Hr & Hl & F). apply wf_op_comp_inv in W as [W WF].
  rewrite copy_op_comp, <- copy_nodes_eq. constructor; [exact Hr | |].
  - pose proof (copy_nodes_length env ns W). nia.
  - apply (proj1 (Forall_map n_op rsize_ok _)). apply Forall_forall. intros o Ho.
    apply copy_nodes_ops_In in Ho as (n & Hn & ->). rewrite Forall_forall in IH, F, WF.
    apply IH; [exact Hn | apply WF; exact Hn | apply F; apply in_map; exact Hn].
Qed.

Lemma iter_extend_length env C : wf_nodes C -> forall k cur,
  length (iter_n k (fun c => extend env c C) cur) <= length cur + k * length C.
Proof.
  intros W k. induction k as [|k IH]; intros cur; [simpl; lia|].
  rewrite iter_n_S. etransitivity; [apply IH|]. pose proof (extend_length env cur C W). simpl. lia.
Qed.

Lemma repeat_length env ns n : wf_nodes ns -> (1 <= n)%Z -> length (repeat_nodes env ns n) <= Z.to_nat n * length ns.
Proof.
  intros W Hn. unfold repeat_nodes. etransitivity; [apply iter_extend_length, copy_nodes_wf|].
  pose proof (copy_nodes_length env (copy_nodes env ns) (copy_nodes_wf env ns)).
  pose proof (copy_nodes_length env ns W). rewrite (Z_to_nat_pred n Hn). nia.
Qed.

Theorem unroll_fuel_size_ok env : forall fuel r ns, wf_op (OComp r ns) -> rsize_ok (OComp r ns) ->
  size_ok (OComp 1%Z (apply_mods_fuel fuel env r ns)).
Proof.
  induction fuel as [|fuel IH]; intros r ns W H.
  - simpl. apply rsize_ok_size_ok in H. inversion H; subst. constructor; assumption.
  - pose proof H as H'. apply rsize_ok_comp_inv in H as (Hr & Hl & F). pose proof W as W'. apply wf_op_comp_inv in W as [W WF].
    apply size_ok_ops.
    + rewrite apply_mods_fuel_S, map_length. etransitivity; [apply repeat_length; assumption|].
      apply max_layers_bound. nia.
    + rewrite apply_mods_fuel_ops. apply Forall_map.
      assert (F1 : Forall (fun o => wf_op o /\ rsize_ok o) (map n_op (repeat_nodes env ns r))).
      { apply repeat_ops_Forall.
        - intros o [Wo Ro]. split; [apply copy_op_wf | apply rsize_ok_copy; assumption].
        - apply Forall_map. apply (proj1 (Forall_map n_op rsize_ok ns)) in F. rewrite Forall_forall in *. intros n Hn. split; auto. }
      eapply Forall_impl; [|exact F1]. intros [l | r' sub] [Wo Ro]; [constructor|]. apply IH; assumption.
Qed.

Corollary unroll_size_ok env r ns : wf_op (OComp r ns) -> rsize_ok (OComp r ns) -> size_ok (OComp 1%Z (apply_modifiers env r ns)).
Proof. apply unroll_fuel_size_ok. Qed.

(* hence the unrolled circuit is listed completely, at every level *)
Corollary unroll_listable env r ns : wf_op (OComp r ns) -> rsize_ok (OComp r ns) ->
  listable_op (OComp 1%Z (apply_modifiers env r ns)).
Proof.
  intros W H. apply ok_listable_op. split; [|apply unroll_size_ok; assumption].
  apply (TimesWf.apply_modifiers_wf_op env r 1%Z ns W).
Qed.

(* ------------------------------------------------------------------ the statements on leaves themselves *)
(* under Hcopy: the per-class copy() keeps every field of a leaf (C02: table_faithful, checked against the generated table) *)
Section WholeLeaves.
  Variable env : denv.
  Hypothesis Hcopy : forall l, copy_leaf l = l.

  Theorem copy_leaves o : ok o -> Permutation (leaves_of (copy_op env o)) (leaves_of o).
  Proof. intros H. pose proof (copy_fleaves env leaf (fun l => l) Hcopy o H) as P. unfold fleaves in P. now rewrite !map_id in P. Qed.

  Theorem extend_leaves r ns other : listable other ->
    Permutation (leaves_of (OComp r (extend env ns other))) (leaves_of (OComp r ns) ++ leaves_of (OComp r other)).
  Proof. intros L. pose proof (extend_fleaves env leaf (fun l => l) r ns other L) as P. unfold fleaves in P. now rewrite !map_id in P. Qed.

  Theorem repeat_leaves r ns n : ok (OComp r ns) -> (1 <= n)%Z ->
    Permutation (leaves_of (OComp r (repeat_nodes env ns n))) (rep_app (Z.to_nat n) (leaves_of (OComp r ns))).
  Proof.
    intros H Hn. pose proof (repeat_fleaves env leaf (fun l => l) Hcopy r ns n H Hn) as P. unfold fleaves in P. now rewrite !map_id in P.
  Qed.

  Theorem unroll_multiset r ns : ok (OComp r ns) -> reps_pos (OComp r ns) ->
    Permutation (leaves_of (OComp 1%Z (apply_modifiers env r ns))) (expanded (OComp r ns)).
  Proof.
    intros H R. pose proof (unroll_fmultiset env leaf (fun l => l) Hcopy r ns H R) as P. unfold fleaves, fexpanded in P.
    now rewrite !map_id in P.
  Qed.
End WholeLeaves.
