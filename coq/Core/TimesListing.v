(* Consequences of Core/TimesProofs.v for the decomposed listing (Core.Model.listing_op): the entries of a nested block are
   its stand-alone entries shifted by the block's start.  Depends on Core.Model and Core.TimesProofs only. *)
From Coq Require Import ZArith List Bool Lia ZifyBool Arith.
Import ListNotations.
From QCE Require Import Base.Prelude Core.Model Core.TimesProofs.
From Gen Require Import Ident Classes.
Open Scope Z_scope.

(* ------------------------------------------------------------------ induction over the nested type op/node *)
Section OpNodesInd.
  Variable P : op -> Prop.
  Hypothesis Hleaf : forall l, P (OLeaf l).
  Hypothesis Hcomp : forall r ns, Forall (fun n => P (n_op n)) ns -> P (OComp r ns).
  Fixpoint op_nodes_ind (o : op) : P o :=
    match o with
    | OLeaf l => Hleaf l
    | OComp r ns =>
        Hcomp r ns ((fix go (l : list node) : Forall (fun n => P (n_op n)) l :=
                       match l with
                       | [] => Forall_nil _
                       | n :: t => Forall_cons n (match n as n0 return P (n_op n0) with Node _ _ o' => op_nodes_ind o' end) (go t)
                       end) ns)
    end.
End OpNodesInd.

(* ------------------------------------------------------------------ the model's inner fixpoints are maps *)
Lemma listing_op_unfold env r ns c se :
  listing_op env (OComp r ns) c se =
  flat_map (fun i => nth i (map (fun n => listing_op env (n_op n)) ns) (fun _ _ => [])
                       (sub_ctx c (node_times env c ns) (nth i (map n_link ns) LNone)) (nth i (node_times env c ns) (0, 0)))
           (bfs (parents ns)).
Proof.
  simpl. apply flat_map_ext. intros i. f_equal.
  assert (E : forall l, (fix go (l : list node) : list (ctx -> Z * Z -> list entry) :=
                 match l with [] => [] | Node _ _ o' :: t => listing_op env o' :: go t end) l
              = map (fun n => listing_op env (n_op n)) l).
  { induction l as [|[p lk o'] t IH]; simpl; [reflexivity|]. f_equal. exact IH. }
  rewrite E. reflexivity.
Qed.

(* the listing of a block does not look at the (start, end) it is handed *)
Lemma listing_op_comp_se env r ns c se se' : listing_op env (OComp r ns) c se = listing_op env (OComp r ns) c se'.
Proof. reflexivity. Qed.

Lemma ext_of_unfold env r ns :
  ext_of env (OComp r ns) =
  extent_of_nodes (parents ns) (node_times env None ns) (map (fun n => ext_of env (n_op n)) ns).
Proof.
  simpl.
  assert (E : forall l, (fix go (l : list node) : list (Z * Z) :=
                 match l with [] => [] | Node _ _ o' :: t => ext_of env o' :: go t end) l
              = map (fun n => ext_of env (n_op n)) l).
  { induction l as [|[p lk o'] t IH]; simpl; [reflexivity|]. f_equal. exact IH. }
  rewrite E. unfold node_times. rewrite map_map. do 3 f_equal.
  apply map_ext. intros n. unfold dur_of. destruct (ext_of env (n_op n)); reflexivity.
Qed.

(* ------------------------------------------------------------------ well-formed links of node lists, deep version *)
Definition wf_node_links (ns : list node) : Prop :=
  forall i n, nth_error ns i = Some n -> link_below (n_link n) i.

Inductive wf_links_op : op -> Prop :=
| wfl_leaf l : wf_links_op (OLeaf l)
| wfl_comp r ns : wf_node_links ns -> Forall (fun n => wf_links_op (n_op n)) ns -> wf_links_op (OComp r ns).

Lemma wf_links_op_inv r ns : wf_links_op (OComp r ns) -> wf_node_links ns /\ Forall (fun n => wf_links_op (n_op n)) ns.
Proof. intros H. inversion H; subst. split; assumption. Qed.

Lemma nth_error_combine {A B} (a : list A) (b : list B) : forall i x y,
  nth_error (combine a b) i = Some (x, y) -> nth_error a i = Some x /\ nth_error b i = Some y.
Proof.
  revert b; induction a as [|x0 a IH]; intros [|y0 b] [|i] x y E; simpl in *; try discriminate.
  - inversion E; subst. auto.
  - apply IH. exact E.
Qed.

Lemma nth_error_combine_some {A B} (a : list A) (b : list B) : forall i x y,
  nth_error a i = Some x -> nth_error b i = Some y -> nth_error (combine a b) i = Some (x, y).
Proof.
  revert b; induction a as [|x0 a IH]; intros [|y0 b] [|i] x y E1 E2; simpl in *; try discriminate.
  - inversion E1; inversion E2; subst. reflexivity.
  - apply IH; assumption.
Qed.

Lemma wf_node_links_combine ns ds : wf_node_links ns -> wf_links (combine (map n_link ns) ds).
Proof.
  intros W i l d E. apply nth_error_combine in E as [E _]. rewrite nth_error_map in E.
  destruct (nth_error ns i) as [n|] eqn:En; simpl in E; [|discriminate]. inversion E; subst. exact (W _ _ En).
Qed.

Definition node_hs (env : denv) (ns : list node) : list (link * Z) :=
  combine (map n_link ns) (map (fun n => dur_of env (n_op n)) ns).

Lemma node_times_eq env c ns : node_times env c ns = times c (node_hs env ns).
Proof. reflexivity. Qed.

Lemma node_hs_length env ns : length (node_hs env ns) = length ns.
Proof. unfold node_hs. rewrite combine_length, !map_length. lia. Qed.

Lemma node_hs_nth env ns i n : nth_error ns i = Some n -> nth_error (node_hs env ns) i = Some (n_link n, dur_of env (n_op n)).
Proof.
  intros E. apply nth_error_combine_some; rewrite nth_error_map, E; reflexivity.
Qed.

Lemma node_hs_nth_inv env ns i l d : nth_error (node_hs env ns) i = Some (l, d) ->
  exists n, nth_error ns i = Some n /\ l = n_link n /\ d = dur_of env (n_op n).
Proof.
  intros E. apply nth_error_combine in E as [E1 E2]. rewrite nth_error_map in E1, E2.
  destruct (nth_error ns i) as [n|]; simpl in *; [|discriminate]. exists n. inversion E1; inversion E2; auto.
Qed.

Lemma combine_app_eq {A B} (a a' : list A) (b b' : list B) : length a = length b ->
  combine (a ++ a') (b ++ b') = combine a b ++ combine a' b'.
Proof.
  revert b; induction a as [|x a IH]; intros [|y b] L; simpl in *; try discriminate; [reflexivity|].
  f_equal. apply IH. now inversion L.
Qed.

Lemma node_hs_app env ns ms : node_hs env (ns ++ ms) = node_hs env ns ++ node_hs env ms.
Proof. unfold node_hs. rewrite !map_app. apply combine_app_eq. now rewrite !map_length. Qed.

Lemma wf_node_links_hs env ns : wf_node_links ns -> wf_links (node_hs env ns).
Proof. apply wf_node_links_combine. Qed.

Lemma node_times_length env c ns : length (node_times env c ns) = length ns.
Proof. rewrite node_times_eq, times_length. apply node_hs_length. Qed.

(* ------------------------------------------------------------------ 5. listing under a change of context *)
Definition eshift (T : Z) (e : entry) : entry :=
  {| e_leaf := e_leaf e; e_start := e_start e + T; e_end := e_end e + T |}.

Lemma map_flat_map {A B C} (f : B -> C) (g : A -> list B) (l : list A) :
  map f (flat_map g l) = flat_map (fun x => map f (g x)) l.
Proof. induction l as [|x l IH]; simpl; [reflexivity|]. now rewrite map_app, IH. Qed.

Lemma sub_ctx_shift c c' T tm l : ctx_shift c c' T -> link_below l (length tm) ->
  ctx_shift (sub_ctx c (map (shift T) tm) l) (sub_ctx c' tm l) T.
Proof.
  intros C B. destruct l as [|t p|ps|t]; simpl in *; try exact C.
  - rewrite nth_map_shift by exact B. destruct (nth p tm (0, 0)) as [rs re]. unfold shift; simpl.
    intros d. simpl. apply start_from_shift.
  - rewrite multi_ref_shift by exact B. destruct (multi_ref tm ps) as [m|] eqn:E; [|exact C].
    apply multi_ref_In in E. rewrite Forall_forall in B. rewrite nth_map_shift by (apply B; exact E).
    destruct (nth m tm (0, 0)) as [rs re]. unfold shift; simpl. intros d. simpl. lia.
Qed.

Theorem listing_shift_gen env o : wf_links_op o -> forall c c' T se, ctx_shift c c' T ->
  listing_op env o c (shift T se) = map (eshift T) (listing_op env o c' se).
Proof.
  induction o as [l | r ns IH] using op_nodes_ind; intros W c c' T se C.
  - reflexivity.
  - apply wf_links_op_inv in W as [W WD]. rewrite !listing_op_unfold, map_flat_map. apply flat_map_ext. intros i.
    destruct (nth_error ns i) as [n|] eqn:En.
    + assert (Hi : (i < length ns)%nat) by (apply nth_error_Some; congruence).
      rewrite (nth_indep _ (fun _ _ => []) (listing_op env (n_op n))) by (rewrite map_length; exact Hi).
      rewrite (map_nth (fun n => listing_op env (n_op n)) ns n i).
      rewrite (nth_indep (map n_link ns) LNone (n_link n)) by (rewrite map_length; exact Hi).
      rewrite (map_nth n_link ns n i). rewrite (nth_error_nth _ _ n En).
      rewrite !node_times_eq, (times_shift_gen c c' T _ C (wf_node_links_hs env ns W)).
      rewrite nth_map_shift by (rewrite times_length, node_hs_length; exact Hi).
      rewrite Forall_forall in IH, WD. apply nth_error_In in En as Hin.
      apply (IH n Hin (WD n Hin)). apply sub_ctx_shift; [exact C|].
      apply (link_below_mono _ i); [rewrite times_length, node_hs_length; lia | exact (W _ _ En)].
    + apply nth_error_None in En. rewrite !(nth_overflow (map _ ns)) by (rewrite map_length; exact En). reflexivity.
Qed.

(* FOLLOWED_BY / JOINED_START / inherited-plain context: stand-alone entries shifted by the instant the context designates *)
Theorem listing_shift env o c se : wf_links_op o -> ctx_plain c ->
  listing_op env o c (shift (ctx_start c 0) se) = map (eshift (ctx_start c 0)) (listing_op env o None se).
Proof. intros W P. apply listing_shift_gen; [exact W | apply ctx_plain_shift; exact P]. Qed.

Corollary listing_shift_comp env r ns c se se' : wf_links_op (OComp r ns) -> ctx_plain c ->
  listing_op env (OComp r ns) c se = map (eshift (ctx_start c 0)) (listing_op env (OComp r ns) None se').
Proof.
  intros W P. rewrite (listing_op_comp_se env r ns c se (shift (ctx_start c 0) se')). apply listing_shift; assumption.
Qed.

(* links a block may carry so that its un-related first operations start at the block's own start *)
Definition block_link_ok (l : link) : Prop :=
  match l with LRel RelationType_JOINED_END _ => False | _ => True end.

Lemma sub_ctx_plain_start c tm l d : ctx_plain c -> block_link_ok l ->
  ctx_plain (sub_ctx c tm l) /\ ctx_start (sub_ctx c tm l) 0 = link_start c tm l d.
Proof.
  intros P B. destruct l as [|t p|ps|t]; simpl in *.
  - split; [exact P | symmetry; apply ctx_plain_const; exact P].
  - destruct (nth p tm (0, 0)) as [rs re]. destruct t; simpl; auto; contradiction.
  - destruct (multi_ref tm ps) as [m|].
    + destruct (nth m tm (0, 0)) as [rs re]. simpl. auto.
    + split; [exact P | symmetry; apply ctx_plain_const; exact P].
  - split; [exact P | symmetry; apply ctx_plain_const; exact P].
Qed.

(* the start recorded for node i in the table of its graph *)
Lemma node_times_start env c ns i n : wf_node_links ns -> nth_error ns i = Some n ->
  nth i (node_times env c ns) (0, 0) =
    (link_start c (node_times env c ns) (n_link n) (dur_of env (n_op n)),
     link_start c (node_times env c ns) (n_link n) (dur_of env (n_op n)) + dur_of env (n_op n)).
Proof.
  intros W E. rewrite node_times_eq. apply times_sound; [apply wf_node_links_hs; exact W | apply node_hs_nth; exact E].
Qed.

(* a block inside a graph: what it lists = its stand-alone listing shifted by its start in the graph's table *)
Theorem listing_block_shift env c ns i n r sub se : wf_node_links ns -> ctx_plain c ->
  nth_error ns i = Some n -> n_op n = OComp r sub -> wf_links_op (OComp r sub) -> block_link_ok (n_link n) ->
  let tm := node_times env c ns in
  listing_op env (OComp r sub) (sub_ctx c tm (n_link n)) (nth i tm (0, 0))
  = map (eshift (fst (nth i tm (0, 0)))) (listing_op env (OComp r sub) None se).
Proof.
  intros W P E Eo Wsub B tm.
  destruct (sub_ctx_plain_start c tm (n_link n) (dur_of env (n_op n)) P B) as [P' ET].
  unfold tm at 3. rewrite (node_times_start env c ns i n W E). simpl fst. fold tm. rewrite <- ET.
  apply listing_shift_comp; assumption.
Qed.
