(* extend / repeat (Core.Model): the appended block reappears shifted to the latest end over the relation leaves, and the
   duration of a repeated flat block whose last-ending operation is a relation leaf is n times the duration of the block.
   Builds on Core/TimesProofs.v, TimesListing.v, TimesWf.v, CopyOrder.v, UnrollProofs.v, UnrollTimes.v, UnrollOrder.v. *)
From Coq Require Import ZArith List Bool Lia ZifyBool Arith Permutation.
Import ListNotations.
From QCE Require Import Base.Prelude Core.Model Core.BfsProofs Core.BfsWf Core.TimesProofs Core.TimesListing Core.TimesWf
  Core.CopyOrder C02.Proofs Core.UnrollProofs Core.UnrollTimes Core.UnrollOrder.
From Gen Require Import Ident Classes.
Local Open Scope nat_scope.

(* ------------------------------------------------------------------ the table of an extension *)
Section ExtendTimes.
  Variable env : denv.
  Variables ns other : list node.
  Hypothesis Wns : wf_op (OComp 1%Z ns).
  Hypothesis Wo : wf_nodes other.
  Hypothesis Wops : Forall (fun n => wf_op (n_op n)) other.
  Hypothesis So : simple_links other.
  Hypothesis Hne : ns <> [].
  Hypothesis Hsize : length ns + length other <= max_layers.
  Let off := length ns.
  Let B := bfs (parents other).
  Let G := graph_leaves (parents ns).
  Let R := extend env ns other.
  Let tmR := node_times env None R.
  Let tmN := node_times env None ns.
  Let tmO := node_times env None other.

  Lemma et_G_ne : G <> [].
  Proof. exact (cc_G_ne env ns other Wns Hne Hsize). Qed.

  Lemma et_G_lt : Forall (fun q => q < off) G.
  Proof. apply Forall_forall. intros q Hq. apply graph_leaves_lt in Hq. now rewrite parents_length in Hq. Qed.

  Lemma et_prefix q : q < off -> nth q tmR (0, 0)%Z = nth q tmN (0, 0)%Z.
  Proof. apply (extend_times_prefix env ns other None). Qed.

  (* the instant the block is attached at: the latest end over the relation leaves of ns *)
  Definition attach_time : Z :=
    match multi_ref tmN G with Some m => snd (nth m tmN (0, 0)%Z) | None => 0%Z end.

  Lemma attach_time_spec : (exists m, In m G /\ snd (nth m tmN (0, 0)%Z) = attach_time) /\
                           (forall q, In q G -> (snd (nth q tmN (0, 0)%Z) <= attach_time)%Z).
  Proof.
    unfold attach_time. destruct (multi_ref tmN G) as [m|] eqn:M; [|apply multi_ref_none in M; exfalso; exact (et_G_ne M)].
    apply multi_ref_spec in M. apply multi_first_latest_max in M as [Hm Hmax]. split; [exists m; split; auto | exact Hmax].
  Qed.

  Lemma et_multi_start d : link_start None tmR (LMulti G) d = attach_time.
  Proof.
    simpl. rewrite (multi_ref_agree off tmR tmN G); [| intros j Hj; apply et_prefix; exact Hj | exact et_G_lt].
    unfold attach_time. destruct (multi_ref tmN G) as [m|] eqn:M; [|apply multi_ref_none in M; exfalso; exact (et_G_ne M)].
    rewrite et_prefix; [reflexivity|]. apply TimesProofs.multi_ref_In in M. exact (proj1 (Forall_forall _ _) et_G_lt m M).
  Qed.

  (* the whole table of `other` reappears, shifted *)
  Theorem extend_times_shift k i : nth_error B k = Some i ->
    nth (off + k) tmR (0, 0)%Z = shift attach_time (nth i tmO (0, 0)%Z).
  Proof.
    revert i. induction k as [k IH] using lt_wf_ind. intros i Ek.
    assert (Hi : i < length other) by (apply (cc_B_In ns other Wo Hsize); eapply nth_error_In; exact Ek).
    destruct (nth_error other i) as [n|] eqn:En; [|apply nth_error_None in En; lia].
    destruct (cc_R_node_full env ns other Wns Wo Wops So Hne Hsize k i n Ek En) as [E Hrel].
    fold off B G R in E, Hrel.
    pose proof (node_times_start env None R _ _ (wf_nodes_node_links _ (cc_R_wf env ns other Wns Wops)) E) as TR.
    pose proof (node_times_start env None other _ _ (wf_nodes_node_links _ Wo) En) as TO.
    fold tmR in TR. fold tmO in TO. cbn [n_link n_op] in TR. rewrite TR, TO. clear TR TO.
    pose proof (proj1 (Forall_forall _ _) So n (nth_error_In _ _ En)) as SL. simpl in SL.
    destruct (n_link n) as [|t q|qs|t] eqn:EL; try contradiction; cbn [ext_img_link].
    - rewrite et_multi_start. unfold shift. simpl. f_equal; lia.
    - destruct (Hrel t q eq_refl) as (_ & Hpos & Eq). cbn [link_start]. rewrite (IH _ Hpos q Eq).
      destruct (nth q tmO (0, 0)%Z) as [rs re]. unfold shift. cbn [fst snd]. rewrite start_from_shift. f_equal. lia.
  Qed.
End ExtendTimes.

(* ------------------------------------------------------------------ the duration of a flat graph *)
Definition flat (X : list node) : Prop := Forall (fun n => exists l, n_op n = OLeaf l) X.

Lemma fold_left_ext_fun {A B} (f g : A -> B -> A) l : (forall a b, f a b = g a b) -> forall a, fold_left f l a = fold_left g l a.
Proof. intros H. induction l as [|x l IH]; intros a; simpl; [reflexivity|]. now rewrite H, IH. Qed.

Lemma fold_min_const (a : nat -> Z) (b : nat -> Z) is : forall lo0 hi0, (forall i, In i is -> (lo0 <= a i)%Z) ->
  fst (fold_left (fun (acc : Z * Z) i => (Z.min (fst acc) (a i), Z.max (snd acc) (b i))) is (lo0, hi0)) = lo0.
Proof.
  induction is as [|i is IH]; intros lo0 hi0 H; simpl; [reflexivity|].
  rewrite Z.min_l by (apply H; left; reflexivity). apply IH. intros j Hj. apply H. right. exact Hj.
Qed.

Lemma fold_max_attained (a : nat -> Z) (b : nat -> Z) is T : forall lo0 hi0, (hi0 <= T)%Z ->
  (forall i, In i is -> (b i <= T)%Z) -> (hi0 = T \/ exists m, In m is /\ b m = T) ->
  snd (fold_left (fun (acc : Z * Z) i => (Z.min (fst acc) (a i), Z.max (snd acc) (b i))) is (lo0, hi0)) = T.
Proof.
  induction is as [|i is IH]; intros lo0 hi0 H0 Hb Hm; simpl.
  - destruct Hm as [E | (m & [] & _)]. exact E.
  - cbn [fst snd]. apply IH.
    + pose proof (Hb i (or_introl eq_refl)). lia.
    + intros j Hj. apply Hb. right. exact Hj.
    + pose proof (Hb i (or_introl eq_refl)). destruct Hm as [E | (m & [<- | Hm] & E)].
      * left. lia.
      * left. lia.
      * right. exists m. split; assumption.
Qed.

Lemma zmin_list_zero l : (forall x, In x l -> x = 0%Z) -> zmin_list 0 l = 0%Z.
Proof.
  destruct l as [|x t]; simpl; [reflexivity|]. intros H. rewrite (H x (or_introl eq_refl)).
  assert (F : forall y, In y t -> y = 0%Z) by (intros y Hy; apply H; right; exact Hy). clear H.
  induction t as [|y t IH]; simpl; [reflexivity|]. rewrite (F y (or_introl eq_refl)). simpl.
  apply IH. intros z Hz. apply F. right. exact Hz.
Qed.

Lemma extent_of_nodes_ne ps tm exts : ps <> [] ->
  extent_of_nodes ps tm exts =
  fold_left (fun (acc : Z * Z) (i : nat) =>
               let s := (fst (nth i tm (0, 0)) - zmin_list 0 (map (fun i => fst (nth i tm (0, 0))) (depth1 ps)))%Z in
               let '(lo, hi) := nth i exts (0, 0)%Z in
               (Z.min (fst acc) (s + lo), Z.max (snd acc) (s + hi)))
            (bfs ps) (0, 0)%Z.
Proof. destruct ps; [congruence | reflexivity]. Qed.

Section FlatDuration.
  Variable env : denv.
  Variable X : list node.
  Hypothesis WX : wf_nodes X.
  Hypothesis FX : flat X.
  Let tm := node_times env None X.

  Lemma flat_entry i n : nth_error X i = Some n ->
    nth i (map (fun n => ext_of env (n_op n)) X) (0, 0)%Z = (0%Z, dur_of env (n_op n)) /\
    snd (nth i tm (0, 0)%Z) = (fst (nth i tm (0, 0)%Z) + dur_of env (n_op n))%Z.
  Proof.
    intros E. split.
    - rewrite (nth_indep _ (0, 0)%Z (ext_of env (n_op n))) by (rewrite map_length; apply nth_error_Some; congruence).
      rewrite (map_nth (fun n => ext_of env (n_op n)) X n i), (nth_error_nth _ _ n E).
      destruct (proj1 (Forall_forall _ _) FX n (nth_error_In _ _ E)) as (l & ->). unfold dur_of. simpl. f_equal. lia.
    - unfold tm. rewrite (node_times_start env None X i n (wf_nodes_node_links _ WX) E). reflexivity.
  Qed.

  Lemma flat_root_start i : In i (depth1 (parents X)) -> fst (nth i tm (0, 0)%Z) = 0%Z.
  Proof.
    intros H. unfold depth1 in H. apply children_spec in H. rewrite parents_nth_error in H.
    destruct (nth_error X i) as [n|] eqn:E; [|discriminate]. simpl in H. inversion H as [Hp].
    unfold tm. rewrite (node_times_start env None X i n (wf_nodes_node_links _ WX) E).
    rewrite (wf_nodes_root_unrelated X i n WX E Hp). reflexivity.
  Qed.

  (* nothing starts before 0, every end is at most T, and a listed node ends at T *)
  Theorem flat_extent r T : X <> [] -> (0 <= T)%Z ->
    (forall i, i < length X -> (0 <= fst (nth i tm (0, 0)%Z))%Z) ->
    (forall i, i < length X -> (snd (nth i tm (0, 0)%Z) <= T)%Z) ->
    (exists m, In m (bfs (parents X)) /\ snd (nth m tm (0, 0)%Z) = T) ->
    ext_of env (OComp r X) = (0%Z, T).
  Proof.
    intros Hne HT Hs He (m & Hm & Em). rewrite ext_of_unfold. fold tm.
    rewrite extent_of_nodes_ne by (destruct X; [congruence | discriminate]).
    rewrite zmin_list_zero by (intros x Hx; apply in_map_iff in Hx as (i & <- & Hi); apply flat_root_start; exact Hi).
    set (exts := map (fun n => ext_of env (n_op n)) X).
    rewrite (fold_left_ext_fun _ (fun (acc : Z * Z) i => (Z.min (fst acc) (fst (nth i tm (0, 0)%Z) - 0 + fst (nth i exts (0, 0)%Z))%Z,
                                                            Z.max (snd acc) (fst (nth i tm (0, 0)%Z) - 0 + snd (nth i exts (0, 0)%Z))%Z)))
      by (intros acc i; destruct (nth i exts (0, 0)%Z); reflexivity).
    match goal with |- ?F = _ => pose proof (surjective_pairing F) as SP; set (rr := F) in * end.
    assert (L : fst rr = 0%Z).
    { apply fold_min_const. intros i Hi. apply bfs_lt_length in Hi. rewrite parents_length in Hi.
      destruct (nth_error X i) as [n|] eqn:E; [|apply nth_error_None in E; lia].
      unfold exts. rewrite (proj1 (flat_entry i n E)). cbn [fst]. specialize (Hs i Hi). lia. }
    assert (U : snd rr = T).
    { apply fold_max_attained; [exact HT | |].
      - intros i Hi. apply bfs_lt_length in Hi. rewrite parents_length in Hi.
        destruct (nth_error X i) as [n|] eqn:E; [|apply nth_error_None in E; lia].
        unfold exts. rewrite (proj1 (flat_entry i n E)). cbn [snd]. pose proof (proj2 (flat_entry i n E)). specialize (He i Hi). lia.
      - right. exists m. split; [exact Hm|]. pose proof (bfs_lt_length _ _ Hm) as Hl. rewrite parents_length in Hl.
        destruct (nth_error X m) as [n|] eqn:E; [|apply nth_error_None in E; lia].
        unfold exts. rewrite (proj1 (flat_entry m n E)). cbn [snd]. pose proof (proj2 (flat_entry m n E)). lia. }
    rewrite SP, L, U. reflexivity.
  Qed.

  Corollary flat_duration T : X <> [] -> (0 <= T)%Z ->
    (forall i, i < length X -> (0 <= fst (nth i tm (0, 0)%Z))%Z) ->
    (forall i, i < length X -> (snd (nth i tm (0, 0)%Z) <= T)%Z) ->
    (exists m, In m (bfs (parents X)) /\ snd (nth m tm (0, 0)%Z) = T) ->
    comp_duration env X = T.
  Proof.
    intros Hne HT Hs He Hm. unfold comp_duration, dur_of. rewrite (flat_extent 1%Z T Hne HT Hs He Hm). lia.
  Qed.
End FlatDuration.

(* ------------------------------------------------------------------ 8. n*T *)
(* a flat block of duration T: nothing starts before 0, every end is at most T, and some operation that ends at T is a
   relation leaf (no operation is attached below it) *)
Record blk (env : denv) (X : list node) (T : Z) : Prop := {
  blk_wf : wf_nodes X;
  blk_flat : flat X;
  blk_ne : X <> [];
  blk_T : (0 <= T)%Z;
  blk_start : forall i, i < length X -> (0 <= fst (nth i (node_times env None X) (0, 0)%Z))%Z;
  blk_end : forall i, i < length X -> (snd (nth i (node_times env None X) (0, 0)%Z) <= T)%Z;
  blk_last : exists m, m < length X /\ (forall j, nth_error (parents X) j <> Some (Some m)) /\
                       snd (nth m (node_times env None X) (0, 0)%Z) = T
}.

Lemma small_listed X m : wf_nodes X -> length X <= max_layers -> m < length X -> In m (bfs (parents X)).
Proof.
  intros W L H. apply (Permutation_in' eq_refl (small_listable X W L)). apply in_seq. lia.
Qed.

Theorem blk_duration env X T : blk env X T -> length X <= max_layers -> comp_duration env X = T.
Proof.
  intros [W F Hne HT Hs He (m & Hm & _ & Em)] L.
  apply (flat_duration env X W F T Hne HT Hs He). exists m. split; [apply small_listed; assumption | exact Em].
Qed.

Theorem blk_extent env X r T : blk env X T -> length X <= max_layers -> ext_of env (OComp r X) = (0%Z, T).
Proof.
  intros [W F Hne HT Hs He (m & Hm & _ & Em)] L.
  apply (flat_extent env X W F r T Hne HT Hs He). exists m. split; [apply small_listed; assumption | exact Em].
Qed.

Lemma flat_ops X : flat X <-> Forall (fun o => exists l, o = OLeaf l) (map n_op X).
Proof. unfold flat. rewrite Forall_map. reflexivity. Qed.

Lemma flat_wf_ops X : flat X -> Forall (fun n => wf_op (n_op n)) X.
Proof. intros F. eapply Forall_impl; [|exact F]. intros n (l & ->). constructor. Qed.

Lemma flat_wf_op X : wf_nodes X -> flat X -> wf_op (OComp 1%Z X).
Proof. intros W F. constructor; [exact W | apply flat_wf_ops; exact F]. Qed.

Theorem blk_extend env cur C Tc T : blk env cur Tc -> blk env C T -> simple_links C ->
  length cur + length C <= max_layers -> blk env (extend env cur C) (Tc + T)%Z.
Proof.
  intros [Wc Fc Nc HTc Sc Ec (mc & Hmc & Lmc & Emc)] [WC FC NC HT SC EC (mC & HmC & LmC & EmC)] Simp L.
  pose proof (flat_wf_op cur Wc Fc) as Wop. pose proof (flat_wf_ops C FC) as WCops.
  set (R := extend env cur C). set (off := length cur). set (B := bfs (parents C)).
  pose proof (cc_R_length env cur C WC L) as RL. fold R off in RL.
  pose proof (cc_B_length cur C WC L) as BL. fold B in BL.
  (* the attach time is the duration so far *)
  assert (AT : attach_time env cur = Tc).
  { destruct (attach_time_spec env cur C Wop Nc L) as ((m' & Hm' & Em') & Hmax).
    assert (Gmc : In mc (graph_leaves (parents cur))).
    { apply graph_leaves_spec. split; [|exact Lmc]. apply small_listed; [exact Wc | lia | exact Hmc]. }
    pose proof (Hmax mc Gmc) as H1. rewrite Emc in H1.
    apply graph_leaves_lt in Hm'. rewrite parents_length in Hm'. pose proof (Ec m' Hm') as H2. lia. }
  (* every entry of the table *)
  assert (TB : forall i, i < length R ->
             (i < off /\ nth i (node_times env None R) (0, 0)%Z = nth i (node_times env None cur) (0, 0)%Z) \/
             (exists k b, i = off + k /\ nth_error B k = Some b /\ b < length C /\
                          nth i (node_times env None R) (0, 0)%Z = shift Tc (nth b (node_times env None C) (0, 0)%Z))).
  { intros i Hi. destruct (Nat.lt_ge_cases i off) as [Ho | Ho].
    - left. split; [exact Ho|]. apply (extend_times_prefix env cur C None). exact Ho.
    - right. destruct (nth_error B (i - off)) as [b|] eqn:Eb; [|apply nth_error_None in Eb; lia].
      exists (i - off), b. split; [lia|]. split; [exact Eb|].
      split; [apply (cc_B_In cur C WC L); eapply nth_error_In; exact Eb|].
      rewrite <- AT. replace i with (off + (i - off)) at 1 by lia.
      apply (extend_times_shift env cur C Wop WC WCops Simp Nc L). exact Eb. }
  constructor.
  - apply cc_R_wf; assumption.
  - apply flat_ops. apply extend_ops_Forall; apply flat_ops; assumption.
  - apply extend_nonempty. exact Nc.
  - lia.
  - intros i Hi. destruct (TB i Hi) as [[Ho ->] | (k & b & -> & Eb & Hb & ->)].
    + apply Sc. exact Ho.
    + pose proof (SC b Hb). unfold shift. cbn [fst]. lia.
  - intros i Hi. destruct (TB i Hi) as [[Ho ->] | (k & b & -> & Eb & Hb & ->)].
    + pose proof (Ec i Ho). lia.
    + pose proof (EC b Hb). unfold shift. cbn [snd]. lia.
  - assert (InB : In mC B) by (apply (cc_B_In cur C WC L); exact HmC).
    pose proof (pos_lt B mC InB) as Hk. pose proof (nth_error_pos B mC InB) as Ek.
    exists (off + pos B mC). split; [lia|]. split.
    + intros j Ej. fold R in Ej. unfold R in Ej. rewrite (cc_parents env cur C Wop WC WCops Simp Nc L) in Ej.
      destruct (Nat.lt_ge_cases j off) as [Ho | Ho].
      * rewrite nth_error_app1 in Ej by (rewrite parents_length; exact Ho). apply (proj1 Wc) in Ej. unfold off in *. lia.
      * rewrite nth_error_app2 in Ej by (rewrite parents_length; exact Ho). rewrite parents_length, nth_error_map in Ej.
        unfold renum_parents in Ej. fold (bfs (parents C)) in Ej. fold B in Ej. rewrite nth_error_map in Ej.
        destruct (nth_error B (j - length cur)) as [b'|] eqn:Eb'; [|discriminate]. simpl in Ej.
        assert (Hb' : b' < length C) by (apply (cc_B_In cur C WC L); eapply nth_error_In; exact Eb').
        destruct (nth b' (parents C) None) as [q|] eqn:Eq; simpl in Ej.
        -- injection Ej as Ej. rewrite parents_length in Ej. fold off in Ej. assert (Epos : pos B mC = pos B q) by lia.
           apply (pos_inj B mC q InB) in Epos. subst q.
           apply (LmC b'). rewrite <- Eq. apply nth_error_nth'. now rewrite parents_length.
        -- injection Ej as Ej. pose proof (cc_pstar_lt env cur C Wop Nc L) as Hp. fold off in Hp. unfold off in *. lia.
    + destruct (TB (off + pos B mC)) as [[Ho _] | (k & b & Eik & Eb & Hb & ->)]; [lia | lia |].
      assert (k = pos B mC) by lia. subst k. rewrite Ek in Eb. injection Eb as <-.
      unfold shift. cbn [snd]. lia.
Qed.

Lemma blk_iter env C T : blk env C T -> simple_links C -> forall k cur Tc, blk env cur Tc ->
  length cur + k * length C <= max_layers ->
  blk env (iter_n k (fun c => extend env c C) cur) (Tc + Z.of_nat k * T)%Z.
Proof.
  intros HC Simp k. induction k as [|k IH]; intros cur Tc Hc L.
  - simpl. replace (Tc + 0)%Z with Tc by lia. exact Hc.
  - rewrite iter_n_S. replace (Tc + Z.of_nat (S k) * T)%Z with ((Tc + T) + Z.of_nat k * T)%Z by lia.
    apply IH.
    + apply blk_extend; try assumption. simpl in L. lia.
    + pose proof (extend_length env cur C (blk_wf _ _ _ HC)). simpl in L. lia.
Qed.

(* a flat block of duration T whose copy is such a block again, repeated n times, is such a block of duration n*T *)
Theorem repeat_blk env ns n T : blk env ns T -> simple_links ns -> blk env (copy_nodes env (copy_nodes env ns)) T ->
  (1 <= n)%Z -> Z.to_nat n * length ns <= max_layers ->
  blk env (repeat_nodes env ns n) (n * T)%Z /\ length (repeat_nodes env ns n) <= max_layers.
Proof.
  intros Hb Simp HC Hn L.
  pose proof (copy_nodes_length env (copy_nodes env ns) (copy_nodes_wf env ns)) as L1.
  pose proof (copy_nodes_length env ns (blk_wf _ _ _ Hb)) as L2.
  assert (LL : length ns + Z.to_nat (n - 1) * length (copy_nodes env (copy_nodes env ns)) <= max_layers).
  { rewrite (Z_to_nat_pred n Hn) in L. nia. }
  pose proof (blk_iter env _ T HC (copy_nodes_simple env _ (copy_nodes_simple env _ Simp)) (Z.to_nat (n - 1)) ns T Hb LL) as H.
  fold (repeat_nodes env ns n) in H. rewrite Z2Nat.id in H by lia.
  replace (n * T)%Z with (T + (n - 1) * T)%Z by lia. split; [exact H|].
  unfold repeat_nodes. etransitivity; [apply iter_extend_length, copy_nodes_wf | exact LL].
Qed.

Theorem repeat_nT env ns n T : blk env ns T -> simple_links ns -> blk env (copy_nodes env (copy_nodes env ns)) T ->
  (1 <= n)%Z -> Z.to_nat n * length ns <= max_layers ->
  comp_duration env (repeat_nodes env ns n) = (n * T)%Z.
Proof. intros Hb Simp HC Hn L. destruct (repeat_blk env ns n T Hb Simp HC Hn L) as [H HL]. apply blk_duration; assumption. Qed.

(* ------------------------------------------------------------------ deciding the hypotheses on a concrete block *)
Definition blk_check (env : denv) (X : list node) (T : Z) : bool :=
  let tm := node_times env None X in
  forallb (fun n => negb (is_comp (n_op n))) X && negb (Nat.eqb (length X) 0) && (0 <=? T)%Z
  && forallb (fun i => (0 <=? fst (nth i tm (0, 0)%Z))%Z && (snd (nth i tm (0, 0)%Z) <=? T)%Z) (seq 0 (length X))
  && existsb (fun m => negb (has_child (parents X) m) && (snd (nth m tm (0, 0)%Z) =? T)%Z) (seq 0 (length X)).

Lemma blk_check_sound env X T : wf_nodes X -> blk_check env X T = true -> blk env X T.
Proof.
  intros W H. unfold blk_check in H. repeat (apply andb_true_iff in H as [H ?]).
  rename H into Hf, H0 into Hl, H1 into Hb, H2 into HT, H3 into Hn.
  rewrite forallb_forall in Hf, Hb. apply existsb_exists in Hl as (m & Hm & Hl). apply andb_true_iff in Hl as [Hc Em].
  apply in_seq in Hm. constructor.
  - exact W.
  - apply Forall_forall. intros n Hn'. specialize (Hf n Hn'). destruct (n_op n) as [l|r sub]; [exists l; reflexivity | discriminate].
  - intros ->. discriminate.
  - lia.
  - intros i Hi. assert (I : In i (seq 0 (length X))) by (apply in_seq; lia). specialize (Hb i I). lia.
  - intros i Hi. assert (I : In i (seq 0 (length X))) by (apply in_seq; lia). specialize (Hb i I). lia.
  - exists m. split; [lia|]. split; [|lia]. apply has_child_false. now apply negb_true_iff.
Qed.

Definition simple_check (X : list node) : bool :=
  forallb (fun n => match n_link n with LNone | LRel _ _ => true | _ => false end) X.

Lemma simple_check_sound X : simple_check X = true -> simple_links X.
Proof.
  unfold simple_check. rewrite forallb_forall. intros H. apply Forall_forall. intros n Hn. specialize (H n Hn).
  destruct (n_link n); simpl; auto; discriminate.
Qed.
