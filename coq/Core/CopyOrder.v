(* Renumbering a well-formed forest of parent pointers in its own listing order: the renumbered forest lists as 0, 1, 2, ...
   (a graph whose insertion order is a listing order is listed in insertion order).  Pure list / bfs facts used by
   Core/CopyProofs.v.  Depends on Core.Model and Core.BfsProofs only. *)
From Coq Require Import ZArith List Bool Lia Arith Permutation Sorted.
Import ListNotations.
From QCE Require Import Base.Prelude Core.Model Core.BfsProofs.
From Gen Require Import Ident Classes.
Local Open Scope nat_scope.

(* ------------------------------------------------------------------ position of an element in a list *)
(* first position of x in l; length l when x does not occur *)
Fixpoint pos (l : list nat) (x : nat) : nat :=
  match l with [] => 0 | y :: t => if Nat.eqb y x then 0 else S (pos t x) end.

Lemma pos_le l x : pos l x <= length l.
Proof. induction l as [|y t IH]; simpl; [lia|]. destruct (Nat.eqb y x); lia. Qed.

Lemma pos_lt l x : In x l -> pos l x < length l.
Proof.
  induction l as [|y t IH]; simpl; [tauto|]. intros H. destruct (Nat.eqb y x) eqn:E; [lia|].
  apply Nat.eqb_neq in E. destruct H as [H | H]; [congruence | specialize (IH H); lia].
Qed.

Lemma pos_notin l x : ~ In x l -> pos l x = length l.
Proof.
  induction l as [|y t IH]; simpl; [reflexivity|]. intros H. destruct (Nat.eqb y x) eqn:E.
  - apply Nat.eqb_eq in E. tauto.
  - f_equal. apply IH. tauto.
Qed.

Lemma pos_lt_in l x : pos l x < length l -> In x l.
Proof.
  intros H. destruct (in_dec Nat.eq_dec x l) as [I | I]; [exact I|]. rewrite (pos_notin l x I) in H. lia.
Qed.

Lemma nth_error_pos l x : In x l -> nth_error l (pos l x) = Some x.
Proof.
  induction l as [|y t IH]; simpl; [tauto|]. intros H. destruct (Nat.eqb y x) eqn:E.
  - apply Nat.eqb_eq in E. subst. reflexivity.
  - apply Nat.eqb_neq in E. destruct H as [H | H]; [congruence | exact (IH H)].
Qed.

Lemma pos_app_in l l' x : In x l -> pos (l ++ l') x = pos l x.
Proof.
  induction l as [|y t IH]; simpl; [tauto|]. intros H. destruct (Nat.eqb y x) eqn:E; [reflexivity|].
  apply Nat.eqb_neq in E. destruct H as [H | H]; [congruence | now rewrite (IH H)].
Qed.

Lemma pos_app_notin l l' x : ~ In x l -> pos (l ++ l') x = length l + pos l' x.
Proof.
  induction l as [|y t IH]; simpl; [reflexivity|]. intros H. destruct (Nat.eqb y x) eqn:E.
  - apply Nat.eqb_eq in E. tauto.
  - f_equal. apply IH. tauto.
Qed.

Lemma pos_nth_error l k x : NoDup l -> nth_error l k = Some x -> pos l x = k.
Proof.
  intros ND. revert k. induction l as [|y t IH]; intros k E; [destruct k; discriminate|].
  inversion ND as [|? ? Hni ND']; subst. destruct k as [|k]; simpl in *.
  - inversion E; subst. now rewrite Nat.eqb_refl.
  - destruct (Nat.eqb y x) eqn:Q.
    + apply Nat.eqb_eq in Q. subst. apply nth_error_In in E. contradiction.
    + f_equal. apply IH; assumption.
Qed.

Lemma pos_inj l x y : In x l -> pos l x = pos l y -> x = y.
Proof.
  intros Hx E. pose proof (pos_lt l x Hx) as L. rewrite E in L. apply pos_lt_in in L.
  pose proof (nth_error_pos l x Hx) as A. pose proof (nth_error_pos l y L) as B. rewrite E in A. congruence.
Qed.

Lemma pos_middle l1 a l2 : ~ In a l1 -> pos (l1 ++ a :: l2) a = length l1.
Proof. intros H. rewrite pos_app_notin by exact H. simpl. rewrite Nat.eqb_refl. lia. Qed.

(* a contiguous segment of a duplicate-free list is numbered consecutively *)
Lemma map_pos_segment l : forall l1 l2, NoDup (l1 ++ l ++ l2) -> map (pos (l1 ++ l ++ l2)) l = seq (length l1) (length l).
Proof.
  induction l as [|a t IH]; intros l1 l2 ND; [reflexivity|]. simpl. f_equal.
  - apply pos_middle. apply NoDup_remove_2 in ND. intros H. apply ND. apply in_or_app. left. exact H.
  - assert (ND' : NoDup ((l1 ++ [a]) ++ t ++ l2)) by (rewrite <- app_assoc; exact ND).
    change (l1 ++ a :: t ++ l2) with (l1 ++ [a] ++ t ++ l2). rewrite (app_assoc l1 [a] (t ++ l2)).
    rewrite (IH (l1 ++ [a]) l2 ND'). rewrite app_length. simpl. f_equal. lia.
Qed.

Lemma map_pos_self l : NoDup l -> map (pos l) l = seq 0 (length l).
Proof.
  intros ND. pose proof (map_pos_segment l [] []) as H. simpl in H. rewrite app_nil_r in H. exact (H ND).
Qed.

Lemma pos_seq n x : x < n -> pos (seq 0 n) x = x.
Proof.
  intros H. apply pos_nth_error; [apply seq_NoDup|]. rewrite (nth_error_nth' _ 0) by (now rewrite seq_length).
  now rewrite seq_nth.
Qed.

Lemma pos_seq_out n x : n <= x -> pos (seq 0 n) x = n.
Proof. intros H. rewrite pos_notin; [apply seq_length|]. rewrite in_seq. lia. Qed.

(* x precedes y *)
Lemma before_pos l x y : NoDup l -> before l x y -> pos l x < pos l y.
Proof.
  intros ND (l1 & l2 & l3 & E). subst l.
  assert (Nx : ~ In x l1).
  { apply NoDup_remove_2 in ND. intros H. apply ND. apply in_or_app. left. exact H. }
  rewrite (pos_middle l1 x _ Nx).
  assert (Ny : ~ In y (l1 ++ x :: l2)).
  { change (l1 ++ x :: l2 ++ y :: l3) with (l1 ++ (x :: l2) ++ y :: l3) in ND. rewrite app_assoc in ND.
    apply NoDup_remove_2 in ND. intros H. apply ND. apply in_or_app. left. exact H. }
  change (l1 ++ x :: l2 ++ y :: l3) with (l1 ++ (x :: l2) ++ y :: l3). rewrite app_assoc.
  rewrite (pos_middle _ y l3 Ny). rewrite app_length. simpl. lia.
Qed.

(* ------------------------------------------------------------------ sorted lists are determined by their elements *)
Lemma sorted_lt_ext (l1 : list nat) : forall l2, StronglySorted lt l1 -> StronglySorted lt l2 ->
  (forall x, In x l1 <-> In x l2) -> l1 = l2.
Proof.
  induction l1 as [|a t IH]; intros l2 S1 S2 H.
  - destruct l2 as [|b t2]; [reflexivity|]. exfalso. apply (proj2 (H b)). left. reflexivity.
  - destruct l2 as [|b t2]; [exfalso; apply (proj1 (H a)); left; reflexivity|].
    inversion S1 as [|? ? S1' F1]; inversion S2 as [|? ? S2' F2]; subst. rewrite Forall_forall in F1, F2.
    assert (a = b).
    { destruct (proj1 (H a) (or_introl eq_refl)) as [E | E]; [congruence|].
      destruct (proj2 (H b) (or_introl eq_refl)) as [E' | E']; [congruence|].
      specialize (F1 _ E'). specialize (F2 _ E). lia. }
    subst b. f_equal. apply IH; auto. intros x. split; intros Hx.
    + destruct (proj1 (H x) (or_intror Hx)) as [E | E]; [|exact E]. specialize (F1 _ Hx). lia.
    + destruct (proj2 (H x) (or_intror Hx)) as [E | E]; [|exact E]. specialize (F2 _ Hx). lia.
Qed.

Lemma seq_sorted a n : StronglySorted lt (seq a n).
Proof.
  revert a. induction n as [|n IH]; intros a; simpl; constructor; [apply IH|].
  apply Forall_forall. intros x Hx. apply in_seq in Hx. lia.
Qed.

(* ------------------------------------------------------------------ generic list facts *)
Lemma flat_map_ext_in {A B} (f g : A -> list B) l : (forall x, In x l -> f x = g x) -> flat_map f l = flat_map g l.
Proof.
  induction l as [|a l IH]; intros H; simpl; [reflexivity|]. rewrite (H a (or_introl eq_refl)). f_equal.
  apply IH. intros x Hx. apply H. right. exact Hx.
Qed.

Lemma flat_map_map {A B C} (f : A -> B) (g : B -> list C) l : flat_map g (map f l) = flat_map (fun x => g (f x)) l.
Proof. induction l as [|a l IH]; simpl; [reflexivity | now rewrite IH]. Qed.

Lemma map_flat_map' {A B C} (f : B -> C) (g : A -> list B) l : map f (flat_map g l) = flat_map (fun x => map f (g x)) l.
Proof. induction l as [|a l IH]; simpl; [reflexivity | now rewrite map_app, IH]. Qed.

Lemma concat_map_map {A B} (f : A -> B) (ls : list (list A)) : concat (map (map f) ls) = map f (concat ls).
Proof. induction ls as [|l ls IH]; simpl; [reflexivity | now rewrite map_app, IH]. Qed.

Lemma map_nth_seq {A} (l : list A) d : map (fun k => nth k l d) (seq 0 (length l)) = l.
Proof.
  induction l as [|a l IH]; [reflexivity|]. simpl. f_equal. rewrite <- seq_shift, map_map. exact IH.
Qed.

(* ------------------------------------------------------------------ the listing is made of contiguous blocks *)
Section Renumber.
  Variable ps : list (option nat).
  Variable fuel : nat.
  Hypothesis W : wf_parents ps.
  Hypothesis D : forall i, i < length ps -> depth ps i < fuel.

  Let is := bfs_fuel ps fuel.

  Lemma order_In i : In i is <-> i < length ps.
  Proof. unfold is. rewrite bfs_fuel_In by exact W. split; [tauto | auto]. Qed.

  Lemma order_NoDup : NoDup is.
  Proof. apply bfs_fuel_NoDup. exact W. Qed.

  Lemma order_length : length is = length ps.
  Proof.
    rewrite <- (seq_length (length ps) 0). apply Permutation_length. apply bfs_fuel_perm; assumption.
  Qed.

  Lemma level_out d : fuel <= d -> level ps d = [].
  Proof.
    intros H. destruct (level ps d) as [|a l] eqn:E; [reflexivity|]. exfalso.
    assert (In a (level ps d)) as I by (rewrite E; left; reflexivity).
    apply level_spec in I as [I1 I2]; [|exact W]. specialize (D a I1). lia.
  Qed.

  Lemma seg_level d : exists l1 l2, is = l1 ++ level ps d ++ l2.
  Proof.
    destruct (Nat.lt_ge_cases d fuel) as [H | H].
    - unfold is. rewrite bfs_fuel_levels. replace fuel with (d + S (fuel - d - 1)) by lia.
      rewrite seq_app, map_app, concat_app. simpl.
      exists (concat (map (level ps) (seq 0 d))), (concat (map (level ps) (seq (S d) (fuel - d - 1)))). reflexivity.
    - rewrite (level_out d H). exists [], is. reflexivity.
  Qed.

  Lemma seg_children q : (forall i, q = Some i -> i < length ps) -> exists l1 l2, is = l1 ++ children ps q ++ l2.
  Proof.
    intros Hq. destruct q as [i|].
    - specialize (Hq i eq_refl).
      assert (I : In i (level ps (depth ps i))) by (apply level_spec; auto).
      apply in_split in I as (a & b & E).
      destruct (seg_level (S (depth ps i))) as (l1 & l2 & S). simpl in S. rewrite E, flat_map_app in S. simpl in S.
      exists (l1 ++ flat_map (fun j => children ps (Some j)) a), (flat_map (fun j => children ps (Some j)) b ++ l2).
      rewrite S. rewrite <- !app_assoc. reflexivity.
    - exact (seg_level 0).
  Qed.

  Lemma map_pos_children q : (forall i, q = Some i -> i < length ps) -> StronglySorted lt (map (pos is) (children ps q)).
  Proof.
    intros Hq. destruct (seg_children q Hq) as (l1 & l2 & E). pose proof order_NoDup as ND. rewrite E in *.
    rewrite (map_pos_segment _ l1 l2 ND). apply seq_sorted.
  Qed.

  (* the renumbered parent pointers, in listing order *)
  Definition renum_parents : list (option nat) := map (fun i => option_map (pos is) (nth i ps None)) is.

  Lemma renum_parents_length : length renum_parents = length ps.
  Proof. unfold renum_parents. rewrite map_length. apply order_length. Qed.

  Lemma renum_parents_nth k i : nth_error is k = Some i -> nth_error renum_parents k = Some (option_map (pos is) (nth i ps None)).
  Proof. intros E. unfold renum_parents. rewrite nth_error_map, E. reflexivity. Qed.

  Lemma children_renum q : (forall i, q = Some i -> i < length ps) ->
    children renum_parents (option_map (pos is) q) = map (pos is) (children ps q).
  Proof.
    intros Hq. apply sorted_lt_ext; [apply children_sorted | apply map_pos_children; exact Hq|].
    intros k. rewrite children_spec, in_map_iff. split.
    - intros E. unfold renum_parents in E. rewrite nth_error_map in E.
      destruct (nth_error is k) as [i|] eqn:Ek; simpl in E; [|discriminate]. inversion E as [E']. clear E.
      exists i. split; [apply pos_nth_error; [apply order_NoDup | exact Ek]|].
      apply children_spec. assert (Hi : i < length ps) by (apply order_In; eapply nth_error_In; exact Ek).
      destruct (nth_error ps i) as [par|] eqn:Ei; [|apply nth_error_None in Ei; lia].
      rewrite (nth_error_nth _ _ None Ei) in E'. f_equal.
      destruct par as [p|], q as [a|]; simpl in E'; try discriminate; [|reflexivity].
      inversion E' as [E'']. f_equal. apply (pos_inj is); [|exact E''].
      apply order_In. pose proof (W _ _ Ei). lia.
    - intros (i & <- & Hi). apply children_spec in Hi.
      assert (Hl : i < length ps) by (apply nth_error_Some; congruence).
      rewrite (renum_parents_nth (pos is i) i) by (apply nth_error_pos, order_In; exact Hl).
      now rewrite (nth_error_nth _ _ None Hi).
  Qed.

  Lemma level_renum k : level renum_parents k = map (pos is) (level ps k).
  Proof.
    induction k as [|k IH]; simpl.
    - apply (children_renum None). intros i E. discriminate.
    - rewrite IH, flat_map_map, map_flat_map'. apply flat_map_ext_in. intros i Hi.
      apply (children_renum (Some i)). intros j E. inversion E; subst. exact (level_lt_length _ _ _ Hi).
  Qed.

  (* (ii) a forest renumbered in its listing order lists as 0, 1, 2, ... *)
  Theorem bfs_fuel_renum : bfs_fuel renum_parents fuel = seq 0 (length ps).
  Proof.
    rewrite bfs_fuel_levels. rewrite (map_ext _ (fun k => map (pos is) (level ps k)) level_renum).
    rewrite <- (map_map (level ps) (map (pos is))), concat_map_map, <- bfs_fuel_levels. fold is.
    rewrite (map_pos_self is order_NoDup). now rewrite order_length.
  Qed.

  Lemma depth1_renum : children renum_parents None = map (pos is) (children ps None).
  Proof. apply (children_renum None). intros i E. discriminate. Qed.
End Renumber.

(* ------------------------------------------------------------------ more order facts *)
Lemma sorted_pos_lt (l : list nat) i j : StronglySorted lt l -> In i l -> In j l -> pos l j < pos l i -> j < i.
Proof.
  induction l as [|a t IH]; intros S Hi Hj H; [destruct Hi|]. inversion S as [|? ? S' F]; subst. rewrite Forall_forall in F.
  simpl in H. destruct (Nat.eqb_spec a j) as [Ej | Nj]; destruct (Nat.eqb_spec a i) as [Ei | Ni]; try lia.
  - subst a. destruct Hi as [Hi | Hi]; [congruence|]. exact (F _ Hi).
  - destruct Hi as [Hi | Hi]; [congruence|]. destruct Hj as [Hj | Hj]; [congruence|]. apply IH; auto. lia.
Qed.

Lemma pos_before l x y : NoDup l -> In x l -> In y l -> pos l x < pos l y -> before l x y.
Proof.
  intros ND Hx Hy H. assert (x <> y) by (intros ->; lia).
  destruct (before_total l x y Hx Hy H0) as [B | B]; [exact B|]. apply (before_pos l y x ND) in B. lia.
Qed.

Lemma before_filter {A} (P : A -> bool) l x y : before (filter P l) x y -> before l x y.
Proof.
  induction l as [|a t IH]; simpl; intros H.
  - destruct H as (l1 & l2 & l3 & E). destruct l1; discriminate.
  - destruct (P a).
    + apply before_cons_inv in H as [[-> Hy] | H].
      * apply (before_app_lr [x] t); [left; reflexivity|]. apply filter_In in Hy. tauto.
      * apply (before_app_l [a]). apply IH. exact H.
    + apply (before_app_l [a]). apply IH. exact H.
Qed.

Lemma find_none_intro {A} (f : A -> bool) l : (forall x, In x l -> f x = false) -> find f l = None.
Proof.
  induction l as [|a l IH]; intros H; simpl; [reflexivity|]. rewrite (H a (or_introl eq_refl)). apply IH.
  intros x Hx. apply H. right. exact Hx.
Qed.

Lemma find_rev_last {A} (f : A -> bool) l1 x l2 : f x = true -> (forall y, In y l2 -> f y = false) ->
  find f (rev (l1 ++ x :: l2)) = Some x.
Proof.
  intros Hx H. rewrite rev_app_distr. simpl. rewrite <- app_assoc, find_app.
  rewrite find_none_intro by (intros y Hy; apply H; apply in_rev; exact Hy). simpl. now rewrite Hx.
Qed.

Lemma filter_all_true {A} (P : A -> bool) l : (forall x, In x l -> P x = true) -> filter P l = l.
Proof.
  induction l as [|a l IH]; intros H; simpl; [reflexivity|]. rewrite (H a (or_introl eq_refl)). f_equal.
  apply IH. intros x Hx. apply H. right. exact Hx.
Qed.

Lemma filter_flat_map {A B} (P : B -> bool) (g : A -> list B) l :
  filter P (flat_map g l) = flat_map (fun x => filter P (g x)) l.
Proof. induction l as [|a l IH]; simpl; [reflexivity|]. now rewrite filter_app, IH. Qed.

Lemma filter_concat {A} (P : A -> bool) ls : filter P (concat ls) = concat (map (filter P) ls).
Proof. induction ls as [|l ls IH]; simpl; [reflexivity|]. now rewrite filter_app, IH. Qed.

Lemma flat_map_filter_nil {A B} (P : A -> bool) (g : A -> list B) l :
  (forall x, P x = false -> g x = []) -> flat_map g l = flat_map g (filter P l).
Proof.
  intros H. induction l as [|a l IH]; simpl; [reflexivity|]. destruct (P a) eqn:E; simpl; [now rewrite IH|].
  now rewrite (H a E), IH.
Qed.

Lemma wf_parents_app_l a b : wf_parents (a ++ b) -> wf_parents a.
Proof.
  intros W i p E. apply (W i p). rewrite nth_error_app1; [exact E|]. apply nth_error_Some. congruence.
Qed.

(* ------------------------------------------------------------------ appending a node keeps the relative order of the others *)
Section Snoc.
  Variable ps : list (option nat).
  Variable q : option nat.
  Hypothesis W : wf_parents ps.
  Let old := fun x => x <? length ps.

  Lemma children_snoc_filter p : filter old (children (ps ++ [q]) p) = children ps p.
  Proof.
    rewrite children_snoc, filter_app.
    rewrite filter_all_true by (intros x Hx; apply Nat.ltb_lt; exact (children_lt_length _ _ _ Hx)).
    destruct (opt_nat_eqb q p); simpl; [|apply app_nil_r]. unfold old. rewrite Nat.ltb_irrefl. apply app_nil_r.
  Qed.

  Lemma children_beyond x : old x = false -> children ps (Some x) = [].
  Proof.
    intros H. apply Nat.ltb_ge in H. destruct (children ps (Some x)) as [|j l] eqn:E; [reflexivity|]. exfalso.
    assert (I : In j (children ps (Some x))) by (rewrite E; left; reflexivity).
    pose proof (children_lt_length _ _ _ I). apply children_spec in I. apply W in I. lia.
  Qed.

  Lemma level_snoc_filter d : filter old (level (ps ++ [q]) d) = level ps d.
  Proof.
    induction d as [|d IH]; simpl; [apply children_snoc_filter|].
    rewrite filter_flat_map.
    rewrite (flat_map_ext _ (fun j => children ps (Some j))) by (intros j; apply children_snoc_filter).
    rewrite (flat_map_filter_nil old) by exact children_beyond. now rewrite IH.
  Qed.

  Theorem bfs_fuel_snoc_filter fuel : filter old (bfs_fuel (ps ++ [q]) fuel) = bfs_fuel ps fuel.
  Proof.
    rewrite !bfs_fuel_levels, filter_concat, map_map. f_equal. apply map_ext. exact level_snoc_filter.
  Qed.

  Corollary bfs_fuel_snoc_In fuel x : In x (bfs_fuel ps fuel) -> In x (bfs_fuel (ps ++ [q]) fuel).
  Proof. rewrite <- bfs_fuel_snoc_filter. intros H. apply filter_In in H. tauto. Qed.

  Corollary bfs_fuel_snoc_In_old fuel x : x < length ps -> In x (bfs_fuel (ps ++ [q]) fuel) -> In x (bfs_fuel ps fuel).
  Proof.
    intros Hx H. rewrite <- bfs_fuel_snoc_filter. apply filter_In. split; [exact H | apply Nat.ltb_lt; exact Hx].
  Qed.

  Corollary bfs_fuel_snoc_before fuel x y : before (bfs_fuel ps fuel) x y -> before (bfs_fuel (ps ++ [q]) fuel) x y.
  Proof. rewrite <- bfs_fuel_snoc_filter. apply before_filter. Qed.
End Snoc.

(* every prefix of a forest that lists as 0, 1, 2, ... lists as 0, 1, 2, ... *)
Lemma bfs_prefix_identity fuel l2 : forall l1, wf_parents (l1 ++ l2) ->
  bfs_fuel (l1 ++ l2) fuel = seq 0 (length (l1 ++ l2)) -> bfs_fuel l1 fuel = seq 0 (length l1).
Proof.
  induction l2 as [|q l2 IH] using rev_ind; intros l1 W E; [now rewrite app_nil_r in E|].
  rewrite app_assoc in W, E. apply IH; [exact (wf_parents_app_l _ _ W)|].
  rewrite <- (bfs_fuel_snoc_filter (l1 ++ l2) q (wf_parents_app_l _ _ W) fuel), E.
  rewrite (app_length (l1 ++ l2) [q]). cbn [length]. generalize (length (l1 ++ l2)). intros n.
  rewrite Nat.add_1_r, seq_S, filter_app. simpl. rewrite Nat.ltb_irrefl, app_nil_r.
  apply filter_all_true. intros x Hx. apply in_seq in Hx. apply Nat.ltb_lt. lia.
Qed.

Lemma NoDup_app_disjoint {A} (l l' : list A) x : NoDup (l ++ l') -> In x l -> In x l' -> False.
Proof.
  induction l as [|a l IH]; simpl; intros ND H H'; [exact H|]. inversion ND as [|? ? Hni ND']; subst.
  destruct H as [-> | H]; [|exact (IH ND' H H')]. apply Hni. apply in_or_app. right. exact H'.
Qed.

(* siblings are listed in insertion order *)
Lemma order_siblings ps fuel q i j : wf_parents ps -> (forall i, i < length ps -> depth ps i < fuel) ->
  (forall a, q = Some a -> a < length ps) -> nth_error ps i = Some q -> nth_error ps j = Some q ->
  pos (bfs_fuel ps fuel) j < pos (bfs_fuel ps fuel) i -> j < i.
Proof.
  intros W D Hq Ei Ej H. destruct (seg_children ps fuel W D q Hq) as (l1 & l2 & E).
  pose proof (bfs_fuel_NoDup ps fuel W) as ND. rewrite E in ND, H.
  apply children_spec in Ei, Ej.
  assert (P : forall x, In x (children ps q) -> pos (l1 ++ children ps q ++ l2) x = length l1 + pos (children ps q) x).
  { intros x Hx. rewrite pos_app_notin.
    - now rewrite (pos_app_in _ _ _ Hx).
    - intros H1. apply (NoDup_app_disjoint _ _ x ND H1). apply in_or_app. left. exact Hx. }
  rewrite (P i Ei), (P j Ej) in H. apply (sorted_pos_lt (children ps q)); [apply children_sorted | exact Ei | exact Ej | lia].
Qed.

Lemma renum_parents_wf ps fuel : wf_parents ps -> (forall i, i < length ps -> depth ps i < fuel) ->
  wf_parents (renum_parents ps fuel).
Proof.
  intros W D k p' E. unfold renum_parents in E. rewrite nth_error_map in E.
  destruct (nth_error (bfs_fuel ps fuel) k) as [i|] eqn:Ek; simpl in E; [|discriminate]. injection E as E.
  assert (Ii : In i (bfs_fuel ps fuel)) by (eapply nth_error_In; exact Ek).
  pose proof (bfs_fuel_lt_length _ _ _ Ii) as Hi.
  destruct (nth_error ps i) as [par|] eqn:Ei; [|apply nth_error_None in Ei; lia].
  rewrite (nth_error_nth _ _ None Ei) in E. destruct par as [p|]; simpl in E; [|discriminate]. injection E as <-.
  pose proof (bfs_fuel_NoDup ps fuel W) as ND.
  rewrite <- (pos_nth_error _ _ _ ND Ek). apply before_pos; [exact ND|]. apply bfs_parent_before; assumption.
Qed.
