(* Every graph the model builds is a well-formed forest: parent pointers point backwards and agree with the stored link.
   Induction principles for the nested types op/node and cmd; unfolding equations for the model's inner fixpoints. *)
From Coq Require Import ZArith List Bool Lia Arith Permutation.
Import ListNotations.
From QCE Require Import Base.Prelude Core.Model Core.BfsProofs.
From Gen Require Import Ident Classes.
Local Open Scope nat_scope.

(* ------------------------------------------------------------------ induction principles *)
Section OpInd.
  Variable P : op -> Prop.
  Hypothesis Hleaf : forall l, P (OLeaf l).
  Hypothesis Hcomp : forall r ns, Forall (fun n => P (n_op n)) ns -> P (OComp r ns).
  Fixpoint op_ind' (o : op) : P o :=
    match o with
    | OLeaf l => Hleaf l
    | OComp r ns =>
        Hcomp r ns ((fix go (l : list node) : Forall (fun n => P (n_op n)) l :=
                       match l with
                       | [] => Forall_nil _
                       | n :: t => Forall_cons n (match n as n0 return P (n_op n0) with Node _ _ o' => op_ind' o' end) (go t)
                       end) ns)
    end.
End OpInd.

Section CmdInd.
  Variable P : cmd -> Prop.
  Hypothesis Hadd : forall l r, P (CAdd l r).
  Hypothesis Hdang : forall l t, P (CDangling l t).
  Hypothesis Hsub : forall r body, Forall P body -> P (CSub r body).
  Fixpoint cmd_ind' (c : cmd) : P c :=
    match c with
    | CAdd l r => Hadd l r
    | CDangling l t => Hdang l t
    | CSub r body =>
        Hsub r body ((fix go (l : list cmd) : Forall P l :=
                        match l with [] => Forall_nil _ | c' :: t => Forall_cons c' (cmd_ind' c') (go t) end) body)
    end.
End CmdInd.

Lemma prog_ind' (P : cmd -> Prop) :
  (forall l r, P (CAdd l r)) -> (forall l t, P (CDangling l t)) -> (forall r body, Forall P body -> P (CSub r body)) ->
  forall p, Forall P p.
Proof. intros H1 H2 H3 p. apply Forall_forall. intros c _. apply cmd_ind'; assumption. Qed.

(* ------------------------------------------------------------------ the model's inner fixpoints are maps *)
Lemma copy_op_comp env r ns :
  copy_op env (OComp r ns) = OComp r (rebuild env ns (map (fun n => copy_op env (n_op n)) ns)).
Proof.
  simpl. do 2 f_equal. induction ns as [|[p lk o'] t IH]; simpl; [reflexivity|]. f_equal. exact IH.
Qed.

Lemma listing_op_comp env r ns c se :
  listing_op env (OComp r ns) c se =
  flat_map (fun i => nth i (map (fun n => listing_op env (n_op n)) ns) (fun _ _ => [])
                       (sub_ctx c (node_times env c ns) (nth i (map n_link ns) LNone)) (nth i (node_times env c ns) (0, 0)%Z))
           (bfs (parents ns)).
Proof.
  simpl. apply flat_map_ext. intros i. f_equal.
  assert (E : forall l, (fix go (l : list node) : list (ctx -> Z * Z -> list entry) :=
                 match l with [] => [] | Node _ _ o' :: t => listing_op env o' :: go t end) l
              = map (fun n => listing_op env (n_op n)) l).
  { induction l as [|[p lk o'] t IH]; simpl; [reflexivity|]. f_equal. exact IH. }
  rewrite E. reflexivity.
Qed.

Lemma copy_nodes_eq env ns : copy_nodes env ns = rebuild env ns (map (fun n => copy_op env (n_op n)) ns).
Proof. unfold copy_nodes. rewrite copy_op_comp. reflexivity. Qed.

(* ------------------------------------------------------------------ well-formed node lists *)
Definition link_ok (i : nat) (n : node) : Prop :=
  match n_link n with
  | LNone => n_parent n = None
  | LRel _ p => n_parent n = Some p /\ p < i
  | LMulti qs => (exists p, n_parent n = Some p /\ In p qs) /\ Forall (fun q => q < i) qs
  | LDangling _ => False
  end.

Definition wf_nodes (ns : list node) : Prop :=
  wf_parents (parents ns) /\ forall i n, nth_error ns i = Some n -> link_ok i n.

(* deep version: every nested sub-circuit as well *)
Inductive wf_op : op -> Prop :=
| wf_op_leaf l : wf_op (OLeaf l)
| wf_op_comp r ns : wf_nodes ns -> Forall (fun n => wf_op (n_op n)) ns -> wf_op (OComp r ns).

Lemma wf_op_comp_inv r ns : wf_op (OComp r ns) -> wf_nodes ns /\ Forall (fun n => wf_op (n_op n)) ns.
Proof. intros H. inversion H; subst. split; assumption. Qed.

Lemma wf_op_reps r r' ns : wf_op (OComp r ns) -> wf_op (OComp r' ns).
Proof. intros H. apply wf_op_comp_inv in H as [H1 H2]. constructor; assumption. Qed.

Lemma parents_length ns : length (parents ns) = length ns.
Proof. apply map_length. Qed.

Lemma parents_app ns ms : parents (ns ++ ms) = parents ns ++ parents ms.
Proof. apply map_app. Qed.

Lemma parents_nth_error ns i : nth_error (parents ns) i = option_map n_parent (nth_error ns i).
Proof. apply nth_error_map. Qed.

Lemma wf_nodes_nil : wf_nodes [].
Proof.
  split.
  - intros i p H. destruct i; discriminate.
  - intros i n H. destruct i; discriminate.
Qed.

Lemma wf_parents_snoc ps q : wf_parents ps -> (forall p, q = Some p -> p < length ps) -> wf_parents (ps ++ [q]).
Proof.
  intros W Hq i p E. destruct (Nat.lt_ge_cases i (length ps)) as [Hi | Hi].
  - rewrite nth_error_app1 in E by exact Hi. exact (W _ _ E).
  - rewrite nth_error_app2 in E by exact Hi. destruct (i - length ps) as [|k] eqn:K; simpl in E.
    + inversion E; subst. specialize (Hq p eq_refl). lia.
    + destruct k; discriminate.
Qed.

Lemma wf_nodes_snoc ns n :
  wf_nodes ns -> (forall p, n_parent n = Some p -> p < length ns) -> link_ok (length ns) n -> wf_nodes (ns ++ [n]).
Proof.
  intros [W L] Hp Hl. split.
  - rewrite parents_app. simpl. apply wf_parents_snoc; [exact W|]. rewrite parents_length. exact Hp.
  - intros i m E. destruct (Nat.lt_ge_cases i (length ns)) as [Hi | Hi].
    + rewrite nth_error_app1 in E by exact Hi. exact (L _ _ E).
    + rewrite nth_error_app2 in E by exact Hi. destruct (i - length ns) as [|k] eqn:K; simpl in E.
      * inversion E; subst. replace i with (length ns) by lia. exact Hl.
      * destruct k; discriminate.
Qed.

(* a stored link names the parent pointer (the reported referent) *)
Lemma wf_nodes_link_rel ns j n t p : wf_nodes ns -> nth_error ns j = Some n -> n_link n = LRel t p ->
  nth_error (parents ns) j = Some (Some p) /\ p < j.
Proof.
  intros [_ L] E K. specialize (L _ _ E). unfold link_ok in L. rewrite K in L. destruct L as [Hp Hlt].
  split; [|exact Hlt]. rewrite parents_nth_error, E. simpl. now rewrite Hp.
Qed.

Lemma wf_nodes_link_multi ns j n qs : wf_nodes ns -> nth_error ns j = Some n -> n_link n = LMulti qs ->
  exists p, nth_error (parents ns) j = Some (Some p) /\ In p qs /\ Forall (fun q => q < j) qs.
Proof.
  intros [_ L] E K. specialize (L _ _ E). unfold link_ok in L. rewrite K in L. destruct L as [(p & Hp & Hin) Hall].
  exists p. repeat split; auto. rewrite parents_nth_error, E. simpl. now rewrite Hp.
Qed.

Lemma wf_nodes_link_none ns j n : wf_nodes ns -> nth_error ns j = Some n -> n_link n = LNone ->
  nth_error (parents ns) j = Some None.
Proof.
  intros [_ L] E K. specialize (L _ _ E). unfold link_ok in L. rewrite K in L.
  rewrite parents_nth_error, E. simpl. now rewrite L.
Qed.

Lemma wf_nodes_no_dangling ns j n t : wf_nodes ns -> nth_error ns j = Some n -> n_link n <> LDangling t.
Proof. intros [_ L] E K. specialize (L _ _ E). unfold link_ok in L. rewrite K in L. exact L. Qed.

(* ------------------------------------------------------------------ add_node *)
(* the node add_node appends *)
Definition new_node (env : denv) (ns : list node) (o : op) (l : link) : node :=
  let implicit := match leaf_at_any ns (op_channels o) with
                  | None => Node None LNone o
                  | Some i => Node (Some i) (LRel RelationType_FOLLOWED_BY i) o
                  end in
  match l with
  | LNone => implicit
  | LDangling _ => implicit
  | LRel t p => if Nat.ltb p (length ns) then Node (Some p) l o else implicit
  | LMulti ps => match latest_of ns ps with
                 | None => implicit
                 | Some p => Node (Some p) l o
                 end
  end.

Lemma add_node_eq env ns o l : add_node env ns o l = ns ++ [new_node env ns o l].
Proof. reflexivity. Qed.

Lemma new_node_op env ns o l : n_op (new_node env ns o l) = o.
Proof.
  unfold new_node. destruct l as [| t p | ps | t]; simpl;
    repeat match goal with |- context [match ?x with _ => _ end] => destruct x end; reflexivity.
Qed.

Lemma add_node_length env ns o l : length (add_node env ns o l) = S (length ns).
Proof. rewrite add_node_eq, app_length. simpl. lia. Qed.

Lemma add_node_ops env ns o l : map n_op (add_node env ns o l) = map n_op ns ++ [o].
Proof. rewrite add_node_eq, map_app. simpl. now rewrite new_node_op. Qed.

Lemma multi_ref_from_In tm ps best : In (multi_ref_from tm ps best) (best :: ps).
Proof.
  revert best. induction ps as [|p t IH]; intros best; simpl; [left; reflexivity|].
  destruct (_ >? _)%Z.
  - right. exact (IH p).
  - destruct (IH best) as [H | H]; [left; exact H | right; right; exact H].
Qed.

Lemma multi_ref_In tm ps p : multi_ref tm ps = Some p -> In p ps.
Proof. destruct ps as [|q t]; simpl; [discriminate|]. intros H. inversion H; subst. apply multi_ref_from_In. Qed.

Lemma latest_of_In ns ps p : latest_of ns ps = Some p -> In p ps.
Proof.
  unfold latest_of. intros H. apply find_some in H. destruct H as [_ H].
  apply existsb_exists in H. destruct H as [q [Hq E]]. apply Nat.eqb_eq in E. now subst.
Qed.

(* the members of a multi-link handed to add_node must be nodes of the graph (add_node does not check this itself) *)
Definition multi_in_range (n : nat) (l : link) : Prop :=
  match l with LMulti ps => Forall (fun q => q < n) ps | _ => True end.

Lemma multi_in_range_mono n m l : n <= m -> multi_in_range n l -> multi_in_range m l.
Proof.
  intros H. destruct l; simpl; auto. intros F. eapply Forall_impl; [|exact F]. simpl. intros; lia.
Qed.

Lemma new_node_ok env ns o l : multi_in_range (length ns) l ->
  (forall p, n_parent (new_node env ns o l) = Some p -> p < length ns) /\ link_ok (length ns) (new_node env ns o l).
Proof.
  intros R.
  assert (I : (forall p, n_parent (match leaf_at_any ns (op_channels o) with
                                   | None => Node None LNone o
                                   | Some i => Node (Some i) (LRel RelationType_FOLLOWED_BY i) o end) = Some p -> p < length ns)
              /\ link_ok (length ns) (match leaf_at_any ns (op_channels o) with
                                      | None => Node None LNone o
                                      | Some i => Node (Some i) (LRel RelationType_FOLLOWED_BY i) o end)).
  { destruct (leaf_at_any ns (op_channels o)) as [i|] eqn:E; unfold link_ok; simpl.
    - apply leaf_at_any_lt in E. split; [intros p H; inversion H; subst; exact E | split; [reflexivity | exact E]].
    - split; [intros p H; discriminate | reflexivity]. }
  unfold new_node. destruct l as [| t p | ps | t]; try exact I.
  - destruct (Nat.ltb p (length ns)) eqn:Hp; [|exact I]. apply Nat.ltb_lt in Hp. unfold link_ok. simpl.
    split; [intros q H; inversion H; subst; exact Hp | split; [reflexivity | exact Hp]].
  - destruct (latest_of ns ps) as [p|] eqn:M; [|exact I]. apply latest_of_In in M.
    simpl in R. unfold link_ok. simpl. split.
    + intros q H. inversion H; subst. rewrite Forall_forall in R. exact (R _ M).
    + split; [exists p; split; [reflexivity | exact M] | exact R].
Qed.

Theorem add_node_wf env ns o l : wf_nodes ns -> multi_in_range (length ns) l -> wf_nodes (add_node env ns o l).
Proof.
  intros W R. rewrite add_node_eq. destruct (new_node_ok env ns o l R) as [Hp Hl]. apply wf_nodes_snoc; assumption.
Qed.

Theorem add_node_wf_op env r ns o l :
  wf_op (OComp r ns) -> wf_op o -> multi_in_range (length ns) l -> wf_op (OComp r (add_node env ns o l)).
Proof.
  intros H Ho R. apply wf_op_comp_inv in H as [W F]. constructor; [apply add_node_wf; assumption|].
  rewrite add_node_eq. apply Forall_app. split; [exact F|]. constructor; [|constructor]. now rewrite new_node_op.
Qed.

(* ------------------------------------------------------------------ copy (rebuild), extend *)
Definition idx_ok (m : idxmap) (n : nat) : Prop := forall a b, lookup m a = Some b -> b < n.

Lemma idx_ok_nil n : idx_ok [] n.
Proof. intros a b H. discriminate. Qed.

Lemma idx_ok_cons m n i : idx_ok m n -> idx_ok ((i, n) :: m) (S n).
Proof.
  intros H a b E. simpl in E. destruct (Nat.eqb i a); [inversion E; lia|]. specialize (H _ _ E). lia.
Qed.

Lemma in_filter_map {A B} (f : A -> option B) l y : In y (filter_map f l) -> exists x, In x l /\ f x = Some y.
Proof.
  induction l as [|a l IH]; simpl; [tauto|]. destruct (f a) as [b|] eqn:E.
  - intros [<- | H]; [exists a; auto | destruct (IH H) as (x & Hx & Fx); exists x; auto].
  - intros H. destruct (IH H) as (x & Hx & Fx). exists x; auto.
Qed.

Lemma map_link_in_range m n l : idx_ok m n -> multi_in_range n (map_link m l).
Proof.
  intros H. destruct l as [| t p | ps | t]; simpl; auto.
  - destruct (lookup m p); simpl; exact I.
  - apply Forall_forall. intros q Hq. apply in_filter_map in Hq as (x & _ & Hx). exact (H _ _ Hx).
Qed.

Definition rebuild_step (env : denv) (ns : list node) (cops : list op) (st : list node * idxmap) (i : nat) : list node * idxmap :=
  let '(new, m) := st in
  match nth_error ns i, nth_error cops i with
  | Some n, Some o' =>
      let l' := if op_keeps (n_op n) then map_link m (n_link n) else LNone in
      (add_node env new o' l', (i, length new) :: m)
  | _, _ => st
  end.

Lemma rebuild_eq env ns cops : rebuild env ns cops = fst (fold_left (rebuild_step env ns cops) (bfs (parents ns)) ([], [])).
Proof. reflexivity. Qed.

Lemma rebuild_fold_wf env r ns cops : Forall wf_op cops -> forall is new m,
  wf_op (OComp r new) -> idx_ok m (length new) ->
  wf_op (OComp r (fst (fold_left (rebuild_step env ns cops) is (new, m)))).
Proof.
  intros HC is. induction is as [|i is IH]; intros new m W M; simpl; [exact W|].
  destruct (nth_error ns i) as [n|] eqn:En; [|apply IH; assumption].
  destruct (nth_error cops i) as [o'|] eqn:Eo; [|apply IH; assumption].
  apply IH.
  - apply add_node_wf_op; [exact W | | ].
    + rewrite Forall_forall in HC. apply HC. eapply nth_error_In. exact Eo.
    + destruct (op_keeps (n_op n)); [apply map_link_in_range; exact M | exact I].
  - rewrite add_node_length. apply idx_ok_cons. exact M.
Qed.

Theorem rebuild_wf env r ns cops : Forall wf_op cops -> wf_op (OComp r (rebuild env ns cops)).
Proof.
  intros HC. rewrite rebuild_eq. apply rebuild_fold_wf; [exact HC | | apply idx_ok_nil].
  constructor; [apply wf_nodes_nil | constructor].
Qed.

(* a copy is well-formed whatever it is a copy of *)
Theorem copy_op_wf env o : wf_op (copy_op env o).
Proof.
  induction o as [l | r ns IH] using op_ind'; [constructor|].
  rewrite copy_op_comp. apply rebuild_wf. apply Forall_map. exact IH.
Qed.

Corollary copy_nodes_wf_op env r ns : wf_op (OComp r (copy_nodes env ns)).
Proof.
  rewrite copy_nodes_eq. apply rebuild_wf. apply Forall_map. apply Forall_forall. intros n _. apply copy_op_wf.
Qed.

Corollary copy_nodes_wf env ns : wf_nodes (copy_nodes env ns).
Proof. exact (proj1 (wf_op_comp_inv _ _ (copy_nodes_wf_op env 1%Z ns))). Qed.

(* ------------------------------------------------------------------ programs *)
Definition cmd_op (env : denv) (c : cmd) : op :=
  match c with
  | CAdd l _ => OLeaf l
  | CDangling l _ => OLeaf l
  | CSub r body => OComp r (copy_nodes env (run_cmds env body []))
  end.
Definition cmd_link (c : cmd) : link :=
  match c with
  | CAdd _ None => LNone
  | CAdd _ (Some (ty, p)) => LRel ty p
  | CDangling _ ty => LDangling ty
  | CSub _ _ => LNone
  end.

Lemma run_cmds_cons env c t ns : run_cmds env (c :: t) ns = run_cmds env t (add_node env ns (cmd_op env c) (cmd_link c)).
Proof. destruct c as [l [[ty p]|] | l ty | r body]; reflexivity. Qed.

Lemma cmd_link_in_range n c : multi_in_range n (cmd_link c).
Proof. destruct c as [l [[ty p]|] | l ty | r body]; exact I. Qed.

Lemma cmd_op_wf env c : wf_op (cmd_op env c).
Proof. destruct c; simpl; [constructor | constructor | apply copy_nodes_wf_op]. Qed.

Theorem run_cmds_wf_op env r cs : forall ns, wf_op (OComp r ns) -> wf_op (OComp r (run_cmds env cs ns)).
Proof.
  induction cs as [|c t IH]; intros ns W; [exact W|]. rewrite run_cmds_cons. apply IH.
  apply add_node_wf_op; [exact W | apply cmd_op_wf | apply cmd_link_in_range].
Qed.

Theorem run_prog_wf_op env r p : wf_op (OComp r (run_prog env p)).
Proof. apply run_cmds_wf_op. constructor; [apply wf_nodes_nil | constructor]. Qed.

Corollary run_prog_wf env p : wf_nodes (run_prog env p).
Proof. exact (proj1 (wf_op_comp_inv _ _ (run_prog_wf_op env 1%Z p))). Qed.

Lemma run_cmds_ops env cs : forall ns, map n_op (run_cmds env cs ns) = map n_op ns ++ map (cmd_op env) cs.
Proof.
  induction cs as [|c t IH]; intros ns; [simpl; now rewrite app_nil_r|].
  rewrite run_cmds_cons, IH, add_node_ops, <- app_assoc. reflexivity.
Qed.

Lemma run_cmds_length env cs ns : length (run_cmds env cs ns) = length ns + length cs.
Proof.
  rewrite <- (map_length n_op), run_cmds_ops, app_length, !map_length. reflexivity.
Qed.

(* ------------------------------------------------------------------ extend / repeat *)
Definition extend_step (env : denv) (other : list node) (rel : link) (st : list node * idxmap) (i : nat) : list node * idxmap :=
  let '(cur, m) := st in
  match nth_error other i with
  | Some n =>
      let l' := if has_relation (n_link n) then map_link m (n_link n) else rel in
      (add_node env cur (n_op n) l', (i, length cur) :: m)
  | None => st
  end.

Lemma extend_eq env ns other :
  extend env ns other =
  fst (fold_left (extend_step env other (match ns with [] => LNone | _ => LMulti (graph_leaves (parents ns)) end))
                 (bfs (parents other)) (ns, [])).
Proof. reflexivity. Qed.

Lemma extend_fold_wf env r other rel n0 : Forall (fun n => wf_op (n_op n)) other -> multi_in_range n0 rel ->
  forall is cur m, wf_op (OComp r cur) -> idx_ok m (length cur) -> n0 <= length cur ->
  wf_op (OComp r (fst (fold_left (extend_step env other rel) is (cur, m)))).
Proof.
  intros HO HR is. induction is as [|i is IH]; intros cur m W M Hn; simpl; [exact W|].
  destruct (nth_error other i) as [n|] eqn:En; [|apply IH; assumption].
  apply IH.
  - apply add_node_wf_op; [exact W | | ].
    + rewrite Forall_forall in HO. apply HO. eapply nth_error_In. exact En.
    + destruct (has_relation (n_link n)); [apply map_link_in_range; exact M | exact (multi_in_range_mono _ _ _ Hn HR)].
  - rewrite add_node_length. apply idx_ok_cons. exact M.
  - rewrite add_node_length. lia.
Qed.

Lemma graph_leaves_lt ps i : In i (graph_leaves ps) -> i < length ps.
Proof. unfold graph_leaves. intros H. apply filter_In in H as [H _]. exact (bfs_lt_length _ _ H). Qed.

Theorem extend_wf_op env r ns other :
  wf_op (OComp r ns) -> Forall (fun n => wf_op (n_op n)) other -> wf_op (OComp r (extend env ns other)).
Proof.
  intros W HO. rewrite extend_eq. apply (extend_fold_wf env r other _ (length ns)); auto using idx_ok_nil.
  destruct ns as [|a t]; [exact I|].
  change (Forall (fun q => q < length (a :: t)) (graph_leaves (parents (a :: t)))). apply Forall_forall. intros q Hq.
  apply graph_leaves_lt in Hq. now rewrite parents_length in Hq.
Qed.

Corollary extend_wf env ns other :
  wf_op (OComp 1%Z ns) -> Forall (fun n => wf_op (n_op n)) other -> wf_nodes (extend env ns other).
Proof. intros W HO. exact (proj1 (wf_op_comp_inv _ _ (extend_wf_op env 1%Z ns other W HO))). Qed.

Lemma iter_n_inv {A} (P : A -> Prop) (f : A -> A) : (forall x, P x -> P (f x)) -> forall n x, P x -> P (iter_n n f x).
Proof. intros H n. induction n as [|n IH]; intros x Hx; simpl; [exact Hx | apply IH, H, Hx]. Qed.

Theorem repeat_nodes_wf_op env r ns times : wf_op (OComp r ns) -> wf_op (OComp r (repeat_nodes env ns times)).
Proof.
  intros W. unfold repeat_nodes. apply (iter_n_inv (fun x => wf_op (OComp r x))); [|exact W].
  intros x Hx. apply extend_wf_op; [exact Hx|].
  exact (proj2 (wf_op_comp_inv _ _ (copy_nodes_wf_op env r (copy_nodes env ns)))).
Qed.

(* ------------------------------------------------------------------ apply_modifiers *)
(* replacing the operations of nodes keeps well-formedness, which only looks at parent pointers and links *)
Lemma wf_nodes_map_ops (g : node -> node) ns :
  (forall n, n_parent (g n) = n_parent n /\ n_link (g n) = n_link n) -> wf_nodes ns -> wf_nodes (map g ns).
Proof.
  intros Hg [W L]. split.
  - unfold parents in *. rewrite map_map. rewrite (map_ext _ n_parent); [exact W|]. intros n. exact (proj1 (Hg n)).
  - intros i n' E. rewrite nth_error_map in E. destruct (nth_error ns i) as [n|] eqn:En; [|discriminate].
    simpl in E. inversion E; subst. specialize (L _ _ En). unfold link_ok in *.
    destruct (Hg n) as [-> ->]. exact L.
Qed.

Theorem apply_mods_fuel_wf_op env : forall fuel r r' ns,
  wf_op (OComp r ns) -> wf_op (OComp r (apply_mods_fuel fuel env r' ns)).
Proof.
  induction fuel as [|f IH]; intros r r' ns W; [exact W|]. cbn [apply_mods_fuel].
  pose proof (repeat_nodes_wf_op env r ns r' W) as WR. apply wf_op_comp_inv in WR as [WN WF]. constructor.
  - apply wf_nodes_map_ops; [|exact WN]. intros [p l [lf | r0 sub]]; split; reflexivity.
  - apply Forall_map. rewrite Forall_forall in *. intros [p l [lf | r0 sub]] Hn; simpl; [constructor|].
    specialize (WF _ Hn). simpl in WF. apply (wf_op_reps r0). apply IH. exact WF.
Qed.

Corollary apply_modifiers_wf_op env r reps ns : wf_op (OComp r ns) -> wf_op (OComp r (apply_modifiers env reps ns)).
Proof. apply apply_mods_fuel_wf_op. Qed.
