(* The copy of a circuit (Core.Model.copy_op / rebuild) is the original renumbered in listing order.
   Part 1 (this file): re-inserting the nodes of a graph in an order that lists parents before children, roots while no
   channel-sharing node is present, and the members of a multi-link before the linked node (the parent last), yields the
   renumbered graph; its times table is the original table re-indexed.  Part 2 is Core/CopyIso.v. *)
From Coq Require Import ZArith List Bool Lia Arith Permutation Sorted.
Import ListNotations.
From QCE Require Import Base.Prelude Core.Model Core.BfsProofs Core.BfsWf Core.TimesProofs Core.TimesListing Core.TimesWf
  Core.CopyOrder.
From Gen Require Import Ident Classes.
Local Open Scope nat_scope.

(* ------------------------------------------------------------------ links through an index map given as a function *)
Definition map_link_f (f : nat -> option nat) (l : link) : link :=
  match l with
  | LNone => LNone
  | LDangling _ => LNone
  | LRel t p => match f p with Some q => LRel t q | None => LNone end
  | LMulti ps => LMulti (filter_map f ps)
  end.

Lemma map_link_eq m l : map_link m l = map_link_f (lookup m) l.
Proof. reflexivity. Qed.

Lemma filter_map_ext {A B} (f g : A -> option B) l : (forall x, In x l -> f x = g x) -> filter_map f l = filter_map g l.
Proof.
  induction l as [|a l IH]; intros H; simpl; [reflexivity|]. rewrite <- (H a (or_introl eq_refl)).
  rewrite IH; [reflexivity|]. intros x Hx. apply H. right. exact Hx.
Qed.

Lemma filter_map_app {A B} (f : A -> option B) l1 l2 : filter_map f (l1 ++ l2) = filter_map f l1 ++ filter_map f l2.
Proof. induction l1 as [|a l1 IH]; simpl; [reflexivity|]. destruct (f a); simpl; now rewrite IH. Qed.

Lemma filter_map_all {A B} (f : A -> option B) (g : A -> B) l : (forall x, In x l -> f x = Some (g x)) -> filter_map f l = map g l.
Proof.
  induction l as [|a l IH]; intros H; simpl; [reflexivity|]. rewrite (H a (or_introl eq_refl)). f_equal.
  apply IH. intros x Hx. apply H. right. exact Hx.
Qed.

Lemma map_link_f_ext f g l : (forall q, f q = g q) -> map_link_f f l = map_link_f g l.
Proof.
  intros H. destruct l as [|t p|ps|t]; simpl; try reflexivity.
  - now rewrite H.
  - f_equal. apply filter_map_ext. intros; apply H.
Qed.

(* the lookup available when node i is re-inserted: the nodes listed before i, by position *)
Definition lkb (is : list nat) (i q : nat) : option nat := if pos is q <? pos is i then Some (pos is q) else None.

Lemma lkb_before is i q : pos is q < pos is i -> lkb is i q = Some (pos is q).
Proof. intros H. unfold lkb. destruct (Nat.ltb_spec (pos is q) (pos is i)); [reflexivity | lia]. Qed.

Lemma lkb_some is i q q' : lkb is i q = Some q' -> q' = pos is q /\ pos is q < pos is i.
Proof.
  unfold lkb. destruct (Nat.ltb_spec (pos is q) (pos is i)) as [H | H]; [|discriminate]. intros E. injection E as <-. auto.
Qed.

Definition dummy_node : node := Node None LNone (OComp 0 []).

(* node i of ns, renumbered by position in `is`, carrying the copied operation cops[i] *)
Definition renum_node (ns : list node) (cops : list op) (is : list nat) (i : nat) : node :=
  let n := nth i ns dummy_node in
  Node (option_map (pos is) (n_parent n)) (map_link_f (lkb is i) (n_link n)) (nth i cops (n_op n)).
Definition renum (ns : list node) (cops : list op) (is : list nat) : list node := map (renum_node ns cops is) is.

(* ------------------------------------------------------------------ the multi-link referent survives dropping other members *)
Lemma multi_ref_some tm ps : ps <> [] -> exists m, multi_ref tm ps = Some m.
Proof. destruct ps as [|p t]; [congruence|]. intros _. simpl. eexists. reflexivity. Qed.

Lemma multi_ref_filter tm tm' (f : nat -> option nat) ps p p' :
  multi_ref tm ps = Some p -> f p = Some p' ->
  (forall q q', In q ps -> f q = Some q' -> nth q' tm' (0, 0)%Z = nth q tm (0, 0)%Z) ->
  multi_ref tm' (filter_map f ps) = Some p'.
Proof.
  intros M Fp A. apply multi_ref_spec in M. destruct M as (l1 & l2 & E & H1 & H2). subst ps.
  assert (X : multi_first_latest tm' (filter_map f (l1 ++ p :: l2)) p').
  { exists (filter_map f l1), (filter_map f l2). split; [rewrite filter_map_app; simpl; now rewrite Fp|].
    assert (Ap : nth p' tm' (0, 0)%Z = nth p tm (0, 0)%Z).
    { apply A; [apply in_or_app; right; left; reflexivity | exact Fp]. }
    split; intros q' Hq'; apply in_filter_map in Hq' as (q & Hq & Fq).
    - rewrite Ap, (A q q'); [apply H1; exact Hq | apply in_or_app; left; exact Hq | exact Fq].
    - rewrite Ap, (A q q'); [apply H2; exact Hq | apply in_or_app; right; right; exact Hq | exact Fq]. }
  destruct (multi_ref_some tm' (filter_map f (l1 ++ p :: l2))) as (m & Em).
  { destruct X as (a & b & E & _). rewrite E. destruct a; discriminate. }
  rewrite Em. f_equal. apply multi_ref_spec in Em. exact (multi_first_latest_unique _ _ _ _ Em X).
Qed.

(* ------------------------------------------------------------------ stored multi-links name the parent pointer *)
(* the parent of a node stored with a multi-link is the LAST LISTED member (add_node: latest_of) *)
Definition multi_parent_ok (ns : list node) : Prop :=
  forall i n ps, nth_error ns i = Some n -> n_link n = LMulti ps ->
    exists p, n_parent n = Some p /\
      forall q, In q ps -> In q (bfs (parents ns)) -> q = p \/ before (bfs (parents ns)) q p.

(* a root shares no channel with an earlier root (add_node found no listed channel-sharing node when it was inserted) *)
Definition roots_disjoint (ns : list node) : Prop :=
  forall i j ni nj, j < i -> nth_error ns i = Some ni -> nth_error ns j = Some nj ->
    n_parent ni = None -> n_parent nj = None -> any_match (op_channels (n_op ni)) (op_channels (n_op nj)) = false.

Lemma leaf_at_any_none_intro ns chans :
  (forall k, In k (bfs (parents ns)) -> any_match chans (node_chans ns k) = false) -> leaf_at_any ns chans = None.
Proof.
  intros H. unfold leaf_at_any. apply find_none_intro. intros k Hk. apply in_rev in Hk. exact (H k Hk).
Qed.

Lemma in_filter_map_intro {A B} (f : A -> option B) l x y : In x l -> f x = Some y -> In y (filter_map f l).
Proof.
  induction l as [|a l IH]; simpl; [tauto|]. intros [-> | H] E.
  - rewrite E. left. reflexivity.
  - destruct (f a); [right|]; apply IH; assumption.
Qed.

Lemma existsb_eqb_In x l : existsb (Nat.eqb x) l = true <-> In x l.
Proof.
  rewrite existsb_exists. split.
  - intros (y & Hy & E). apply Nat.eqb_eq in E. now subst.
  - intros H. exists x. split; [exact H | apply Nat.eqb_refl].
Qed.

(* in a graph that lists as 0, 1, 2, ...: the latest of a group is its largest member *)
Lemma latest_of_identity ns ps m : bfs (parents ns) = seq 0 (length ns) -> m < length ns -> In m ps ->
  (forall q, In q ps -> q <= m) -> latest_of ns ps = Some m.
Proof.
  intros B Hm Im Hmax. unfold latest_of. rewrite B.
  replace (length ns) with (m + S (length ns - m - 1)) by lia. rewrite seq_app. simpl.
  apply find_rev_last; [apply existsb_eqb_In; exact Im|].
  intros y Hy. apply in_seq in Hy. destruct (existsb (Nat.eqb y) ps) eqn:E; [|reflexivity].
  apply existsb_eqb_In in E. specialize (Hmax y E). lia.
Qed.

(* ------------------------------------------------------------------ (i) re-insertion in a good order *)
Section Reinsert.
  Variable env : denv.
  Variable ns : list node.
  Variable cops : list op.
  Variable is : list nat.

  Hypothesis WN : wf_nodes ns.
  Hypothesis ND : NoDup is.
  Hypothesis IR : forall i, In i is -> i < length ns.
  Hypothesis LC : length cops = length ns.
  (* parents are listed before their children *)
  Hypothesis PB : forall i p, In i is -> nth_error (parents ns) i = Some (Some p) -> pos is p < pos is i.
  (* no member of a multi-link is listed after the parent *)
  Hypothesis MB : forall i n ps p q, In i is -> nth_error ns i = Some n -> n_link n = LMulti ps -> n_parent n = Some p ->
    In q ps -> pos is q <= pos is p.

  Let rn := renum_node ns cops is.

  Lemma in_is_node i : In i is -> exists n, nth_error ns i = Some n.
  Proof.
    intros H. destruct (nth_error ns i) as [n|] eqn:E; [exists n; reflexivity|].
    apply nth_error_None in E. specialize (IR i H). lia.
  Qed.

  Lemma rn_eq i n : nth_error ns i = Some n ->
    rn i = Node (option_map (pos is) (n_parent n)) (map_link_f (lkb is i) (n_link n)) (nth i cops (n_op n)).
  Proof. intros E. unfold rn, renum_node. now rewrite (nth_error_nth _ _ dummy_node E). Qed.

  (* the parent of a multi-linked node and the positions of the members *)
  Lemma multi_members : forall i n ps, In i is -> nth_error ns i = Some n -> n_link n = LMulti ps ->
    exists p, n_parent n = Some p /\ In p ps /\ pos is p < pos is i /\ forall q, In q ps -> pos is q <= pos is p.
  Proof using WN PB MB.
    clear - WN PB MB. intros i n ps Ii En L. destruct (wf_nodes_link_multi ns i n ps WN En L) as (p & Ep & Ip & _).
    pose proof (PB i p Ii Ep) as Hp. rewrite parents_nth_error, En in Ep. simpl in Ep. injection Ep as Ep.
    exists p. repeat split; auto. intros q Hq. exact (MB i n ps p q Ii En L Ep Hq).
  Qed.

  (* every member of a multi-link is kept by the copy *)
  Lemma multi_link_kept : forall i n ps, In i is -> nth_error ns i = Some n -> n_link n = LMulti ps ->
    filter_map (lkb is i) ps = map (pos is) ps.
  Proof using WN PB MB.
    clear - WN PB MB. intros i n ps Ii En L. destruct (multi_members i n ps Ii En L) as (p & _ & _ & Hp & Hq).
    apply filter_map_all. intros q Iq. apply lkb_before. specialize (Hq q Iq). lia.
  Qed.

  (* positions inside a prefix *)
  Lemma prefix_pos done rest i : is = done ++ i :: rest -> pos is i = length done.
  Proof.
    intros E. rewrite E. apply pos_middle. rewrite E in ND. apply NoDup_remove_2 in ND.
    intros H. apply ND. apply in_or_app. left. exact H.
  Qed.

  Lemma prefix_nth {B} (g : nat -> B) d done rest q : is = done ++ rest -> pos is q < length done ->
    nth (pos is q) (map g done) d = g q.
  Proof.
    intros E H. assert (I : In q done).
    { destruct (in_dec Nat.eq_dec q done) as [I | I]; [exact I|]. rewrite E, pos_app_notin in H by exact I. lia. }
    rewrite E, (pos_app_in _ _ _ I). apply nth_error_nth. rewrite nth_error_map, (nth_error_pos _ _ I). reflexivity.
  Qed.

  (* ---------------------------------------------------------------- the fold of rebuild *)
  Hypothesis KP : forall i n, nth_error ns i = Some n -> op_keeps (n_op n) = true.
  Hypothesis CH : forall i n, nth_error ns i = Some n -> op_channels (nth i cops (n_op n)) = op_channels (n_op n).
  (* a root is listed while no channel-sharing node has been listed *)
  Hypothesis RD : forall i j ni nj, In i is -> nth_error ns i = Some ni -> n_parent ni = None ->
    pos is j < pos is i -> nth_error ns j = Some nj -> any_match (op_channels (n_op ni)) (op_channels (n_op nj)) = false.
  (* every re-inserted prefix lists in insertion order *)
  Hypothesis BI : forall done rest, is = done ++ rest -> bfs (parents (map rn done)) = seq 0 (length done).

  Lemma rebuild_fold_renum done : forall rest, is = done ++ rest ->
    exists m, fold_left (rebuild_step env ns cops) done ([], []) = (map rn done, m) /\
              forall q, lookup m q = if pos is q <? length done then Some (pos is q) else None.
  Proof.
    induction done as [|i done IH] using rev_ind; intros rest E.
    - exists []. split; [reflexivity|]. intros q. reflexivity.
    - rewrite <- app_assoc in E. simpl in E. destruct (IH _ E) as (m & F & LK). clear IH.
      assert (Ii : In i is) by (rewrite E; apply in_or_app; right; left; reflexivity).
      destruct (in_is_node i Ii) as (n & En). pose proof (prefix_pos _ _ _ E) as Pi.
      assert (Eo : nth_error cops i = Some (nth i cops (n_op n))).
      { apply nth_error_nth'. rewrite LC. apply nth_error_Some. congruence. }
      rewrite fold_left_app, F. simpl. rewrite En, Eo, (KP i n En), map_length.
      exists ((i, length done) :: m). split.
      + f_equal. rewrite add_node_eq, map_app. simpl. do 2 f_equal.
        rewrite map_link_eq, (map_link_f_ext _ (lkb is i)) by (intros q; rewrite LK; unfold lkb; now rewrite Pi).
        rewrite (rn_eq i n En). set (o' := nth i cops (n_op n)). set (new := map rn done).
        assert (Ln : length new = pos is i) by (unfold new; now rewrite map_length).
        destruct (n_link n) as [|t p|ps|t] eqn:L.
        * (* un-related: re-inserted while no channel-sharing node is present *)
          pose proof (wf_nodes_link_none ns i n WN En L) as Ep.
          rewrite parents_nth_error, En in Ep. simpl in Ep. inversion Ep as [Ep']. rewrite Ep'. simpl.
          unfold new_node. rewrite leaf_at_any_none_intro; [reflexivity|].
          intros k Hk. apply bfs_lt_length in Hk. rewrite parents_length, Ln, Pi in Hk.
          destruct (nth_error done k) as [j|] eqn:Ej; [|apply nth_error_None in Ej; lia].
          assert (Ij : In j is) by (rewrite E; apply in_or_app; left; eapply nth_error_In; exact Ej).
          destruct (in_is_node j Ij) as (nj & Enj).
          assert (Pj : pos is j = k).
          { apply pos_nth_error; [exact ND|]. rewrite E, nth_error_app1 by lia. exact Ej. }
          unfold node_chans. rewrite (nth_error_nth _ _ [] (x := op_channels (n_op (rn j)))).
          -- rewrite (rn_eq j nj Enj). cbn [n_op]. rewrite (CH j nj Enj). unfold o'. rewrite (CH i n En).
             apply (RD i j n nj Ii En Ep'); [lia | exact Enj].
          -- unfold new. rewrite !nth_error_map, Ej. reflexivity.
        * (* explicit relation: attached under the copy of the referent *)
          destruct (wf_nodes_link_rel ns i n t p WN En L) as [Ep _]. pose proof (PB i p Ii Ep) as Hp.
          rewrite parents_nth_error, En in Ep. simpl in Ep. inversion Ep as [Ep']. rewrite Ep'. simpl.
          rewrite (lkb_before is i p Hp). unfold new_node. rewrite Ln.
          destruct (Nat.ltb_spec (pos is p) (pos is i)) as [_ | ?]; [reflexivity | lia].
        * (* multi-link: the parent is the last listed member, before and after *)
          destruct (multi_members i n ps Ii En L) as (p & Ep' & Ip & Hp & Hq). rewrite Ep'. simpl.
          rewrite (multi_link_kept i n ps Ii En L). unfold new_node.
          rewrite (latest_of_identity new (map (pos is) ps) (pos is p)); [reflexivity | | lia | |].
          -- unfold new. rewrite map_length. exact (BI done (i :: rest) E).
          -- apply in_map. exact Ip.
          -- intros y Hy. apply in_map_iff in Hy as (q & <- & Iq). exact (Hq q Iq).
        * exfalso. exact (wf_nodes_no_dangling ns i n t WN En L).
      + intros q. simpl. rewrite app_length. simpl. destruct (Nat.eqb_spec i q) as [<- | Hne].
        * rewrite Pi. destruct (Nat.ltb_spec (length done) (length done + 1)); [reflexivity | lia].
        * rewrite LK. assert (pos is q <> length done).
          { intros H. apply Hne. apply (pos_inj is); [exact Ii | congruence]. }
          destruct (Nat.ltb_spec (pos is q) (length done)), (Nat.ltb_spec (pos is q) (length done + 1)); try reflexivity; lia.
  Qed.

  Theorem reinsert_renum : fst (fold_left (rebuild_step env ns cops) is ([], [])) = renum ns cops is.
  Proof.
    destruct (rebuild_fold_renum is [] (eq_sym (app_nil_r is))) as (m & F & _). rewrite F. reflexivity.
  Qed.

  (* ---------------------------------------------------------------- (iii) times of the renumbered graph *)
  Hypothesis DUR : forall i n, nth_error ns i = Some n -> dur_of env (nth i cops (n_op n)) = dur_of env (n_op n).

  (* what a link reads from the table is what its renumbered version reads from the re-indexed table *)
  Lemma relink_reads : forall c tm tm' i n, In i is -> nth_error ns i = Some n ->
    (forall q, pos is q < pos is i -> nth (pos is q) tm' (0, 0)%Z = nth q tm (0, 0)%Z) ->
    (forall d, link_start c tm' (map_link_f (lkb is i) (n_link n)) d = link_start c tm (n_link n) d) /\
    sub_ctx c tm' (map_link_f (lkb is i) (n_link n)) = sub_ctx c tm (n_link n).
  Proof using WN PB MB.
    clear - WN PB MB. intros c tm tm' i n Ii En T. destruct (n_link n) as [|t p|ps|t] eqn:L; simpl; try (split; reflexivity).
    - destruct (wf_nodes_link_rel ns i n t p WN En L) as [Ep _]. pose proof (PB i p Ii Ep) as Hp.
      rewrite (lkb_before is i p Hp). simpl. rewrite (T p Hp). split; reflexivity.
    - destruct (multi_members i n ps Ii En L) as (p & _ & Ip & Hp & Hq).
      destruct (multi_ref_some tm ps) as (m & M); [intros ->; destruct Ip|].
      pose proof (multi_ref_In _ _ _ M) as Im. assert (Hm : pos is m < pos is i) by (specialize (Hq m Im); lia).
      assert (M' : multi_ref tm' (filter_map (lkb is i) ps) = Some (pos is m)).
      { apply (multi_ref_filter tm tm' (lkb is i) ps m (pos is m) M (lkb_before is i m Hm)).
        intros q q' _ Fq. apply lkb_some in Fq as [-> Hq']. exact (T q Hq'). }
      rewrite M', M, (T m Hm). split; reflexivity.
  Qed.

  Lemma renum_times c : forall done rest, is = done ++ rest ->
    node_times env c (map rn done) = map (fun j => nth j (node_times env c ns) (0, 0)%Z) done.
  Proof.
    intros done. induction done as [|i done IH] using rev_ind; intros rest E; [reflexivity|].
    rewrite <- app_assoc in E. simpl in E. specialize (IH _ E).
    assert (Ii : In i is) by (rewrite E; apply in_or_app; right; left; reflexivity).
    destruct (in_is_node i Ii) as (n & En). pose proof (prefix_pos _ _ _ E) as Pi.
    rewrite !map_app. cbn [map]. rewrite node_times_eq, node_hs_app. unfold node_hs at 2. cbn [map combine].
    rewrite times_snoc, <- node_times_eq, IH. f_equal.
    set (tm := node_times env c ns). set (tm' := map (fun j => nth j tm (0, 0)%Z) done).
    assert (T : forall q, pos is q < pos is i -> nth (pos is q) tm' (0, 0)%Z = nth q tm (0, 0)%Z).
    { intros q Hq. unfold tm'. apply (prefix_nth (fun j => nth j tm (0, 0)%Z) (0, 0)%Z done (i :: rest) q E). lia. }
    rewrite (rn_eq i n En). cbn [n_link n_op]. rewrite (DUR i n En).
    rewrite (proj1 (relink_reads c tm tm' i n Ii En T)).
    unfold tm at 3. rewrite (node_times_start env c ns i n (wf_nodes_node_links ns WN) En). reflexivity.
  Qed.

  Theorem renum_node_times c :
    node_times env c (renum ns cops is) = map (fun j => nth j (node_times env c ns) (0, 0)%Z) is.
  Proof. exact (renum_times c is [] (eq_sym (app_nil_r is))). Qed.
End Reinsert.
