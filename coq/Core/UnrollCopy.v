(* The copy of a flat block built by a program is the block renumbered in its listing order, with the same times: the
   hypothesis `blk` of Core/UnrollDuration.v (repeat_nT) is preserved by copy_nodes.  Hence n*T without a hypothesis on the copy.
   For flat blocks with plain links copy_nodes is `extend` onto the empty circuit, so the analysis of extend is reused.
   Builds on Core/CopyOrder.v, UnrollTimes.v, UnrollOrder.v, UnrollDuration.v. *)
From Coq Require Import ZArith List Bool Lia ZifyBool Arith Permutation Sorted.
Import ListNotations.
From QCE Require Import Base.Prelude Core.Model Core.BfsProofs Core.BfsWf Core.TimesProofs Core.TimesListing Core.TimesWf
  Core.CopyOrder C02.Proofs Core.UnrollProofs Core.UnrollTimes Core.UnrollOrder Core.UnrollDuration.
From Gen Require Import Ident Classes.
Local Open Scope nat_scope.

(* un-related operations (roots) do not share a channel with an earlier root: what add_to_graph guarantees when it places
   an operation without predecessor *)
Definition roots_apart (X : list node) : Prop :=
  forall i j ni nj, j < i -> nth_error X i = Some ni -> nth_error X j = Some nj ->
    n_parent ni = None -> n_parent nj = None -> any_match (op_channels (n_op ni)) (op_channels (n_op nj)) = false.

Lemma sorted_nth_lt (l : list nat) : StronglySorted lt l -> forall i j a b, i < j -> nth_error l i = Some a -> nth_error l j = Some b -> a < b.
Proof.
  induction 1 as [|x l S IH F]; intros i j a b Hij Ei Ej; [destruct i; discriminate|].
  destruct j as [|j]; [lia|]. simpl in Ej. destruct i as [|i]; simpl in Ei.
  - inversion Ei; subst. rewrite Forall_forall in F. apply F. eapply nth_error_In. exact Ej.
  - apply (IH i j); [lia | exact Ei | exact Ej].
Qed.

Section CopyFlat.
  Variable env : denv.
  Variable X : list node.
  Hypothesis Hcopy : forall l, copy_leaf l = l.
  Hypothesis Hkeeps : forall l, l_keeps l = true.
  Hypothesis WX : wf_nodes X.
  Hypothesis FX : flat X.
  Hypothesis SX : simple_links X.
  Hypothesis RX : roots_apart X.
  Hypothesis LX : length X <= max_layers.
  Let B := bfs (parents X).
  Let R := copy_nodes env X.

  Lemma cf_node_facts i n : nth_error X i = Some n ->
    copy_op env (n_op n) = n_op n /\ op_keeps (n_op n) = true /\ simple_link (n_link n).
  Proof.
    intros E. pose proof (nth_error_In _ _ E) as I.
    destruct (proj1 (Forall_forall _ _) FX n I) as (l & El). rewrite El. simpl. rewrite Hcopy, Hkeeps.
    repeat split. exact (proj1 (Forall_forall _ _) SX n I).
  Qed.

  (* for such a block copy() is extend onto the empty circuit *)
  Lemma copy_is_extend : copy_nodes env X = extend env [] X.
  Proof.
    rewrite copy_nodes_eq, rebuild_eq, extend_eq. f_equal. apply fold_left_ext_fun. intros [new m] i.
    unfold rebuild_step, extend_step. rewrite nth_error_map. destruct (nth_error X i) as [n|] eqn:E; simpl; [|reflexivity].
    destruct (cf_node_facts i n E) as (E1 & E2 & E3). rewrite E1, E2.
    destruct (n_link n) as [|t q|qs|t]; try contradiction; reflexivity.
  Qed.

  Lemma cf_listable : listable X.
  Proof. apply small_listable; assumption. Qed.

  Lemma cf_B_NoDup : NoDup B.
  Proof. apply bfs_NoDup. exact (proj1 WX). Qed.

  Lemma cf_B_In i : In i B <-> i < length X.
  Proof. unfold B. rewrite (Permutation_in' eq_refl cf_listable), in_seq. lia. Qed.

  Lemma cf_B_length : length B = length X.
  Proof. unfold B. rewrite (Permutation_length cf_listable). apply seq_length. Qed.

  (* the listing starts with the roots, in insertion order *)
  Lemma cf_B_roots : exists rest, B = children (parents X) None ++ rest.
  Proof.
    unfold B, bfs. rewrite bfs_fuel_levels. pose proof max_layers_eq as M.
    destruct max_layers as [|f]; [simpl in M; lia|]. cbn [seq map concat level]. eexists. reflexivity.
  Qed.

  Lemma cf_roots_first k b k' b' : nth_error B k = Some b -> nth_error (parents X) b = Some None ->
    k' < k -> nth_error B k' = Some b' -> nth_error (parents X) b' = Some None /\ b' < b.
  Proof.
    intros Ek Hb Hk Ek'. destruct cf_B_roots as (rest & EB). set (L0 := children (parents X) None) in *.
    assert (Ib : In b L0) by (apply children_spec; exact Hb).
    assert (Kl : k < length L0).
    { destruct (Nat.lt_ge_cases k (length L0)) as [H | H]; [exact H|]. exfalso.
      rewrite EB, nth_error_app2 in Ek by exact H. apply nth_error_In in Ek.
      pose proof cf_B_NoDup as ND. rewrite EB in ND. exact (NoDup_app_disjoint _ _ b ND Ib Ek). }
    rewrite EB, nth_error_app1 in Ek by exact Kl. rewrite EB, nth_error_app1 in Ek' by lia.
    split; [apply children_spec; eapply nth_error_In; exact Ek'|].
    exact (sorted_nth_lt L0 (children_sorted _ _) k' k b' b Hk Ek' Ek).
  Qed.

  (* shape of the copy: the k-th node is the k-th listed node of X, its relation renumbered *)
  Lemma cf_spec : extend_fold_post env X LNone B [] [] R.
  Proof. unfold R. rewrite copy_is_extend. exact (extend_spec env [] X). Qed.

  Lemma cf_length : length R = length X.
  Proof. destruct cf_spec as (L & _). simpl in L. rewrite L. apply cf_B_length. Qed.

  Lemma cf_op k b n : nth_error B k = Some b -> nth_error X b = Some n ->
    exists nd, nth_error R k = Some nd /\ n_op nd = n_op n.
  Proof.
    intros Ek En. destruct cf_spec as (_ & _ & K). destruct (K k b Ek) as (n' & En' & EK). simpl in EK.
    rewrite En in En'. inversion En'; subst n'. eexists. split; [exact EK | apply new_node_op].
  Qed.

  Lemma cf_node k b n : nth_error B k = Some b -> nth_error X b = Some n ->
    nth_error R k = Some (Node (option_map (pos B) (n_parent n))
                               (match n_link n with LRel t q => LRel t (pos B q) | _ => LNone end) (n_op n))
    /\ (forall t q, n_link n = LRel t q -> n_parent n = Some q /\ pos B q < k /\ nth_error B (pos B q) = Some q).
  Proof.
    intros Ek En. destruct cf_spec as (L & _ & K). destruct (K k b Ek) as (n' & En' & EK). simpl in EK, L.
    rewrite En in En'. inversion En'; subst n'. clear En'.
    assert (Hk : k < length B) by (apply nth_error_Some; congruence).
    pose proof (proj2 WX b n En) as LK. unfold link_ok in LK.
    destruct (cf_node_facts b n En) as (_ & _ & SL).
    rewrite EK. unfold ext_link. destruct (n_link n) as [|t q|qs|t] eqn:EL; try contradiction; simpl has_relation; cbv iota.
    - split; [|intros t q E; discriminate]. rewrite LK. simpl. unfold new_node.
      replace (leaf_at_any (firstn k R) (op_channels (n_op n))) with (@None nat); [reflexivity|].
      symmetry. unfold leaf_at_any. apply find_none_intro. intros j Hj. apply in_rev in Hj. apply bfs_lt_length in Hj.
      rewrite parents_length, firstn_length in Hj.
      assert (Hjk : j < k) by lia.
      destruct (nth_error B j) as [b'|] eqn:Ej; [|apply nth_error_None in Ej; lia].
      assert (Hb' : b' < length X) by (apply cf_B_In; eapply nth_error_In; exact Ej).
      destruct (nth_error X b') as [n'|] eqn:En'; [|apply nth_error_None in En'; lia].
      assert (Rb : nth_error (parents X) b = Some None) by (rewrite parents_nth_error, En; simpl; now rewrite LK).
      destruct (cf_roots_first k b j b' Ek Rb Hjk Ej) as [Rb' Hlt].
      destruct (cf_op j b' n' Ej En') as (nd' & End' & Eop').
      rewrite (nth_indep _ [] (op_channels (n_op nd'))) by (rewrite map_length, firstn_length; lia).
      rewrite (map_nth (fun n => op_channels (n_op n)) (firstn k R) nd' j).
      rewrite (nth_error_nth (firstn k R) j nd') by (rewrite nth_error_firstn_lt by exact Hjk; exact End').
      rewrite Eop'. apply (RX b b' n n' Hlt En En').
      + exact LK.
      + rewrite parents_nth_error, En' in Rb'. simpl in Rb'. now inversion Rb'.
    - destruct LK as [Hp Hq]. rewrite Hp. simpl.
      assert (Bq : before B q b).
      { apply bfs_parent_before; [exact (proj1 WX) | | eapply nth_error_In; exact Ek].
        rewrite parents_nth_error, En. simpl. now rewrite Hp. }
      pose proof (before_pos _ _ _ cf_B_NoDup Bq) as Hpos. rewrite (pos_nth_error _ _ _ cf_B_NoDup Ek) in Hpos.
      assert (Eq : nth_error B (pos B q) = Some q).
      { apply nth_error_pos. apply cf_B_In. assert (b < length X) by (apply nth_error_Some; congruence). lia. }
      split; [|intros t' q' E; injection E as <- <-; auto].
      rewrite (lookup_idx_after B 0 k [] q (pos B q) cf_B_NoDup Eq Hpos). simpl.
      unfold new_node. rewrite firstn_length. replace (Nat.ltb (pos B q) (Nat.min k (length R))) with true; [reflexivity|].
      symmetry. apply Nat.ltb_lt. lia.
  Qed.

  Lemma cf_parents : parents R = renum_parents (parents X) max_layers.
  Proof.
    apply list_eq_nth_error. intros k. unfold renum_parents. fold (bfs (parents X)). fold B. rewrite nth_error_map.
    destruct (nth_error B k) as [b|] eqn:Ek; simpl.
    - assert (Hb : b < length X) by (apply cf_B_In; eapply nth_error_In; exact Ek).
      destruct (nth_error X b) as [n|] eqn:En; [|apply nth_error_None in En; lia].
      destruct (cf_node k b n Ek En) as [E _]. rewrite parents_nth_error, E. simpl. do 2 f_equal.
      symmetry. apply nth_error_nth. rewrite parents_nth_error, En. reflexivity.
    - apply nth_error_None. apply nth_error_None in Ek. rewrite parents_length, cf_length. rewrite cf_B_length in Ek. exact Ek.
  Qed.

  (* the same times *)
  Lemma cf_times k b : nth_error B k = Some b ->
    nth k (node_times env None R) (0, 0)%Z = nth b (node_times env None X) (0, 0)%Z.
  Proof.
    revert b. induction k as [k IH] using lt_wf_ind. intros b Ek.
    assert (Hb : b < length X) by (apply cf_B_In; eapply nth_error_In; exact Ek).
    destruct (nth_error X b) as [n|] eqn:En; [|apply nth_error_None in En; lia].
    destruct (cf_node k b n Ek En) as [E Hrel].
    pose proof (node_times_start env None R _ _ (wf_nodes_node_links _ (copy_nodes_wf env X)) E) as TR.
    pose proof (node_times_start env None X _ _ (wf_nodes_node_links _ WX) En) as TO.
    cbn [n_link n_op] in TR. rewrite TR, TO. clear TR TO.
    destruct (cf_node_facts b n En) as (_ & _ & SL).
    destruct (n_link n) as [|t q|qs|t] eqn:EL; try contradiction.
    - reflexivity.
    - destruct (Hrel t q eq_refl) as (_ & Hpos & Eq). cbn [link_start]. rewrite (IH _ Hpos q Eq). reflexivity.
  Qed.

  Lemma cf_flat : flat R.
  Proof.
    apply Forall_forall. intros nd Hnd. apply In_nth_error in Hnd as (k & Ek).
    assert (Hk : k < length B) by (rewrite cf_B_length, <- cf_length; apply nth_error_Some; congruence).
    destruct (nth_error B k) as [b|] eqn:Eb; [|apply nth_error_None in Eb; lia].
    assert (Hb : b < length X) by (apply cf_B_In; eapply nth_error_In; exact Eb).
    destruct (nth_error X b) as [n|] eqn:En; [|apply nth_error_None in En; lia].
    destruct (cf_op k b n Eb En) as (nd' & End' & Eop). rewrite Ek in End'. inversion End'; subst nd'.
    rewrite Eop. exact (proj1 (Forall_forall _ _) FX n (nth_error_In _ _ En)).
  Qed.

  Lemma cf_roots_apart : roots_apart R.
  Proof.
    intros k k' nd nd' Hlt Ek Ek' Hp Hp'.
    assert (Hk : k < length B) by (rewrite cf_B_length, <- cf_length; apply nth_error_Some; congruence).
    destruct (nth_error B k) as [b|] eqn:Eb; [|apply nth_error_None in Eb; lia].
    destruct (nth_error B k') as [b'|] eqn:Eb'; [|apply nth_error_None in Eb'; lia].
    assert (Hb : b < length X) by (apply cf_B_In; eapply nth_error_In; exact Eb).
    assert (Hb' : b' < length X) by (apply cf_B_In; eapply nth_error_In; exact Eb').
    destruct (nth_error X b) as [n|] eqn:En; [|apply nth_error_None in En; lia].
    destruct (nth_error X b') as [n'|] eqn:En'; [|apply nth_error_None in En'; lia].
    destruct (cf_node k b n Eb En) as [E _]. destruct (cf_node k' b' n' Eb' En') as [E' _].
    rewrite Ek in E. rewrite Ek' in E'. inversion E; subst nd. inversion E'; subst nd'. cbn [n_op n_parent] in *.
    assert (Pn : n_parent n = None) by (destruct (n_parent n); [discriminate | reflexivity]).
    assert (Pn' : n_parent n' = None) by (destruct (n_parent n'); [discriminate | reflexivity]).
    assert (Rb : nth_error (parents X) b = Some None) by (rewrite parents_nth_error, En; simpl; now rewrite Pn).
    destruct (cf_roots_first k b k' b' Eb Rb Hlt Eb') as [_ Hbb].
    exact (RX b b' n n' Hbb En En' Pn Pn').
  Qed.

  (* the block property is kept *)
  Theorem blk_copy T : blk env X T -> blk env R T.
  Proof.
    intros [_ _ Hne HT Hs He (m & Hm & Lm & Em)].
    assert (TB : forall k, k < length R -> exists b, nth_error B k = Some b /\ b < length X /\
                   nth k (node_times env None R) (0, 0)%Z = nth b (node_times env None X) (0, 0)%Z).
    { intros k Hk. rewrite cf_length, <- cf_B_length in Hk.
      destruct (nth_error B k) as [b|] eqn:Eb; [|apply nth_error_None in Eb; lia].
      exists b. split; [reflexivity|]. split; [apply cf_B_In; eapply nth_error_In; exact Eb | apply cf_times; exact Eb]. }
    constructor.
    - apply copy_nodes_wf.
    - exact cf_flat.
    - intros E. pose proof cf_length as L. fold R in L. rewrite E in L. destruct X; [congruence | discriminate].
    - exact HT.
    - intros k Hk. destruct (TB k Hk) as (b & _ & Hb & ->). apply Hs. exact Hb.
    - intros k Hk. destruct (TB k Hk) as (b & _ & Hb & ->). apply He. exact Hb.
    - assert (InB : In m B) by (apply cf_B_In; exact Hm).
      pose proof (pos_lt B m InB) as Hk. pose proof (nth_error_pos B m InB) as Ek.
      exists (pos B m). split; [rewrite cf_length, <- cf_B_length; exact Hk|]. split.
      + intros j Ej. rewrite cf_parents in Ej. unfold renum_parents in Ej. fold (bfs (parents X)) in Ej. fold B in Ej.
        rewrite nth_error_map in Ej. destruct (nth_error B j) as [b'|] eqn:Eb'; [|discriminate]. simpl in Ej.
        assert (Hb' : b' < length X) by (apply cf_B_In; eapply nth_error_In; exact Eb').
        destruct (nth b' (parents X) None) as [q|] eqn:Eq; simpl in Ej; [|discriminate].
        injection Ej as Ej. symmetry in Ej. apply (pos_inj B m q InB) in Ej. subst q.
        apply (Lm b'). rewrite <- Eq. apply nth_error_nth'. now rewrite parents_length.
      + rewrite (cf_times _ _ Ek). exact Em.
  Qed.

  (* ... and the listing order: the copy lists as 0, 1, 2, ..., i.e. in the listing order of X *)
  Lemma cf_bfs : bfs (parents R) = seq 0 (length X).
  Proof.
    rewrite cf_parents. unfold bfs. rewrite bfs_fuel_renum; [now rewrite parents_length | exact (proj1 WX) |].
    intros i Hi. pose proof (depth_lt_length _ i (proj1 WX) Hi). rewrite parents_length in *. lia.
  Qed.

  Theorem copy_flat_olist {Y} (g : op -> list Y) : olist g R = olist g X.
  Proof.
    unfold olist. rewrite cf_bfs, <- cf_B_length. fold B.
    transitivity (flat_map (at_node X (fun n => g (n_op n))) (map (fun k => nth k B 0) (seq 0 (length B))));
      [|now rewrite map_nth_seq].
    rewrite CopyOrder.flat_map_map. apply flat_map_ext_in. intros k Hk. apply in_seq in Hk.
    destruct (nth_error B k) as [b|] eqn:Ek; [|apply nth_error_None in Ek; lia].
    rewrite (nth_error_nth _ _ 0 Ek).
    assert (Hb : b < length X) by (apply cf_B_In; eapply nth_error_In; exact Ek).
    destruct (nth_error X b) as [n|] eqn:En; [|apply nth_error_None in En; lia].
    destruct (cf_op k b n Ek En) as (nd & End & Eop). unfold at_node. rewrite End, En, Eop. reflexivity.
  Qed.
End CopyFlat.

(* ------------------------------------------------------------------ 8. n*T, without a hypothesis on the copy *)
Lemma blk_recopy env ns T : (forall l, copy_leaf l = l) -> (forall l, l_keeps l = true) ->
  blk env ns T -> simple_links ns -> roots_apart ns -> length ns <= max_layers ->
  blk env (copy_nodes env (copy_nodes env ns)) T.
Proof.
  intros Hcopy Hkeeps Hb Simp RA L0.
  pose proof (blk_wf _ _ _ Hb) as W. pose proof (blk_flat _ _ _ Hb) as F.
  pose proof (blk_copy env ns Hcopy Hkeeps W F Simp RA L0 T Hb) as H1.
  apply (blk_copy env (copy_nodes env ns) Hcopy Hkeeps); try assumption.
  - apply copy_nodes_wf.
  - apply cf_flat; assumption.
  - apply copy_nodes_simple. exact Simp.
  - apply cf_roots_apart; assumption.
  - etransitivity; [apply copy_nodes_length; exact W | exact L0].
Qed.

Theorem repeat_blk_flat env ns n T : (forall l, copy_leaf l = l) -> (forall l, l_keeps l = true) ->
  blk env ns T -> simple_links ns -> roots_apart ns -> (1 <= n)%Z -> Z.to_nat n * length ns <= max_layers ->
  blk env (repeat_nodes env ns n) (n * T)%Z /\ length (repeat_nodes env ns n) <= max_layers.
Proof.
  intros Hcopy Hkeeps Hb Simp RA Hn L.
  assert (L0 : length ns <= max_layers) by (rewrite (Z_to_nat_pred n Hn) in L; lia).
  apply repeat_blk; try assumption. apply blk_recopy; assumption.
Qed.

Theorem repeat_nT_flat env ns n T : (forall l, copy_leaf l = l) -> (forall l, l_keeps l = true) ->
  blk env ns T -> simple_links ns -> roots_apart ns -> (1 <= n)%Z -> Z.to_nat n * length ns <= max_layers ->
  comp_duration env (repeat_nodes env ns n) = (n * T)%Z.
Proof.
  intros Hcopy Hkeeps Hb Simp RA Hn L.
  destruct (repeat_blk_flat env ns n T Hcopy Hkeeps Hb Simp RA Hn L) as [H HL]. apply blk_duration; assumption.
Qed.

(* the listing of a repeated flat block is the n-fold concatenation of its listing *)
Theorem repeat_flat_olist {Y} (g : op -> list Y) env ns n : (forall l, copy_leaf l = l) -> (forall l, l_keeps l = true) ->
  wf_nodes ns -> flat ns -> simple_links ns -> roots_apart ns -> ns <> [] -> (1 <= n)%Z -> Z.to_nat n * length ns <= max_layers ->
  olist g (repeat_nodes env ns n) = rep_app (Z.to_nat n) (olist g ns).
Proof.
  intros Hcopy Hkeeps W F Simp RA Hne Hn L.
  assert (L0 : length ns <= max_layers) by (rewrite (Z_to_nat_pred n Hn) in L; lia).
  rewrite (repeat_olist g env ns n (flat_wf_op ns W F) Simp Hne Hn L).
  rewrite (copy_flat_olist env (copy_nodes env ns) Hcopy Hkeeps (copy_nodes_wf env ns)).
  - rewrite (copy_flat_olist env ns Hcopy Hkeeps W F Simp RA L0), (Z_to_nat_pred n Hn). reflexivity.
  - apply cf_flat; assumption.
  - apply copy_nodes_simple. exact Simp.
  - apply cf_roots_apart; assumption.
  - etransitivity; [apply copy_nodes_length; exact W | exact L0].
Qed.

Corollary repeat_flat_listing env ns n : (forall l, copy_leaf l = l) -> (forall l, l_keeps l = true) ->
  wf_nodes ns -> flat ns -> simple_links ns -> roots_apart ns -> ns <> [] -> (1 <= n)%Z -> Z.to_nat n * length ns <= max_layers ->
  map e_leaf (listing env (repeat_nodes env ns n)) = rep_app (Z.to_nat n) (map e_leaf (listing env ns)).
Proof. intros. rewrite !listing_olist. apply repeat_flat_olist; assumption. Qed.

(* the name used in DESIGN.md *)
Definition unroll_nT := repeat_nT_flat.
