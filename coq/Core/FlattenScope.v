(* The scope of Core.Model.flatten on graphs built by the library: an operation related to a group is listed after every
   listed member of the group (add_node stores the LAST LISTED member as parent: `multi_built`, kept by copy / extend /
   repeat / apply_modifiers), also through the hand-off of a sub-circuit's link to its first operations.  Hence, when
   flatten gives no answer, the member that is missing is no listed leaf at all: a sub-circuit (finding F10). *)
From Coq Require Import ZArith List Bool Lia Arith Permutation Sorted.
Import ListNotations.
From QCE Require Import Base.Prelude Core.Model Core.BfsProofs Core.BfsWf Core.TimesProofs Core.TimesListing Core.TimesWf
  Core.FlattenProofs Core.FlattenIdem.
From Gen Require Import Ident Classes.
Local Open Scope nat_scope.

(* ------------------------------------------------------------------ multi_built: the parent of a group link is its last listed member *)
Definition multi_built (ns : list node) : Prop :=
  forall i n qs, nth_error ns i = Some n -> n_link n = LMulti qs ->
                 exists p, n_parent n = Some p /\ latest_of (firstn i ns) qs = Some p.

Inductive mb_op : op -> Prop :=
| mb_leaf l : mb_op (OLeaf l)
| mb_comp r ns : multi_built ns -> Forall (fun n => mb_op (n_op n)) ns -> mb_op (OComp r ns).

Lemma mb_op_inv r ns : mb_op (OComp r ns) -> multi_built ns /\ Forall (fun n => mb_op (n_op n)) ns.
Proof. intros H. inversion H; subst. split; assumption. Qed.

Lemma mb_op_reps r r' ns : mb_op (OComp r ns) -> mb_op (OComp r' ns).
Proof. intros H. apply mb_op_inv in H as [H1 H2]. constructor; assumption. Qed.

Lemma multi_built_nil : multi_built [].
Proof. intros [|i] n qs H; discriminate. Qed.

Lemma new_node_multi env ns o l qs : n_link (new_node env ns o l) = LMulti qs ->
  exists p, n_parent (new_node env ns o l) = Some p /\ latest_of ns qs = Some p.
Proof.
  unfold new_node. destruct l as [| t p | ps | t]; destruct (leaf_at_any ns (op_channels o)); simpl; try discriminate.
  - destruct (Nat.ltb p (length ns)); simpl; discriminate.
  - destruct (Nat.ltb p (length ns)); simpl; discriminate.
  - destruct (latest_of ns ps) as [p|] eqn:E; simpl; [|discriminate]. intros H. inversion H; subst. exists p. split; [reflexivity | exact E].
  - destruct (latest_of ns ps) as [p|] eqn:E; simpl; [|discriminate]. intros H. inversion H; subst. exists p. split; [reflexivity | exact E].
Qed.

Lemma multi_built_add env ns o l : multi_built ns -> multi_built (add_node env ns o l).
Proof.
  intros B i n qs E L. rewrite add_node_eq in *. destruct (Nat.lt_ge_cases i (length ns)) as [Hi | Hi].
  - rewrite nth_error_app1 in E by exact Hi. rewrite firstn_snoc_lt by lia. exact (B _ _ _ E L).
  - rewrite nth_error_app2 in E by exact Hi. destruct (i - length ns) as [|k] eqn:K; simpl in E; [|destruct k; discriminate].
    inversion E; subst. replace i with (length ns) by lia. rewrite firstn_snoc_lt, firstn_all by lia.
    apply new_node_multi. exact L.
Qed.

Lemma mb_op_add env r ns o l : mb_op (OComp r ns) -> mb_op o -> mb_op (OComp r (add_node env ns o l)).
Proof.
  intros H Ho. apply mb_op_inv in H as [B F]. constructor; [apply multi_built_add; exact B|].
  rewrite add_node_eq. apply Forall_app. split; [exact F|]. constructor; [|constructor]. now rewrite new_node_op.
Qed.

Lemma mb_op_nil r : mb_op (OComp r []).
Proof. constructor; [apply multi_built_nil | constructor]. Qed.

(* copy *)
Lemma rebuild_fold_mb env r ns cops : Forall mb_op cops -> forall is new m,
  mb_op (OComp r new) -> mb_op (OComp r (fst (fold_left (rebuild_step env ns cops) is (new, m)))).
Proof.
  intros HC is. induction is as [|i is IH]; intros new m W; simpl; [exact W|].
  destruct (nth_error ns i) as [n|] eqn:En; [|apply IH; assumption].
  destruct (nth_error cops i) as [o'|] eqn:Eo; [|apply IH; assumption].
  apply IH. apply mb_op_add; [exact W|]. rewrite Forall_forall in HC. apply HC. eapply nth_error_In. exact Eo.
Qed.

Lemma rebuild_mb env r ns cops : Forall mb_op cops -> mb_op (OComp r (rebuild env ns cops)).
Proof. intros HC. rewrite rebuild_eq. apply rebuild_fold_mb; [exact HC | apply mb_op_nil]. Qed.

Theorem copy_op_mb env o : mb_op (copy_op env o).
Proof.
  induction o as [l | r ns IH] using op_ind'; [constructor|].
  rewrite copy_op_comp. apply rebuild_mb. apply Forall_map. exact IH.
Qed.

Corollary copy_nodes_mb env r ns : mb_op (OComp r (copy_nodes env ns)).
Proof. rewrite copy_nodes_eq. apply rebuild_mb. apply Forall_map. apply Forall_forall. intros n _. apply copy_op_mb. Qed.

(* programs *)
Lemma cmd_op_mb env c : mb_op (cmd_op env c).
Proof. destruct c; simpl; [constructor | constructor | apply copy_nodes_mb]. Qed.

Theorem run_cmds_mb env r cs : forall ns, mb_op (OComp r ns) -> mb_op (OComp r (run_cmds env cs ns)).
Proof.
  induction cs as [|c t IH]; intros ns W; [exact W|]. rewrite run_cmds_cons. apply IH. apply mb_op_add; [exact W | apply cmd_op_mb].
Qed.

Theorem run_prog_mb env r p : mb_op (OComp r (run_prog env p)).
Proof. apply run_cmds_mb. apply mb_op_nil. Qed.

(* extend / repeat *)
Lemma extend_fold_mb env r other rel : Forall (fun n => mb_op (n_op n)) other ->
  forall is cur m, mb_op (OComp r cur) -> mb_op (OComp r (fst (fold_left (extend_step env other rel) is (cur, m)))).
Proof.
  intros HO is. induction is as [|i is IH]; intros cur m W; simpl; [exact W|].
  destruct (nth_error other i) as [n|] eqn:En; [|apply IH; assumption].
  apply IH. apply mb_op_add; [exact W|]. rewrite Forall_forall in HO. apply HO. eapply nth_error_In. exact En.
Qed.

Theorem extend_mb env r ns other : mb_op (OComp r ns) -> Forall (fun n => mb_op (n_op n)) other -> mb_op (OComp r (extend env ns other)).
Proof. intros W HO. rewrite extend_eq. apply extend_fold_mb; assumption. Qed.

Theorem repeat_nodes_mb env r ns times : mb_op (OComp r ns) -> mb_op (OComp r (repeat_nodes env ns times)).
Proof.
  intros W. unfold repeat_nodes. apply (iter_n_inv (fun x => mb_op (OComp r x))); [|exact W].
  intros x Hx. apply extend_mb; [exact Hx|]. exact (proj2 (mb_op_inv _ _ (copy_nodes_mb env r (copy_nodes env ns)))).
Qed.

(* apply_modifiers: replacing operations keeps parent pointers and links, which is all multi_built looks at *)
Lemma latest_of_parents ns ms ps : parents ns = parents ms -> latest_of ns ps = latest_of ms ps.
Proof. intros E. unfold latest_of. now rewrite E. Qed.

Lemma multi_built_map (g : node -> node) ns :
  (forall n, n_parent (g n) = n_parent n /\ n_link (g n) = n_link n) -> multi_built ns -> multi_built (map g ns).
Proof.
  intros Hg B i n' qs E L. rewrite nth_error_map in E. destruct (nth_error ns i) as [n|] eqn:En; [|discriminate].
  simpl in E. inversion E; subst. destruct (Hg n) as [Hp Hl]. rewrite Hl in L. destruct (B i n qs En L) as (p & Pp & La).
  exists p. split; [congruence|]. rewrite <- La. apply latest_of_parents. rewrite !parents_firstn. f_equal. unfold parents.
  rewrite map_map. apply map_ext. intros m. exact (proj1 (Hg m)).
Qed.

Theorem apply_mods_fuel_mb env fuel : forall reps r' ns, mb_op (OComp reps ns) -> mb_op (OComp r' (apply_mods_fuel fuel env reps ns)).
Proof.
  induction fuel as [|f IH]; intros reps r' ns W; simpl; [apply (mb_op_reps reps); exact W|].
  pose proof (repeat_nodes_mb env reps ns reps W) as WR. apply mb_op_inv in WR as [WN WD]. constructor.
  - apply multi_built_map; [|exact WN]. intros [p l [lf | r sub]]; simpl; auto.
  - rewrite Forall_forall in *. intros m Hm. apply in_map_iff in Hm as (n & <- & Hn). specialize (WD n Hn).
    destruct n as [p l [lf | r sub]]; simpl in *; [constructor|]. apply IH. exact WD.
Qed.

Corollary apply_modifiers_mb env reps r' ns : mb_op (OComp reps ns) -> mb_op (OComp r' (apply_modifiers env reps ns)).
Proof. apply apply_mods_fuel_mb. Qed.

(* ------------------------------------------------------------------ a listed member of a group is listed before the holder *)
Lemma multi_member_before ns i n qs q : wf_nodes ns -> multi_built ns -> nth_error ns i = Some n -> n_link n = LMulti qs ->
  In q qs -> In i (bfs (parents ns)) -> In q (bfs (parents ns)) -> before (bfs (parents ns)) q i.
Proof.
  intros W B E L Hq Hi Hqb. pose proof (proj1 W) as WP.
  destruct (wf_nodes_link_multi ns i n qs W E L) as (p0 & Hp0 & _ & Hall).
  destruct (B i n qs E L) as (p & Pp & La).
  assert (Hp : nth_error (parents ns) i = Some (Some p)) by (rewrite parents_nth_error, E; simpl; now rewrite Pp).
  pose proof (bfs_parent_before _ _ _ _ WP Hp Hi) as Bp.
  rewrite Forall_forall in Hall. pose proof (Hall q Hq) as Hqi.
  unfold latest_of in La. apply find_rev_some in La as (l1 & l2 & El & _ & Hl2).
  assert (Hqp : In q (bfs (parents (firstn i ns)))) by (rewrite parents_firstn; apply bfs_firstn_In; [exact WP | split; assumption]).
  rewrite El in Hqp. apply in_app_or in Hqp as [Hq1 | [-> | Hq2]].
  - apply (before_trans _ q p i (bfs_NoDup _ WP)); [|exact Bp].
    apply (bfs_firstn_before (parents ns) i); [exact WP|]. rewrite <- parents_firstn, El.
    apply (before_app_lr l1 (p :: l2)); [exact Hq1 | left; reflexivity].
  - exact Bp.
  - exfalso. specialize (Hl2 q Hq2). assert (existsb (Nat.eqb q) qs = true); [|congruence].
    apply existsb_exists. exists q. split; [exact Hq | apply Nat.eqb_refl].
Qed.

(* ------------------------------------------------------------------ order of the decomposed listing *)
Lemma flat_map_split {A B} (g : A -> list B) : forall l L1 e L2, flat_map g l = L1 ++ e :: L2 ->
  exists l1 a l2 m1 m2, l = l1 ++ a :: l2 /\ g a = m1 ++ e :: m2 /\ L1 = flat_map g l1 ++ m1 /\ L2 = m2 ++ flat_map g l2.
Proof.
  induction l as [|a l IH]; intros L1 e L2 H; simpl in H; [destruct L1; discriminate|].
  apply app_eq_app in H as (m & [[E1 E2] | [E1 E2]]).
  - (* the split point lies in g a, or at its end *)
    destruct m as [|x m].
    + rewrite app_nil_r in E1. simpl in E2. symmetry in E2.
      destruct (IH [] e L2 E2) as (l1 & a' & l2 & m1 & m2 & -> & Ga & E3 & ->).
      exists (a :: l1), a', l2, m1, m2. repeat split; try assumption. simpl. rewrite E1, <- app_assoc, <- E3. now rewrite app_nil_r.
    + simpl in E2. inversion E2; subst x. exists [], a, l, L1, m. repeat split; try reflexivity. rewrite E1. reflexivity.
  - destruct (IH m e L2 E2) as (l1 & a' & l2 & m1 & m2 & -> & Ga & -> & ->).
    exists (a :: l1), a', l2, m1, m2. repeat split; try assumption. simpl. rewrite E1, <- app_assoc. reflexivity.
Qed.

Lemma NoDup_app_disjoint {A} (l1 l2 : list A) x : NoDup (l1 ++ l2) -> In x l1 -> In x l2 -> False.
Proof.
  induction l1 as [|a l1 IH]; simpl; intros ND H1 H2; [contradiction|]. inversion ND as [|? ? Hni ND']; subst.
  destruct H1 as [-> | H1]; [apply Hni; apply in_or_app; right; exact H2 | exact (IH ND' H1 H2)].
Qed.

Lemma path_app_cons_inj (P : path) i s j s' : (P ++ [i]) ++ s = (P ++ [j]) ++ s' -> i = j.
Proof. rewrite <- !app_assoc. simpl. apply app_inv_prefix_cons. Qed.

(* the sub-listing of node i of a graph at path P *)
Lemma glisting_node_entry ns P inh i e :
  In e (nth i (map (fun n => glisting_op (n_op n)) ns) (fun _ _ => []) (P ++ [i]) (eff_link P (nth i (map n_link ns) LNone) inh)) ->
  exists s, ge_path e = (P ++ [i]) ++ s.
Proof.
  intros H. destruct (nth_error ns i) as [n|] eqn:En.
  - assert (Hi : i < length ns) by (apply nth_error_Some; congruence).
    rewrite (nth_map_in (fun n => glisting_op (n_op n)) ns i _ n Hi) in H. exact (glisting_op_prefix _ _ _ _ H).
  - apply nth_error_None in En. rewrite (nth_overflow (map _ ns)) in H by (rewrite map_length; exact En). destruct H.
Qed.

Theorem glisting_op_order o : wf_op o -> mb_op o -> forall P inh L1 e L2, glisting_op o P inh = L1 ++ e :: L2 ->
  ge_link e = inh \/
  forall tgs t, ge_link e = GMulti tgs -> In t tgs -> (exists s, t = P ++ s /\ s <> []) /\ ~ In t (map ge_path (e :: L2)).
Proof.
  induction o as [l | r ns IH] using op_nodes_ind; intros W M P inh L1 e L2 H.
  - left. simpl in H. destruct L1 as [|x L1]; [inversion H; reflexivity|]. inversion H as [[Hx HL]]. destruct L1; discriminate.
  - apply wf_op_comp_inv in W as [Wn WD]. apply mb_op_inv in M as [Mn MD]. pose proof (proj1 Wn) as WP.
    rewrite glisting_op_unfold in H. apply flat_map_split in H as (b1 & i & b2 & m1 & m2 & Eb & Gi & -> & ->).
    assert (Hib : In i (bfs (parents ns))) by (rewrite Eb; apply in_or_app; right; left; reflexivity).
    pose proof (bfs_NoDup _ WP) as ND. rewrite Eb in ND.
    assert (Hi : i < length ns) by (apply bfs_lt_length in Hib; now rewrite parents_length in Hib).
    destruct (nth_error ns i) as [n|] eqn:En; [|apply nth_error_None in En; lia].
    (* entries listed after the sub-listing of node i have paths through other nodes *)
    assert (Later : forall x, In x (map ge_path (flat_map (fun i0 => nth i0 (map (fun n0 => glisting_op (n_op n0)) ns) (fun _ _ => [])
                      (P ++ [i0]) (eff_link P (nth i0 (map n_link ns) LNone) inh)) b2)) -> exists j s, In j b2 /\ x = (P ++ [j]) ++ s).
    { intros x Hx. apply in_map_iff in Hx as (e' & <- & He'). apply in_flat_map in He' as (j & Hj & He').
      apply glisting_node_entry in He' as (s & ->). exists j, s. split; [exact Hj | reflexivity]. }
    assert (Here : forall x, In x (map ge_path (e :: m2)) -> exists s, x = (P ++ [i]) ++ s).
    { intros x Hx. apply in_map_iff in Hx as (e' & <- & He'). apply (glisting_node_entry ns P inh i).
      rewrite Gi. apply in_or_app. right. exact He'. }
    assert (Ni2 : ~ In i b2) by (intros Hb; apply NoDup_remove_2 in ND; apply ND; apply in_or_app; right; exact Hb).
    rewrite (nth_map_in (fun n => glisting_op (n_op n)) ns i _ n Hi), (nth_error_nth _ _ n En), (nth_link ns i n En) in Gi.
    rewrite Forall_forall in IH, WD, MD. pose proof (nth_error_In _ _ En) as Hn.
    destruct (IH n Hn (WD n Hn) (MD n Hn) _ _ _ _ _ Gi) as [Inh | Inner].
    + (* the entry holds the link handed to node i *)
      unfold eff_link in Inh. destruct (has_relation (n_link n)) eqn:HR; [|left; exact Inh]. right.
      intros tgs t Hl Ht. rewrite Inh in Hl. destruct (n_link n) as [| ty p | qs | ty] eqn:L; simpl in Hl; try discriminate.
      inversion Hl; subst tgs. apply in_map_iff in Ht as (q & <- & Hq). split; [exists [q]; split; [reflexivity | discriminate]|].
      rewrite app_comm_cons, map_app. intros Hin. apply in_app_or in Hin as [Hin | Hin].
      * apply Here in Hin as (s & E). replace (P ++ [q]) with ((P ++ [q]) ++ []) in E by apply app_nil_r.
        apply path_app_cons_inj in E. subst q.
        destruct (wf_nodes_link_multi ns i n qs Wn En L) as (_ & _ & _ & Hall). rewrite Forall_forall in Hall. specialize (Hall i Hq). lia.
      * apply Later in Hin as (j & s & Hj & E). replace (P ++ [q]) with ((P ++ [q]) ++ []) in E by apply app_nil_r.
        apply path_app_cons_inj in E. subst j.
        assert (Hqb : In q (bfs (parents ns))) by (rewrite Eb; apply in_or_app; right; right; exact Hj).
        pose proof (multi_member_before ns i n qs q Wn Mn En L Hq Hib Hqb) as Bq. rewrite Eb in Bq.
        pose proof (before_split_in b1 b2 i q ND Bq) as Hq1.
        apply NoDup_remove_1 in ND. exact (NoDup_app_disjoint b1 b2 q ND Hq1 Hj).
    + (* the entry holds a link made further inside *)
      right. intros tgs t Hl Ht. destruct (Inner tgs t Hl Ht) as [(s & -> & Hs) Hni]. split.
      * exists (i :: s). split; [now rewrite <- app_assoc | discriminate].
      * rewrite app_comm_cons, map_app. intros Hin. apply in_app_or in Hin as [Hin | Hin]; [exact (Hni Hin)|].
        apply Later in Hin as (j & s' & Hj & E). apply path_app_cons_inj in E. subst j. contradiction.
Qed.

(* in a graph built by the library, a multi-link held after the hand-off never names an entry listed at or after its holder *)
Corollary glisting_multi_earlier r ns done e rest tgs t : wf_op (OComp r ns) -> mb_op (OComp r ns) ->
  glisting ns = done ++ e :: rest -> ge_link e = GMulti tgs -> In t tgs -> ~ In t (map ge_path (e :: rest)).
Proof.
  intros W M G L Ht. destruct (glisting_op_order (OComp 1 ns) (wf_op_reps r 1%Z ns W) (mb_op_reps r 1%Z ns M) [] GNone done e rest G) as [E | H].
  - rewrite E in L. discriminate.
  - exact (proj2 (H tgs t L Ht)).
Qed.

(* 6, for graphs built by the library: the member that is missing is no listed leaf at all (a sub-circuit, or an operation
   cut off by the depth limit) *)
Theorem flatten_none_built env r ns : wf_op (OComp r ns) -> mb_op (OComp r ns) -> flatten env ns = None ->
  exists done e rest tgs t t',
    glisting ns = done ++ e :: rest /\ ge_link e = GMulti tgs /\
    In t tgs /\ In t (map ge_path done) /\ In t' tgs /\ ~ In t' (map ge_path (glisting ns)).
Proof.
  intros W M H. apply flatten_none_characterisation in H as (done & e & rest & tgs & t & t' & G & L & Hin & Hp & Hin' & Hni).
  exists done, e, rest, tgs, t, t'. repeat split; try assumption.
  rewrite G, map_app. intros Hx. apply in_app_or in Hx as [Hx | Hx]; [exact (Hni Hx)|].
  exact (glisting_multi_earlier r ns done e rest tgs t' W M G L Hin' Hx).
Qed.
