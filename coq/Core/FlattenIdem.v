(* Flattening a flat graph of leaves: the re-inserted graph is the original renumbered by listing position; it is in
   listing order (its listing is 0, 1, 2, ...), reports the same listing (operations and times), and is a fixpoint of flatten.
   Needs: the order of the layered listing in terms of parent pointers (before_same_parent, before_parents). *)
From Coq Require Import ZArith List Bool Lia Arith Permutation Sorted.
Import ListNotations.
From QCE Require Import Base.Prelude Core.Model Core.BfsProofs Core.BfsWf Core.TimesProofs Core.TimesListing Core.TimesWf
  Core.FlattenProofs.
From Gen Require Import Ident Classes.
Local Open Scope nat_scope.

(* ------------------------------------------------------------------ order of the layered listing *)
Lemma before_flat_map_inv {A B} (g : A -> list B) (l : list A) x y : before (flat_map g l) x y ->
  (exists a, In a l /\ before (g a) x y) \/ (exists a a', before l a a' /\ In x (g a) /\ In y (g a')).
Proof.
  induction l as [|a l IH]; simpl; intros H.
  - destruct H as (l1 & l2 & l3 & E). destruct l1; discriminate.
  - apply before_app_inv in H as [H | [[Hx Hy] | H]].
    + left. exists a. split; [left; reflexivity | exact H].
    + right. apply in_flat_map in Hy as (a' & Ha' & Hy). exists a, a'. split; [|split; assumption].
      apply (before_app_lr [a] l); [left; reflexivity | exact Ha'].
    + apply IH in H as [(a0 & Ha0 & H) | (a0 & a1 & H & Hx & Hy)].
      * left. exists a0. split; [right; exact Ha0 | exact H].
      * right. exists a0, a1. split; [apply (before_app_l [a]); exact H | split; assumption].
Qed.

Lemma bfs_fuel_before_cases ps fuel x y : wf_parents ps -> before (bfs_fuel ps fuel) x y ->
  depth ps x < depth ps y \/ (depth ps x = depth ps y /\ before (level ps (depth ps x)) x y).
Proof.
  intros W. induction fuel as [|f IH]; intros H.
  - destruct H as (l1 & l2 & l3 & E). destruct l1; discriminate.
  - rewrite bfs_fuel_S in H. apply before_app_inv in H as [H | [[Hx Hy] | H]].
    + exact (IH H).
    + left. apply bfs_fuel_In in Hx as [_ Dx]; [|exact W]. apply level_spec in Hy as [_ Dy]; [|exact W]. lia.
    + right. pose proof (before_In _ _ _ H) as [Hx Hy].
      apply level_spec in Hx as [_ Dx]; [|exact W]. apply level_spec in Hy as [_ Dy]; [|exact W].
      split; [lia|]. rewrite Dx. exact H.
Qed.

Lemma level_before_bfs ps fuel k p q : k < fuel -> before (level ps k) p q -> before (bfs_fuel ps fuel) p q.
Proof.
  induction fuel as [|f IH]; intros Hk H; [lia|]. rewrite bfs_fuel_S.
  destruct (Nat.eq_dec k f) as [-> | Hne]; [apply before_app_l; exact H | apply before_app_r, IH; [lia | exact H]].
Qed.

Lemma level0_before ps x y : before (level ps 0) x y -> x < y.
Proof. simpl. intros H. exact (StronglySorted_before _ _ _ _ (children_sorted ps None) H). Qed.

Lemma levelS_before ps k x y : before (level ps (S k)) x y ->
  exists p q, nth_error ps x = Some (Some p) /\ nth_error ps y = Some (Some q) /\ ((p = q /\ x < y) \/ before (level ps k) p q).
Proof.
  simpl. intros H. apply before_flat_map_inv in H as [(a & _ & H) | (a & a' & H & Hx & Hy)].
  - pose proof (before_In _ _ _ H) as [Hx Hy]. apply children_spec in Hx, Hy. exists a, a. repeat split; try assumption.
    left. split; [reflexivity|]. exact (StronglySorted_before _ _ _ _ (children_sorted ps (Some a)) H).
  - apply children_spec in Hx, Hy. exists a, a'. repeat split; try assumption. right. exact H.
Qed.

(* O1: operations with the same parent are listed in insertion order *)
Theorem before_same_parent ps fuel x y : wf_parents ps -> before (bfs_fuel ps fuel) x y ->
  nth_error ps x = nth_error ps y -> x < y.
Proof.
  intros W H E. pose proof (before_In _ _ _ H) as [Hx Hy].
  pose proof (bfs_fuel_lt_length _ _ _ Hx) as Lx.
  assert (D : depth ps x = depth ps y).
  { destruct (nth_error ps x) as [[p|]|] eqn:Ex.
    - rewrite (depth_child _ _ _ W Ex), (depth_child _ _ _ W (eq_sym E)). reflexivity.
    - rewrite (depth_root _ _ Ex), (depth_root _ _ (eq_sym E)). reflexivity.
    - apply nth_error_None in Ex. lia. }
  apply bfs_fuel_before_cases in H as [H | [_ H]]; [lia | | exact W].
  destruct (depth ps x) as [|k] eqn:Dx; [exact (level0_before _ _ _ H)|].
  apply levelS_before in H as (p & q & Ep & Eq & [[_ L] | B]); [exact L|].
  exfalso. assert (p = q) by congruence. subst q.
  exact (before_NoDup_neq _ _ _ (level_NoDup ps W k) B eq_refl).
Qed.

(* O2: the parents of operations are listed in the order of the operations *)
Theorem before_parents ps fuel x y p q : wf_parents ps -> before (bfs_fuel ps fuel) x y ->
  nth_error ps x = Some (Some p) -> nth_error ps y = Some (Some q) -> p = q \/ before (bfs_fuel ps fuel) p q.
Proof.
  intros W H Ep Eq. pose proof (before_In _ _ _ H) as [Hx Hy].
  pose proof (bfs_fuel_parent_listed _ _ _ _ W Ep Hx) as Hp. pose proof (bfs_fuel_parent_listed _ _ _ _ W Eq Hy) as Hq.
  pose proof (depth_child _ _ _ W Ep) as Dx. pose proof (depth_child _ _ _ W Eq) as Dy.
  destruct (Nat.eq_dec p q) as [-> | Hne]; [left; reflexivity | right].
  apply bfs_fuel_before_cases in H as [H | [D H]]; [| | exact W].
  - destruct (before_total _ p q Hp Hq Hne) as [B | B]; [exact B|]. apply bfs_depth_sorted in B; [lia | exact W].
  - rewrite Dx in H. apply levelS_before in H as (p' & q' & Ep' & Eq' & [[E _] | B]).
    + congruence.
    + assert (p' = p) by congruence. assert (q' = q) by congruence. subst p' q'.
      apply (level_before_bfs ps fuel (depth ps p)); [|exact B].
      apply bfs_fuel_In in Hx as [_ Hd]; [lia | exact W].
Qed.

(* O3: roots come first *)
Lemma before_root ps fuel x y : wf_parents ps -> before (bfs_fuel ps fuel) x y -> nth_error ps y = Some None -> nth_error ps x = Some None.
Proof.
  intros W H E. pose proof (bfs_depth_sorted _ _ _ _ W H) as D. rewrite (depth_root _ _ E) in D.
  apply depth_zero_inv; [|lia]. apply before_In in H as [Hx _]. exact (bfs_fuel_lt_length _ _ _ Hx).
Qed.

(* ------------------------------------------------------------------ a forest whose parent pointers are monotone lists itself in insertion order *)
Definition ple (a b : option nat) : Prop :=
  match a, b with None, _ => True | Some _, None => False | Some x, Some y => x <= y end.

Definition mono_parents (ps : list (option nat)) : Prop :=
  forall i j a b, i < j -> nth_error ps i = Some a -> nth_error ps j = Some b -> ple a b.

Lemma mono_depth ps : wf_parents ps -> mono_parents ps -> forall j i, i <= j -> j < length ps -> depth ps i <= depth ps j.
Proof.
  intros W M j. induction j as [j IH] using lt_wf_ind. intros i Hij Hj.
  destruct (Nat.eq_dec i j) as [-> | Hne]; [lia|].
  destruct (nth_error ps j) as [b|] eqn:Ej; [|apply nth_error_None in Ej; lia].
  destruct (nth_error ps i) as [a|] eqn:Ei; [|apply nth_error_None in Ei; lia].
  assert (L : ple a b) by (apply (M i j); [lia | assumption | assumption]).
  destruct a as [p|]; [|rewrite (depth_root _ _ Ei); lia].
  destruct b as [q|]; [|contradiction]. simpl in L.
  rewrite (depth_child _ _ _ W Ei), (depth_child _ _ _ W Ej). pose proof (W _ _ Ej).
  apply le_n_S. apply IH; lia.
Qed.

Lemma StronglySorted_flat_map (g : nat -> list nat) (l : list nat) :
  StronglySorted lt l -> (forall a, In a l -> StronglySorted lt (g a)) ->
  (forall a a' x y, In a l -> In a' l -> a < a' -> In x (g a) -> In y (g a') -> x < y) -> StronglySorted lt (flat_map g l).
Proof.
  induction l as [|a l IH]; simpl; intros S Hg Hc; [constructor|].
  inversion S as [|? ? S' Fa]; subst. apply StronglySorted_app.
  - apply Hg. left. reflexivity.
  - apply IH; auto. intros a1 a2 x y H1 H2. apply Hc; right; assumption.
  - intros x y Hx Hy. apply in_flat_map in Hy as (a' & Ha' & Hy). rewrite Forall_forall in Fa.
    apply (Hc a a' x y); [left; reflexivity | right; exact Ha' | exact (Fa _ Ha') | exact Hx | exact Hy].
Qed.

Lemma mono_level_sorted ps : wf_parents ps -> mono_parents ps -> forall k, StronglySorted lt (level ps k).
Proof.
  intros W M k. induction k as [|k IH]; simpl; [apply children_sorted|].
  apply StronglySorted_flat_map; [exact IH | intros; apply children_sorted |].
  intros a a' x y _ _ Haa Hx Hy. apply children_spec in Hx, Hy.
  destruct (Nat.lt_ge_cases x y) as [L | L]; [exact L | exfalso].
  destruct (Nat.eq_dec x y) as [-> | Hne]; [assert (a = a') by congruence; lia|].
  assert (P : ple (Some a') (Some a)) by (apply (M y x); [lia | assumption | assumption]). simpl in P. lia.
Qed.

Lemma mono_bfs_sorted ps fuel : wf_parents ps -> mono_parents ps -> StronglySorted lt (bfs_fuel ps fuel).
Proof.
  intros W M. induction fuel as [|f IH]; [constructor|]. rewrite bfs_fuel_S. apply StronglySorted_app.
  - exact IH.
  - apply mono_level_sorted; assumption.
  - intros x y Hx Hy. apply bfs_fuel_In in Hx as [Lx Dx]; [|exact W]. apply level_spec in Hy as [Ly Dy]; [|exact W].
    destruct (Nat.lt_ge_cases x y) as [L | L]; [exact L | exfalso].
    pose proof (mono_depth ps W M x y L Lx). lia.
Qed.

Lemma sorted_ext (l1 : list nat) : forall l2, StronglySorted lt l1 -> StronglySorted lt l2 -> (forall x, In x l1 <-> In x l2) -> l1 = l2.
Proof.
  induction l1 as [|a l1 IH]; intros [|b l2] S1 S2 H.
  - reflexivity.
  - exfalso. apply (H b). left. reflexivity.
  - exfalso. apply (H a). left. reflexivity.
  - inversion S1 as [|? ? S1' F1]; inversion S2 as [|? ? S2' F2]; subst. rewrite Forall_forall in F1, F2.
    assert (a = b).
    { destruct (proj1 (H a) (or_introl eq_refl)) as [E | Ha]; [congruence|].
      destruct (proj2 (H b) (or_introl eq_refl)) as [E | Hb]; [congruence|].
      specialize (F1 _ Hb). specialize (F2 _ Ha). lia. }
    subst b. f_equal. apply IH; auto. intros x. split; intros Hx.
    + destruct (proj1 (H x) (or_intror Hx)) as [E | Hx']; [|exact Hx']. subst. specialize (F1 _ Hx). lia.
    + destruct (proj2 (H x) (or_intror Hx)) as [E | Hx']; [|exact Hx']. subst. specialize (F2 _ Hx). lia.
Qed.

Lemma seq_sorted n : forall a, StronglySorted lt (seq a n).
Proof.
  induction n as [|n IH]; intros a; simpl; constructor; [apply IH|].
  apply Forall_forall. intros x Hx. apply in_seq in Hx. lia.
Qed.

Theorem mono_bfs_seq ps : wf_parents ps -> mono_parents ps -> (forall i, i < length ps -> depth ps i < max_layers) ->
  bfs ps = seq 0 (length ps).
Proof.
  intros W M F. apply sorted_ext; [apply mono_bfs_sorted; assumption | apply seq_sorted |].
  intros x. rewrite (bfs_In ps x W), in_seq. split; [intros [H _]; lia | intros [_ H]; split; [exact H | apply F; exact H]].
Qed.

(* ------------------------------------------------------------------ the listing of a prefix of the graph *)
Lemma filter_all {A} (P : A -> bool) l : (forall x, In x l -> P x = true) -> filter P l = l.
Proof.
  induction l as [|a l IH]; simpl; intros H; [reflexivity|]. rewrite (H a (or_introl eq_refl)). f_equal.
  apply IH. intros x Hx. apply H. right. exact Hx.
Qed.

Lemma filter_flat_map {A B} (P : B -> bool) (g : A -> list B) l :
  filter P (flat_map g l) = flat_map (fun a => filter P (g a)) l.
Proof. induction l as [|a l IH]; simpl; [reflexivity|]. now rewrite filter_app, IH. Qed.

Lemma flat_map_filter_nil {A B} (P : A -> bool) (g : A -> list B) l :
  (forall x, P x = false -> g x = []) -> flat_map g (filter P l) = flat_map g l.
Proof.
  intros H. induction l as [|a l IH]; simpl; [reflexivity|]. destruct (P a) eqn:E; simpl; [now rewrite IH|].
  rewrite (H a E). exact IH.
Qed.

Lemma filter_filter_impl {A} (P Q : A -> bool) l : (forall x, P x = true -> Q x = true) -> filter P (filter Q l) = filter P l.
Proof.
  intros H. induction l as [|a l IH]; simpl; [reflexivity|]. destruct (Q a) eqn:E; simpl.
  - destruct (P a); [f_equal|]; exact IH.
  - destruct (P a) eqn:Pa; [rewrite (H a Pa) in E; discriminate | exact IH].
Qed.

Lemma before_filter_inv {A} (P : A -> bool) l x y : before (filter P l) x y -> before l x y.
Proof.
  induction l as [|a l IH]; simpl; intros H.
  - destruct H as (l1 & l2 & l3 & E). destruct l1; discriminate.
  - destruct (P a).
    + apply before_cons_inv in H as [[-> Hy] | H].
      * apply filter_In in Hy as [Hy _]. apply (before_app_lr [x] l); [left; reflexivity | exact Hy].
      * apply (before_app_l [a]). exact (IH H).
    + apply (before_app_l [a]). exact (IH H).
Qed.

Lemma wf_parents_app_l ps qs : wf_parents (ps ++ qs) -> wf_parents ps.
Proof.
  intros W i p E. apply (W i p). rewrite nth_error_app1; [exact E|]. apply nth_error_Some. congruence.
Qed.

Lemma children_snoc_filter ps a p : filter (fun x => x <? length ps) (children (ps ++ [a]) p) = children ps p.
Proof.
  rewrite children_snoc, filter_app, filter_all.
  - destruct (opt_nat_eqb a p); simpl; [rewrite Nat.ltb_irrefl|]; now rewrite app_nil_r.
  - intros x Hx. apply Nat.ltb_lt. exact (children_lt_length _ _ _ Hx).
Qed.

Lemma no_children_of_new ps a : wf_parents (ps ++ [a]) -> children ps (Some (length ps)) = [].
Proof.
  intros W. destruct (children ps (Some (length ps))) as [|j l] eqn:E; [reflexivity | exfalso].
  assert (Hj : In j (children ps (Some (length ps)))) by (rewrite E; left; reflexivity).
  pose proof (children_lt_length _ _ _ Hj) as L. apply children_spec in Hj.
  assert (nth_error (ps ++ [a]) j = Some (Some (length ps))) as Hj' by (rewrite nth_error_app1; assumption).
  apply W in Hj'. lia.
Qed.

Lemma level_snoc_filter ps a k : wf_parents (ps ++ [a]) ->
  filter (fun x => x <? length ps) (level (ps ++ [a]) k) = level ps k.
Proof.
  intros W. induction k as [|k IH]; simpl; [apply children_snoc_filter|].
  rewrite filter_flat_map. rewrite (flat_map_ext _ (fun i => children ps (Some i))) by (intros i; apply children_snoc_filter).
  rewrite <- IH. symmetry. apply flat_map_filter_nil. intros x Hx. apply Nat.ltb_ge in Hx.
  destruct (Nat.eq_dec x (length ps)) as [-> | Hne]; [apply (no_children_of_new ps a W)|].
  destruct (children ps (Some x)) as [|j l] eqn:E; [reflexivity | exfalso].
  assert (Hj : In j (children ps (Some x))) by (rewrite E; left; reflexivity).
  pose proof (children_lt_length _ _ _ Hj) as L. apply children_spec in Hj.
  assert (nth_error (ps ++ [a]) j = Some (Some x)) as Hj' by (rewrite nth_error_app1; assumption).
  apply W in Hj'. lia.
Qed.

Lemma bfs_fuel_snoc_filter ps a fuel : wf_parents (ps ++ [a]) ->
  filter (fun x => x <? length ps) (bfs_fuel (ps ++ [a]) fuel) = bfs_fuel ps fuel.
Proof.
  intros W. induction fuel as [|f IH]; [reflexivity|]. rewrite !bfs_fuel_S, filter_app, IH, level_snoc_filter by exact W. reflexivity.
Qed.

(* the listing of the first i nodes is the listing of the graph restricted to them: adding nodes does not reorder *)
Theorem bfs_fuel_firstn ps fuel i : wf_parents ps ->
  bfs_fuel (firstn i ps) fuel = filter (fun x => x <? i) (bfs_fuel ps fuel).
Proof.
  induction ps as [|a ps IH] using rev_ind; intros W.
  - rewrite firstn_nil. destruct fuel; reflexivity.
  - destruct (Nat.le_gt_cases i (length ps)) as [Hi | Hi].
    + rewrite firstn_snoc_lt by exact Hi. rewrite (IH (wf_parents_app_l _ _ W)).
      rewrite <- (bfs_fuel_snoc_filter ps a fuel W). apply filter_filter_impl.
      intros x Hx. apply Nat.ltb_lt in Hx. apply Nat.ltb_lt. lia.
    + rewrite firstn_all2 by (rewrite app_length; simpl; lia). symmetry. apply filter_all.
      intros x Hx. apply bfs_fuel_lt_length in Hx. rewrite app_length in Hx. simpl in Hx. apply Nat.ltb_lt. lia.
Qed.

Corollary bfs_firstn_before ps i x y : wf_parents ps -> before (bfs (firstn i ps)) x y -> before (bfs ps) x y.
Proof. intros W H. unfold bfs in H. rewrite (bfs_fuel_firstn ps _ i W) in H. exact (before_filter_inv _ _ _ _ H). Qed.

Corollary bfs_firstn_In ps i x : wf_parents ps -> In x (bfs (firstn i ps)) <-> In x (bfs ps) /\ x < i.
Proof. intros W. unfold bfs. rewrite (bfs_fuel_firstn ps _ i W), filter_In, Nat.ltb_lt. reflexivity. Qed.

(* ------------------------------------------------------------------ positions in a duplicate-free list *)
Fixpoint index_of (x : nat) (l : list nat) : nat :=
  match l with [] => 0 | y :: t => if Nat.eqb y x then 0 else S (index_of x t) end.

Lemma index_of_nth x l : In x l -> nth_error l (index_of x l) = Some x.
Proof.
  induction l as [|y t IH]; simpl; [tauto|]. destruct (Nat.eqb y x) eqn:E.
  - apply Nat.eqb_eq in E. subst. reflexivity.
  - intros [-> | H]; [rewrite Nat.eqb_refl in E; discriminate | exact (IH H)].
Qed.

Lemma index_of_lt x l : In x l -> index_of x l < length l.
Proof. intros H. apply nth_error_Some. rewrite (index_of_nth x l H). discriminate. Qed.

Lemma nth_index_of l : NoDup l -> forall k x, nth_error l k = Some x -> index_of x l = k.
Proof.
  induction l as [|y t IH]; intros ND [|k] x E; simpl in *; try discriminate.
  - inversion E; subst. now rewrite Nat.eqb_refl.
  - inversion ND as [|? ? Hni ND']; subst. destruct (Nat.eqb y x) eqn:Eq.
    + apply Nat.eqb_eq in Eq. subst. exfalso. apply Hni. eapply nth_error_In. exact E.
    + f_equal. apply IH; assumption.
Qed.

Lemma index_of_app_l x l1 l2 : In x l1 -> index_of x (l1 ++ l2) = index_of x l1.
Proof.
  induction l1 as [|y t IH]; simpl; [tauto|]. destruct (Nat.eqb y x) eqn:E; [reflexivity|].
  intros [-> | H]; [rewrite Nat.eqb_refl in E; discriminate | f_equal; exact (IH H)].
Qed.

Lemma index_of_app_r x l1 l2 : ~ In x l1 -> index_of x (l1 ++ x :: l2) = length l1.
Proof.
  induction l1 as [|y t IH]; simpl; intros H; [now rewrite Nat.eqb_refl|].
  destruct (Nat.eqb y x) eqn:E; [apply Nat.eqb_eq in E; subst; exfalso; apply H; left; reflexivity|].
  f_equal. apply IH. intros Hx. apply H. right. exact Hx.
Qed.

Lemma index_of_before l x y : NoDup l -> before l x y -> index_of x l < index_of y l.
Proof.
  intros ND (l1 & l2 & l3 & ->).
  assert (Hx : ~ In x l1).
  { intros H. apply NoDup_remove_2 in ND. apply ND. apply in_or_app. left. exact H. }
  rewrite (index_of_app_r x l1 _ Hx).
  replace (l1 ++ x :: l2 ++ y :: l3) with ((l1 ++ x :: l2) ++ y :: l3) in * by (rewrite <- app_assoc; reflexivity).
  assert (Hy : ~ In y (l1 ++ x :: l2)).
  { intros H. apply NoDup_remove_2 in ND. apply ND. apply in_or_app. left. exact H. }
  rewrite (index_of_app_r y _ _ Hy), app_length. simpl. lia.
Qed.

(* an element listed before the one at which the list is split lies in the first part *)
Lemma before_split_in {A} (b1 b2 : list A) i q : NoDup (b1 ++ i :: b2) -> before (b1 ++ i :: b2) q i -> In q b1.
Proof.
  intros ND B. apply before_app_inv in B as [B | [[B _] | B]].
  - exact (proj1 (before_In _ _ _ B)).
  - exact B.
  - exfalso. apply NoDup_remove_2 in ND. apply ND. apply in_or_app. right.
    apply before_cons_inv in B as [[_ B] | B]; [exact B | exact (proj2 (before_In _ _ _ B))].
Qed.

(* ------------------------------------------------------------------ more list facts *)
Lemma nth_error_before {A} (l : list A) j j' x y : j < j' -> nth_error l j = Some x -> nth_error l j' = Some y -> before l x y.
Proof.
  intros Hj Ex Ey. apply nth_error_split in Ey as (l1 & l2 & -> & L). subst j'.
  rewrite nth_error_app1 in Ex by exact Hj. apply (before_app_lr l1 (y :: l2)); [eapply nth_error_In; exact Ex | left; reflexivity].
Qed.

Lemma before_trans (l : list nat) x y z : NoDup l -> before l x y -> before l y z -> before l x z.
Proof.
  intros ND B1 B2. pose proof (index_of_before _ _ _ ND B1). pose proof (index_of_before _ _ _ ND B2).
  destruct (Nat.eq_dec x z) as [-> | Hne]; [lia|].
  destruct (before_total l x z (proj1 (before_In _ _ _ B1)) (proj2 (before_In _ _ _ B2)) Hne) as [B | B]; [exact B|].
  pose proof (index_of_before _ _ _ ND B). lia.
Qed.

Lemma find_all_false {A} (g : A -> bool) l : (forall x, In x l -> g x = false) -> find g l = None.
Proof.
  induction l as [|a l IH]; simpl; intros H; [reflexivity|]. rewrite (H a (or_introl eq_refl)). apply IH.
  intros x Hx. apply H. right. exact Hx.
Qed.

Lemma find_rev_intro {A} (g : A -> bool) l1 x l2 : g x = true -> (forall y, In y l2 -> g y = false) ->
  find g (rev (l1 ++ x :: l2)) = Some x.
Proof.
  intros Hx H. rewrite rev_app_distr. simpl. rewrite <- app_assoc, find_app.
  rewrite find_all_false by (intros y Hy; apply H; apply in_rev; exact Hy). simpl. now rewrite Hx.
Qed.

Lemma nth_firstn {A} (l : list A) i r d : r < i -> nth r (firstn i l) d = nth r l d.
Proof.
  revert i r. induction l as [|a l IH]; intros [|i] [|r] H; simpl; try reflexivity; try lia. apply IH. lia.
Qed.

Lemma NoDup_map_singleton (l : list nat) : NoDup l -> NoDup (map (fun i => [i]) l).
Proof.
  induction 1 as [|a l Hni ND IH]; simpl; constructor; [|exact IH].
  intros H. apply in_map_iff in H as (x & E & Hx). inversion E; subst. contradiction.
Qed.

Lemma NoDup_prefix {A} (l1 l2 : list A) : NoDup (l1 ++ l2) -> NoDup l1.
Proof.
  induction l1 as [|a l1 IH]; simpl; intros H; [constructor|]. inversion H as [|? ? Hni ND]; subst. constructor.
  - intros Ha. apply Hni. apply in_or_app. left. exact Ha.
  - exact (IH ND).
Qed.

Lemma seq_split_at k p : p < k -> seq 0 k = seq 0 p ++ p :: seq (S p) (k - S p).
Proof. intros H. replace k with (p + S (k - S p)) at 1 by lia. rewrite seq_app. reflexivity. Qed.

(* ------------------------------------------------------------------ renumbering by listing position *)
Definition dnode : node := Node None LNone (OLeaf dleaf).

Definition rlink (pos : nat -> nat) (l : link) : link :=
  match l with
  | LNone => LNone
  | LRel t p => LRel t (pos p)
  | LMulti ps => LMulti (map pos ps)
  | LDangling t => LDangling t
  end.

Definition renum (pos : nat -> nat) (n : node) : node := Node (option_map pos (n_parent n)) (rlink pos (n_link n)) (n_op n).

Definition renumbered (f : list node) (pos : nat -> nat) (l : list nat) : list node := map (fun i => renum pos (nth i f dnode)) l.

Definition link_members (l : link) : list nat := match l with LRel _ p => [p] | LMulti qs => qs | _ => [] end.

Lemma node_eta n : n = Node (n_parent n) (n_link n) (n_op n).
Proof. destruct n; reflexivity. Qed.

Lemma parents_firstn i f : parents (firstn i f) = firstn i (parents f).
Proof. unfold parents. symmetry. apply firstn_map. Qed.

Lemma flat_link_multi m tgs qs : tgs <> [] -> map (plookup m) tgs = map Some qs -> flat_link m (GMulti tgs) = Some (LMulti qs).
Proof.
  destruct tgs as [|t0 ts]; [contradiction|]. intros _ H. cbn [flat_link].
  destruct (filter_map (plookup m) (t0 :: ts)) eqn:F.
  - exfalso. rewrite filter_map_nil in F. specialize (F t0 (or_introl eq_refl)). destruct qs; simpl in H; inversion H. congruence.
  - apply all_some_spec in H. rewrite H. reflexivity.
Qed.

Lemma multi_ref_from_renum (pos : nat -> nat) tm tm' : forall qs best,
  (forall q, In q (best :: qs) -> snd (nth (pos q) tm' (0, 0)%Z) = snd (nth q tm (0, 0)%Z)) ->
  multi_ref_from tm' (map pos qs) (pos best) = pos (multi_ref_from tm qs best).
Proof.
  induction qs as [|a qs IH]; intros best H; [reflexivity|]. cbn [map multi_ref_from].
  rewrite (H a) by (right; left; reflexivity). rewrite (H best) by (left; reflexivity).
  destruct (_ >? _)%Z; apply IH; intros q [<- | Hq]; apply H; simpl; auto.
Qed.

Lemma multi_ref_renum (pos : nat -> nat) tm tm' qs :
  (forall q, In q qs -> snd (nth (pos q) tm' (0, 0)%Z) = snd (nth q tm (0, 0)%Z)) ->
  multi_ref tm' (map pos qs) = option_map pos (multi_ref tm qs).
Proof. destruct qs as [|q0 qs]; intros H; [reflexivity|]. simpl. f_equal. apply multi_ref_from_renum. exact H. Qed.

Lemma link_start_renum (pos : nat -> nat) tm tm' l d :
  (forall q, In q (link_members l) -> nth (pos q) tm' (0, 0)%Z = nth q tm (0, 0)%Z) ->
  link_start None tm' (rlink pos l) d = link_start None tm l d.
Proof.
  intros H. destruct l as [| t p | qs | t]; cbn [rlink link_start]; try reflexivity.
  - rewrite (H p) by (left; reflexivity). reflexivity.
  - rewrite (multi_ref_renum pos tm tm' qs) by (intros q Hq; f_equal; apply H; exact Hq).
    destruct (multi_ref tm qs) as [m|] eqn:M; simpl; [|reflexivity]. rewrite (H m); [reflexivity|]. exact (multi_ref_In _ _ _ M).
Qed.

Lemma index_of_seq n q : q < n -> index_of q (seq 0 n) = q.
Proof.
  intros H. apply nth_index_of; [apply seq_NoDup|]. rewrite (nth_error_nth' _ 0) by (rewrite seq_length; exact H).
  now rewrite seq_nth.
Qed.

Section Renum.
  Variables (env : denv) (f : list node) (ls : list leaf).
  Hypothesis Hops : map n_op f = map OLeaf ls.
  Hypothesis Wf : wf_nodes f.
  Hypothesis Bu : built env f.
  Hypothesis Full : fully_listed f.

  Local Notation b := (bfs (parents f)).
  Local Notation pos := (fun q => index_of q (bfs (parents f))).
  Local Notation R := (renumbered f (fun q => index_of q (bfs (parents f)))).

  Lemma WP : wf_parents (parents f).
  Proof. exact (proj1 Wf). Qed.

  Lemma NDb : NoDup b.
  Proof. apply bfs_NoDup. exact WP. Qed.

  Lemma b_lt i : In i b -> i < length f.
  Proof. intros H. apply bfs_lt_length in H. now rewrite parents_length in H. Qed.

  Lemma b_all i : i < length f -> In i b.
  Proof. intros H. apply bfs_In; [exact WP|]. rewrite parents_length. split; [exact H | apply Full; exact H]. Qed.

  Lemma b_nth i : In i b -> exists n, nth_error f i = Some n /\ nth i f dnode = n.
  Proof.
    intros H. apply b_lt in H. destruct (nth_error f i) as [n|] eqn:E; [|apply nth_error_None in E; lia].
    exists n. split; [reflexivity | exact (nth_error_nth _ _ _ E)].
  Qed.

  Lemma parent_nth i n : nth_error f i = Some n -> nth_error (parents f) i = Some (n_parent n).
  Proof. intros E. rewrite parents_nth_error, E. reflexivity. Qed.

  (* the shape of the nodes *)
  Lemma root_shape i n : nth_error f i = Some n -> n_link n = LNone ->
    n = Node None LNone (n_op n) /\ leaf_at_any (firstn i f) (op_channels (n_op n)) = None.
  Proof.
    intros E L. pose proof (Bu i n E) as B. rewrite L in B. unfold new_node in B.
    destruct (leaf_at_any (firstn i f) (op_channels (n_op n))) as [j|]; [rewrite <- B in L; discriminate|].
    split; [symmetry; exact B | reflexivity].
  Qed.

  Lemma rel_shape i n t p : nth_error f i = Some n -> n_link n = LRel t p ->
    n = Node (Some p) (LRel t p) (n_op n) /\ nth_error (parents f) i = Some (Some p).
  Proof.
    intros E L. destruct (wf_nodes_link_rel f i n t p Wf E L) as [Hp _]. split; [|exact Hp].
    assert (Hp' : n_parent n = Some p) by (rewrite (parent_nth i n E) in Hp; congruence). rewrite (node_eta n) at 1. rewrite Hp', L. reflexivity.
  Qed.

  Lemma multi_shape i n qs : nth_error f i = Some n -> n_link n = LMulti qs ->
    exists p, n = Node (Some p) (LMulti qs) (n_op n) /\ nth_error (parents f) i = Some (Some p) /\ In p qs /\
              forall q, In q qs -> q < i /\ (q = p \/ before b q p).
  Proof.
    intros E L. destruct (wf_nodes_link_multi f i n qs Wf E L) as (p & Hp & Hin & Hall).
    exists p. pose proof Hp as Hp0. assert (Hp' : n_parent n = Some p) by (rewrite (parent_nth i n E) in Hp; congruence).
    split; [rewrite (node_eta n) at 1; rewrite Hp', L; reflexivity|]. split; [exact Hp0|]. split; [exact Hin|].
    intros q Hq. rewrite Forall_forall in Hall. pose proof (Hall q Hq) as Hqi. split; [exact Hqi|].
    pose proof (Bu i n E) as B. rewrite L in B. unfold new_node in B.
    destruct (latest_of (firstn i f) qs) as [p'|] eqn:La.
    - assert (p' = p) by (rewrite <- B in Hp'; simpl in Hp'; congruence). subst p'.
      unfold latest_of in La. apply find_rev_some in La as (l1 & l2 & El & _ & Hl2).
      assert (Hqb : In q (bfs (parents (firstn i f)))).
      { rewrite parents_firstn. apply bfs_firstn_In; [exact WP|]. split; [|exact Hqi].
        apply b_all. assert (i < length f) by (apply nth_error_Some; congruence). lia. }
      rewrite El in Hqb. apply in_app_or in Hqb as [Hq1 | [-> | Hq2]].
      + right. apply (bfs_firstn_before (parents f) i); [exact WP|]. rewrite <- parents_firstn, El.
        apply (before_app_lr l1 (p :: l2)); [exact Hq1 | left; reflexivity].
      + left. reflexivity.
      + exfalso. specialize (Hl2 q Hq2). assert (existsb (Nat.eqb q) qs = true); [|congruence].
        apply existsb_exists. exists q. split; [exact Hq | apply Nat.eqb_refl].
    - exfalso. destruct (leaf_at_any (firstn i f) (op_channels (n_op n))); rewrite <- B in L; discriminate.
  Qed.

  Lemma members_before i n q : In i b -> nth_error f i = Some n -> In q (link_members (n_link n)) -> before b q i.
  Proof.
    intros Hi E Hq. destruct (n_link n) as [| t p | qs | t] eqn:L; simpl in Hq; try contradiction.
    - destruct Hq as [<- | []]. destruct (rel_shape i n t p E L) as [_ Hp].
      exact (bfs_parent_before _ _ _ _ WP Hp Hi).
    - destruct (multi_shape i n qs E L) as (p & _ & Hp & _ & Hall). destruct (Hall q Hq) as [_ [-> | B]].
      + exact (bfs_parent_before _ _ _ _ WP Hp Hi).
      + apply (before_trans b q p i NDb B). exact (bfs_parent_before _ _ _ _ WP Hp Hi).
  Qed.

  Lemma link_sane i n : nth_error f i = Some n -> (forall t, n_link n <> LDangling t) /\ n_link n <> LMulti [].
  Proof.
    intros E. split; [intros t; exact (wf_nodes_no_dangling f i n t Wf E)|].
    intros L. destruct (wf_nodes_link_multi f i n [] Wf E L) as (p & _ & [] & _).
  Qed.

  (* ---------------------------------------------------------------- the renumbered prefix R b1, b = b1 ++ b2 *)
  Lemma R_length l : length (R l) = length l.
  Proof. apply map_length. Qed.

  Lemma R_nth l j i : nth_error l j = Some i -> nth_error (R l) j = Some (renum pos (nth i f dnode)).
  Proof. intros E. unfold renumbered. rewrite nth_error_map, E. reflexivity. Qed.

  Lemma R_parents l : parents (R l) = map (fun i => option_map pos (n_parent (nth i f dnode))) l.
  Proof. unfold parents, renumbered. rewrite map_map. reflexivity. Qed.

  Lemma pos_prefix b1 b2 j i : b = b1 ++ b2 -> nth_error b1 j = Some i -> index_of i b = j.
  Proof.
    intros Eb E. apply nth_index_of; [exact NDb|]. rewrite Eb, nth_error_app1; [exact E|]. apply nth_error_Some. congruence.
  Qed.

  Lemma prefix_in b1 b2 i : b = b1 ++ b2 -> In i b1 -> In i b.
  Proof. intros Eb H. rewrite Eb. apply in_or_app. left. exact H. Qed.

  (* parent pointers of the renumbered prefix, looked up *)
  Lemma R_parent_inv b1 b2 j a : b = b1 ++ b2 -> nth_error (parents (R b1)) j = Some a ->
    exists i n, nth_error b1 j = Some i /\ nth_error f i = Some n /\ a = option_map pos (n_parent n).
  Proof.
    intros Eb E. rewrite R_parents, nth_error_map in E. destruct (nth_error b1 j) as [i|] eqn:Ei; [|discriminate].
    simpl in E. inversion E; subst. destruct (b_nth i) as (n & En & ->); [eapply prefix_in; [exact Eb | eapply nth_error_In; exact Ei]|].
    exists i, n. repeat split; assumption.
  Qed.

  Lemma R_wf_parents b1 b2 : b = b1 ++ b2 -> wf_parents (parents (R b1)).
  Proof.
    intros Eb j p' E. apply (R_parent_inv b1 b2 j _ Eb) in E as (i & n & Ei & En & Ea).
    destruct (n_parent n) as [p|] eqn:Pn; [|discriminate]. simpl in Ea. inversion Ea; subst p'.
    assert (Hi : In i b) by (eapply prefix_in; [exact Eb | eapply nth_error_In; exact Ei]).
    assert (B : before b p i) by (apply (bfs_parent_before _ _ _ _ WP); [rewrite (parent_nth i n En), Pn; reflexivity | exact Hi]).
    apply (index_of_before _ _ _ NDb) in B. rewrite (pos_prefix b1 b2 j i Eb Ei) in B. exact B.
  Qed.

  Lemma R_mono b1 b2 : b = b1 ++ b2 -> mono_parents (parents (R b1)).
  Proof.
    intros Eb j j' a a' Hj E E'. apply (R_parent_inv b1 b2 _ _ Eb) in E as (x & nx & Ex & Enx & ->).
    apply (R_parent_inv b1 b2 _ _ Eb) in E' as (y & ny & Ey & Eny & ->).
    assert (B : before b x y).
    { rewrite Eb. apply before_app_r. exact (nth_error_before b1 j j' x y Hj Ex Ey). }
    destruct (n_parent nx) as [p|] eqn:Px; [|exact I]. destruct (n_parent ny) as [q|] eqn:Py; simpl.
    - destruct (before_parents (parents f) _ x y p q WP B) as [-> | Bp].
      + rewrite (parent_nth x nx Enx), Px. reflexivity.
      + rewrite (parent_nth y ny Eny), Py. reflexivity.
      + lia.
      + apply (index_of_before _ _ _ NDb) in Bp. lia.
    - assert (nth_error (parents f) x = Some None) as Hx.
      { apply (before_root (parents f) _ x y WP B). rewrite (parent_nth y ny Eny), Py. reflexivity. }
      rewrite (parent_nth x nx Enx), Px in Hx. discriminate.
  Qed.

  Lemma before_in_prefix b1 b2 j i p : b = b1 ++ b2 -> nth_error b1 j = Some i -> before b p i ->
    In p b1 /\ index_of p b = index_of p b1 /\ index_of p b < j.
  Proof.
    intros Eb Ei B. pose proof (index_of_before _ _ _ NDb B) as Lt. rewrite (pos_prefix b1 b2 j i Eb Ei) in Lt.
    assert (Hj : j < length b1) by (apply nth_error_Some; congruence).
    assert (Hp1 : In p b1).
    { pose proof (index_of_nth p b (proj1 (before_In _ _ _ B))) as Ep. rewrite Eb in Ep at 1.
      rewrite nth_error_app1 in Ep by lia. eapply nth_error_In. exact Ep. }
    split; [exact Hp1|]. split; [|exact Lt]. rewrite Eb at 1. apply index_of_app_l. exact Hp1.
  Qed.

  Lemma R_depth b1 b2 : b = b1 ++ b2 -> forall j i, nth_error b1 j = Some i -> depth (parents (R b1)) j = depth (parents f) i.
  Proof.
    intros Eb j. induction j as [j IH] using lt_wf_ind. intros i Ei.
    assert (Hi : In i b) by (eapply prefix_in; [exact Eb | eapply nth_error_In; exact Ei]).
    destruct (b_nth i Hi) as (n & En & Nn).
    assert (Ej : nth_error (parents (R b1)) j = Some (option_map pos (n_parent n))).
    { rewrite R_parents, nth_error_map, Ei. simpl. now rewrite Nn. }
    destruct (n_parent n) as [p|] eqn:Pn; simpl in Ej.
    - assert (Hp : nth_error (parents f) i = Some (Some p)) by (rewrite (parent_nth i n En), Pn; reflexivity).
      rewrite (depth_child _ _ _ (R_wf_parents b1 b2 Eb) Ej), (depth_child _ _ _ WP Hp). f_equal.
      pose proof (bfs_parent_before _ _ _ _ WP Hp Hi) as B.
      destruct (before_in_prefix b1 b2 j i p Eb Ei B) as (Hp1 & Eq & Lt).
      apply IH; [exact Lt|]. rewrite Eq. apply index_of_nth. exact Hp1.
    - rewrite (depth_root _ _ Ej). symmetry. apply depth_root. rewrite (parent_nth i n En), Pn. reflexivity.
  Qed.

  Lemma R_bfs b1 b2 : b = b1 ++ b2 -> bfs (parents (R b1)) = seq 0 (length b1).
  Proof.
    intros Eb. rewrite <- (R_length b1), <- parents_length.
    apply mono_bfs_seq; [exact (R_wf_parents b1 b2 Eb) | exact (R_mono b1 b2 Eb) |].
    intros j Hj. rewrite parents_length, R_length in Hj.
    destruct (nth_error b1 j) as [i|] eqn:Ei; [|apply nth_error_None in Ei; lia].
    rewrite (R_depth b1 b2 Eb j i Ei). assert (Hi : In i b) by (eapply prefix_in; [exact Eb | eapply nth_error_In; exact Ei]).
    apply bfs_In in Hi; [exact (proj2 Hi) | exact WP].
  Qed.
  (* ---------------------------------------------------------------- one step of the re-insertion *)
  Lemma prefix_NoDup b1 b2 : b = b1 ++ b2 -> NoDup b1.
  Proof. intros Eb. pose proof NDb as ND. rewrite Eb in ND. exact (NoDup_prefix _ _ ND). Qed.

  Lemma pos_in_prefix b1 b2 q : b = b1 ++ b2 -> In q b1 -> index_of q b = index_of q b1 /\ index_of q b < length b1.
  Proof.
    intros Eb Hq. assert (E : index_of q b = index_of q b1) by (rewrite Eb at 1; apply index_of_app_l; exact Hq).
    split; [exact E|]. rewrite E. apply index_of_lt. exact Hq.
  Qed.

  Lemma plookup_prefix b1 b2 q : b = b1 ++ b2 -> In q b1 -> plookup (pmap (map (fun i => [i]) b1)) [q] = Some (index_of q b).
  Proof.
    intros Eb Hq. rewrite (proj1 (pos_in_prefix b1 b2 q Eb Hq)). apply plookup_pmap_nodup.
    - apply NoDup_map_singleton. exact (prefix_NoDup b1 b2 Eb).
    - rewrite nth_error_map, (index_of_nth q b1 Hq). reflexivity.
  Qed.

  Lemma flat_link_renum b1 b2 l : b = b1 ++ b2 -> (forall q, In q (link_members l) -> In q b1) ->
    (forall t, l <> LDangling t) -> l <> LMulti [] ->
    flat_link (pmap (map (fun i => [i]) b1)) (eff_link [] l GNone) = Some (rlink pos l).
  Proof.
    intros Eb Hm Hd Hn. destruct l as [| t p | [|q0 qs] | t].
    - reflexivity.
    - unfold eff_link. simpl. rewrite (plookup_prefix b1 b2 p Eb) by (apply Hm; left; reflexivity). reflexivity.
    - exfalso. apply Hn. reflexivity.
    - change (eff_link [] (LMulti (q0 :: qs)) GNone) with (GMulti (map (fun p => [p]) (q0 :: qs))).
      apply flat_link_multi; [discriminate|]. cbn [rlink]. rewrite !map_map. apply map_ext_in. intros q Hq.
      apply (plookup_prefix b1 b2 q Eb). apply Hm. exact Hq.
    - exfalso. apply (Hd t). reflexivity.
  Qed.

  Lemma members_in_prefix b1 b2 i n q : b = b1 ++ i :: b2 -> nth_error f i = Some n -> In q (link_members (n_link n)) -> In q b1.
  Proof.
    intros Eb En Hq. assert (Hi : In i b) by (rewrite Eb; apply in_or_app; right; left; reflexivity).
    pose proof (members_before i n q Hi En Hq) as B. pose proof NDb as ND. rewrite Eb in B, ND.
    exact (before_split_in b1 b2 i q ND B).
  Qed.

  Lemma R_chans b1 j r : nth_error b1 j = Some r ->
    nth j (map (fun n => op_channels (n_op n)) (R b1)) [] = op_channels (n_op (nth r f dnode)).
  Proof.
    intros Er. assert (Hj : j < length (R b1)) by (rewrite R_length; apply nth_error_Some; congruence).
    rewrite (nth_map_in (fun n => op_channels (n_op n)) (R b1) j [] dnode Hj).
    rewrite (nth_error_nth _ _ dnode (R_nth b1 j r Er)). reflexivity.
  Qed.

  Lemma R_leaf_at_any_none b1 b2 i n : b = b1 ++ i :: b2 -> nth_error f i = Some n -> n_link n = LNone ->
    leaf_at_any (R b1) (op_channels (n_op n)) = None.
  Proof.
    intros Eb En L. destruct (root_shape i n En L) as [Sh La].
    assert (Pn : n_parent n = None) by (rewrite Sh; reflexivity).
    assert (Ei : nth_error (parents f) i = Some None) by (rewrite (parent_nth i n En), Pn; reflexivity).
    unfold leaf_at_any. rewrite (R_bfs b1 (i :: b2) Eb). apply find_all_false. intros j Hj.
    apply in_rev, in_seq in Hj. destruct (nth_error b1 j) as [r|] eqn:Er; [|apply nth_error_None in Er; lia].
    rewrite (R_chans b1 j r Er).
    assert (B : before b r i).
    { rewrite Eb. apply (before_app_lr b1 (i :: b2)); [eapply nth_error_In; exact Er | left; reflexivity]. }
    assert (Er' : nth_error (parents f) r = Some None) by exact (before_root _ _ r i WP B Ei).
    assert (Lt : r < i) by (apply (before_same_parent (parents f) _ r i WP B); congruence).
    assert (Hr : In r (bfs (parents (firstn i f)))).
    { rewrite parents_firstn. apply bfs_firstn_In; [exact WP|]. split; [exact (proj1 (before_In _ _ _ B)) | exact Lt]. }
    pose proof (leaf_at_any_none (firstn i f) _ La r Hr) as M. unfold node_chans in M.
    assert (Hrl : r < length (firstn i f)).
    { rewrite firstn_length. pose proof (b_lt r (proj1 (before_In _ _ _ B))). lia. }
    rewrite (nth_map_in (fun n => op_channels (n_op n)) (firstn i f) r [] dnode Hrl), (nth_firstn f i r dnode Lt) in M. exact M.
  Qed.

  Lemma R_latest b1 b2 i n qs p : b = b1 ++ i :: b2 -> nth_error f i = Some n -> n_link n = LMulti qs -> n_parent n = Some p ->
    latest_of (R b1) (map pos qs) = Some (index_of p b).
  Proof.
    intros Eb En L Pn. destruct (multi_shape i n qs En L) as (p' & Sh & _ & Hin & Hall).
    assert (p' = p) by (rewrite Sh in Pn; simpl in Pn; congruence). subst p'.
    assert (Hp1 : In p b1) by (apply (members_in_prefix b1 b2 i n p Eb En); rewrite L; exact Hin).
    destruct (pos_in_prefix b1 (i :: b2) p Eb Hp1) as [_ Lt].
    unfold latest_of. rewrite (R_bfs b1 (i :: b2) Eb), (seq_split_at (length b1) (index_of p b) Lt).
    apply find_rev_intro.
    - apply existsb_exists. exists (index_of p b). split; [|apply Nat.eqb_refl].
      apply in_map_iff. exists p. split; [reflexivity | exact Hin].
    - intros y Hy. apply in_seq in Hy. destruct (existsb (Nat.eqb y) (map pos qs)) eqn:Ex; [exfalso | reflexivity].
      apply existsb_exists in Ex as (x & Hx & Exy). apply Nat.eqb_eq in Exy. subst x.
      apply in_map_iff in Hx as (q & Eq & Hq). destruct (Hall q Hq) as [_ [-> | B]]; [lia|].
      apply (index_of_before _ _ _ NDb) in B. lia.
  Qed.

  Lemma new_node_renum b1 b2 i n : b = b1 ++ i :: b2 -> nth_error f i = Some n ->
    new_node env (R b1) (n_op n) (rlink pos (n_link n)) = renum pos n.
  Proof.
    intros Eb En. destruct (n_link n) as [| t p | qs | t] eqn:L.
    - destruct (root_shape i n En L) as [Sh _]. assert (Pn : n_parent n = None) by (rewrite Sh; reflexivity).
      unfold new_node. cbn [rlink]. rewrite (R_leaf_at_any_none b1 b2 i n Eb En L). unfold renum. rewrite Pn, L. reflexivity.
    - destruct (rel_shape i n t p En L) as [Sh _]. assert (Pn : n_parent n = Some p) by (rewrite Sh; reflexivity).
      assert (Hp1 : In p b1) by (apply (members_in_prefix b1 b2 i n p Eb En); rewrite L; left; reflexivity).
      destruct (pos_in_prefix b1 (i :: b2) p Eb Hp1) as [_ Lt].
      unfold new_node. cbn [rlink]. rewrite R_length. apply Nat.ltb_lt in Lt. rewrite Lt. unfold renum. rewrite Pn, L. reflexivity.
    - destruct (multi_shape i n qs En L) as (p & Sh & _). assert (Pn : n_parent n = Some p) by (rewrite Sh; reflexivity).
      unfold new_node. cbn [rlink]. rewrite (R_latest b1 b2 i n qs p Eb En L Pn). unfold renum. rewrite Pn, L. reflexivity.
    - exfalso. exact (proj1 (link_sane i n En) t L).
  Qed.

  Lemma flat_step_renum b1 b2 i : b = b1 ++ i :: b2 ->
    flat_step env (Some (R b1, pmap (map (fun i => [i]) b1))) (flat_gentry f ls i)
    = Some (R (b1 ++ [i]), pmap (map (fun i => [i]) (b1 ++ [i]))).
  Proof.
    intros Eb. assert (Hi : In i b) by (rewrite Eb; apply in_or_app; right; left; reflexivity).
    destruct (b_nth i Hi) as (n & En & Nn). pose proof (b_lt i Hi) as Li.
    rewrite flat_step_eq. unfold flat_gentry, ge_link, ge_leaf, ge_path. cbn [fst snd].
    rewrite (nth_link f i n En).
    rewrite (flat_link_renum b1 (i :: b2) (n_link n) Eb (fun q => members_in_prefix b1 b2 i n q Eb En)
               (proj1 (link_sane i n En)) (proj2 (link_sane i n En))).
    assert (Eo : OLeaf (nth i ls dleaf) = n_op n).
    { rewrite <- (flat_ops_nth f ls i Hops Li), (nth_map_in n_op f i _ dnode Li), Nn. reflexivity. }
    rewrite Eo, add_node_eq, (new_node_renum b1 b2 i n Eb En), R_length.
    unfold renumbered. rewrite !map_app. cbn [map]. rewrite Nn, pmap_snoc, map_length. reflexivity.
  Qed.

  Lemma flat_fold_renum : forall b2 b1, b = b1 ++ b2 ->
    fold_left (flat_step env) (map (flat_gentry f ls) b2) (Some (R b1, pmap (map (fun i => [i]) b1)))
    = Some (R b, pmap (map (fun i => [i]) b)).
  Proof.
    induction b2 as [|i b2 IH]; intros b1 Eb; cbn [map fold_left].
    - rewrite app_nil_r in Eb. rewrite <- Eb. reflexivity.
    - rewrite (flat_step_renum b1 b2 i Eb). apply IH. rewrite <- app_assoc. exact Eb.
  Qed.

  (* flattening a flat graph = renumbering it by listing position *)
  Theorem flatten_flat_renum : flatten env f = Some (R b).
  Proof.
    rewrite flatten_eq, (glisting_flat f ls Hops). change (@nil node) with (R []).
    change (@nil (path * nat)) with (pmap (map (fun i : nat => [i]) [])). rewrite (flat_fold_renum b [] eq_refl). reflexivity.
  Qed.
  (* ---------------------------------------------------------------- the renumbered graph reports the same times *)
  Lemma b_self : b = b ++ [].
  Proof. now rewrite app_nil_r. Qed.

  Lemma pos_nth q : In q b -> index_of q b < length b /\ nth (index_of q b) b 0 = q.
  Proof. intros H. split; [apply index_of_lt; exact H | exact (nth_error_nth _ _ 0 (index_of_nth q b H))]. Qed.

  Lemma R_times : node_times env None (R b) = map (fun i => nth i (node_times env None f) (0, 0)%Z) b.
  Proof.
    symmetry. rewrite (node_times_eq env None (R b)). apply times_unique.
    - apply wf_node_links_hs. apply wf_nodes_node_links. exact (flatten_wf env f (R b) flatten_flat_renum).
    - split; [rewrite map_length, node_hs_length, R_length; reflexivity|].
      intros j l d E. apply node_hs_nth_inv in E as (n' & En' & -> & ->).
      assert (Hj : j < length b) by (rewrite <- (R_length b); apply nth_error_Some; congruence).
      destruct (nth_error b j) as [i|] eqn:Ei; [|apply nth_error_None in Ei; lia].
      rewrite (R_nth b j i Ei) in En'. inversion En'; subst n'. clear En'.
      assert (Hi : In i b) by (eapply nth_error_In; exact Ei). destruct (b_nth i Hi) as (n & En & ->).
      rewrite (nth_map_in (fun i => nth i (node_times env None f) (0, 0)%Z) b j _ 0 Hj), (nth_error_nth _ _ 0 Ei).
      rewrite (node_times_start env None f i n (wf_nodes_node_links f Wf) En).
      change (n_op (renum pos n)) with (n_op n). change (n_link (renum pos n)) with (rlink pos (n_link n)).
      rewrite (link_start_renum pos (node_times env None f) _ (n_link n) (dur_of env (n_op n))); [reflexivity|].
      intros q Hq. pose proof (proj1 (before_In _ _ _ (members_before i n q Hi En Hq))) as Hqb.
      destruct (pos_nth q Hqb) as [Lq Nq].
      rewrite (nth_map_in (fun i => nth i (node_times env None f) (0, 0)%Z) b _ _ 0 Lq), Nq. reflexivity.
  Qed.

  Lemma R_ops : map n_op (R b) = map OLeaf (map (fun i => nth i ls dleaf) b).
  Proof.
    unfold renumbered. rewrite !map_map. apply map_ext_in. intros i Hi. apply b_lt in Hi.
    change (n_op (renum pos (nth i f dnode))) with (n_op (nth i f dnode)).
    rewrite <- (flat_ops_nth f ls i Hops Hi), (nth_map_in n_op f i _ dnode Hi). reflexivity.
  Qed.

  Theorem R_listing : listing env (R b) = listing env f.
  Proof.
    rewrite (listing_flat env (R b) _ R_ops), (listing_flat env f ls Hops), (R_bfs b [] b_self), R_times.
    transitivity (map (fun j => flat_entry ls (node_times env None f) (nth j b 0)) (seq 0 (length b))).
    - apply map_ext_in. intros j Hj. apply in_seq in Hj. destruct Hj as [_ Hj]. simpl in Hj. unfold flat_entry.
      rewrite (nth_map_in (fun i => nth i ls dleaf) b j _ 0 Hj).
      rewrite (nth_map_in (fun i => nth i (node_times env None f) (0, 0)%Z) b j _ 0 Hj). reflexivity.
    - rewrite <- (map_map (fun j => nth j b 0) (flat_entry ls (node_times env None f))), map_nth_seq. reflexivity.
  Qed.

  Theorem R_in_order : bfs (parents (R b)) = seq 0 (length (R b)).
  Proof. rewrite R_length. exact (R_bfs b [] b_self). Qed.
End Renum.

(* ------------------------------------------------------------------ 5. flattening again changes nothing that is reported *)
Theorem flatten_idem env f ls : map n_op f = map OLeaf ls -> wf_nodes f -> built env f -> fully_listed f ->
  exists f', flatten env f = Some f' /\ listing env f' = listing env f /\ bfs (parents f') = seq 0 (length f').
Proof.
  intros Hops Wf Bu Full. exists (renumbered f (fun q => index_of q (bfs (parents f))) (bfs (parents f))).
  split; [exact (flatten_flat_renum env f ls Hops Wf Bu Full)|].
  split; [exact (R_listing env f ls Hops Wf Bu Full) | exact (R_in_order f Wf)].
Qed.

Lemma in_order_fully_listed f : wf_parents (parents f) -> bfs (parents f) = seq 0 (length f) -> fully_listed f.
Proof.
  intros W E i Hi. assert (H : In i (bfs (parents f))) by (rewrite E; apply in_seq; lia).
  apply bfs_In in H; [exact (proj2 H) | exact W].
Qed.

(* a flat graph that is already in listing order is a fixpoint of flatten *)
Theorem flatten_in_order env f ls : map n_op f = map OLeaf ls -> wf_nodes f -> built env f ->
  bfs (parents f) = seq 0 (length f) -> flatten env f = Some f.
Proof.
  intros Hops Wf Bu E. pose proof (in_order_fully_listed f (proj1 Wf) E) as Full.
  rewrite (flatten_flat_renum env f ls Hops Wf Bu Full). f_equal. rewrite E.
  rewrite <- (map_nth_seq f dnode) at 3. unfold renumbered. apply map_ext_in. intros i Hi. apply in_seq in Hi. destruct Hi as [_ Hi]. simpl in Hi.
  destruct (nth_error f i) as [n|] eqn:En; [|apply nth_error_None in En; lia]. rewrite (nth_error_nth _ _ dnode En).
  destruct Wf as [WP LO]. specialize (LO i n En). unfold link_ok in LO. rewrite (node_eta n) at 2. unfold renum. f_equal.
  - destruct (n_parent n) as [p|] eqn:Pn; [|reflexivity]. simpl. f_equal. apply index_of_seq.
    assert (nth_error (parents f) i = Some (Some p)) as Hp by (rewrite parents_nth_error, En; simpl; now rewrite Pn).
    apply WP in Hp. lia.
  - destruct (n_link n) as [| t p | qs | t]; cbn [rlink]; try reflexivity.
    + f_equal. apply index_of_seq. lia.
    + f_equal. rewrite <- (map_id qs) at 2. apply map_ext_in. intros q Hq. destruct LO as [_ F]. rewrite Forall_forall in F.
      specialize (F q Hq). apply index_of_seq. lia.
Qed.

Corollary flatten_idem_fixpoint env f ls : map n_op f = map OLeaf ls -> wf_nodes f -> built env f -> fully_listed f ->
  exists f', flatten env f = Some f' /\ listing env f' = listing env f /\ flatten env f' = Some f'.
Proof.
  intros Hops Wf Bu Full. destruct (flatten_idem env f ls Hops Wf Bu Full) as (f' & E & L & O).
  exists f'. split; [exact E|]. split; [exact L|].
  apply (flatten_in_order env f' (map e_leaf (listing env f))); [| exact (flatten_wf _ _ _ E) | exact (flatten_built _ _ _ E) | exact O].
  exact (flatten_ops_listing _ _ _ E).
Qed.
