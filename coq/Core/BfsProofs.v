(* The layered listing (Core.Model.bfs) of a well-formed forest of parent pointers: complete up to the depth limit,
   duplicate-free, sorted by depth, parents before children.  Everything C02 (and the other Core proofs) builds on. *)
From Coq Require Import ZArith List Bool Lia Arith Permutation Sorted.
Import ListNotations.
From QCE Require Import Base.Prelude Core.Model.
From Gen Require Import Ident Classes.
Local Open Scope nat_scope.

(* ------------------------------------------------------------------ generic list facts *)
(* x occurs at some position of l and y at a later one *)
Definition before {A} (l : list A) (x y : A) : Prop := exists l1 l2 l3, l = l1 ++ x :: l2 ++ y :: l3.

Ltac lnorm := repeat (progress (rewrite <- ?app_assoc; simpl)); try reflexivity.

Lemma before_app_l {A} (l0 l : list A) x y : before l x y -> before (l0 ++ l) x y.
Proof. intros (l1 & l2 & l3 & ->). exists (l0 ++ l1), l2, l3. now rewrite app_assoc. Qed.

Lemma before_app_r {A} (l l' : list A) x y : before l x y -> before (l ++ l') x y.
Proof.
  intros (l1 & l2 & l3 & ->). exists l1, l2, (l3 ++ l'). lnorm.
Qed.

Lemma before_app_lr {A} (l l' : list A) x y : In x l -> In y l' -> before (l ++ l') x y.
Proof.
  intros Hx Hy. apply in_split in Hx as (a & b & ->). apply in_split in Hy as (c & d & ->).
  exists a, (b ++ c), d. lnorm.
Qed.

Lemma before_In {A} (l : list A) x y : before l x y -> In x l /\ In y l.
Proof.
  intros (l1 & l2 & l3 & ->). split.
  - apply in_or_app. right. left. reflexivity.
  - apply in_or_app. right. right. apply in_or_app. right. left. reflexivity.
Qed.

Lemma before_cons_inv {A} (a : A) l x y : before (a :: l) x y -> (a = x /\ In y l) \/ before l x y.
Proof.
  intros (l1 & l2 & l3 & E). destruct l1 as [|b l1]; simpl in E; inversion E; subst.
  - left. split; [reflexivity|]. apply in_or_app. right. left. reflexivity.
  - right. exists l1, l2, l3. reflexivity.
Qed.

Lemma before_app_inv {A} (l l' : list A) x y :
  before (l ++ l') x y -> before l x y \/ (In x l /\ In y l') \/ before l' x y.
Proof.
  induction l as [|a l IH]; simpl; intros H.
  - right. right. exact H.
  - apply before_cons_inv in H as [[-> Hy] | H].
    + apply in_app_or in Hy as [Hy | Hy].
      * left. apply in_split in Hy as (c & d & ->). exists [], c, d. reflexivity.
      * right. left. split; [left; reflexivity | exact Hy].
    + apply IH in H as [H | [[Hx Hy] | H]].
      * left. apply (before_app_l [a]) in H. exact H.
      * right. left. split; [right; exact Hx | exact Hy].
      * right. right. exact H.
Qed.

Lemma before_total {A} (l : list A) x y : In x l -> In y l -> x <> y -> before l x y \/ before l y x.
Proof.
  induction l as [|a l IH]; simpl; [tauto|]. intros [-> | Hx] [-> | Hy] Hne.
  - congruence.
  - left. apply (before_app_lr [x] l); [left; reflexivity | exact Hy].
  - right. apply (before_app_lr [y] l); [left; reflexivity | exact Hx].
  - destruct (IH Hx Hy Hne) as [H | H]; [left | right]; apply (before_app_l [a]); exact H.
Qed.

Lemma before_NoDup_neq {A} (l : list A) x y : NoDup l -> before l x y -> x <> y.
Proof.
  intros ND (l1 & l2 & l3 & ->) ->. apply NoDup_remove_2 in ND. apply ND.
  apply in_or_app. right. apply in_or_app. right. left. reflexivity.
Qed.

Lemma before_NoDup_asym {A} (l : list A) x y : NoDup l -> before l x y -> ~ before l y x.
Proof.
  induction l as [|a l IH]; intros ND H1 H2.
  - destruct H1 as (l1 & l2 & l3 & E). destruct l1; discriminate.
  - inversion ND as [|? ? Hni ND']; subst.
    apply before_cons_inv in H1 as [[-> Hy] | H1]; apply before_cons_inv in H2 as [[E Hx] | H2].
    + subst. contradiction.
    + apply before_In in H2 as [_ Hx]. contradiction.
    + subst. apply before_In in H1 as [_ Hy]. contradiction.
    + exact (IH ND' H1 H2).
Qed.

Lemma before_flat_map {A B} (f : A -> list B) (l : list A) x y :
  before l x y -> exists m1 m2 m3, flat_map f l = m1 ++ f x ++ m2 ++ f y ++ m3.
Proof.
  intros (l1 & l2 & l3 & ->). exists (flat_map f l1), (flat_map f l2), (flat_map f l3).
  rewrite flat_map_app. simpl. rewrite flat_map_app. simpl. lnorm.
Qed.

Lemma before_map {A B} (f : A -> B) (l : list A) x y : before l x y -> before (map f l) (f x) (f y).
Proof.
  intros (l1 & l2 & l3 & ->). exists (map f l1), (map f l2), (map f l3).
  rewrite map_app. simpl. rewrite map_app. reflexivity.
Qed.

Lemma NoDup_app_intro {A} (l1 l2 : list A) :
  NoDup l1 -> NoDup l2 -> (forall x, In x l1 -> In x l2 -> False) -> NoDup (l1 ++ l2).
Proof.
  induction l1 as [|a l1 IH]; simpl; intros N1 N2 D; [exact N2|].
  inversion N1 as [|? ? Hni N1']; subst. constructor.
  - intros H. apply in_app_or in H as [H | H]; [contradiction | exact (D a (or_introl eq_refl) H)].
  - apply IH; auto. intros x H1 H2. exact (D x (or_intror H1) H2).
Qed.

Lemma NoDup_flat_map {A B} (f : A -> list B) (l : list A) :
  NoDup l -> (forall a, In a l -> NoDup (f a)) ->
  (forall a a' x, In a l -> In a' l -> In x (f a) -> In x (f a') -> a = a') ->
  NoDup (flat_map f l).
Proof.
  induction l as [|a l IH]; simpl; intros ND Hf Hd; [constructor|].
  inversion ND as [|? ? Hni ND']; subst. apply NoDup_app_intro.
  - apply Hf. left. reflexivity.
  - apply IH; auto. intros a1 a2 x H1 H2. apply Hd; right; assumption.
  - intros x H1 H2. apply in_flat_map in H2 as (a' & Ha' & Hx).
    assert (a = a') by (apply (Hd a a' x); simpl; auto). subst. contradiction.
Qed.

Lemma StronglySorted_app {A} (R : A -> A -> Prop) (l1 l2 : list A) :
  StronglySorted R l1 -> StronglySorted R l2 -> (forall x y, In x l1 -> In y l2 -> R x y) -> StronglySorted R (l1 ++ l2).
Proof.
  induction l1 as [|a l1 IH]; simpl; intros S1 S2 H; [exact S2|].
  inversion S1 as [|? ? S1' Fa]; subst. constructor.
  - apply IH; auto.
  - apply Forall_app. split; [exact Fa|]. apply Forall_forall. intros y Hy. apply H; [left; reflexivity | exact Hy].
Qed.

Lemma StronglySorted_before {A} (R : A -> A -> Prop) (l : list A) x y :
  StronglySorted R l -> before l x y -> R x y.
Proof.
  induction l as [|a l IH]; intros S H.
  - destruct H as (l1 & l2 & l3 & E). destruct l1; discriminate.
  - inversion S as [|? ? S' Fa]; subst. apply before_cons_inv in H as [[-> Hy] | H].
    + rewrite Forall_forall in Fa. apply Fa. exact Hy.
    + apply IH; assumption.
Qed.

Lemma StronglySorted_all {A} (R : A -> A -> Prop) (l : list A) :
  (forall x y, In x l -> In y l -> R x y) -> StronglySorted R l.
Proof.
  induction l as [|a l IH]; intros H; constructor.
  - apply IH. intros x y Hx Hy. apply H; right; assumption.
  - apply Forall_forall. intros y Hy. apply H; [left; reflexivity | right; exact Hy].
Qed.

Lemma find_app {A} (f : A -> bool) (l1 l2 : list A) :
  find f (l1 ++ l2) = match find f l1 with Some x => Some x | None => find f l2 end.
Proof. induction l1 as [|a l1 IH]; simpl; [reflexivity|]. destruct (f a); [reflexivity | exact IH]. Qed.

(* the last element satisfying f *)
Lemma find_rev_some {A} (f : A -> bool) (l : list A) x :
  find f (rev l) = Some x -> exists l1 l2, l = l1 ++ x :: l2 /\ f x = true /\ forall y, In y l2 -> f y = false.
Proof.
  revert x. induction l as [|a l IH]; simpl; intros x H; [discriminate|].
  rewrite find_app in H. destruct (find f (rev l)) as [z|] eqn:E.
  - inversion H; subst. destruct (IH x eq_refl) as (l1 & l2 & -> & Hx & Hl2).
    exists (a :: l1), l2. repeat split; auto.
  - simpl in H. destruct (f a) eqn:Fa; [|discriminate]. inversion H; subst.
    exists [], l. repeat split; auto. intros y Hy. apply (find_none _ _ E). apply in_rev in Hy. exact Hy.
Qed.

Lemma find_rev_none {A} (f : A -> bool) (l : list A) : find f (rev l) = None -> forall y, In y l -> f y = false.
Proof. intros H y Hy. apply (find_none _ _ H). apply in_rev in Hy. exact Hy. Qed.

(* ------------------------------------------------------------------ well-formed parent pointers, depth *)
Definition wf_parents (ps : list (option nat)) : Prop := forall i p, nth_error ps i = Some (Some p) -> p < i.

Fixpoint depth_fuel (ps : list (option nat)) (fuel i : nat) : nat :=
  match fuel with
  | O => O
  | S f => match nth_error ps i with
           | Some (Some p) => S (depth_fuel ps f p)
           | _ => O
           end
  end.
(* number of parent steps from node i to a root (0 for roots and for indices outside the graph) *)
Definition depth (ps : list (option nat)) (i : nat) : nat := depth_fuel ps (S i) i.

Lemma depth_fuel_indep ps : wf_parents ps ->
  forall f1 f2 i, i < f1 -> i < f2 -> depth_fuel ps f1 i = depth_fuel ps f2 i.
Proof.
  intros W f1. induction f1 as [|f1 IH]; intros f2 i H1 H2; [lia|].
  destruct f2 as [|f2]; [lia|]. simpl. destruct (nth_error ps i) as [[p|]|] eqn:E; try reflexivity.
  f_equal. apply W in E. apply IH; lia.
Qed.

Lemma depth_root ps i : nth_error ps i = Some None -> depth ps i = 0.
Proof. intros E. unfold depth. simpl. rewrite E. reflexivity. Qed.

Lemma depth_out ps i : nth_error ps i = None -> depth ps i = 0.
Proof. intros E. unfold depth. simpl. rewrite E. reflexivity. Qed.

Lemma depth_child ps i p : wf_parents ps -> nth_error ps i = Some (Some p) -> depth ps i = S (depth ps p).
Proof.
  intros W E. unfold depth at 1. simpl. rewrite E. f_equal. unfold depth.
  apply depth_fuel_indep; [exact W | exact (W _ _ E) | lia].
Qed.

Lemma depth_le_index ps : wf_parents ps -> forall i, depth ps i <= i.
Proof.
  intros W i. induction i as [i IH] using lt_wf_ind.
  destruct (nth_error ps i) as [[p|]|] eqn:E.
  - rewrite (depth_child _ _ _ W E). pose proof (W _ _ E). specialize (IH p H). lia.
  - rewrite depth_root by assumption. lia.
  - rewrite depth_out by assumption. lia.
Qed.

Lemma depth_lt_length ps i : wf_parents ps -> i < length ps -> depth ps i < length ps.
Proof. intros W H. pose proof (depth_le_index ps W i). lia. Qed.

Lemma depth_zero_inv ps i : i < length ps -> depth ps i = 0 -> nth_error ps i = Some None.
Proof.
  intros Hi D. unfold depth in D. simpl in D. destruct (nth_error ps i) as [[p|]|] eqn:E; [discriminate|reflexivity|].
  apply nth_error_None in E. lia.
Qed.

Lemma depth_succ_inv ps i k : wf_parents ps -> depth ps i = S k -> exists p, nth_error ps i = Some (Some p) /\ depth ps p = k.
Proof.
  intros W D. destruct (nth_error ps i) as [[p|]|] eqn:E.
  - exists p. split; [reflexivity|]. rewrite (depth_child _ _ _ W E) in D. lia.
  - rewrite depth_root in D by assumption. discriminate.
  - rewrite depth_out in D by assumption. discriminate.
Qed.

(* ------------------------------------------------------------------ 1. children *)
Lemma opt_nat_eqb_spec a b : opt_nat_eqb a b = true <-> a = b.
Proof.
  destruct a as [a|], b as [b|]; simpl; try (split; congruence).
  rewrite Nat.eqb_eq. split; congruence.
Qed.

Lemma children_from_spec ps p i j :
  In j (children_from ps p i) <-> exists k, j = i + k /\ nth_error ps k = Some p.
Proof.
  revert i. induction ps as [|q t IH]; intros i; simpl.
  - split; [tauto|]. intros (k & _ & E). destruct k; discriminate.
  - assert (R : In j (children_from t p (S i)) <-> exists k, j = i + S k /\ nth_error t k = Some p).
    { rewrite IH. split; intros (k & -> & E); exists k; split; auto; lia. }
    destruct (opt_nat_eqb q p) eqn:Q.
    + apply opt_nat_eqb_spec in Q. subst q. simpl. rewrite R. split.
      * intros [<- | (k & -> & E)]; [exists 0; split; [lia | reflexivity] | exists (S k); split; auto].
      * intros ([|k] & -> & E); [left; lia | right; exists k; split; auto].
    + rewrite R. split.
      * intros (k & -> & E). exists (S k). split; auto.
      * intros ([|k] & -> & E); [|exists k; split; auto]. simpl in E. inversion E; subst.
        assert (opt_nat_eqb p p = true) by (apply opt_nat_eqb_spec; reflexivity). congruence.
Qed.

Lemma children_spec ps p i : In i (children ps p) <-> nth_error ps i = Some p.
Proof.
  unfold children. rewrite children_from_spec. split.
  - intros (k & -> & E). exact E.
  - intros E. exists i. split; [reflexivity | exact E].
Qed.

Lemma children_from_sorted ps p i : StronglySorted lt (children_from ps p i).
Proof.
  revert i. induction ps as [|q t IH]; intros i; simpl; [constructor|].
  destruct (opt_nat_eqb q p); [|apply IH]. constructor; [apply IH|].
  apply Forall_forall. intros j Hj. apply children_from_spec in Hj as (k & -> & _). lia.
Qed.

Lemma children_sorted ps p : StronglySorted lt (children ps p).
Proof. apply children_from_sorted. Qed.

Lemma StronglySorted_lt_NoDup (l : list nat) : StronglySorted lt l -> NoDup l.
Proof.
  induction 1 as [|a l S IH Fa]; constructor; [|exact IH].
  intros H. rewrite Forall_forall in Fa. specialize (Fa a H). lia.
Qed.

Lemma children_NoDup ps p : NoDup (children ps p).
Proof. apply StronglySorted_lt_NoDup, children_sorted. Qed.

Lemma children_lt_length ps p i : In i (children ps p) -> i < length ps.
Proof. intros H. apply children_spec in H. apply nth_error_Some. congruence. Qed.

Lemma children_from_app ps qs p i :
  children_from (ps ++ qs) p i = children_from ps p i ++ children_from qs p (i + length ps).
Proof.
  revert i. induction ps as [|q t IH]; intros i; simpl.
  - now rewrite Nat.add_0_r.
  - rewrite IH. replace (S i + length t) with (i + S (length t)) by lia. destruct (opt_nat_eqb q p); reflexivity.
Qed.

(* 6. adding a node *)
Lemma children_snoc ps q p :
  children (ps ++ [q]) p = children ps p ++ (if opt_nat_eqb q p then [length ps] else []).
Proof. unfold children. rewrite children_from_app. simpl. destruct (opt_nat_eqb q p); reflexivity. Qed.

(* ------------------------------------------------------------------ 2. layers *)
(* the k-th layer: children of the (k-1)-th *)
Fixpoint level (ps : list (option nat)) (k : nat) : list nat :=
  match k with
  | O => children ps None
  | S k' => flat_map (fun i => children ps (Some i)) (level ps k')
  end.

Lemma level_spec ps : wf_parents ps -> forall k i, In i (level ps k) <-> i < length ps /\ depth ps i = k.
Proof.
  intros W k. induction k as [|k IH]; intros i; simpl.
  - rewrite children_spec. split.
    + intros E. split; [apply nth_error_Some; congruence | apply depth_root; exact E].
    + intros [Hi D]. apply depth_zero_inv; assumption.
  - rewrite in_flat_map. split.
    + intros (p & Hp & Hi). apply children_spec in Hi. apply IH in Hp as [_ Dp]. split.
      * apply nth_error_Some. congruence.
      * rewrite (depth_child _ _ _ W Hi). congruence.
    + intros [Hi D]. apply depth_succ_inv in D as (p & E & Dp); [|exact W]. exists p. split.
      * apply IH. split; [|exact Dp]. pose proof (W _ _ E). lia.
      * apply children_spec. exact E.
Qed.

Lemma level_NoDup ps : wf_parents ps -> forall k, NoDup (level ps k).
Proof.
  intros W k. induction k as [|k IH]; simpl; [apply children_NoDup|].
  apply NoDup_flat_map; [exact IH | intros; apply children_NoDup |].
  intros a a' x _ _ H1 H2. apply children_spec in H1. apply children_spec in H2. congruence.
Qed.

Lemma level_lt_length ps k i : In i (level ps k) -> i < length ps.
Proof.
  destruct k; simpl; intros H; [exact (children_lt_length _ _ _ H)|].
  apply in_flat_map in H as (p & _ & H). exact (children_lt_length _ _ _ H).
Qed.

Lemma level_empty_mono ps k m : level ps k = [] -> level ps (k + m) = [].
Proof.
  intros E. induction m as [|m IH]; [now rewrite Nat.add_0_r|].
  rewrite Nat.add_succ_r. simpl. rewrite IH. reflexivity.
Qed.

Lemma concat_levels_empty ps k n : level ps k = [] -> concat (map (level ps) (seq k n)) = [].
Proof.
  revert k. induction n as [|n IH]; intros k E; simpl; [reflexivity|].
  rewrite E. simpl. apply IH. replace (S k) with (k + 1) by lia. apply level_empty_mono. exact E.
Qed.

Lemma layers_levels ps fuel : forall k, concat (layers ps (level ps k) fuel) = concat (map (level ps) (seq k fuel)).
Proof.
  induction fuel as [|f IH]; intros k; simpl; [reflexivity|].
  change (flat_map (fun i => children ps (Some i)) (level ps k)) with (level ps (S k)).
  destruct (level ps k) as [|a l] eqn:E.
  - simpl. symmetry. apply concat_levels_empty. replace (S k) with (k + 1) by lia. apply level_empty_mono. exact E.
  - simpl. do 2 f_equal. exact (IH (S k)).
Qed.

(* the listing is the concatenation of the first `fuel` levels *)
Lemma bfs_fuel_levels ps fuel : bfs_fuel ps fuel = concat (map (level ps) (seq 0 fuel)).
Proof. unfold bfs_fuel. exact (layers_levels ps fuel 0). Qed.

Lemma bfs_fuel_S ps fuel : bfs_fuel ps (S fuel) = bfs_fuel ps fuel ++ level ps fuel.
Proof. rewrite !bfs_fuel_levels, seq_S, map_app, concat_app. simpl. now rewrite app_nil_r. Qed.

Lemma layers_nth ps fuel : forall j k l, nth_error (layers ps (level ps j) fuel) k = Some l -> l = level ps (j + k) /\ l <> [] /\ k < fuel.
Proof.
  induction fuel as [|f IH]; intros j k l; simpl; [destruct k; discriminate|].
  change (flat_map (fun i => children ps (Some i)) (level ps j)) with (level ps (S j)).
  destruct (level ps j) as [|a t] eqn:E; [destruct k; discriminate|].
  destruct k as [|k]; simpl.
  - intros H. inversion H; subst. rewrite Nat.add_0_r. repeat split; [congruence | discriminate | lia].
  - intros H. apply (IH (S j)) in H as (-> & Hne & Hk). repeat split; [f_equal; lia | exact Hne | lia].
Qed.

Lemma layers_nth_exists ps fuel : forall j k, k < fuel -> level ps (j + k) <> [] ->
  nth_error (layers ps (level ps j) fuel) k = Some (level ps (j + k)).
Proof.
  induction fuel as [|f IH]; intros j k Hk Hne; [lia|]. simpl.
  change (flat_map (fun i => children ps (Some i)) (level ps j)) with (level ps (S j)).
  destruct (level ps j) as [|a t] eqn:E.
  - exfalso. apply Hne. apply level_empty_mono. exact E.
  - destruct k as [|k]; simpl.
    + rewrite Nat.add_0_r. congruence.
    + replace (j + S k) with (S j + k) in * by lia. apply (IH (S j)); [lia | exact Hne].
Qed.

(* layer characterisation: the k-th layer is duplicate-free and holds exactly the nodes of depth k *)
Theorem layers_spec ps fuel k l : wf_parents ps ->
  nth_error (layers ps (children ps None) fuel) k = Some l ->
  k < fuel /\ NoDup l /\ forall i, In i l <-> i < length ps /\ depth ps i = k.
Proof.
  intros W H. apply (layers_nth ps fuel 0 k l) in H as (-> & _ & Hk). simpl.
  split; [exact Hk|]. split; [apply level_NoDup; exact W | apply level_spec; exact W].
Qed.

Theorem layers_complete ps fuel k i : wf_parents ps -> k < fuel -> i < length ps -> depth ps i = k ->
  exists l, nth_error (layers ps (children ps None) fuel) k = Some l /\ In i l.
Proof.
  intros W Hk Hi D. exists (level ps k). assert (In i (level ps k)) by (apply level_spec; auto).
  split; [|assumption]. apply (layers_nth_exists ps fuel 0 k Hk). simpl. intros E. rewrite E in H. exact H.
Qed.

(* ------------------------------------------------------------------ 3./4. nothing lost, nothing duplicated, truncation *)
Lemma in_concat_levels ps a n i : In i (concat (map (level ps) (seq a n))) <-> exists k, a <= k < a + n /\ In i (level ps k).
Proof.
  rewrite in_concat. split.
  - intros (l & Hl & Hi). apply in_map_iff in Hl as (k & <- & Hk). apply in_seq in Hk. exists k. split; [lia | exact Hi].
  - intros (k & Hk & Hi). exists (level ps k). split; [|exact Hi]. apply in_map. apply in_seq. lia.
Qed.

Theorem bfs_fuel_In ps fuel i : wf_parents ps -> In i (bfs_fuel ps fuel) <-> i < length ps /\ depth ps i < fuel.
Proof.
  intros W. rewrite bfs_fuel_levels, in_concat_levels. split.
  - intros (k & Hk & Hi). apply level_spec in Hi as [Hi D]; [|exact W]. split; [exact Hi | lia].
  - intros [Hi D]. exists (depth ps i). split; [lia|]. apply level_spec; auto.
Qed.

Lemma bfs_fuel_lt_length ps fuel i : In i (bfs_fuel ps fuel) -> i < length ps.
Proof.
  rewrite bfs_fuel_levels, in_concat_levels. intros (k & _ & H). exact (level_lt_length _ _ _ H).
Qed.

Theorem bfs_fuel_NoDup ps fuel : wf_parents ps -> NoDup (bfs_fuel ps fuel).
Proof.
  intros W. induction fuel as [|f IH]; [constructor|]. rewrite bfs_fuel_S. apply NoDup_app_intro.
  - exact IH.
  - apply level_NoDup. exact W.
  - intros x H1 H2. apply bfs_fuel_In in H1 as [_ D1]; [|exact W]. apply level_spec in H2 as [_ D2]; [|exact W]. lia.
Qed.

(* the documented graph depth limit: exactly the nodes deeper than the limit are dropped *)
Theorem bfs_truncation ps fuel : wf_parents ps ->
  NoDup (bfs_fuel ps fuel) /\ forall i, In i (bfs_fuel ps fuel) <-> i < length ps /\ depth ps i < fuel.
Proof. intros W. split; [apply bfs_fuel_NoDup; exact W | intros i; apply bfs_fuel_In; exact W]. Qed.

Theorem bfs_fuel_perm ps fuel : wf_parents ps -> (forall i, i < length ps -> depth ps i < fuel) ->
  Permutation (bfs_fuel ps fuel) (seq 0 (length ps)).
Proof.
  intros W H. apply NoDup_Permutation; [apply bfs_fuel_NoDup; exact W | apply seq_NoDup |].
  intros i. rewrite bfs_fuel_In by exact W. rewrite in_seq. split.
  - intros [Hi _]. lia.
  - intros [_ Hi]. simpl in Hi. split; [exact Hi | apply H; exact Hi].
Qed.

Corollary bfs_fuel_perm_length ps fuel : wf_parents ps -> length ps <= fuel ->
  Permutation (bfs_fuel ps fuel) (seq 0 (length ps)).
Proof.
  intros W H. apply bfs_fuel_perm; [exact W|]. intros i Hi. pose proof (depth_lt_length ps i W Hi). lia.
Qed.

Lemma max_layers_eq : Z.of_nat max_layers = 4999%Z.
Proof. unfold max_layers, MAX_GRAPH_DEPTH. rewrite Z2Nat.id; lia. Qed.

Corollary bfs_perm ps : wf_parents ps -> (forall i, i < length ps -> depth ps i < max_layers) ->
  Permutation (bfs ps) (seq 0 (length ps)).
Proof. apply bfs_fuel_perm. Qed.

Corollary bfs_perm_length ps : wf_parents ps -> (Z.of_nat (length ps) <= 4999)%Z ->
  Permutation (bfs ps) (seq 0 (length ps)).
Proof. intros W H. apply bfs_fuel_perm_length; [exact W|]. pose proof max_layers_eq. lia. Qed.

Corollary bfs_In ps i : wf_parents ps -> In i (bfs ps) <-> i < length ps /\ depth ps i < max_layers.
Proof. apply bfs_fuel_In. Qed.

Corollary bfs_NoDup ps : wf_parents ps -> NoDup (bfs ps).
Proof. apply bfs_fuel_NoDup. Qed.

Lemma bfs_lt_length ps i : In i (bfs ps) -> i < length ps.
Proof. apply bfs_fuel_lt_length. Qed.

Lemma bfs_fuel_length_le ps fuel : wf_parents ps -> length (bfs_fuel ps fuel) <= length ps.
Proof.
  intros W. rewrite <- (seq_length (length ps) 0). apply NoDup_incl_length; [apply bfs_fuel_NoDup; exact W|].
  intros i Hi. apply in_seq. apply bfs_fuel_lt_length in Hi. lia.
Qed.

(* ------------------------------------------------------------------ 5. order *)
Theorem bfs_fuel_sorted ps fuel : wf_parents ps ->
  StronglySorted (fun i j => depth ps i <= depth ps j) (bfs_fuel ps fuel).
Proof.
  intros W. induction fuel as [|f IH]; [constructor|]. rewrite bfs_fuel_S. apply StronglySorted_app.
  - exact IH.
  - apply StronglySorted_all. intros x y Hx Hy.
    apply level_spec in Hx as [_ Dx]; [|exact W]. apply level_spec in Hy as [_ Dy]; [|exact W]. lia.
  - intros x y Hx Hy. apply bfs_fuel_In in Hx as [_ Dx]; [|exact W]. apply level_spec in Hy as [_ Dy]; [|exact W]. lia.
Qed.

Theorem bfs_depth_sorted ps fuel i j : wf_parents ps -> before (bfs_fuel ps fuel) i j -> depth ps i <= depth ps j.
Proof. intros W H. exact (StronglySorted_before _ _ _ _ (bfs_fuel_sorted ps fuel W) H). Qed.

Theorem bfs_parent_before ps fuel i p : wf_parents ps ->
  nth_error ps i = Some (Some p) -> In i (bfs_fuel ps fuel) -> before (bfs_fuel ps fuel) p i.
Proof.
  intros W E Hi. pose proof (depth_child _ _ _ W E) as D. pose proof (W _ _ E) as Hlt.
  assert (Hp : In p (bfs_fuel ps fuel)).
  { apply bfs_fuel_In in Hi as [Hl Hd]; [|exact W]. apply bfs_fuel_In; [exact W|]. lia. }
  destruct (before_total _ p i Hp Hi) as [H | H]; [lia | exact H |].
  apply bfs_depth_sorted in H; [lia | exact W].
Qed.

(* a listed node's ancestors are all listed *)
Lemma bfs_fuel_parent_listed ps fuel i p : wf_parents ps ->
  nth_error ps i = Some (Some p) -> In i (bfs_fuel ps fuel) -> In p (bfs_fuel ps fuel).
Proof. intros W E Hi. exact (proj1 (before_In _ _ _ (bfs_parent_before ps fuel i p W E Hi))). Qed.

(* ------------------------------------------------------------------ 7. get_leaf_at_any *)
Definition node_chans (ns : list node) (i : nat) : list ChannelIdentifier :=
  nth i (map (fun n => op_channels (n_op n)) ns) [].

Theorem leaf_at_any_some ns chans i : wf_parents (parents ns) -> leaf_at_any ns chans = Some i ->
  In i (bfs (parents ns)) /\ any_match chans (node_chans ns i) = true /\
  forall j, In j (bfs (parents ns)) -> any_match chans (node_chans ns j) = true ->
            j = i \/ before (bfs (parents ns)) j i.
Proof.
  intros W H. unfold leaf_at_any in H. apply find_rev_some in H as (l1 & l2 & E & Hi & Hl2).
  split; [rewrite E; apply in_or_app; right; left; reflexivity|]. split; [exact Hi|].
  intros j Hj Mj. rewrite E in Hj. apply in_app_or in Hj as [Hj | [-> | Hj]].
  - right. rewrite E. apply (before_app_lr l1 (i :: l2)); [exact Hj | left; reflexivity].
  - left. reflexivity.
  - apply Hl2 in Hj. unfold node_chans in Mj. congruence.
Qed.

(* the implicit predecessor has maximal relation depth among the listed nodes sharing a channel *)
Corollary leaf_at_any_max_depth ns chans i : wf_parents (parents ns) -> leaf_at_any ns chans = Some i ->
  forall j, In j (bfs (parents ns)) -> any_match chans (node_chans ns j) = true ->
            depth (parents ns) j <= depth (parents ns) i.
Proof.
  intros W H j Hj Mj. destruct (leaf_at_any_some ns chans i W H) as (_ & _ & Hmax).
  destruct (Hmax j Hj Mj) as [-> | B]; [lia|]. exact (bfs_depth_sorted _ _ _ _ W B).
Qed.

Theorem leaf_at_any_none ns chans : leaf_at_any ns chans = None ->
  forall j, In j (bfs (parents ns)) -> any_match chans (node_chans ns j) = false.
Proof. intros H j Hj. unfold leaf_at_any in H. exact (find_rev_none _ _ H j Hj). Qed.

Lemma leaf_at_any_lt ns chans i : leaf_at_any ns chans = Some i -> i < length ns.
Proof.
  intros H. unfold leaf_at_any in H. apply find_some in H as [H _]. apply in_rev in H.
  apply bfs_lt_length in H. unfold parents in H. now rewrite map_length in H.
Qed.
