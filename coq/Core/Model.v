(* Core model of the relation-based circuit (structure/intrf_circuit_operation*.py, graph_traversal, language/declarative_circuit.py).
   Executable, total Gallina; mirrors the mechanisms of the code AS THEY ARE (insertion-ordered parent pointers, layered
   listing, last-match implicit predecessor, link hand-off context, first-of-the-latest tie-break of multi links, index-map
   copy, extend / repeat / apply_modifiers).  No proofs in this file.

   Time is Z in ticks of 1/8 time unit.  A node is named by its insertion index inside its (sub-)circuit. *)
From Coq Require Import ZArith List Bool.
Import ListNotations.
From QCE Require Import Base.Prelude.
From Gen Require Import Ident Classes.
Open Scope Z_scope.

(* ------------------------------------------------------------------ durations *)
(* gkey (GReadout | GMicrowave | GFlux | GReset) comes from Gen/Classes.v *)
Inductive dstrat :=
| DFixed (d : Z)            (* FixedDurationStrategy *)
| DGlobal (k : gkey)        (* GlobalDurationStrategy *)
| DRegistry (key : Z)       (* RegistryDurationStrategy: registry key, numbered by the harness *)
| DDecouple.                (* library: GlobalDecouplingWaitDurationStrategy = max 0 ((readout - microwave)/2) *)
Record denv := { genv : gkey -> Z; renv : Z -> Z }.
Definition resolve (env : denv) (d : dstrat) : Z :=
  match d with
  | DFixed z => z
  | DGlobal k => genv env k
  | DRegistry key => renv env key
  | DDecouple => Z.max 0 ((genv env GReadout - genv env GMicrowave) / 2)
  end.

(* ------------------------------------------------------------------ circuit structure *)
Inductive link :=
| LNone                                   (* RelationLink.no_relation() *)
| LRel (t : RelationType) (p : nat)       (* RelationLink to node p of the same graph *)
| LMulti (ps : list nat)                  (* MultiRelationLink (LATEST, FOLLOWED_BY) to nodes ps *)
| LDangling (t : RelationType).           (* RelationLink whose reference is not in this graph *)

Record leaf := {
  l_lab : Z;                              (* unique label given by the generator: identity for multisets *)
  l_cls : Z;                              (* operation class: index into Gen.Classes.class_table *)
  l_qubits : list Z;                      (* qubit fields in declaration order *)
  l_qchan : QubitChannel;                 (* the qubit_channel field (classes that have one), else ALL *)
  l_dur : dstrat;
  l_acq : option (Z * Z)                  (* measurement: (qubit, tag) *)
}.

(* channel_identifiers per class: instantiation of the generated template *)
Definition tpl_chan (l : leaf) (c : option QubitChannel) : QubitChannel := match c with Some x => x | None => l_qchan l end.
Definition l_chans (l : leaf) : list ChannelIdentifier :=
  match cs_chan (class_of (l_cls l)) with
  | TplList items => map (fun it => MkChannelIdentifier (nth (fst it) (l_qubits l) 0) (tpl_chan l (snd it))) items
  | TplEach c => map (fun q => MkChannelIdentifier q (tpl_chan l c)) (l_qubits l)
  end.
(* whether the class' copy() transfers the relation link *)
Definition l_keeps (l : leaf) : bool := cs_copy_link (class_of (l_cls l)).
Definition default_dstrat (cls : Z) : dstrat :=
  match cs_dur (class_of cls) with DefFixed t => DFixed t | DefGlobal k => DGlobal k end.
(* the per-class copy(): init fields that are not passed on fall back to their defaults *)
Definition copy_leaf (l : leaf) : leaf :=
  let cs := class_of (l_cls l) in
  {| l_lab := l_lab l; l_cls := l_cls l; l_qubits := l_qubits l;
     l_qchan := if cs_copy_qchan cs then l_qchan l else ChannelIdentifier_default_channel;
     l_dur := if cs_copy_dur cs then l_dur l else default_dstrat (l_cls l);
     l_acq := l_acq l |}.

Inductive op :=
| OLeaf (l : leaf)
| OComp (reps : Z) (nodes : list node)
with node := Node (parent : option nat) (lnk : link) (o : op).

Definition n_parent (n : node) := let 'Node p _ _ := n in p.
Definition n_link (n : node) := let 'Node _ l _ := n in l.
Definition n_op (n : node) := let 'Node _ _ o := n in o.
Definition is_comp (o : op) := match o with OComp _ _ => true | _ => false end.

Definition has_relation (l : link) : bool :=
  match l with LNone => false | LMulti [] => false | _ => true end.

(* ------------------------------------------------------------------ layered listing of one graph *)
Definition opt_nat_eqb (a b : option nat) := option_eqb Nat.eqb a b.

(* indices of the nodes whose parent pointer is p, in insertion order (= order of outgoing pointers) *)
Fixpoint children_from (ps : list (option nat)) (p : option nat) (i : nat) : list nat :=
  match ps with
  | [] => []
  | q :: t => if opt_nat_eqb q p then i :: children_from t p (S i) else children_from t p (S i)
  end.
Definition children (ps : list (option nat)) (p : option nat) : list nat := children_from ps p 0.

(* GraphBranch._update_branch_iterator: layer k+1 = concatenated children of layer k; stops at an empty layer or when the
   WhileLoopSafety budget is spent *)
Fixpoint layers (ps : list (option nat)) (cur : list nat) (fuel : nat) : list (list nat) :=
  match fuel with
  | O => []
  | S f => match cur with
           | [] => []
           | _ => cur :: layers ps (flat_map (fun i => children ps (Some i)) cur) f
           end
  end.

Definition MAX_GRAPH_DEPTH : Z := 5000.
(* the root layer consumes one of the MAX_GRAPH_DEPTH iterations *)
Definition max_layers : nat := Z.to_nat (MAX_GRAPH_DEPTH - 1).

Definition bfs_fuel (ps : list (option nat)) (fuel : nat) : list nat := concat (layers ps (children ps None) fuel).
Definition bfs (ps : list (option nat)) : list nat := bfs_fuel ps max_layers.

Definition has_child (ps : list (option nat)) (i : nat) : bool := existsb (fun q => opt_nat_eqb q (Some i)) ps.
(* _cached_leaf_nodes: listed nodes without children, in listing order *)
Definition graph_leaves (ps : list (option nat)) : list nat := filter (fun i => negb (has_child ps i)) (bfs ps).
Definition depth1 (ps : list (option nat)) : list nat := children ps None.

Definition parents (ns : list node) : list (option nat) := map n_parent ns.

(* ------------------------------------------------------------------ channels *)
Definition chid_exact_eqb (a b : ChannelIdentifier) : bool :=
  (ChannelIdentifier__id a =? ChannelIdentifier__id b) && QubitChannel_eqb (ChannelIdentifier__channel a) (ChannelIdentifier__channel b).
Definition ch_match := ChannelIdentifier_eq.    (* generated from the source *)

Fixpoint uniq_chans (seen l : list ChannelIdentifier) : list ChannelIdentifier :=
  match l with
  | [] => []
  | x :: t => if existsb (chid_exact_eqb x) seen then uniq_chans seen t else x :: uniq_chans (x :: seen) t
  end.

Fixpoint op_channels (o : op) : list ChannelIdentifier :=
  match o with
  | OLeaf l => l_chans l
  | OComp _ ns =>
      let chs := (fix go (l : list node) : list (list ChannelIdentifier) :=
                    match l with [] => [] | Node _ _ o' :: t => op_channels o' :: go t end) ns in
      uniq_chans [] (flat_map (fun i => nth i chs []) (bfs (parents ns)))
  end.

Definition any_match (a b : list ChannelIdentifier) : bool :=
  existsb (fun x => existsb (fun y => ch_match y x) b) a.

(* CircuitGraphBranch.get_leaf_at_any: the LAST listed node sharing a channel *)
Definition leaf_at_any (ns : list node) (chans : list ChannelIdentifier) : option nat :=
  let chs := map (fun n => op_channels (n_op n)) ns in
  find (fun i => any_match chans (nth i chs [])) (rev (bfs (parents ns))).

(* ------------------------------------------------------------------ times *)
(* context handed to un-related depth-1 nodes: None = frame origin 0; Some (type, ref start, ref end) = enclosing link *)
Definition ctx := option (RelationType * Z * Z).

Definition start_from (t : RelationType) (rs re d : Z) : Z :=
  match t with
  | RelationType_FOLLOWED_BY => re
  | RelationType_JOINED_START => rs
  | RelationType_JOINED_END => re - d
  end.

Definition ctx_start (c : ctx) (d : Z) : Z :=
  match c with None => 0 | Some (t, rs, re) => start_from t rs re d end.

(* MultiRelationLink.reference_node: first of the latest-ending (strict >) *)
Fixpoint multi_ref_from (tm : list (Z * Z)) (ps : list nat) (best : nat) : nat :=
  match ps with
  | [] => best
  | p :: t => if snd (nth p tm (0, 0)) >? snd (nth best tm (0, 0)) then multi_ref_from tm t p else multi_ref_from tm t best
  end.
Definition multi_ref (tm : list (Z * Z)) (ps : list nat) : option nat :=
  match ps with [] => None | p :: t => Some (multi_ref_from tm t p) end.

(* start of a node with link l and own duration d, given the (start, end) of the earlier nodes *)
Definition link_start (c : ctx) (tm : list (Z * Z)) (l : link) (d : Z) : Z :=
  match l with
  | LNone => ctx_start c d
  | LDangling _ => ctx_start c d        (* never stored in a graph: add_node replaces it *)
  | LRel t p => let '(rs, re) := nth p tm (0, 0) in start_from t rs re d
  | LMulti ps => match multi_ref tm ps with
                 | None => ctx_start c d
                 | Some p => snd (nth p tm (0, 0))
                 end
  end.

(* (start, end) of all nodes in insertion order; references point backwards *)
Fixpoint times_acc (c : ctx) (hs : list (link * Z)) (acc : list (Z * Z)) : list (Z * Z) :=
  match hs with
  | [] => acc
  | (l, d) :: t => let s := link_start c acc l d in times_acc c t (acc ++ [(s, s + d)])
  end.
Definition times (c : ctx) (hs : list (link * Z)) : list (Z * Z) := times_acc c hs [].

Definition zmin_list (d : Z) (l : list Z) : Z := match l with [] => d | x :: t => fold_left Z.min t x end.

(* CircuitCompositeOperation._relative_extent: earliest start and latest end over ALL nodes of the graph (a nested block
   contributes its own inner extent, shifted to its start), relative to the earliest start among the depth-1 nodes *)
Definition extent_of_nodes (ps : list (option nat)) (tm : list (Z * Z)) (exts : list (Z * Z)) : Z * Z :=
  match ps with
  | [] => (0, 0)
  | _ => let rel0 := zmin_list 0 (map (fun i => fst (nth i tm (0, 0))) (depth1 ps)) in
         fold_left (fun (acc : Z * Z) (i : nat) =>
                      let s := fst (nth i tm (0, 0)) - rel0 in
                      let '(lo, hi) := nth i exts (0, 0) in
                      (Z.min (fst acc) (s + lo), Z.max (snd acc) (s + hi)))
                   (bfs ps) (0, 0)
  end.

(* inner extent of an operation relative to its own start: a leaf occupies [0, duration] *)
Fixpoint ext_of (env : denv) (o : op) : Z * Z :=
  match o with
  | OLeaf l => (0, resolve env (l_dur l))
  | OComp _ ns =>
      let exts := (fix go (l : list node) : list (Z * Z) := match l with [] => [] | Node _ _ o' :: t => ext_of env o' :: go t end) ns in
      let ds := map (fun e => snd e - fst e) exts in
      extent_of_nodes (parents ns) (times None (combine (map n_link ns) ds)) exts
  end.
Definition dur_of (env : denv) (o : op) : Z := let '(lo, hi) := ext_of env o in hi - lo.

Definition node_times (env : denv) (c : ctx) (ns : list node) : list (Z * Z) :=
  times c (combine (map n_link ns) (map (fun n => dur_of env (n_op n)) ns)).

Definition comp_duration (env : denv) (ns : list node) : Z := dur_of env (OComp 1 ns).

(* ------------------------------------------------------------------ listing (decomposed_operations) *)
Record entry := { e_leaf : leaf; e_start : Z; e_end : Z }.

(* context a sub-circuit hands to its un-related first operations: its own link, or, if it has none, what it inherited *)
Definition sub_ctx (c : ctx) (tm : list (Z * Z)) (l : link) : ctx :=
  match l with
  | LNone | LDangling _ => c
  | LRel t p => let '(rs, re) := nth p tm (0, 0) in Some (t, rs, re)
  | LMulti ps => match multi_ref tm ps with
                 | None => c
                 | Some p => let '(rs, re) := nth p tm (0, 0) in Some (RelationType_FOLLOWED_BY, rs, re)
                 end
  end.

Fixpoint listing_op (env : denv) (o : op) : ctx -> Z * Z -> list entry :=
  match o with
  | OLeaf l => fun _ se => [ {| e_leaf := l; e_start := fst se; e_end := snd se |} ]
  | OComp _ ns => fun c _ =>
      let fs := (fix go (l : list node) : list (ctx -> Z * Z -> list entry) :=
                   match l with [] => [] | Node _ _ o' :: t => listing_op env o' :: go t end) ns in
      let tm := node_times env c ns in
      flat_map (fun i => nth i fs (fun _ _ => []) (sub_ctx c tm (nth i (map n_link ns) LNone)) (nth i tm (0, 0)))
               (bfs (parents ns))
  end.

Definition listing (env : denv) (ns : list node) : list entry := listing_op env (OComp 1 ns) None (0, 0).

(* ------------------------------------------------------------------ building: add_to_graph *)
(* CircuitGraphBranch.get_latest_node_of: the LAST listed node among the given ones (latest in relation steps, not in time),
   so that an operation related to a group is listed after the entire group *)
Definition latest_of (ns : list node) (ps : list nat) : option nat :=
  find (fun i => existsb (Nat.eqb i) ps) (rev (bfs (parents ns))).

Definition add_node (env : denv) (ns : list node) (o : op) (l : link) : list node :=
  let lf := leaf_at_any ns (op_channels o) in
  let implicit := match lf with
                  | None => Node None LNone o
                  | Some i => Node (Some i) (LRel RelationType_FOLLOWED_BY i) o
                  end in
  ns ++ [ match l with
          | LNone => implicit
          | LDangling _ => implicit                  (* reference not in graph: relation ignored (with a warning) *)
          | LRel t p => if Nat.ltb p (length ns) then Node (Some p) l o else implicit
          | LMulti ps => match latest_of ns ps with       (* get_latest_node_of: the member latest in relation steps *)
                         | None => implicit
                         | Some p => Node (Some p) l o
                         end
          end ].

(* ------------------------------------------------------------------ copy *)
Definition idxmap := list (nat * nat).
Fixpoint lookup (m : idxmap) (i : nat) : option nat :=
  match m with [] => None | (a, b) :: t => if Nat.eqb a i then Some b else lookup t i end.

Fixpoint filter_map {A B} (f : A -> option B) (l : list A) : list B :=
  match l with [] => [] | x :: t => match f x with Some y => y :: filter_map f t | None => filter_map f t end end.

(* RelationLink.copy / MultiRelationLink.copy through the transfer lookup *)
Definition map_link (m : idxmap) (l : link) : link :=
  match l with
  | LNone => LNone
  | LDangling _ => LNone
  | LRel t p => match lookup m p with Some q => LRel t q | None => LNone end
  | LMulti ps => LMulti (filter_map (lookup m) ps)
  end.

Definition op_keeps (o : op) : bool := match o with OLeaf l => l_keeps l | OComp _ _ => true end.

(* rebuild in listing order from already-copied operations cops (by original index) *)
Definition rebuild (env : denv) (ns : list node) (cops : list op) : list node :=
  fst (fold_left (fun (st : list node * idxmap) (i : nat) =>
                    let '(new, m) := st in
                    match nth_error ns i, nth_error cops i with
                    | Some n, Some o' =>
                        let l' := if op_keeps (n_op n) then map_link m (n_link n) else LNone in
                        (add_node env new o' l', (i, length new) :: m)
                    | _, _ => st
                    end)
                 (bfs (parents ns)) ([], [])).

Fixpoint copy_op (env : denv) (o : op) : op :=
  match o with
  | OLeaf l => OLeaf (copy_leaf l)
  | OComp r ns =>
      let cops := (fix go (l : list node) : list op := match l with [] => [] | Node _ _ o' :: t => copy_op env o' :: go t end) ns in
      OComp r (rebuild env ns cops)
  end.
Definition copy_nodes (env : denv) (ns : list node) : list node :=
  match copy_op env (OComp 1 ns) with OComp _ r => r | _ => [] end.

(* ------------------------------------------------------------------ extend / repeat / apply_modifiers *)
Definition extend (env : denv) (ns other : list node) : list node :=
  let rel := match ns with [] => LNone | _ => LMulti (graph_leaves (parents ns)) end in
  fst (fold_left (fun (st : list node * idxmap) (i : nat) =>
                    let '(cur, m) := st in
                    match nth_error other i with
                    | Some n =>
                        let l' := if has_relation (n_link n) then map_link m (n_link n) else rel in
                        (add_node env cur (n_op n) l', (i, length cur) :: m)
                    | None => st
                    end)
                 (bfs (parents other)) (ns, [])).

Fixpoint iter_n {A} (n : nat) (f : A -> A) (x : A) : A := match n with O => x | S k => iter_n k f (f x) end.

Definition repeat_nodes (env : denv) (ns : list node) (times : Z) : list node :=
  let original := copy_nodes env ns in
  iter_n (Z.to_nat (times - 1)) (fun cur => extend env cur (copy_nodes env original)) ns.

Fixpoint op_depth (o : op) : nat :=
  match o with
  | OLeaf _ => O
  | OComp _ ns => S ((fix go (l : list node) : nat := match l with [] => O | Node _ _ o' :: t => Nat.max (op_depth o') (go t) end) ns)
  end.

(* apply_modifiers_to_self: repeat self, reset the count, then recurse into the (now present) sub-circuits.
   Recursion is on explicit fuel (the copies are not structural subterms); fuel = nesting depth suffices. *)
Fixpoint apply_mods_fuel (fuel : nat) (env : denv) (reps : Z) (ns : list node) : list node :=
  match fuel with
  | O => ns
  | S f =>
      map (fun n => match n with
                    | Node p l (OComp r sub) => Node p l (OComp 1 (apply_mods_fuel f env r sub))
                    | _ => n
                    end)
          (repeat_nodes env ns reps)
  end.
Definition apply_modifiers (env : denv) (reps : Z) (ns : list node) : list node :=
  apply_mods_fuel (op_depth (OComp reps ns)) env reps ns.

(* ------------------------------------------------------------------ build programs (DeclarativeCircuit.add ...) *)
Inductive cmd :=
| CAdd (l : leaf) (r : option (RelationType * nat))   (* relation to the entry returned by an earlier command *)
| CDangling (l : leaf) (t : RelationType)              (* relation to an operation that was never added *)
| CSub (reps : Z) (body : list cmd).                    (* add(sub-circuit): copied, its own outward relation dropped *)

Fixpoint run_cmds (env : denv) (cs : list cmd) (ns : list node) : list node :=
  match cs with
  | [] => ns
  | c :: t =>
      let ns' := match c with
                 | CAdd l None => add_node env ns (OLeaf l) LNone
                 | CAdd l (Some (ty, p)) => add_node env ns (OLeaf l) (LRel ty p)
                 | CDangling l ty => add_node env ns (OLeaf l) (LDangling ty)
                 | CSub r body => add_node env ns (OComp r (copy_nodes env (run_cmds env body []))) LNone
                 end in
      run_cmds env t ns'
  end.
Definition run_prog (env : denv) (p : list cmd) : list node := run_cmds env p [].

(* ------------------------------------------------------------------ flatten (apply_flatten_to_self) *)
(* Operations are named globally by their path (insertion indices from the top).  The decomposed listing carries, for every
   leaf, the link it holds after the hand-off: its own link, or the link inherited from the enclosing sub-circuit(s). *)
Definition path := list nat.
Inductive glink := GNone | GRel (t : RelationType) (target : path) | GMulti (targets : list path) | GDangling (t : RelationType).

Definition globalize (P : path) (l : link) : glink :=
  match l with
  | LNone => GNone
  | LDangling t => GDangling t
  | LRel t p => GRel t (P ++ [p])
  | LMulti ps => GMulti (map (fun p => P ++ [p]) ps)
  end.

Fixpoint glisting_op (o : op) : path -> glink -> list (path * leaf * glink) :=
  match o with
  | OLeaf l => fun P inh => [(P, l, inh)]
  | OComp _ ns => fun P inh =>
      let fs := (fix go (l : list node) : list (path -> glink -> list (path * leaf * glink)) :=
                   match l with [] => [] | Node _ _ o' :: t => glisting_op o' :: go t end) ns in
      flat_map (fun i => let l := nth i (map n_link ns) LNone in
                         let eff := if has_relation l then globalize P l else inh in
                         nth i fs (fun _ _ => []) (P ++ [i]) eff)
               (bfs (parents ns))
  end.
Definition glisting (ns : list node) : list (path * leaf * glink) := glisting_op (OComp 1 ns) [] GNone.

Fixpoint path_eqb (a b : path) : bool :=
  match a, b with [], [] => true | x :: s, y :: t => Nat.eqb x y && path_eqb s t | _, _ => false end.
Fixpoint plookup (m : list (path * nat)) (p : path) : option nat :=
  match m with [] => None | (a, b) :: t => if path_eqb a p then Some b else plookup t p end.
Fixpoint all_some {A} (l : list (option A)) : option (list A) :=
  match l with
  | [] => Some []
  | None :: _ => None
  | Some x :: t => match all_some t with Some r => Some (x :: r) | None => None end
  end.

(* absolute (start, end) of every node (leaves and sub-circuits) of the nested structure, by path *)
Fixpoint gtimes_op (env : denv) (o : op) : path -> ctx -> list (path * (Z * Z)) :=
  match o with
  | OLeaf _ => fun _ _ => []
  | OComp _ ns => fun P c =>
      let fs := (fix go (l : list node) : list (path -> ctx -> list (path * (Z * Z))) :=
                   match l with [] => [] | Node _ _ o' :: t => gtimes_op env o' :: go t end) ns in
      let tm := node_times env c ns in
      flat_map (fun i => (P ++ [i], nth i tm (0, 0))
                         :: nth i fs (fun _ _ => []) (P ++ [i]) (sub_ctx c tm (nth i (map n_link ns) LNone)))
               (seq 0 (length ns))
  end.
Definition gtimes (env : denv) (ns : list node) : list (path * (Z * Z)) := gtimes_op env (OComp 1 ns) [] None.
Fixpoint gend (g : list (path * (Z * Z))) (p : path) : Z :=
  match g with [] => 0 | (a, se) :: t => if path_eqb a p then snd se else gend t p end.
(* MultiRelationLink.reference_node over paths: first of the latest-ending *)
Fixpoint gmulti_ref_from (g : list (path * (Z * Z))) (ps : list path) (best : path) : path :=
  match ps with
  | [] => best
  | p :: t => if gend g p >? gend g best then gmulti_ref_from g t p else gmulti_ref_from g t best
  end.

(* Re-insertion of the decomposed listing into an empty graph.  A link whose referent is a vanished sub-circuit (or is not yet
   present) takes add_to_graph's fallback branch; so does a multi-link none of whose members is present.  A multi-link that
   stays attached to a leaf while another member of its group is a sub-circuit is outside the model (the implementation
   then keeps consulting the stale nested graph for its times: finding F10) -> None. *)
Definition flatten (env : denv) (ns : list node) : option (list node) :=
  option_map fst (fold_left (fun (st : option (list node * list (path * nat))) (e : path * leaf * glink) =>
               match st with
               | None => None
               | Some (new, m) =>
                   let '(P, l, gl) := e in
                   let lk := match gl with
                             | GNone => Some LNone
                             | GDangling t => Some (LDangling t)
                             | GRel t tg => match plookup m tg with Some q => Some (LRel t q) | None => Some (LDangling t) end
                             | GMulti [] => Some LNone
                             | GMulti tgs =>
                                 match filter_map (plookup m) tgs with
                                 | [] => Some (LDangling RelationType_FOLLOWED_BY)      (* no member present: fallback *)
                                 | _ => match all_some (map (plookup m) tgs) with
                                        | Some qs => Some (LMulti qs)
                                        | None => None                                   (* a member is a vanished sub-circuit *)
                                        end
                                 end
                             end in
                   match lk with
                   | None => None
                   | Some k => Some (add_node env new (OLeaf l) k, (P, length new) :: m)
                   end
               end)
            (glisting ns) (Some ([], []))).
