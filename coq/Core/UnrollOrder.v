(* extend / repeat (Core.Model) in listing order: the appended block hangs below the LAST listed node of the circuit, which
   lies in its deepest layer; hence every appended node is deeper than every old node and the listing of the extension is the
   listing of the circuit followed by the listing of the block.  By iteration the unrolled listing is the n-fold concatenation.
   Builds on Core/BfsProofs.v, BfsWf.v, CopyOrder.v (renumbering of a forest in its listing order), UnrollProofs.v, UnrollTimes.v. *)
From Coq Require Import ZArith List Bool Lia Arith Permutation Sorted.
Import ListNotations.
From QCE Require Import Base.Prelude Core.Model Core.BfsProofs Core.BfsWf Core.CopyOrder C02.Proofs Core.UnrollProofs Core.UnrollTimes.
From Gen Require Import Ident Classes.
Local Open Scope nat_scope.

(* ------------------------------------------------------------------ children_from *)
Lemma children_from_shift qs p i : children_from qs p i = map (Nat.add i) (children_from qs p 0).
Proof.
  revert i. induction qs as [|q t IH]; intros i; simpl; [reflexivity|].
  assert (E : children_from t p (S i) = map (Nat.add i) (children_from t p 1)).
  { rewrite (IH (S i)), (IH 1), map_map. apply map_ext. intros; lia. }
  destruct (opt_nat_eqb q p); simpl; rewrite ?Nat.add_0_r, E; reflexivity.
Qed.

Lemma children_from_map (lf : option nat -> option nat) qs x y : (forall q, In q qs -> opt_nat_eqb (lf q) x = opt_nat_eqb q y) ->
  forall i, children_from (map lf qs) x i = children_from qs y i.
Proof.
  induction qs as [|q t IH]; intros Hq i; simpl; [reflexivity|].
  rewrite (Hq q (or_introl eq_refl)), IH; [reflexivity|]. intros q' H. apply Hq. right. exact H.
Qed.

Lemma children_from_none qs x : (forall q, In q qs -> opt_nat_eqb q x = false) -> forall i, children_from qs x i = [].
Proof.
  induction qs as [|q t IH]; intros Hq i; simpl; [reflexivity|].
  rewrite (Hq q (or_introl eq_refl)). apply IH. intros q' H. apply Hq. right. exact H.
Qed.

Lemma children_app ps qs x : children (ps ++ qs) x = children ps x ++ children_from qs x (length ps).
Proof. unfold children. rewrite children_from_app. reflexivity. Qed.

Lemma opt_nat_eqb_false a b : a <> b -> opt_nat_eqb a b = false.
Proof. intros H. destruct (opt_nat_eqb a b) eqn:E; [|reflexivity]. apply opt_nat_eqb_spec in E. contradiction. Qed.

Lemma opt_nat_eqb_refl a : opt_nat_eqb a a = true.
Proof. apply opt_nat_eqb_spec. reflexivity. Qed.

Lemma flat_map_single {B} (X : list B) (g : nat -> list B) (l : list nat) (a : nat) :
  NoDup l -> In a l -> g a = X -> (forall i, In i l -> i <> a -> g i = []) -> flat_map g l = X.
Proof.
  induction l as [|b l IH]; intros ND Ha Ga Gn; [contradiction|]. inversion ND as [|? ? Hni ND']; subst. simpl.
  destruct Ha as [-> | Ha].
  - rewrite (flat_map_ext_in g (fun _ => [])) by (intros i Hi; apply Gn; [right; exact Hi | intros ->; contradiction]).
    assert (Z : forall l0 : list nat, flat_map (fun _ : nat => @nil B) l0 = []) by (intros l0; induction l0; simpl; auto).
    rewrite Z, app_nil_r. reflexivity.
  - rewrite (Gn b (or_introl eq_refl)) by (intros ->; contradiction). simpl.
    apply IH; auto. intros i Hi. apply Gn. right. exact Hi.
Qed.

(* the listing does not grow once the fuel exceeds every depth *)
Lemma bfs_fuel_stable ps f f' : wf_parents ps -> (forall i, i < length ps -> depth ps i < f) -> f <= f' ->
  bfs_fuel ps f' = bfs_fuel ps f.
Proof.
  intros W D L. rewrite !bfs_fuel_levels. replace f' with (f + (f' - f)) by lia.
  rewrite seq_app, map_app, concat_app. simpl.
  assert (E : concat (map (level ps) (seq f (f' - f))) = []).
  { apply concat_levels_empty. destruct (level ps f) as [|a l] eqn:E; [reflexivity|]. exfalso.
    assert (I : In a (level ps f)) by (rewrite E; left; reflexivity).
    apply level_spec in I as [I1 I2]; [|exact W]. specialize (D a I1). lia. }
  rewrite E. apply app_nil_r.
Qed.

(* ------------------------------------------------------------------ hooking a forest below a deepest node of another *)
Section Hook.
  Variables P Q : list (option nat).
  Variable pstar : nat.
  Let off := length P.
  Definition lift (q : option nat) : option nat := match q with None => Some pstar | Some a => Some (off + a) end.
  Let H := P ++ map lift Q.
  Hypothesis WP : wf_parents P.
  Hypothesis Hp : pstar < off.
  Let D := depth P pstar.
  (* pstar lies in the deepest layer of P *)
  Hypothesis HD : forall i, i < off -> depth P i <= D.

  Lemma hook_children_none : children H None = children P None.
  Proof.
    unfold H. rewrite children_app, children_from_none; [apply app_nil_r|].
    intros q Hq. apply in_map_iff in Hq as ([a|] & <- & _); reflexivity.
  Qed.

  Lemma hook_children_old i : i < off -> i <> pstar -> children H (Some i) = children P (Some i).
  Proof.
    intros Hi Hne. unfold H. rewrite children_app, children_from_none; [apply app_nil_r|].
    intros q Hq. apply in_map_iff in Hq as ([a|] & <- & _); simpl; apply Nat.eqb_neq; lia.
  Qed.

  Lemma deepest_no_children i : i < off -> depth P i = D -> children P (Some i) = [].
  Proof.
    intros Hi Di. destruct (children P (Some i)) as [|c l] eqn:E; [reflexivity|]. exfalso.
    assert (I : In c (children P (Some i))) by (rewrite E; left; reflexivity).
    pose proof (children_lt_length _ _ _ I) as Hc. apply children_spec in I.
    pose proof (depth_child _ _ _ WP I). specialize (HD c Hc). lia.
  Qed.

  Lemma hook_children_star : children H (Some pstar) = map (Nat.add off) (children Q None).
  Proof.
    unfold H. rewrite children_app, (deepest_no_children pstar Hp eq_refl). simpl.
    rewrite (children_from_map lift Q (Some pstar) None).
    - fold off. apply children_from_shift.
    - intros [a|] _; simpl; [apply Nat.eqb_neq; lia | apply Nat.eqb_refl].
  Qed.

  Lemma hook_children_new a : children H (Some (off + a)) = map (Nat.add off) (children Q (Some a)).
  Proof.
    unfold H. rewrite children_app.
    assert (E : children P (Some (off + a)) = []).
    { destruct (children P (Some (off + a))) as [|c l] eqn:E; [reflexivity|]. exfalso.
      assert (I : In c (children P (Some (off + a)))) by (rewrite E; left; reflexivity).
      pose proof (children_lt_length _ _ _ I) as Hc. apply children_spec in I. apply WP in I. unfold off in *. lia. }
    rewrite E. simpl. rewrite (children_from_map lift Q (Some (off + a)) (Some a)).
    - fold off. apply children_from_shift.
    - intros [b|] _; simpl.
      + destruct (Nat.eqb b a) eqn:X; [apply Nat.eqb_eq in X; subst; apply Nat.eqb_refl | apply Nat.eqb_neq in X; apply Nat.eqb_neq; lia].
      + apply Nat.eqb_neq. lia.
  Qed.

  Lemma hook_level_low j : j <= D -> level H j = level P j.
  Proof.
    induction j as [|j IH]; intros Hj; simpl; [apply hook_children_none|].
    rewrite IH by lia. apply flat_map_ext_in. intros i Hi. apply level_spec in Hi as [Hi Di]; [|exact WP].
    apply hook_children_old; [exact Hi|]. intros ->. fold D in Di. lia.
  Qed.

  Lemma hook_level_high j : level H (D + 1 + j) = map (Nat.add off) (level Q j).
  Proof.
    induction j as [|j IH].
    - rewrite Nat.add_0_r, Nat.add_1_r. simpl. rewrite hook_level_low by lia.
      apply (flat_map_single _ _ _ pstar).
      + apply level_NoDup. exact WP.
      + apply level_spec; [exact WP|]. split; [exact Hp | reflexivity].
      + apply hook_children_star.
      + intros i Hi Hne. apply level_spec in Hi as [Hi Di]; [|exact WP].
        rewrite hook_children_old by assumption. apply deepest_no_children; assumption.
    - replace (D + 1 + S j) with (S (D + 1 + j)) by lia. simpl. rewrite IH, CopyOrder.flat_map_map, map_flat_map'.
      apply flat_map_ext. intros a. apply hook_children_new.
  Qed.

  Lemma hook_levels_high n : forall k,
    map (level H) (seq (D + 1 + k) n) = map (fun x => map (Nat.add off) (level Q x)) (seq k n).
  Proof.
    induction n as [|n IH]; intros k; [reflexivity|]. cbn [seq map]. rewrite hook_level_high. f_equal.
    replace (S (D + 1 + k)) with (D + 1 + S k) by lia. apply IH.
  Qed.

  Theorem hook_bfs_fuel M : D + 1 <= M -> bfs_fuel H M = bfs_fuel P (D + 1) ++ map (Nat.add off) (bfs_fuel Q (M - D - 1)).
  Proof.
    intros HM. rewrite !bfs_fuel_levels. replace M with ((D + 1) + (M - D - 1)) at 1 by lia.
    rewrite seq_app, map_app, concat_app. f_equal.
    - f_equal. apply map_ext_in. intros j Hj. apply in_seq in Hj. apply hook_level_low. lia.
    - rewrite <- concat_map_map, map_map. f_equal. replace (0 + (D + 1)) with (D + 1 + 0) by lia. apply hook_levels_high.
  Qed.
End Hook.

(* ------------------------------------------------------------------ appending nodes keeps the relative order of the old ones *)
Lemma filter_filter_impl {A} (P Q : A -> bool) l : (forall x, P x = true -> Q x = true) -> filter P (filter Q l) = filter P l.
Proof.
  intros H. induction l as [|a l IH]; simpl; [reflexivity|]. destruct (Q a) eqn:Qa; simpl.
  - destruct (P a); now rewrite IH.
  - destruct (P a) eqn:Pa; [apply H in Pa; congruence | exact IH].
Qed.

Lemma bfs_fuel_app_filter ps fuel : forall qs, wf_parents (ps ++ qs) ->
  filter (fun x => x <? length ps) (bfs_fuel (ps ++ qs) fuel) = bfs_fuel ps fuel.
Proof.
  induction qs as [|q qs IH] using rev_ind; intros W.
  - rewrite app_nil_r in *. apply filter_all_true. intros x Hx. apply Nat.ltb_lt. exact (bfs_fuel_lt_length _ _ _ Hx).
  - rewrite app_assoc in *. pose proof (CopyOrder.wf_parents_app_l _ _ W) as W'.
    rewrite <- (IH W'), <- (bfs_fuel_snoc_filter (ps ++ qs) q W' fuel). symmetry. apply filter_filter_impl.
    intros x Hx. apply Nat.ltb_lt in Hx. apply Nat.ltb_lt. rewrite app_length. lia.
Qed.

Lemma filter_rev' {A} (P : A -> bool) l : filter P (rev l) = rev (filter P l).
Proof.
  induction l as [|a l IH]; simpl; [reflexivity|]. rewrite filter_app, IH. simpl. destruct (P a); simpl; [reflexivity | apply app_nil_r].
Qed.

Lemma find_filter {A} (f P : A -> bool) l : (forall x, f x = true -> P x = true) -> find f (filter P l) = find f l.
Proof.
  intros H. induction l as [|a l IH]; simpl; [reflexivity|]. destruct (P a) eqn:Pa; simpl.
  - destruct (f a); [reflexivity | exact IH].
  - destruct (f a) eqn:Fa; [apply H in Fa; congruence | exact IH].
Qed.

(* the last listed member of a group of old nodes does not change when nodes are appended *)
Lemma latest_of_app ns tl ps : wf_parents (parents (ns ++ tl)) -> Forall (fun q => q < length ns) ps ->
  latest_of (ns ++ tl) ps = latest_of ns ps.
Proof.
  intros W F. unfold latest_of, bfs. rewrite parents_app in *.
  rewrite <- (bfs_fuel_app_filter (parents ns) max_layers (parents tl) W), <- filter_rev', find_filter; [reflexivity|].
  intros x Hx. apply existsb_exists in Hx as (q & Hq & E). apply Nat.eqb_eq in E. subst q.
  rewrite Forall_forall in F. apply Nat.ltb_lt. rewrite parents_length. exact (F x Hq).
Qed.

Lemma list_eq_nth_error {A} (l l' : list A) : (forall i, nth_error l i = nth_error l' i) -> l = l'.
Proof.
  revert l'. induction l as [|a l IH]; intros [|b l'] H; try reflexivity; try (specialize (H 0); discriminate).
  pose proof (H 0) as H0. simpl in H0. inversion H0; subst. f_equal. apply IH. intros i. exact (H (S i)).
Qed.

(* ------------------------------------------------------------------ links kept by copy: blocks built by a program *)
Definition simple_link (l : link) : Prop := match l with LNone | LRel _ _ => True | _ => False end.
Definition simple_links (ns : list node) : Prop := Forall (fun n => simple_link (n_link n)) ns.

(* the link stored for a node of `other` whose own link is l: kept and renumbered, or the multi-link to the relation leaves *)
Definition ext_img_link (G : list nat) (off : nat) (B : list nat) (l : link) : link :=
  match l with LRel t q => LRel t (off + pos B q) | _ => LMulti G end.

(* ------------------------------------------------------------------ the listing of an extension *)
Section Concat.
  Variable env : denv.
  Variables ns other : list node.
  Hypothesis Wns : wf_op (OComp 1%Z ns).
  Hypothesis Wo : wf_nodes other.
  Hypothesis Wops : Forall (fun n => wf_op (n_op n)) other.
  Hypothesis So : simple_links other.
  Hypothesis Hne : ns <> [].
  Hypothesis Hsize : length ns + length other <= max_layers.
  Let off := length ns.
  Let B := bfs (parents other).
  Let G := graph_leaves (parents ns).
  Let R := extend env ns other.
  Let pstar := last (bfs (parents ns)) 0.
  Let D := depth (parents ns) pstar.

  Lemma cc_Wn : wf_nodes ns.
  Proof. exact (proj1 (wf_op_comp_inv _ _ Wns)). Qed.

  Lemma cc_listable_ns : listable ns.
  Proof. apply small_listable; [exact cc_Wn | lia]. Qed.

  Lemma cc_listable_other : listable other.
  Proof. apply small_listable; [exact Wo | lia]. Qed.

  Lemma cc_B_NoDup : NoDup B.
  Proof. apply bfs_NoDup. exact (proj1 Wo). Qed.

  Lemma cc_B_In i : In i B <-> i < length other.
  Proof.
    unfold B. rewrite (Permutation_in' eq_refl cc_listable_other), in_seq. lia.
  Qed.

  Lemma cc_B_length : length B = length other.
  Proof. unfold B. rewrite (Permutation_length cc_listable_other). apply seq_length. Qed.

  Lemma cc_bfs_last : bfs (parents ns) = removelast (bfs (parents ns)) ++ [pstar].
  Proof.
    apply app_removelast_last. intros E. pose proof (Permutation_length cc_listable_ns) as L. rewrite E, seq_length in L.
    destruct ns; [congruence | discriminate].
  Qed.

  Lemma cc_pstar_listed : In pstar (bfs (parents ns)).
  Proof. rewrite cc_bfs_last. apply in_or_app. right. left. reflexivity. Qed.

  Lemma cc_pstar_lt : pstar < off.
  Proof. pose proof (bfs_lt_length _ _ cc_pstar_listed) as H. now rewrite parents_length in H. Qed.

  (* the last listed node lies in the deepest layer *)
  Lemma cc_depth_max i : i < off -> depth (parents ns) i <= D.
  Proof.
    intros Hi. assert (Ii : In i (bfs (parents ns))).
    { apply (Permutation_in' eq_refl cc_listable_ns). apply in_seq. unfold off in Hi. lia. }
    rewrite cc_bfs_last in Ii. apply in_app_or in Ii as [Ii | [<- | []]]; [|unfold D; lia].
    apply (bfs_depth_sorted _ max_layers _ _ (proj1 cc_Wn)). fold (bfs (parents ns)). rewrite cc_bfs_last.
    apply before_app_lr; [exact Ii | left; reflexivity].
  Qed.

  (* ... and is a relation leaf *)
  Lemma cc_pstar_leaf : In pstar G.
  Proof.
    apply graph_leaves_spec. split; [exact cc_pstar_listed|]. intros j Ej.
    pose proof (depth_child _ _ _ (proj1 cc_Wn) Ej) as Dj.
    assert (Hj : j < off). { unfold off. rewrite <- (parents_length ns). apply nth_error_Some. congruence. }
    pose proof (cc_depth_max j Hj). unfold D in *. lia.
  Qed.

  Lemma cc_G_lt : Forall (fun q => q < length ns) G.
  Proof. apply Forall_forall. intros q Hq. apply graph_leaves_lt in Hq. now rewrite parents_length in Hq. Qed.

  Lemma cc_latest_ns : latest_of ns G = Some pstar.
  Proof.
    unfold latest_of. rewrite cc_bfs_last, rev_app_distr. simpl.
    assert (X : existsb (Nat.eqb pstar) G = true); [|now rewrite X].
    apply existsb_exists. exists pstar. split; [exact cc_pstar_leaf | apply Nat.eqb_refl].
  Qed.

  Lemma cc_G_ne : G <> [].
  Proof. intros E. pose proof cc_pstar_leaf as H. rewrite E in H. exact H. Qed.

  Lemma cc_R_wf : wf_nodes R.
  Proof. apply extend_wf; assumption. Qed.

  (* where the k-th listed node of `other` is stored and below which node *)
  Lemma cc_R_node_full k i n : nth_error B k = Some i -> nth_error other i = Some n ->
    nth_error R (off + k) = Some (Node (lift (parents ns) pstar (option_map (pos B) (n_parent n)))
                                       (ext_img_link G off B (n_link n)) (n_op n))
    /\ (forall t q, n_link n = LRel t q -> n_parent n = Some q /\ pos B q < k /\ nth_error B (pos B q) = Some q).
  Proof.
    intros Ek En. destruct (extend_spec env ns other) as (L & P & K). fold R B off in L, P, K.
    destruct (K k i Ek) as (n' & En' & EK). rewrite En in En'. inversion En'; subst n'. clear En'.
    assert (Hk : k < length B) by (apply nth_error_Some; congruence).
    pose proof (proj2 Wo i n En) as LK. unfold link_ok in LK.
    pose proof (proj1 (Forall_forall _ _) So n (nth_error_In _ _ En)) as SL. simpl in SL.
    rewrite EK. unfold ext_link. destruct (n_link n) as [|t q|qs|t] eqn:EL; try contradiction; simpl has_relation; cbv iota.
    - (* no relation: below the last listed node of ns *)
      split; [|intros t q E; discriminate].
      rewrite LK. simpl. rewrite (ext_rel_multi ns cc_G_ne). unfold new_node.
      destruct (firstn_app_prefix R ns off (off + k) P) as (tl & Ecur); [lia|].
      rewrite Ecur, latest_of_app; [| | exact cc_G_lt].
      + fold G. rewrite cc_latest_ns. reflexivity.
      + rewrite <- Ecur, parents_firstn. apply wf_parents_firstn. exact (proj1 cc_R_wf).
    - (* relation kept, renumbered *)
      destruct LK as [Hp Hq]. rewrite Hp. simpl.
      assert (Bq : before B q i).
      { apply bfs_parent_before; [exact (proj1 Wo) | | eapply nth_error_In; exact Ek].
        rewrite parents_nth_error, En. simpl. now rewrite Hp. }
      pose proof (before_pos _ _ _ cc_B_NoDup Bq) as Hpos. rewrite (pos_nth_error _ _ _ cc_B_NoDup Ek) in Hpos.
      assert (Eq : nth_error B (pos B q) = Some q).
      { apply nth_error_pos. apply cc_B_In. assert (i < length other) by (apply nth_error_Some; congruence). lia. }
      split; [|intros t' q' E; injection E as <- <-; auto].
      rewrite (lookup_idx_after B off k [] q (pos B q) cc_B_NoDup Eq Hpos).
      unfold new_node. rewrite firstn_length. replace (Nat.ltb (off + pos B q) (Nat.min (off + k) (length R))) with true.
      + rewrite parents_length. reflexivity.
      + symmetry. apply Nat.ltb_lt. lia.
  Qed.

  Lemma cc_R_node k i n : nth_error B k = Some i -> nth_error other i = Some n ->
    exists nd, nth_error R (off + k) = Some nd /\ n_op nd = n_op n /\
               n_parent nd = lift (parents ns) pstar (option_map (pos B) (n_parent n)).
  Proof.
    intros Ek En. destruct (cc_R_node_full k i n Ek En) as [E _]. eexists. split; [exact E|]. split; reflexivity.
  Qed.

  Lemma cc_R_length : length R = off + length other.
  Proof. destruct (extend_spec env ns other) as (L & _). fold R B in L. rewrite L, cc_B_length. reflexivity. Qed.

  (* the appended part is `other` renumbered in its listing order, its roots hooked below pstar *)
  Lemma cc_parents : parents R = parents ns ++ map (lift (parents ns) pstar) (renum_parents (parents other) max_layers).
  Proof.
    apply list_eq_nth_error. intros j. destruct (Nat.lt_ge_cases j off) as [Hj | Hj].
    - rewrite nth_error_app1 by (rewrite parents_length; exact Hj). rewrite !parents_nth_error.
      unfold R. now rewrite extend_prefix.
    - rewrite nth_error_app2 by (rewrite parents_length; exact Hj). rewrite parents_length. fold off.
      replace j with (off + (j - off)) at 1 by lia. generalize (j - off). intros k.
      rewrite nth_error_map. unfold renum_parents. fold (bfs (parents other)). fold B. rewrite nth_error_map.
      destruct (nth_error B k) as [i|] eqn:Ek; simpl.
      + assert (Hi : i < length other) by (apply cc_B_In; eapply nth_error_In; exact Ek).
        destruct (nth_error other i) as [n|] eqn:En; [|apply nth_error_None in En; lia].
        destruct (cc_R_node k i n Ek En) as (nd & End & _ & Hpar).
        rewrite parents_nth_error, End. simpl. rewrite Hpar. do 3 f_equal.
        symmetry. apply nth_error_nth. rewrite parents_nth_error, En. reflexivity.
      + apply nth_error_None. apply nth_error_None in Ek. rewrite parents_length, cc_R_length. rewrite cc_B_length in Ek. lia.
  Qed.

  (* the order: first the circuit, then the block *)
  Theorem extend_bfs : bfs (parents R) = bfs (parents ns) ++ seq off (length other).
  Proof.
    unfold bfs at 1. rewrite cc_parents.
    pose proof cc_pstar_lt as Hp. pose proof (proj1 cc_Wn) as WP. pose proof (proj1 Wo) as WQ.
    assert (DQ : forall i, i < length (parents other) -> depth (parents other) i < max_layers).
    { intros i Hi. pose proof (depth_lt_length _ i WQ Hi). rewrite parents_length in *. lia. }
    assert (HDn : D + 1 <= off) by (pose proof (depth_le_index _ WP pstar); unfold D; lia).
    rewrite (hook_bfs_fuel (parents ns) (renum_parents (parents other) max_layers) pstar WP).
    - fold D. f_equal.
      + symmetry. apply bfs_fuel_stable; [exact WP | | lia].
        intros i Hi. rewrite parents_length in Hi. pose proof (cc_depth_max i Hi). lia.
      + rewrite parents_length. fold off.
        rewrite <- (bfs_fuel_stable _ (max_layers - D - 1) max_layers).
        * rewrite (bfs_fuel_renum _ _ WQ DQ), parents_length.
          clear. generalize (length other). intros n. induction n as [|n IH]; [reflexivity|].
          rewrite seq_S, map_app, IH, (seq_S n off). reflexivity.
        * apply renum_parents_wf; assumption.
        * intros i Hi. rewrite renum_parents_length in Hi by assumption. rewrite parents_length in Hi.
          pose proof (depth_le_index _ (renum_parents_wf _ _ WQ DQ) i). lia.
        * lia.
    - rewrite parents_length. exact Hp.
    - rewrite parents_length. exact cc_depth_max.
    - fold D. lia.
  Qed.
End Concat.

(* ------------------------------------------------------------------ what is listed, in listing order *)
(* g of every listed operation, concatenated in listing order; g = op_leaves gives the leaves of the decomposed listing *)
Definition olist {X} (g : op -> list X) (ns : list node) : list X :=
  flat_map (at_node ns (fun n => g (n_op n))) (bfs (parents ns)).

Lemma op_leaves_olist r ns : op_leaves (OComp r ns) = olist op_leaves ns.
Proof. apply op_leaves_comp. Qed.

Lemma listing_olist env ns : map e_leaf (listing env ns) = olist op_leaves ns.
Proof. rewrite listing_leaves. apply op_leaves_olist. Qed.

Lemma seq_shift_map off n : seq off n = map (Nat.add off) (seq 0 n).
Proof.
  induction off as [|off IH]; [simpl; now rewrite map_id|].
  rewrite <- seq_shift, IH, map_map. reflexivity.
Qed.

Lemma flat_map_seq_shift {X} (h : nat -> list X) off n : flat_map h (seq off n) = flat_map (fun k => h (off + k)) (seq 0 n).
Proof. rewrite seq_shift_map. apply CopyOrder.flat_map_map. Qed.

(* the listing of an extension: the circuit, then the block *)
Theorem extend_olist {X} (g : op -> list X) env ns other :
  wf_op (OComp 1%Z ns) -> wf_nodes other -> Forall (fun n => wf_op (n_op n)) other -> simple_links other ->
  ns <> [] -> length ns + length other <= max_layers ->
  olist g (extend env ns other) = olist g ns ++ olist g other.
Proof.
  intros Wns Wo Wops So Hne Hsize. unfold olist. rewrite (extend_bfs env ns other Wns Wo Wops So Hne Hsize), flat_map_app. f_equal.
  - apply flat_map_ext_in. intros i Hi. apply bfs_lt_length in Hi. rewrite parents_length in Hi.
    unfold at_node. now rewrite extend_prefix.
  - pose proof (cc_B_length ns other Wo Hsize) as BL.
    rewrite flat_map_seq_shift, <- BL.
    transitivity (flat_map (at_node other (fun n => g (n_op n)))
                           (map (fun k => nth k (bfs (parents other)) 0) (seq 0 (length (bfs (parents other))))));
      [|now rewrite map_nth_seq].
    rewrite CopyOrder.flat_map_map.
    apply flat_map_ext_in. intros k Hk. apply in_seq in Hk.
    destruct (nth_error (bfs (parents other)) k) as [i|] eqn:Ek; [|apply nth_error_None in Ek; lia].
    rewrite (nth_error_nth _ _ 0 Ek). destruct (extend_spec env ns other) as (_ & _ & K).
    destruct (K k i Ek) as (n & En & EK). unfold at_node. rewrite EK, En, new_node_op. reflexivity.
Qed.

Corollary extend_listing_concat env ns other :
  wf_op (OComp 1%Z ns) -> wf_nodes other -> Forall (fun n => wf_op (n_op n)) other -> simple_links other ->
  ns <> [] -> length ns + length other <= max_layers ->
  map e_leaf (listing env (extend env ns other)) = map e_leaf (listing env ns) ++ map e_leaf (listing env other).
Proof. intros. rewrite !listing_olist. apply extend_olist; assumption. Qed.

(* ------------------------------------------------------------------ copies have simple links *)
Lemma new_node_simple env ns o l : match l with LMulti _ => False | _ => True end -> simple_link (n_link (new_node env ns o l)).
Proof.
  intros H. unfold new_node. destruct l as [|t p|ps|t]; try contradiction.
  - destruct (leaf_at_any ns (op_channels o)); exact I.
  - destruct (Nat.ltb p (length ns)); [exact I|]. destruct (leaf_at_any ns (op_channels o)); exact I.
  - destruct (leaf_at_any ns (op_channels o)); exact I.
Qed.

Lemma map_link_simple m l : simple_link l -> match map_link m l with LMulti _ => False | _ => True end.
Proof. destruct l as [|t p|ps|t]; simpl; try tauto. destruct (lookup m p); exact (fun _ => I). Qed.

Lemma rebuild_fold_simple env ns cops : simple_links ns -> forall is new m, simple_links new ->
  simple_links (fst (fold_left (rebuild_step env ns cops) is (new, m))).
Proof.
  intros S is. induction is as [|i is IH]; intros new m Sn; simpl; [exact Sn|].
  destruct (nth_error ns i) as [n|] eqn:En; [|apply IH; exact Sn].
  destruct (nth_error cops i) as [o'|] eqn:Eo; [|apply IH; exact Sn].
  apply IH. rewrite add_node_eq. apply Forall_app. split; [exact Sn|]. constructor; [|constructor].
  apply new_node_simple. destruct (op_keeps (n_op n)); [|exact I]. apply map_link_simple.
  exact (proj1 (Forall_forall _ _) S n (nth_error_In _ _ En)).
Qed.

Lemma copy_nodes_simple env ns : simple_links ns -> simple_links (copy_nodes env ns).
Proof. intros S. rewrite copy_nodes_eq, rebuild_eq. apply rebuild_fold_simple; [exact S | constructor]. Qed.

(* ------------------------------------------------------------------ repeat: the n-fold concatenation *)
Lemma extend_nonempty env ns other : ns <> [] -> extend env ns other <> [].
Proof. intros H E. destruct (extend_app env ns other) as (tl & E'). rewrite E in E'. destruct ns; [congruence | discriminate]. Qed.

Lemma iter_extend_olist {X} (g : op -> list X) env C :
  wf_nodes C -> Forall (fun n => wf_op (n_op n)) C -> simple_links C ->
  forall k cur, wf_op (OComp 1%Z cur) -> cur <> [] -> length cur + k * length C <= max_layers ->
  olist g (iter_n k (fun c => extend env c C) cur) = olist g cur ++ rep_app k (olist g C).
Proof.
  intros WC WO SC k. induction k as [|k IH]; intros cur W Hne L; [simpl; now rewrite app_nil_r|].
  rewrite iter_n_S, IH.
  - rewrite extend_olist by (try assumption; simpl in L; lia). rewrite <- app_assoc. reflexivity.
  - apply extend_wf_op; assumption.
  - apply extend_nonempty. exact Hne.
  - pose proof (extend_length env cur C WC). simpl in L. lia.
Qed.

Theorem repeat_olist {X} (g : op -> list X) env ns n :
  wf_op (OComp 1%Z ns) -> simple_links ns -> ns <> [] -> (1 <= n)%Z -> Z.to_nat n * length ns <= max_layers ->
  olist g (repeat_nodes env ns n)
  = olist g ns ++ rep_app (Z.to_nat (n - 1)) (olist g (copy_nodes env (copy_nodes env ns))).
Proof.
  intros W S Hne Hn L. unfold repeat_nodes. apply iter_extend_olist; try assumption.
  - apply copy_nodes_wf.
  - exact (proj2 (wf_op_comp_inv _ _ (copy_nodes_wf_op env 1%Z (copy_nodes env ns)))).
  - apply copy_nodes_simple, copy_nodes_simple. exact S.
  - pose proof (copy_nodes_length env (copy_nodes env ns) (copy_nodes_wf env ns)).
    pose proof (copy_nodes_length env ns (proj1 (wf_op_comp_inv _ _ W))). rewrite (Z_to_nat_pred n Hn) in L. nia.
Qed.

(* the listing of the repeated block: its listing followed by n-1 times the listing of its copy *)
Corollary repeat_listing_concat env ns n :
  wf_op (OComp 1%Z ns) -> simple_links ns -> ns <> [] -> (1 <= n)%Z -> Z.to_nat n * length ns <= max_layers ->
  map e_leaf (listing env (repeat_nodes env ns n))
  = map e_leaf (listing env ns) ++ rep_app (Z.to_nat (n - 1)) (map e_leaf (listing env (copy_nodes env (copy_nodes env ns)))).
Proof. intros. rewrite !listing_olist. apply repeat_olist; assumption. Qed.

(* ------------------------------------------------------------------ unrolling one level, nested blocks included *)
Lemma parents_map_same f ns : (forall n, n_parent (f n) = n_parent n) -> parents (map f ns) = parents ns.
Proof. intros H. unfold parents. rewrite map_map. apply map_ext. exact H. Qed.

Lemma olist_map {X} (g : op -> list X) (f : node -> node) (h : op -> op) ns :
  (forall n, n_parent (f n) = n_parent n) -> (forall n, n_op (f n) = h (n_op n)) ->
  olist g (map f ns) = olist (fun o => g (h o)) ns.
Proof.
  intros Hp Ho. unfold olist. rewrite (parents_map_same f ns Hp). apply flat_map_ext. intros i.
  unfold at_node. rewrite nth_error_map. destruct (nth_error ns i) as [n|]; simpl; [now rewrite Ho | reflexivity].
Qed.

Lemma unroll_node_parent env fuel n : n_parent (unroll_node env fuel n) = n_parent n.
Proof. destruct n as [p l [lf | r sub]]; reflexivity. Qed.

(* the content of a block with its nested blocks unrolled (fuel levels deep), listed *)
Definition unrolled_content (env : denv) (fuel : nat) (ns : list node) : list leaf :=
  op_leaves (OComp 1%Z (map (unroll_node env fuel) ns)).

(* apply_modifiers on a block with count r lists: the unrolled content, then r-1 times the unrolled content of the copy *)
Theorem unroll_concat env fuel r ns :
  wf_op (OComp 1%Z ns) -> simple_links ns -> ns <> [] -> (1 <= r)%Z -> Z.to_nat r * length ns <= max_layers ->
  op_leaves (OComp 1%Z (apply_mods_fuel (S fuel) env r ns))
  = unrolled_content env fuel ns
    ++ rep_app (Z.to_nat (r - 1)) (unrolled_content env fuel (copy_nodes env (copy_nodes env ns))).
Proof.
  intros W S Hne Hr L. unfold unrolled_content. rewrite apply_mods_fuel_S, !op_leaves_olist.
  rewrite !(olist_map op_leaves (unroll_node env fuel) (unroll_op env fuel) _
             (unroll_node_parent env fuel) (unroll_node_op env fuel)).
  apply repeat_olist; assumption.
Qed.
