(* extend / repeat (Core.Model) in time: where the appended nodes are stored, with which link, and when they start.
   `extend env cur other` appends the listed nodes of `other` in listing order; a node without relation is stored with the
   multi-link to the relation leaves of `cur` (evaluated BEFORE the extension) and starts at the maximum end over those
   leaves; a node with a relation keeps it (renumbered), so the whole table of `other` reappears shifted.  For flat blocks
   this gives the n*T clause of C06.
   Builds on Core/BfsProofs.v, BfsWf.v, TimesProofs.v, TimesListing.v, TimesWf.v, UnrollProofs.v. *)
From Coq Require Import ZArith List Bool Lia ZifyBool Arith Permutation.
Import ListNotations.
From QCE Require Import Base.Prelude Core.Model Core.BfsProofs Core.BfsWf Core.TimesProofs Core.TimesListing Core.TimesWf
  C02.Proofs Core.UnrollProofs.
From Gen Require Import Ident Classes.
Local Open Scope nat_scope.

(* ------------------------------------------------------------------ list facts *)
Lemma nth_error_firstn_lt {A} (l : list A) n i : i < n -> nth_error (firstn n l) i = nth_error l i.
Proof.
  revert n i. induction l as [|a l IH]; intros [|n] [|i] H; simpl; try reflexivity; try lia.
  apply IH. lia.
Qed.

Lemma firstn_prefix {A} (l c : list A) n : firstn n l = c -> forall i, i < n -> nth_error l i = nth_error c i.
Proof. intros <- i H. symmetry. apply nth_error_firstn_lt. exact H. Qed.

Lemma lookup_app m1 m2 a : lookup (m1 ++ m2) a = match lookup m1 a with Some b => Some b | None => lookup m2 a end.
Proof. induction m1 as [|[x y] t IH]; simpl; [reflexivity|]. destruct (Nat.eqb x a); [reflexivity | exact IH]. Qed.

Lemma lookup_In_NoDup m a b : NoDup (map fst m) -> In (a, b) m -> lookup m a = Some b.
Proof.
  induction m as [|[x y] t IH]; simpl; intros ND H; [contradiction|].
  inversion ND as [|? ? Hni ND']; subst. destruct H as [E | H].
  - inversion E; subst. now rewrite Nat.eqb_refl.
  - destruct (Nat.eqb x a) eqn:Q; [|apply IH; assumption]. apply Nat.eqb_eq in Q. subst x.
    exfalso. apply Hni. apply (in_map fst) in H. exact H.
Qed.

Lemma map_fst_combine_incl {A B} (a : list A) (b : list B) : forall x, In x (map fst (combine a b)) -> In x a.
Proof.
  revert b. induction a as [|x0 a IH]; intros [|y0 b] x H; simpl in *; try contradiction.
  destruct H as [H | H]; [left; exact H | right; exact (IH b x H)].
Qed.

Lemma NoDup_map_fst_combine {A B} (a : list A) (b : list B) : NoDup a -> NoDup (map fst (combine a b)).
Proof.
  revert b. induction a as [|x0 a IH]; intros [|y0 b] ND; simpl; try constructor.
  - inversion ND; subst. intros H. apply map_fst_combine_incl in H. contradiction.
  - inversion ND; subst. apply IH. assumption.
Qed.

Lemma NoDup_firstn {A} (l : list A) n : NoDup l -> NoDup (firstn n l).
Proof.
  revert n. induction l as [|a l IH]; intros [|n] ND; simpl; try constructor.
  - inversion ND; subst. intros H. apply H1. revert H. clear. revert n. induction l as [|b l IH]; intros [|n]; simpl; try tauto.
    intros [H | H]; [left; exact H | right; exact (IH n H)].
  - inversion ND; subst. apply IH. assumption.
Qed.

(* the index map after k steps of a renumbering fold over `is`, the first new index being `off` *)
Definition idx_after (is : list nat) (off k : nat) (m : idxmap) : idxmap := rev (combine (firstn k is) (seq off k)) ++ m.

Lemma lookup_idx_after is off k m p q : NoDup is -> nth_error is q = Some p -> q < k ->
  lookup (idx_after is off k m) p = Some (off + q).
Proof.
  intros ND E Hq. unfold idx_after. rewrite lookup_app.
  rewrite (lookup_In_NoDup _ p (off + q)); [reflexivity | |].
  - rewrite map_rev. apply NoDup_rev. apply NoDup_map_fst_combine. apply NoDup_firstn. exact ND.
  - apply in_rev. rewrite rev_involutive. apply (nth_error_In _ q). apply nth_error_combine_some.
    + rewrite nth_error_firstn_lt by exact Hq. exact E.
    + rewrite (nth_error_nth' _ 0) by (rewrite seq_length; exact Hq). now rewrite seq_nth.
Qed.

(* ------------------------------------------------------------------ what extend stores *)
Definition ext_rel (ns : list node) : link := match ns with [] => LNone | _ => LMulti (graph_leaves (parents ns)) end.
(* the link handed to add_node for node n of `other` *)
Definition ext_link (rel : link) (m : idxmap) (n : node) : link := if has_relation (n_link n) then map_link m (n_link n) else rel.

Definition extend_fold_post env other rel (is : list nat) (cur : list node) (m : idxmap) (R : list node) : Prop :=
  length R = length cur + length is /\ firstn (length cur) R = cur /\
  forall k i, nth_error is k = Some i -> exists n, nth_error other i = Some n /\
    nth_error R (length cur + k)
    = Some (new_node env (firstn (length cur + k) R) (n_op n) (ext_link rel (idx_after is (length cur) k m) n)).

Lemma extend_fold_post_step env other rel i0 is cur m n0 R : nth_error other i0 = Some n0 ->
  extend_fold_post env other rel is (add_node env cur (n_op n0) (ext_link rel m n0)) ((i0, length cur) :: m) R ->
  extend_fold_post env other rel (i0 :: is) cur m R.
Proof.
  intros E0 (L & P & K). rewrite add_node_length in L, P, K. rewrite add_node_eq in P.
  assert (P0 : firstn (length cur) R = cur).
  { rewrite <- (firstn_length_app cur [new_node env cur (n_op n0) (ext_link rel m n0)]) at 2. rewrite <- P.
    rewrite firstn_firstn. f_equal. lia. }
  split; [simpl; lia|]. split; [exact P0|]. intros [|k] i E; simpl in E.
  - inversion E; subst. exists n0. split; [exact E0|]. rewrite Nat.add_0_r, P0.
    rewrite (firstn_prefix _ _ _ P) by lia. rewrite nth_error_app2 by lia. now rewrite Nat.sub_diag.
  - destruct (K k i E) as (n & En & EK). exists n. split; [exact En|].
    replace (length cur + S k) with (S (length cur) + k) by lia. rewrite EK. do 3 f_equal.
    unfold idx_after. simpl. rewrite <- app_assoc. reflexivity.
Qed.

Lemma extend_fold_spec env other rel : forall is cur m, Forall (fun i => i < length other) is ->
  extend_fold_post env other rel is cur m (fst (fold_left (extend_step env other rel) is (cur, m))).
Proof.
  induction is as [|i0 is IH]; intros cur m F.
  - simpl. split; [simpl; lia|]. split; [apply firstn_all|]. intros [|k] i E; discriminate.
  - inversion F as [|? ? H0 F']; subst. destruct (nth_error other i0) as [n0|] eqn:E0; [|apply nth_error_None in E0; lia].
    apply (extend_fold_post_step env other rel i0 is cur m n0 _ E0).
    simpl fold_left. rewrite E0. apply IH. exact F'.
Qed.

Lemma bfs_in_range ns : Forall (fun i => i < length ns) (bfs (parents ns)).
Proof. apply Forall_forall. intros i H. apply bfs_lt_length in H. now rewrite parents_length in H. Qed.

(* the k-th listed node of `other` is stored at index length ns + k *)
Theorem extend_spec env ns other :
  extend_fold_post env other (ext_rel ns) (bfs (parents other)) ns [] (extend env ns other).
Proof. rewrite extend_eq. apply extend_fold_spec. apply bfs_in_range. Qed.

Corollary extend_prefix env ns other i : i < length ns -> nth_error (extend env ns other) i = nth_error ns i.
Proof. intros H. destruct (extend_spec env ns other) as (_ & P & _). exact (firstn_prefix _ _ _ P i H). Qed.

Corollary extend_app env ns other : exists tl, extend env ns other = ns ++ tl.
Proof.
  destruct (extend_spec env ns other) as (_ & P & _). exists (skipn (length ns) (extend env ns other)).
  rewrite <- P at 2. symmetry. apply firstn_skipn.
Qed.

(* ------------------------------------------------------------------ graphs that grow at the end *)
Lemma wf_parents_app_l ps qs : wf_parents (ps ++ qs) -> wf_parents ps.
Proof.
  intros W i p E. apply (W i p). rewrite nth_error_app1; [exact E|]. apply nth_error_Some. congruence.
Qed.

Lemma depth_fuel_app ps qs : wf_parents ps -> forall f i, i < length ps -> depth_fuel (ps ++ qs) f i = depth_fuel ps f i.
Proof.
  intros W f. induction f as [|f IH]; intros i Hi; simpl; [reflexivity|].
  rewrite nth_error_app1 by exact Hi. destruct (nth_error ps i) as [[p|]|] eqn:E; try reflexivity.
  f_equal. apply IH. pose proof (W _ _ E). lia.
Qed.

Lemma depth_app ps qs i : wf_parents ps -> i < length ps -> depth (ps ++ qs) i = depth ps i.
Proof. intros W Hi. unfold depth. apply depth_fuel_app; assumption. Qed.

(* a listed node stays listed when nodes are appended *)
Lemma bfs_In_app ps qs i : wf_parents (ps ++ qs) -> In i (bfs ps) -> In i (bfs (ps ++ qs)).
Proof.
  intros W H. pose proof (wf_parents_app_l _ _ W) as W1. apply (bfs_In _ _ W1) in H as [Hi D].
  apply (bfs_In _ _ W). rewrite app_length, (depth_app ps qs i W1 Hi). split; [lia | exact D].
Qed.

Lemma firstn_app_prefix {A} (l c : list A) n n' : firstn n l = c -> n <= n' -> exists tl, firstn n' l = c ++ tl.
Proof.
  intros E H. exists (skipn n (firstn n' l)). rewrite <- (firstn_skipn n (firstn n' l)) at 1. f_equal.
  rewrite firstn_firstn. rewrite Nat.min_l by exact H. exact E.
Qed.

Lemma wf_parents_firstn ps n : wf_parents ps -> wf_parents (firstn n ps).
Proof. intros W. rewrite <- (firstn_skipn n ps) in W. exact (wf_parents_app_l _ _ W). Qed.

Lemma parents_firstn ns n : parents (firstn n ns) = firstn n (parents ns).
Proof. unfold parents. symmetry. apply firstn_map. Qed.

(* ------------------------------------------------------------------ relation leaves *)
Lemma has_child_false ps i : has_child ps i = false <-> forall j, nth_error ps j <> Some (Some i).
Proof.
  unfold has_child. split.
  - intros H j E. apply nth_error_In in E. assert (X : existsb (fun q => opt_nat_eqb q (Some i)) ps = true).
    { apply existsb_exists. exists (Some i). split; [exact E | apply opt_nat_eqb_spec; reflexivity]. }
    congruence.
  - intros H. destruct (existsb _ ps) eqn:X; [|reflexivity]. apply existsb_exists in X as (q & Hq & E).
    apply opt_nat_eqb_spec in E. subst q. apply In_nth_error in Hq as (j & Hj). exfalso. exact (H j Hj).
Qed.

Lemma graph_leaves_spec ps i : In i (graph_leaves ps) <-> In i (bfs ps) /\ forall j, nth_error ps j <> Some (Some i).
Proof. unfold graph_leaves. rewrite filter_In, negb_true_iff, has_child_false. reflexivity. Qed.

(* a non-empty graph within the size limit has a relation leaf: its last node *)
Lemma graph_leaves_nonempty ps : wf_parents ps -> ps <> [] -> length ps <= max_layers -> graph_leaves ps <> [].
Proof.
  intros W Hne L E. assert (Hl : 0 < length ps) by (destruct ps; [congruence | simpl; lia]).
  assert (H : In (length ps - 1) (graph_leaves ps)); [|rewrite E in H; exact H].
  apply graph_leaves_spec. split.
  - apply (bfs_In _ _ W). split; [lia|]. pose proof (depth_le_index ps W (length ps - 1)). lia.
  - intros j Ej. pose proof (W _ _ Ej). assert (j < length ps) by (apply nth_error_Some; congruence). lia.
Qed.

Lemma latest_of_some ns ps q : In q ps -> In q (bfs (parents ns)) -> exists p, latest_of ns ps = Some p.
Proof.
  intros Hq Hb. unfold latest_of. destruct (find _ _) as [p|] eqn:E; [exists p; reflexivity|].
  exfalso. apply in_rev in Hb. pose proof (find_none _ _ E q Hb) as X. simpl in X.
  assert (Y : existsb (Nat.eqb q) ps = true) by (apply existsb_exists; exists q; split; [exact Hq | apply Nat.eqb_refl]).
  congruence.
Qed.

Lemma latest_of_listed ns ps p : latest_of ns ps = Some p -> In p (bfs (parents ns)).
Proof. unfold latest_of. intros H. apply find_some in H as [H _]. apply in_rev in H. exact H. Qed.

(* ------------------------------------------------------------------ 7. the first operations of the appended block *)
Lemma ext_rel_multi ns : graph_leaves (parents ns) <> [] -> ext_rel ns = LMulti (graph_leaves (parents ns)).
Proof. intros H. unfold ext_rel. destruct ns; [|reflexivity]. exfalso. apply H. reflexivity. Qed.

Section ExtendStart.
  Variable env : denv.
  Variables ns other : list node.
  Hypothesis Wns : wf_op (OComp 1%Z ns).
  Hypothesis Wother : Forall (fun n => wf_op (n_op n)) other.
  Let G := graph_leaves (parents ns).
  Hypothesis HG : G <> [].
  Let R := extend env ns other.

  Lemma extend_R_wf : wf_nodes R.
  Proof. apply extend_wf; assumption. Qed.

  Lemma ext_rel_G : ext_rel ns = LMulti G.
  Proof. apply ext_rel_multi. exact HG. Qed.

  (* the node stored for the k-th listed node of `other` *)
  Lemma extend_unrelated_link k i n : nth_error (bfs (parents other)) k = Some i -> nth_error other i = Some n ->
    has_relation (n_link n) = false ->
    exists p, In p G /\ nth_error R (length ns + k) = Some (Node (Some p) (LMulti G) (n_op n)).
  Proof.
    intros Ek En Hr. destruct (extend_spec env ns other) as (L & P & K). fold R in L, P, K.
    destruct (K k i Ek) as (n' & En' & EK). rewrite En in En'. inversion En'; subst n'. clear En'.
    unfold ext_link in EK. rewrite Hr, ext_rel_G in EK.
    destruct (firstn_app_prefix R ns (length ns) (length ns + k) P) as (tl & Ecur); [lia|].
    assert (HGq : exists q, In q G) by (destruct G as [|q t]; [congruence | exists q; left; reflexivity]).
    destruct HGq as (q & Hq).
    destruct (latest_of_some (firstn (length ns + k) R) G q Hq) as (p & Hp).
    { rewrite Ecur. rewrite parents_app. apply bfs_In_app.
      - rewrite <- parents_app, <- Ecur, parents_firstn. apply wf_parents_firstn. exact (proj1 extend_R_wf).
      - unfold G in Hq. apply graph_leaves_spec in Hq. exact (proj1 Hq). }
    exists p. split; [exact (latest_of_In _ _ _ Hp)|]. rewrite EK. unfold new_node. rewrite Hp. reflexivity.
  Qed.

  Variable c : ctx.
  Let tm := node_times env c R.

  (* prefix stability: the relation leaves of ns have in the final table the times they have in the table of ns *)
  Lemma extend_times_prefix q : q < length ns -> nth q tm (0, 0)%Z = nth q (node_times env c ns) (0, 0)%Z.
  Proof.
    intros Hq. destruct (extend_app env ns other) as (tl & E). unfold tm, R. rewrite E, !node_times_eq, node_hs_app.
    apply times_prefix_nth. now rewrite node_hs_length.
  Qed.

  Theorem extend_first_ops_start k i n : nth_error (bfs (parents other)) k = Some i -> nth_error other i = Some n ->
    has_relation (n_link n) = false ->
    exists nd, nth_error R (length ns + k) = Some nd /\ n_op nd = n_op n /\ n_link nd = LMulti G /\
      (exists p, In p G /\ fst (nth (length ns + k) tm (0, 0)%Z) = snd (nth p tm (0, 0)%Z)) /\
      (forall q, In q G -> (snd (nth q tm (0, 0)%Z) <= fst (nth (length ns + k) tm (0, 0)%Z))%Z) /\
      (forall q, In q G -> nth q tm (0, 0)%Z = nth q (node_times env c ns) (0, 0)%Z).
  Proof.
    intros Ek En Hr. destruct (extend_unrelated_link k i n Ek En Hr) as (p & Hp & End).
    eexists. split; [exact End|]. split; [reflexivity|]. split; [reflexivity|].
    pose proof (node_times_start env c R _ _ (wf_nodes_node_links _ extend_R_wf) End) as T. fold tm in T.
    cbn [n_link n_op link_start] in T.
    destruct (multi_ref tm G) as [m|] eqn:M; [|apply multi_ref_none in M; contradiction].
    apply multi_ref_spec in M. apply multi_first_latest_max in M as [Hm Hmax].
    rewrite T. cbn [fst]. split; [exists m; split; [exact Hm | reflexivity]|]. split; [exact Hmax|].
    intros q Hq. apply extend_times_prefix. unfold G in Hq. apply graph_leaves_lt in Hq. now rewrite parents_length in Hq.
  Qed.
End ExtendStart.
