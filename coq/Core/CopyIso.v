(* The copy of a circuit is the original renumbered in listing order (part 2).
   A. invariants of every graph the model builds (ginv): roots are pairwise channel-disjoint, the parent of a multi-linked
      node is the last listed member;  B. one nesting level: copy = renum, it lists as 0, 1, 2, ..., same times / channels /
      extent;  C. induction over the nesting: copy_iso, same listing, same duration, a copy of a copy is the copy;
      D. programs.  Everything in B-D is relative to the two facts about the per-class copy() that come from the generated class
      table (section hypotheses FL, FK; discharged in C05/Proofs.v). *)
From Coq Require Import ZArith List Bool Lia Arith Permutation Sorted.
Import ListNotations.
From QCE Require Import Base.Prelude Core.Model Core.BfsProofs Core.BfsWf Core.TimesProofs Core.TimesListing Core.TimesWf
  Core.CopyOrder Core.CopyProofs.
From Gen Require Import Ident Classes.
Local Open Scope nat_scope.

(* ------------------------------------------------------------------ A. invariants of built graphs *)
Lemma max_layers_pos : 0 < max_layers.
Proof. pose proof max_layers_eq. lia. Qed.

Lemma root_listed ps i : wf_parents ps -> nth_error ps i = Some None -> In i (bfs ps).
Proof.
  intros W E. apply bfs_In; [exact W|]. split; [apply nth_error_Some; congruence|].
  rewrite (depth_root _ _ E). apply max_layers_pos.
Qed.

Lemma new_node_root env ns o l : n_parent (new_node env ns o l) = None -> leaf_at_any ns (op_channels o) = None.
Proof.
  unfold new_node. destruct (leaf_at_any ns (op_channels o)) as [k|] eqn:E; [|reflexivity].
  destruct l as [|t p|ps|t]; simpl; try discriminate.
  - destruct (Nat.ltb p (length ns)); simpl; discriminate.
  - destruct (latest_of ns ps); simpl; discriminate.
Qed.

Lemma new_node_multi env ns o l ps : n_link (new_node env ns o l) = LMulti ps ->
  l = LMulti ps /\ exists p, latest_of ns ps = Some p /\ n_parent (new_node env ns o l) = Some p.
Proof.
  unfold new_node. intros H. destruct l as [|t p|qs|t].
  - destruct (leaf_at_any ns (op_channels o)); discriminate.
  - destruct (Nat.ltb p (length ns)); [discriminate|]. destruct (leaf_at_any ns (op_channels o)); discriminate.
  - destruct (latest_of ns qs) as [p|] eqn:M.
    + simpl in H. injection H as ->. split; [reflexivity|]. exists p. auto.
    + destruct (leaf_at_any ns (op_channels o)); discriminate.
  - destruct (leaf_at_any ns (op_channels o)); discriminate.
Qed.

(* latest_of: the last listed member *)
Lemma latest_of_spec ns ps p : latest_of ns ps = Some p ->
  In p ps /\ In p (bfs (parents ns)) /\
  forall q, In q ps -> In q (bfs (parents ns)) -> q = p \/ before (bfs (parents ns)) q p.
Proof.
  unfold latest_of. intros H. apply find_rev_some in H as (l1 & l2 & E & Hp & Hl2).
  split; [apply existsb_eqb_In; exact Hp|]. split; [rewrite E; apply in_or_app; right; left; reflexivity|].
  intros q Iq Lq. rewrite E in Lq. apply in_app_or in Lq as [Lq | [-> | Lq]].
  - right. rewrite E. apply (before_app_lr l1 (p :: l2)); [exact Lq | left; reflexivity].
  - left. reflexivity.
  - apply Hl2 in Lq. apply existsb_eqb_In in Iq. congruence.
Qed.

Definition ginv (ns : list node) : Prop := wf_nodes ns /\ roots_disjoint ns /\ multi_parent_ok ns.

Lemma ginv_nil : ginv [].
Proof.
  split; [apply wf_nodes_nil|]. split.
  - intros i j ni nj _ E. destruct i; discriminate.
  - intros i n ps E. destruct i; discriminate.
Qed.

Lemma nth_error_snoc_inv {A} (l : list A) x i y : nth_error (l ++ [x]) i = Some y ->
  (i < length l /\ nth_error l i = Some y) \/ (i = length l /\ y = x).
Proof.
  intros E. destruct (Nat.lt_ge_cases i (length l)) as [H | H].
  - left. rewrite nth_error_app1 in E by exact H. auto.
  - right. rewrite nth_error_app2 in E by exact H. destruct (i - length l) as [|k] eqn:K; simpl in E.
    + injection E as <-. split; [lia | reflexivity].
    + destruct k; discriminate.
Qed.

Lemma add_node_roots_disjoint env ns o l : wf_nodes ns -> roots_disjoint ns -> roots_disjoint (add_node env ns o l).
Proof.
  intros W RD i j ni nj Hji Ei Ej Pi Pj. rewrite add_node_eq in Ei, Ej.
  apply nth_error_snoc_inv in Ei as [[Hi Ei] | [Hi ->]]; apply nth_error_snoc_inv in Ej as [[Hj Ej] | [Hj ->]]; try lia.
  - exact (RD i j ni nj Hji Ei Ej Pi Pj).
  - apply new_node_root in Pi. rewrite new_node_op.
    assert (Lj : In j (bfs (parents ns))).
    { apply root_listed; [exact (proj1 W)|]. rewrite parents_nth_error, Ej. simpl. now rewrite Pj. }
    pose proof (leaf_at_any_none ns _ Pi j Lj) as M. unfold node_chans in M.
    rewrite (nth_error_nth _ _ [] (x := op_channels (n_op nj))) in M; [exact M|]. rewrite nth_error_map, Ej. reflexivity.
Qed.

Lemma add_node_multi_parent_ok env ns o l : wf_nodes ns -> multi_in_range (length ns) l ->
  multi_parent_ok ns -> multi_parent_ok (add_node env ns o l).
Proof.
  intros W R MP i n ps E L. rewrite add_node_eq in *. rewrite parents_app. cbn [parents map].
  pose proof (proj1 W) as Wp. unfold bfs.
  apply nth_error_snoc_inv in E as [[Hi E] | [Hi ->]].
  - destruct (MP i n ps E L) as (p & Ep & Hq). exists p. split; [exact Ep|]. intros q Iq Lq.
    destruct (wf_nodes_link_multi ns i n ps W E L) as (_ & _ & _ & F). rewrite Forall_forall in F. specialize (F q Iq).
    apply bfs_fuel_snoc_In_old in Lq; [|exact Wp | rewrite parents_length; lia].
    destruct (Hq q Iq Lq) as [-> | B]; [left; reflexivity | right]. apply bfs_fuel_snoc_before; assumption.
  - apply new_node_multi in L as (-> & p & M & Ep). exists p. split; [exact Ep|]. intros q Iq Lq.
    simpl in R. rewrite Forall_forall in R. specialize (R q Iq).
    apply bfs_fuel_snoc_In_old in Lq; [|exact Wp | rewrite parents_length; lia].
    destruct (latest_of_spec ns ps p M) as (_ & _ & Hq).
    destruct (Hq q Iq Lq) as [-> | B]; [left; reflexivity | right]. apply bfs_fuel_snoc_before; assumption.
Qed.

Theorem add_node_ginv env ns o l : ginv ns -> multi_in_range (length ns) l -> ginv (add_node env ns o l).
Proof.
  intros (W & RD & MP) R. split; [apply add_node_wf; assumption|]. split.
  - apply add_node_roots_disjoint; assumption.
  - apply add_node_multi_parent_ok; assumption.
Qed.

Lemma rebuild_fold_ginv env ns cops : forall is new m, ginv new -> idx_ok m (length new) ->
  ginv (fst (fold_left (rebuild_step env ns cops) is (new, m))).
Proof.
  intros is. induction is as [|i is IH]; intros new m G M; simpl; [exact G|].
  destruct (nth_error ns i) as [n|] eqn:En; [|apply IH; assumption].
  destruct (nth_error cops i) as [o'|] eqn:Eo; [|apply IH; assumption].
  apply IH.
  - apply add_node_ginv; [exact G|]. destruct (op_keeps (n_op n)); [apply map_link_in_range; exact M | exact I].
  - rewrite add_node_length. apply idx_ok_cons. exact M.
Qed.

Theorem rebuild_ginv env ns cops : ginv (rebuild env ns cops).
Proof. rewrite rebuild_eq. apply rebuild_fold_ginv; [apply ginv_nil | apply idx_ok_nil]. Qed.

Corollary copy_nodes_ginv env ns : ginv (copy_nodes env ns).
Proof. rewrite copy_nodes_eq. apply rebuild_ginv. Qed.

Theorem run_cmds_ginv env cs : forall ns, ginv ns -> ginv (run_cmds env cs ns).
Proof.
  induction cs as [|c t IH]; intros ns G; [exact G|]. rewrite run_cmds_cons. apply IH.
  apply add_node_ginv; [exact G | apply cmd_link_in_range].
Qed.

Corollary run_prog_ginv env p : ginv (run_prog env p).
Proof. apply run_cmds_ginv. apply ginv_nil. Qed.

Lemma extend_fold_ginv env other rel n0 : multi_in_range n0 rel ->
  forall is cur m, ginv cur -> idx_ok m (length cur) -> n0 <= length cur ->
  ginv (fst (fold_left (extend_step env other rel) is (cur, m))).
Proof.
  intros HR is. induction is as [|i is IH]; intros cur m G M Hn; simpl; [exact G|].
  destruct (nth_error other i) as [n|] eqn:En; [|apply IH; assumption].
  apply IH.
  - apply add_node_ginv; [exact G|].
    destruct (has_relation (n_link n)); [apply map_link_in_range; exact M | exact (multi_in_range_mono _ _ _ Hn HR)].
  - rewrite add_node_length. apply idx_ok_cons. exact M.
  - rewrite add_node_length. lia.
Qed.

Theorem extend_ginv env ns other : ginv ns -> ginv (extend env ns other).
Proof.
  intros G. rewrite extend_eq. apply (extend_fold_ginv env other _ (length ns)); auto using idx_ok_nil.
  destruct ns as [|a t]; [exact I|].
  change (Forall (fun q => q < length (a :: t)) (graph_leaves (parents (a :: t)))). apply Forall_forall. intros q Hq.
  apply graph_leaves_lt in Hq. now rewrite parents_length in Hq.
Qed.

Theorem repeat_nodes_ginv env ns times : ginv ns -> ginv (repeat_nodes env ns times).
Proof. intros G. unfold repeat_nodes. apply (iter_n_inv ginv); [|exact G]. intros x Hx. apply extend_ginv. exact Hx. Qed.

(* ------------------------------------------------------------------ B. one nesting level *)
Lemma op_channels_unfold r ns :
  op_channels (OComp r ns) =
  uniq_chans [] (flat_map (fun i => nth i (map (fun n => op_channels (n_op n)) ns) []) (bfs (parents ns))).
Proof.
  cbn [op_channels]. f_equal. apply flat_map_ext. intros i. f_equal.
  induction ns as [|[p lk o'] t IH]; cbn [map n_op]; [reflexivity|]. f_equal. exact IH.
Qed.

Definition extent_body (ps : list (option nat)) (tm exts : list (Z * Z)) : Z * Z :=
  let rel0 := zmin_list 0%Z (map (fun i => fst (nth i tm (0, 0)%Z)) (depth1 ps)) in
  fold_left (fun (acc : Z * Z) (i : nat) =>
               let s := (fst (nth i tm (0, 0)) - rel0)%Z in
               let '(lo, hi) := nth i exts (0, 0)%Z in
               (Z.min (fst acc) (s + lo), Z.max (snd acc) (s + hi)))
            (bfs ps) (0, 0)%Z.

Lemma extent_of_nodes_cons ps tm exts : ps <> [] -> extent_of_nodes ps tm exts = extent_body ps tm exts.
Proof. destruct ps; [congruence | reflexivity]. Qed.

Lemma fold_left_map {A B C} (f : A -> B -> A) (g : C -> B) l : forall a,
  fold_left f (map g l) a = fold_left (fun a x => f a (g x)) l a.
Proof. induction l as [|x l IH]; intros a; simpl; [reflexivity | apply IH]. Qed.

Lemma fold_left_ext_in {A B} (f g : A -> B -> A) l : (forall a x, In x l -> f a x = g a x) ->
  forall a, fold_left f l a = fold_left g l a.
Proof.
  induction l as [|x l IH]; intros H a; simpl; [reflexivity|]. rewrite (H a x (or_introl eq_refl)).
  apply IH. intros a' y Hy. apply H. right. exact Hy.
Qed.

(* every node of the graph is listed *)
Definition all_listed (ns : list node) : Prop := forall i, i < length ns -> depth (parents ns) i < max_layers.

Lemma small_all_listed ns : wf_nodes ns -> length ns <= max_layers -> all_listed ns.
Proof.
  intros [W _] H i Hi. pose proof (depth_lt_length (parents ns) i W). rewrite parents_length in H0. specialize (H0 Hi). lia.
Qed.

(* a link with its references renumbered *)
Definition link_map (f : nat -> nat) (l : link) : link :=
  match l with
  | LNone => LNone
  | LDangling _ => LNone
  | LRel t p => LRel t (f p)
  | LMulti ps => LMulti (map f ps)
  end.

(* deep well-formedness: what every graph built by add_node satisfies, at every nesting level, plus "every node is listed" *)
Inductive cwf : op -> Prop :=
| cwf_leaf l : cwf (OLeaf l)
| cwf_comp r ns : ginv ns -> all_listed ns -> Forall (fun n => cwf (n_op n)) ns -> cwf (OComp r ns).

Lemma cwf_comp_inv r ns : cwf (OComp r ns) -> ginv ns /\ all_listed ns /\ Forall (fun n => cwf (n_op n)) ns.
Proof. intros H. inversion H; subst. auto. Qed.

Lemma cwf_reps r r' ns : cwf (OComp r ns) -> cwf (OComp r' ns).
Proof. intros H. apply cwf_comp_inv in H as (G & A & F). constructor; assumption. Qed.

(* every command list (the program and every sub-circuit body) has at most 4999 commands: every node is listed *)
Inductive sized_cmd : cmd -> Prop :=
| szc_add l r : sized_cmd (CAdd l r)
| szc_dangling l t : sized_cmd (CDangling l t)
| szc_sub r body : (Z.of_nat (length body) <= 4999)%Z -> Forall sized_cmd body -> sized_cmd (CSub r body).
Definition sized_prog (p : list cmd) : Prop := (Z.of_nat (length p) <= 4999)%Z /\ Forall sized_cmd p.

Lemma wf_parents_root : wf_parents [None].
Proof. intros i p E. destruct i as [|[|i]]; discriminate. Qed.

Lemma bfs_nil : bfs [] = [].
Proof.
  assert (P : Permutation (bfs []) (seq 0 (length (@nil (option nat))))).
  { apply bfs_perm_length; [|simpl; lia]. intros i p E. destruct i; discriminate. }
  change (seq 0 (length (@nil (option nat)))) with (@nil nat) in P. apply Permutation_sym, Permutation_nil in P. exact P.
Qed.

Lemma bfs_singleton_root : bfs [None] = [0].
Proof.
  assert (P : Permutation (bfs [None]) (seq 0 (length [@None nat]))).
  { apply bfs_perm_length; [exact wf_parents_root | simpl; lia]. }
  change (seq 0 (length [@None nat])) with [0] in P. apply Permutation_sym, Permutation_length_1_inv in P. exact P.
Qed.

Lemma run_prog_single_sub env r p :
  run_prog env [CSub r p] = [Node None LNone (OComp r (copy_nodes env (run_prog env p)))].
Proof.
  unfold run_prog. rewrite run_cmds_cons. cbn [run_cmds cmd_op cmd_link]. rewrite add_node_eq.
  unfold new_node, leaf_at_any. cbn [parents map app]. rewrite bfs_nil. reflexivity.
Qed.

(* a circuit holding one un-related sub-circuit lists what the sub-circuit lists stand-alone *)
Lemma listing_single_block env r sub : listing env [Node None LNone (OComp r sub)] = listing env sub.
Proof.
  unfold listing. rewrite listing_op_unfold. cbn [parents map n_parent]. rewrite bfs_singleton_root.
  cbn [flat_map]. rewrite app_nil_r. cbn [map nth n_op n_link sub_ctx]. reflexivity.
Qed.

(* ------------------------------------------------------------------ the operations held by built graphs *)
Lemma add_node_ops_Forall (P : op -> Prop) env ns o l : Forall P (map n_op ns) -> P o -> Forall P (map n_op (add_node env ns o l)).
Proof. intros F Ho. rewrite add_node_ops. apply Forall_app. split; [exact F | constructor; [exact Ho | constructor]]. Qed.

Lemma rebuild_fold_ops_Forall (P : op -> Prop) env ns cops : Forall P cops -> forall is new m,
  Forall P (map n_op new) -> Forall P (map n_op (fst (fold_left (rebuild_step env ns cops) is (new, m)))).
Proof.
  intros HC is. induction is as [|i is IH]; intros new m F; simpl; [exact F|].
  destruct (nth_error ns i) as [n|] eqn:En; [|apply IH; exact F].
  destruct (nth_error cops i) as [o'|] eqn:Eo; [|apply IH; exact F].
  apply IH. apply add_node_ops_Forall; [exact F|]. rewrite Forall_forall in HC. apply HC. eapply nth_error_In. exact Eo.
Qed.

Lemma copy_nodes_ops_Forall (P : op -> Prop) env ns : (forall n, In n ns -> P (copy_op env (n_op n))) ->
  Forall P (map n_op (copy_nodes env ns)).
Proof.
  intros H. rewrite copy_nodes_eq, rebuild_eq. apply rebuild_fold_ops_Forall; [|constructor].
  apply Forall_map. apply Forall_forall. exact H.
Qed.

Lemma extend_fold_ops_Forall (P : op -> Prop) env other rel : Forall P (map n_op other) -> forall is cur m,
  Forall P (map n_op cur) -> Forall P (map n_op (fst (fold_left (extend_step env other rel) is (cur, m)))).
Proof.
  intros HO is. induction is as [|i is IH]; intros cur m F; simpl; [exact F|].
  destruct (nth_error other i) as [n|] eqn:En; [|apply IH; exact F].
  apply IH. apply add_node_ops_Forall; [exact F|]. rewrite Forall_forall in HO. apply HO. apply in_map.
  eapply nth_error_In. exact En.
Qed.

Lemma extend_ops_Forall (P : op -> Prop) env ns other : Forall P (map n_op ns) -> Forall P (map n_op other) ->
  Forall P (map n_op (extend env ns other)).
Proof. intros F1 F2. rewrite extend_eq. apply extend_fold_ops_Forall; assumption. Qed.

Section Faithful.
  (* the two facts about the per-class copy() implementations, read off the generated class table *)
  Hypothesis FL : forall l, copy_leaf l = l.
  Hypothesis FK : forall l, l_keeps l = true.

  Lemma op_keeps_true o : op_keeps o = true.
  Proof. destruct o; simpl; auto. Qed.

  Section Level.
    Variable env : denv.
    Variable ns : list node.
    Hypothesis G : ginv ns.
    Hypothesis AL : all_listed ns.
    Hypothesis CHf : forall n, In n ns -> op_channels (copy_op env (n_op n)) = op_channels (n_op n).

    Let cops := map (fun n => copy_op env (n_op n)) ns.
    Let is := bfs (parents ns).
    Let ns' := renum ns cops is.
    Let ps := parents ns.

    Lemma lv_W : wf_parents ps.
    Proof. exact (proj1 (proj1 G)). Qed.

    Lemma lv_AL : forall i, i < length ps -> depth ps i < max_layers.
    Proof. intros i Hi. apply AL. unfold ps in Hi. now rewrite parents_length in Hi. Qed.

    Lemma lv_In i : In i is <-> i < length ns.
    Proof. unfold is, bfs. fold ps. rewrite (order_In ps max_layers lv_W lv_AL). unfold ps. now rewrite parents_length. Qed.

    Lemma lv_ND : NoDup is.
    Proof. apply bfs_NoDup, lv_W. Qed.

    Lemma lv_length : length is = length ns.
    Proof. unfold is, bfs. fold ps. rewrite (order_length ps max_layers lv_W lv_AL). apply parents_length. Qed.

    Lemma lv_node i : In i is -> exists n, nth_error ns i = Some n.
    Proof.
      intros H. apply lv_In in H. destruct (nth_error ns i) as [n|] eqn:E; [exists n; reflexivity|].
      apply nth_error_None in E. lia.
    Qed.

    Lemma lv_cops i n : nth_error ns i = Some n -> nth i cops (n_op n) = copy_op env (n_op n).
    Proof. intros E. apply nth_error_nth. unfold cops. now rewrite nth_error_map, E. Qed.

    Lemma lv_PB : forall i p, In i is -> nth_error ps i = Some (Some p) -> pos is p < pos is i.
    Proof.
      intros i p Ii E. apply before_pos; [apply lv_ND|]. apply bfs_parent_before; [exact lv_W | exact E | exact Ii].
    Qed.

    Lemma lv_MB : forall i n qs p q, In i is -> nth_error ns i = Some n -> n_link n = LMulti qs -> n_parent n = Some p ->
      In q qs -> pos is q <= pos is p.
    Proof.
      intros i n qs p q Ii En L Ep Iq. destruct (proj2 (proj2 G) i n qs En L) as (p0 & Ep0 & Hq).
      assert (p0 = p) by congruence. subst p0.
      destruct (wf_nodes_link_multi ns i n qs (proj1 G) En L) as (_ & _ & _ & F). rewrite Forall_forall in F.
      assert (Lq : In q is). { apply lv_In. specialize (F q Iq). apply lv_In in Ii. lia. }
      destruct (Hq q Iq Lq) as [-> | B]; [lia|]. apply (before_pos is q p lv_ND) in B. lia.
    Qed.

    Lemma lv_RD : forall i j ni nj, In i is -> nth_error ns i = Some ni -> n_parent ni = None ->
      pos is j < pos is i -> nth_error ns j = Some nj -> any_match (op_channels (n_op ni)) (op_channels (n_op nj)) = false.
    Proof.
      intros i j ni nj Ii Ei Pi H Ej.
      assert (Ij : In j is) by (apply lv_In; apply nth_error_Some; congruence).
      assert (Ri : nth_error ps i = Some None) by (unfold ps; rewrite parents_nth_error, Ei; simpl; now rewrite Pi).
      pose proof (pos_before is j i lv_ND Ij Ii H) as B.
      pose proof (bfs_depth_sorted ps max_layers j i lv_W B) as Dj. rewrite (depth_root _ _ Ri) in Dj.
      assert (Rj : nth_error ps j = Some None).
      { apply depth_zero_inv; [|lia]. unfold ps. rewrite parents_length. apply nth_error_Some. congruence. }
      assert (Pj : n_parent nj = None).
      { unfold ps in Rj. rewrite parents_nth_error, Ej in Rj. simpl in Rj. now injection Rj. }
      assert (Hji : j < i).
      { apply (order_siblings ps max_layers None i j lv_W lv_AL); [intros a Ea; discriminate | exact Ri | exact Rj | exact H]. }
      exact (proj1 (proj2 G) i j ni nj Hji Ei Ej Pi Pj).
    Qed.

    Lemma lv_parents done :
      parents (map (renum_node ns cops is) done) = map (fun i => option_map (pos is) (nth i ps None)) done.
    Proof.
      unfold parents at 1. rewrite map_map. apply map_ext. intros i. unfold renum_node. cbn [n_parent]. f_equal.
      unfold ps, parents. change None with (n_parent dummy_node). symmetry. apply map_nth.
    Qed.

    Lemma lv_renum_parents : parents ns' = renum_parents ps max_layers.
    Proof. unfold ns', renum. rewrite lv_parents. reflexivity. Qed.

    Lemma lv_BI : forall done rest, is = done ++ rest ->
      bfs (parents (map (renum_node ns cops is) done)) = seq 0 (length done).
    Proof.
      intros done rest E. rewrite lv_parents. unfold bfs.
      set (g := fun i => option_map (pos is) (nth i ps None)).
      rewrite <- (map_length g done). apply (bfs_prefix_identity max_layers (map g rest)).
      - rewrite <- map_app, <- E. apply (renum_parents_wf ps max_layers lv_W lv_AL).
      - rewrite <- map_app, <- E. change (map g is) with (renum_parents ps max_layers).
        rewrite (bfs_fuel_renum ps max_layers lv_W lv_AL). now rewrite (renum_parents_length ps max_layers lv_W lv_AL).
    Qed.

    (* (i)+(ii) the copy of this level, given faithful copies of the nested operations *)
    Theorem level_copy : copy_nodes env ns = ns'.
    Proof.
      rewrite copy_nodes_eq, rebuild_eq. fold cops. fold is. apply reinsert_renum.
      - exact (proj1 G).
      - exact lv_ND.
      - intros i Ii. apply lv_In. exact Ii.
      - unfold cops. apply map_length.
      - exact lv_PB.
      - exact lv_MB.
      - intros i n _. apply op_keeps_true.
      - intros i n E. rewrite (lv_cops i n E). apply CHf. eapply nth_error_In. exact E.
      - exact lv_RD.
      - exact lv_BI.
    Qed.

    Theorem level_bfs : bfs (parents ns') = seq 0 (length ns).
    Proof.
      rewrite lv_renum_parents. unfold bfs. rewrite (bfs_fuel_renum ps max_layers lv_W lv_AL). unfold ps.
      now rewrite parents_length.
    Qed.

    Lemma level_length : length ns' = length ns.
    Proof. unfold ns', renum. rewrite map_length. apply lv_length. Qed.

    Lemma level_wf_parents : wf_parents (parents ns').
    Proof. rewrite lv_renum_parents. apply (renum_parents_wf ps max_layers lv_W lv_AL). Qed.

    Theorem level_all_listed : all_listed ns'.
    Proof.
      intros k Hk. rewrite level_length in Hk.
      assert (I : In k (bfs (parents ns'))) by (rewrite level_bfs; apply in_seq; lia).
      apply bfs_In in I; [tauto | exact level_wf_parents].
    Qed.

    Lemma lv_rn i n : nth_error ns i = Some n ->
      renum_node ns cops is i = Node (option_map (pos is) (n_parent n)) (map_link_f (lkb is i) (n_link n)) (copy_op env (n_op n)).
    Proof. intros E. unfold renum_node. now rewrite (nth_error_nth _ _ dummy_node E), (lv_cops i n E). Qed.

    Lemma level_at {B} (F : node -> B) d i : In i is -> nth (pos is i) (map F ns') d = F (renum_node ns cops is i).
    Proof.
      intros Ii. apply nth_error_nth. unfold ns', renum. now rewrite !nth_error_map, (nth_error_pos _ _ Ii).
    Qed.

    Lemma lv_reindex {B} (l : list B) d i : In i is -> nth (pos is i) (map (fun j => nth j l d) is) d = nth i l d.
    Proof. intros Ii. apply nth_error_nth. now rewrite nth_error_map, (nth_error_pos _ _ Ii). Qed.

    (* the links of the copy: every reference re-pointed to the copy of its referent, no member lost *)
    Lemma level_link i n : In i is -> nth_error ns i = Some n ->
      map_link_f (lkb is i) (n_link n) = link_map (pos is) (n_link n).
    Proof.
      intros Ii En. destruct (n_link n) as [|t p|qs|t] eqn:L; try reflexivity.
      - destruct (wf_nodes_link_rel ns i n t p (proj1 G) En L) as [Ep _]. simpl.
        now rewrite (lkb_before is i p (lv_PB i p Ii Ep)).
      - simpl. f_equal. exact (multi_link_kept ns is (proj1 G) lv_PB lv_MB i n qs Ii En L).
    Qed.

    Theorem level_nth i n : nth_error ns i = Some n ->
      nth_error ns' (pos is i) =
        Some (Node (option_map (pos is) (n_parent n)) (link_map (pos is) (n_link n)) (copy_op env (n_op n))).
    Proof.
      intros En. assert (Ii : In i is) by (apply lv_In; apply nth_error_Some; congruence).
      unfold ns', renum. rewrite nth_error_map, (nth_error_pos _ _ Ii). simpl.
      now rewrite (lv_rn i n En), (level_link i n Ii En).
    Qed.

    Theorem level_channels r : op_channels (OComp r ns') = op_channels (OComp r ns).
    Proof.
      rewrite !op_channels_unfold, level_bfs. f_equal. fold is.
      rewrite <- lv_length, <- (map_pos_self is lv_ND), flat_map_map. apply flat_map_ext_in. intros i Ii.
      destruct (lv_node i Ii) as (n & En).
      rewrite (level_at (fun n => op_channels (n_op n)) [] i Ii), (lv_rn i n En). cbn [n_op].
      rewrite (CHf n (nth_error_In _ _ En)). symmetry. apply nth_error_nth. now rewrite nth_error_map, En.
    Qed.

    (* ---------------------------------------------------------------- times, extent, listing *)
    Hypothesis EXf : forall n, In n ns -> ext_of env (copy_op env (n_op n)) = ext_of env (n_op n).

    Theorem level_times c : node_times env c ns' = map (fun j => nth j (node_times env c ns) (0, 0)%Z) is.
    Proof.
      apply renum_node_times.
      - exact (proj1 G).
      - exact lv_ND.
      - intros i Ii. apply lv_In. exact Ii.
      - unfold cops. apply map_length.
      - exact lv_PB.
      - exact lv_MB.
      - intros i n E. rewrite (lv_cops i n E). unfold dur_of. now rewrite (EXf n (nth_error_In _ _ E)).
    Qed.

    Theorem level_ext r : ext_of env (OComp r ns') = ext_of env (OComp r ns).
    Proof.
      rewrite !ext_of_unfold. destruct (Nat.eq_dec (length ns) 0) as [Z | NZ].
      - assert (E1 : parents ns = []) by (apply length_zero_iff_nil; now rewrite parents_length).
        assert (E2 : parents ns' = []) by (apply length_zero_iff_nil; now rewrite parents_length, level_length).
        unfold extent_of_nodes. now rewrite E1, E2.
      - rewrite !extent_of_nodes_cons.
        2: { intros H. apply (f_equal (@length _)) in H. rewrite parents_length in H. simpl in H. lia. }
        2: { intros H. apply (f_equal (@length _)) in H. rewrite parents_length, level_length in H. simpl in H. lia. }
        unfold extent_body. rewrite level_bfs, (level_times None). fold is. fold ps.
        set (tm := node_times env None ns).
        assert (R0 : map (fun i => fst (nth i (map (fun j => nth j tm (0, 0)%Z) is) (0, 0)%Z)) (depth1 (parents ns'))
                     = map (fun i => fst (nth i tm (0, 0)%Z)) (depth1 ps)).
        { unfold depth1. rewrite lv_renum_parents, (depth1_renum ps max_layers lv_W lv_AL), map_map.
          apply map_ext_in. intros i Hi. fold is. rewrite lv_reindex; [reflexivity|].
          apply lv_In. apply children_lt_length in Hi. unfold ps in Hi. now rewrite parents_length in Hi. }
        rewrite R0. set (rel0 := zmin_list 0%Z (map (fun i => fst (nth i tm (0, 0)%Z)) (depth1 ps))).
        rewrite <- lv_length, <- (map_pos_self is lv_ND), fold_left_map. apply fold_left_ext_in. intros acc i Ii.
        destruct (lv_node i Ii) as (n & En).
        rewrite (lv_reindex tm (0, 0)%Z i Ii), (level_at (fun n => ext_of env (n_op n)) (0, 0)%Z i Ii), (lv_rn i n En).
        cbn [n_op]. rewrite (EXf n (nth_error_In _ _ En)).
        rewrite (nth_error_nth (map (fun n => ext_of env (n_op n)) ns) i (0, 0)%Z (x := ext_of env (n_op n))); [reflexivity|].
        now rewrite nth_error_map, En.
    Qed.

    Theorem level_listing r c se :
      (forall n, In n ns -> forall c se, listing_op env (copy_op env (n_op n)) c se = listing_op env (n_op n) c se) ->
      listing_op env (OComp r ns') c se = listing_op env (OComp r ns) c se.
    Proof.
      intros LI. rewrite !listing_op_unfold, level_bfs, (level_times c). fold is.
      rewrite <- lv_length, <- (map_pos_self is lv_ND), flat_map_map. apply flat_map_ext_in. intros i Ii.
      destruct (lv_node i Ii) as (n & En). set (tm := node_times env c ns).
      rewrite (lv_reindex tm (0, 0)%Z i Ii).
      rewrite (level_at (fun n => listing_op env (n_op n)) (fun _ _ => []) i Ii).
      rewrite (level_at n_link LNone i Ii), (lv_rn i n En). cbn [n_op n_link].
      rewrite (LI n (nth_error_In _ _ En)).
      rewrite (proj2 (relink_reads ns is (proj1 G) lv_PB lv_MB c tm _ i n Ii En
                        (fun q Hq => lv_reindex tm (0, 0)%Z q (pos_lt_in is q (Nat.lt_trans _ _ _ Hq (pos_lt is i Ii)))))).
      rewrite (nth_error_nth (map (fun n => listing_op env (n_op n)) ns) i (fun _ _ => []) (x := listing_op env (n_op n)))
        by (now rewrite nth_error_map, En).
      rewrite (nth_error_nth (map n_link ns) i LNone (x := n_link n)) by (now rewrite nth_error_map, En).
      reflexivity.
    Qed.
  End Level.

  (* ---------------------------------------------------------------- C. induction over the nesting *)
  Definition copy_facts (env : denv) (o : op) : Prop :=
    op_channels (copy_op env o) = op_channels o /\ ext_of env (copy_op env o) = ext_of env o /\
    cwf (copy_op env o) /\ copy_op env (copy_op env o) = copy_op env o.

  (* a graph that lists in insertion order and whose nested operations are their own copies is its own copy *)
  Lemma copy_canonical env ns : ginv ns -> all_listed ns -> bfs (parents ns) = seq 0 (length ns) ->
    (forall n, In n ns -> copy_op env (n_op n) = n_op n) -> copy_nodes env ns = ns.
  Proof.
    intros G AL B FX. rewrite (level_copy env ns G AL) by (intros n Hn; now rewrite (FX n Hn)).
    unfold renum. rewrite B.
    transitivity (map (fun k => nth k ns dummy_node) (seq 0 (length ns))); [|apply map_nth_seq].
    apply map_ext_in. intros k Hk. apply in_seq in Hk.
    destruct (nth_error ns k) as [n|] eqn:En; [|apply nth_error_None in En; lia].
    unfold renum_node. rewrite (nth_error_nth _ _ dummy_node En).
    pose proof (proj2 (proj1 G) k n En) as LO. pose proof (proj1 (proj1 G)) as W.
    assert (Hin : In n ns) by (eapply nth_error_In; exact En).
    assert (Ep : nth_error (parents ns) k = Some (n_parent n)) by (rewrite parents_nth_error, En; reflexivity).
    destruct n as [par lk o]. unfold link_ok in LO. cbn [n_parent n_link n_op] in *. f_equal.
    - destruct par as [p|]; [|reflexivity]. simpl. f_equal. apply pos_seq. apply W in Ep. lia.
    - destruct lk as [|t p|qs|t]; simpl; try reflexivity.
      + destruct LO as [_ Hp]. rewrite lkb_before; [now rewrite pos_seq by lia | rewrite !pos_seq by lia; exact Hp].
      + destruct LO as [_ F]. rewrite Forall_forall in F. f_equal.
        rewrite (filter_map_all _ (fun q => q)); [apply map_id|]. intros q Hq. specialize (F q Hq).
        rewrite lkb_before; [now rewrite pos_seq by lia | rewrite !pos_seq by lia; exact F].
      + destruct LO.
    - assert (E : nth_error (map (fun n => copy_op env (n_op n)) ns) k = Some (copy_op env o))
        by (rewrite nth_error_map, En; reflexivity).
      rewrite (nth_error_nth _ _ o E). exact (FX _ Hin).
  Qed.

  Theorem copy_op_facts env o : cwf o -> copy_facts env o.
  Proof.
    induction o as [l | r ns IH] using op_ind'; intros C.
    - unfold copy_facts. cbn [copy_op]. rewrite !FL. repeat split. exact C.
    - apply cwf_comp_inv in C as (G & AL & F).
      assert (X : forall n, In n ns -> copy_facts env (n_op n)).
      { rewrite Forall_forall in IH, F. intros n Hn. apply IH; auto. }
      pose proof (fun n Hn => proj1 (X n Hn)) as CHf. pose proof (fun n Hn => proj1 (proj2 (X n Hn))) as EXf.
      pose proof (level_copy env ns G AL CHf) as LC.
      unfold copy_facts. rewrite copy_op_comp, <- copy_nodes_eq, LC.
      set (ns' := renum ns (map (fun n => copy_op env (n_op n)) ns) (bfs (parents ns))) in *.
      assert (OPS : forall n', In n' ns' -> exists n, In n ns /\ n_op n' = copy_op env (n_op n)).
      { intros n' Hn'. unfold ns', renum in Hn'. apply in_map_iff in Hn' as (i & <- & Ii).
        destruct (lv_node ns G AL i Ii) as (n & En). exists n. split; [eapply nth_error_In; exact En|].
        unfold renum_node. rewrite (nth_error_nth _ _ dummy_node En). cbn [n_op].
        apply nth_error_nth. now rewrite nth_error_map, En. }
      assert (C' : cwf (OComp r ns')).
      { constructor.
        - rewrite <- LC. apply copy_nodes_ginv.
        - exact (level_all_listed env ns G AL).
        - apply Forall_forall. intros n' Hn'. destruct (OPS n' Hn') as (n & Hn & ->).
          exact (proj1 (proj2 (proj2 (X n Hn)))). }
      split; [exact (level_channels env ns G AL CHf r)|]. split; [exact (level_ext env ns G AL EXf r)|].
      split; [exact C'|].
      rewrite copy_op_comp, <- copy_nodes_eq. f_equal. apply cwf_comp_inv in C' as (G' & AL' & _).
      apply copy_canonical; auto.
      + unfold ns'. rewrite (level_bfs env ns G AL), (level_length env ns G AL). reflexivity.
      + intros n' Hn'. destruct (OPS n' Hn') as (n & Hn & ->). exact (proj2 (proj2 (proj2 (X n Hn)))).
  Qed.

  Theorem copy_listing env o : cwf o -> forall c se, listing_op env (copy_op env o) c se = listing_op env o c se.
  Proof.
    induction o as [l | r ns IH] using op_ind'; intros C c se.
    - cbn [copy_op]. now rewrite FL.
    - apply cwf_comp_inv in C as (G & AL & F). rewrite Forall_forall in IH, F.
      assert (X : forall n, In n ns -> copy_facts env (n_op n)) by (intros n Hn; apply copy_op_facts; auto).
      rewrite copy_op_comp, <- copy_nodes_eq, (level_copy env ns G AL (fun n Hn => proj1 (X n Hn))).
      apply (level_listing env ns G AL (fun n Hn => proj1 (proj2 (X n Hn)))).
      intros n Hn. apply IH; auto.
  Qed.

  Lemma copy_op_nodes env r ns : copy_op env (OComp r ns) = OComp r (copy_nodes env ns).
  Proof. now rewrite copy_op_comp, copy_nodes_eq. Qed.

  (* ---------------------------------------------------------------- the main statements *)
  (* the copy is the original renumbered in listing order: sigma = position in the listing *)
  Theorem copy_iso env r ns : cwf (OComp r ns) ->
    let is := bfs (parents ns) in
    let sigma := pos is in
    Permutation is (seq 0 (length ns)) /\
    copy_nodes env ns =
      map (fun i => let n := nth i ns dummy_node in
                    Node (option_map sigma (n_parent n)) (link_map sigma (n_link n)) (copy_op env (n_op n))) is /\
    (forall i n, nth_error ns i = Some n ->
       nth_error (copy_nodes env ns) (sigma i) =
         Some (Node (option_map sigma (n_parent n)) (link_map sigma (n_link n)) (copy_op env (n_op n)))) /\
    bfs (parents (copy_nodes env ns)) = seq 0 (length ns).
  Proof.
    intros C is sigma. apply cwf_comp_inv in C as (G & AL & F).
    rewrite Forall_forall in F.
    assert (X : forall n, In n ns -> copy_facts env (n_op n)) by (intros n Hn; apply copy_op_facts; auto).
    pose proof (level_copy env ns G AL (fun n Hn => proj1 (X n Hn))) as LC. rewrite LC.
    split; [|split; [|split]].
    - unfold is. rewrite <- (parents_length ns). apply bfs_perm; [exact (proj1 (proj1 G))|].
      intros i Hi. apply AL. now rewrite parents_length in Hi.
    - unfold renum. apply map_ext_in. intros i Ii. destruct (lv_node ns G AL i Ii) as (n & En).
      rewrite (lv_rn env ns i n En), (level_link ns G AL i n Ii En). now rewrite (nth_error_nth _ _ dummy_node En).
    - intros i n En. exact (level_nth env ns G AL i n En).
    - exact (level_bfs env ns G AL).
  Qed.

  Theorem copy_same_listing env ns : cwf (OComp 1%Z ns) -> listing env (copy_nodes env ns) = listing env ns.
  Proof. intros C. unfold listing. rewrite <- copy_op_nodes. apply copy_listing. exact C. Qed.

  Theorem copy_same_duration env ns : cwf (OComp 1%Z ns) -> comp_duration env (copy_nodes env ns) = comp_duration env ns.
  Proof.
    intros C. unfold comp_duration, dur_of. rewrite <- copy_op_nodes.
    now rewrite (proj1 (proj2 (copy_op_facts env _ C))).
  Qed.

  Theorem copy_same_channels env r ns : cwf (OComp r ns) ->
    op_channels (OComp r (copy_nodes env ns)) = op_channels (OComp r ns).
  Proof. intros C. rewrite <- copy_op_nodes. exact (proj1 (copy_op_facts env _ C)). Qed.

  Theorem copy_cwf env r ns : cwf (OComp r ns) -> cwf (OComp r (copy_nodes env ns)).
  Proof. intros C. rewrite <- copy_op_nodes. exact (proj1 (proj2 (proj2 (copy_op_facts env _ C)))). Qed.

  (* a copy of a copy is the copy *)
  Theorem copy_copy env ns : cwf (OComp 1%Z ns) -> copy_nodes env (copy_nodes env ns) = copy_nodes env ns.
  Proof.
    intros C. pose proof (proj2 (proj2 (proj2 (copy_op_facts env _ C)))) as E.
    rewrite !copy_op_nodes in E. now injection E.
  Qed.

  (* ---------------------------------------------------------------- D. programs *)
  Lemma run_prog_cwf_gen env r p : (Z.of_nat (length p) <= 4999)%Z -> Forall (fun c => cwf (cmd_op env c)) p ->
    cwf (OComp r (run_prog env p)).
  Proof.
    intros SL F. constructor.
    - apply run_prog_ginv.
    - apply small_all_listed; [apply run_prog_wf|]. unfold run_prog. rewrite run_cmds_length. simpl.
      pose proof max_layers_eq. lia.
    - apply Forall_map. unfold run_prog. rewrite run_cmds_ops. simpl. apply Forall_map. exact F.
  Qed.

  Lemma cmd_op_cwf env c : sized_cmd c -> cwf (cmd_op env c).
  Proof.
    induction c as [l r | l t | r body IH] using cmd_ind'; intros S; [constructor | constructor | ].
    inversion S as [| | ? ? SL SB]; subst. cbn [cmd_op]. change (run_cmds env body []) with (run_prog env body).
    apply copy_cwf. apply run_prog_cwf_gen; [exact SL|]. rewrite Forall_forall in *. intros c Hc. apply IH; auto.
  Qed.

  Theorem run_prog_cwf env r p : sized_prog p -> cwf (OComp r (run_prog env p)).
  Proof.
    intros [SL SB]. apply run_prog_cwf_gen; [exact SL|]. rewrite Forall_forall in *. intros c Hc. apply cmd_op_cwf; auto.
  Qed.

  Theorem prog_copy_same_listing env p : sized_prog p ->
    listing env (copy_nodes env (run_prog env p)) = listing env (run_prog env p).
  Proof. intros S. apply copy_same_listing. apply run_prog_cwf. exact S. Qed.

  (* implicit copy: the circuit added as a sub-circuit of an empty circuit *)
  Theorem prog_nested_same_listing env p : sized_prog p ->
    listing env (run_prog env [CSub 1%Z p]) = listing env (run_prog env p).
  Proof. intros S. rewrite run_prog_single_sub, listing_single_block. apply prog_copy_same_listing. exact S. Qed.

  (* a repetition unrolled at this level (repeat_nodes: copies appended with multi-links) is again such a graph *)
  Lemma copy_nodes_children_cwf env ns : Forall cwf (map n_op ns) -> Forall cwf (map n_op (copy_nodes env ns)).
  Proof.
    intros F. apply copy_nodes_ops_Forall. intros n Hn.
    apply (copy_op_facts env (n_op n)). rewrite Forall_forall in F. apply F. apply in_map. exact Hn.
  Qed.

  Theorem repeat_nodes_cwf env r ns k : cwf (OComp r ns) -> all_listed (repeat_nodes env ns k) ->
    cwf (OComp r (repeat_nodes env ns k)).
  Proof.
    intros C AL. apply cwf_comp_inv in C as (G & _ & F). constructor; [apply repeat_nodes_ginv; exact G | exact AL |].
    apply Forall_map. unfold repeat_nodes. apply (iter_n_inv (fun x => Forall cwf (map n_op x))).
    - intros x Hx. apply extend_ops_Forall; [exact Hx|]. apply copy_nodes_children_cwf, copy_nodes_children_cwf.
      apply Forall_map. exact F.
    - apply Forall_map. exact F.
  Qed.
End Faithful.
