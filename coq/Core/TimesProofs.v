(* The times table of one graph (Core.Model.times): length, prefix stability, soundness against the FINAL table, uniqueness of
   the solution of the scheduling relations, behaviour under a change of the enclosing context (shift).
   Depends on Core.Model only.  Well-formedness of links (references point backwards) is the hypothesis `wf_links`;
   that every graph the model builds satisfies it is proved in Core/TimesWf.v from Core/BfsWf.v. *)
From Coq Require Import ZArith List Bool Lia ZifyBool Arith.
Import ListNotations.
From QCE Require Import Base.Prelude Core.Model.
From Gen Require Import Ident Classes.
Open Scope Z_scope.

(* ------------------------------------------------------------------ well-formed links *)
Definition link_below (l : link) (i : nat) : Prop :=
  match l with
  | LRel _ p => (p < i)%nat
  | LMulti ps => Forall (fun p => (p < i)%nat) ps
  | LNone | LDangling _ => True
  end.

Definition wf_links (hs : list (link * Z)) : Prop :=
  forall i l d, nth_error hs i = Some (l, d) -> link_below l i.

Lemma link_below_mono l i j : (i <= j)%nat -> link_below l i -> link_below l j.
Proof.
  intros Hij. destruct l as [|t p|ps|t]; simpl; auto.
  - lia.
  - intros H. eapply Forall_impl; [|exact H]. simpl. intros; lia.
Qed.

Lemma wf_links_app_l hs hs' : wf_links (hs ++ hs') -> wf_links hs.
Proof.
  intros W i l d E. apply (W i l d). rewrite nth_error_app1; [exact E|].
  apply nth_error_Some. congruence.
Qed.

Lemma wf_links_last hs l d : wf_links (hs ++ [(l, d)]) -> link_below l (length hs).
Proof.
  intros W. apply (W (length hs) l d). rewrite nth_error_app2 by lia. now rewrite Nat.sub_diag.
Qed.

Lemma wf_links_nil : wf_links [].
Proof. intros [|i] l d E; discriminate. Qed.

Lemma wf_links_snoc hs l d : wf_links hs -> link_below l (length hs) -> wf_links (hs ++ [(l, d)]).
Proof.
  intros W B i l' d' E. destruct (Nat.lt_ge_cases i (length hs)) as [Hi | Hi].
  - rewrite nth_error_app1 in E by exact Hi. exact (W _ _ _ E).
  - rewrite nth_error_app2 in E by exact Hi. destruct (i - length hs)%nat as [|k] eqn:K; simpl in E.
    + inversion E; subst. replace i with (length hs) by lia. exact B.
    + destruct k; discriminate.
Qed.

(* ------------------------------------------------------------------ 1. length, prefix stability *)
Lemma times_acc_app c hs1 hs2 acc : times_acc c (hs1 ++ hs2) acc = times_acc c hs2 (times_acc c hs1 acc).
Proof. revert acc; induction hs1 as [|[l d] t IH]; intros acc; simpl; [reflexivity | apply IH]. Qed.

(* the accumulator is only ever extended *)
Lemma times_acc_prefix c hs : forall acc, exists tl, times_acc c hs acc = acc ++ tl /\ length tl = length hs.
Proof.
  induction hs as [|[l d] t IH]; intros acc; simpl.
  - exists []. rewrite app_nil_r. auto.
  - destruct (IH (acc ++ [(link_start c acc l d, link_start c acc l d + d)])) as (tl & E & L).
    exists ((link_start c acc l d, link_start c acc l d + d) :: tl). rewrite E, <- app_assoc. simpl.
    split; [reflexivity | now rewrite L].
Qed.

Lemma times_acc_length c hs acc : length (times_acc c hs acc) = (length acc + length hs)%nat.
Proof. destruct (times_acc_prefix c hs acc) as (tl & E & L). rewrite E, app_length, L. reflexivity. Qed.

Theorem times_length c hs : length (times c hs) = length hs.
Proof. unfold times. rewrite times_acc_length. reflexivity. Qed.

Lemma times_nil c : times c [] = [].
Proof. reflexivity. Qed.

Lemma times_snoc c hs l d :
  times c (hs ++ [(l, d)]) = times c hs ++ [(link_start c (times c hs) l d, link_start c (times c hs) l d + d)].
Proof. unfold times. rewrite times_acc_app. reflexivity. Qed.

(* appending nodes never changes the entries of the earlier ones *)
Theorem times_app_prefix c hs hs' : exists tl, times c (hs ++ hs') = times c hs ++ tl /\ length tl = length hs'.
Proof. unfold times. rewrite times_acc_app. apply times_acc_prefix. Qed.

Lemma firstn_length_app {A} (a b : list A) : firstn (length a) (a ++ b) = a.
Proof. induction a as [|x a IH]; simpl; [now destruct b | now rewrite IH]. Qed.

Theorem times_prefix_stable c hs hs' : firstn (length hs) (times c (hs ++ hs')) = times c hs.
Proof.
  destruct (times_app_prefix c hs hs') as (tl & E & _). rewrite E.
  rewrite <- (times_length c hs). apply firstn_length_app.
Qed.

Theorem times_prefix_nth c hs hs' j dflt : (j < length hs)%nat -> nth j (times c (hs ++ hs')) dflt = nth j (times c hs) dflt.
Proof.
  intros Hj. destruct (times_app_prefix c hs hs') as (tl & E & _). rewrite E.
  apply app_nth1. now rewrite times_length.
Qed.

(* entry i is computed from the table of the first i nodes, and stays *)
Lemma times_nth c hs i l d : nth_error hs i = Some (l, d) ->
  firstn i (times c hs) = times c (firstn i hs) /\
  nth i (times c hs) (0, 0) =
    (link_start c (times c (firstn i hs)) l d, link_start c (times c (firstn i hs)) l d + d).
Proof.
  intros E. apply nth_error_split in E as (l1 & l2 & E & L). subst hs i.
  rewrite firstn_length_app. split.
  - apply times_prefix_stable.
  - change ((l, d) :: l2) with ([(l, d)] ++ l2). rewrite app_assoc.
    rewrite (times_prefix_nth c (l1 ++ [(l, d)]) l2) by (rewrite app_length; simpl; lia).
    rewrite times_snoc. rewrite <- (times_length c l1). apply nth_middle.
Qed.

(* end = start + duration holds without any hypothesis *)
Lemma times_end c hs i l d : nth_error hs i = Some (l, d) ->
  snd (nth i (times c hs) (0, 0)) = fst (nth i (times c hs) (0, 0)) + d.
Proof. intros E. destruct (times_nth c hs i l d E) as [_ ->]. reflexivity. Qed.

(* ------------------------------------------------------------------ 2. link_start reads only the referenced entries *)
Definition agree_below (i : nat) (tm tm' : list (Z * Z)) : Prop :=
  forall j, (j < i)%nat -> nth j tm (0, 0) = nth j tm' (0, 0).

Lemma multi_ref_from_agree i tm tm' : agree_below i tm tm' -> forall ps best,
  Forall (fun p => (p < i)%nat) ps -> (best < i)%nat -> multi_ref_from tm ps best = multi_ref_from tm' ps best.
Proof.
  intros A ps. induction ps as [|p t IH]; intros best F Hb; simpl; [reflexivity|].
  inversion F as [|? ? Hp Ft]; subst. rewrite (A p Hp), (A best Hb).
  destruct (snd (nth p tm' (0, 0)) >? snd (nth best tm' (0, 0))); apply IH; assumption.
Qed.

Lemma multi_ref_agree i tm tm' ps : agree_below i tm tm' -> Forall (fun p => (p < i)%nat) ps ->
  multi_ref tm ps = multi_ref tm' ps.
Proof.
  intros A F. destruct ps as [|p t]; simpl; [reflexivity|]. inversion F; subst. f_equal.
  apply (multi_ref_from_agree i); assumption.
Qed.

Lemma multi_ref_from_In tm ps best : In (multi_ref_from tm ps best) (best :: ps).
Proof.
  revert best; induction ps as [|p t IH]; intros best; simpl; [auto|].
  destruct (snd (nth p tm (0, 0)) >? snd (nth best tm (0, 0))).
  - right. apply IH.
  - destruct (IH best) as [E | E]; [left; exact E | right; right; exact E].
Qed.

Lemma multi_ref_In tm ps m : multi_ref tm ps = Some m -> In m ps.
Proof. destruct ps as [|p t]; simpl; [discriminate|]. intros E. inversion E. apply multi_ref_from_In. Qed.

Lemma multi_ref_none tm ps : multi_ref tm ps = None -> ps = [].
Proof. destruct ps; simpl; [reflexivity | discriminate]. Qed.

Lemma link_start_agree c i tm tm' l d : agree_below i tm tm' -> link_below l i ->
  link_start c tm l d = link_start c tm' l d.
Proof.
  intros A B. destruct l as [|t p|ps|t]; simpl in *; try reflexivity.
  - now rewrite (A p B).
  - rewrite (multi_ref_agree i tm tm' ps A B). destruct (multi_ref tm' ps) as [m|] eqn:E; [|reflexivity].
    apply multi_ref_In in E. rewrite Forall_forall in B. now rewrite (A m (B m E)).
Qed.

Lemma sub_ctx_agree c i tm tm' l : agree_below i tm tm' -> link_below l i -> sub_ctx c tm l = sub_ctx c tm' l.
Proof.
  intros A B. destruct l as [|t p|ps|t]; simpl in *; try reflexivity.
  - now rewrite (A p B).
  - rewrite (multi_ref_agree i tm tm' ps A B). destruct (multi_ref tm' ps) as [m|] eqn:E; [|reflexivity].
    apply multi_ref_In in E. rewrite Forall_forall in B. now rewrite (A m (B m E)).
Qed.

Lemma times_agree_firstn c hs i : (i <= length hs)%nat -> agree_below i (times c (firstn i hs)) (times c hs).
Proof.
  intros Hi j Hj. rewrite <- (firstn_skipn i hs) at 2. symmetry. apply times_prefix_nth.
  rewrite firstn_length. lia.
Qed.

(* ------------------------------------------------------------------ 2. soundness against the final table *)
Theorem times_sound c hs : wf_links hs -> forall i l d, nth_error hs i = Some (l, d) ->
  nth i (times c hs) (0, 0) = (link_start c (times c hs) l d, link_start c (times c hs) l d + d).
Proof.
  intros W i l d E. destruct (times_nth c hs i l d E) as [_ ->].
  assert (Hi : (i < length hs)%nat) by (apply nth_error_Some; congruence).
  rewrite (link_start_agree c i _ (times c hs) l d); [reflexivity | apply times_agree_firstn; lia | exact (W _ _ _ E)].
Qed.

(* the multi-link referent: a member, latest-ending among the members, and the first such *)
Definition multi_first_latest (tm : list (Z * Z)) (ps : list nat) (m : nat) : Prop :=
  exists l1 l2, ps = l1 ++ m :: l2 /\
    (forall p, In p l1 -> snd (nth p tm (0, 0)) < snd (nth m tm (0, 0))) /\
    (forall p, In p l2 -> snd (nth p tm (0, 0)) <= snd (nth m tm (0, 0))).

Lemma multi_ref_from_spec tm ps : forall best, multi_first_latest tm (best :: ps) (multi_ref_from tm ps best).
Proof.
  induction ps as [|p t IH]; intros best; simpl.
  - exists [], []. split; [reflexivity|]. split; intros q [].
  - destruct (snd (nth p tm (0, 0)) >? snd (nth best tm (0, 0))) eqn:G.
    + destruct (IH p) as (l1 & l2 & E & H1 & H2). remember (multi_ref_from tm t p) as m eqn:Em. clear Em.
      exists (best :: l1), l2. split; [simpl; now rewrite E|].
      split; [|exact H2]. intros q [<- | Hq]; [|apply H1; exact Hq].
      destruct l1 as [|x l1]; simpl in E; inversion E; subst.
      * lia.
      * specialize (H1 x (or_introl eq_refl)). lia.
    + destruct (IH best) as (l1 & l2 & E & H1 & H2). remember (multi_ref_from tm t best) as m eqn:Em. clear Em.
      destruct l1 as [|x l1]; simpl in E; inversion E; subst.
      * exists [], (p :: l2). split; [reflexivity|]. split; [intros q []|].
        intros q [<- | Hq]; [lia | apply H2; exact Hq].
      * exists (x :: p :: l1), l2. split; [reflexivity|]. split; [|exact H2].
        intros q [<- | [<- | Hq]].
        -- apply H1. left; reflexivity.
        -- specialize (H1 x (or_introl eq_refl)). lia.
        -- apply H1. right; exact Hq.
Qed.

Theorem multi_ref_spec tm ps m : multi_ref tm ps = Some m -> multi_first_latest tm ps m.
Proof. destruct ps as [|p t]; simpl; [discriminate|]. intros E. inversion E. apply multi_ref_from_spec. Qed.

Lemma multi_first_latest_max tm ps m : multi_first_latest tm ps m ->
  In m ps /\ forall p, In p ps -> snd (nth p tm (0, 0)) <= snd (nth m tm (0, 0)).
Proof.
  intros (l1 & l2 & -> & H1 & H2). split; [apply in_or_app; right; left; reflexivity|].
  intros p Hp. apply in_app_or in Hp as [Hp | [E | Hp]]; [specialize (H1 p Hp) | rewrite E | specialize (H2 p Hp)]; lia.
Qed.

(* the member is determined by the property (so the equation has one solution) *)
Lemma multi_first_latest_unique tm ps m m' : multi_first_latest tm ps m -> multi_first_latest tm ps m' -> m = m'.
Proof.
  intros (a1 & a2 & Ea & A1 & A2) (b1 & b2 & Eb & B1 & B2). subst ps.
  revert b1 Eb B1. induction a1 as [|x a1 IH]; intros b1 Eb B1.
  - destruct b1 as [|y b1]; simpl in Eb; injection Eb as E1 E2; [exact E1|]. subst y a2.
    specialize (B1 m (or_introl eq_refl)).
    assert (In m' (b1 ++ m' :: b2)) as Hm by (apply in_or_app; right; left; reflexivity).
    specialize (A2 m' Hm). lia.
  - destruct b1 as [|y b1]; simpl in Eb; injection Eb as E1 E2.
    + subst x b2. specialize (A1 m' (or_introl eq_refl)).
      assert (In m (a1 ++ m :: a2)) as Hm by (apply in_or_app; right; left; reflexivity).
      specialize (B2 m Hm). lia.
    + subst y. apply (IH (fun p Hp => A1 p (or_intror Hp)) b1); [exact E2|]. intros p Hp. apply B1. right; exact Hp.
Qed.

(* ------------------------------------------------------------------ 3. uniqueness *)
Definition times_solution (c : ctx) (hs : list (link * Z)) (tm : list (Z * Z)) : Prop :=
  length tm = length hs /\
  forall i l d, nth_error hs i = Some (l, d) -> nth i tm (0, 0) = (link_start c tm l d, link_start c tm l d + d).

Theorem times_is_solution c hs : wf_links hs -> times_solution c hs (times c hs).
Proof. intros W. split; [apply times_length | apply times_sound; exact W]. Qed.

Theorem times_unique c hs tm' : wf_links hs -> times_solution c hs tm' -> tm' = times c hs.
Proof.
  intros W [L S].
  assert (A : forall i, (i < length hs)%nat -> nth i tm' (0, 0) = nth i (times c hs) (0, 0)).
  { intros i. induction i as [i IH] using lt_wf_ind. intros Hi.
    destruct (nth_error hs i) as [[l d]|] eqn:E; [|apply nth_error_None in E; lia].
    rewrite (S _ _ _ E), (times_sound c hs W _ _ _ E).
    rewrite (link_start_agree c i tm' (times c hs) l d); [reflexivity | | exact (W _ _ _ E)].
    intros j Hj. apply IH; lia. }
  apply (nth_ext _ _ (0, 0) (0, 0)); [now rewrite times_length|]. intros i Hi. apply A. lia.
Qed.

(* ------------------------------------------------------------------ 4. change of context = common shift *)
Definition shift (T : Z) (se : Z * Z) : Z * Z := (fst se + T, snd se + T).

(* context c places un-related nodes T later than context c' does, whatever their duration *)
Definition ctx_shift (c c' : ctx) (T : Z) : Prop := forall d, ctx_start c d = ctx_start c' d + T.

Lemma nth_map_shift T tm p : (p < length tm)%nat -> nth p (map (shift T) tm) (0, 0) = shift T (nth p tm (0, 0)).
Proof.
  intros Hp. rewrite (nth_indep _ (0, 0) (shift T (0, 0))) by now rewrite map_length. apply map_nth.
Qed.

Lemma multi_ref_from_shift T tm ps : forall best, Forall (fun p => (p < length tm)%nat) ps -> (best < length tm)%nat ->
  multi_ref_from (map (shift T) tm) ps best = multi_ref_from tm ps best.
Proof.
  induction ps as [|p t IH]; intros best F Hb; simpl; [reflexivity|]. inversion F as [|? ? Hp Ft]; subst.
  rewrite !nth_map_shift by assumption. unfold shift at 1 2. simpl.
  destruct (snd (nth p tm (0, 0)) >? snd (nth best tm (0, 0))) eqn:G1;
    destruct (snd (nth p tm (0, 0)) + T >? snd (nth best tm (0, 0)) + T) eqn:G2; try lia; apply IH; assumption.
Qed.

Lemma multi_ref_shift T tm ps : Forall (fun p => (p < length tm)%nat) ps ->
  multi_ref (map (shift T) tm) ps = multi_ref tm ps.
Proof.
  intros F. destruct ps as [|p t]; simpl; [reflexivity|]. inversion F; subst. f_equal.
  apply multi_ref_from_shift; assumption.
Qed.

Lemma start_from_shift t rs re d T : start_from t (rs + T) (re + T) d = start_from t rs re d + T.
Proof. destruct t; simpl; lia. Qed.

Lemma link_start_shift c c' T tm l d : ctx_shift c c' T -> link_below l (length tm) ->
  link_start c (map (shift T) tm) l d = link_start c' tm l d + T.
Proof.
  intros C B. destruct l as [|t p|ps|t]; simpl in *; try apply C.
  - rewrite nth_map_shift by exact B. destruct (nth p tm (0, 0)) as [rs re]. unfold shift; simpl.
    apply start_from_shift.
  - rewrite multi_ref_shift by exact B. destruct (multi_ref tm ps) as [m|] eqn:E; [|apply C].
    apply multi_ref_In in E. rewrite Forall_forall in B. rewrite nth_map_shift by (apply B; exact E). reflexivity.
Qed.

Theorem times_shift_gen c c' T hs : ctx_shift c c' T -> wf_links hs -> times c hs = map (shift T) (times c' hs).
Proof.
  intros C. induction hs as [|[l d] hs IH] using rev_ind; intros W; [reflexivity|].
  rewrite !times_snoc, map_app, <- (IH (wf_links_app_l _ _ W)). simpl. f_equal.
  rewrite (IH (wf_links_app_l _ _ W)).
  rewrite (link_start_shift c c' T (times c' hs) l d C) by (rewrite times_length; apply (wf_links_last _ _ _ W)).
  unfold shift; simpl. f_equal. f_equal. lia.
Qed.

(* contexts that place every un-related node at one instant: none (the origin), FOLLOWED_BY, JOINED_START *)
Definition ctx_plain (c : ctx) : Prop :=
  match c with Some (RelationType_JOINED_END, _, _) => False | _ => True end.

Lemma ctx_plain_const c d : ctx_plain c -> ctx_start c d = ctx_start c 0.
Proof. destruct c as [[[[] rs] re]|]; simpl; intros H; try reflexivity; contradiction. Qed.

Lemma ctx_plain_shift c : ctx_plain c -> ctx_shift c None (ctx_start c 0).
Proof. intros P d. rewrite (ctx_plain_const c d P). simpl. lia. Qed.

Theorem times_shift t rs re hs : t <> RelationType_JOINED_END -> wf_links hs ->
  times (Some (t, rs, re)) hs = map (shift (start_from t rs re 0)) (times None hs).
Proof.
  intros Ht W. apply times_shift_gen; [|exact W].
  apply (ctx_plain_shift (Some (t, rs, re))). destruct t; simpl; auto.
Qed.

Corollary times_shift_plain c hs : ctx_plain c -> wf_links hs -> times c hs = map (shift (ctx_start c 0)) (times None hs).
Proof. intros P W. apply times_shift_gen; [apply ctx_plain_shift; exact P | exact W]. Qed.

(* JOINED_END context: every un-related node ENDS at the referent's end; two such contexts differ by a common shift, but
   there is no common shift from the stand-alone table (nodes of different duration move by different amounts) *)
Lemma times_joined_end_unrelated rs re hs i l d : nth_error hs i = Some (l, d) -> has_relation l = false ->
  snd (nth i (times (Some (RelationType_JOINED_END, rs, re)) hs) (0, 0)) = re.
Proof.
  intros E R. destruct (times_nth (Some (RelationType_JOINED_END, rs, re)) hs i l d E) as [_ ->].
  destruct l as [|t p|[|p ps]|t]; simpl in *; try discriminate; lia.
Qed.

Lemma times_joined_end_shift rs re rs' re' hs : wf_links hs ->
  times (Some (RelationType_JOINED_END, rs, re)) hs
  = map (shift (re - re')) (times (Some (RelationType_JOINED_END, rs', re')) hs).
Proof. intros W. apply times_shift_gen; [|exact W]. intros d. simpl. lia. Qed.

Example times_joined_end_no_common_shift :
  let hs := [(LNone, 1); (LNone, 3)] in
  times (Some (RelationType_JOINED_END, 0, 10)) hs = [(9, 10); (7, 10)] /\ times None hs = [(0, 1); (0, 3)].
Proof. vm_compute. split; reflexivity. Qed.

(* a reference that is out of range at the time of computation reads (0, 0): wf_links is needed for the shift *)
Example times_shift_needs_wf :
  times (Some (RelationType_FOLLOWED_BY, 0, 10)) [(LRel RelationType_FOLLOWED_BY 5%nat, 1)] = [(0, 1)].
Proof. vm_compute. reflexivity. Qed.
